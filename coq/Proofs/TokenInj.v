(* The token sequence determines the document: two documents in normal form (no empty text, no adjacent
   text nodes with equal marks, leaf nodes without content) whose token sequences are equal up to Python's
   True == 1 are equal as documents (Node.eq).  This turns the token-level laws (undo, merge, commute) into
   statements about document equality. *)
From Coq Require Import ZArith NArith List Bool Arith Lia String.
From PM Require Import Model.Data Model.Mark Model.Tree Spec.Tokens Proofs.DataProofs Proofs.NodeInd
  Proofs.TokenBasics Proofs.ReplaceTokens.
Import ListNotations.
Local Open Scope nat_scope.
Local Open Scope list_scope.

(* ------------------------------------------------------------------ equal normal forms are == *)
Fixpoint json_norm_eqb (a b : json) {struct a} : jnorm a = jnorm b -> json_eqb a b = true.
Proof.
  destruct a, b; simpl; try discriminate; auto.
  - intros H. inversion H as [H1]. destruct b, b0; try reflexivity; discriminate.
  - intros H. inversion H as [H1]. subst. apply Z.eqb_refl.
  - intros H. inversion H as [H1]. subst. apply Z.eqb_refl.
  - intros H. inversion H. apply Z.eqb_refl.
  - intros H. inversion H. subst. clear H. induction s0 as [|x s0 IH]; simpl; auto. rewrite N.eqb_refl. exact IH.
  - intros H. inversion H as [H1]. clear H. revert l0 H1.
    induction l as [|x l IH]; destruct l0 as [|y l0]; simpl; try discriminate; auto.
    intros H. inversion H as [[Hx Hl]]. rewrite (json_norm_eqb x y Hx). simpl. apply IH. exact Hl.
  - intros H. inversion H as [H1]. clear H. revert l0 H1.
    induction l as [|[k x] l IH]; destruct l0 as [|[k' y] l0]; simpl; try discriminate; auto.
    intros H. inversion H as [[Hk Hx Hl]]. subst k'. unfold string_eqb. rewrite String.eqb_refl. rewrite (json_norm_eqb x y Hx). simpl.
    apply IH. exact Hl.
Qed.

Lemma attrs_norm_eqb a : forall b, anorm a = anorm b -> attrs_eqb a b = true.
Proof.
  induction a as [|[k x] a IH]; destruct b as [|[k' y] b]; simpl; try discriminate; auto.
  intros H. inversion H as [[Hk Hx Hl]]. subst k'. unfold string_eqb. rewrite String.eqb_refl, (json_norm_eqb _ _ Hx). simpl. apply IH. exact Hl.
Qed.
Lemma mark_norm_eqb a b : mnorm a = mnorm b -> mark_eqb a b = true.
Proof.
  unfold mnorm, mark_eqb. intros H. inversion H as [[H1 H2]]. rewrite H1, Nat.eqb_refl. simpl. apply attrs_norm_eqb. exact H2.
Qed.
Lemma marks_norm_eqb a : forall b, msnorm a = msnorm b -> marks_eqb a b = true.
Proof.
  induction a as [|x a IH]; destruct b as [|y b]; simpl; try discriminate; auto.
  intros H. cbn [msnorm List.map] in H.
  assert (H1 : mnorm x = mnorm y) by (apply (f_equal (@hd mark x)) in H; exact H).
  assert (H2 : msnorm a = msnorm b) by (apply (f_equal (@tl mark)) in H; exact H).
  rewrite (mark_norm_eqb _ _ H1). simpl. apply IH. exact H2.
Qed.

Lemma cps_eqb_refl t : cps_eqb t t = true.
Proof. induction t as [|x t IH]; simpl; auto. rewrite N.eqb_refl. exact IH. Qed.

Lemma units_inj : forall t t', units t = units t' -> t = t'.
Proof.
  induction t as [|c t IH]; destruct t' as [|c' t']; simpl; auto.
  - destruct (N.leb 65536 c'); discriminate.
  - destruct (N.leb 65536 c); discriminate.
  - destruct (N.leb 65536 c) eqn:E1; destruct (N.leb 65536 c') eqn:E2; intros H; inversion H; subst; f_equal; auto.
Qed.

(* ------------------------------------------------------------------ runs of characters with the same marks *)
Definition NoStart (M : list mark) (R : list tok) : Prop :=
  match R with TChar _ M' :: _ => M' <> M | _ => True end.

Lemma run_inj M : forall U1 U2 R1 R2,
  List.map (fun u => TChar u M) U1 ++ R1 = List.map (fun u => TChar u M) U2 ++ R2 ->
  NoStart M R1 -> NoStart M R2 -> U1 = U2 /\ R1 = R2.
Proof.
  induction U1 as [|u U1 IH]; intros U2 R1 R2 H N1 N2.
  - destruct U2 as [|u' U2]; [auto|]. cbn in H. subst R1. cbn in N1. contradiction.
  - destruct U2 as [|u' U2].
    + cbn in H. subst R2. cbn in N2. contradiction.
    + cbn in H. inversion H as [[Hu Hr]]. destruct (IH _ _ _ Hr N1 N2) as (-> & ->). auto.
Qed.

Section WithSchema.
Variable s : schema.
Notation toks := (toks s).
Notation ftoks := (ftoks s).

(* normal form *)
Fixpoint canon (n : node) : bool :=
  match n with
  | Text t _ => match t with [] => false | _ => true end
  | Elem ty _ _ cs =>
    (if is_leaf_ty s ty then match cs with [] => true | _ => false end else true) &&
    (fix go (l : list node) : bool :=
       match l with
       | [] => true
       | x :: r =>
         canon x &&
         (match x, r with
          | Text _ m, Text _ m' :: _ => negb (marks_eqb m m')
          | _, _ => true
          end) && go r
       end) cs
  end.
Fixpoint canon_list (l : list node) : bool :=
  match l with
  | [] => true
  | x :: r =>
    canon x &&
    (match x, r with
     | Text _ m, Text _ m' :: _ => negb (marks_eqb m m')
     | _, _ => true
     end) && canon_list r
  end.
Lemma canon_elem ty a m cs :
  canon (Elem ty a m cs) = (if is_leaf_ty s ty then match cs with [] => true | _ => false end else true) && canon_list cs.
Proof.
  reflexivity.
Qed.

Definition Term (r : list tok) : Prop := r = [] \/ exists r', r = TClose :: r'.

Lemma nt_text t m : nt (toks (Text t m)) = List.map (fun u => TChar u (msnorm m)) (units t).
Proof. cbn [Tokens.toks]. unfold nt. rewrite map_map. reflexivity. Qed.

Lemma units_nonempty t : t <> [] -> units t <> [].
Proof. destruct t as [|c t]; [congruence|]. intros _. cbn. destruct (N.leb 65536 c); discriminate. Qed.

(* what follows a text node in a normal-form list does not continue its run *)
Lemma NoStart_after t m r R : canon_list (Text t m :: r) = true -> Term R ->
  NoStart (msnorm m) (nt (ftoks r) ++ R).
Proof.
  intros Hc HT. cbn [canon_list] in Hc. apply andb_prop in Hc. destruct Hc as [Hc Hr]. apply andb_prop in Hc. destruct Hc as [_ Hadj].
  destruct r as [|[t2 m2|ty2 a2 mk2 cs2] r'].
  - cbn. destruct HT as [->|(r' & ->)]; exact I.
  - cbn [canon_list] in Hr. apply andb_prop in Hr. destruct Hr as [Hr _]. apply andb_prop in Hr. destruct Hr as [Hr _].
    cbn [Tokens.ftoks]. rewrite nt_app, nt_text. destruct t2 as [|c t2]; [discriminate|].
    cbn [units]. destruct (N.leb 65536 c); cbn; intros E; symmetry in E; apply marks_norm_eqb in E;
      rewrite E in Hadj; discriminate.
  - cbn [Tokens.ftoks]. rewrite nt_app, toks_elem. destruct (is_leaf_ty s ty2); exact I.
Qed.

Lemma node_eqb_elem t a m c t' a' m' c' :
  node_eqb (Elem t a m c) (Elem t' a' m' c') = Nat.eqb t t' && attrs_eqb a a' && marks_eqb m m' && frag_eqb c c'.
Proof. reflexivity. Qed.

Lemma canon_list_cons x r : canon_list (x :: r) = true -> canon x = true /\ canon_list r = true.
Proof. cbn [canon_list]. intros H. apply andb_prop in H. destruct H as [H Hr]. apply andb_prop in H. destruct H as [Hx _]. auto. Qed.

(* the first token of a normal-form node is not a close token *)
Lemma first_tok y : canon y = true -> exists t rest, nt (toks y) = t :: rest /\ t <> TClose.
Proof.
  destruct y as [t m|ty a m cs]; intros H.
  - rewrite nt_text. destruct t as [|c t]; [discriminate|]. cbn [units]. destruct (N.leb 65536 c); cbn; eexists _, _; split; try reflexivity; discriminate.
  - rewrite toks_elem. destruct (is_leaf_ty s ty); cbn; eexists _, _; split; try reflexivity; discriminate.
Qed.

Lemma Term_head R t rest : Term R -> R = t :: rest -> t = TClose.
Proof. intros [->|(r' & ->)] E; [discriminate|]. inversion E. reflexivity. Qed.

Definition NodeInj (c : node) : Prop :=
  forall ty a m cs, c = Elem ty a m cs ->
  forall ty2 a2 m2 cs2 X1 X2, canon c = true -> canon (Elem ty2 a2 m2 cs2) = true ->
    nt (toks c) ++ X1 = nt (toks (Elem ty2 a2 m2 cs2)) ++ X2 ->
    node_eqb c (Elem ty2 a2 m2 cs2) = true /\ X1 = X2.

Lemma ftoks_inj : forall l1, (forall c, In c l1 -> NodeInj c) ->
  forall l2 R1 R2, canon_list l1 = true -> canon_list l2 = true -> Term R1 -> Term R2 ->
  nt (ftoks l1) ++ R1 = nt (ftoks l2) ++ R2 -> frag_eqb l1 l2 = true /\ R1 = R2.
Proof.
  induction l1 as [|x l1 IH]; intros Hin l2 R1 R2 C1 C2 T1 T2 H.
  - destruct l2 as [|y l2]; [cbn in H; auto|]. exfalso.
    destruct (canon_list_cons _ _ C2) as (Cy & _). destruct (first_tok y Cy) as (t & rest & Et & Hne).
    cbn [Tokens.ftoks] in H. rewrite nt_app, Et in H. cbn [app] in H. apply Hne. eapply Term_head; [exact T1|exact H].
  - destruct (canon_list_cons _ _ C1) as (Cx & Cl1).
    destruct l2 as [|y l2].
    { exfalso. destruct (first_tok x Cx) as (t & rest & Et & Hne).
      cbn [Tokens.ftoks] in H. rewrite nt_app, Et in H. cbn [app] in H. apply Hne. eapply Term_head; [exact T2|symmetry; exact H]. }
    destruct (canon_list_cons _ _ C2) as (Cy & Cl2).
    cbn [Tokens.ftoks] in H. rewrite !nt_app, <- !app_assoc in H.
    assert (IH' : forall R1' R2', Term R1' -> Term R2' -> nt (ftoks l1) ++ R1' = nt (ftoks l2) ++ R2' ->
                    frag_eqb l1 l2 = true /\ R1' = R2').
    { intros R1' R2' T1' T2' H'. apply IH; auto. intros c Hc. apply Hin. right. exact Hc. }
    destruct x as [t m|ty a m cs]; destruct y as [t' m'|ty2 a2 m2 cs2].
    + (* two text nodes *)
      rewrite !nt_text in H.
      assert (HM : msnorm m = msnorm m').
      { destruct (units t) as [|u U] eqn:E1; [exfalso; eapply units_nonempty; [|exact E1]; destruct t; [discriminate|congruence]|].
        destruct (units t') as [|u' U'] eqn:E2; [exfalso; eapply units_nonempty; [|exact E2]; destruct t'; [discriminate|congruence]|].
        cbn in H. inversion H. reflexivity. }
      rewrite <- HM in H.
      pose proof (NoStart_after t m l1 R1 C1 T1) as N1.
      pose proof (NoStart_after t' m' l2 R2 C2 T2) as N2. rewrite <- HM in N2.
      destruct (run_inj _ _ _ _ _ H N1 N2) as (HU & HR).
      destruct (IH' _ _ T1 T2 HR) as (Hf & HRR). split; [|exact HRR].
      cbn [frag_eqb node_eqb]. rewrite (units_inj _ _ HU), cps_eqb_refl, (marks_norm_eqb _ _ HM), Hf. reflexivity.
    + exfalso. rewrite nt_text, toks_elem in H. destruct t as [|c t]; [discriminate|]. cbn [units] in H.
      destruct (N.leb 65536 c); destruct (is_leaf_ty s ty2); cbn in H; discriminate.
    + exfalso. rewrite nt_text, toks_elem in H. destruct t' as [|c t']; [discriminate|]. cbn [units] in H.
      destruct (N.leb 65536 c); destruct (is_leaf_ty s ty); cbn in H; discriminate.
    + destruct (Hin _ (or_introl eq_refl) ty a m cs eq_refl ty2 a2 m2 cs2 _ _ Cx Cy H) as (Hn & HX).
      destruct (IH' _ _ T1 T2 HX) as (Hf & HRR). split; [|exact HRR].
      cbn [frag_eqb]. rewrite Hn, Hf. reflexivity.
Qed.

Theorem toks_inj : forall c, NodeInj c.
Proof.
  induction c as [t m|ty a m cs IH] using node_ind2; intros ty0 a0 m0 cs0 E; [discriminate|].
  inversion E; subst ty0 a0 m0 cs0. clear E. intros ty2 a2 m2 cs2 X1 X2 C1 C2 H.
  rewrite canon_elem in C1, C2. apply andb_prop in C1, C2. destruct C1 as [L1 C1]. destruct C2 as [L2 C2].
  rewrite !toks_elem in H. rewrite node_eqb_elem.
  destruct (is_leaf_ty s ty) eqn:E1; destruct (is_leaf_ty s ty2) eqn:E2; cbn in H; try discriminate.
  - inversion H as [[Ht Ha Hm HX]]. subst ty2. destruct cs; [|discriminate]. destruct cs2; [|discriminate].
    rewrite Nat.eqb_refl, (attrs_norm_eqb _ _ Ha), (marks_norm_eqb _ _ Hm). auto.
  - unfold nt in H. rewrite !map_app in H. cbn [List.map tnorm] in H. rewrite <- !app_assoc in H. cbn [app] in H.
    inversion H as [[Ht Ha Hm Hrest]]. subst ty2.
    fold (nt (ftoks cs)) in Hrest. fold (nt (ftoks cs2)) in Hrest.
    destruct (ftoks_inj cs IH cs2 (TClose :: X1) (TClose :: X2) C1 C2) as (Hf & HX); auto.
    + right. eauto.
    + right. eauto.
    + inversion HX. rewrite Nat.eqb_refl, (attrs_norm_eqb _ _ Ha), (marks_norm_eqb _ _ Hm), Hf. auto.
Qed.

(* documents: same root markup, same tokens => equal *)
Theorem doc_eq_of_tokens ty a m cs ty' a' m' cs' :
  canon_list cs = true -> canon_list cs' = true ->
  ty = ty' -> attrs_eqb a a' = true -> marks_eqb m m' = true ->
  nt (ftoks cs) = nt (ftoks cs') ->
  node_eqb (Elem ty a m cs) (Elem ty' a' m' cs') = true.
Proof.
  intros C1 C2 -> Ha Hm H. rewrite node_eqb_elem, Nat.eqb_refl, Ha, Hm. cbn [andb].
  destruct (ftoks_inj cs (fun c _ => toks_inj c) cs' [] [] C1 C2) as (Hf & _); auto.
  - left; reflexivity.
  - left; reflexivity.
  - rewrite !app_nil_r. exact H.
Qed.

End WithSchema.
