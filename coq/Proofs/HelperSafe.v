(* The structure helpers never crash on in-range input (C12): on a valid document, can_split, can_join, join_point and
   insert_point return an answer for every position of the document (and every depth >= 1, direction, node type) -
   no exception of any class.  Built on the path well-formedness of Proofs/ReplaceSafe.v and on validity: the prefix
   of a valid node's content matches from its type's start state, so Node.content_match_at never raises. *)
From Coq Require Import ZArith NArith List Bool Arith Lia.
From PM Require Import Model.Data Model.Mark Model.Tree Model.Resolve Model.StepMap Model.Step Model.StructOps Spec.Tokens
  Proofs.DataProofs Proofs.NodeInd Proofs.ValidityProofs Proofs.ReplaceValid Proofs.SliceSides Proofs.TokenBasics
  Proofs.PathTokens Proofs.ReplaceTokens Proofs.SliceCut Proofs.ReplaceSafe.
Import ListNotations.
Local Open Scope nat_scope.

Definition Succeeds {A} (r : res A) : Prop := exists v, r = Ok v.
Lemma Succ_bind {A B} (x : res A) (f : A -> res B) : Succeeds x -> (forall v, x = Ok v -> Succeeds (f v)) -> Succeeds (do v <- x; f v).
Proof. intros (v & ->) Hf. cbn [bind]. apply Hf. reflexivity. Qed.
Lemma Succ_ok {A} (x : A) : Succeeds (Ok x). Proof. eexists; reflexivity. Qed.

Section WithSchema.
Variable s : schema.
Notation nsize := (node_size s).
Notation fsize := (frag_size s).
Notation V := (V s).

(* ------------------------------------------------------------------ validity questions on a valid node *)
Lemma firstn_types (l : list node) k : types_of s (firstn k l) = firstn k (types_of s l).
Proof. unfold types_of. symmetry. apply firstn_map. Qed.

Lemma content_match_at_ok n index : V n -> is_elem n -> Succeeds (content_match_at s n index).
Proof.
  intros Hv (ty & a & m & cs & ->). unfold ReplaceValid.V in Hv. rewrite check_elem in Hv.
  apply andb_prop in Hv. destruct Hv as [Hv _]. apply andb_prop in Hv. destruct Hv as [Hv _].
  unfold valid_content, match_fragment in Hv. rewrite Nat.sub_0_r in Hv. cbn [skipn] in Hv. rewrite firstn_all in Hv.
  unfold content_match_at, node_start_state, match_fragment. cbn [node_ty node_content]. rewrite Nat.sub_0_r. cbn [skipn].
  destruct (match_types s (nt_start (ntype_of s ty)) (types_of s cs)) as [q|] eqn:E; [|discriminate].
  rewrite <- (firstn_skipn index cs) in E. unfold types_of in E. rewrite map_app in E. fold (types_of s (firstn index cs)) in E.
  fold (types_of s (skipn index cs)) in E. rewrite match_types_app in E.
  destruct (match_types s (nt_start (ntype_of s ty)) (types_of s (firstn index cs))) as [q1|]; [apply Succ_ok|discriminate].
Qed.

Lemma can_replace_ok n from to repl st en : V n -> is_elem n -> Succeeds (can_replace s n from to repl st en).
Proof.
  intros Hv He. unfold can_replace. apply Succ_bind; [apply content_match_at_ok; assumption|]. intros q _.
  destruct (match_fragment s q repl st en); [|apply Succ_ok].
  destruct (match_fragment s _ (node_content n) to _); [|apply Succ_ok]. destruct (negb _); apply Succ_ok.
Qed.
Lemma can_replace_with_ok n from to ty ms : V n -> is_elem n -> Succeeds (can_replace_with s n from to ty ms).
Proof.
  intros Hv He. unfold can_replace_with. destruct (_ && _); [apply Succ_ok|].
  apply Succ_bind; [apply content_match_at_ok; assumption|]. intros q _.
  destruct (match_type s q ty); [|apply Succ_ok]. destruct (match_fragment s _ _ _ _); apply Succ_ok.
Qed.
Lemma can_append_ok n other : V n -> is_elem n -> Succeeds (can_append s n other).
Proof. intros Hv He. unfold can_append. destruct (negb _); [apply can_replace_ok; assumption|apply Succ_ok]. Qed.

(* ------------------------------------------------------------------ resolved positions of a valid document *)
Definition VP (r : rpos) : Prop := WP s r /\ PathV s r.

Lemma resolve_VP doc pos : V doc -> is_elem doc -> pos <= fsize (node_content doc) ->
  exists r, resolve s doc pos = Ok r /\ VP r.
Proof.
  intros Hv He Hp. destruct (resolve_total s doc pos) as (r & Er); [exact He|exact Hp|].
  exists r. split; [exact Er|]. split; [apply (resolve_WP s doc pos r He Er)|eapply resolve_PathV; eauto].
Qed.

Lemma VP_at r d : VP r -> d <= rp_depth r ->
  exists n i, rp_node r d = Ok n /\ rp_index r d = Ok i /\ V n /\ is_elem n /\ i <= length (node_content n) /\
    (d < rp_depth r -> exists c, child_at n i = Some c /\ rp_node r (S d) = Ok c).
Proof.
  intros (Hw & Hpv) Hd. destruct (WP_at s r d Hw Hd) as (n & i & o & Hp & He & Hi & En & Ei & _ & Hc).
  exists n, i. repeat split; auto. apply (Hpv n i o). unfold path_at in Hp. eapply nth_error_In. exact Hp.
Qed.

(* the position does not split a surrogate pair: the nodes directly before and after it can be cut out *)
Definition Boundary (r : rpos) : Prop := Succeeds (rp_node_after s r) /\ Succeeds (rp_node_before s r).

Lemma zero_offset_Boundary r : VP r -> rp_text_offset r = 0 -> Boundary r.
Proof.
  intros (Hw & _) H0. destruct (rp_parent_at s r Hw) as (n & i & o & Hp & Epar & Eidx & Hi).
  split.
  - unfold rp_node_after. rewrite Epar, Eidx. cbn [bind]. destruct (child_at n i) as [c|] eqn:Ec.
    + rewrite H0, Nat.eqb_refl. apply Succ_ok.
    + unfold child_at in Ec. apply nth_error_None in Ec. assert (i = length (node_content n)) by lia. subst i.
      rewrite Nat.eqb_refl. apply Succ_ok.
  - unfold rp_node_before. rewrite Epar, Eidx. cbn [bind]. rewrite H0, Nat.eqb_refl. cbn [negb].
    destruct i as [|i']; [apply Succ_ok|]. destruct (child_at n i') as [c|] eqn:Ec; [apply Succ_ok|].
    unfold child_at in Ec. apply nth_error_None in Ec. lia.
Qed.

(* ------------------------------------------------------------------ can_split *)
Lemma can_split_go_ok r : VP r -> forall fuel d base, d <= rp_depth r -> d - base < fuel ->
  Succeeds (can_split_go s fuel r d base).
Proof.
  intros Hvp. induction fuel as [|fuel IH]; intros d base Hd Hf; [lia|]. cbn [can_split_go].
  destruct (d <=? base) eqn:E; [apply Succ_ok|]. apply Nat.leb_gt in E.
  destruct (VP_at r d Hvp Hd) as (n & i & En & Ei & Hv & He & _). rewrite En, Ei. cbn [bind].
  destruct (isolating s n); [apply Succ_ok|].
  apply Succ_bind; [apply can_replace_ok; assumption|]. intros cr _.
  destruct (negb cr || _); [apply Succ_ok|]. apply IH; lia.
Qed.

Theorem can_split_never_crashes doc pos depth :
  V doc -> is_elem doc -> pos <= fsize (node_content doc) -> 1 <= depth ->
  Succeeds (can_split s doc pos depth).
Proof.
  intros Hv He Hp Hdep. destruct (resolve_VP doc pos Hv He Hp) as (r & Er & Hvp).
  unfold can_split. rewrite Er. cbn [bind].
  destruct (rp_depth r <? depth) eqn:E; [apply Succ_ok|]. apply Nat.ltb_ge in E.
  destruct (VP_at r (rp_depth r) Hvp (le_n _)) as (parent & index & Epar & Eidx & Hvpar & Hepar & _).
  unfold rp_parent. rewrite Epar, Eidx. cbn [bind].
  destruct (isolating s parent); [apply Succ_ok|].
  apply Succ_bind; [apply can_replace_ok; assumption|]. intros cr _.
  destruct (negb cr || _); [apply Succ_ok|].
  apply Succ_bind.
  { destruct (rp_depth r) as [|dm1] eqn:Ed; [apply Succ_ok|]. apply can_split_go_ok; [exact Hvp|lia|lia]. }
  intros ok _. destruct (negb ok); [apply Succ_ok|].
  set (base := rp_depth r - depth).
  destruct (VP_at r base Hvp ltac:(unfold base; lia)) as (nb & ib & Enb & Eib & Hvb & Heb & _ & Hnext).
  unfold rp_index_after. rewrite Eib. cbn [bind]. rewrite Enb. cbn [bind].
  destruct (Hnext ltac:(unfold base; lia)) as (c & _ & Ec). rewrite Ec. cbn [bind].
  apply can_replace_with_ok; assumption.
Qed.

(* ------------------------------------------------------------------ can_join *)
Lemma joinable_nodes_ok a b : (forall x, a = Some x -> V x /\ is_elem x \/ node_is_text x = true) ->
  Succeeds (joinable_nodes s a b).
Proof.
  intros Ha. unfold joinable_nodes. destruct a as [x|]; [|apply Succ_ok]. destruct b as [y|]; [|apply Succ_ok].
  destruct (is_leaf_ty s (node_ty s x)) eqn:El; [apply Succ_ok|].
  destruct (Ha x eq_refl) as [(Hv & He)|Ht]; [apply can_append_ok; assumption|].
  (* a text node: can_append on a text node - its "content" is empty and it matches trivially *)
  destruct x as [t m|]; [|discriminate]. unfold can_append. destruct (negb _); [|apply Succ_ok].
  unfold can_replace, content_match_at, match_fragment. cbn [node_content length Nat.sub skipn firstn types_of List.map match_types].
  cbn [bind]. destruct (match_types s _ _); [|apply Succ_ok]. cbn [node_content length skipn firstn types_of List.map match_types].
  destruct (negb _); apply Succ_ok.
Qed.


Definition nice (x : node) : Prop := (V x /\ is_elem x) \/ node_is_text x = true.
Lemma child_nice n i c : V n -> is_elem n -> child_at n i = Some c -> nice c.
Proof.
  intros Hv (ty & a & m & cs & ->) Hc. unfold child_at in Hc. cbn [node_content] in Hc.
  pose proof (V_children s _ _ _ _ Hv c (nth_error_In _ _ Hc)) as Hvc.
  destruct c as [t mk|ty' a' m' cs']; [right; reflexivity|left; split; [exact Hvc|unfold is_elem; eauto]].
Qed.

Lemma text_cut_text t m a b c : text_cut t m a b = Ok c -> node_is_text c = true.
Proof.
  unfold text_cut. destruct (_ && _); [intros H; inversion H; reflexivity|].
  destruct (cut_text t a b) as [y|]; [|discriminate]. cbn [bind]. destruct y; [discriminate|]. intros H; inversion H. reflexivity.
Qed.

Lemma last_text_child r : VP r -> rp_text_offset r <> 0 ->
  exists n i t m, rp_node r (rp_depth r) = Ok n /\ rp_index r (rp_depth r) = Ok i /\ child_at n i = Some (Text t m).
Proof.
  intros ((Hw & Hta & Hpo) & _) Hne. destruct (Hta Hne) as (n & i & o & t & m & Hp & Hc).
  exists n, i, t, m. unfold rp_node, rp_index. rewrite Hp. auto.
Qed.

Lemma rp_node_before_nice r x : VP r -> rp_node_before s r = Ok (Some x) -> nice x.
Proof.
  intros Hvp H. destruct (VP_at r (rp_depth r) Hvp (le_n _)) as (n & i & En & Ei & Hv & He & _).
  unfold rp_node_before, rp_parent in H. rewrite En, Ei in H. cbn [bind] in H.
  destruct (negb (rp_text_offset r =? 0)) eqn:E0.
  - apply negb_true_iff in E0. apply Nat.eqb_neq in E0.
    destruct (last_text_child r Hvp E0) as (n' & i' & t & m & En' & Ei' & Hc). rewrite En in En'. rewrite Ei in Ei'.
    inversion En'; inversion Ei'; subst n' i'. rewrite Hc in H.
    destruct (text_cut t m 0 _) as [c|] eqn:Ec; [|discriminate]. cbn [bind] in H. inversion H; subst x.
    right. eapply text_cut_text; eauto.
  - destruct i as [|i']; [discriminate|]. destruct (child_at n i') as [c|] eqn:Ec; [|discriminate]. inversion H; subst x.
    eapply child_nice; eauto.
Qed.

Lemma rp_node_after_nice r x : VP r -> rp_node_after s r = Ok (Some x) -> nice x.
Proof.
  intros Hvp H. destruct (VP_at r (rp_depth r) Hvp (le_n _)) as (n & i & En & Ei & Hv & He & _).
  unfold rp_node_after, rp_parent in H. rewrite En, Ei in H. cbn [bind] in H.
  destruct (child_at n i) as [child|] eqn:Ec; [|destruct (i =? _); discriminate].
  destruct (rp_text_offset r =? 0) eqn:E0; [inversion H; subst x; eapply child_nice; eauto|].
  apply Nat.eqb_neq in E0.
  destruct (last_text_child r Hvp E0) as (n' & i' & t & m & En' & Ei' & Hc). rewrite En in En'. rewrite Ei in Ei'.
  inversion En'; inversion Ei'; subst n' i'. rewrite Hc in Ec. inversion Ec; subst child.
  destruct (text_cut t m _ _) as [c|] eqn:Et; [|discriminate]. cbn [bind] in H. inversion H; subst x.
  right. eapply text_cut_text; eauto.
Qed.

Lemma joinable_nice a b : (forall x, a = Some x -> nice x) -> Succeeds (joinable_nodes s a b).
Proof. intros H. apply joinable_nodes_ok. intros x Hx. exact (H x Hx). Qed.

Theorem can_join_never_crashes doc pos r :
  V doc -> is_elem doc -> resolve s doc pos = Ok r -> Boundary r -> Succeeds (can_join s doc pos).
Proof.
  intros Hv He Er (Ba & Bb). assert (Hvp : VP r).
  { split; [apply (resolve_WP s doc pos r He Er)|eapply resolve_PathV; eauto]. }
  unfold can_join. rewrite Er. cbn [bind].
  destruct (VP_at r (rp_depth r) Hvp (le_n _)) as (parent & index & Epar & Eidx & Hvpar & Hepar & _).
  rewrite Eidx. cbn [bind]. destruct Bb as (nb & Enb). destruct Ba as (na & Ena). rewrite Enb, Ena. cbn [bind].
  apply Succ_bind.
  { apply joinable_nice. intros x ->. eapply rp_node_before_nice; eauto. }
  intros j _. destruct j; [|apply Succ_ok]. unfold rp_parent. rewrite Epar. cbn [bind].
  apply Succ_bind; [apply can_replace_ok; assumption|intros; apply Succ_ok].
Qed.

(* ------------------------------------------------------------------ join_point *)
Lemma rp_after_ok r d : VP r -> 1 <= d -> d <= rp_depth r -> Succeeds (rp_after s r d).
Proof.
  intros Hvp H1 Hd. destruct d as [|d']; [lia|]. cbn [rp_after]. destruct (S d' =? rp_depth r + 1); [apply Succ_ok|].
  destruct Hvp as (Hw & _). destruct (WP_at s r d' Hw ltac:(lia)) as (n & i & o & _ & _ & _ & _ & _ & Eo & _). rewrite Eo. cbn [bind].
  destruct (WP_at s r (S d') Hw Hd) as (n2 & i2 & o2 & _ & _ & _ & En2 & _). rewrite En2. cbn [bind]. apply Succ_ok.
Qed.
Lemma rp_before_ok r d : VP r -> 1 <= d -> d <= rp_depth r -> Succeeds (rp_before r d).
Proof.
  intros Hvp H1 Hd. destruct d as [|d']; [lia|]. cbn [rp_before]. destruct (S d' =? rp_depth r + 1); [apply Succ_ok|].
  destruct Hvp as (Hw & _). destruct (WP_at s r d' Hw ltac:(lia)) as (n & i & o & _ & _ & _ & _ & _ & Eo & _). rewrite Eo. apply Succ_ok.
Qed.

Lemma join_point_go_ok r dir : VP r -> Boundary r -> forall fuel d pos, d <= rp_depth r -> d < fuel ->
  Succeeds (join_point_go s fuel r dir d pos).
Proof.
  intros Hvp (Ba & Bb). induction fuel as [|fuel IH]; intros d pos Hd Hf; [lia|]. cbn [join_point_go].
  destruct (VP_at r d Hvp Hd) as (nd & index0 & End & Eidx & Hvnd & Hend & Hi0 & Hnext). rewrite Eidx, End. cbn [bind].
  (* the two nodes around the join candidate: the first one, when present, is a valid element or a text node *)
  assert (Hbai : exists before after index,
    (if d =? rp_depth r then do b <- rp_node_before s r; do a <- rp_node_after s r; Ok (b, a, index0)
     else if dir then do b <- rp_node r (S d); Ok (Some b, child_at nd (S index0), S index0)
     else do a <- rp_node r (S d); Ok (match index0 with 0 => None | S i' => child_at nd i' end, Some a, index0))
    = Ok (before, after, index) /\ forall x, before = Some x -> nice x).
  { destruct (d =? rp_depth r) eqn:Ed.
    - destruct Bb as (nb & Enb). destruct Ba as (na & Ena). rewrite Enb, Ena. cbn [bind].
      exists nb, na, index0. split; [reflexivity|]. intros x ->. eapply rp_node_before_nice; eauto.
    - apply Nat.eqb_neq in Ed. destruct (Hnext ltac:(lia)) as (c & Hc & Ec). rewrite Ec. cbn [bind].
      destruct dir.
      + eexists _, _, _. split; [reflexivity|]. intros x Hx. inversion Hx; subst x. eapply child_nice; eauto.
      + eexists _, _, _. split; [reflexivity|]. intros x Hx. destruct index0 as [|i']; [discriminate|]. eapply child_nice; eauto. }
  destruct Hbai as (before & after & index & Ebai & Hnice). rewrite Ebai. cbn [bind].
  apply Succ_bind.
  { destruct before as [b|]; [|apply Succ_ok]. destruct (is_textblock_ty s (node_ty s b)); [apply Succ_ok|].
    apply Succ_bind; [apply joinable_nice; exact Hnice|]. intros j _. destruct j; [apply can_replace_ok; assumption|apply Succ_ok]. }
  intros ok _. destruct ok; [apply Succ_ok|]. destruct d as [|d']; [apply Succ_ok|].
  apply Succ_bind; [destruct dir; [apply rp_after_ok|apply rp_before_ok]; auto; lia|].
  intros pos' _. apply IH; lia.
Qed.

Theorem join_point_never_crashes doc pos dir r :
  V doc -> is_elem doc -> resolve s doc pos = Ok r -> Boundary r -> Succeeds (join_point s doc pos dir).
Proof.
  intros Hv He Er Hb. assert (Hvp : VP r).
  { split; [apply (resolve_WP s doc pos r He Er)|eapply resolve_PathV; eauto]. }
  unfold join_point. rewrite Er. cbn [bind]. apply join_point_go_ok; auto.
Qed.

(* ------------------------------------------------------------------ insert_point *)
Lemma insert_point_up_ok r ty at_start : VP r -> forall fuel d, S d <= rp_depth r -> d < fuel ->
  Succeeds (insert_point_up s fuel r ty at_start d).
Proof.
  intros Hvp. induction fuel as [|fuel IH]; intros d Hd Hf; [lia|]. cbn [insert_point_up].
  destruct (VP_at r d Hvp ltac:(lia)) as (n & i & En & Ei & Hv & He & _). rewrite En. cbn [bind].
  apply Succ_bind.
  { destruct at_start; [rewrite Ei; apply Succ_ok|unfold rp_index_after; rewrite Ei; cbn [bind]; apply Succ_ok]. }
  intros index _. apply Succ_bind; [apply can_replace_with_ok; assumption|]. intros c _.
  destruct c.
  - apply Succ_bind; [destruct at_start; [apply rp_before_ok|apply rp_after_ok]; auto; lia|intros; apply Succ_ok].
  - destruct (if at_start then _ else _); [apply Succ_ok|]. destruct d as [|d']; [apply Succ_ok|]. apply IH; lia.
Qed.

Theorem insert_point_never_crashes doc pos ty :
  V doc -> is_elem doc -> pos <= fsize (node_content doc) -> Succeeds (insert_point s doc pos ty).
Proof.
  intros Hv He Hp. destruct (resolve_VP doc pos Hv He Hp) as (r & Er & Hvp).
  unfold insert_point. rewrite Er. cbn [bind].
  destruct (VP_at r (rp_depth r) Hvp (le_n _)) as (parent & index & Epar & Eidx & Hvpar & Hepar & _).
  unfold rp_parent. rewrite Epar, Eidx. cbn [bind].
  apply Succ_bind; [apply can_replace_with_ok; assumption|]. intros c _. destruct c; [apply Succ_ok|].
  apply Succ_bind.
  { destruct (rp_parent_offset r =? 0); [|apply Succ_ok]. destruct (rp_depth r) as [|d'] eqn:Ed; [apply Succ_ok|].
    apply insert_point_up_ok; [exact Hvp|lia|lia]. }
  intros first _. destruct first as [ans|]; [apply Succ_ok|].
  apply Succ_bind.
  { destruct (rp_parent_offset r =? _); [|apply Succ_ok]. destruct (rp_depth r) as [|d'] eqn:Ed; [apply Succ_ok|].
    apply insert_point_up_ok; [exact Hvp|lia|lia]. }
  intros second _. destruct second; apply Succ_ok.
Qed.


(* ------------------------------------------------------------------ lift_target *)
Lemma can_cut_ok n a b : V n -> is_elem n -> Succeeds (can_cut s n a b).
Proof.
  intros Hv He. unfold can_cut. apply Succ_bind.
  { destruct (a =? 0); [apply Succ_ok|apply can_replace_ok; assumption]. }
  intros x _. destruct x; [|apply Succ_ok]. destruct (b =? nchildren n); [apply Succ_ok|apply can_replace_ok; assumption].
Qed.

Lemma lift_target_go_ok r content : VP (nr_from r) -> VP (nr_to r) ->
  forall fuel depth, depth <= rp_depth (nr_from r) -> depth <= rp_depth (nr_to r) -> depth < fuel ->
  Succeeds (lift_target_go s fuel r content depth).
Proof.
  intros Hf Ht. induction fuel as [|fuel IH]; intros depth D1 D2 Hfu; [lia|]. cbn [lift_target_go].
  destruct (VP_at (nr_from r) depth Hf D1) as (n & i & En & Ei & Hv & He & _). rewrite En, Ei. cbn [bind].
  destruct (VP_at (nr_to r) depth Ht D2) as (n2 & i2 & _ & Ei2 & _). unfold rp_index_after. rewrite Ei2. cbn [bind].
  apply Succ_bind.
  { destruct (depth <? nr_depth r); [apply can_replace_ok; assumption|apply Succ_ok]. }
  intros fits _. destruct fits; [apply Succ_ok|]. destruct ((depth =? 0) || isolating s n) eqn:E; [apply Succ_ok|].
  apply orb_false_elim in E. destruct E as [E0 _]. apply Nat.eqb_neq in E0.
  apply Succ_bind; [apply can_cut_ok; assumption|]. intros cc _. destruct (negb cc); [apply Succ_ok|]. apply IH; lia.
Qed.

(* a node range as ResolvedPos.block_range builds it: two resolved positions of a valid document and a depth both reach *)
Theorem lift_target_never_crashes r :
  VP (nr_from r) -> VP (nr_to r) -> nr_depth r <= rp_depth (nr_from r) -> nr_depth r <= rp_depth (nr_to r) ->
  Succeeds (lift_target s r).
Proof.
  intros Hf Ht D1 D2. unfold lift_target, nr_parent, nr_start_index, nr_end_index.
  destruct (VP_at (nr_from r) (nr_depth r) Hf D1) as (n & i & En & Ei & _). rewrite En, Ei. cbn [bind].
  destruct (VP_at (nr_to r) (nr_depth r) Ht D2) as (n2 & i2 & _ & Ei2 & _). unfold rp_index_after. rewrite Ei2. cbn [bind].
  apply lift_target_go_ok; auto.
Qed.

End WithSchema.
