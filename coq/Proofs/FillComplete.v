(* fill_before is complete (C15): it returns nothing ONLY IF no sequence of generatable node types makes the content
   match.  The search is a depth-first traversal with a visited list threaded through; when it fails, the visited
   list is a set of states that contains the start state, is closed under generatable edges and holds no finishing
   state.  Fuel (number of states + 1) always suffices when the table's edges stay inside the table. *)
From Coq Require Import ZArith List Bool Arith Lia.
From PM Require Import Model.Data Model.Mark Model.Tree Model.Step Model.Fill Proofs.FillProofs.
Import ListNotations.

Section WithSchema.
Variable s : schema.
Notation N := (length (s_states s)).

(* every edge of the table leads to a state of the table (boolean-checkable on any schema value) *)
Definition closed_schema : bool :=
  forallb (fun st => forallb (fun e => Nat.ltb (snd e) N) (cs_next st)) (s_states s).

Lemma closed_edge q t nx : closed_schema = true -> In (t, nx) (cs_next (state_of s q)) -> nx < N.
Proof.
  unfold closed_schema, state_of. intros Hc Hin.
  destruct (nth_in_or_default q (s_states s) dummy_state) as [Hi|He].
  - rewrite forallb_forall in Hc. specialize (Hc _ Hi). rewrite forallb_forall in Hc. specialize (Hc _ Hin).
    apply Nat.ltb_lt in Hc. exact Hc.
  - rewrite He in Hin. destruct Hin.
Qed.

Lemma nat_mem_In x l : nat_mem x l = true <-> In x l.
Proof.
  unfold nat_mem. rewrite existsb_exists. split.
  - intros (y & Hy & E). apply Nat.eqb_eq in E. subst. exact Hy.
  - intros H. exists x. split; [exact H|apply Nat.eqb_refl].
Qed.

Lemma bounded_nodup_length (l : list nat) : NoDup l -> (forall x, In x l -> x < N) -> length l <= N.
Proof.
  intros Hn Hb. rewrite <- (seq_length N 0). apply NoDup_incl_length; [exact Hn|].
  intros x Hx. apply in_seq. specialize (Hb x Hx). lia.
Qed.

Section Search.
Variables (after : list node) (te : bool) (st : nat).
Notation fin := (finished s after te st).

Definition gedge (q nx : nat) : Prop := exists t, In (t, nx) (cs_next (state_of s q)) /\ generatable s t = true.
(* a state the search is done with: it does not finish and all its generatable successors were visited *)
Definition Processed (S : list nat) (q : nat) : Prop := fin q = false /\ forall nx, gedge q nx -> In nx S.
Lemma Processed_mono S S' q : incl S S' -> Processed S q -> Processed S' q.
Proof. intros Hi [H1 H2]. split; [exact H1|]. intros nx Hg. apply Hi, H2, Hg. Qed.

Definition Good (seen : list nat) : Prop := NoDup seen /\ forall x, In x seen -> x < N.

Hypothesis Hclosed : closed_schema = true.

Lemma fb_search_none : forall fuel q types seen seen',
  Good seen -> N + 2 <= fuel + length seen ->
  fb_search s fuel after te st q types seen = (None, seen') ->
  Good seen' /\ incl seen seen' /\ Processed seen' q /\ (forall x, In x seen' -> In x seen \/ Processed seen' x).
Proof.
  induction fuel as [|fuel IH]; intros q types seen seen' Hg Hf H.
  { exfalso. destruct Hg as [Hn Hb]. pose proof (bounded_nodup_length seen Hn Hb). lia. }
  cbn [fb_search] in H. fold (finished s after te st q) in H.
  destruct (fin q) eqn:Ef; [discriminate|].
  fold (edge_loop s fuel after te st types) in H.
  assert (Hedges : forall (l : list (nat * nat)) seen0 seen1,
    incl l (cs_next (state_of s q)) -> Good seen0 -> length seen <= length seen0 ->
    edge_loop s fuel after te st types l seen0 = (None, seen1) ->
    Good seen1 /\ incl seen0 seen1 /\
    (forall t nx, In (t, nx) l -> generatable s t = true -> In nx seen1) /\
    (forall x, In x seen1 -> In x seen0 \/ Processed seen1 x)).
  { induction l as [|[t nx] l IHl]; intros seen0 seen1 Hincl Hg0 Hlen Hl.
    - cbn [edge_loop] in Hl. inversion Hl; subst seen1. split; [exact Hg0|]. split; [apply incl_refl|].
      split; [intros t nx []|]. intros x Hx. left. exact Hx.
    - cbn [edge_loop] in Hl. fold (edge_loop s fuel after te st types) in Hl.
      assert (Hincl' : incl l (cs_next (state_of s q))) by (intros x Hx; apply Hincl; right; exact Hx).
      destruct (generatable s t && negb (nat_mem nx seen0)) eqn:Eg.
      + apply andb_prop in Eg. destruct Eg as [Egen Enm]. apply negb_true_iff in Enm.
        assert (Hnin : ~ In nx seen0) by (intros Hx; apply nat_mem_In in Hx; congruence).
        assert (Hgn : Good (nx :: seen0)).
        { destruct Hg0 as [Hn0 Hb0]. split; [constructor; assumption|].
          intros x [<-|Hx]; [eapply closed_edge; [exact Hclosed|apply Hincl; left; reflexivity]|apply Hb0; exact Hx]. }
        destruct (fb_search s fuel after te st nx (types ++ [t]) (nx :: seen0)) as [[x|] seenA] eqn:Es; [discriminate|].
        destruct (IH nx (types ++ [t]) (nx :: seen0) seenA Hgn ltac:(cbn [length]; lia) Es) as (HgA & HiA & HpA & HcA).
        assert (HlenA : length seen <= length seenA).
        { destruct Hgn as [Hnn _]. pose proof (NoDup_incl_length Hnn HiA) as L. cbn [length] in L. lia. }
        destruct (IHl seenA seen1 Hincl' HgA HlenA Hl) as (Hg1 & Hi1 & He1 & Hc1).
        split; [exact Hg1|]. split; [intros y Hy; apply Hi1, HiA; right; exact Hy|]. split.
        * intros t' nx' [E|Hin] Hgen'; [inversion E; subst; apply Hi1, HiA; left; reflexivity|eapply He1; eauto].
        * intros y Hy. destruct (Hc1 y Hy) as [HyA|Hp]; [|right; exact Hp].
          destruct (HcA y HyA) as [[<-|Hy0]|Hp].
          -- right. eapply Processed_mono; [exact Hi1|exact HpA].
          -- left. exact Hy0.
          -- right. eapply Processed_mono; [exact Hi1|exact Hp].
      + destruct (IHl seen0 seen1 Hincl' Hg0 Hlen Hl) as (Hg1 & Hi1 & He1 & Hc1).
        split; [exact Hg1|]. split; [exact Hi1|]. split; [|exact Hc1].
        intros t' nx' [E|Hin] Hgen'; [|eapply He1; eauto]. inversion E; subst t' nx'.
        rewrite Hgen' in Eg. cbn [andb] in Eg. apply negb_false_iff in Eg. apply Hi1. apply nat_mem_In. exact Eg. }
  destruct (Hedges _ seen seen' (incl_refl _) Hg (le_n _) H) as (Hg1 & Hi1 & He1 & Hc1).
  split; [exact Hg1|]. split; [exact Hi1|]. split; [|exact Hc1].
  split; [exact Ef|]. intros nx (t & Hin & Hgen). eapply He1; eauto.
Qed.

(* in a set of processed states, every path of generatable types stays in the set *)
Lemma closed_set_paths S : (forall x, In x S -> Processed S x) ->
  forall ts q q', In q S -> forallb (generatable s) ts = true -> match_types s q ts = Some q' -> In q' S.
Proof.
  intros HS. induction ts as [|t ts IH]; intros q q' Hq Hg Hm.
  - cbn in Hm. inversion Hm; subst. exact Hq.
  - cbn [forallb] in Hg. apply andb_prop in Hg. destruct Hg as [Hgt Hgs]. cbn [match_types] in Hm.
    destruct (match_type s q t) as [nx|] eqn:Et; [|discriminate].
    apply (IH nx q'); auto. destruct (HS q Hq) as [_ Hsucc]. apply Hsucc. exists t. split; [|exact Hgt].
    unfold match_type in Et. clear -Et. induction (cs_next (state_of s q)) as [|[a b] l IHl]; [discriminate|].
    cbn [assoc_nat] in Et. destruct (Nat.eqb_spec a t); [inversion Et; subst; left; reflexivity|right; apply IHl; exact Et].
Qed.

Theorem fill_before_types_complete q :
  q < N -> fill_before_types s q after te st = None ->
  forall ts q', forallb (generatable s) ts = true -> match_types s q ts = Some q' -> fin q' = false.
Proof.
  unfold fill_before_types. intros Hq H ts q' Hg Hm.
  destruct (fb_search s (S N) after te st q [] [q]) as [r seen'] eqn:E. cbn [fst] in H. subst r.
  assert (Hgood : Good [q]).
  { split; [constructor; [intros []|constructor]|]. intros x [<-|[]]. exact Hq. }
  destruct (fb_search_none (S N) q [] [q] seen' Hgood ltac:(cbn [length]; lia) E) as (_ & Hi & Hp & Hc).
  assert (HS : forall x, In x seen' -> Processed seen' x).
  { intros x Hx. destruct (Hc x Hx) as [[<-|[]]|Hpx]; assumption. }
  assert (Hq' : In q' seen') by (eapply closed_set_paths; eauto; apply Hi; left; reflexivity).
  destruct (HS q' Hq') as [Hf _]. exact Hf.
Qed.

End Search.
End WithSchema.
