(* Token-level laws of the remaining step behaviour: exact undo of replace steps (C04), the slice a replace
   step's inverse is built from (C02 cutting clause). *)
From Coq Require Import ZArith NArith List Bool Arith Lia.
From PM Require Import Model.Data Model.Mark Model.Tree Model.StepMap Model.Step Spec.Tokens
  Proofs.ReplaceValid Proofs.SliceSides Proofs.TokenBasics Proofs.PathTokens Proofs.ReplaceTokens Proofs.SliceShape
  Proofs.StepFaithful Proofs.SliceTokens Proofs.SliceCut Proofs.TokenLaws Proofs.StepAlgebra.
Import ListNotations.
Local Open Scope nat_scope.

Section WithSchema.
Variable s : schema.
Notation fsize := (frag_size s).
Notation ftoks := (ftoks s).
Notation V := (V s).
Notation DT := (DT s).
Notation IT := (IT s).
Notation ShapeS sl := (Shape s (sl_content sl) (sl_open_start sl) (sl_open_end sl)).
Notation OpenS sl := (OpenOK s (sl_content sl) (sl_open_start sl) (sl_open_end sl)).

(* Node.slice in the normalised vocabulary *)
Theorem node_slice_IT doc from to sl :
  from <= to -> node_slice s doc from to = Ok sl -> ShapeS sl /\ IT sl = seg (DT doc) from to.
Proof.
  intros Hft H. destruct (node_slice_toks s doc from to sl Hft H) as (Hs & Ht). split; [exact Hs|].
  unfold IT, DT, nt. rewrite Ht. apply map_seg.
Qed.

Lemma split3 {A} (T : list A) a b : a <= b -> T = firstn a T ++ seg T a b ++ skipn b T.
Proof.
  intros H. unfold seg. rewrite app_assoc, <- (firstn_skipn_split T a b H). symmetry. apply firstn_skipn.
Qed.

(* ------------------------------------------------------------------ C04: exact undo of a replace step *)
(* general form: the inverse applied to ANY valid document with the result's token sequence *)
Theorem replace_step_undo_on from to sl structure doc d' inv e d'' :
  V doc -> OpenS sl -> from <= to ->
  apply s (SReplace from to sl structure) doc = ROk d' ->
  invert_step s (SReplace from to sl structure) doc = Ok inv ->
  V e -> DT e = DT d' ->
  apply s inv e = ROk d'' ->
  DT d'' = DT doc.
Proof.
  intros Hd Ho Hft Ha Hi He HeT Hb. pose proof (OpenOK_Shape s _ _ _ Ho) as Hs.
  cbn [invert_step] in Hi. destruct (node_slice s doc from to) as [old|] eqn:Eo; [|discriminate]. cbn [bind] in Hi.
  inversion Hi; subst inv. clear Hi.
  destruct (node_slice_IT _ _ _ _ Hft Eo) as (Hso & Hio).
  destruct (replace_step_keeps_outside s _ _ _ _ _ _ Hd Hs Ha) as (K1 & _ & K3).
  destruct (replace_step_splice s _ _ _ _ _ _ He Hso Hb) as (_ & _ & E).
  pose proof (IT_length s sl Hs) as Hl.
  replace (Z.to_nat (Z.of_nat from + slice_size s sl)) with (from + length (IT sl)) in E by lia.
  rewrite E, HeT, K1, K3, Hio. symmetry. apply split3. exact Hft.
Qed.

Theorem replace_step_undo from to sl structure doc d' inv d'' :
  V doc -> OpenS sl -> from <= to ->
  apply s (SReplace from to sl structure) doc = ROk d' ->
  invert_step s (SReplace from to sl structure) doc = Ok inv ->
  apply s inv d' = ROk d'' ->
  DT d'' = DT doc.
Proof.
  intros Hd Ho Hft Ha Hi Hb.
  exact (replace_step_undo_on _ _ _ _ _ _ _ d' _ Hd Ho Hft Ha Hi (apply_replace_valid s _ _ _ _ _ _ Hd Ho Ha) eq_refl Hb).
Qed.

(* the inverse step's map is the original's map, inverted *)
Theorem replace_step_inverse_map from to sl structure doc inv :
  ShapeS sl -> from <= to -> invert_step s (SReplace from to sl structure) doc = Ok inv ->
  forall p a, map_result (get_map s inv) p a = map_result (StepMap.invert (get_map s (SReplace from to sl structure))) p a.
Proof.
  intros Hs Hft Hi p a. cbn [invert_step] in Hi. destruct (node_slice s doc from to) as [old|] eqn:Eo; [|discriminate]. cbn [bind] in Hi.
  inversion Hi; subst inv. clear Hi.
  destruct (node_slice_IT _ _ _ _ Hft Eo) as (Hso & Hio).
  pose proof (IT_length s old Hso) as Hl. rewrite Hio in Hl. pose proof (IT_length s sl Hs) as Hl2.
  (* the slice cut from the document has the size of the range *)
  assert (Hsz : slice_size s old = (Z.of_nat to - Z.of_nat from)%Z).
  { unfold node_slice in Eo. destruct (from =? to) eqn:Eft.
    - apply Nat.eqb_eq in Eft. subst to. inversion Eo; subst old. unfold slice_size. cbn. lia.
    - destruct (resolve s doc from) as [rf|] eqn:Ef; [|discriminate].
      destruct (resolve s doc to) as [rt|] eqn:Et; [|discriminate].
      destruct (resolve_tokens s _ _ _ Et) as (Hlt & _).
      rewrite <- Hl. unfold seg. rewrite firstn_length, skipn_length, DT_length. lia. }
  unfold StepMap.invert, map_result. cbn [get_map ranges inverted negb map_go start_of old_of new_of].
  rewrite Hsz.
  replace (Z.of_nat (Z.to_nat (Z.of_nat from + slice_size s sl)) - Z.of_nat from)%Z with (slice_size s sl) by lia.
  reflexivity.
Qed.

End WithSchema.
