(* The sides of a prepared slice (replace.prepare_slice_for_replace) satisfy what the rebuild needs,
   for every slice whose open sides are made of canonical-marked, non-leaf nodes and whose other nodes
   are valid ([OpenOK]).  Together with Proofs/ReplaceValid.v this gives: Node.replace of a valid
   document with such a slice returns a valid document or fails. *)
From Coq Require Import ZArith NArith List Bool Arith Lia.
From PM Require Import Model.Data Model.Mark Model.Tree Proofs.DataProofs Proofs.NodeInd Proofs.ReplaceValid.
Import ListNotations.

Section WithSchema.
Variable s : schema.
Notation V := (V s).
Notation VL := (VL s).
Notation MC := (MC s).
Notation fsize := (frag_size s).
Notation nsize := (node_size s).

(* ---------------------------------------------------------------- resolve_in, equationally *)
Fixpoint rwalk (n : node) (po start : nat) (l : list node) (i cur : nat) {struct l}
  : res (list (node * nat * nat) * nat) :=
  match l with
  | [] => Err ErrValue
  | c :: r =>
    let e := cur + nsize c in
    if e =? po then Ok ([(n, S i, start + e)], po)
    else if po <? e then
      match c with
      | Text _ _ => Ok ([(n, i, start + cur)], po)
      | Elem _ _ _ _ =>
        do rest <- resolve_in s c (po - cur - 1) (start + cur + 1);
        Ok ((n, i, start + cur) :: fst rest, snd rest)
      end
    else rwalk n po start r (S i) e
  end.

Lemma walk_eq n po start : forall l i cur,
  (fix walk (l : list node) (i cur : nat) {struct l} : res (list (node * nat * nat) * nat) :=
     match l with
     | [] => Err ErrValue
     | c :: r =>
       let e := cur + nsize c in
       if e =? po then Ok ([(n, S i, start + e)], po)
       else if po <? e then
         match c with
         | Text _ _ => Ok ([(n, i, start + cur)], po)
         | Elem _ _ _ _ =>
           do rest <- resolve_in s c (po - cur - 1) (start + cur + 1);
           Ok ((n, i, start + cur) :: fst rest, snd rest)
         end
       else walk r (S i) e
     end) l i cur = rwalk n po start l i cur.
Proof.
  induction l as [|c r IH]; intros i cur; [reflexivity|].
  cbn [rwalk]. cbv zeta.
  destruct (cur + nsize c =? po); [reflexivity|]. destruct (po <? cur + nsize c); [reflexivity|].
  apply IH.
Qed.

Lemma resolve_in_unfold ty a m cs po start :
  resolve_in s (Elem ty a m cs) po start =
  if po =? 0 then Ok ([(Elem ty a m cs, 0, start)], po) else rwalk (Elem ty a m cs) po start cs 0 0.
Proof. cbn [resolve_in]. destruct (po =? 0); [reflexivity|]. apply walk_eq. Qed.

Lemma rwalk_descend n po start ty a m cs r : forall pre i cur,
  cur + fsize pre < po -> po < cur + fsize pre + nsize (Elem ty a m cs) ->
  rwalk n po start (pre ++ Elem ty a m cs :: r) i cur =
  do rest <- resolve_in s (Elem ty a m cs) (po - (cur + fsize pre) - 1) (start + (cur + fsize pre) + 1);
  Ok ((n, i + length pre, start + (cur + fsize pre)) :: fst rest, snd rest).
Proof.
  induction pre as [|x pre IH]; intros i cur H1 H2.
  - cbn [app rwalk frag_size length]. rewrite Nat.add_0_r in *.
    destruct (cur + nsize (Elem ty a m cs) =? po) eqn:E1; [apply Nat.eqb_eq in E1; lia|].
    destruct (po <? cur + nsize (Elem ty a m cs)) eqn:E2; [|apply Nat.ltb_ge in E2; lia].
    rewrite Nat.add_0_r. reflexivity.
  - cbn [app rwalk]. cbn [frag_size length] in *.
    destruct (cur + nsize x =? po) eqn:E1; [apply Nat.eqb_eq in E1; lia|].
    destruct (po <? cur + nsize x) eqn:E2; [apply Nat.ltb_lt in E2; lia|].
    rewrite IH by lia.
    replace (cur + nsize x + fsize pre) with (cur + (nsize x + fsize pre)) by lia.
    replace (S i + length pre) with (i + S (length pre)) by lia. reflexivity.
Qed.

Lemma rwalk_at_end n po start : forall l i cur,
  l <> [] -> cur + fsize l = po ->
  exists i' o', rwalk n po start l i cur = Ok ([(n, i', o')], po).
Proof.
  induction l as [|c r IH]; intros i cur Hne Hsz; [congruence|].
  cbn [rwalk]. cbn [frag_size] in Hsz.
  destruct (cur + nsize c =? po) eqn:E1; [eauto|]. apply Nat.eqb_neq in E1.
  destruct (po <? cur + nsize c) eqn:E2; [apply Nat.ltb_lt in E2; lia|].
  apply IH; [|lia]. intros ->. cbn [frag_size] in Hsz. lia.
Qed.

Lemma resolve_in_at_end ty a m cs start :
  exists i o, resolve_in s (Elem ty a m cs) (fsize cs) start = Ok ([(Elem ty a m cs, i, o)], fsize cs).
Proof.
  rewrite resolve_in_unfold. destruct (fsize cs =? 0) eqn:E; [eauto|].
  apply rwalk_at_end; [|lia]. intros ->. cbn in E. discriminate.
Qed.

(* descending into child number [length pre] *)
Lemma resolve_in_descend ty0 a0 m0 pre ty a m cs r po start :
  fsize pre < po -> po < fsize pre + nsize (Elem ty a m cs) ->
  resolve_in s (Elem ty0 a0 m0 (pre ++ Elem ty a m cs :: r)) po start =
  do rest <- resolve_in s (Elem ty a m cs) (po - fsize pre - 1) (start + fsize pre + 1);
  Ok ((Elem ty0 a0 m0 (pre ++ Elem ty a m cs :: r), length pre, start + fsize pre) :: fst rest, snd rest).
Proof.
  intros H1 H2. rewrite resolve_in_unfold.
  destruct (po =? 0) eqn:E; [apply Nat.eqb_eq in E; lia|].
  rewrite rwalk_descend by lia. reflexivity.
Qed.

(* ---------------------------------------------------------------- open slices *)
Definition spine_node (ty : nat) (a : attrs) (m : list mark) (cs : list node) : Prop :=
  is_leaf_ty s ty = false /\ MC (Elem ty a m cs).

(* open on the left to depth k: the first child, its first child, ... are spine nodes; all else is valid *)
Fixpoint OpenL (l : list node) (k : nat) : Prop :=
  match k with
  | 0 => VL l
  | S k' => match l with
            | Elem ty a m cs :: r => spine_node ty a m cs /\ OpenL cs k' /\ VL r
            | _ => False
            end
  end.
Fixpoint OpenR (l : list node) (k : nat) : Prop :=
  match k with
  | 0 => VL l
  | S k' => exists r ty a m cs, l = r ++ [Elem ty a m cs] /\ spine_node ty a m cs /\ OpenR cs k' /\ VL r
  end.
(* open on both sides: one spine while there is a single child, then a left and a right one *)
Fixpoint OpenOK (l : list node) (os oe : nat) : Prop :=
  match os with
  | 0 => OpenR l oe
  | S a =>
    match oe with
    | 0 => OpenL l os
    | S b =>
      (exists ty at_ m cs, l = [Elem ty at_ m cs] /\ spine_node ty at_ m cs /\ OpenOK cs a b) \/
      (exists ty1 a1 m1 cs1 mid ty2 a2 m2 cs2,
          l = Elem ty1 a1 m1 cs1 :: mid ++ [Elem ty2 a2 m2 cs2] /\
          spine_node ty1 a1 m1 cs1 /\ spine_node ty2 a2 m2 cs2 /\
          OpenL cs1 a /\ OpenR cs2 b /\ VL mid)
    end
  end.

Lemma spine_size ty a m cs : spine_node ty a m cs -> nsize (Elem ty a m cs) = 2 + fsize cs.
Proof. intros [H _]. rewrite node_size_elem, H. reflexivity. Qed.

Lemma OpenL_size : forall k l, OpenL l k -> k <= fsize l.
Proof.
  induction k as [|k IH]; intros l H; [lia|]. cbn [OpenL] in H.
  destruct l as [|[t m|ty a m cs] r]; try contradiction. destruct H as (Hs & Hl & _).
  cbn [frag_size]. rewrite (spine_size _ _ _ _ Hs). specialize (IH _ Hl). lia.
Qed.
Lemma OpenR_size : forall k l, OpenR l k -> k <= fsize l.
Proof.
  induction k as [|k IH]; intros l H; [lia|]. cbn [OpenR] in H.
  destruct H as (r & ty & a & m & cs & -> & Hs & Hl & _).
  rewrite frag_size_app. cbn [frag_size]. rewrite (spine_size _ _ _ _ Hs). specialize (IH _ Hl). lia.
Qed.
Lemma OpenOK_size : forall os oe l, OpenOK l os oe -> os <= fsize l /\ oe <= fsize l.
Proof.
  induction os as [|a IH]; intros oe l H.
  - cbn [OpenOK] in H. split; [lia|]. apply OpenR_size; auto.
  - destruct oe as [|b]; cbn [OpenOK] in H.
    + split; [|lia]. apply OpenL_size; auto.
    + destruct H as [(ty & at_ & m & cs & -> & Hs & Ho)|(ty1 & a1 & m1 & cs1 & mid & ty2 & a2 & m2 & cs2 & -> & Hs1 & Hs2 & Hl & Hr & _)].
      * cbn [frag_size]. rewrite (spine_size _ _ _ _ Hs). destruct (IH _ _ Ho). lia.
      * cbn [frag_size]. rewrite frag_size_app. cbn [frag_size].
        rewrite (spine_size _ _ _ _ Hs1), (spine_size _ _ _ _ Hs2).
        pose proof (OpenL_size _ _ Hl). pose proof (OpenR_size _ _ Hr). lia.
Qed.

Definition TextsV (l : list node) : Prop := forall t m, In (Text t m) l -> V (Text t m).
Lemma VL_TextsV l : VL l -> TextsV l.
Proof. intros H t m Hi. apply H; auto. Qed.
Lemma OpenL_TextsV k l : OpenL l k -> TextsV l.
Proof.
  destruct k as [|k]; cbn [OpenL]; [apply VL_TextsV|].
  destruct l as [|[t0 m0|ty a m0 cs] r]; try contradiction. intros (_ & _ & Hr) t m [Hi|Hi]; [discriminate|]. apply Hr; auto.
Qed.
Lemma OpenR_TextsV k l : OpenR l k -> TextsV l.
Proof.
  destruct k as [|k]; cbn [OpenR]; [apply VL_TextsV|].
  intros (r & ty & a & m & cs & -> & _ & _ & Hr) t m0 Hi. apply in_app_or in Hi.
  destruct Hi as [Hi|[Hi|[]]]; [apply Hr; auto|discriminate].
Qed.
Lemma OpenOK_TextsV os oe l : OpenOK l os oe -> TextsV l.
Proof.
  destruct os as [|a]; cbn [OpenOK]; [apply OpenR_TextsV|].
  destruct oe as [|b]; [apply (OpenL_TextsV (S a))|].
  intros [(ty & at_ & m & cs & -> & _ & _)|(ty1 & a1 & m1 & cs1 & mid & ty2 & a2 & m2 & cs2 & -> & _ & _ & _ & _ & Hm)] t m0 Hi.
  - destruct Hi as [Hi|[]]; discriminate.
  - destruct Hi as [Hi|Hi]; [discriminate|]. apply in_app_or in Hi.
    destruct Hi as [Hi|[Hi|[]]]; [apply Hm; auto|discriminate].
Qed.

(* ---------------------------------------------------------------- paths, and shifting them under wrappers *)
Definition mkp (p : list (node * nat * nat)) : rpos := {| rp_pos := 0; rp_path := p; rp_parent_offset := 0 |}.
Definition PathTextsV (p : list (node * nat * nat)) : Prop :=
  forall d n i o, nth_error p d = Some (n, i, o) -> TextsV (node_content n).

Lemma rp_depth_mkp p : rp_depth (mkp p) = length p - 1.
Proof. reflexivity. Qed.
Lemma path_at_mkp p d : path_at (mkp p) d = nth_error p d.
Proof. reflexivity. Qed.

Lemma AfterFrom_shift wp q D : q <> [] -> AfterFrom s (mkp q) D -> AfterFrom s (mkp (wp ++ q)) (length wp + D).
Proof.
  intros Hq H d n i o Hd Hp j c Hc Hj. rewrite path_at_mkp in Hp. rewrite nth_error_app2 in Hp by lia.
  eapply (H (d - length wp)); [lia|exact Hp|exact Hc|].
  destruct Hj as [Hj|[Hdep ->]]; [left; auto|right; split; auto].
  rewrite rp_depth_mkp in *. rewrite app_length in Hdep. destruct q; [congruence|]. cbn [length] in *. lia.
Qed.
Lemma BeforeFrom_shift wp q D : BeforeFrom s (mkp q) D -> BeforeFrom s (mkp (wp ++ q)) (length wp + D).
Proof.
  intros H d n i o Hd Hp j c Hc Hj. rewrite path_at_mkp in Hp. rewrite nth_error_app2 in Hp by lia.
  eapply (H (d - length wp)); [lia|exact Hp|exact Hc|exact Hj].
Qed.
Lemma rp_index_mkp_shift wp q d : length wp <= d -> rp_index (mkp (wp ++ q)) d = rp_index (mkp q) (d - length wp).
Proof. intros H. unfold rp_index. rewrite !path_at_mkp, nth_error_app2 by lia. reflexivity. Qed.
Lemma RangeOK_shift w1 w2 q1 q2 d :
  length w1 = length w2 -> q1 <> [] -> RangeOK s (mkp q1) (mkp q2) d ->
  RangeOK s (mkp (w1 ++ q1)) (mkp (w2 ++ q2)) (length w1 + d).
Proof.
  intros Hlen Hq H n ei oe si Hp Hsi j c Hc Hj Hcase. rewrite path_at_mkp in Hp.
  rewrite nth_error_app2 in Hp by lia. rewrite rp_index_mkp_shift in Hsi by lia.
  replace (length w1 + d - length w2) with d in Hp by lia. replace (length w1 + d - length w1) with d in Hsi by lia.
  eapply (H _ _ _ _ Hp Hsi j c Hc Hj). destruct Hcase as [Hl|[Hdep ->]]; [left; auto|right; split; auto].
  rewrite rp_depth_mkp in *. rewrite app_length in Hdep. destruct q1; [congruence|]. cbn [length] in *. lia.
Qed.
Lemma Sides_shift w1 w2 q1 q2 Df Dt d :
  length w1 = length w2 -> q1 <> [] ->
  Sides s Df Dt (mkp q1) (mkp q2) d ->
  Sides s (length w1 + Df) (length w1 + Dt) (mkp (w1 ++ q1)) (mkp (w2 ++ q2)) (length w1 + d).
Proof.
  intros Hlen Hq H. induction H as [d Hdf Hdt (i & Hi1 & Hi2) Hnext IH|d Hr Ha Hb].
  - apply Sides_shared; [lia|lia| |].
    + exists i. rewrite !rp_index_mkp_shift by lia.
      replace (length w1 + d - length w1) with d by lia. replace (length w1 + d - length w2) with d by lia. auto.
    + replace (S (length w1 + d)) with (length w1 + S d) by lia. exact IH.
  - apply Sides_parted.
    + apply RangeOK_shift; auto.
    + replace (S (length w1 + d)) with (length w1 + S d) by lia. apply AfterFrom_shift; auto.
    + replace (S (length w1 + d)) with (length w2 + S d) by lia. apply BeforeFrom_shift; auto.
Qed.

(* ---------------------------------------------------------------- the two spines *)
Lemma nth_single {A} (x y : A) d : nth_error [x] d = Some y -> d = 0 /\ x = y.
Proof. destruct d as [|d]; simpl; [intros H; inversion H; auto|destruct d; discriminate]. Qed.

Lemma child_cons_pos c r j x ty a m : 0 < j -> child_at (Elem ty a m (c :: r)) j = Some x -> In x r.
Proof. intros Hj H. unfold child_at in H. cbn [node_content] in H. destruct j; [lia|]. simpl in H. eapply nth_error_In; eauto. Qed.

Lemma left_spine : forall k l ty a m start p po',
  OpenL l k -> resolve_in s (Elem ty a m l) k start = Ok (p, po') ->
  AfterFrom s (mkp p) 0 /\ length p = S k /\
  (forall d n i o, nth_error p d = Some (n, i, o) -> i = 0) /\ PathTextsV p /\
  (exists o rest, p = (Elem ty a m l, 0, o) :: rest).
Proof.
  induction k as [|k IH]; intros l ty a m start p po' Ho H.
  - rewrite resolve_in_unfold in H. cbn in H. inversion H; subst p po'. cbn [OpenL] in Ho.
    split; [|split; [reflexivity|split; [|split; [|eauto]]]].
    + intros d n i o _ Hp j c Hc _. rewrite path_at_mkp in Hp. apply nth_single in Hp. destruct Hp as [-> Hp].
      inversion Hp; subst. apply Ho. apply (child_at_In _ _ _ Hc).
    + intros d n i o Hp. apply nth_single in Hp. destruct Hp as [_ Hp]. inversion Hp; auto.
    + intros d n i o Hp. apply nth_single in Hp. destruct Hp as [_ Hp]. inversion Hp; subst. apply VL_TextsV; auto.
  - cbn [OpenL] in Ho. destruct l as [|[t0 m0|ty1 a1 m1 cs1] r]; try contradiction.
    destruct Ho as (Hs & Hl & Hr). pose proof (OpenL_size _ _ Hl) as Hsz.
    pose proof (resolve_in_descend ty a m [] ty1 a1 m1 cs1 r (S k) start) as Hd. cbn [app frag_size length] in Hd.
    rewrite Hd in H by (rewrite ?(spine_size _ _ _ _ Hs); lia). clear Hd. replace (S k - 0 - 1) with k in H by lia.
    destruct (resolve_in s (Elem ty1 a1 m1 cs1) k (start + 0 + 1)) as [[p1 po1]|] eqn:E1; [|discriminate].
    cbn [bind fst snd] in H. inversion H; subst p po'. clear H.
    destruct (IH _ _ _ _ _ _ _ Hl E1) as (Ha & Hlen & Hidx & Htx & _).
    assert (Hne : p1 <> []) by (intros ->; discriminate).
    split; [|split; [cbn [length]; lia|split; [|split; [|eauto]]]].
    + intros d n i o _ Hp j c Hc Hj. destruct d as [|d].
      * rewrite path_at_mkp in Hp. cbn in Hp. inversion Hp; subst n i o.
        destruct Hj as [Hj|[Hdep _]]; [|rewrite rp_depth_mkp in Hdep; cbn [length] in Hdep; lia].
        apply Hr. eapply child_cons_pos; eauto.
      * eapply (AfterFrom_shift [(Elem ty a m (Elem ty1 a1 m1 cs1 :: r), 0, start + 0)] p1 0 Hne Ha (S d) n i o);
          [cbn [length]; lia|exact Hp|exact Hc|exact Hj].
    + intros d n i o Hp. destruct d as [|d]; [cbn in Hp; inversion Hp; auto|]. cbn in Hp. eapply Hidx; eauto.
    + intros d n i o Hp. destruct d as [|d].
      * cbn in Hp. inversion Hp; subst. cbn [node_content]. intros t0 m0 [Hi|Hi]; [discriminate|]. apply Hr; auto.
      * cbn in Hp. eapply Htx; eauto.
Qed.

Lemma child_app_lt r c j x ty a m : j < length r -> child_at (Elem ty a m (r ++ c)) j = Some x -> In x r.
Proof.
  intros Hj H. unfold child_at in H. cbn [node_content] in H. rewrite nth_error_app1 in H by lia.
  eapply nth_error_In; eauto.
Qed.

Lemma right_spine : forall k l ty a m start p po',
  OpenR l k -> MC (Elem ty a m l) -> resolve_in s (Elem ty a m l) (fsize l - k) start = Ok (p, po') ->
  BeforeFrom s (mkp p) 0 /\ PathMC s (mkp p) /\ PathTextsV p /\
  (exists i o rest, p = (Elem ty a m l, i, o) :: rest /\ (0 < k -> i = length l - 1 /\ rest <> [])).
Proof.
  induction k as [|k IH]; intros l ty a m start p po' Ho Hmc H.
  - rewrite Nat.sub_0_r in H. destruct (resolve_in_at_end ty a m l start) as (i & o & He). rewrite He in H.
    inversion H; subst p po'. cbn [OpenR] in Ho.
    split; [|split; [|split]].
    + intros d n i0 o0 _ Hp j c Hc _. rewrite path_at_mkp in Hp. apply nth_single in Hp. destruct Hp as [-> Hp].
      inversion Hp; subst. apply Ho. apply (child_at_In _ _ _ Hc).
    + intros d n i0 o0 Hp. rewrite path_at_mkp in Hp. apply nth_single in Hp. destruct Hp as [_ Hp]. inversion Hp; subst; auto.
    + intros d n i0 o0 Hp. apply nth_single in Hp. destruct Hp as [_ Hp]. inversion Hp; subst. apply VL_TextsV; auto.
    + exists i, o, []. split; [reflexivity|lia].
  - cbn [OpenR] in Ho. destruct Ho as (r & ty1 & a1 & m1 & cs1 & -> & Hs & Hl & Hr).
    pose proof (OpenR_size _ _ Hl) as Hsz. pose proof (spine_size _ _ _ _ Hs) as Hss.
    assert (Hfs : fsize (r ++ [Elem ty1 a1 m1 cs1]) = fsize r + (2 + fsize cs1))
      by (rewrite frag_size_app; cbn [frag_size]; rewrite Hss; lia).
    rewrite (resolve_in_descend ty a m r ty1 a1 m1 cs1 [] _ start) in H by (rewrite Hfs, ?Hss; lia).
    rewrite Hfs in H. replace (fsize r + (2 + fsize cs1) - S k - fsize r - 1) with (fsize cs1 - k) in H by lia.
    destruct (resolve_in s (Elem ty1 a1 m1 cs1) (fsize cs1 - k) (start + fsize r + 1)) as [[p1 po1]|] eqn:E1; [|discriminate].
    cbn [bind fst snd] in H. inversion H; subst p po'. clear H.
    destruct (IH _ _ _ _ _ _ _ Hl (proj2 Hs) E1) as (Hb & Hm & Htx & (i1 & o1 & rest1 & Hp1 & _)).
    split; [|split; [|split]].
    + intros d n i o _ Hp j c Hc Hj. destruct d as [|d].
      * rewrite path_at_mkp in Hp. cbn in Hp. inversion Hp; subst n i o. apply Hr. eapply child_app_lt; eauto.
      * eapply (BeforeFrom_shift [(Elem ty a m (r ++ [Elem ty1 a1 m1 cs1]), length r, start + fsize r)] p1 0 Hb (S d) n i o);
          [cbn [length]; lia|exact Hp|exact Hc|exact Hj].
    + intros d n i o Hp. rewrite path_at_mkp in Hp. destruct d as [|d]; [cbn in Hp; inversion Hp; subst; auto|].
      cbn in Hp. eapply (Hm d); eauto.
    + intros d n i o Hp. destruct d as [|d].
      * cbn in Hp. inversion Hp; subst. cbn [node_content]. intros t0 m0 Hi. apply in_app_or in Hi.
        destruct Hi as [Hi|[Hi|[]]]; [apply Hr; auto|discriminate].
      * cbn in Hp. eapply Htx; eauto.
    + exists (length r), (start + fsize r), p1. split; [reflexivity|]. intros _. split.
      * rewrite app_length. cbn [length]. lia.
      * rewrite Hp1. discriminate.
Qed.

(* ---------------------------------------------------------------- both sides of an open fragment *)
Lemma AfterFrom_single e D : 0 < D -> AfterFrom s (mkp [e]) D.
Proof. intros HD d n i o Hd Hp. rewrite path_at_mkp in Hp. apply nth_single in Hp. lia. Qed.
Lemma BeforeFrom_single e D : 0 < D -> BeforeFrom s (mkp [e]) D.
Proof. intros HD d n i o Hd Hp. rewrite path_at_mkp in Hp. apply nth_single in Hp. lia. Qed.

Lemma open_sides : forall os oe l ty a m s1 s2 ps po1 pe po2,
  OpenOK l os oe -> MC (Elem ty a m l) ->
  resolve_in s (Elem ty a m l) os s1 = Ok (ps, po1) ->
  resolve_in s (Elem ty a m l) (fsize l - oe) s2 = Ok (pe, po2) ->
  Sides s os oe (mkp ps) (mkp pe) 0 /\ PathMC s (mkp pe) /\ PathTextsV ps /\ PathTextsV pe /\ ps <> [] /\ pe <> [].
Proof.
  induction os as [|a IH]; intros oe l ty a0 m s1 s2 ps po1 pe po2 Ho Hmc Hs He.
  - cbn [OpenOK] in Ho. rewrite resolve_in_unfold in Hs. cbn in Hs. inversion Hs; subst ps po1. clear Hs.
    destruct (right_spine _ _ _ _ _ _ _ _ Ho Hmc He) as (Hb & Hm & Htx & (i & o & rest & Hp & _)).
    split; [|split; [exact Hm|split; [|split; [exact Htx|split; [discriminate|rewrite Hp; discriminate]]]]].
    + apply Sides_parted.
      * intros n ei oe0 si Hpe Hsi j c Hc Hj _. eapply (Hb 0); [lia|exact Hpe|exact Hc|exact Hj].
      * apply AfterFrom_single. lia.
      * eapply BeforeFrom_mono; [|exact Hb]. lia.
    + intros d n i0 o0 Hp0. apply nth_single in Hp0. destruct Hp0 as [_ Hp0]. inversion Hp0; subst.
      cbn [node_content]. eapply OpenR_TextsV; eauto.
  - destruct oe as [|b]; cbn [OpenOK] in Ho.
    + (* left-open only *)
      rewrite Nat.sub_0_r in He. destruct (resolve_in_at_end ty a0 m l s2) as (i & o & Hee). rewrite Hee in He.
      inversion He; subst pe po2. clear He Hee.
      destruct (left_spine _ _ _ _ _ _ _ _ Ho Hs) as (Ha & Hlen & Hidx & Htx & (o1 & rest1 & Hp1)).
      split; [|split; [|split; [exact Htx|split; [|split; [rewrite Hp1; discriminate|discriminate]]]]].
      * apply Sides_parted.
        -- intros n ei oe0 si Hpe Hsi j c Hc Hj Hcase. rewrite path_at_mkp in Hpe. apply nth_single in Hpe.
           destruct Hpe as [_ Hpe]. inversion Hpe; subst n ei oe0.
           unfold rp_index in Hsi. rewrite path_at_mkp, Hp1 in Hsi. cbn in Hsi. inversion Hsi; subst si.
           eapply (Ha 0); [lia|rewrite path_at_mkp, Hp1; reflexivity|exact Hc|].
           destruct Hcase as [Hl|[Hdep _]]; [left; exact Hl|].
           rewrite rp_depth_mkp, Hlen in Hdep. lia.
        -- eapply AfterFrom_mono; [|exact Ha]. lia.
        -- apply BeforeFrom_single. lia.
      * intros d n i0 o0 Hp0. rewrite path_at_mkp in Hp0. apply nth_single in Hp0. destruct Hp0 as [_ Hp0].
        inversion Hp0; subst; auto.
      * intros d n i0 o0 Hp0. apply nth_single in Hp0. destruct Hp0 as [_ Hp0]. inversion Hp0; subst.
        cbn [node_content]. eapply (OpenL_TextsV (S a)); eauto.
    + destruct Ho as [(ty1 & a1 & m1 & cs1 & -> & Hsp & Ho)|
                      (ty1 & a1 & m1 & cs1 & mid & ty2 & a2 & m2 & cs2 & -> & Hs1 & Hs2 & Hl & Hr & Hmid)].
      * (* a shared spine node *)
        destruct (OpenOK_size _ _ _ Ho) as [Hsa Hsb]. pose proof (spine_size _ _ _ _ Hsp) as Hss.
        pose proof (resolve_in_descend ty a0 m [] ty1 a1 m1 cs1 [] (S a) s1) as Hd. cbn [app frag_size length] in Hd.
        rewrite Hd in Hs by (rewrite ?Hss; lia). clear Hd. replace (S a - 0 - 1) with a in Hs by lia.
        destruct (resolve_in s (Elem ty1 a1 m1 cs1) a (s1 + 0 + 1)) as [[ps1 pp1]|] eqn:E1; [|discriminate].
        cbn [bind fst snd] in Hs. inversion Hs; subst ps po1. clear Hs.
        pose proof (resolve_in_descend ty a0 m [] ty1 a1 m1 cs1 [] (fsize [Elem ty1 a1 m1 cs1] - S b) s2) as Hd.
        cbn [app frag_size length] in Hd. cbn [frag_size] in He. rewrite Hss in *.
        rewrite Hd in He by lia. clear Hd.
        replace (2 + fsize cs1 + 0 - S b - 0 - 1) with (fsize cs1 - b) in He by lia.
        destruct (resolve_in s (Elem ty1 a1 m1 cs1) (fsize cs1 - b) (s2 + 0 + 1)) as [[pe1 pp2]|] eqn:E2; [|discriminate].
        cbn [bind fst snd] in He. inversion He; subst pe po2. clear He.
        destruct (IH _ _ _ _ _ _ _ _ _ _ _ Ho (proj2 Hsp) E1 E2) as (Hsd & Hm & Htx1 & Htx2 & Hn1 & Hn2).
        set (n := Elem ty a0 m [Elem ty1 a1 m1 cs1]) in *.
        split; [|split; [|split; [|split; [|split; discriminate]]]].
        -- apply Sides_shared; [lia|lia|exists 0; split; reflexivity|].
           apply (Sides_shift [(n, 0, s1 + 0)] [(n, 0, s2 + 0)] ps1 pe1 a b 0 eq_refl Hn1 Hsd).
        -- intros d n0 i o Hp. rewrite path_at_mkp in Hp. destruct d as [|d]; [cbn in Hp; inversion Hp; subst; auto|].
           cbn in Hp. eapply (Hm d); eauto.
        -- intros d n0 i o Hp. destruct d as [|d]; [|cbn in Hp; eapply Htx1; eauto].
           cbn in Hp. inversion Hp; subst. intros t0 m0 [Hi|[]]. discriminate.
        -- intros d n0 i o Hp. destruct d as [|d]; [|cbn in Hp; eapply Htx2; eauto].
           cbn in Hp. inversion Hp; subst. intros t0 m0 [Hi|[]]. discriminate.
      * (* the spines part here *)
        pose proof (OpenL_size _ _ Hl) as Hsa. pose proof (OpenR_size _ _ Hr) as Hsb.
        pose proof (spine_size _ _ _ _ Hs1) as Hss1. pose proof (spine_size _ _ _ _ Hs2) as Hss2.
        set (c1 := Elem ty1 a1 m1 cs1) in *. set (c2 := Elem ty2 a2 m2 cs2) in *.
        pose proof (resolve_in_descend ty a0 m [] ty1 a1 m1 cs1 (mid ++ [c2]) (S a) s1) as Hd.
        cbn [app frag_size length] in Hd. fold c1 in Hd.
        rewrite Hd in Hs by (rewrite ?Hss1; lia). clear Hd. replace (S a - 0 - 1) with a in Hs by lia.
        destruct (resolve_in s c1 a (s1 + 0 + 1)) as [[ps1 pp1]|] eqn:E1; [|discriminate].
        cbn [bind fst snd] in Hs. inversion Hs; subst ps po1. clear Hs.
        assert (Hfs : fsize (c1 :: mid ++ [c2]) = fsize (c1 :: mid) + (2 + fsize cs2)).
        { change (c1 :: mid ++ [c2]) with ((c1 :: mid) ++ [c2]). rewrite frag_size_app. cbn [frag_size]. rewrite Hss2. lia. }
        pose proof (resolve_in_descend ty a0 m (c1 :: mid) ty2 a2 m2 cs2 [] (fsize (c1 :: mid ++ [c2]) - S b) s2) as Hd.
        fold c2 in Hd. change ((c1 :: mid) ++ [c2]) with (c1 :: mid ++ [c2]) in Hd.
        rewrite Hd in He by (rewrite Hfs, ?Hss2; lia). clear Hd.
        rewrite Hfs in He.
        replace (fsize (c1 :: mid) + (2 + fsize cs2) - S b - fsize (c1 :: mid) - 1) with (fsize cs2 - b) in He by lia.
        destruct (resolve_in s c2 (fsize cs2 - b) (s2 + fsize (c1 :: mid) + 1)) as [[pe1 pp2]|] eqn:E2; [|discriminate].
        cbn [bind fst snd] in He. inversion He; subst pe po2. clear He.
        destruct (left_spine _ _ _ _ _ _ _ _ Hl E1) as (Ha & Hlen & _ & Htx1 & (o1 & rest1 & Hp1)).
        destruct (right_spine _ _ _ _ _ _ _ _ Hr (proj2 Hs2) E2) as (Hb & Hm & Htx2 & (i2 & o2 & rest2 & Hp2 & _)).
        assert (Hn1 : ps1 <> []) by (rewrite Hp1; discriminate).
        set (n := Elem ty a0 m (c1 :: mid ++ [c2])) in *.
        split; [|split; [|split; [|split; [|split; discriminate]]]].
        -- apply Sides_parted.
           ++ intros n0 ei oe0 si Hpe Hsi j c Hc Hj Hcase. rewrite path_at_mkp in Hpe. cbn in Hpe.
              inversion Hpe; subst n0 ei oe0. unfold rp_index in Hsi. rewrite path_at_mkp in Hsi. cbn in Hsi.
              inversion Hsi; subst si.
              destruct Hcase as [Hpos|[Hdep _]]; [|rewrite rp_depth_mkp in Hdep; cbn [length] in Hdep; lia].
              apply Hmid. unfold child_at, n in Hc. cbn [node_content] in Hc.
              destruct j as [|j]; [lia|]. cbn in Hc. rewrite nth_error_app1 in Hc by lia. eapply nth_error_In; eauto.
           ++ apply (AfterFrom_shift [(n, 0, s1 + 0)] ps1 0 Hn1 Ha).
           ++ apply (BeforeFrom_shift [(n, S (length mid), s2 + fsize (c1 :: mid))] pe1 0 Hb).
        -- intros d n0 i o Hp. rewrite path_at_mkp in Hp. destruct d as [|d]; [cbn in Hp; inversion Hp; subst; auto|].
           cbn in Hp. eapply (Hm d); eauto.
        -- intros d n0 i o Hp. destruct d as [|d]; [|cbn in Hp; eapply Htx1; eauto].
           cbn in Hp. inversion Hp; subst. unfold n. cbn [node_content].
           eapply (OpenOK_TextsV (S a) (S b)). cbn [OpenOK]. right.
           exists ty1, a1, m1, cs1, mid, ty2, a2, m2, cs2. auto 10.
        -- intros d n0 i o Hp. destruct d as [|d]; [|cbn in Hp; eapply Htx2; eauto].
           cbn in Hp. inversion Hp; subst. unfold n. cbn [node_content].
           eapply (OpenOK_TextsV (S a) (S b)). cbn [OpenOK]. right.
           exists ty1, a1, m1, cs1, mid, ty2, a2, m2, cs2. auto 10.
Qed.

(* ---------------------------------------------------------------- the shape of resolved paths *)
Definition is_elem (n : node) : Prop := exists ty a m cs, n = Elem ty a m cs.
Definition nonleaf (n : node) : Prop := is_leaf_ty s (node_ty s n) = false.

Lemma size_two_nonleaf ty a m cs : 2 <= nsize (Elem ty a m cs) -> nonleaf (Elem ty a m cs).
Proof. unfold nonleaf. rewrite node_size_elem. cbn [node_ty]. destruct (is_leaf_ty s ty); [lia|auto]. Qed.

Lemma resolve_in_shape : forall n po start p po',
  resolve_in s n po start = Ok (p, po') ->
  forall d x i o, nth_error p d = Some (x, i, o) -> is_elem x /\ (0 < d -> nonleaf x).
Proof.
  induction n as [t m|ty a m cs IH] using node_ind2; intros po start p po' H; [discriminate|].
  rewrite resolve_in_unfold in H. destruct (po =? 0) eqn:Ez.
  { inversion H; subst. intros d x i o Hp. apply nth_single in Hp. destruct Hp as [-> Hp]. inversion Hp; subst.
    split; [unfold is_elem; eauto|lia]. }
  apply Nat.eqb_neq in Ez. set (n := Elem ty a m cs) in *.
  assert (G : forall l i cur, (forall c, In c l -> In c cs) -> cur < po ->
              rwalk n po start l i cur = Ok (p, po') ->
              forall d x i o, nth_error p d = Some (x, i, o) -> is_elem x /\ (0 < d -> nonleaf x)).
  { clear H. induction l as [|c r IHl]; intros i cur Hin Hcur H; [discriminate|]. cbn [rwalk] in H. cbv zeta in H.
    destruct (cur + nsize c =? po) eqn:E1.
    - inversion H; subst. intros d x i0 o Hp. apply nth_single in Hp. destruct Hp as [-> Hp]. inversion Hp; subst.
      split; [unfold is_elem, n; eauto|lia].
    - apply Nat.eqb_neq in E1. destruct (po <? cur + nsize c) eqn:E2.
      + apply Nat.ltb_lt in E2. destruct c as [t0 m0|ty1 a1 m1 cs1].
        * inversion H; subst. intros d x i0 o Hp. apply nth_single in Hp. destruct Hp as [-> Hp]. inversion Hp; subst.
          split; [unfold is_elem, n; eauto|lia].
        * destruct (resolve_in s (Elem ty1 a1 m1 cs1) (po - cur - 1) (start + cur + 1)) as [[p1 pp1]|] eqn:E; [|discriminate].
          cbn [bind fst snd] in H. inversion H; subst p po'. clear H.
          pose proof (IH _ (Hin _ (or_introl eq_refl)) _ _ _ _ E) as IHc.
          destruct (resolve_in_spec s _ _ _ _ _ E) as ((i1 & o1 & rest1 & Hp1) & _ & _).
          intros d x i0 o Hp. destruct d as [|d]; [cbn in Hp; inversion Hp; subst; split; [unfold is_elem, n; eauto|lia]|].
          cbn in Hp. destruct (IHc _ _ _ _ Hp) as [He Hn]. split; [exact He|]. intros _.
          destruct d as [|d]; [|apply Hn; lia]. rewrite Hp1 in Hp. cbn in Hp. inversion Hp; subst.
          apply size_two_nonleaf. lia.
      + apply Nat.ltb_ge in E2. eapply (IHl (S i) (cur + nsize c)); eauto. intros c0 Hc0. apply Hin. right. exact Hc0. lia. }
  eapply (G cs 0 0); eauto. lia.
Qed.

Definition PathShape (r : rpos) : Prop :=
  forall d x, rp_node r d = Ok x -> is_elem x /\ (0 < d -> nonleaf x).

Lemma resolve_PathShape doc pos r : resolve s doc pos = Ok r -> PathShape r.
Proof.
  unfold resolve. destruct (fsize (node_content doc) <? pos); [discriminate|].
  destruct (resolve_in s doc pos 0) as [[p po]|] eqn:E; [|discriminate]. cbn [bind fst snd]. intros H. inversion H; subst r.
  intros d x Hn. destruct (rp_node_path _ _ _ Hn) as (i & o & Hp). unfold path_at in Hp. cbn in Hp.
  eapply resolve_in_shape; eauto.
Qed.

(* ---------------------------------------------------------------- the wrappers of the prepared slice *)
Definition WrapPath (wp : list (node * nat * nat)) : Prop :=
  forall d n i o, nth_error wp d = Some (n, i, o) -> i = 0 /\ MC n /\ exists x, node_content n = [x] /\ is_elem x.

Lemma bind_eta {A B} (x : res (A * B)) : (do r <- x; Ok (fst r, snd r)) = x.
Proof. destruct x as [[a b]|]; reflexivity. Qed.

Lemma wrap_resolve along : forall i ty0 a0 m0 cs0 w,
  wrap_up along i (Elem ty0 a0 m0 cs0) = Ok w ->
  (forall d x, d < i -> rp_node along d = Ok x -> is_elem x /\ MC x /\ (0 < d -> nonleaf x)) ->
  (0 < i -> nonleaf (Elem ty0 a0 m0 cs0)) ->
  fsize (node_content w) = fsize cs0 + 2 * i /\
  exists ws : list node, length ws = i /\
  forall po start, po <= fsize cs0 ->
    exists wp, List.map (fun e : node * nat * nat => fst (fst e)) wp = ws /\ WrapPath wp /\
      resolve_in s w (po + i) start =
      do r <- resolve_in s (Elem ty0 a0 m0 cs0) po (start + i); Ok (wp ++ fst r, snd r).
Proof.
  induction i as [|i IH]; intros ty0 a0 m0 cs0 w H Hpath Hnl.
  - cbn in H. inversion H; subst w. split; [cbn [node_content]; lia|]. exists []. split; [reflexivity|].
    intros po start _. exists []. split; [reflexivity|].
    split; [intros d n i o Hp; destruct d; discriminate|].
    rewrite !Nat.add_0_r. cbn [app]. symmetry. apply bind_eta.
  - cbn [wrap_up] in H. destruct (rp_node along i) as [x|] eqn:Ex; [|discriminate]. cbn [bind] in H.
    destruct (Hpath i x (Nat.lt_succ_diag_r i) Ex) as ((ty1 & a1 & m1 & cs1 & ->) & Hmc & Hnlx).
    cbn [node_copy] in H.
    assert (Hsz : nsize (Elem ty0 a0 m0 cs0) = 2 + fsize cs0).
    { rewrite node_size_elem. specialize (Hnl (Nat.lt_0_succ i)). unfold nonleaf in Hnl. cbn [node_ty] in Hnl. rewrite Hnl. reflexivity. }
    destruct (IH ty1 a1 m1 [Elem ty0 a0 m0 cs0] w H) as (Hfs & ws & Hlws & Hres).
    { intros d y Hd Hy. apply Hpath; auto. }
    { intros Hi. unfold nonleaf. cbn [node_ty]. apply (Hnlx Hi). }
    cbn [frag_size] in Hfs, Hres. rewrite Hsz in Hfs, Hres.
    split; [lia|].
    set (n' := Elem ty1 a1 m1 [Elem ty0 a0 m0 cs0]) in *.
    exists (ws ++ [n']). split; [rewrite app_length; cbn [length]; lia|].
    intros po start Hpo.
    destruct (Hres (po + 1) start) as (wp & Hmap & Hwp & Heq); [lia|].
    assert (Hlen : length wp = i) by (rewrite <- Hlws, <- Hmap, map_length; reflexivity).
    exists (wp ++ [(n', 0, start + i + 0)]). split; [rewrite map_app, Hmap; reflexivity|]. split.
    + intros d n k o Hp. destruct (Nat.lt_ge_cases d (length wp)) as [Hlt|Hge].
      * rewrite nth_error_app1 in Hp by lia. eapply Hwp; eauto.
      * rewrite nth_error_app2 in Hp by lia. apply nth_single in Hp. destruct Hp as [_ Hp]. inversion Hp; subst.
        split; [reflexivity|]. split; [exact Hmc|]. exists (Elem ty0 a0 m0 cs0). split; [reflexivity|unfold is_elem; eauto].
    + replace (po + S i) with (po + 1 + i) by lia. rewrite Heq.
      pose proof (resolve_in_descend ty1 a1 m1 [] ty0 a0 m0 cs0 [] (po + 1) (start + i)) as Hd.
      cbn [app frag_size length] in Hd. fold n' in Hd. rewrite Hd by (rewrite ?Hsz; lia). clear Hd.
      replace (po + 1 - 0 - 1) with po by lia. replace (start + i + 0 + 1) with (start + S i) by lia.
      destruct (resolve_in s (Elem ty0 a0 m0 cs0) po (start + S i)) as [[p1 pp1]|]; [|reflexivity].
      cbn [bind fst snd]. rewrite <- app_assoc. reflexivity.
Qed.

(* ---------------------------------------------------------------- the predicates only look at the path *)
Lemma AfterFrom_ext r r' D : rp_path r = rp_path r' -> AfterFrom s r D -> AfterFrom s r' D.
Proof. unfold AfterFrom, path_at, rp_depth. intros ->. auto. Qed.
Lemma BeforeFrom_ext r r' D : rp_path r = rp_path r' -> BeforeFrom s r D -> BeforeFrom s r' D.
Proof. unfold BeforeFrom, path_at, rp_depth. intros ->. auto. Qed.
Lemma RangeOK_ext a a' b b' d : rp_path a = rp_path a' -> rp_path b = rp_path b' -> RangeOK s a b d -> RangeOK s a' b' d.
Proof. unfold RangeOK, rp_index, path_at, rp_depth. intros -> ->. auto. Qed.
Lemma PathMC_ext r r' : rp_path r = rp_path r' -> PathMC s r -> PathMC s r'.
Proof. unfold PathMC, path_at. intros ->. auto. Qed.
Lemma Sides_ext Df Dt a a' b b' d :
  rp_path a = rp_path a' -> rp_path b = rp_path b' -> Sides s Df Dt a b d -> Sides s Df Dt a' b' d.
Proof.
  intros Ha Hb H. induction H as [d Hdf Hdt (i & Hi1 & Hi2) Hnext IH|d Hr Haf Hbf].
  - apply Sides_shared; auto. exists i. unfold rp_index, path_at in *. rewrite <- Ha, <- Hb. auto.
  - apply Sides_parted; eauto using RangeOK_ext, AfterFrom_ext, BeforeFrom_ext.
Qed.

Lemma PathTextsV_app wp p : WrapPath wp -> PathTextsV p -> PathTextsV (wp ++ p).
Proof.
  intros Hw Hp d n i o Hn. destruct (Nat.lt_ge_cases d (length wp)) as [Hlt|Hge].
  - rewrite nth_error_app1 in Hn by lia. destruct (Hw _ _ _ _ Hn) as (_ & _ & x & Hx & (ty & a & m & cs & ->)).
    rewrite Hx. intros t m0 [Hi|[]]. discriminate.
  - rewrite nth_error_app2 in Hn by lia. eapply Hp; eauto.
Qed.

Lemma LastOK_of_texts r : TextAt r -> PathTextsV (rp_path r) -> LastOK s r.
Proof.
  intros Ht Hp Hz n i o c Hpa Hc. destruct (Ht Hz) as (n' & i' & o' & t & m & Hpa' & Hc').
  rewrite Hpa in Hpa'. inversion Hpa'; subst n' i' o'. rewrite Hc in Hc'. inversion Hc'; subst c.
  eapply (Hp _ _ _ _ Hpa). eapply child_at_In; eauto.
Qed.

(* ---------------------------------------------------------------- the prepared slice *)
Lemma prepared_sides along sl st en :
  PathV s along -> PathShape along ->
  sl_open_start sl <= rp_depth along ->
  OpenOK (sl_content sl) (sl_open_start sl) (sl_open_end sl) ->
  prepare_slice s sl along = Ok (st, en) ->
  LastOK s st /\ LastOK s en /\ PathMC s en /\
  forall d, d <= rp_depth along - sl_open_start sl ->
    Sides s (rp_depth along) (rp_depth along - sl_open_start sl + sl_open_end sl) st en d.
Proof.
  intros Hv Hsh Hos Ho H. destruct (prepare_slice_TextAt s _ _ _ _ H) as [Hts Hte].
  apply (prepare_slice_ok s) in H. unfold prepare_slice0 in H.
  set (os := sl_open_start sl) in *. set (oe := sl_open_end sl) in *. set (content := sl_content sl) in *.
  set (extra := rp_depth along - os) in *.
  destruct (rp_node along extra) as [parent|] eqn:Epar; [|discriminate]. cbn [bind] in H.
  destruct (Hsh _ _ Epar) as ((typ & ap & mp & csp & ->) & Hnlp). cbn [node_copy] in H.
  destruct (wrap_up along extra (Elem typ ap mp content)) as [w|] eqn:Ew; [|discriminate]. cbn [bind] in H.
  destruct (wrap_resolve along extra typ ap mp content w Ew) as (Hfs & ws & Hlws & Hres).
  { intros d x Hd Hx. destruct (Hsh _ _ Hx) as [He Hn]. split; [exact He|]. split; [|exact Hn].
    apply V_MC. eapply rp_node_V; eauto. }
  { intros He. apply Hnlp in He. exact He. }
  destruct (fsize (node_content w) <? oe + extra); [discriminate|].
  destruct (resolve s w (os + extra)) as [st'|] eqn:Est; [|discriminate]. cbn [bind] in H.
  destruct (resolve s w (fsize (node_content w) - oe - extra)) as [en'|] eqn:Een; [|discriminate]. cbn [bind] in H.
  inversion H; subst st' en'. clear H.
  destruct (OpenOK_size _ _ _ Ho) as [Hsos Hsoe]. fold content in Hsos, Hsoe.
  (* the left position *)
  unfold resolve in Est. destruct (fsize (node_content w) <? os + extra); [discriminate|].
  destruct (resolve_in s w (os + extra) 0) as [[p1 q1]|] eqn:R1; [|discriminate]. cbn [bind fst snd] in Est.
  destruct (Hres os 0 Hsos) as (wp1 & Hm1 & Hw1 & Heq1). rewrite Heq1 in R1.
  assert (Hl1 : length wp1 = extra) by (rewrite <- Hlws, <- Hm1, map_length; reflexivity).
  destruct (resolve_in s (Elem typ ap mp content) os (0 + extra)) as [[ps qs]|] eqn:Rs; [|discriminate].
  cbn [bind fst snd] in R1. inversion R1; subst p1 q1. clear R1 Heq1.
  (* the right position *)
  unfold resolve in Een. destruct (fsize (node_content w) <? fsize (node_content w) - oe - extra); [discriminate|].
  replace (fsize (node_content w) - oe - extra) with (fsize content - oe + extra) in Een by lia.
  destruct (resolve_in s w (fsize content - oe + extra) 0) as [[p2 q2]|] eqn:R2; [|discriminate]. cbn [bind fst snd] in Een.
  destruct (Hres (fsize content - oe) 0 ltac:(lia)) as (wp2 & Hm2 & Hw2 & Heq2). rewrite Heq2 in R2.
  assert (Hl2 : length wp2 = extra) by (rewrite <- Hlws, <- Hm2, map_length; reflexivity).
  destruct (resolve_in s (Elem typ ap mp content) (fsize content - oe) (0 + extra)) as [[pe qe]|] eqn:Re; [|discriminate].
  cbn [bind fst snd] in R2. inversion R2; subst p2 q2. clear R2 Heq2.
  assert (Hmcp : MC (Elem typ ap mp content)).
  { assert (Hp : MC (Elem typ ap mp csp)) by (apply V_MC; eapply rp_node_V; eauto). exact Hp. }
  destruct (open_sides _ _ _ _ _ _ _ _ _ _ _ _ Ho Hmcp Rs Re) as (Hsd & Hm & Htx1 & Htx2 & Hn1 & Hn2).
  inversion Est; subst st. inversion Een; subst en. clear Est Een.
  split; [|split; [|split]].
  - apply LastOK_of_texts; [exact Hts|]. cbn [rp_path]. apply PathTextsV_app; auto.
  - apply LastOK_of_texts; [exact Hte|]. cbn [rp_path]. apply PathTextsV_app; auto.
  - eapply (PathMC_ext (mkp (wp2 ++ pe))); [reflexivity|].
    intros d n i o Hp. rewrite path_at_mkp in Hp. destruct (Nat.lt_ge_cases d (length wp2)) as [Hlt|Hge].
    + rewrite nth_error_app1 in Hp by lia. apply (Hw2 _ _ _ _ Hp).
    + rewrite nth_error_app2 in Hp by lia. eapply (Hm (d - length wp2)); eauto.
  - assert (Hall : forall k, k <= extra ->
               Sides s (extra + os) (extra + oe) (mkp (wp1 ++ ps)) (mkp (wp2 ++ pe)) (extra - k)).
    { induction k as [|k IHk]; intros Hk.
      - rewrite Nat.sub_0_r. pose proof (Sides_shift wp1 wp2 ps pe os oe 0 ltac:(lia) Hn1 Hsd) as Hs0.
        rewrite Hl1, Nat.add_0_r in Hs0. exact Hs0.
      - apply Sides_shared; [lia|lia| |replace (S (extra - S k)) with (extra - k) by lia; apply IHk; lia].
        exists 0. unfold rp_index. rewrite !path_at_mkp, !nth_error_app1 by lia.
        destruct (nth_error wp1 (extra - S k)) as [[[n1 i1] o1]|] eqn:E1; [|apply nth_error_None in E1; lia].
        destruct (nth_error wp2 (extra - S k)) as [[[n2 i2] o2]|] eqn:E2; [|apply nth_error_None in E2; lia].
        destruct (Hw1 _ _ _ _ E1) as [-> _]. destruct (Hw2 _ _ _ _ E2) as [-> _]. auto. }
    intros d Hd. replace (rp_depth along) with (extra + os) by (unfold extra; lia).
    replace (extra + os - os + oe) with (extra + oe) by lia.
    eapply (Sides_ext _ _ (mkp (wp1 ++ ps)) _ (mkp (wp2 ++ pe))); [reflexivity|reflexivity|].
    replace d with (extra - (extra - d)) by lia. apply Hall. lia.
Qed.

(* ---------------------------------------------------------------- the theorem *)
Theorem node_replace_valid_open doc from to sl d' :
  V doc -> OpenOK (sl_content sl) (sl_open_start sl) (sl_open_end sl) ->
  node_replace s doc from to sl = Ok d' -> V d'.
Proof.
  intros Hd Ho H. eapply node_replace_valid; [exact Hd|exact H| |].
  - intros H0 H1. rewrite H0, H1 in Ho. exact Ho.
  - intros rf rt st en Hf Ht Hos Hdt Hp. rewrite Hdt.
    eapply prepared_sides; eauto using resolve_PathV, resolve_PathShape.
Qed.

End WithSchema.
