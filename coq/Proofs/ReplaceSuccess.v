(* WHEN Node.replace succeeds, for the commonest shape of edit (C02): a closed, non-empty slice put between two positions
   that lie in the same parent node (typing, pasting closed content, replacing a selection inside one textblock or one
   container).  Node.replace then returns a document exactly when the parent's new child sequence - the children before
   the range, the slice's content, the children after it, with adjacent equally-marked text merged - is valid content
   for the parent's type; otherwise it raises ReplaceError.  Nothing else can make it fail. *)
From Coq Require Import ZArith NArith List Bool Arith Lia.
From PM Require Import Model.Data Model.Mark Model.Tree Model.StepMap Model.Step Proofs.ReplaceValid Proofs.SliceSides Proofs.ReplaceSafe.
Import ListNotations.
Local Open Scope nat_scope.

Section WithSchema.
Variable s : schema.
Notation fsize := (frag_size s).

Lemma replace_outer_flat (rf rt : rpos) (sl : slice) (parent : node) (a b : list node) :
  WP s rf -> WP s rt -> rp_depth rf = rp_depth rt ->
  (forall d, d < rp_depth rf -> rp_index rf d = rp_index rt d) ->
  sl_open_start sl = 0 -> sl_open_end sl = 0 -> fsize (sl_content sl) <> 0 ->
  rp_parent rf = Ok parent ->
  frag_cut s (node_content parent) 0 (rp_parent_offset rf) = Ok a ->
  frag_cut s (node_content parent) (rp_parent_offset rt) (fsize (node_content parent)) = Ok b ->
  forall k depth fuel, depth + k = rp_depth rf -> k < fuel ->
    ((exists d', replace_outer s fuel rf rt sl depth = Ok d') <->
     valid_content s (node_ty s parent) (frag_append (frag_append a (sl_content sl)) b) = true) /\
    (forall e, replace_outer s fuel rf rt sl depth = Err e -> e = ErrReplace).
Proof.
  intros Hwf Hwt Hdep Hidx Hos Hoe Hne Hpar Ha Hb.
  induction k as [|k IH]; intros depth fuel Hk Hfuel; (destruct fuel as [|fuel]; [lia|]); cbn [replace_outer].
  - (* depth = the parents' depth: the closed-slice fast path *)
    assert (Hd : depth = rp_depth rf) by lia. subst depth.
    destruct (WP_at s rf (rp_depth rf) Hwf (Nat.le_refl _)) as (n & i & o & _ & _ & _ & En & Ei & _).
    destruct (WP_at s rt (rp_depth rf) Hwt ltac:(lia)) as (n' & i' & o' & _ & _ & _ & _ & Ei' & _).
    rewrite Ei, En, Ei'. cbn [bind]. rewrite Hos, Nat.sub_0_r, Nat.ltb_irrefl, andb_false_r.
    apply Nat.eqb_neq in Hne. rewrite Hne. rewrite Hoe, <- Hdep, !Nat.eqb_refl. cbn [andb].
    rewrite Hpar. cbn [bind]. rewrite Ha. cbn [bind]. rewrite Hb. cbn [bind]. unfold close.
    destruct (valid_content s (node_ty s parent) (frag_append (frag_append a (sl_content sl)) b)).
    + split; [split; [reflexivity|eexists; reflexivity]|discriminate].
    + split; [split; [intros (d' & H); discriminate|discriminate]|]. intros e H. inversion H. reflexivity.
  - (* above it: both positions go into the same child; the node is copied around the inner result *)
    assert (Hlt : depth < rp_depth rf) by lia.
    destruct (WP_at s rf depth Hwf ltac:(lia)) as (n & i & o & _ & _ & _ & En & Ei & _).
    pose proof (Hidx depth Hlt) as Hii. rewrite Ei in Hii.
    rewrite Ei, En, <- Hii. cbn [bind]. rewrite Nat.eqb_refl, Hos, Nat.sub_0_r. apply Nat.ltb_lt in Hlt. rewrite Hlt. cbn [andb].
    apply Nat.ltb_lt in Hlt.
    destruct (IH (S depth) fuel ltac:(lia) ltac:(lia)) as (IH1 & IH2).
    destruct (replace_outer s fuel rf rt sl (S depth)) as [inner|e] eqn:Einner; cbn [bind].
    + split; [|discriminate]. split; [intros _; apply IH1; eexists; reflexivity|intros _; eexists; reflexivity].
    + split.
      * split; [intros (d' & H); discriminate|]. intros Hv. destruct (proj2 IH1 Hv) as (d' & H). discriminate.
      * intros e' H. inversion H; subst e'. apply IH2. reflexivity.
Qed.

Theorem flat_closed_replace doc from to sl rf rt parent a b :
  is_elem doc -> resolve s doc from = Ok rf -> resolve s doc to = Ok rt -> from <= to ->
  rp_depth rf = rp_depth rt -> (forall d, d < rp_depth rf -> rp_index rf d = rp_index rt d) ->
  sl_open_start sl = 0 -> sl_open_end sl = 0 -> fsize (sl_content sl) <> 0 ->
  rp_parent rf = Ok parent ->
  frag_cut s (node_content parent) 0 (rp_parent_offset rf) = Ok a ->
  frag_cut s (node_content parent) (rp_parent_offset rt) (fsize (node_content parent)) = Ok b ->
  ((exists d', node_replace s doc from to sl = Ok d') <->
   valid_content s (node_ty s parent) (frag_append (frag_append a (sl_content sl)) b) = true) /\
  (forall e, node_replace s doc from to sl = Err e -> e = ErrReplace).
Proof.
  intros He Hrf Hrt Hft Hdep Hidx Hos Hoe Hne Hpar Ha Hb.
  destruct (resolve_WP s _ _ _ He Hrf) as (Hwf & Hpf). destruct (resolve_WP s _ _ _ He Hrt) as (Hwt & Hpt).
  unfold node_replace. rewrite Hrf, Hrt. cbn [bind]. unfold replace_rp.
  rewrite Hos, Hoe. assert (E1 : (rp_depth rf <? 0) = false) by (apply Nat.ltb_ge; lia). rewrite E1.
  rewrite Hdep, Z.eqb_refl. cbn [negb]. rewrite Hpf, Hpt.
  assert (E2 : (to <? from) = false) by (apply Nat.ltb_ge; lia). rewrite E2.
  apply Nat.eqb_neq in Hne. rewrite Hne. cbn [andb]. apply Nat.eqb_neq in Hne.
  rewrite <- Hdep.
  exact (replace_outer_flat rf rt sl parent a b Hwf Hwt Hdep Hidx Hos Hoe Hne Hpar Ha Hb (rp_depth rf) 0 (S (rp_depth rf)) eq_refl ltac:(lia)).
Qed.

(* the same for the step: a ReplaceStep of that shape applies when the new child sequence is valid and FAILS (a failed
   result, no exception) when it is not *)
Theorem flat_closed_replace_step doc from to sl rf rt parent a b :
  is_elem doc -> resolve s doc from = Ok rf -> resolve s doc to = Ok rt -> from <= to ->
  rp_depth rf = rp_depth rt -> (forall d, d < rp_depth rf -> rp_index rf d = rp_index rt d) ->
  sl_open_start sl = 0 -> sl_open_end sl = 0 -> fsize (sl_content sl) <> 0 ->
  rp_parent rf = Ok parent ->
  frag_cut s (node_content parent) 0 (rp_parent_offset rf) = Ok a ->
  frag_cut s (node_content parent) (rp_parent_offset rt) (fsize (node_content parent)) = Ok b ->
  if valid_content s (node_ty s parent) (frag_append (frag_append a (sl_content sl)) b)
  then exists d', apply s (SReplace from to sl false) doc = ROk d'
  else apply s (SReplace from to sl false) doc = RFail.
Proof.
  intros He Hrf Hrt Hft Hdep Hidx Hos Hoe Hne Hpar Ha Hb.
  destruct (flat_closed_replace doc from to sl rf rt parent a b He Hrf Hrt Hft Hdep Hidx Hos Hoe Hne Hpar Ha Hb) as (H1 & H2).
  cbn [apply lift]. unfold from_replace.
  destruct (valid_content s (node_ty s parent) (frag_append (frag_append a (sl_content sl)) b)).
  - destruct (proj2 H1 eq_refl) as (d' & E). rewrite E. exists d'. reflexivity.
  - destruct (node_replace s doc from to sl) as [d'|e] eqn:E.
    + assert (X : false = true) by (apply (proj1 H1); exists d'; reflexivity). discriminate.
    + rewrite (H2 e eq_refl). reflexivity.
Qed.

End WithSchema.
