(* WHEN Node.replace succeeds, for the commonest shape of edit (C02): a closed, non-empty slice put between two positions
   that lie in the same parent node (typing, pasting closed content, replacing a selection inside one textblock or one
   container).  Node.replace then returns a document exactly when the parent's new child sequence - the children before
   the range, the slice's content, the children after it, with adjacent equally-marked text merged - is valid content
   for the parent's type; otherwise it raises ReplaceError.  Nothing else can make it fail. *)
From Coq Require Import ZArith NArith List Bool Arith Lia.
From PM Require Import Model.Data Model.Mark Model.Tree Model.StepMap Model.Step Proofs.ReplaceValid Proofs.SliceSides Proofs.ReplaceSafe.
Import ListNotations.
Local Open Scope nat_scope.

Section WithSchema.
Variable s : schema.
Notation fsize := (frag_size s).

Lemma replace_outer_flat (rf rt : rpos) (sl : slice) (parent : node) (a b : list node) :
  WP s rf -> WP s rt -> rp_depth rf = rp_depth rt ->
  (forall d, d < rp_depth rf -> rp_index rf d = rp_index rt d) ->
  sl_open_start sl = 0 -> sl_open_end sl = 0 -> fsize (sl_content sl) <> 0 ->
  rp_parent rf = Ok parent ->
  frag_cut s (node_content parent) 0 (rp_parent_offset rf) = Ok a ->
  frag_cut s (node_content parent) (rp_parent_offset rt) (fsize (node_content parent)) = Ok b ->
  forall k depth fuel, depth + k = rp_depth rf -> k < fuel ->
    ((exists d', replace_outer s fuel rf rt sl depth = Ok d') <->
     valid_content s (node_ty s parent) (frag_append (frag_append a (sl_content sl)) b) = true) /\
    (forall e, replace_outer s fuel rf rt sl depth = Err e -> e = ErrReplace).
Proof.
  intros Hwf Hwt Hdep Hidx Hos Hoe Hne Hpar Ha Hb.
  induction k as [|k IH]; intros depth fuel Hk Hfuel; (destruct fuel as [|fuel]; [lia|]); cbn [replace_outer].
  - (* depth = the parents' depth: the closed-slice fast path *)
    assert (Hd : depth = rp_depth rf) by lia. subst depth.
    destruct (WP_at s rf (rp_depth rf) Hwf (Nat.le_refl _)) as (n & i & o & _ & _ & _ & En & Ei & _).
    destruct (WP_at s rt (rp_depth rf) Hwt ltac:(lia)) as (n' & i' & o' & _ & _ & _ & _ & Ei' & _).
    rewrite Ei, En, Ei'. cbn [bind]. rewrite Hos, Nat.sub_0_r, Nat.ltb_irrefl, andb_false_r.
    apply Nat.eqb_neq in Hne. rewrite Hne. rewrite Hoe, <- Hdep, !Nat.eqb_refl. cbn [andb].
    rewrite Hpar. cbn [bind]. rewrite Ha. cbn [bind]. rewrite Hb. cbn [bind]. unfold close.
    destruct (valid_content s (node_ty s parent) (frag_append (frag_append a (sl_content sl)) b)).
    + split; [split; [reflexivity|eexists; reflexivity]|discriminate].
    + split; [split; [intros (d' & H); discriminate|discriminate]|]. intros e H. inversion H. reflexivity.
  - (* above it: both positions go into the same child; the node is copied around the inner result *)
    assert (Hlt : depth < rp_depth rf) by lia.
    destruct (WP_at s rf depth Hwf ltac:(lia)) as (n & i & o & _ & _ & _ & En & Ei & _).
    pose proof (Hidx depth Hlt) as Hii. rewrite Ei in Hii.
    rewrite Ei, En, <- Hii. cbn [bind]. rewrite Nat.eqb_refl, Hos, Nat.sub_0_r. apply Nat.ltb_lt in Hlt. rewrite Hlt. cbn [andb].
    apply Nat.ltb_lt in Hlt.
    destruct (IH (S depth) fuel ltac:(lia) ltac:(lia)) as (IH1 & IH2).
    destruct (replace_outer s fuel rf rt sl (S depth)) as [inner|e] eqn:Einner; cbn [bind].
    + split; [|discriminate]. split; [intros _; apply IH1; eexists; reflexivity|intros _; eexists; reflexivity].
    + split.
      * split; [intros (d' & H); discriminate|]. intros Hv. destruct (proj2 IH1 Hv) as (d' & H). discriminate.
      * intros e' H. inversion H; subst e'. apply IH2. reflexivity.
Qed.

Theorem flat_closed_replace doc from to sl rf rt parent a b :
  is_elem doc -> resolve s doc from = Ok rf -> resolve s doc to = Ok rt -> from <= to ->
  rp_depth rf = rp_depth rt -> (forall d, d < rp_depth rf -> rp_index rf d = rp_index rt d) ->
  sl_open_start sl = 0 -> sl_open_end sl = 0 -> fsize (sl_content sl) <> 0 ->
  rp_parent rf = Ok parent ->
  frag_cut s (node_content parent) 0 (rp_parent_offset rf) = Ok a ->
  frag_cut s (node_content parent) (rp_parent_offset rt) (fsize (node_content parent)) = Ok b ->
  ((exists d', node_replace s doc from to sl = Ok d') <->
   valid_content s (node_ty s parent) (frag_append (frag_append a (sl_content sl)) b) = true) /\
  (forall e, node_replace s doc from to sl = Err e -> e = ErrReplace).
Proof.
  intros He Hrf Hrt Hft Hdep Hidx Hos Hoe Hne Hpar Ha Hb.
  destruct (resolve_WP s _ _ _ He Hrf) as (Hwf & Hpf). destruct (resolve_WP s _ _ _ He Hrt) as (Hwt & Hpt).
  unfold node_replace. rewrite Hrf, Hrt. cbn [bind]. unfold replace_rp.
  rewrite Hos, Hoe. assert (E1 : (rp_depth rf <? 0) = false) by (apply Nat.ltb_ge; lia). rewrite E1.
  rewrite Hdep, Z.eqb_refl. cbn [negb]. rewrite Hpf, Hpt.
  assert (E2 : (to <? from) = false) by (apply Nat.ltb_ge; lia). rewrite E2.
  apply Nat.eqb_neq in Hne. rewrite Hne. cbn [andb]. apply Nat.eqb_neq in Hne.
  rewrite <- Hdep.
  exact (replace_outer_flat rf rt sl parent a b Hwf Hwt Hdep Hidx Hos Hoe Hne Hpar Ha Hb (rp_depth rf) 0 (S (rp_depth rf)) eq_refl ltac:(lia)).
Qed.

(* the same for the step: a ReplaceStep of that shape applies when the new child sequence is valid and FAILS (a failed
   result, no exception) when it is not *)
Theorem flat_closed_replace_step doc from to sl rf rt parent a b :
  is_elem doc -> resolve s doc from = Ok rf -> resolve s doc to = Ok rt -> from <= to ->
  rp_depth rf = rp_depth rt -> (forall d, d < rp_depth rf -> rp_index rf d = rp_index rt d) ->
  sl_open_start sl = 0 -> sl_open_end sl = 0 -> fsize (sl_content sl) <> 0 ->
  rp_parent rf = Ok parent ->
  frag_cut s (node_content parent) 0 (rp_parent_offset rf) = Ok a ->
  frag_cut s (node_content parent) (rp_parent_offset rt) (fsize (node_content parent)) = Ok b ->
  if valid_content s (node_ty s parent) (frag_append (frag_append a (sl_content sl)) b)
  then exists d', apply s (SReplace from to sl false) doc = ROk d'
  else apply s (SReplace from to sl false) doc = RFail.
Proof.
  intros He Hrf Hrt Hft Hdep Hidx Hos Hoe Hne Hpar Ha Hb.
  destruct (flat_closed_replace doc from to sl rf rt parent a b He Hrf Hrt Hft Hdep Hidx Hos Hoe Hne Hpar Ha Hb) as (H1 & H2).
  cbn [apply lift]. unfold from_replace.
  destruct (valid_content s (node_ty s parent) (frag_append (frag_append a (sl_content sl)) b)).
  - destruct (proj2 H1 eq_refl) as (d' & E). rewrite E. exists d'. reflexivity.
  - destruct (node_replace s doc from to sl) as [d'|e] eqn:E.
    + assert (X : false = true) by (apply (proj1 H1); exists d'; reflexivity). discriminate.
    + rewrite (H2 e eq_refl). reflexivity.
Qed.

(* ------------------------------------------------------------------ deleting a range inside one parent node
   [remaining]: the parent's children before the range, the part of a text node in front of `from` (node_before), the part
   of a text node behind `to` (node_after), the children after the range - appended one by one, equally-marked adjacent text
   merged.  Node.replace with the empty slice returns a document exactly when that child sequence is valid content for the
   parent's type; otherwise it raises ReplaceError. *)
Definition opt_add (o : option node) (target : list node) : list node :=
  match o with Some x => add_node x target | None => target end.

Definition remaining (parent : node) (rf rt : rpos) (i j : nat) (nb na : option node) : list node :=
  let c1 := add_all (firstn i (node_content parent)) [] in
  let c1' := if negb (rp_text_offset rf =? 0) then opt_add nb c1 else c1 in
  let '(start, c2) := if negb (rp_text_offset rt =? 0) then (S j, opt_add na c1') else (j, c1') in
  add_all (skipn start (node_content parent)) c2.

Lemma same_ancestors rf rt doc : WP s rf -> WP s rt -> rp_depth rf = rp_depth rt ->
  rp_node rf 0 = Ok doc -> rp_node rt 0 = Ok doc ->
  (forall d, d < rp_depth rf -> rp_index rf d = rp_index rt d) ->
  forall d, d <= rp_depth rf -> rp_node rt d = rp_node rf d.
Proof.
  intros Hwf Hwt Hdep H0f H0t Hidx. induction d as [|d IH]; intros Hd; [rewrite H0f, H0t; reflexivity|].
  destruct (WP_at s rf d Hwf ltac:(lia)) as (n & i & o & _ & _ & _ & En & Ei & _ & Hc).
  destruct (WP_at s rt d Hwt ltac:(lia)) as (n' & i' & o' & _ & _ & _ & En' & Ei' & _ & Hc').
  specialize (IH ltac:(lia)). rewrite En, En' in IH. inversion IH; subst n'.
  pose proof (Hidx d ltac:(lia)) as E. rewrite Ei, Ei' in E. inversion E; subst i'.
  destruct (Hc ltac:(lia)) as (c & Hca & Hcn). destruct (Hc' ltac:(lia)) as (c' & Hca' & Hcn').
  rewrite Hca in Hca'. inversion Hca'; subst c'. rewrite Hcn, Hcn'. reflexivity.
Qed.

Theorem flat_delete doc from to rf rt parent i j nb na :
  is_elem doc -> resolve s doc from = Ok rf -> resolve s doc to = Ok rt -> from <= to ->
  rp_depth rf = rp_depth rt -> (forall d, d < rp_depth rf -> rp_index rf d = rp_index rt d) ->
  rp_parent rf = Ok parent ->
  rp_index rf (rp_depth rf) = Ok i -> rp_index rt (rp_depth rf) = Ok j ->
  rp_node_before s rf = Ok nb -> rp_node_after s rt = Ok na ->
  ((exists d', node_replace s doc from to (SL [] 0 0) = Ok d') <->
   valid_content s (node_ty s parent) (remaining parent rf rt i j nb na) = true) /\
  (forall e, node_replace s doc from to (SL [] 0 0) = Err e -> e = ErrReplace).
Proof.
  intros He Hrf Hrt Hft Hdep Hidx Hpar Hi Hj Hnb Hna.
  destruct (resolve_WP s _ _ _ He Hrf) as (Hwf & Hpf). destruct (resolve_WP s _ _ _ He Hrt) as (Hwt & Hpt).
  assert (H0f : rp_node rf 0 = Ok doc).
  { destruct (resolve_spec s _ _ _ Hrf) as (_ & _ & _ & (i0 & o0 & rest & Hh) & _). unfold rp_node, path_at. rewrite Hh. reflexivity. }
  assert (H0t : rp_node rt 0 = Ok doc).
  { destruct (resolve_spec s _ _ _ Hrt) as (_ & _ & _ & (i0 & o0 & rest & Hh) & _). unfold rp_node, path_at. rewrite Hh. reflexivity. }
  pose proof (same_ancestors rf rt doc Hwf Hwt Hdep H0f H0t Hidx) as Hsame.
  set (D := rp_depth rf) in *.
  assert (Hparf : rp_node rf D = Ok parent) by exact Hpar.
  assert (Hpart : rp_node rt D = Ok parent) by (rewrite (Hsame D (Nat.le_refl _)); exact Hparf).
  destruct (WP_at s rf D Hwf (Nat.le_refl _)) as (n0 & i0 & o0 & _ & _ & Hile & En0 & Ei0 & _).
  rewrite Hparf in En0. inversion En0; subst n0. rewrite Hi in Ei0. inversion Ei0; subst i0.
  destruct (WP_at s rt D Hwt ltac:(unfold D; lia)) as (n1 & j1 & o1 & _ & _ & Hjle & En1 & Ej1 & _).
  rewrite Hpart in En1. inversion En1; subst n1. rewrite Hj in Ej1. inversion Ej1; subst j1.
  (* the bottom level: replace_two_way at depth D *)
  assert (Htw : forall fuel, replace_two_way s (S fuel) rf rt D = Ok (remaining parent rf rt i j nb na)).
  { intros fuel. cbn [replace_two_way]. unfold add_range at 1. rewrite Hparf, Hi. cbn [bind].
    assert (E1 : (length (node_content parent) <? i) = false) by (apply Nat.ltb_ge; exact Hile). rewrite E1. cbn [bind].
    rewrite Nat.sub_0_r. cbn [skipn]. fold D. rewrite Nat.eqb_refl. cbn [andb].
    assert (Hc1 : (if negb (rp_text_offset rf =? 0)
                   then do nb0 <- rp_node_before s rf; match nb0 with Some x => Ok (add_node x (add_all (firstn i (node_content parent)) [])) | None => Err ErrInternal end
                   else Ok (add_all (firstn i (node_content parent)) []))
                  = Ok (if negb (rp_text_offset rf =? 0) then opt_add nb (add_all (firstn i (node_content parent)) []) else add_all (firstn i (node_content parent)) [])).
    { destruct (negb (rp_text_offset rf =? 0)) eqn:Et; [|reflexivity]. rewrite Hnb. cbn [bind].
      apply negb_true_iff in Et. apply Nat.eqb_neq in Et.
      destruct (rp_node_before_spec s rf Hwf) as (_ & Hsome). specialize (Hsome Et nb Hnb).
      destruct nb as [x|]; [reflexivity|congruence]. }
    rewrite Hc1. cbn [bind]. rewrite Nat.ltb_irrefl. cbn [bind].
    unfold add_range. rewrite Hpart, Hj. cbn [bind]. rewrite <- Hdep. fold D. rewrite Nat.ltb_irrefl.
    unfold remaining.
    destruct (negb (rp_text_offset rt =? 0)) eqn:Et.
    - rewrite Hna. cbn [bind]. apply negb_true_iff in Et. apply Nat.eqb_neq in Et.
      destruct (rp_node_after_spec s rt Hwt) as (_ & Hsome). specialize (Hsome Et na Hna).
      destruct na as [x|]; [|congruence]. cbn [bind opt_add].
      rewrite Nat.ltb_irrefl. cbn [bind]. rewrite firstn_all2 by (rewrite skipn_length; lia). reflexivity.
    - cbn [bind]. rewrite Nat.ltb_irrefl. cbn [bind]. rewrite firstn_all2 by (rewrite skipn_length; lia). reflexivity. }
  (* going down to it *)
  assert (G : forall k depth fuel, depth + k = D -> k < fuel ->
            ((exists d', replace_outer s fuel rf rt (SL [] 0 0) depth = Ok d') <->
             valid_content s (node_ty s parent) (remaining parent rf rt i j nb na) = true) /\
            (forall e, replace_outer s fuel rf rt (SL [] 0 0) depth = Err e -> e = ErrReplace)).
  { induction k as [|k IH]; intros depth fuel Hk Hfuel; (destruct fuel as [|fuel]; [lia|]); cbn [replace_outer sl_open_start sl_content frag_size].
    - assert (Hd : depth = D) by lia. subst depth. rewrite Hi, Hparf, Hj. cbn [bind]. rewrite Nat.sub_0_r. fold D. rewrite Nat.ltb_irrefl, andb_false_r.
      cbn [Nat.eqb]. fold D. rewrite (Htw D). cbn [bind]. unfold close.
      destruct (valid_content s (node_ty s parent) (remaining parent rf rt i j nb na)).
      + split; [split; [reflexivity|eexists; reflexivity]|discriminate].
      + split; [split; [intros (d' & H); discriminate|discriminate]|]. intros e H. inversion H. reflexivity.
    - assert (Hlt : depth < D) by lia.
      destruct (WP_at s rf depth Hwf ltac:(unfold D in *; lia)) as (n & i' & o' & _ & _ & _ & En & Ei & _).
      pose proof (Hidx depth Hlt) as Hii. rewrite Ei in Hii. rewrite Ei, En, <- Hii. cbn [bind].
      rewrite Nat.eqb_refl, Nat.sub_0_r. fold D. apply Nat.ltb_lt in Hlt. rewrite Hlt. cbn [andb]. apply Nat.ltb_lt in Hlt.
      destruct (IH (S depth) fuel ltac:(lia) ltac:(lia)) as (IH1 & IH2).
      destruct (replace_outer s fuel rf rt (SL [] 0 0) (S depth)) as [inner|e] eqn:Einner; cbn [bind].
      + split; [|discriminate]. split; [intros _; apply IH1; eexists; reflexivity|intros _; eexists; reflexivity].
      + split.
        * split; [intros (d' & H); discriminate|]. intros Hv. destruct (proj2 IH1 Hv) as (d' & H). discriminate.
        * intros e' H. inversion H; subst e'. apply IH2. reflexivity. }
  unfold node_replace. rewrite Hrf, Hrt. cbn [bind]. unfold replace_rp. cbn [sl_open_start sl_open_end sl_content frag_size].
  fold D. assert (E1 : (D <? 0) = false) by (apply Nat.ltb_ge; lia). rewrite E1.
  rewrite <- Hdep, Z.eqb_refl. cbn [negb]. rewrite Hpf, Hpt.
  assert (E2 : (to <? from) = false) by (apply Nat.ltb_ge; lia). rewrite E2. cbn [Nat.eqb Nat.ltb Nat.leb orb andb].
  exact (G D 0 (S D) eq_refl ltac:(lia)).
Qed.

Theorem flat_delete_step doc from to rf rt parent i j nb na :
  is_elem doc -> resolve s doc from = Ok rf -> resolve s doc to = Ok rt -> from <= to ->
  rp_depth rf = rp_depth rt -> (forall d, d < rp_depth rf -> rp_index rf d = rp_index rt d) ->
  rp_parent rf = Ok parent ->
  rp_index rf (rp_depth rf) = Ok i -> rp_index rt (rp_depth rf) = Ok j ->
  rp_node_before s rf = Ok nb -> rp_node_after s rt = Ok na ->
  if valid_content s (node_ty s parent) (remaining parent rf rt i j nb na)
  then exists d', apply s (SReplace from to (SL [] 0 0) false) doc = ROk d'
  else apply s (SReplace from to (SL [] 0 0) false) doc = RFail.
Proof.
  intros He Hrf Hrt Hft Hdep Hidx Hpar Hi Hj Hnb Hna.
  destruct (flat_delete doc from to rf rt parent i j nb na He Hrf Hrt Hft Hdep Hidx Hpar Hi Hj Hnb Hna) as (H1 & H2).
  cbn [apply lift]. unfold from_replace.
  destruct (valid_content s (node_ty s parent) (remaining parent rf rt i j nb na)).
  - destruct (proj2 H1 eq_refl) as (d' & E). rewrite E. exists d'. reflexivity.
  - destruct (node_replace s doc from to (SL [] 0 0)) as [d'|e] eqn:E.
    + assert (X : false = true) by (apply (proj1 H1); exists d'; reflexivity). discriminate.
    + rewrite (H2 e eq_refl). reflexivity.
Qed.

End WithSchema.
