(* Node.nodes_between and Node.node_at against the token picture (C09): every node the walk reports sits, in the
   document's token sequence, exactly at the absolute position reported with it, overlaps the range, and is the child
   (at the reported index) of the reported parent. *)
From Coq Require Import ZArith NArith List Bool Arith Lia.
From PM Require Import Model.Data Model.Mark Model.Tree Model.Resolve Spec.Tokens
  Proofs.NodeInd Proofs.ReplaceValid Proofs.TokenBasics Proofs.ReplaceTokens Proofs.AroundTokens Proofs.SliceCut Proofs.StepSafe.
Import ListNotations.
Local Open Scope nat_scope.
Local Open Scope list_scope.

Section WithSchema.
Variable s : schema.
Notation nsize := (node_size s).
Notation fsize := (frag_size s).
Notation toks := (toks s).
Notation ftoks := (ftoks s).

(* the tokens of n (resp. of a list of nodes) sit at index p of T *)
Definition At (T : list tok) (p : nat) (n : node) : Prop := exists A B, T = A ++ toks n ++ B /\ List.length A = p.
Definition ListAt (T : list tok) (p : nat) (l : list node) : Prop := exists A B, T = A ++ ftoks l ++ B /\ List.length A = p.

(* the inner loop of nodes_between_node, named *)
Fixpoint nb_go (descend : node -> bool) (n : node) (from to node_start : nat) (l : list node) (i pos : nat) {struct l}
  : res (list visit) :=
  if pos <? to then
    match l with
    | [] => Err ErrInternal
    | c :: r =>
      let e := pos + nsize c in
      do here <-
        (if from <? e then
           let v := {| v_node := c; v_pos := node_start + pos; v_parent := Some n; v_index := i |} in
           if descend c && negb (fsize (node_content c) =? 0) then
             do inner <- nodes_between_node s descend c (from - (pos + 1))
                           (Nat.min (fsize (node_content c)) (to - (pos + 1))) (node_start + pos + 1);
             Ok (v :: inner)
           else Ok [v]
         else Ok []);
      do rest <- nb_go descend n from to node_start r (S i) e;
      Ok (here ++ rest)
    end
  else Ok [].

Lemma nb_elem descend ty a m cs from to st :
  nodes_between_node s descend (Elem ty a m cs) from to st = nb_go descend (Elem ty a m cs) from to st cs 0 0.
Proof.
  cbn [nodes_between_node].
  match goal with |- ?F cs 0 0 = _ => set (go := F) end.
  assert (G : forall l i pos, go l i pos = nb_go descend (Elem ty a m cs) from to st l i pos).
  { induction l as [|c r IHl]; intros i pos.
    - unfold go. cbn [nb_go]. reflexivity.
    - cbn [nb_go]. rewrite <- IHl. reflexivity. }
  apply G.
Qed.

Definition VisitOK (T : list tok) (from to : nat) (v : visit) : Prop :=
  At T (v_pos v) (v_node v) /\ v_pos v < to /\ from < v_pos v + nsize (v_node v) /\
  exists p, v_parent v = Some p /\ nth_error (node_content p) (v_index v) = Some (v_node v).

Lemma VisitOK_weaken T f t f' t' v : f' <= f -> t <= t' -> VisitOK T f t v -> VisitOK T f' t' v.
Proof. intros H1 H2 (Ha & Hb & Hc & Hd). split; [exact Ha|]. split; [lia|]. split; [lia|exact Hd]. Qed.

(* [from], [to] relative to the start of n's content, which sits at [start] in T *)
Lemma nb_sound descend T : forall n from to start vs,
  leaves_empty s n -> ListAt T start (node_content n) ->
  nodes_between_node s descend n from to start = Ok vs ->
  Forall (VisitOK T (start + from) (start + to)) vs.
Proof.
  induction n as [t m|ty a m cs IH] using node_ind2; intros from to start vs Hle Hat H.
  - cbn in H. inversion H. constructor.
  - rewrite nb_elem in H. cbn [node_content] in Hat.
    assert (G : forall l pre i pos vs, cs = pre ++ l -> List.length pre = i -> ListAt T (start + pos) l ->
                nb_go descend (Elem ty a m cs) from to start l i pos = Ok vs ->
                Forall (VisitOK T (start + from) (start + to)) vs).
    { clear H vs. induction l as [|c r IHl]; intros pre i pos vs Ecs Hi Hl H; cbn [nb_go] in H.
      - destruct (pos <? to); [discriminate|]. inversion H. constructor.
      - destruct (pos <? to) eqn:Ept; [|inversion H; constructor]. apply Nat.ltb_lt in Ept.
        destruct Hl as (A & B & ET & HA). cbn [Tokens.ftoks] in ET.
        assert (Hin : In c cs) by (rewrite Ecs; apply in_or_app; right; left; reflexivity).
        assert (Hatc : At T (start + pos) c) by (exists A, (ftoks r ++ B); rewrite ET, <- app_assoc; auto).
        assert (Hnth : nth_error cs i = Some c) by (rewrite Ecs, nth_error_app2, <- Hi, Nat.sub_diag by lia; reflexivity).
        match type of H with (do here <- ?X; _) = _ => destruct X as [here|] eqn:Ehere; [|discriminate] end. cbn [bind] in H.
        destruct (nb_go descend (Elem ty a m cs) from to start r (S i) (pos + nsize c)) as [rest|] eqn:Erest; [|discriminate].
        cbn [bind] in H. inversion H; subst vs. apply Forall_app. split.
        + destruct (from <? pos + nsize c) eqn:Ef; [|inversion Ehere; constructor]. apply Nat.ltb_lt in Ef.
          assert (Hv : VisitOK T (start + from) (start + to)
                         {| v_node := c; v_pos := start + pos; v_parent := Some (Elem ty a m cs); v_index := i |}).
          { split; [exact Hatc|]. cbn [v_pos v_node v_parent v_index]. split; [lia|]. split; [lia|].
            exists (Elem ty a m cs). split; [reflexivity|exact Hnth]. }
          destruct (descend c && negb (fsize (node_content c) =? 0)) eqn:Ed; [|inversion Ehere; constructor; [exact Hv|constructor]].
          match type of Ehere with (do inner <- ?X; _) = _ => destruct X as [inner|] eqn:Einner; [|discriminate] end.
          cbn [bind] in Ehere. inversion Ehere; subst here. constructor; [exact Hv|].
          apply andb_prop in Ed. destruct Ed as [_ Ed]. apply negb_true_iff in Ed. apply Nat.eqb_neq in Ed.
          (* c has content, so it is a non-leaf element: its content sits one token further *)
          destruct c as [tt mm|cty ca cm ccs]; [cbn in Ed; lia|]. cbn [node_content] in Ed, Einner.
          pose proof (leaves_empty_child s _ _ _ _ _ Hle Hin) as Hlc.
          assert (Hnl : is_leaf_ty s cty = false).
          { destruct (is_leaf_ty s cty) eqn:El; [|reflexivity]. cbn [leaves_empty] in Hlc. destruct Hlc as (Hz & _).
            rewrite (Hz El) in Ed. cbn in Ed. lia. }
          assert (Hci : ListAt T (start + pos + 1) ccs).
          { destruct Hatc as (A' & B' & ET' & HA'). rewrite toks_elem, Hnl in ET'.
            exists (A' ++ [TOpen cty ca cm]), ([TClose] ++ B'). split.
            - rewrite ET'. cbn [app]. rewrite <- !app_assoc. cbn [app]. reflexivity.
            - rewrite app_length. cbn. lia. }
          pose proof (IH _ Hin _ _ _ _ Hlc Hci Einner) as Hinner.
          pose proof (node_size_elem s cty ca cm ccs) as Hsz. rewrite Hnl in Hsz.
          eapply Forall_impl; [|exact Hinner]. intros v. apply VisitOK_weaken; lia.
        + apply (IHl (pre ++ [c]) (S i) (pos + nsize c) rest).
          * rewrite <- app_assoc. exact Ecs.
          * rewrite app_length. cbn. lia.
          * exists (A ++ toks c), B. split; [rewrite ET, <- !app_assoc; reflexivity|].
            rewrite app_length, toks_length. lia.
          * exact Erest. }
    apply (G cs [] 0 0 vs eq_refl eq_refl); [|exact H]. rewrite Nat.add_0_r. exact Hat.
Qed.

(* for a whole document: positions are indices into the document's token sequence *)
Theorem nodes_between_sound descend doc from to vs :
  leaves_empty s doc ->
  nodes_between_node s descend doc from to 0 = Ok vs ->
  Forall (VisitOK (ftoks (node_content doc)) from to) vs.
Proof.
  intros Hle H. apply (nb_sound descend _ doc from to 0 vs Hle); [|exact H].
  exists [], []. rewrite app_nil_r. auto.
Qed.

(* the walk never fails for a range that ends inside the node *)
Lemma nb_total descend : forall n from to start,
  to <= fsize (node_content n) -> exists vs, nodes_between_node s descend n from to start = Ok vs.
Proof.
  induction n as [t m|ty a m cs IH] using node_ind2; intros from to start Hto; [eexists; reflexivity|].
  rewrite nb_elem. cbn [node_content] in Hto. set (n := Elem ty a m cs).
  assert (G : forall l i pos, (forall c, In c l -> In c cs) -> to <= pos + fsize l ->
              exists vs, nb_go descend n from to start l i pos = Ok vs).
  { induction l as [|c r IHl]; intros i pos Hsub Hle; cbn [nb_go].
    - cbn in Hle. assert (E : (pos <? to) = false) by (apply Nat.ltb_ge; lia). rewrite E. eexists; reflexivity.
    - destruct (pos <? to); [|eexists; reflexivity].
      assert (Hhere : exists here,
        (if from <? pos + nsize c
         then if descend c && negb (fsize (node_content c) =? 0)
              then do inner <- nodes_between_node s descend c (from - (pos + 1))
                                 (Nat.min (fsize (node_content c)) (to - (pos + 1))) (start + pos + 1);
                   Ok ({| v_node := c; v_pos := start + pos; v_parent := Some n; v_index := i |} :: inner)
              else Ok [{| v_node := c; v_pos := start + pos; v_parent := Some n; v_index := i |}]
         else Ok []) = Ok here).
      { destruct (from <? pos + nsize c); [|eexists; reflexivity].
        destruct (descend c && negb (fsize (node_content c) =? 0)); [|eexists; reflexivity].
        destruct (IH c (Hsub c (or_introl eq_refl)) (from - (pos + 1)) (Nat.min (fsize (node_content c)) (to - (pos + 1))) (start + pos + 1)) as (inner & ->); [lia|].
        eexists; reflexivity. }
      destruct Hhere as (here & ->). cbn [bind].
      destruct (IHl (S i) (pos + nsize c)) as (rest & ->).
      + intros x Hx. apply Hsub. right. exact Hx.
      + cbn [frag_size] in Hle. lia.
      + eexists; reflexivity. }
  apply G; [auto|]. cbn. lia.
Qed.

(* ------------------------------------------------------------------ completeness of the walk
   F, T: the absolute range.  A node whose content starts at [st] is walked with from = F - st and
   to = min (size of its content) (T - st) - what the recursion passes down. *)
Notation walk n F T st := (nodes_between_node s (fun _ => true) n (F - st) (Nat.min (fsize (node_content n)) (T - st)) st).

Lemma child_fits l i (c : node) : nth_error l i = Some c -> fsize (firstn i l) + nsize c <= fsize l.
Proof.
  intros H. rewrite <- (firstn_skipn i l) at 2. rewrite frag_size_app, (skipn_nth_cons _ _ _ H). cbn [frag_size]. lia.
Qed.

Lemma parent_nonleaf p i (c : node) : leaves_empty s p -> nth_error (node_content p) i = Some c -> fsize (node_content p) + 2 <= nsize p.
Proof.
  destruct p as [t m|ty a m cs]; [destruct i; discriminate|]. cbn [node_content]. intros (Hz & _) Hn.
  pose proof (node_size_elem s ty a m cs) as Hs. destruct (is_leaf_ty s ty); [|lia].
  rewrite (Hz eq_refl) in Hn. destruct i; discriminate.
Qed.

Lemma leaves_empty_nth p i (c : node) : leaves_empty s p -> nth_error (node_content p) i = Some c -> leaves_empty s c.
Proof.
  destruct p as [t m|ty a m cs]; [destruct i; discriminate|]. cbn [node_content]. intros Hle Hn.
  exact (leaves_empty_child s _ _ _ _ _ Hle (nth_error_In _ _ Hn)).
Qed.

Lemma walk_children F T : forall n st vs,
  leaves_empty s n -> walk n F T st = Ok vs ->
  forall i c, nth_error (node_content n) i = Some c ->
    let q := st + fsize (firstn i (node_content n)) in
    q < T -> F < q + nsize c -> 0 < nsize c ->
    In {| v_node := c; v_pos := q; v_parent := Some n; v_index := i |} vs /\
    (fsize (node_content c) <> 0 -> exists inner, walk c F T (q + 1) = Ok inner /\ incl inner vs).
Proof.
  intros [t m|ty a m cs] st vs Hle H i c Hn; [destruct i; discriminate|]. cbn [node_content] in *.
  rewrite nb_elem in H. set (n := Elem ty a m cs) in *. set (from := F - st) in *. set (to := Nat.min (fsize cs) (T - st)) in *.
  assert (G : forall l pre j pos vs, cs = pre ++ l -> List.length pre = j -> pos = fsize pre ->
              nb_go (fun _ => true) n from to st l j pos = Ok vs ->
              forall k c, nth_error l k = Some c ->
                let q := st + pos + fsize (firstn k l) in
                q < T -> F < q + nsize c -> 0 < nsize c ->
                In {| v_node := c; v_pos := q; v_parent := Some n; v_index := j + k |} vs /\
                (fsize (node_content c) <> 0 -> exists inner, walk c F T (q + 1) = Ok inner /\ incl inner vs)).
  { clear H vs i c Hn. induction l as [|c0 r IHl]; intros pre j pos vs Ecs Hj Hpos H k c Hk q Hq1 Hq2 Hq3; [destruct k; discriminate|].
    cbn [nb_go] in H.
    assert (Hsz : fsize cs = pos + nsize c0 + fsize r).
    { rewrite Ecs, frag_size_app, Hpos. cbn [frag_size]. lia. }
    assert (Hfk : fsize (firstn k (c0 :: r)) + nsize c <= nsize c0 + fsize r) by exact (child_fits _ _ _ Hk).
    assert (Ept : (pos <? to) = true).
    { apply Nat.ltb_lt. unfold to. unfold q in Hq1, Hq2. lia. }
    rewrite Ept in H.
    match type of H with (do here <- ?X; _) = _ => destruct X as [here|] eqn:Ehere; [|discriminate] end. cbn [bind] in H.
    destruct (nb_go (fun _ => true) n from to st r (S j) (pos + nsize c0)) as [rest|] eqn:Erest; [|discriminate].
    cbn [bind] in H. inversion H; subst vs. clear H.
    destruct k as [|k].
    - cbn in Hk. inversion Hk; subst c0. cbn [firstn frag_size] in q. unfold q in *. clear q.
      assert (Ef : (from <? pos + nsize c) = true) by (apply Nat.ltb_lt; unfold from; lia).
      rewrite Ef in Ehere. cbn [andb] in Ehere. rewrite Nat.add_0_r in *.
      destruct (negb (fsize (node_content c) =? 0)) eqn:Ed.
      + match type of Ehere with (do inner <- ?X; _) = _ => destruct X as [inner|] eqn:Einner; [|discriminate] end.
        cbn [bind] in Ehere. inversion Ehere; subst here. split; [left; rewrite ?Nat.add_0_r; reflexivity|].
        intros Hne. exists inner. split; [|intros x Hx; right; apply in_or_app; left; exact Hx].
        rewrite <- Einner. 
        assert (Hcs : fsize (node_content c) + 2 <= nsize c).
        { assert (Hin : In c cs) by (rewrite Ecs; apply in_or_app; right; left; reflexivity).
          pose proof (leaves_empty_child s _ _ _ _ _ Hle Hin) as Hlc.
          destruct (node_content c) as [|x xs] eqn:Ec; [cbn in Hne; lia|].
          rewrite <- Ec. apply (parent_nonleaf c 0 x Hlc). rewrite Ec. reflexivity. }
        unfold from, to. f_equal; lia.
      + apply negb_false_iff in Ed. apply Nat.eqb_eq in Ed. inversion Ehere; subst here. split; [left; rewrite ?Nat.add_0_r; reflexivity|]. intros Hne. lia.
    - cbn [nth_error] in Hk. cbn [firstn frag_size] in q.
      destruct (IHl (pre ++ [c0]) (S j) (pos + nsize c0) rest) with (k := k) (c := c) as (I1 & I2); auto.
      + rewrite <- app_assoc. exact Ecs.
      + rewrite app_length. cbn. lia.
      + rewrite frag_size_app. cbn [frag_size]. lia.
      + unfold q in Hq1. lia.
      + unfold q in Hq2. lia.
      + replace (S j + k) with (j + S k) in I1 by lia.
        replace (st + (pos + nsize c0) + fsize (firstn k r)) with q in I1, I2 by (unfold q; lia).
        split; [apply in_or_app; right; exact I1|]. intros Hne. destruct (I2 Hne) as (inner & E1 & E2).
        exists inner. split; [exact E1|]. intros x Hx. apply in_or_app. right. apply E2. exact Hx. }
  intros Hq1 Hq2 Hq3. pose proof (G cs [] 0 0 vs eq_refl eq_refl eq_refl H i c Hn) as X. cbv zeta in X.
  rewrite !Nat.add_0_r in X. cbn [Nat.add] in X. apply X; assumption.
Qed.

(* [Sub doc p i c q]: c is child number i of p, a descendant-or-self of the document, and q is c's absolute position *)
Inductive Sub (doc : node) : node -> nat -> node -> nat -> Prop :=
| Sub_top i c : nth_error (node_content doc) i = Some c -> Sub doc doc i c (fsize (firstn i (node_content doc)))
| Sub_in p' j p qp i c : Sub doc p' j p qp -> nth_error (node_content p) i = Some c ->
    Sub doc p i c (qp + 1 + fsize (firstn i (node_content p))).


Lemma Sub_nth doc p i c q : Sub doc p i c q -> nth_error (node_content p) i = Some c.
Proof. intros H. destruct H; assumption. Qed.
Lemma Sub_leaves doc p i c q : leaves_empty s doc -> Sub doc p i c q -> leaves_empty s p /\ leaves_empty s c.
Proof.
  intros Hle H. induction H as [i c Hn|p' j p qp i c HS IH Hn].
  - split; [exact Hle|exact (leaves_empty_nth _ _ _ Hle Hn)].
  - destruct IH as (_ & Hp). split; [exact Hp|exact (leaves_empty_nth _ _ _ Hp Hn)].
Qed.

(* such a descendant's tokens sit at its position in the document's token sequence *)
Lemma Sub_At doc p i c q : leaves_empty s doc -> Sub doc p i c q -> At (ftoks (node_content doc)) q c.
Proof.
  intros Hle H. induction H as [i c Hn|p' j p qp i c HS IH Hn].
  - exists (ftoks (firstn i (node_content doc))), (ftoks (skipn (S i) (node_content doc))).
    split; [apply ftoks_split_at; exact Hn|apply ftoks_length].
  - destruct IH as (A & B & ET & HA). destruct (Sub_leaves _ _ _ _ _ Hle HS) as (_ & Hlp).
    pose proof (parent_nonleaf p i c Hlp Hn) as Hsz.
    destruct p as [t m|ty a m cs]; [destruct i; discriminate|]. cbn [node_content] in *.
    pose proof (node_size_elem s ty a m cs) as Hs. assert (Hnl : is_leaf_ty s ty = false) by (destruct (is_leaf_ty s ty); [lia|reflexivity]).
    rewrite toks_elem, Hnl, (ftoks_split_at s _ _ _ Hn) in ET.
    exists (A ++ [TOpen ty a m] ++ ftoks (firstn i cs)), (ftoks (skipn (S i) cs) ++ [TClose] ++ B). split.
    + rewrite ET. cbn [app]. repeat rewrite <- app_assoc. cbn [app]. reflexivity.
    + rewrite !app_length, ftoks_length. cbn [List.length]. lia.
Qed.

(* ... and every reported node is such a descendant, reported with its parent, index and position *)
Definition Anc (doc n : node) (start : nat) : Prop :=
  (n = doc /\ start = 0) \/ exists p' j q, Sub doc p' j n q /\ start = q + 1.

Lemma Anc_child doc n start i c : Anc doc n start -> nth_error (node_content n) i = Some c ->
  Sub doc n i c (start + fsize (firstn i (node_content n))).
Proof.
  intros [(-> & ->)|(p' & j & q & HS & ->)] Hn; [exact (Sub_top doc i c Hn)|]. exact (Sub_in doc p' j n q i c HS Hn).
Qed.

Definition VisitSub (doc : node) (v : visit) : Prop :=
  exists p, v_parent v = Some p /\ Sub doc p (v_index v) (v_node v) (v_pos v).

Lemma nb_sub descend doc : forall n from to start vs,
  Anc doc n start -> nodes_between_node s descend n from to start = Ok vs -> Forall (VisitSub doc) vs.
Proof.
  induction n as [t m|ty a m cs IH] using node_ind2; intros from to start vs Ha H.
  - cbn in H. inversion H. constructor.
  - rewrite nb_elem in H. set (n := Elem ty a m cs) in *.
    assert (G : forall l pre i pos vs, cs = pre ++ l -> List.length pre = i -> pos = fsize pre ->
                nb_go descend n from to start l i pos = Ok vs -> Forall (VisitSub doc) vs).
    { clear H vs. induction l as [|c r IHl]; intros pre i pos vs Ecs Hi Hpos H; cbn [nb_go] in H.
      - destruct (pos <? to); [discriminate|]. inversion H. constructor.
      - destruct (pos <? to); [|inversion H; constructor].
        assert (Hin : In c cs) by (rewrite Ecs; apply in_or_app; right; left; reflexivity).
        assert (Hnth : nth_error (node_content n) i = Some c) by (cbn [node_content n]; rewrite Ecs, nth_error_app2, <- Hi, Nat.sub_diag by lia; reflexivity).
        assert (Hfi : fsize (firstn i cs) = pos) by (rewrite Ecs, <- Hi, Hpos; apply fsize_firstn_app).
        pose proof (Anc_child doc n start i c Ha Hnth) as HS. cbn [node_content n] in HS. rewrite Hfi in HS.
        match type of H with (do here <- ?X; _) = _ => destruct X as [here|] eqn:Ehere; [|discriminate] end. cbn [bind] in H.
        destruct (nb_go descend n from to start r (S i) (pos + nsize c)) as [rest|] eqn:Erest; [|discriminate].
        cbn [bind] in H. inversion H; subst vs. apply Forall_app. split.
        + destruct (from <? pos + nsize c); [|inversion Ehere; constructor].
          assert (Hv : VisitSub doc {| v_node := c; v_pos := start + pos; v_parent := Some n; v_index := i |})
            by (exists n; split; [reflexivity|exact HS]).
          destruct (descend c && negb (fsize (node_content c) =? 0)); [|inversion Ehere; constructor; [exact Hv|constructor]].
          match type of Ehere with (do inner <- ?X; _) = _ => destruct X as [inner|] eqn:Einner; [|discriminate] end.
          cbn [bind] in Ehere. inversion Ehere; subst here. constructor; [exact Hv|].
          apply (IH c Hin _ _ _ _) with (2 := Einner). right. exists n, i, (start + pos). split; [exact HS|lia].
        + apply (IHl (pre ++ [c]) (S i) (pos + nsize c) rest); auto.
          * rewrite <- app_assoc. exact Ecs.
          * rewrite app_length. cbn. lia.
          * rewrite frag_size_app. cbn [frag_size]. lia. }
    exact (G cs [] 0 0 vs eq_refl eq_refl eq_refl H).
Qed.

Theorem nodes_between_sub descend doc from to vs :
  nodes_between_node s descend doc from to 0 = Ok vs -> Forall (VisitSub doc) vs.
Proof. apply nb_sub. left. auto. Qed.

Theorem nodes_between_complete doc F T vs :
  leaves_empty s doc -> T <= fsize (node_content doc) ->
  nodes_between_node s (fun _ => true) doc F T 0 = Ok vs ->
  forall p i c q, Sub doc p i c q -> q < T -> F < q + nsize c -> 0 < nsize c ->
    In {| v_node := c; v_pos := q; v_parent := Some p; v_index := i |} vs.
Proof.
  intros Hle HT H.
  assert (H0 : walk doc F T 0 = Ok vs) by (rewrite !Nat.sub_0_r, Nat.min_r by lia; exact H).
  assert (G : forall p i c q, Sub doc p i c q -> q < T -> F < q + nsize c -> 0 < nsize c ->
            exists st vsp, leaves_empty s p /\ walk p F T st = Ok vsp /\ incl vsp vs /\ q = st + fsize (firstn i (node_content p)) /\
                           nth_error (node_content p) i = Some c).
  { intros p i c q HS. induction HS as [i c Hn|p' j p qp i c HS IH Hn]; intros Hq1 Hq2 Hq3.
    - exists 0, vs. split; [exact Hle|]. split; [exact H0|]. split; [intros x Hx; exact Hx|]. split; [reflexivity|exact Hn].
    - pose proof (child_fits _ _ _ Hn) as Hfit.
      destruct (Sub_leaves _ _ _ _ _ Hle HS) as (Hlp' & Hlpp).
      pose proof (parent_nonleaf p i c Hlpp Hn) as Hszp.
      destruct IH as (st' & vsp' & _ & Hw' & Hincl' & Eqp & Hnp); [lia|lia|lia|].
      destruct (walk_children F T p' st' vsp' Hlp' Hw' j p Hnp) as (_ & Hinner); try lia; try (rewrite <- Eqp; lia).
      destruct Hinner as (inner & Ew & Hinc); [lia|].
      exists (qp + 1), inner. split; [exact Hlpp|]. split; [rewrite Eqp; exact Ew|].
      split; [intros x Hx; apply Hincl'; apply Hinc; exact Hx|]. split; [reflexivity|exact Hn]. }
  intros p i c q HS Hq1 Hq2 Hq3. destruct (G p i c q HS Hq1 Hq2 Hq3) as (st & vsp & Hlp & Hw & Hincl & Eq & Hn).
  destruct (walk_children F T p st vsp Hlp Hw i c Hn) as (Hin & _); try assumption; try (rewrite <- Eq; assumption).
  apply Hincl. rewrite Eq. exact Hin.
Qed.

(* ------------------------------------------------------------------ Node.node_at
   the node returned for pos sits at some index p <= pos of the token sequence: an element exactly at pos (pos is the
   index of its opening / leaf token), a text node around pos *)
Lemma node_at_located : forall fuel n pos c,
  node_at s fuel n pos = Ok (Some c) ->
  exists p, At (ftoks (node_content n)) p c /\ p <= pos /\
            (node_is_text c = false -> p = pos) /\ (node_is_text c = true -> pos = p \/ pos < p + nsize c).
Proof.
  induction fuel as [|fuel IH]; intros n pos c H; [discriminate|]. cbn [node_at] in H.
  destruct (find_index s (node_content n) pos) as [[index offset]|] eqn:Efi; [|discriminate]. cbn [bind] in H.
  destruct (find_index_spec s _ _ _ _ Efi) as (Hoff & Hidx & Hle & Hpos).
  unfold child_at in H. destruct (nth_error (node_content n) index) as [c0|] eqn:En; [|discriminate].
  pose proof (ftoks_split_at s _ _ _ En) as Esplit.
  pose proof (ftoks_length s (firstn index (node_content n))) as HlA. rewrite <- Hoff in HlA.
  destruct ((offset =? pos) || node_is_text c0) eqn:E.
  - inversion H; subst c0. exists offset. split; [exists (ftoks (firstn index (node_content n))), (ftoks (skipn (S index) (node_content n))); auto|].
    split; [destruct Hpos as [->|(c' & _ & Hp)]; lia|]. split.
    + intros Ht. rewrite Ht, orb_false_r in E. apply Nat.eqb_eq in E. exact E.
    + intros _. destruct Hpos as [->|(c' & Hc' & Hp)]; [left; reflexivity|]. inversion Hc'; subst c'. right. lia.
  - apply orb_false_elim in E. destruct E as [E1 E2]. apply Nat.eqb_neq in E1.
    destruct Hpos as [Hp|(c' & Hc' & Hp)]; [lia|]. inversion Hc'; subst c'.
    destruct c0 as [t mk|ty1 a1 m1 cs1]; [discriminate|].
    pose proof (node_size_elem s ty1 a1 m1 cs1) as Hs.
    assert (Hnl : is_leaf_ty s ty1 = false) by (destruct (is_leaf_ty s ty1); [lia|reflexivity]).
    rewrite Hnl in Hs.
    destruct (IH _ _ _ H) as (p' & (A' & B' & ET' & HA') & Hle' & Hel & Htx). cbn [node_content] in ET'.
    exists (offset + 1 + p'). split.
    + exists (ftoks (firstn index (node_content n)) ++ [TOpen ty1 a1 m1] ++ A'), (B' ++ [TClose] ++ ftoks (skipn (S index) (node_content n))).
      split.
      * rewrite Esplit, toks_elem, Hnl, ET'. cbn [app]. repeat rewrite <- app_assoc. cbn [app]. reflexivity.
      * rewrite !app_length. cbn [List.length]. lia.
    + split; [lia|]. split; [intros Ht; specialize (Hel Ht); lia|]. intros Ht. destruct (Htx Ht) as [Hq|Hq]; [left|right]; lia.
Qed.

(* ------------------------------------------------------------------ Node.child_after / child_before
   (child, index, offset): the child is child number index, its tokens start at token index offset of the node's content,
   and the position lies at the child's start or inside it (child_after) / inside it or at its end (child_before) *)
Lemma child_after_located n pos c index offset :
  child_after s n pos = Ok (Some c, index, offset) ->
  nth_error (node_content n) index = Some c /\ At (ftoks (node_content n)) offset c /\
  (offset = pos \/ offset < pos < offset + nsize c).
Proof.
  unfold child_after. destruct (find_index s (node_content n) pos) as [[i o]|] eqn:Efi; [|discriminate]. cbn [bind].
  unfold child_at. destruct (nth_error (node_content n) i) as [c0|] eqn:Hc; [|discriminate].
  intros H. inversion H; subst c0 i o. clear H.
  destruct (find_index_spec s _ _ _ _ Efi) as (Hoff & Hidx & Hle & Hpos).
  split; [exact Hc|]. split.
  - exists (ftoks (firstn index (node_content n))), (ftoks (skipn (S index) (node_content n))). split; [apply ftoks_split_at; exact Hc|].
    rewrite ftoks_length. symmetry. exact Hoff.
  - destruct Hpos as [Hp|(c' & Hc' & Hp)]; [left; exact Hp|]. assert (c' = c) by congruence. subst c'. right. exact Hp.
Qed.

Lemma child_before_located n pos c index offset :
  child_before s n pos = Ok (Some c, index, offset) ->
  nth_error (node_content n) index = Some c /\ At (ftoks (node_content n)) offset c /\
  offset <= pos /\ pos <= offset + nsize c.
Proof.
  unfold child_before. destruct (pos =? 0) eqn:E0; [discriminate|]. apply Nat.eqb_neq in E0.
  destruct (find_index s (node_content n) pos) as [[i o]|] eqn:Efi; [|discriminate]. cbn [bind].
  destruct (find_index_spec s _ _ _ _ Efi) as (Hoff & Hidx & Hle & Hpos).
  destruct (o <? pos) eqn:Elt.
  - apply Nat.ltb_lt in Elt. unfold child_at. destruct (nth_error (node_content n) i) as [c0|] eqn:Hc; [|discriminate].
    intros H. inversion H; subst c0 index offset. split; [exact Hc|]. split.
    + exists (ftoks (firstn i (node_content n))), (ftoks (skipn (S i) (node_content n))). split; [apply ftoks_split_at; exact Hc|].
      rewrite ftoks_length. symmetry. exact Hoff.
    + destruct Hpos as [Hp|(c' & Hc' & Hp)]; [lia|]. inversion Hc'; subst c'. lia.
  - apply Nat.ltb_ge in Elt. destruct i as [|i']; [discriminate|]. unfold child_at.
    destruct (nth_error (node_content n) i') as [c0|] eqn:Hc; [|discriminate].
    intros H. inversion H; subst c0 index offset.
    assert (Ho : o = pos) by (destruct Hpos as [Hp|(c' & _ & Hp)]; lia). subst o.
    assert (Hsz : fsize (firstn (S i') (node_content n)) = fsize (firstn i' (node_content n)) + nsize c).
    { rewrite (firstn_S_nth _ _ _ Hc), frag_size_app. cbn [frag_size]. lia. }
    split; [exact Hc|]. split.
    + exists (ftoks (firstn i' (node_content n))), (ftoks (skipn (S i') (node_content n))). split; [apply ftoks_split_at; exact Hc|].
      rewrite ftoks_length. lia.
    + lia.
Qed.

(* ------------------------------------------------------------------ ResolvedPos.shared_depth(pos)
   the deepest ancestor level of the resolved position whose content span [start, end] contains pos *)
Lemma shared_depth_go_spec r p : forall d k,
  shared_depth_go s r p d = Ok k ->
  k <= d /\
  (k = 0 \/ exists st en, rp_start r k = Ok st /\ rp_end s r k = Ok en /\ st <= p <= en) /\
  forall j, k < j -> j <= d -> forall st en, rp_start r j = Ok st -> rp_end s r j = Ok en -> ~ (st <= p <= en).
Proof.
  induction d as [|d IH]; intros k H; cbn [shared_depth_go] in H.
  - inversion H; subst k. split; [lia|]. split; [left; reflexivity|]. intros j Hj1 Hj2. lia.
  - destruct (rp_start r (S d)) as [st|] eqn:Es; [|discriminate]. cbn [bind] in H.
    destruct (rp_end s r (S d)) as [en|] eqn:Ee; [|discriminate]. cbn [bind] in H.
    destruct ((st <=? p) && (p <=? en)) eqn:E.
    + inversion H; subst k. apply andb_prop in E. destruct E as [E1 E2]. apply Nat.leb_le in E1, E2.
      split; [lia|]. split; [right; exists st, en; auto|]. intros j Hj1 Hj2. lia.
    + destruct (IH k H) as (H1 & H2 & H3). split; [lia|]. split; [exact H2|].
      intros j Hj1 Hj2 st' en' Hs He. destruct (Nat.eq_dec j (S d)) as [->|Hne].
      * rewrite Es in Hs. rewrite Ee in He. inversion Hs; inversion He; subst st' en'.
        apply andb_false_iff in E. destruct E as [E|E]; [apply Nat.leb_gt in E|apply Nat.leb_gt in E]; lia.
      * apply (H3 j); [lia|lia|exact Hs|exact He].
Qed.

(* ------------------------------------------------------------------ ResolvedPos.block_range(other)
   the depth of the range: the deepest level, from the start level down, whose node still ends at or after the other
   position *)
Lemma block_range_go_spec r opos : forall d k,
  block_range_go s r opos d = Ok (Some k) ->
  k <= d /\ (exists en, rp_end s r k = Ok en /\ opos <= en) /\
  forall j, k < j -> j <= d -> forall en, rp_end s r j = Ok en -> en < opos.
Proof.
  induction d as [|d IH]; intros k H; cbn [block_range_go] in H.
  - destruct (rp_end s r 0) as [en|] eqn:Ee; [|discriminate]. cbn [bind] in H.
    destruct (opos <=? en) eqn:E; [|discriminate]. inversion H; subst k. apply Nat.leb_le in E.
    split; [lia|]. split; [exists en; auto|]. intros j Hj1 Hj2. lia.
  - destruct (rp_end s r (S d)) as [en|] eqn:Ee; [|discriminate]. cbn [bind] in H.
    destruct (opos <=? en) eqn:E.
    + inversion H; subst k. apply Nat.leb_le in E. split; [lia|]. split; [exists en; auto|]. intros j Hj1 Hj2. lia.
    + apply Nat.leb_gt in E. destruct (IH k H) as (H1 & H2 & H3). split; [lia|]. split; [exact H2|].
      intros j Hj1 Hj2 en' He. destruct (Nat.eq_dec j (S d)) as [->|Hne].
      * rewrite Ee in He. inversion He; subst en'. exact E.
      * apply (H3 j); [lia|lia|exact He].
Qed.

(* ------------------------------------------------------------------ the walk, exactly
   [all_visits n st]: every descendant of n in document order (a node before its children, children left to right), each
   with its parent, index and absolute position, n's content starting at st.  With a callback that never prunes,
   nodes_between reports EXACTLY the members of that list that overlap the range, in that order. *)
Fixpoint all_visits (n : node) (st : nat) {struct n} : list visit :=
  match n with
  | Text _ _ => []
  | Elem _ _ _ cs =>
    (fix go (l : list node) (i pos : nat) {struct l} : list visit :=
       match l with
       | [] => []
       | c :: r => {| v_node := c; v_pos := st + pos; v_parent := Some n; v_index := i |}
                   :: all_visits c (st + pos + 1) ++ go r (S i) (pos + nsize c)
       end) cs 0 0
  end.

Fixpoint av_go (n : node) (st : nat) (l : list node) (i pos : nat) {struct l} : list visit :=
  match l with
  | [] => []
  | c :: r => {| v_node := c; v_pos := st + pos; v_parent := Some n; v_index := i |}
              :: all_visits c (st + pos + 1) ++ av_go n st r (S i) (pos + nsize c)
  end.

Lemma av_elem ty a m cs st : all_visits (Elem ty a m cs) st = av_go (Elem ty a m cs) st cs 0 0.
Proof.
  cbn [all_visits]. match goal with |- ?F cs 0 0 = _ => set (go := F) end.
  assert (G : forall l i pos, go l i pos = av_go (Elem ty a m cs) st l i pos).
  { induction l as [|c r IHl]; intros i pos; [reflexivity|]. cbn [av_go]. rewrite <- IHl. reflexivity. }
  apply G.
Qed.

(* well-formed for walking: leaf-typed nodes have no children, text nodes are not empty *)
Fixpoint wfw (n : node) : Prop :=
  match n with
  | Text t _ => 0 < text_length t
  | Elem ty _ _ cs =>
    (is_leaf_ty s ty = true -> cs = []) /\
    (fix all (l : list node) : Prop := match l with [] => True | c :: r => wfw c /\ all r end) cs
  end.

Lemma wfw_child ty a m cs c : wfw (Elem ty a m cs) -> In c cs -> wfw c.
Proof.
  cbn [wfw]. intros (_ & H) Hin. induction cs as [|x cs IH]; [destruct Hin|].
  destruct H as (Hx & Hr). destruct Hin as [<-|Hin]; [exact Hx|apply IH; assumption].
Qed.

Lemma wfw_size n : wfw n -> 0 < nsize n.
Proof.
  destruct n as [t m|ty a m cs]; cbn [wfw]; [intros H; cbn [node_size]; exact H|]. intros _.
  pose proof (node_size_elem s ty a m cs) as Hs. destruct (is_leaf_ty s ty); lia.
Qed.

Lemma wfw_content_size ty a m cs : wfw (Elem ty a m cs) -> cs <> [] -> fsize cs + 2 <= nsize (Elem ty a m cs).
Proof.
  intros (Hz & _) Hne. pose proof (node_size_elem s ty a m cs) as Hs. destruct (is_leaf_ty s ty); [|lia].
  exfalso. apply Hne. apply Hz. reflexivity.
Qed.

Definition overlap (F T : nat) (v : visit) : bool := (v_pos v <? T) && (F <? v_pos v + nsize (v_node v)).

(* everything listed for n lies inside n's content *)
Lemma all_visits_within : forall n st, wfw n ->
  Forall (fun v => st <= v_pos v /\ v_pos v + nsize (v_node v) <= st + fsize (node_content n)) (all_visits n st).
Proof.
  induction n as [t m|ty a m cs IH] using node_ind2; intros st Hw; [constructor|]. rewrite av_elem. cbn [node_content].
  assert (G : forall l pre i pos, cs = pre ++ l -> pos = fsize pre ->
              Forall (fun v => st + pos <= v_pos v /\ v_pos v + nsize (v_node v) <= st + pos + fsize l) (av_go (Elem ty a m cs) st l i pos)).
  { induction l as [|c r IHl]; intros pre i pos Ecs Hpos; [constructor|]. cbn [av_go frag_size].
    assert (Hin : In c cs) by (rewrite Ecs; apply in_or_app; right; left; reflexivity).
    pose proof (wfw_child _ _ _ _ _ Hw Hin) as Hwc.
    constructor; [cbn [v_pos v_node]; lia|]. apply Forall_app. split.
    - eapply Forall_impl; [|exact (IH c Hin (st + pos + 1) Hwc)]. intros v (H1 & H2). split; [lia|].
      destruct c as [t' m'|cty ca cm ccs]; [cbn [node_content frag_size] in H2; pose proof (wfw_size _ Hwc); lia|].
      cbn [node_content] in H2. destruct ccs as [|x xs]; [cbn [frag_size] in H2; pose proof (wfw_size _ Hwc); lia|].
      pose proof (wfw_content_size _ _ _ _ Hwc ltac:(discriminate)). lia.
    - eapply Forall_impl; [|exact (IHl (pre ++ [c]) (S i) (pos + nsize c) ltac:(rewrite <- app_assoc; exact Ecs) ltac:(rewrite frag_size_app; cbn [frag_size]; lia))].
      intros v (H1 & H2). split; lia. }
  eapply Forall_impl; [|exact (G cs [] 0 0 eq_refl eq_refl)]. intros v (H1 & H2). split; lia.
Qed.

Lemma av_go_within n st : forall l i pos, (forall c, In c l -> wfw c) ->
  Forall (fun v => st + pos <= v_pos v /\ v_pos v + nsize (v_node v) <= st + pos + fsize l) (av_go n st l i pos).
Proof.
  induction l as [|c r IHl]; intros i pos Hall; [constructor|]. cbn [av_go frag_size].
  pose proof (Hall c (or_introl eq_refl)) as Hwc.
  constructor; [cbn [v_pos v_node]; lia|]. apply Forall_app. split.
  - eapply Forall_impl; [|exact (all_visits_within c (st + pos + 1) Hwc)]. intros v (H1 & H2). split; [lia|].
    destruct c as [t' m'|cty ca cm ccs]; [cbn [node_content frag_size] in H2; pose proof (wfw_size _ Hwc); lia|].
    cbn [node_content] in H2. destruct ccs as [|x xs]; [cbn [frag_size] in H2; pose proof (wfw_size _ Hwc); lia|].
    pose proof (wfw_content_size _ _ _ _ Hwc ltac:(discriminate)). lia.
  - eapply Forall_impl; [|exact (IHl (S i) (pos + nsize c) (fun x Hx => Hall x (or_intror Hx)))].
    intros v (H1 & H2). split; lia.
Qed.

Lemma filter_none {A} (f : A -> bool) l : Forall (fun x => f x = false) l -> filter f l = [].
Proof. induction 1 as [|x l Hx _ IH]; [reflexivity|]. cbn [filter]. rewrite Hx. exact IH. Qed.

Theorem walk_exact F T : forall n st, wfw n ->
  walk n F T st = Ok (filter (overlap F T) (all_visits n st)).
Proof.
  induction n as [t m|ty a m cs IH] using node_ind2; intros st Hw; [reflexivity|].
  rewrite nb_elem, av_elem. cbn [node_content]. set (n := Elem ty a m cs) in *.
  set (from := F - st). set (to := Nat.min (fsize cs) (T - st)).
  assert (G : forall l pre i pos, cs = pre ++ l -> pos = fsize pre ->
              nb_go (fun _ => true) n from to st l i pos = Ok (filter (overlap F T) (av_go n st l i pos))).
  { induction l as [|c r IHl]; intros pre i pos Ecs Hpos; cbn [nb_go av_go].
    - assert (E : (pos <? to) = false).
      { apply Nat.ltb_ge. unfold to. rewrite Ecs, app_nil_r, <- Hpos. lia. }
      rewrite E. reflexivity.
    - assert (Hin : In c cs) by (rewrite Ecs; apply in_or_app; right; left; reflexivity).
      pose proof (wfw_child _ _ _ _ _ Hw Hin) as Hwc. pose proof (wfw_size _ Hwc) as Hsz.
      assert (Hfit : pos + nsize c + fsize r = fsize cs) by (rewrite Ecs, frag_size_app, Hpos; cbn [frag_size]; lia).
      pose proof (all_visits_within c (st + pos + 1) Hwc) as Hwithin.
      assert (Hcin : fsize (node_content c) = 0 \/ fsize (node_content c) + 2 <= nsize c).
      { destruct c as [t' m'|cty ca cm ccs]; [left; reflexivity|]. cbn [node_content]. destruct ccs as [|x xs]; [left; reflexivity|].
        right. apply wfw_content_size; [exact Hwc|discriminate]. }
      pose proof (IHl (pre ++ [c]) (S i) (pos + nsize c) ltac:(rewrite <- app_assoc; exact Ecs) ltac:(rewrite frag_size_app; cbn [frag_size]; lia)) as Hrest.
      destruct (pos <? to) eqn:Ept.
      + apply Nat.ltb_lt in Ept. assert (HposT : st + pos < T) by (unfold to in Ept; lia).
        rewrite Hrest. cbn [bind]. cbn [filter].
        assert (E1 : (st + pos <? T) = true) by (apply Nat.ltb_lt; exact HposT).
        assert (Ev : overlap F T {| v_node := c; v_pos := st + pos; v_parent := Some n; v_index := i |} = (F <? st + pos + nsize c))
          by (unfold overlap; cbn [v_pos v_node]; rewrite E1; reflexivity).
        rewrite Ev. fold (overlap F T).
        destruct (from <? pos + nsize c) eqn:Ef.
        * apply Nat.ltb_lt in Ef. assert (E2 : (F <? st + pos + nsize c) = true) by (apply Nat.ltb_lt; unfold from in Ef; lia).
          rewrite E2. rewrite filter_app. cbn [andb].
          destruct (negb (fsize (node_content c) =? 0)) eqn:Ed.
          -- apply negb_true_iff in Ed. apply Nat.eqb_neq in Ed. destruct Hcin as [Hc0|Hc2]; [lia|].
             assert (Hargs : nodes_between_node s (fun _ => true) c (from - (pos + 1)) (Nat.min (fsize (node_content c)) (to - (pos + 1))) (st + pos + 1)
                             = walk c F T (st + pos + 1)).
             { f_equal; [unfold from; lia|unfold to; lia]. }
             rewrite Hargs, (IH c Hin (st + pos + 1) Hwc). cbn [bind app]. reflexivity.
          -- apply negb_false_iff in Ed. apply Nat.eqb_eq in Ed.
             assert (Hnil : all_visits c (st + pos + 1) = []).
             { destruct c as [t' m'|cty ca cm ccs]; [reflexivity|]. cbn [node_content] in Ed. destruct ccs as [|x xs]; [reflexivity|].
               exfalso. pose proof (wfw_size x (wfw_child _ _ _ _ x Hwc (or_introl eq_refl))). cbn [frag_size] in Ed. lia. }
             rewrite Hnil. cbn [bind filter app]. reflexivity.
        * apply Nat.ltb_ge in Ef. assert (E2 : (F <? st + pos + nsize c) = false) by (apply Nat.ltb_ge; unfold from in Ef; lia).
          rewrite E2. cbn [bind app]. rewrite filter_app.
          rewrite (filter_none (overlap F T) (all_visits c (st + pos + 1))); [reflexivity|].
          eapply Forall_impl; [|exact Hwithin]. intros v (H1 & H2). unfold overlap.
          assert (E3 : (F <? v_pos v + nsize (v_node v)) = false).
          { apply Nat.ltb_ge. apply Nat.ltb_ge in E2. destruct Hcin as [Hc0|Hc2]; lia. }
          rewrite E3, andb_false_r. reflexivity.
      + apply Nat.ltb_ge in Ept. assert (HposT : T <= st + pos) by (unfold to in Ept; lia).
        symmetry. f_equal. apply filter_none. constructor.
        * unfold overlap. cbn [v_pos]. assert (E : (st + pos <? T) = false) by (apply Nat.ltb_ge; exact HposT). rewrite E. reflexivity.
        * apply Forall_app. split.
          -- eapply Forall_impl; [|exact Hwithin]. intros v (H1 & _). unfold overlap.
             assert (E : (v_pos v <? T) = false) by (apply Nat.ltb_ge; lia). rewrite E. reflexivity.
          -- assert (Hr : Forall (fun v => st + (pos + nsize c) <= v_pos v) (av_go n st r (S i) (pos + nsize c))).
             { eapply Forall_impl; [|apply (av_go_within n st r (S i) (pos + nsize c))].
               - intros v (Hv & _). exact Hv.
               - intros x Hx. apply (wfw_child _ _ _ _ x Hw). rewrite Ecs. apply in_or_app. right. right. exact Hx. }
             eapply Forall_impl; [|exact Hr]. intros v Hv. cbv beta in Hv. unfold overlap.
             assert (E : (v_pos v <? T) = false) by (apply Nat.ltb_ge; lia). rewrite E. reflexivity. }
  exact (G cs [] 0 0 eq_refl eq_refl).
Qed.

Theorem nodes_between_exact doc F T :
  wfw doc -> T <= fsize (node_content doc) ->
  nodes_between_node s (fun _ => true) doc F T 0 = Ok (filter (overlap F T) (all_visits doc 0)).
Proof.
  intros Hw HT. rewrite <- (walk_exact F T doc 0 Hw). rewrite !Nat.sub_0_r, Nat.min_r by lia. reflexivity.
Qed.

(* the walk reports nodes in document order: positions never decrease *)
Fixpoint Mono (vs : list visit) : Prop :=
  match vs with [] => True | v :: r => Forall (fun w => v_pos v <= v_pos w) r /\ Mono r end.

End WithSchema.
