(* ResolvedPos accessors against the token picture (C09): every ancestor of a resolved position spans a
   balanced block of tokens  open :: content ++ [close]  and before / start / end / after are the indices of
   its open token, of its first content token, of its close token and of the token after it; the position
   lies between start and end. *)
From Coq Require Import ZArith NArith List Bool Arith Lia.
From PM Require Import Model.Data Model.Mark Model.Tree Spec.Tokens Proofs.DataProofs Proofs.NodeInd
  Proofs.ReplaceValid Proofs.SliceSides Proofs.TokenBasics Proofs.PathTokens Proofs.ReplaceTokens Proofs.SliceShape
  Proofs.SliceTokens Proofs.SliceCut.
Import ListNotations.
Local Open Scope nat_scope.

Section WithSchema.
Variable s : schema.
Notation nsize := (node_size s).
Notation fsize := (frag_size s).
Notation toks := (toks s).
Notation ftoks := (ftoks s).

Lemma resolve_in_span : forall d n po start p po' nd i o,
  resolve_in s n po start = Ok (p, po') -> nth_error p (S d) = Some (nd, i, o) ->
  exists X Y n0 i0,
    ftoks (node_content n) = X ++ open_tok nd :: ftoks (node_content nd) ++ TClose :: Y /\
    nth_error p d = Some (n0, i0, start + length X) /\
    start + length X + 1 <= start + po /\ start + po <= start + length X + 1 + fsize (node_content nd) /\
    is_elem nd /\ nonleaf s nd.
Proof.
  induction d as [|d IH]; intros n po start p po' nd i o H Hn.
  - destruct n as [t mk|ty a m cs]; [discriminate|]. cbn [node_content].
    destruct (resolve_in_cases s _ _ _ _ _ _ _ _ H) as
      [(i0 & -> & _)|(i0 & ty1 & a1 & m1 & cs1 & rest & Hc & Hl & Hp & Hr & ->)].
    { cbn in Hn. discriminate. }
    cbn [nth_error] in Hn. destruct (resolve_in_spec s _ _ _ _ _ Hr) as ((i1 & o1 & rest1 & ->) & _ & _).
    cbn in Hn. inversion Hn; subst nd i o. clear Hn.
    pose proof (node_size_elem s ty1 a1 m1 cs1) as Hsz. rewrite Hl in Hsz.
    exists (ftoks (firstn i0 cs)), (ftoks (skipn (S i0) cs)), (Elem ty a m cs), i0.
    split; [rewrite (ftoks_split_at s _ _ _ Hc), toks_elem, Hl; cbn [open_tok app node_content]; rewrite <- app_assoc; reflexivity|].
    rewrite ftoks_length. split; [reflexivity|]. cbn [node_content]. split; [lia|]. split; [lia|].
    split; [unfold is_elem; eauto|exact Hl].
  - destruct n as [t mk|ty a m cs]; [discriminate|]. cbn [node_content].
    destruct (resolve_in_cases s _ _ _ _ _ _ _ _ H) as
      [(i0 & -> & _)|(i0 & ty1 & a1 & m1 & cs1 & rest & Hc & Hl & Hp & Hr & ->)].
    { cbn in Hn. destruct d; discriminate. }
    change (nth_error rest (S d) = Some (nd, i, o)) in Hn.
    destruct (IH _ _ _ _ _ _ _ _ Hr Hn) as (X' & Y' & n0 & i1 & Htk & Hnd & Hb1 & Hb2 & Hel & Hnl).
    cbn [node_content] in Htk.
    exists (ftoks (firstn i0 cs) ++ TOpen ty1 a1 m1 :: X'), (Y' ++ TClose :: ftoks (skipn (S i0) cs)), n0, i1.
    split.
    + rewrite (ftoks_split_at s _ _ _ Hc), toks_elem, Hl, Htk. repeat (rewrite <- ?app_assoc; cbn [app]). reflexivity.
    + rewrite app_length, ftoks_length. cbn [length]. set (cur := fsize (firstn i0 cs)) in *.
      split; [cbn [nth_error]; rewrite Hnd; f_equal; f_equal; lia|]. split; [lia|]. split; [lia|]. auto.
Qed.

(* the accessors of a resolved position, for an ancestor below the root *)
Theorem ancestor_span doc pos r d nd :
  resolve s doc pos = Ok r -> rp_node r (S d) = Ok nd ->
  exists X Y,
    ftoks (node_content doc) = X ++ open_tok nd :: ftoks (node_content nd) ++ TClose :: Y /\
    rp_before r (S d) = Ok (length X) /\
    rp_start r (S d) = Ok (length X + 1) /\
    rp_end s r (S d) = Ok (length X + 1 + fsize (node_content nd)) /\
    rp_after s r (S d) = Ok (length X + 2 + fsize (node_content nd)) /\
    length X + 1 <= pos /\ pos <= length X + 1 + fsize (node_content nd).
Proof.
  intros H Hn. pose proof H as H0. unfold resolve in H. destruct (fsize (node_content doc) <? pos); [discriminate|].
  destruct (resolve_in s doc pos 0) as [[p po]|] eqn:E; [|discriminate]. cbn [bind fst snd] in H. inversion H; subst r. clear H.
  destruct (rp_node_path _ _ _ Hn) as (i & o & Hp). unfold path_at in Hp. cbn [rp_path] in Hp.
  destruct (resolve_in_span d _ _ _ _ _ _ _ _ E Hp) as (X & Y & n0 & i0 & Htk & Hnd & Hb1 & Hb2 & Hel & Hnl).
  cbn [Nat.add] in *. exists X, Y. split; [exact Htk|].
  assert (Hlen : S d < length p) by (apply nth_error_Some; rewrite Hp; discriminate).
  assert (Hoff : rp_offset {| rp_pos := pos; rp_path := p; rp_parent_offset := po |} d = Ok (length X)).
  { unfold rp_offset, path_at. cbn [rp_path]. rewrite Hnd. reflexivity. }
  assert (Hdep : (S d =? rp_depth {| rp_pos := pos; rp_path := p; rp_parent_offset := po |} + 1) = false).
  { apply Nat.eqb_neq. unfold rp_depth. cbn [rp_path]. lia. }
  destruct Hel as (ty & a & m & cs & ->). unfold nonleaf in Hnl. cbn [node_ty] in Hnl.
  pose proof (node_size_elem s ty a m cs) as Hsz. rewrite Hnl in Hsz. cbn [node_content] in *.
  split; [cbn [rp_before]; rewrite Hdep; exact Hoff|].
  split; [cbn [rp_start]; rewrite Hoff; reflexivity|].
  split; [unfold rp_end; cbn [rp_start]; rewrite Hoff; cbn [bind]; rewrite Hn; reflexivity|].
  split; [cbn [rp_after]; rewrite Hdep, Hoff; cbn [bind]; rewrite Hn; cbn [bind]; f_equal; lia|].
  split; lia.
Qed.

End WithSchema.
