(* Changing a node's type or markup keeps its children (C13): the step Transform.set_node_markup / set_block_type
   record - a replace-around step whose gap is the node's whole content and whose slice is one empty node of the new
   type - replaces exactly the node's open token (by one of the new type, attributes and marks) and keeps every
   other token, the children included. *)
From Coq Require Import ZArith NArith List Bool Arith Lia.
From PM Require Import Model.Data Model.Mark Model.Tree Model.StepMap Model.Step Spec.Tokens
  Proofs.ReplaceValid Proofs.SliceSides Proofs.TokenBasics Proofs.PathTokens Proofs.ReplaceTokens Proofs.SliceShape
  Proofs.StepFaithful Proofs.SliceTokens Proofs.SliceCut Proofs.TokenLaws Proofs.StepAlgebra Proofs.StepTokens
  Proofs.AroundTokens.
Import ListNotations.
Local Open Scope nat_scope.

Section WithSchema.
Variable s : schema.
Notation V := (V s).
Notation DT := (DT s).
Notation IT := (IT s).

Theorem retype_step_keeps_children from to ty a m structure doc d' :
  V doc -> is_leaf_ty s ty = false -> from + 2 <= to ->
  apply s (SReplaceAround from to (from + 1) (to - 1) (SL [Elem ty a m []] 0 0) 1 structure) doc = ROk d' ->
  DT d' = firstn from (DT doc) ++ [tnorm (TOpen ty a m)] ++ seg (DT doc) (from + 1) (to - 1) ++ [TClose] ++ skipn to (DT doc).
Proof.
  intros Hd Hl Hft H.
  set (sl := SL [Elem ty a m []] 0 0).
  assert (Hs : Shape s (sl_content sl) (sl_open_start sl) (sl_open_end sl)) by exact I.
  assert (HI : IT sl = [tnorm (TOpen ty a m); TClose]).
  { unfold IT, inner_toks, sl. cbn [sl_content sl_open_start sl_open_end Tokens.ftoks]. rewrite toks_elem, Hl.
    cbn [Tokens.ftoks app length]. rewrite !Nat.sub_0_r. cbn [skipn firstn nt List.map]. reflexivity. }
  assert (Hins : 1 <= length (IT sl)) by (rewrite HI; cbn; lia).
  destruct (replace_around_splice s from to (from + 1) (to - 1) sl 1 structure doc d' Hd Hs ltac:(lia) Hins H) as (_ & _ & E).
  rewrite E, HI. reflexivity.
Qed.

End WithSchema.
