(* ReplaceAroundStep on the flat token sequence: Slice.insert_at puts the gap's tokens into the slice's
   tokens, so the step replaces [from, gap_from) by the first `insert` tokens of the slice and
   [gap_to, to) by the rest, and keeps the gap. *)
From Coq Require Import ZArith NArith List Bool Arith Lia.
From PM Require Import Model.Data Model.Mark Model.Tree Model.StepMap Model.Step Spec.Tokens
  Proofs.ReplaceValid Proofs.SliceSides Proofs.TokenBasics Proofs.PathTokens Proofs.ReplaceTokens Proofs.SliceShape
  Proofs.StepFaithful Proofs.SliceTokens Proofs.SliceCut Proofs.TokenLaws Proofs.StepAlgebra Proofs.StepTokens.
Import ListNotations.
Local Open Scope nat_scope.

Section WithSchema.
Variable s : schema.
Notation nsize := (node_size s).
Notation fsize := (frag_size s).
Notation toks := (toks s).
Notation ftoks := (ftoks s).
Notation V := (V s).
Notation DT := (DT s).
Notation IT := (IT s).
Notation opens_l := (opens_l s).
Notation ShapeS sl := (Shape s (sl_content sl) (sl_open_start sl) (sl_open_end sl)).
Notation OpenS sl := (OpenOK s (sl_content sl) (sl_open_start sl) (sl_open_end sl)).

(* ------------------------------------------------------------------ Fragment.find_index *)
Lemma find_index_go_spec : forall l pre pos i off,
  fsize pre < pos -> find_index_go s l (length pre) (fsize pre) pos = Ok (i, off) ->
  off = fsize (firstn i (pre ++ l)) /\ i <= length (pre ++ l) /\
  (off = pos \/ exists c, nth_error (pre ++ l) i = Some c /\ off < pos < off + nsize c).
Proof.
  induction l as [|c r IH]; intros pre pos i off Hlt H; [discriminate|]. cbn [find_index_go] in H. cbv zeta in H.
  destruct (firstn_length_app pre c r) as (Hfi & Hnth & Hsk).
  destruct (pos <=? fsize pre + nsize c) eqn:E.
  - apply Nat.leb_le in E. destruct (fsize pre + nsize c =? pos) eqn:E2.
    + apply Nat.eqb_eq in E2. inversion H; subst i off.
      assert (Hf2 : firstn (S (length pre)) (pre ++ c :: r) = pre ++ [c]).
      { change (c :: r) with ([c] ++ r). rewrite app_assoc. apply firstn_app_exact. rewrite app_length. cbn. lia. }
      rewrite Hf2, frag_size_app. cbn [frag_size]. split; [lia|]. split; [rewrite app_length; cbn; lia|left; lia].
    + apply Nat.eqb_neq in E2. inversion H; subst i off. rewrite Hfi. split; [reflexivity|].
      split; [rewrite app_length; lia|]. right. exists c. split; [exact Hnth|lia].
  - apply Nat.leb_gt in E. change (c :: r) with ([c] ++ r). rewrite app_assoc.
    apply IH; [rewrite frag_size_app; cbn [frag_size]; lia|].
    rewrite app_length, frag_size_app. cbn [length frag_size]. rewrite Nat.add_0_r, Nat.add_1_r. exact H.
Qed.

Lemma find_index_spec l pos i off :
  find_index s l pos = Ok (i, off) ->
  off = fsize (firstn i l) /\ i <= length l /\ pos <= fsize l /\
  (off = pos \/ exists c, nth_error l i = Some c /\ off < pos < off + nsize c).
Proof.
  unfold find_index. destruct (pos =? 0) eqn:E0.
  { apply Nat.eqb_eq in E0. subst pos. intros H; inversion H; subst. cbn. repeat split; auto; lia. }
  apply Nat.eqb_neq in E0. destruct (pos =? fsize l) eqn:E1.
  { apply Nat.eqb_eq in E1. intros H; inversion H; subst. rewrite firstn_all. repeat split; auto. }
  destruct (fsize l <? pos) eqn:E2; [discriminate|]. apply Nat.ltb_ge in E2.
  intros H. destruct (find_index_go_spec l [] pos i off ltac:(cbn; lia) H) as (H1 & H2 & H3).
  cbn [app] in *. auto.
Qed.

(* ------------------------------------------------------------------ cutting at a position that opens nothing *)
Lemma frag_cut_prefix l dist a :
  dist <= fsize l -> opens_l l 0 dist = [] -> frag_cut s l 0 dist = Ok a -> ftoks a = firstn dist (ftoks l).
Proof.
  intros Hle Ho H. destruct (frag_cut_toks_gen s l 0 dist a ltac:(lia) H) as (H0 & H1).
  destruct dist as [|d]; [rewrite (H0 eq_refl); reflexivity|].
  rewrite (H1 ltac:(lia)). unfold SliceTokens.closes_l. rewrite Ho, opens_l_before by lia. cbn [length repeat app].
  rewrite app_nil_r. unfold seg. rewrite Nat.sub_0_r. reflexivity.
Qed.
Lemma frag_cut_suffix l dist b :
  dist <= fsize l -> opens_l l 0 dist = [] -> frag_cut s l dist (fsize l) = Ok b -> ftoks b = skipn dist (ftoks l).
Proof.
  intros Hle Ho H. destruct (frag_cut_toks_gen s l dist (fsize l) b Hle H) as (H0 & H1).
  destruct (Nat.eq_dec dist (fsize l)) as [->|Hne].
  - rewrite (H0 eq_refl). rewrite skipn_all2; [reflexivity|rewrite ftoks_length; lia].
  - rewrite (H1 ltac:(lia)). unfold SliceTokens.closes_l. rewrite Ho, opens_l_after by lia. cbn [length repeat app].
    rewrite app_nil_r. unfold seg. rewrite <- (ftoks_length s l). rewrite firstn_all2; [reflexivity|rewrite skipn_length; lia].
Qed.

(* ------------------------------------------------------------------ replace.insert_into *)
Lemma insert_into_toks : forall fuel content dist ins l,
  insert_into s fuel content dist ins = Ok (Some l) ->
  dist <= fsize content /\
  nt (ftoks l) = nt (firstn dist (ftoks content)) ++ nt (ftoks ins) ++ nt (skipn dist (ftoks content)).
Proof.
  induction fuel as [|fuel IH]; intros content dist ins l H; [discriminate|]. cbn [insert_into] in H.
  destruct (find_index s content dist) as [[index offset]|] eqn:Efi; [|discriminate]. cbn [bind] in H.
  destruct (find_index_spec _ _ _ _ Efi) as (Hoff & Hidx & Hle & Hpos).
  split; [exact Hle|].
  assert (Htop : opens_l content 0 dist = [] ->
                 forall a b, frag_cut s content 0 dist = Ok a -> frag_cut s content dist (fsize content) = Ok b ->
                 nt (ftoks (frag_append (frag_append a ins) b)) =
                 nt (firstn dist (ftoks content)) ++ nt (ftoks ins) ++ nt (skipn dist (ftoks content))).
  { intros Ho a b Ha Hb. rewrite !frag_append_toks, (frag_cut_prefix _ _ _ Hle Ho Ha), (frag_cut_suffix _ _ _ Hle Ho Hb).
    rewrite <- app_assoc. reflexivity. }
  destruct ((offset =? dist) || match nth_error content index with Some c => node_is_text c | None => false end) eqn:Ecase.
  - assert (Ho : opens_l content 0 dist = []).
    { apply orb_prop in Ecase. destruct Ecase as [E|E].
      - apply Nat.eqb_eq in E. apply (opens_at_boundary s content index dist Hidx). lia.
      - destruct (nth_error content index) as [c|] eqn:En; [|discriminate]. destruct c as [t mk|]; [|discriminate].
        destruct Hpos as [Hp|(c' & Hc' & Hp)]; [apply (opens_at_boundary s content index dist Hidx); lia|].
        try rewrite En in Hc'. inversion Hc'; subst c'. cbn [node_size] in Hp.
        apply (opens_at_text s content index t mk dist En). lia. }
    destruct (nth_error content index) as [c|] eqn:En.
    + destruct (frag_cut s content 0 dist) as [a|] eqn:Ea; [|discriminate]. cbn [bind] in H.
      destruct (frag_cut s content dist (fsize content)) as [b|] eqn:Eb; [|discriminate]. cbn [bind] in H.
      inversion H; subst l. apply Htop; auto.
    + destruct (offset =? dist); [|discriminate].
      destruct (frag_cut s content 0 dist) as [a|] eqn:Ea; [|discriminate]. cbn [bind] in H.
      destruct (frag_cut s content dist (fsize content)) as [b|] eqn:Eb; [|discriminate]. cbn [bind] in H.
      inversion H; subst l. apply Htop; auto.
  - apply orb_false_elim in Ecase. destruct Ecase as [E1 E2]. apply Nat.eqb_neq in E1.
    destruct (nth_error content index) as [c|] eqn:En; [|discriminate].
    destruct (insert_into s fuel (node_content c) (dist - offset - 1) ins) as [[l'|]|] eqn:Ei; try discriminate.
    cbn [bind] in H. inversion H; subst l. clear H.
    destruct Hpos as [Hp|(c' & Hc' & Hp)]; [lia|]. try rewrite En in Hc'. inversion Hc'; subst c'.
    destruct c as [t mk|ty a m cs]; [discriminate|]. cbn [node_content node_copy] in *.
    assert (Hnl : is_leaf_ty s ty = false).
    { pose proof (node_size_elem s ty a m cs) as Hs. destruct (is_leaf_ty s ty); [|reflexivity]. lia. }
    pose proof (node_size_elem s ty a m cs) as Hs. rewrite Hnl in Hs.
    destruct (IH _ _ _ _ Ei) as (Hle' & Hin).
    unfold replace_child. rewrite ftoks_app. cbn [app Tokens.ftoks]. rewrite toks_elem, Hnl.
    rewrite (ftoks_split_at s _ _ _ En), toks_elem, Hnl.
    pose proof (ftoks_length s (firstn index content)) as HlA. rewrite <- Hoff in HlA.
    pose proof (ftoks_length s cs) as HlC.
    set (A := ftoks (firstn index content)) in *. set (R := ftoks (skipn (S index) content)) in *.
    rewrite firstn_app_in by lia. rewrite skipn_app_in by lia. rewrite HlA.
    replace (dist - offset) with (S (dist - offset - 1)) by lia. cbn [firstn skipn app].
    rewrite <- !app_assoc.
    rewrite firstn_app_l by (rewrite HlC; lia). rewrite skipn_app_l by (rewrite HlC; lia).
    rewrite !nt_app, !nt_cons, !nt_app, Hin. rewrite <- ?app_assoc. cbn [app]. rewrite <- ?app_assoc. reflexivity.
Qed.

(* insert_into, inverted: it either rebuilds one child or cuts the list at a position that opens nothing *)
Lemma insert_into_form fuel content dist ins l :
  insert_into s (S fuel) content dist ins = Ok (Some l) ->
  (exists index ty a m cs l',
      nth_error content index = Some (Elem ty a m cs) /\ is_leaf_ty s ty = false /\
      fsize (firstn index content) < dist /\ dist < fsize (firstn index content) + nsize (Elem ty a m cs) /\
      insert_into s fuel cs (dist - fsize (firstn index content) - 1) ins = Ok (Some l') /\
      l = replace_child content index (Elem ty a m l')) \/
  (opens_l content 0 dist = [] /\ dist <= fsize content /\
   exists a b, frag_cut s content 0 dist = Ok a /\ frag_cut s content dist (fsize content) = Ok b /\
               l = frag_append (frag_append a ins) b).
Proof.
  intros H. cbn [insert_into] in H.
  destruct (find_index s content dist) as [[index offset]|] eqn:Efi; [|discriminate]. cbn [bind] in H.
  destruct (find_index_spec _ _ _ _ Efi) as (Hoff & Hidx & Hle & Hpos).
  destruct ((offset =? dist) || match nth_error content index with Some c => node_is_text c | None => false end) eqn:Ecase.
  - right. assert (Ho : opens_l content 0 dist = []).
    { apply orb_prop in Ecase. destruct Ecase as [E|E].
      - apply Nat.eqb_eq in E. apply (opens_at_boundary s content index dist Hidx). lia.
      - destruct (nth_error content index) as [c|] eqn:En; [|discriminate]. destruct c as [t mk|]; [|discriminate].
        destruct Hpos as [Hp|(c' & Hc' & Hp)]; [apply (opens_at_boundary s content index dist Hidx); lia|].
        inversion Hc'; subst c'. cbn [node_size] in Hp.
        apply (opens_at_text s content index t mk dist En). lia. }
    split; [exact Ho|]. split; [exact Hle|].
    destruct (nth_error content index) as [c|] eqn:En.
    + destruct (frag_cut s content 0 dist) as [a|] eqn:Ea; [|discriminate]. cbn [bind] in H.
      destruct (frag_cut s content dist (fsize content)) as [b|] eqn:Eb; [|discriminate]. cbn [bind] in H.
      inversion H; subst l. eauto.
    + destruct (offset =? dist); [|discriminate].
      destruct (frag_cut s content 0 dist) as [a|] eqn:Ea; [|discriminate]. cbn [bind] in H.
      destruct (frag_cut s content dist (fsize content)) as [b|] eqn:Eb; [|discriminate]. cbn [bind] in H.
      inversion H; subst l. eauto.
  - left. apply orb_false_elim in Ecase. destruct Ecase as [E1 E2]. apply Nat.eqb_neq in E1.
    destruct (nth_error content index) as [c|] eqn:En; [|discriminate].
    destruct (insert_into s fuel (node_content c) (dist - offset - 1) ins) as [[l'|]|] eqn:Ei; try discriminate.
    cbn [bind] in H. inversion H; subst l. clear H.
    destruct Hpos as [Hp|(c' & Hc' & Hp)]; [lia|]. inversion Hc'; subst c'.
    destruct c as [t mk|ty a m cs]; [discriminate|]. cbn [node_content node_copy] in *.
    assert (Hnl : is_leaf_ty s ty = false).
    { pose proof (node_size_elem s ty a m cs) as Hs. destruct (is_leaf_ty s ty); [|reflexivity]. lia. }
    exists index, ty, a, m, cs, l'. subst offset. repeat split; auto; lia.
Qed.

(* ------------------------------------------------------------------ ends of cuts and appends *)
Lemma elem_size_pos ty a m cs : 1 <= nsize (Elem ty a m cs).
Proof. rewrite node_size_elem. destruct (is_leaf_ty s ty); lia. Qed.

Lemma frag_append_head ty a m cs u v : exists x, frag_append (Elem ty a m cs :: u) v = Elem ty a m cs :: x.
Proof.
  unfold frag_append. destruct v as [|first v']; [eauto|]. set (U := Elem ty a m cs :: u).
  destruct (last U first) as [t mk|? ? ? ?] eqn:El; [|cbn; eauto].
  destruct first as [t' mk'|? ? ? ?]; [|cbn; eauto]. destruct (marks_eqb mk mk'); [|cbn; eauto].
  destruct u as [|u0 u']; [cbn in El; discriminate|]. unfold U. cbn [removelast app]. eauto.
Qed.

Lemma frag_append_ends ty1 a1 m1 cs1 u v' ty2 a2 m2 cs2 :
  exists z, frag_append (Elem ty1 a1 m1 cs1 :: u) (v' ++ [Elem ty2 a2 m2 cs2]) =
            Elem ty1 a1 m1 cs1 :: z ++ [Elem ty2 a2 m2 cs2].
Proof.
  unfold frag_append. set (U := Elem ty1 a1 m1 cs1 :: u). set (E2 := Elem ty2 a2 m2 cs2).
  assert (Hd : exists z, U ++ v' ++ [E2] = Elem ty1 a1 m1 cs1 :: z ++ [E2]).
  { exists (u ++ v'). unfold U. cbn [app]. rewrite <- app_assoc. reflexivity. }
  destruct (v' ++ [E2]) as [|first vr] eqn:Ev; [destruct v'; discriminate|].
  destruct (last U first) as [t mk|? ? ? ?] eqn:El; [|exact Hd].
  destruct first as [t' mk'|? ? ? ?]; [|exact Hd]. destruct (marks_eqb mk mk'); [|exact Hd].
  destruct u as [|u0 u']; [cbn in El; discriminate|].
  destruct v' as [|w v'']; [cbn in Ev; inversion Ev|]. cbn [app] in Ev. inversion Ev; subst w vr.
  unfold U. cbn [removelast app]. exists (removelast (u0 :: u') ++ Text (t ++ t') mk :: v'').
  rewrite <- !app_assoc. reflexivity.
Qed.

Lemma frag_cut_head ty a m cs r dist x :
  nsize (Elem ty a m cs) <= dist -> frag_cut s (Elem ty a m cs :: r) 0 dist = Ok x ->
  exists x', x = Elem ty a m cs :: x'.
Proof.
  intros Hd H. unfold frag_cut in H. destruct ((0 =? 0) && (dist =? fsize (Elem ty a m cs :: r))); [inversion H; eauto|].
  pose proof (elem_size_pos ty a m cs) as Hp.
  destruct (dist <=? 0) eqn:E; [apply Nat.leb_le in E; lia|]. cbn [frag_cut_go] in H. cbv zeta in H.
  replace (0 <? dist) with true in H by (symmetry; apply Nat.ltb_lt; lia). cbn [Nat.add] in H.
  replace (0 <? nsize (Elem ty a m cs)) with true in H by (symmetry; apply Nat.ltb_lt; lia).
  replace (dist <? nsize (Elem ty a m cs)) with false in H by (symmetry; apply Nat.ltb_ge; lia).
  cbn [Nat.ltb Nat.leb orb bind] in H.
  destruct (frag_cut_go s r (nsize (Elem ty a m cs)) 0 dist) as [rest|]; [|discriminate]. cbn [bind] in H. inversion H. eauto.
Qed.

Lemma frag_cut_go_last ty a m cs : forall r pos from x,
  from <= pos + fsize r ->
  frag_cut_go s (r ++ [Elem ty a m cs]) pos from (pos + fsize (r ++ [Elem ty a m cs])) = Ok x ->
  exists x', x = x' ++ [Elem ty a m cs].
Proof.
  pose proof (elem_size_pos ty a m cs) as Hp.
  induction r as [|c r IH]; intros pos from x Hf H.
  - cbn [app frag_size] in *. rewrite Nat.add_0_r in *. cbn [frag_cut_go] in H. cbv zeta in H.
    replace (pos <? pos + nsize (Elem ty a m cs)) with true in H by (symmetry; apply Nat.ltb_lt; lia).
    replace (from <? pos + nsize (Elem ty a m cs)) with true in H by (symmetry; apply Nat.ltb_lt; lia).
    replace (pos <? from) with false in H by (symmetry; apply Nat.ltb_ge; lia).
    rewrite Nat.ltb_irrefl in H. cbn [orb bind] in H. exists []. inversion H. reflexivity.
  - cbn [app frag_size] in *. cbn [frag_cut_go] in H. cbv zeta in H.
    rewrite frag_size_app in *. cbn [frag_size] in *.
    replace (pos <? pos + (nsize c + (fsize r + (nsize (Elem ty a m cs) + 0)))) with true in H by (symmetry; apply Nat.ltb_lt; lia).
    assert (IH' : forall y, frag_cut_go s (r ++ [Elem ty a m cs]) (pos + nsize c) from
                              (pos + (nsize c + (fsize r + (nsize (Elem ty a m cs) + 0)))) = Ok y ->
                            exists y', y = y' ++ [Elem ty a m cs]).
    { intros y Hy. apply (IH (pos + nsize c) from y); [lia|]. rewrite ?frag_size_app. cbn [frag_size].
      replace (pos + nsize c + (fsize r + (nsize (Elem ty a m cs) + 0))) with (pos + (nsize c + (fsize r + (nsize (Elem ty a m cs) + 0)))) by lia.
      exact Hy. }
    destruct (from <? pos + nsize c).
    + destruct (_ : res node) as [c'|] in H; [|discriminate]. cbn [bind] in H.
      destruct (frag_cut_go s (r ++ [Elem ty a m cs]) (pos + nsize c) from _) as [rest|] eqn:Er; [|discriminate].
      cbn [bind] in H. inversion H; subst x. destruct (IH' _ eq_refl) as (y' & ->). exists (c' :: y'). reflexivity.
    + apply IH'. exact H.
Qed.

Lemma frag_cut_last ty a m cs r dist x :
  dist <= fsize r -> frag_cut s (r ++ [Elem ty a m cs]) dist (fsize (r ++ [Elem ty a m cs])) = Ok x ->
  exists x', x = x' ++ [Elem ty a m cs].
Proof.
  intros Hd H. unfold frag_cut in H.
  destruct ((dist =? 0) && (fsize (r ++ [Elem ty a m cs]) =? fsize (r ++ [Elem ty a m cs]))); [inversion H; eauto|].
  pose proof (elem_size_pos ty a m cs) as Hp.
  destruct (fsize (r ++ [Elem ty a m cs]) <=? dist) eqn:E.
  { apply Nat.leb_le in E. rewrite frag_size_app in E. cbn [frag_size] in E. lia. }
  apply (frag_cut_go_last ty a m cs r 0 dist x); [lia|exact H].
Qed.

Lemma frag_append_last u v' ty2 a2 m2 cs2 :
  exists z, frag_append u (v' ++ [Elem ty2 a2 m2 cs2]) = z ++ [Elem ty2 a2 m2 cs2].
Proof.
  destruct u as [|[t mk|ty1 a1 m1 cs1] u'].
  - exists v'. unfold frag_append. destruct (v' ++ [Elem ty2 a2 m2 cs2]) eqn:E; [destruct v'; discriminate|reflexivity].
  - set (E2 := Elem ty2 a2 m2 cs2). set (U := Text t mk :: u'). unfold frag_append.
    assert (Hd : exists z, U ++ v' ++ [E2] = z ++ [E2]) by (exists (U ++ v'); rewrite <- app_assoc; reflexivity).
    destruct (v' ++ [E2]) as [|first vr] eqn:Ev; [destruct v'; discriminate|]. fold U.
    destruct (last U first) as [t0 mk0|? ? ? ?] eqn:El; [|exact Hd].
    destruct first as [t' mk'|? ? ? ?]; [|exact Hd]. destruct (marks_eqb mk0 mk'); [|exact Hd].
    destruct v' as [|w v'']; [cbn in Ev; inversion Ev|]. cbn [app] in Ev. inversion Ev; subst w vr.
    exists (removelast U ++ Text (t0 ++ t') mk0 :: v''). rewrite <- !app_assoc. reflexivity.
  - destruct (frag_append_ends ty1 a1 m1 cs1 u' v' ty2 a2 m2 cs2) as (z & ->). exists (Elem ty1 a1 m1 cs1 :: z). reflexivity.
Qed.

Lemma replace_child_length (l : list node) index x : index < length l -> length (replace_child l index x) = length l.
Proof.
  intros H. unfold replace_child. rewrite !app_length, firstn_length, skipn_length. cbn [length]. lia.
Qed.

Notation ShapeL := (ShapeL s).
Notation ShapeR := (ShapeR s).
Notation Shape := (Shape s).

(* ------------------------------------------------------------------ insert_into keeps the open sides *)
Lemma insert_into_ShapeL : forall fuel content dist ins l os,
  ShapeL content os -> os <= dist -> insert_into s fuel content dist ins = Ok (Some l) -> ShapeL l os.
Proof.
  induction fuel as [|fuel IH]; intros content dist ins l os HL Hd H; [discriminate|].
  destruct os as [|k]; [exact I|]. cbn [SliceShape.ShapeL] in HL.
  destruct content as [|[t mk|ty1 a1 m1 cs1] r]; try contradiction. destruct HL as (Hn1 & HL).
  pose proof (node_size_elem s ty1 a1 m1 cs1) as Hs1. unfold nl_ty in Hn1. rewrite Hn1 in Hs1.
  destruct (insert_into_form _ _ _ _ _ H) as
    [(index & ty & a & m & cs & l' & Hn & Hnl & Hp1 & Hp2 & Hi & ->)|(Ho & Hle & a & b & Ha & Hb & ->)].
  - destruct index as [|j].
    + cbn in Hn. inversion Hn; subst ty a m cs. cbn [firstn frag_size] in *. unfold replace_child. cbn [firstn skipn app].
      cbn [SliceShape.ShapeL]. split; [exact Hn1|]. eapply IH; [exact HL| |exact Hi]. lia.
    + unfold replace_child. cbn [firstn app SliceShape.ShapeL]. auto.
  - assert (Hge : nsize (Elem ty1 a1 m1 cs1) <= dist).
    { destruct (Nat.le_gt_cases (nsize (Elem ty1 a1 m1 cs1)) dist) as [Hx|Hx]; [exact Hx|exfalso].
      rewrite (opens_at_inside s (Elem ty1 a1 m1 cs1 :: r) 0 ty1 a1 m1 cs1 dist eq_refl Hn1) in Ho by (cbn [firstn frag_size]; lia).
      discriminate. }
    destruct (frag_cut_head _ _ _ _ _ _ _ Hge Ha) as (a' & ->).
    destruct (frag_append_head ty1 a1 m1 cs1 a' ins) as (x & ->).
    destruct (frag_append_head ty1 a1 m1 cs1 x b) as (y & ->). cbn [SliceShape.ShapeL]. auto.
Qed.

Lemma insert_into_ShapeR : forall fuel content dist ins l oe,
  ShapeR content oe -> dist + oe <= fsize content -> insert_into s fuel content dist ins = Ok (Some l) -> ShapeR l oe.
Proof.
  induction fuel as [|fuel IH]; intros content dist ins l oe HR Hd H; [discriminate|].
  destruct oe as [|k]; [exact I|]. destruct HR as (r & ty2 & a2 & m2 & cs2 & -> & Hn2 & HR).
  pose proof (node_size_elem s ty2 a2 m2 cs2) as Hs2. unfold nl_ty in Hn2. rewrite Hn2 in Hs2.
  rewrite frag_size_app in Hd. cbn [frag_size] in Hd.
  destruct (firstn_length_app r (Elem ty2 a2 m2 cs2) []) as (Hfi & Hnth & Hsk).
  destruct (insert_into_form _ _ _ _ _ H) as
    [(index & ty & a & m & cs & l' & Hn & Hnl & Hp1 & Hp2 & Hi & ->)|(Ho & Hle & a & b & Ha & Hb & ->)].
  - assert (Hil : index < length (r ++ [Elem ty2 a2 m2 cs2])) by (apply nth_error_Some; rewrite Hn; discriminate).
    rewrite app_length in Hil. cbn [length] in Hil.
    destruct (Nat.eq_dec index (length r)) as [->|Hne].
    + rewrite Hnth in Hn. inversion Hn; subst ty a m cs. rewrite Hfi in *. unfold replace_child. rewrite Hfi, Hsk.
      exists r, ty2, a2, m2, l'. split; [reflexivity|]. split; [exact Hn2|]. eapply IH; [exact HR| |exact Hi]. lia.
    + unfold replace_child. rewrite firstn_app, skipn_app. replace (index - length r) with 0 by lia.
      replace (S index - length r) with 0 by lia. cbn [firstn skipn].
      exists (firstn index r ++ [Elem ty a m l'] ++ skipn (S index) r), ty2, a2, m2, cs2.
      split; [rewrite app_nil_r, <- !app_assoc; reflexivity|]. auto.
  - assert (Hge : dist <= fsize r).
    { destruct (Nat.le_gt_cases dist (fsize r)) as [Hx|Hx]; [exact Hx|exfalso].
      rewrite (opens_at_inside s (r ++ [Elem ty2 a2 m2 cs2]) (length r) ty2 a2 m2 cs2 dist Hnth Hn2) in Ho by (rewrite Hfi; lia).
      discriminate. }
    rewrite frag_size_app in Hb. cbn [frag_size] in Hb.
    assert (Hb' : frag_cut s (r ++ [Elem ty2 a2 m2 cs2]) dist (fsize (r ++ [Elem ty2 a2 m2 cs2])) = Ok b)
      by (rewrite frag_size_app; exact Hb).
    destruct (frag_cut_last _ _ _ _ _ _ _ Hge Hb') as (b' & ->).
    destruct (frag_append_last (frag_append a ins) b' ty2 a2 m2 cs2) as (z & ->).
    exists z, ty2, a2, m2, cs2. auto.
Qed.

Lemma insert_into_Shape : forall fuel content dist ins l os oe,
  Shape content os oe -> os <= dist -> dist + oe <= fsize content ->
  insert_into s fuel content dist ins = Ok (Some l) -> Shape l os oe.
Proof.
  induction fuel as [|fuel IH]; intros content dist ins l os oe Hsh Hd1 Hd2 H; [discriminate|].
  destruct (Shape_LR s _ _ _ Hsh) as (HL & HR).
  apply Shape_combine.
  - eapply insert_into_ShapeL; eauto.
  - eapply insert_into_ShapeR; eauto.
  - intros ty' a' m' cs' El Hos Hoe. destruct os as [|a]; [lia|]. destruct oe as [|b]; [lia|].
    cbn [Nat.sub]. rewrite !Nat.sub_0_r. cbn [SliceShape.Shape] in Hsh.
    destruct Hsh as [(ty & at_ & m & cs & -> & Hn & Hs)|(ty1 & a1 & m1 & cs1 & mid & ty2 & a2 & m2 & cs2 & -> & Hn1 & Hn2 & Hl & Hr)].
    + pose proof (node_size_elem s ty at_ m cs) as Hsz. unfold nl_ty in Hn. rewrite Hn in Hsz. cbn [frag_size] in Hd2.
      destruct (insert_into_form _ _ _ _ _ H) as
        [(index & ty0 & a0 & m0 & cs0 & l' & Hnth & Hnl & Hp1 & Hp2 & Hi & E)|(Ho & Hle & x & y & Ha & Hb & E)].
      * destruct index as [|j]; [|destruct j; discriminate]. cbn in Hnth. inversion Hnth; subst ty0 a0 m0 cs0.
        cbn [firstn frag_size] in *. unfold replace_child in E. cbn [firstn skipn app] in E. rewrite E in El.
        inversion El; subst ty' a' m' cs'. eapply IH; [exact Hs| | |exact Hi]; lia.
      * exfalso. rewrite (opens_at_inside s [Elem ty at_ m cs] 0 ty at_ m cs dist eq_refl Hn) in Ho by (cbn [firstn frag_size]; lia).
        discriminate.
    + exfalso. assert (Hlen : 2 <= length l).
      { destruct (insert_into_form _ _ _ _ _ H) as
          [(index & ty0 & a0 & m0 & cs0 & l' & Hnth & Hnl & Hp1 & Hp2 & Hi & E)|(Ho & Hle & x & y & Ha & Hb & E)].
        - rewrite E. rewrite replace_child_length by (apply nth_error_Some; rewrite Hnth; discriminate).
          cbn [length]. rewrite app_length. cbn. lia.
        - pose proof (node_size_elem s ty1 a1 m1 cs1) as Hs1. unfold nl_ty in Hn1. rewrite Hn1 in Hs1.
          pose proof (node_size_elem s ty2 a2 m2 cs2) as Hs2. unfold nl_ty in Hn2. rewrite Hn2 in Hs2.
          set (content := Elem ty1 a1 m1 cs1 :: mid ++ [Elem ty2 a2 m2 cs2]) in *.
          assert (Hc2 : content = (Elem ty1 a1 m1 cs1 :: mid) ++ [Elem ty2 a2 m2 cs2]) by reflexivity.
          destruct (firstn_length_app (Elem ty1 a1 m1 cs1 :: mid) (Elem ty2 a2 m2 cs2) []) as (Hfi & Hnth & Hsk).
          rewrite <- Hc2 in Hfi, Hnth.
          assert (Hfs : fsize content = fsize (Elem ty1 a1 m1 cs1 :: mid) + nsize (Elem ty2 a2 m2 cs2)).
          { rewrite Hc2, frag_size_app. cbn [frag_size]. lia. }
          assert (Hge1 : nsize (Elem ty1 a1 m1 cs1) <= dist).
          { destruct (Nat.le_gt_cases (nsize (Elem ty1 a1 m1 cs1)) dist) as [Hx|Hx]; [exact Hx|exfalso].
            rewrite (opens_at_inside s content 0 ty1 a1 m1 cs1 dist eq_refl Hn1) in Ho by (cbn [firstn frag_size]; lia).
            discriminate. }
          assert (Hge2 : dist <= fsize (Elem ty1 a1 m1 cs1 :: mid)).
          { destruct (Nat.le_gt_cases dist (fsize (Elem ty1 a1 m1 cs1 :: mid))) as [Hx|Hx]; [exact Hx|exfalso].
            rewrite (opens_at_inside s content _ ty2 a2 m2 cs2 dist Hnth Hn2) in Ho by (rewrite Hfi; lia).
            discriminate. }
          destruct (frag_cut_head _ _ _ _ _ _ _ Hge1 Ha) as (x' & ->).
          rewrite Hc2 in Hb. destruct (frag_cut_last _ _ _ _ _ _ _ Hge2 Hb) as (y' & ->).
          destruct (frag_append_head ty1 a1 m1 cs1 x' ins) as (x2 & Ex). rewrite Ex in E.
          destruct (frag_append_ends ty1 a1 m1 cs1 x2 y' ty2 a2 m2 cs2) as (z & Ez). rewrite Ez in E.
          rewrite E. cbn [length]. rewrite app_length. cbn. lia. }
      rewrite El in Hlen. cbn in Hlen. lia.
Qed.

(* ------------------------------------------------------------------ Slice.insert_at *)
Lemma inner_insert {A} (F G : list A) os oe ins : os + ins + oe <= length F ->
  firstn (length F + length G - os - oe) (skipn os (firstn (ins + os) F ++ G ++ skipn (ins + os) F)) =
  firstn ins (firstn (length F - os - oe) (skipn os F)) ++ G ++ skipn ins (firstn (length F - os - oe) (skipn os F)).
Proof.
  intros H. destruct (split5 F os (os + ins) (length F - oe) (length F)) as (P & B & C & D & S & E & LP & LB & LC & LD); try lia.
  assert (LS : length S = 0).
  { apply (f_equal (@length A)) in E. rewrite !app_length in E. lia. }
  destruct S; [|discriminate]. rewrite app_nil_r in E.
  assert (LF : length F = length P + length B + length C + length D) by (rewrite E, !app_length; lia).
  assert (X1 : firstn (ins + os) F = P ++ B).
  { rewrite E, (app_assoc P B). apply firstn_exact. rewrite app_length. lia. }
  assert (X2 : skipn (ins + os) F = C ++ D).
  { rewrite E, (app_assoc P B). apply skipn_exact. rewrite app_length. lia. }
  assert (Y1 : skipn os F = B ++ C ++ D) by (rewrite E; apply skipn_exact; lia).
  rewrite X1, X2, Y1. rewrite <- app_assoc. rewrite skipn_exact by lia.
  replace (length F + length G - os - oe) with (length (B ++ G ++ C)) by (rewrite !app_length; lia).
  replace (B ++ G ++ C ++ D) with ((B ++ G ++ C) ++ D) by (rewrite <- !app_assoc; reflexivity).
  rewrite firstn_exact by reflexivity.
  replace (length F - os - oe) with (length (B ++ C)) by (rewrite !app_length; lia).
  rewrite (app_assoc B C D). rewrite firstn_exact by reflexivity.
  rewrite firstn_exact by lia. rewrite skipn_exact by lia. reflexivity.
Qed.

Lemma insert_at_IT sl ins frag sl' :
  ShapeS sl -> ins <= length (IT sl) -> insert_at s sl ins frag = Ok (Some sl') ->
  ShapeS sl' /\ IT sl' = firstn ins (IT sl) ++ nt (ftoks frag) ++ skipn ins (IT sl).
Proof.
  intros Hs Hi H. unfold insert_at in H.
  destruct (insert_into s (S (fsize (sl_content sl))) (sl_content sl) (ins + sl_open_start sl) frag) as [[l|]|] eqn:E; try discriminate.
  cbn [bind] in H. inversion H; subst sl'. clear H. cbn [sl_content sl_open_start sl_open_end].
  pose proof (Shape_size s _ _ _ Hs) as Hsz.
  assert (Hil : length (IT sl) = fsize (sl_content sl) - sl_open_start sl - sl_open_end sl).
  { unfold IT, nt, inner_toks. rewrite map_length, firstn_length, skipn_length, ftoks_length. lia. }
  split.
  - eapply insert_into_Shape; [exact Hs| | |exact E]; lia.
  - destruct (insert_into_toks _ _ _ _ _ E) as (Hle & Ht).
    unfold IT, inner_toks. cbn [sl_content sl_open_start sl_open_end]. unfold nt in *.
    rewrite <- !firstn_map, <- !skipn_map. rewrite Ht. rewrite <- !firstn_map, <- !skipn_map.
    set (F := List.map tnorm (ftoks (sl_content sl))). set (G := List.map tnorm (ftoks frag)).
    assert (LF : length F = fsize (sl_content sl)) by (unfold F; rewrite map_length; apply ftoks_length).
    assert (Ll : length (ftoks l) = length F + length G).
    { rewrite <- (map_length tnorm), Ht, !app_length, !map_length, firstn_length, skipn_length, ftoks_length.
      unfold G. rewrite LF, map_length. lia. }
    rewrite Ll. rewrite ftoks_length, <- LF.
    apply inner_insert. lia.
Qed.

(* ------------------------------------------------------------------ ReplaceAroundStep.apply as a splice *)
Lemma apply_around_inv from to gf gt sl ins structure doc d' :
  apply s (SReplaceAround from to gf gt sl ins structure) doc = ROk d' ->
  exists gap sl', node_slice s doc gf gt = Ok gap /\ sl_open_start gap = 0 /\ sl_open_end gap = 0 /\
    insert_at s sl ins (sl_content gap) = Ok (Some sl') /\ node_replace s doc from to sl' = Ok d'.
Proof.
  intros H. cbn [apply] in H. unfold lift in H.
  destruct (if structure then _ else Ok false) as [cb|]; [|discriminate]. destruct cb; [discriminate|].
  destruct (node_slice s doc gf gt) as [gap|] eqn:Eg; [|discriminate].
  destruct (negb (sl_open_start gap =? 0) || negb (sl_open_end gap =? 0)) eqn:Eo; [discriminate|].
  apply orb_false_elim in Eo. destruct Eo as [E1 E2]. apply negb_false_iff in E1, E2. apply Nat.eqb_eq in E1, E2.
  destruct (insert_at s sl ins (sl_content gap)) as [[sl'|]|] eqn:Ei; try discriminate.
  unfold from_replace in H. destruct (node_replace s doc from to sl') as [d|e] eqn:Er; [|destruct e; discriminate].
  inversion H; subst d. exists gap, sl'. auto.
Qed.

Theorem replace_around_splice from to gf gt sl ins structure doc d' :
  V doc -> ShapeS sl -> gf <= gt -> ins <= length (IT sl) ->
  apply s (SReplaceAround from to gf gt sl ins structure) doc = ROk d' ->
  from <= length (DT doc) /\ to <= length (DT doc) /\
  DT d' = firstn from (DT doc) ++ firstn ins (IT sl) ++ seg (DT doc) gf gt ++ skipn ins (IT sl) ++ skipn to (DT doc).
Proof.
  intros Hd Hs Hg Hi H. destruct (apply_around_inv _ _ _ _ _ _ _ _ _ H) as (gap & sl' & Eg & Og1 & Og2 & Ei & Er).
  destruct (node_slice_IT s _ _ _ _ Hg Eg) as (_ & Hgap).
  assert (HG : nt (ftoks (sl_content gap)) = seg (DT doc) gf gt).
  { rewrite <- Hgap. unfold IT. rewrite inner_toks_closed by assumption. reflexivity. }
  destruct (insert_at_IT _ _ _ _ Hs Hi Ei) as (Hs' & HI'). rewrite HG in HI'.
  assert (Ha : apply s (SReplace from to sl' false) doc = ROk d').
  { cbn [apply]. unfold lift, from_replace. rewrite Er. reflexivity. }
  destruct (replace_step_splice s _ _ _ _ _ _ Hd Hs' Ha) as (B1 & B2 & E).
  split; [exact B1|]. split; [exact B2|]. rewrite E, HI'. rewrite <- !app_assoc. reflexivity.
Qed.

(* the result is valid when the slice with the gap inserted has valid nodes off its open sides *)
Theorem replace_around_valid from to gf gt sl ins structure doc d' :
  V doc -> apply s (SReplaceAround from to gf gt sl ins structure) doc = ROk d' ->
  (forall gap sl', node_slice s doc gf gt = Ok gap -> insert_at s sl ins (sl_content gap) = Ok (Some sl') -> OpenS sl') ->
  V d'.
Proof.
  intros Hd H Ho. destruct (apply_around_inv _ _ _ _ _ _ _ _ _ H) as (gap & sl' & Eg & Og1 & Og2 & Ei & Er).
  eapply node_replace_valid_open; [exact Hd|apply (Ho gap sl' Eg Ei)|exact Er].
Qed.

End WithSchema.
