(* Proofs about Model/JsonCodec.v (property C05): decoding what was encoded gives back the value *)
From Coq Require Import ZArith NArith List Bool Arith String Ascii Lia.
From PM Require Import Model.Data Model.Mark Model.Tree Model.Step Model.JsonCodec Proofs.DataProofs Proofs.MarkProofs.
Import ListNotations.
Local Open Scope string_scope.
Local Open Scope nat_scope.
Local Open Scope list_scope.

Section WithSchema.
Variable s : schema.

(* ---- names ---- *)
Lemma N_of_ascii_inj a b : N_of_ascii a = N_of_ascii b -> a = b.
Proof. intros H. rewrite <- (ascii_N_embedding a), <- (ascii_N_embedding b), H. reflexivity. Qed.

Lemma cps_eqb_true a : forall b, cps_eqb a b = true -> a = b.
Proof.
  induction a as [|x a IH]; destruct b as [|y b]; simpl; intros H; try discriminate; auto.
  apply andb_prop in H. destruct H as [H1 H2]. apply N.eqb_eq in H1. subst. f_equal. auto.
Qed.

Lemma name_cps_inj a : forall b, name_cps a = name_cps b -> a = b.
Proof.
  unfold name_cps. induction a as [|c a IH]; destruct b as [|d b]; simpl; intros H; try discriminate; auto.
  inversion H as [[H1 H2]]. apply N_of_ascii_inj in H1. subst. f_equal. apply IH. exact H2.
Qed.

(* type names are pairwise distinct (Python dict keys) *)
Definition names_distinct {A} (name_of : A -> string) (l : list A) : Prop :=
  NoDup (List.map name_of l).

Lemma find_name_nth {A} (name_of : A -> string) (d : A) : forall l i t,
  names_distinct name_of l -> t < List.length l ->
  find_name name_of l (name_cps (name_of (nth t l d))) i = Some (i + t).
Proof.
  induction l as [|x l IH]; intros i t Hnd Ht; simpl in Ht; [lia|].
  destruct t as [|t]; simpl.
  - rewrite cps_eqb_refl. f_equal. lia.
  - inversion Hnd as [|? ? Hnotin Hnd']; subst.
    destruct (cps_eqb (name_cps (name_of x)) (name_cps (name_of (nth t l d)))) eqn:E.
    + apply cps_eqb_true in E. apply name_cps_inj in E.
      exfalso. apply Hnotin. rewrite E. apply in_map. apply nth_In. lia.
    + rewrite IH by (auto; lia). f_equal. lia.
Qed.

(* ---- attributes: a value's attributes are what compute_attrs builds (declared order, defaults filled) ---- *)
Definition attrs_normal (decls : list attrdecl) (a : attrs) : Prop := compute_attrs decls a = Ok a.

Lemma jget_type_first v l : jget (("type", v) :: l) "type" = Some v.
Proof. reflexivity. Qed.

(* ---- marks ---- *)
Hypothesis mark_names : names_distinct mt_name (s_marks s).

Theorem mark_roundtrip m :
  m_ty m < List.length (s_marks s) -> attrs_normal (mt_attrs (mtype_of s (m_ty m))) (m_attrs m) ->
  mark_from_json s (mark_to_json s m) = Ok m.
Proof.
  intros Ht Ha. unfold mark_to_json, mark_from_json. cbn [jget String.eqb Ascii.eqb Bool.eqb].
  unfold jstr, mtype_of. rewrite (find_name_nth mt_name dummy_mtype _ 0 (m_ty m)) by auto.
  cbn [Nat.add attrs_of_json].
  unfold attrs_normal, mtype_of in Ha. rewrite Ha. destruct m; reflexivity.
Qed.

Lemma res_map_roundtrip {A B} (f : A -> res B) (g : B -> A) (l : list B) :
  (forall x, In x l -> f (g x) = Ok x) -> res_map f (List.map g l) = Ok l.
Proof.
  induction l as [|x l IH]; simpl; intros H; auto.
  rewrite H by auto. simpl. rewrite IH by auto. reflexivity.
Qed.

Definition marks_wf (ms : list mark) : Prop :=
  forall m, In m ms -> m_ty m < List.length (s_marks s) /\ attrs_normal (mt_attrs (mtype_of s (m_ty m))) (m_attrs m).

Lemma marks_roundtrip ms : marks_wf ms ->
  marks_from_json s (match ms with [] => None | _ => Some (JArr (List.map (mark_to_json s) ms)) end) = Ok ms.
Proof.
  intros H. destruct ms as [|m ms]; [reflexivity|].
  cbn [marks_from_json truthy List.map]. apply (res_map_roundtrip (mark_from_json s) (mark_to_json s) (m :: ms)).
  intros x Hx. destruct (H x Hx). apply mark_roundtrip; auto.
Qed.

(* Mark.set_from leaves an already rank-sorted list alone *)
Lemma set_from_sorted ms : sorted_rank ms -> set_from ms = ms.
Proof.
  unfold set_from.
  assert (G : forall l acc, sorted_rank (acc ++ l) -> fold_left (fun a m => insert_sorted m a) l acc = acc ++ l).
  { induction l as [|m l IH]; intros acc H; simpl; [rewrite app_nil_r; auto|].
    rewrite insert_sorted_all_le.
    - rewrite IH; rewrite <- app_assoc; auto.
    - intros y Hy. clear IH. induction acc as [|z acc IHa]; [contradiction|].
      simpl in H. destruct H as [H1 H2]. destruct Hy as [->|Hy].
      + apply H1. apply in_or_app. right. left. auto.
      + apply IHa; auto. }
  intros H. apply (G ms []). exact H.
Qed.

(* ---- nodes ---- *)
Hypothesis node_names : names_distinct nt_name (s_nodes s).
Hypothesis text_name : nt_name (ntype_of s (s_text s)) = "text".
Hypothesis text_in_range : s_text s < List.length (s_nodes s).

Lemma not_text_name ty : ty < List.length (s_nodes s) -> ty <> s_text s ->
  cps_eqb (name_cps (nt_name (ntype_of s ty))) (name_cps "text") = false.
Proof.
  intros Hty Hne. destruct (cps_eqb _ _) eqn:E; auto.
  apply cps_eqb_true in E. apply name_cps_inj in E. rewrite <- text_name in E.
  exfalso. apply Hne. unfold names_distinct in node_names. unfold ntype_of in E.
  assert (G : forall (l : list ntype) i j, NoDup (List.map nt_name l) -> i < List.length l -> j < List.length l ->
            nt_name (nth i l dummy_ntype) = nt_name (nth j l dummy_ntype) -> i = j).
  { induction l as [|x l IH]; intros i j Hnd Hi Hj Heq; simpl in *; [lia|].
    inversion Hnd as [|? ? Hn Hnd']; subst.
    destruct i, j; auto.
    - exfalso. apply Hn. rewrite Heq. apply in_map. apply nth_In. lia.
    - exfalso. apply Hn. rewrite <- Heq. apply in_map. apply nth_In. lia.
    - f_equal. apply IH; auto; lia. }
  eapply G; eauto.
Qed.

Fixpoint height (n : node) : nat :=
  match n with
  | Text _ _ => 0
  | Elem _ _ _ cs => S ((fix go (l : list node) : nat := match l with [] => 0 | c :: r => Nat.max (height c) (go r) end) cs)
  end.
Fixpoint max_height (l : list node) : nat := match l with [] => 0 | c :: r => Nat.max (height c) (max_height r) end.
Lemma height_elem ty a m cs : height (Elem ty a m cs) = S (max_height cs).
Proof. reflexivity. Qed.

(* values the library can build: declared attributes, rank-sorted marks, non-empty text, no text-typed
   element, a node of size-0 content has no children *)
Fixpoint node_wf (n : node) : Prop :=
  match n with
  | Text t ms => t <> [] /\ marks_wf ms /\ sorted_rank ms
  | Elem ty a ms cs =>
    ty < List.length (s_nodes s) /\ ty <> s_text s /\
    attrs_normal (nt_attrs (ntype_of s ty)) a /\ marks_wf ms /\ sorted_rank ms /\
    (frag_size s cs = 0 -> cs = []) /\
    (fix all (l : list node) : Prop := match l with [] => True | c :: r => node_wf c /\ all r end) cs
  end.
Fixpoint nodes_wf (l : list node) : Prop := match l with [] => True | c :: r => node_wf c /\ nodes_wf r end.
Lemma node_wf_elem ty a ms cs :
  node_wf (Elem ty a ms cs) <->
  ty < List.length (s_nodes s) /\ ty <> s_text s /\ attrs_normal (nt_attrs (ntype_of s ty)) a /\ marks_wf ms /\
  sorted_rank ms /\ (frag_size s cs = 0 -> cs = []) /\ nodes_wf cs.
Proof.
  simpl. assert (E : (fix all (l : list node) : Prop := match l with [] => True | c :: r => node_wf c /\ all r end) cs = nodes_wf cs).
  { reflexivity. }
  rewrite E. tauto.
Qed.

Lemma node_to_json_elem ty a ms cs :
  node_to_json s (Elem ty a ms cs) =
  JObj ([("type", jstr (nt_name (ntype_of s ty)))] ++
        (match a with [] => [] | _ => [("attrs", JObj a)] end) ++
        (if frag_size s cs =? 0 then [] else [("content", JArr (List.map (node_to_json s) cs))]) ++
        (match ms with [] => [] | _ => [("marks", JArr (List.map (mark_to_json s) ms))] end)).
Proof.
  reflexivity.
Qed.

Theorem node_roundtrip_fuel : forall n, node_wf n -> forall fuel, height n < fuel ->
  node_from_json_fuel s fuel (node_to_json s n) = Ok n.
Proof.
  fix IH 1. intros [t ms|ty a ms cs] Hwf fuel Hf.
  - destruct Hwf as (Ht & Hm & Hs). destruct fuel as [|fuel]; [lia|].
    cbn [node_to_json node_from_json_fuel].
    destruct ms as [|m ms].
    + cbn. destruct t; [contradiction|reflexivity].
    + cbn [app jget String.eqb Ascii.eqb Bool.eqb].
      pose proof (marks_roundtrip (m :: ms) Hm) as Hr. cbn [marks_from_json truthy] in Hr |- *.
      rewrite Hr. cbn [bind cps_eqb name_cps jstr]. cbn -[set_from].
      rewrite set_from_sorted by auto. destruct t; [contradiction|reflexivity].
  - apply node_wf_elem in Hwf. destruct Hwf as (Hty & Hnt & Ha & Hm & Hs & Hz & Hcs).
    destruct fuel as [|fuel]; [lia|]. rewrite height_elem in Hf.
    rewrite node_to_json_elem. cbn [node_from_json_fuel].
    set (fields := [("type", jstr (nt_name (ntype_of s ty)))] ++ _).
    assert (Hne : fields <> []) by (unfold fields; simpl; discriminate).
    destruct fields as [|f0 frest] eqn:Efields; [contradiction|]. rewrite <- Efields. clear Hne.
    (* field lookups *)
    assert (Jt : jget fields "type" = Some (jstr (nt_name (ntype_of s ty)))) by (subst fields; reflexivity).
    assert (Jm : jget fields "marks" = match ms with [] => None | _ => Some (JArr (List.map (mark_to_json s) ms)) end).
    { subst fields. destruct a; destruct (frag_size s cs =? 0); destruct ms; reflexivity. }
    assert (Ja : jget fields "attrs" = match a with [] => None | _ => Some (JObj a) end).
    { subst fields. destruct a as [|[k v] a']; destruct (frag_size s cs =? 0); destruct ms; reflexivity. }
    assert (Jc : jget fields "content" = if frag_size s cs =? 0 then None else Some (JArr (List.map (node_to_json s) cs))).
    { subst fields. destruct a as [|[k v] a']; destruct (frag_size s cs =? 0); destruct ms; reflexivity. }
    rewrite Efields at 1. rewrite <- Efields.
    rewrite Jm, (marks_roundtrip ms Hm). cbn [bind]. rewrite Jt. unfold jstr at 1.
    rewrite (not_text_name ty Hty Hnt). rewrite Jc.
    (* children *)
    assert (Hkids : (if frag_size s cs =? 0 then Ok []
                     else (fix go (items : list json) : res (list node) :=
                             match items with
                             | [] => Ok []
                             | x :: r => do n <- node_from_json_fuel s fuel x; do ns <- go r; Ok (n :: ns)
                             end) (List.map (node_to_json s) cs)) = Ok cs).
    { destruct (frag_size s cs =? 0) eqn:Ez.
      - apply Nat.eqb_eq in Ez. rewrite (Hz Ez). reflexivity.
      - clear Ez Hz Jc. revert Hcs Hf. clear -IH. induction cs as [|c cs IHcs]; intros Hcs Hf; [reflexivity|].
        simpl in Hcs, Hf. destruct Hcs as [Hc Hcs]. cbn [List.map].
        rewrite (IH c Hc fuel) by lia. cbn [bind]. rewrite IHcs by (auto; lia). reflexivity. }
    destruct (frag_size s cs =? 0) eqn:Ez.
    + cbn [bind]. apply Nat.eqb_eq in Ez. rewrite (Hz Ez) in *.
      unfold ntype_of at 1. rewrite (find_name_nth nt_name dummy_ntype _ 0 ty) by auto. cbn [Nat.add].
      rewrite Ja. unfold attrs_normal in Ha.
      destruct a as [|p a']; cbn [attrs_of_json]; rewrite Ha; cbn [bind]; rewrite set_from_sorted by auto; reflexivity.
    + assert (Hcne : cs <> []) by (intros ->; simpl in Ez; discriminate).
      assert (Htr : truthy (JArr (List.map (node_to_json s) cs)) = true) by (destruct cs; [contradiction|reflexivity]).
      rewrite Htr. rewrite Hkids. cbn [bind].
      unfold ntype_of at 1. rewrite (find_name_nth nt_name dummy_ntype _ 0 ty) by auto. cbn [Nat.add].
      rewrite Ja. unfold attrs_normal in Ha.
      destruct a as [|p a']; cbn [attrs_of_json]; rewrite Ha; cbn [bind]; rewrite set_from_sorted by auto; reflexivity.
Qed.

Lemma jdepth_obj_in l k v : In (k, v) l -> jdepth v < jdepth (JObj l).
Proof.
  cbn [jdepth]. induction l as [|[k' v'] l IH]; intros H; [contradiction|].
  destruct H as [H|H]; [inversion H; subst; lia|]. specialize (IH H). lia.
Qed.

Lemma jdepth_arr_in l x : In x l -> jdepth x < jdepth (JArr l).
Proof.
  cbn [jdepth]. induction l as [|y l IH]; intros H; [contradiction|].
  destruct H as [H|H]; [subst; lia|]. specialize (IH H). lia.
Qed.

Lemma height_le_jdepth : forall n, node_wf n -> height n <= jdepth (node_to_json s n).
Proof.
  fix IH 1. intros [t ms|ty a ms cs] Hwf; [simpl; lia|].
  apply node_wf_elem in Hwf. destruct Hwf as (_ & _ & _ & _ & _ & Hz & Hcs).
  rewrite height_elem, node_to_json_elem.
  destruct (frag_size s cs =? 0) eqn:Ez.
  - apply Nat.eqb_eq in Ez. rewrite (Hz Ez). simpl. lia.
  - set (arr := JArr (List.map (node_to_json s) cs)).
    assert (Harr : jdepth arr < jdepth (JObj ([("type", jstr (nt_name (ntype_of s ty)))] ++
        (match a with [] => [] | _ => [("attrs", JObj a)] end) ++ [("content", arr)] ++
        (match ms with [] => [] | _ => [("marks", JArr (List.map (mark_to_json s) ms))] end)))).
    { apply (jdepth_obj_in _ "content"). apply in_or_app. right. apply in_or_app. right. left. reflexivity. }
    assert (Hmax : max_height cs < jdepth arr \/ cs = []).
    { clear Harr Ez Hz. unfold arr. induction cs as [|c cs IHcs]; [right; auto|]. left.
      simpl in Hcs. destruct Hcs as [Hc Hcs]. specialize (IH c Hc).
      pose proof (jdepth_arr_in (List.map (node_to_json s) (c :: cs)) (node_to_json s c) ltac:(left; auto)) as H1.
      destruct (IHcs Hcs) as [H2|H2].
      - assert (jdepth (JArr (List.map (node_to_json s) cs)) <= jdepth (JArr (List.map (node_to_json s) (c :: cs)))).
        { cbn [jdepth List.map]. lia. }
        simpl max_height. lia.
      - subst cs. simpl max_height. lia. }
    destruct Hmax as [Hmax|Hmax]; [lia|]. subst cs. simpl in Ez. discriminate.
Qed.

(* the wire format of documents is lossless: decoding an encoded node gives back the node itself *)
Theorem node_roundtrip n : node_wf n -> node_from_json s (node_to_json s n) = Ok n.
Proof.
  intros H. unfold node_from_json. apply node_roundtrip_fuel; auto.
  pose proof (height_le_jdepth n H). lia.
Qed.

(* ---- fragments, slices ---- *)
Lemma frag_roundtrip l : nodes_wf l -> frag_from_json s (Some (frag_to_json s l)) = Ok l.
Proof.
  intros H. destruct l as [|c l]; [reflexivity|].
  cbn [frag_to_json frag_from_json truthy List.map].
  apply (res_map_roundtrip (node_from_json s) (node_to_json s) (c :: l)).
  intros x Hx. apply node_roundtrip.
  assert (G : forall l0, nodes_wf l0 -> In x l0 -> node_wf x).
  { induction l0 as [|y l0 IH]; simpl; intros Hw Hi; [contradiction|].
    destruct Hw as [H1 H2]. destruct Hi as [->|Hi]; auto. }
  apply (G (c :: l)); auto.
Qed.

(* slices the library builds: an empty-content slice is the empty slice *)
Definition slice_wf (sl : slice) : Prop :=
  nodes_wf (sl_content sl) /\ (frag_size s (sl_content sl) = 0 -> sl = slice_empty).

Lemma json_nat_jnat n : json_nat (Some (jnat n)) = Ok n.
Proof.
  unfold json_nat, jnat. assert (E : (Z.of_nat n <? 0)%Z = false) by (apply Z.ltb_ge; lia). rewrite E, Nat2Z.id. reflexivity.
Qed.

Lemma json_depth_jnat n : json_depth (JInt (Z.of_nat n)) = Ok n.
Proof.
  unfold json_depth. assert (E : (Z.of_nat n <? 0)%Z = false) by (apply Z.ltb_ge; lia). rewrite E, Nat2Z.id. reflexivity.
Qed.

Lemma open_roundtrip n k rest :
  open_of_json (jget ((if 0 <? n then [(k, JInt (Z.of_nat n))] else []) ++ rest) k) =
  if 0 <? n then Ok n else open_of_json (jget rest k).
Proof.
  destruct (0 <? n) eqn:E; simpl; auto.
  rewrite String.eqb_refl. unfold open_of_json. cbn [truthy].
  assert (E2 : (Z.of_nat n =? 0)%Z = false) by (apply Nat.ltb_lt in E; apply Z.eqb_neq; lia). rewrite E2. cbn [negb].
  apply (json_depth_jnat n).
Qed.

Lemma open_of_json_pos n : 0 <? n = true -> open_of_json (Some (JInt (Z.of_nat n))) = Ok n.
Proof.
  intros E. unfold open_of_json. cbn [truthy].
  assert (E2 : (Z.of_nat n =? 0)%Z = false) by (apply Nat.ltb_lt in E; apply Z.eqb_neq; lia). rewrite E2. cbn [negb].
  apply (json_depth_jnat n).
Qed.

Theorem slice_roundtrip sl : slice_wf sl -> slice_from_json s (Some (slice_to_json s sl)) = Ok sl.
Proof.
  intros [Hn Hz]. unfold slice_to_json.
  destruct (frag_size s (sl_content sl) =? 0) eqn:Ez.
  - apply Nat.eqb_eq in Ez. rewrite (Hz Ez). reflexivity.
  - destruct sl as [c os oe]. cbn [sl_content sl_open_start sl_open_end] in *.
    pose proof (frag_roundtrip c Hn) as Hf.
    destruct (0 <? os) eqn:Eo; destruct (0 <? oe) eqn:Ee;
      cbn [slice_from_json truthy app jget String.eqb Ascii.eqb Bool.eqb];
      rewrite ?(open_of_json_pos os Eo), ?(open_of_json_pos oe Ee); cbn [open_of_json bind];
      rewrite Hf; cbn [bind];
      try (apply Nat.ltb_ge in Eo; assert (os = 0) by lia; subst os);
      try (apply Nat.ltb_ge in Ee; assert (oe = 0) by lia; subst oe); reflexivity.
Qed.

(* ---- steps ---- *)
Lemma N_of_ascii_eqb c d : N.eqb (N_of_ascii c) (N_of_ascii d) = Ascii.eqb c d.
Proof.
  destruct (Ascii.eqb_spec c d) as [->|Hne]; [apply N.eqb_refl|].
  apply N.eqb_neq. intros H. apply Hne. apply N_of_ascii_inj. exact H.
Qed.

Lemma name_eqb a : forall b, cps_eqb (name_cps a) (name_cps b) = String.eqb a b.
Proof.
  unfold name_cps. induction a as [|c a IH]; destruct b as [|d b]; simpl; auto.
  rewrite N_of_ascii_eqb, IH. reflexivity.
Qed.

Lemma ascii_roundtrip a : ascii_string_of_cps (name_cps a) = a.
Proof.
  unfold ascii_string_of_cps, name_cps. rewrite map_map.
  induction a as [|c a IH]; simpl; auto. rewrite ascii_N_embedding. f_equal. exact IH.
Qed.

Definition mark_ok (m : mark) : Prop :=
  m_ty m < List.length (s_marks s) /\ attrs_normal (mt_attrs (mtype_of s (m_ty m))) (m_attrs m).

Definition step_wf (st : step) : Prop :=
  match st with
  | SReplace _ _ sl _ | SReplaceAround _ _ _ _ sl _ _ => slice_wf sl
  | SAddMark _ _ m | SRemoveMark _ _ m | SAddNodeMark _ m | SRemoveNodeMark _ m => mark_ok m
  | SAttr _ _ _ | SDocAttr _ _ => True
  end.

Lemma slice_field_roundtrip sl rest : slice_wf sl ->
  (forall k v, In (k, v) rest -> k <> "slice") ->
  slice_from_json s (jget ((if frag_size s (sl_content sl) =? 0 then [] else [("slice", slice_to_json s sl)]) ++ rest) "slice") = Ok sl.
Proof.
  intros Hw Hrest. destruct (frag_size s (sl_content sl) =? 0) eqn:Ez.
  - simpl. assert (G : jget rest "slice" = None).
    { clear -Hrest. induction rest as [|[k v] rest IH]; simpl; auto.
      destruct (String.eqb_spec k "slice") as [->|Hne].
      - exfalso. eapply Hrest; [left; reflexivity|reflexivity].
      - apply IH. intros k' v' Hin. eapply Hrest. right. exact Hin. }
    rewrite G. destruct Hw as [_ Hz]. apply Nat.eqb_eq in Ez. rewrite (Hz Ez). reflexivity.
  - simpl. apply slice_roundtrip. exact Hw.
Qed.

(* every built-in step type decodes, by its published stepType name, to the step that was encoded *)
Theorem step_roundtrip st : step_wf st -> step_from_json s (step_to_json s st) = Ok st.
Proof.
  destruct st as [f t sl b|f t gf gt sl ins b|f t m|f t m|p m|p m|p a v|a v]; intros Hw; simpl in Hw.
  - unfold step_to_json, step_from_json. cbn [app jget String.eqb Ascii.eqb Bool.eqb jstr]. rewrite !name_eqb. cbn [String.eqb Ascii.eqb Bool.eqb].
    rewrite !json_nat_jnat. cbn [bind].
    rewrite (slice_field_roundtrip sl (if b then [("structure", JBool true)] else [])); auto.
    + cbn [bind]. destruct b; destruct (frag_size s (sl_content sl) =? 0); reflexivity.
    + intros k v Hin. destruct b; simpl in Hin; [destruct Hin as [Hin|[]]; inversion Hin; discriminate|contradiction].
  - unfold step_to_json, step_from_json. cbn [app jget String.eqb Ascii.eqb Bool.eqb jstr]. rewrite !name_eqb. cbn [String.eqb Ascii.eqb Bool.eqb].
    rewrite !json_nat_jnat. cbn [bind].
    rewrite (slice_field_roundtrip sl (if b then [("structure", JBool true)] else [])); auto.
    + cbn [bind]. destruct b; destruct (frag_size s (sl_content sl) =? 0); reflexivity.
    + intros k v Hin. destruct b; simpl in Hin; [destruct Hin as [Hin|[]]; inversion Hin; discriminate|contradiction].
  - destruct Hw as [H1 H2]. unfold step_to_json, step_from_json. cbn [app jget String.eqb Ascii.eqb Bool.eqb jstr]. rewrite !name_eqb. cbn [String.eqb Ascii.eqb Bool.eqb].
    rewrite !json_nat_jnat, mark_roundtrip by auto. reflexivity.
  - destruct Hw as [H1 H2]. unfold step_to_json, step_from_json. cbn [app jget String.eqb Ascii.eqb Bool.eqb jstr]. rewrite !name_eqb. cbn [String.eqb Ascii.eqb Bool.eqb].
    rewrite !json_nat_jnat, mark_roundtrip by auto. reflexivity.
  - destruct Hw as [H1 H2]. unfold step_to_json, step_from_json. cbn [app jget String.eqb Ascii.eqb Bool.eqb jstr]. rewrite !name_eqb. cbn [String.eqb Ascii.eqb Bool.eqb].
    rewrite !json_nat_jnat, mark_roundtrip by auto. reflexivity.
  - destruct Hw as [H1 H2]. unfold step_to_json, step_from_json. cbn [app jget String.eqb Ascii.eqb Bool.eqb jstr]. rewrite !name_eqb. cbn [String.eqb Ascii.eqb Bool.eqb].
    rewrite !json_nat_jnat, mark_roundtrip by auto. reflexivity.
  - unfold step_to_json, step_from_json. cbn [app jget String.eqb Ascii.eqb Bool.eqb jstr]. rewrite !name_eqb. cbn [String.eqb Ascii.eqb Bool.eqb].
    rewrite !json_nat_jnat. cbn [bind]. rewrite ascii_roundtrip. reflexivity.
  - unfold step_to_json, step_from_json. cbn [app jget String.eqb Ascii.eqb Bool.eqb jstr]. rewrite !name_eqb. cbn [String.eqb Ascii.eqb Bool.eqb].
    rewrite ascii_roundtrip. reflexivity.
Qed.

End WithSchema.
