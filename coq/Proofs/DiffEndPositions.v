(* find_diff_end reports the true last difference (C20): for fragments in normal form whose text has no lone
   surrogate code points, the pair of positions it reports is (pos_a - k, pos_b - k) where k is the length of the
   longest common SUFFIX of the two markup-annotated token sequences (Spec/DiffSpec.v). *)
From Coq Require Import ZArith NArith List Bool Arith Lia.
From PM Require Import Model.Data Model.Mark Model.Tree Spec.Tokens Spec.DiffSpec Model.Diff
  Proofs.DataProofs Proofs.NodeInd Proofs.DiffProofs Proofs.TokenBasics Proofs.ReplaceTokens Proofs.TokenInj Proofs.ReplaceCanon
  Proofs.DiffPositions Proofs.DiffEnd.
Import ListNotations.
Local Open Scope nat_scope.

Section WithSchema.
Variable s : schema.
Notation nsize := (node_size s).
Notation fsize := (frag_size s).
Notation atoks := (atoks s).
Notation aftoks := (aftoks s).
Notation canon := (canon s).
Notation canon_list := (canon_list s).
Notation deg := (diff_end_go s never).
Notation nde := (node_diff_end s never).

(* the token sequence of a mirrored tree read backwards: close tokens first, text from its last unit *)
Fixpoint rtoks (n : node) : list atok :=
  match n with
  | Text t m => achars m (rev (units t))
  | Elem ty a m cs =>
    if is_leaf_ty s ty then [ALeaf ty a m]
    else AClose ty a m :: (fix go (l : list node) : list atok := match l with [] => [] | c :: r => rtoks c ++ go r end) cs
         ++ [AOpen ty a m]
  end.
Fixpoint rftoks (l : list node) : list atok := match l with [] => [] | c :: r => rtoks c ++ rftoks r end.
Lemma rtoks_elem ty a m cs :
  rtoks (Elem ty a m cs) = if is_leaf_ty s ty then [ALeaf ty a m] else AClose ty a m :: rftoks cs ++ [AOpen ty a m].
Proof. cbn [rtoks]. destruct (is_leaf_ty s ty); reflexivity. Qed.
Lemma rftoks_app a b : rftoks (a ++ b) = rftoks a ++ rftoks b.
Proof. induction a as [|x a IH]; [reflexivity|]. cbn [app rftoks]. rewrite IH, app_assoc. reflexivity. Qed.

(* it is the reversed token sequence of the original tree *)
Lemma rtoks_rev_node : forall n, rtoks (rev_node n) = rev (atoks n).
Proof.
  induction n as [t m|ty a m cs IH] using node_ind2.
  - cbn [rev_node rtoks DiffSpec.atoks]. unfold achars. rewrite map_rev. reflexivity.
  - rewrite rev_node_elem, rtoks_elem, aftoks_elem. destruct (is_leaf_ty s ty); [reflexivity|].
    cbn [rev]. rewrite rev_app_distr. cbn [rev app]. f_equal. f_equal.
    induction cs as [|c cs IHcs]; [reflexivity|]. cbn [rev_frag DiffSpec.aftoks]. rewrite rftoks_app, rev_app_distr. cbn [rftoks].
    rewrite app_nil_r, (IH c (or_introl eq_refl)), IHcs by (intros x Hx; apply IH; right; exact Hx). reflexivity.
Qed.
Lemma rftoks_rev_frag l : rftoks (rev_frag l) = rev (aftoks l).
Proof.
  induction l as [|c l IH]; [reflexivity|]. cbn [rev_frag DiffSpec.aftoks]. rewrite rftoks_app, rev_app_distr. cbn [rftoks].
  rewrite app_nil_r, rtoks_rev_node, IH. reflexivity.
Qed.

Lemma rtoks_length : forall n, length (rtoks n) = nsize n.
Proof.
  intros n. rewrite <- (rev_node_invol n) at 1. rewrite rtoks_rev_node, rev_length, atoks_length. apply rev_node_size.
Qed.

(* the first backward token of a node in normal form is never an open token *)
Lemma first_rtok n : canon n = true -> exists t r, rtoks n = t :: r /\ match t with AOpen _ _ _ => False | _ => True end.
Proof.
  destruct n as [t m|ty a m cs]; intros H.
  - cbn [rtoks]. assert (Hu : rev (units t) <> []).
    { destruct t as [|c t]; [discriminate|]. intros E. apply (f_equal (@length unit16)) in E. rewrite rev_length in E.
      cbn [units] in E. destruct (N.leb 65536 c); cbn in E; lia. }
    destruct (rev (units t)) as [|u U]; [contradiction|]. cbn [achars List.map]. eexists _, _. split; [reflexivity|exact I].
  - rewrite rtoks_elem. destruct (is_leaf_ty s ty); eexists _, _; (split; [reflexivity|exact I]).
Qed.

Lemma rev_units_nonempty t : t <> [] -> exists u U, rev (units t) = u :: U.
Proof.
  intros Ht. destruct (rev (units t)) as [|u U] eqn:E; [|eauto]. exfalso.
  apply (f_equal (@length unit16)) in E. rewrite rev_length in E. destruct t as [|c t]; [contradiction|].
  cbn [units] in E. destruct (N.leb 65536 c); cbn in E; lia.
Qed.

Lemma lcp_diff_markup_r x y Rx Ry : canon x = true -> canon y = true -> same_markup x y = false ->
  lcp (rtoks x ++ Rx) (rtoks y ++ Ry) = 0.
Proof.
  intros Cx Cy Hm. destruct x as [t m|ty a mk cs]; destruct y as [t' m'|ty' a' mk' cs'].
  - cbn [same_markup] in Hm. cbn [rtoks].
    destruct (rev_units_nonempty t) as (u & U & ->); [destruct t; [discriminate|congruence]|].
    destruct (rev_units_nonempty t') as (u' & U' & ->); [destruct t'; [discriminate|congruence]|].
    cbn [achars List.map app lcp atok_eqb]. rewrite Hm, andb_false_r. reflexivity.
  - rewrite rtoks_elem. cbn [rtoks]. destruct (rev_units_nonempty t) as (u & U & ->); [destruct t; [discriminate|congruence]|].
    destruct (is_leaf_ty s ty'); reflexivity.
  - rewrite rtoks_elem. cbn [rtoks]. destruct (rev_units_nonempty t') as (u & U & ->); [destruct t'; [discriminate|congruence]|].
    destruct (is_leaf_ty s ty); reflexivity.
  - cbn [same_markup] in Hm. rewrite !rtoks_elem.
    destruct (is_leaf_ty s ty) eqn:L1; destruct (is_leaf_ty s ty') eqn:L2; cbn [app lcp atok_eqb]; try reflexivity; rewrite Hm; reflexivity.
Qed.

(* ------------------------------------------------------------------ the scan *)
Definition TermE (R : list atok) : Prop := match R with [] => True | AOpen _ _ _ :: _ => True | _ => False end.
Lemma TermE_NoChar m R : TermE R -> NoChar m R.
Proof. destruct R as [|[| | |]]; cbn; auto; contradiction. Qed.

Lemma NoChar_after_r t m r R m' : canon_list (Text t m :: r) = true -> TermE R -> marks_eqb m m' = true ->
  NoChar m' (rftoks r ++ R).
Proof.
  intros Hc HT Hm. destruct r as [|[t2 m2|ty2 a2 mk2 cs2] r'].
  - cbn [rftoks app]. apply TermE_NoChar. exact HT.
  - apply (CL_cons2 s) in Hc. destruct Hc as (_ & Hs & Hr). cbn [seam] in Hs.
    assert (Ht2 : CN s (Text t2 m2)) by (eapply CL_head; exact Hr). unfold CN in Ht2. cbn in Ht2.
    cbn [rftoks rtoks]. destruct (rev_units_nonempty t2) as (u & U & ->); [destruct t2; [discriminate|congruence]|].
    destruct (marks_eqb m2 m') eqn:E.
    + exfalso. rewrite marks_eqb_sym in E. rewrite (marks_eqb_trans _ _ _ Hm E) in Hs. discriminate.
    + cbn. exact E.
  - cbn [rftoks]. rewrite rtoks_elem. destruct (is_leaf_ty s ty2); exact I.
Qed.

Definition NodeSpecE (x : node) : Prop :=
  forall y pa pb Rx Ry, same_markup x y = true -> canon x = true -> canon y = true -> ok_node x = true -> ok_node y = true ->
    (forall t m, x = Text t m -> forall m', marks_eqb m m' = true -> NoChar m' Rx) ->
    (forall t m, y = Text t m -> forall m', marks_eqb m' m = true -> NoChar m' Ry) ->
    match nde x y pa pb with
    | Some (qa, qb) => let k := lcp (rtoks x ++ Rx) (rtoks y ++ Ry) in qa = pa - k /\ qb = pb - k
    | None => alleq (rtoks x) (rtoks y) = true
    end.

Lemma alleq_length : forall a b, alleq a b = true -> length a = length b.
Proof.
  induction a as [|x a IH]; intros [|y b] H; try discriminate; [reflexivity|]. cbn [alleq] in H. apply andb_prop in H.
  cbn [length]. f_equal. apply IH. tauto.
Qed.

Lemma list_spec_e : forall a, (forall x, In x a -> NodeSpecE x) ->
  forall b pa pb Ra Rb, canon_list a = true -> canon_list b = true -> ok_list a = true -> ok_list b = true ->
    TermE Ra -> TermE Rb ->
    match deg a b pa pb with
    | Some (qa, qb) => let k := lcp (rftoks a ++ Ra) (rftoks b ++ Rb) in qa = pa - k /\ qb = pb - k
    | None => alleq (rftoks a) (rftoks b) = true
    end.
Proof.
  induction a as [|x a IH]; intros Ha b pa pb Ra Rb Ca Cb Oa Ob Ta Tb.
  - destruct b as [|y b]; cbn [diff_end_go]; [reflexivity|]. cbv zeta.
    destruct (canon_list_cons s _ _ Cb) as (Cy & _). destruct (first_rtok y Cy) as (t & r & E & Ht).
    cbn [rftoks app]. rewrite E. cbn [app].
    assert (Hk : lcp Ra (t :: (r ++ rftoks b) ++ Rb) = 0).
    { destruct Ra as [|ra Ra']; [reflexivity|]. cbn [lcp]. destruct ra; try contradiction. destruct t; try contradiction; reflexivity. }
    rewrite Hk, !Nat.sub_0_r. auto.
  - destruct (canon_list_cons s _ _ Ca) as (Cx & Ca').
    destruct b as [|y b]; cbn [diff_end_go].
    { cbv zeta. destruct (first_rtok x Cx) as (t & r & E & Ht).
      cbn [rftoks app]. rewrite E. cbn [app].
      assert (Hk : lcp (t :: (r ++ rftoks a) ++ Ra) Rb = 0).
      { destruct Rb as [|rb Rb']; [destruct t; reflexivity|]. cbn [lcp]. destruct rb; try contradiction. destruct t; try contradiction; reflexivity. }
      rewrite Hk, !Nat.sub_0_r. auto. }
    destruct (canon_list_cons s _ _ Cb) as (Cy & Cb').
    cbn [ok_list] in Oa, Ob. apply andb_prop in Oa, Ob. destruct Oa as [Ox Oa']. destruct Ob as [Oy Ob'].
    rewrite never_false. cbn [rftoks]. rewrite <- !app_assoc.
    destruct (same_markup x y) eqn:Em; cbn [negb].
    + assert (Hx := Ha x (or_introl eq_refl) y pa pb (rftoks a ++ Ra) (rftoks b ++ Rb) Em Cx Cy Ox Oy).
      assert (N1 : forall t m, x = Text t m -> forall m', marks_eqb m m' = true -> NoChar m' (rftoks a ++ Ra)).
      { intros t m -> m' Hm. eapply NoChar_after_r; eauto. }
      assert (N2 : forall t m, y = Text t m -> forall m', marks_eqb m' m = true -> NoChar m' (rftoks b ++ Rb)).
      { intros t m -> m' Hm. eapply NoChar_after_r; eauto. rewrite marks_eqb_sym. exact Hm. }
      specialize (Hx N1 N2). destruct (nde x y pa pb) as [[qa qb]|] eqn:En; [exact Hx|].
      assert (IHa := IH (fun z Hz => Ha z (or_intror Hz)) b (pa - nsize x) (pb - nsize x) Ra Rb Ca' Cb' Oa' Ob' Ta Tb).
      rewrite (lcp_alleq _ _ _ _ Hx), rtoks_length.
      destruct (deg a b (pa - nsize x) (pb - nsize x)) as [[qa qb]|].
      * cbv zeta in IHa |- *. destruct IHa as (H1 & H2). split; lia.
      * apply alleq_app; assumption.
    + cbv zeta. rewrite (lcp_diff_markup_r x y _ _ Cx Cy Em), !Nat.sub_0_r. auto.
Qed.

Lemma rev_vals_neq t t' : ok_text t = true -> ok_text t' = true -> cps_eqb t t' = false ->
  List.map unit_val (rev (units t)) <> List.map unit_val (rev (units t')).
Proof.
  intros O1 O2 Hne Hv. rewrite !map_rev in Hv. apply (f_equal (@rev N)) in Hv. rewrite !rev_involutive in Hv.
  pose proof (vals_inj t t' O1 O2 Hv) as E. subst t'. rewrite cps_eqb_refl in Hne. discriminate.
Qed.

Theorem node_spec_e : forall x, NodeSpecE x.
Proof.
  induction x as [t m|ty a m cs IH] using node_ind2; intros y pa pb Rx Ry Em Cx Cy Ox Oy N1 N2.
  - destruct y as [t' m'|]; [|discriminate]. cbn [same_markup] in Em. cbn [node_diff_end rtoks].
    destruct (cps_eqb t t') eqn:Et.
    + apply cps_eqb_eq in Et. subst t'. apply alleq_achars. exact Em.
    + cbv zeta. cbn [ok_node] in Ox, Oy.
      rewrite (lcp_achars m m' Em (rev (units t)) (rev (units t')) Rx Ry (N1 t m eq_refl m' Em) (N2 t' m' eq_refl m Em)
                 (rev_vals_neq t t' Ox Oy Et)). auto.
  - destruct y as [|ty' a' m' cs']; [discriminate|]. rewrite nde_elem.
    cbn [same_markup] in Em. apply andb_prop in Em. destruct Em as [Em Emm]. apply andb_prop in Em. destruct Em as [Et Ea].
    apply Nat.eqb_eq in Et. subst ty'.
    rewrite canon_elem in Cx, Cy. apply andb_prop in Cx, Cy. destruct Cx as [Lx Cx]. destruct Cy as [Ly Cy].
    rewrite ok_node_elem in Ox, Oy. rewrite !rtoks_elem.
    destruct (is_leaf_ty s ty) eqn:El.
    + destruct cs; [|discriminate]. destruct cs'; [|discriminate]. cbn. rewrite Nat.eqb_refl, Ea, Emm. reflexivity.
    + destruct ((fsize cs =? 0) && (fsize cs' =? 0)) eqn:Ez.
      * apply andb_prop in Ez. destruct Ez as [E1 E2]. apply Nat.eqb_eq in E1, E2.
        assert (Hnil : forall l, canon_list l = true -> fsize l = 0 -> l = []).
        { intros [|c l] Hc Hs; [reflexivity|]. exfalso. destruct (canon_list_cons s _ _ Hc) as (Hcc & _).
          pose proof (CN_size_pos s c Hcc). cbn [frag_size] in Hs. lia. }
        rewrite (Hnil cs Cx E1), (Hnil cs' Cy E2). cbn. rewrite Nat.eqb_refl, Ea, Emm. reflexivity.
      * assert (HL := list_spec_e cs IH cs' (pa - 1) (pb - 1) (AOpen ty a m :: Rx) (AOpen ty a' m' :: Ry) Cx Cy Ox Oy I I).
        cbn [app lcp atok_eqb]. rewrite Nat.eqb_refl, Ea, Emm. cbn [andb]. rewrite <- !app_assoc. cbn [app].
        destruct (deg cs cs' (pa - 1) (pb - 1)) as [[qa qb]|].
        -- cbv zeta in HL |- *. destruct HL as (H1 & H2). split; lia.
        -- cbn [alleq atok_eqb]. rewrite Nat.eqb_refl, Ea, Emm. cbn [andb]. apply alleq_app; [exact HL|].
           cbn. rewrite Nat.eqb_refl, Ea, Emm. reflexivity.
Qed.

(* the theorem: the reported pair is the given pair of end positions minus the length of the common token suffix *)
Theorem find_diff_end_position (o : node -> node -> bool) (Ho : sound_oracle o) a b pa pb qa qb :
  canon_list a = true -> canon_list b = true -> ok_list a = true -> ok_list b = true ->
  find_diff_end s o a b pa pb = Some (qa, qb) ->
  let k := lcp (rev (aftoks a)) (rev (aftoks b)) in qa = pa - k /\ qb = pb - k.
Proof.
  intros Ca Cb Oa Ob H. rewrite (diff_end_oracle_irrelevant s o Ho) in H. unfold find_diff_end in H.
  pose proof (list_spec_e (rev_frag a) (fun x _ => node_spec_e x) (rev_frag b) pa pb [] []
                (rev_frag_canon s a Ca) (rev_frag_canon s b Cb)) as HL.
  rewrite !rev_frag_ok in HL. specialize (HL Oa Ob I I). rewrite H in HL.
  rewrite !app_nil_r, !rftoks_rev_frag in HL. exact HL.
Qed.

End WithSchema.
