(* Node.replace never takes an internal-error branch (C01 / C02: "never dies with an internal error"; a refused
   replace raises the replace error).  The model returns [Err ErrInternal] wherever the Python code would raise
   IndexError / AttributeError / AssertionError (a path accessed beyond its depth, a missing child, exhausted fuel);
   this file proves that, for an element document, none of those branches is reachable from Node.replace: whatever
   the positions and the slice, the result is a document, [ErrReplace] (ReplaceError) or [ErrValue] (ValueError:
   position out of range, a surrogate pair cut in two). *)
From Coq Require Import ZArith NArith List Bool Arith Lia.
From PM Require Import Model.Data Model.Mark Model.Tree Spec.Tokens Proofs.DataProofs Proofs.NodeInd
  Proofs.ReplaceValid Proofs.SliceSides Proofs.TokenBasics Proofs.SliceCut.
Import ListNotations.
Local Open Scope nat_scope.

(* the only errors allowed: ReplaceError and the ValueError family *)
Definition NI {A} (r : res A) : Prop := forall e, r = Err e -> e = ErrReplace \/ e = ErrValue.
Lemma NI_ok {A} (x : A) : NI (Ok x). Proof. intros e H. discriminate. Qed.
Lemma NI_bind {A B} (x : res A) (f : A -> res B) : NI x -> (forall v, x = Ok v -> NI (f v)) -> NI (do v <- x; f v).
Proof. intros Hx Hf. destruct x as [v|e]; cbn [bind]; [apply Hf; reflexivity|]. intros e' E. inversion E; subst. apply Hx. reflexivity. Qed.
Lemma NI_err {A} e : e = ErrReplace \/ e = ErrValue -> NI (@Err A e).
Proof. intros H e' E. inversion E; subst. exact H. Qed.
Ltac ni_err := apply NI_err; auto.
Lemma NI_cast {A B} e : NI (@Err A e) -> NI (@Err B e).
Proof. intros H e' E. inversion E; subst. apply (H e' eq_refl). Qed.
Lemma NI_not_internal {A} (r : res A) : NI r -> r <> Err ErrInternal.
Proof. intros H E. destruct (H _ E); discriminate. Qed.

Section WithSchema.
Variable s : schema.
Notation nsize := (node_size s).
Notation fsize := (frag_size s).

(* ------------------------------------------------------------------ cuts *)
Lemma text_cut_NI t m from to : NI (text_cut t m from to).
Proof.
  unfold text_cut. destruct ((from =? 0) && (to =? text_length t)); [apply NI_ok|].
  unfold cut_text. destruct (decode _) as [x|]; cbn [bind]; [|ni_err]. destruct x; [ni_err|apply NI_ok].
Qed.

Lemma node_cut_NI : forall n from to, to <= fsize (node_content n) \/ node_is_text n = true -> NI (node_cut s n from to).
Proof.
  induction n as [t m|ty a m cs IH] using node_ind2; intros from to Hto; [apply text_cut_NI|].
  destruct Hto as [Hto|Hto]; [|discriminate]. cbn [node_content] in Hto.
  cbn [node_cut]. destruct ((from =? 0) && (to =? fsize cs)); [apply NI_ok|]. destruct (to <=? from); [apply NI_ok|].
  apply NI_bind; [|intros; apply NI_ok].
  assert (G : forall l pos, (forall c, In c l -> In c cs) -> to <= pos + fsize l ->
    NI ((fix go (l : list node) (pos : nat) {struct l} : res (list node) :=
          if pos <? to then
            match l with
            | [] => Err ErrInternal
            | c :: r =>
              let e := pos + nsize c in
              if from <? e then
                do c' <- (if (pos <? from) || (to <? e) then
                            match c with
                            | Text t' m' => text_cut t' m' (from - pos) (Nat.min (text_length t') (to - pos))
                            | Elem _ _ _ cc => node_cut s c (from - pos - 1) (Nat.min (fsize cc) (to - pos - 1))
                            end
                          else Ok c);
                do rest <- go r e;
                Ok (c' :: rest)
              else go r e
            end
          else Ok []) l pos)).
  { induction l as [|c r IHl]; intros pos Hin Hle.
    - cbn [frag_size] in Hle. destruct (pos <? to) eqn:E; [apply Nat.ltb_lt in E; lia|apply NI_ok].
    - destruct (pos <? to) eqn:E; [|apply NI_ok]. cbv zeta. cbn [frag_size] in Hle.
      assert (Hr : NI ((fix go (l : list node) (pos : nat) {struct l} : res (list node) :=
          if pos <? to then
            match l with
            | [] => Err ErrInternal
            | c :: r =>
              let e := pos + nsize c in
              if from <? e then
                do c' <- (if (pos <? from) || (to <? e) then
                            match c with
                            | Text t' m' => text_cut t' m' (from - pos) (Nat.min (text_length t') (to - pos))
                            | Elem _ _ _ cc => node_cut s c (from - pos - 1) (Nat.min (fsize cc) (to - pos - 1))
                            end
                          else Ok c);
                do rest <- go r e;
                Ok (c' :: rest)
              else go r e
            end
          else Ok []) r (pos + nsize c))).
      { apply IHl; [intros x Hx; apply Hin; right; exact Hx|lia]. }
      destruct (from <? pos + nsize c); [|exact Hr].
      apply NI_bind.
      + destruct ((pos <? from) || (to <? pos + nsize c)); [|apply NI_ok].
        destruct c as [t' m'|ty' a' m' cc]; [apply text_cut_NI|].
        apply (IH (Elem ty' a' m' cc)); [apply Hin; left; reflexivity|]. left. cbn [node_content]. apply Nat.le_min_l.
      + intros v _. apply NI_bind; [exact Hr|intros; apply NI_ok]. }
  apply G; [auto|lia].
Qed.

Lemma frag_cut_go_NI : forall l pos from to, to <= pos + fsize l -> NI (frag_cut_go s l pos from to).
Proof.
  induction l as [|c r IH]; intros pos from to Hle; cbn [frag_cut_go].
  - cbn [frag_size] in Hle. destruct (pos <? to) eqn:E; [apply Nat.ltb_lt in E; lia|apply NI_ok].
  - destruct (pos <? to) eqn:E; [|apply NI_ok]. cbv zeta. cbn [frag_size] in Hle.
    assert (Hr : NI (frag_cut_go s r (pos + nsize c) from to)) by (apply IH; lia).
    destruct (from <? pos + nsize c); [|exact Hr].
    apply NI_bind.
    + destruct ((pos <? from) || (to <? pos + nsize c)); [|apply NI_ok].
      destruct c as [t' m'|ty' a' m' cc]; [apply text_cut_NI|].
      apply node_cut_NI. left. cbn [node_content]. apply Nat.le_min_l.
    + intros v _. apply NI_bind; [exact Hr|intros; apply NI_ok].
Qed.
Lemma frag_cut_NI l from to : to <= fsize l -> NI (frag_cut s l from to).
Proof.
  intros H. unfold frag_cut. destruct ((from =? 0) && (to =? fsize l)); [apply NI_ok|]. destruct (to <=? from); [apply NI_ok|].
  apply frag_cut_go_NI. lia.
Qed.

(* ------------------------------------------------------------------ resolve *)
Lemma rwalk_NI n po start :
  forall l i cur, (forall c, In c l -> forall ty a m cs, c = Elem ty a m cs -> forall po' st', NI (resolve_in s c po' st')) ->
  NI (rwalk s n po start l i cur).
Proof.
  induction l as [|c r IH]; intros i cur Hc; cbn [rwalk]; [ni_err|]. cbv zeta.
  destruct (cur + nsize c =? po); [apply NI_ok|]. destruct (po <? cur + nsize c).
  - destruct c as [t m|ty a m cs]; [apply NI_ok|]. apply NI_bind; [|intros; apply NI_ok].
    eapply Hc; [left; reflexivity|reflexivity].
  - apply IH. intros x Hx. apply Hc. right. exact Hx.
Qed.

Lemma resolve_in_NI : forall n, is_elem n -> forall po start, NI (resolve_in s n po start).
Proof.
  induction n as [t m|ty a m cs IH] using node_ind2; intros He po start; [destruct He as (? & ? & ? & ? & E); discriminate|].
  rewrite resolve_in_unfold. destruct (po =? 0); [apply NI_ok|].
  apply rwalk_NI.
  intros c Hc ty' a' m' cs' -> po' st'. apply (IH _ Hc). unfold is_elem. eauto.
Qed.

Lemma resolve_NI doc pos : is_elem doc -> NI (resolve s doc pos).
Proof.
  intros He. unfold resolve. destruct (fsize (node_content doc) <? pos); [ni_err|].
  apply NI_bind; [apply resolve_in_NI; exact He|intros; apply NI_ok].
Qed.

(* ------------------------------------------------------------------ well-formed paths *)
Fixpoint WPath (p : list (node * nat * nat)) : Prop :=
  match p with
  | [] => False
  | (n, i, _) :: rest =>
    is_elem n /\
    match rest with
    | [] => i <= length (node_content n)
    | (c, _, _) :: _ => child_at n i = Some c /\ WPath rest
    end
  end.

Lemma WPath_nth : forall p d, WPath p -> d < length p ->
  exists n i o, nth_error p d = Some (n, i, o) /\ is_elem n /\ i <= length (node_content n) /\
    (S d < length p -> exists c i' o', nth_error p (S d) = Some (c, i', o') /\ child_at n i = Some c).
Proof.
  induction p as [|[[n i] o] rest IH]; intros d H Hd; [destruct H|].
  cbn [WPath] in H. destruct H as (He & Hrest).
  destruct d as [|d].
  - exists n, i, o. split; [reflexivity|]. split; [exact He|].
    destruct rest as [|[[c i'] o'] rest']; [split; [exact Hrest|cbn [length]; lia]|].
    destruct Hrest as (Hc & _). split.
    + unfold child_at in Hc. assert (i < length (node_content n)) by (apply nth_error_Some; rewrite Hc; discriminate). lia.
    + intros _. exists c, i', o'. auto.
  - destruct rest as [|[[c i'] o'] rest']; [cbn [length] in Hd; lia|]. destruct Hrest as (_ & Hw).
    cbn [length] in Hd. destruct (IH d Hw ltac:(cbn [length]; lia)) as (n2 & i2 & o2 & H1 & H2 & H3 & H4).
    exists n2, i2, o2. split; [exact H1|]. split; [exact H2|]. split; [exact H3|].
    intros Hs. apply H4. cbn [length] in *. lia.
Qed.

Lemma WPath_cons n i o c i' o' rest :
  is_elem n -> child_at n i = Some c -> WPath ((c, i', o') :: rest) -> WPath ((n, i, o) :: (c, i', o') :: rest).
Proof. intros He Hc Hw. cbn [WPath]. cbn [WPath] in Hw. tauto. Qed.

Lemma resolve_in_WPath : forall n, is_elem n -> forall po start p po',
  resolve_in s n po start = Ok (p, po') -> po <= fsize (node_content n) ->
  WPath p /\ exists nl il ol, nth_error p (length p - 1) = Some (nl, il, ol) /\ po' <= fsize (node_content nl) /\
            exists i0 o0, nth_error p 0 = Some (n, i0, o0).
Proof.
  induction n as [t m|ty a m cs IH] using node_ind2; intros He po start p po' H Hpo; [destruct He as (? & ? & ? & ? & E); discriminate|].
  cbn [node_content] in Hpo.
  destruct (resolve_in_cases s _ _ _ _ _ _ _ _ H) as
    [(i & -> & -> & Hi & _)|(i & ty1 & a1 & m1 & cs1 & rest & Hn & Hl & Hp & Hr & ->)].
  - split; [cbn [WPath node_content]; split; [exact He|exact Hi]|].
    eexists _, _, _. cbn [length Nat.sub nth_error]. split; [reflexivity|]. split; [exact Hpo|]. eauto.
  - assert (Hin : In (Elem ty1 a1 m1 cs1) cs) by (eapply nth_error_In; exact Hn).
    assert (He1 : is_elem (Elem ty1 a1 m1 cs1)) by (unfold is_elem; eauto).
    pose proof (node_size_elem s ty1 a1 m1 cs1) as Hs. rewrite Hl in Hs.
    destruct (IH _ Hin He1 _ _ _ _ Hr ltac:(cbn [node_content]; lia)) as (Hw & nl & il & ol & Hlast & Hpo' & i0 & o0 & H0).
    destruct rest as [|[[c i'] o'] rest']; [destruct Hw|]. cbn [nth_error] in H0. inversion H0; subst c i' o'.
    split.
    + apply WPath_cons; [exact He|exact Hn|exact Hw].
    + exists nl, il, ol. split; [|split; [exact Hpo'|cbn [nth_error]; eauto]].
      cbn [length] in *. replace (S (S (length rest')) - 1) with (S (S (length rest') - 1)) by lia. cbn [nth_error]. exact Hlast.
Qed.

(* a resolved position *)
Definition WP (r : rpos) : Prop :=
  WPath (rp_path r) /\
  (rp_text_offset r <> 0 -> exists n i o t m, path_at r (rp_depth r) = Some (n, i, o) /\ child_at n i = Some (Text t m)) /\
  (exists parent, rp_parent r = Ok parent /\ rp_parent_offset r <= fsize (node_content parent)).

Lemma resolve_WP doc pos r : is_elem doc -> resolve s doc pos = Ok r -> WP r /\ rp_pos r = pos.
Proof.
  intros He H. pose proof (resolve_spec s _ _ _ H) as (Hpos & _ & Hta & _ & _).
  unfold resolve in H. destruct (fsize (node_content doc) <? pos) eqn:E; [discriminate|]. apply Nat.ltb_ge in E.
  destruct (resolve_in s doc pos 0) as [[p po]|] eqn:Er; [|discriminate]. cbn [bind fst snd] in H. inversion H; subst r.
  destruct (resolve_in_WPath doc He _ _ _ _ Er E) as (Hw & nl & il & ol & Hlast & Hpo & _).
  split; [|reflexivity]. split; [exact Hw|]. split; [exact Hta|].
  exists nl. split; [|exact Hpo]. unfold rp_parent, rp_node, path_at, rp_depth. cbn [rp_path rp_parent_offset]. rewrite Hlast. reflexivity.
Qed.

Lemma WP_depth r : WP r -> rp_depth r < length (rp_path r).
Proof. intros (Hw & _). unfold rp_depth. destruct (rp_path r); [destruct Hw|cbn [length]; lia]. Qed.

Lemma WP_at r d : WP r -> d <= rp_depth r ->
  exists n i o, path_at r d = Some (n, i, o) /\ is_elem n /\ i <= length (node_content n) /\
    rp_node r d = Ok n /\ rp_index r d = Ok i /\ rp_offset r d = Ok o /\
    (d < rp_depth r -> exists c, child_at n i = Some c /\ rp_node r (S d) = Ok c).
Proof.
  intros Hwp Hd. pose proof (WP_depth r Hwp) as Hl. destruct Hwp as (Hw & _).
  destruct (WPath_nth _ d Hw ltac:(lia)) as (n & i & o & H1 & H2 & H3 & H4).
  exists n, i, o. unfold path_at, rp_node, rp_index, rp_offset, path_at. rewrite H1. repeat split; auto.
  intros Hlt. destruct (H4 ltac:(unfold rp_depth in *; lia)) as (c & i' & o' & Hn & Hc). exists c. rewrite Hn. auto.
Qed.

Lemma rp_node_NI r d : WP r -> d <= rp_depth r -> NI (rp_node r d).
Proof. intros H Hd. destruct (WP_at r d H Hd) as (n & i & o & _ & _ & _ & E & _). rewrite E. apply NI_ok. Qed.
Lemma rp_index_NI r d : WP r -> d <= rp_depth r -> NI (rp_index r d).
Proof. intros H Hd. destruct (WP_at r d H Hd) as (n & i & o & _ & _ & _ & _ & E & _). rewrite E. apply NI_ok. Qed.


(* ------------------------------------------------------------------ the nodes next to a position *)
Lemma rp_parent_at r : WP r -> exists n i o, path_at r (rp_depth r) = Some (n, i, o) /\ rp_parent r = Ok n /\
  rp_index r (rp_depth r) = Ok i /\ i <= length (node_content n).
Proof.
  intros H. destruct (WP_at r (rp_depth r) H (le_n _)) as (n & i & o & H1 & _ & H3 & H4 & H5 & _).
  exists n, i, o. unfold rp_parent. auto.
Qed.

Lemma rp_node_after_spec r : WP r ->
  NI (rp_node_after s r) /\ (rp_text_offset r <> 0 -> forall x, rp_node_after s r = Ok x -> x <> None).
Proof.
  intros H. destruct (rp_parent_at r H) as (n & i & o & Hp & Epar & Eidx & Hi).
  unfold rp_node_after. rewrite Epar, Eidx. cbn [bind].
  destruct (child_at n i) as [child|] eqn:Ec.
  - destruct (rp_text_offset r =? 0) eqn:E0.
    + split; [apply NI_ok|]. intros Hne. apply Nat.eqb_eq in E0. contradiction.
    + destruct child as [t m|ty a m cc].
      * split; [apply NI_bind; [apply text_cut_NI|intros; apply NI_ok]|].
        intros _ x Hx. destruct (text_cut t m _ _); cbn [bind] in Hx; inversion Hx; discriminate.
      * split; [apply NI_bind; [apply node_cut_NI; left; cbn [node_content]; lia|intros; apply NI_ok]|].
        intros _ x Hx. destruct (node_cut s _ _ _); cbn [bind] in Hx; inversion Hx; discriminate.
  - unfold child_at in Ec. apply nth_error_None in Ec. assert (i = length (node_content n)) by lia. subst i.
    rewrite Nat.eqb_refl. split; [apply NI_ok|].
    intros Hne. destruct H as (_ & Hta & _). destruct (Hta Hne) as (n' & i' & o' & t & m & Hp' & Hc').
    rewrite Hp in Hp'. inversion Hp'; subst n' i' o'. unfold child_at in Hc'.
    assert (length (node_content n) < length (node_content n)) by (apply nth_error_Some; rewrite Hc'; discriminate). lia.
Qed.

Lemma rp_node_before_spec r : WP r ->
  NI (rp_node_before s r) /\ (rp_text_offset r <> 0 -> forall x, rp_node_before s r = Ok x -> x <> None).
Proof.
  intros H. destruct (rp_parent_at r H) as (n & i & o & Hp & Epar & Eidx & Hi).
  unfold rp_node_before. rewrite Epar, Eidx. cbn [bind].
  destruct (negb (rp_text_offset r =? 0)) eqn:E0.
  - apply negb_true_iff in E0. apply Nat.eqb_neq in E0.
    destruct H as (_ & Hta & _). destruct (Hta E0) as (n' & i' & o' & t & m & Hp' & Hc').
    rewrite Hp in Hp'. inversion Hp'; subst n' i' o'. rewrite Hc'.
    split; [apply NI_bind; [apply text_cut_NI|intros; apply NI_ok]|].
    intros _ x Hx. destruct (text_cut t m _ _); cbn [bind] in Hx; inversion Hx; discriminate.
  - apply negb_false_iff in E0. apply Nat.eqb_eq in E0. split; [|intros Hne; contradiction].
    destruct i as [|i']; [apply NI_ok|].
    destruct (child_at n i') as [c|] eqn:Ec; [apply NI_ok|]. unfold child_at in Ec. apply nth_error_None in Ec. lia.
Qed.

(* ------------------------------------------------------------------ add_range *)
Definition side_ok (o : option rpos) (depth : nat) : Prop :=
  match o with Some r => WP r /\ depth <= rp_depth r | None => True end.

Lemma add_range_NI start end_ depth target :
  side_ok start depth -> side_ok end_ depth -> (start <> None \/ end_ <> None) ->
  NI (add_range s start end_ depth target).
Proof.
  intros Hs He Hne. unfold add_range.
  (* the node and the end index *)
  assert (Hn : exists n, (match end_, start with Some e, _ => rp_node e depth | None, Some st => rp_node st depth
                                         | None, None => Err ErrInternal end) = Ok n /\
                         forall ei, (match end_ with Some e => rp_index e depth | None => Ok (length (node_content n)) end) = Ok ei ->
                                    ei <= length (node_content n)).
  { destruct end_ as [e|].
    - destruct He as (Hw & Hd). destruct (WP_at e depth Hw Hd) as (n & i & o & _ & _ & Hi & En & Ei & _).
      exists n. split; [exact En|]. intros ei Hei. rewrite Ei in Hei. inversion Hei; subst. exact Hi.
    - destruct start as [sp|]; [|destruct Hne as [Hx|Hx]; contradiction].
      destruct Hs as (Hw & Hd). destruct (WP_at sp depth Hw Hd) as (n & i & o & _ & _ & _ & En & _).
      exists n. split; [exact En|]. intros ei Hei. inversion Hei. lia. }
  destruct Hn as (n & En & Hei). rewrite En. cbn [bind].
  apply NI_bind.
  { destruct end_ as [e|]; [|apply NI_ok]. destruct He as (Hw & Hd). apply rp_index_NI; assumption. }
  intros end_index Eei. specialize (Hei end_index Eei).
  apply NI_bind.
  { destruct start as [sp|]; [|apply NI_ok]. destruct Hs as (Hw & Hd).
    apply NI_bind; [apply rp_index_NI; assumption|]. intros si _.
    destruct (depth <? rp_depth sp); [apply NI_ok|].
    destruct (negb (rp_text_offset sp =? 0)) eqn:E0; [|apply NI_ok].
    apply negb_true_iff in E0. apply Nat.eqb_neq in E0.
    destruct (rp_node_after_spec sp Hw) as (Hni & Hsome).
    apply NI_bind; [exact Hni|]. intros na Ena. destruct na as [x|]; [apply NI_ok|]. exfalso. eapply (Hsome E0); eauto. }
  intros [start_index target1] _.
  apply NI_bind.
  { destruct (length (node_content n) <? end_index) eqn:E; [apply Nat.ltb_lt in E; lia|apply NI_ok]. }
  intros _ _.
  destruct end_ as [e|]; [|apply NI_ok]. destruct He as (Hw & Hd).
  destruct ((rp_depth e =? depth) && negb (rp_text_offset e =? 0)) eqn:E; [|apply NI_ok].
  apply andb_prop in E. destruct E as [_ E0]. apply negb_true_iff in E0. apply Nat.eqb_neq in E0.
  destruct (rp_node_before_spec e Hw) as (Hni & Hsome).
  apply NI_bind; [exact Hni|]. intros nb Enb. destruct nb as [x|]; [apply NI_ok|]. exfalso. eapply (Hsome E0); eauto.
Qed.

Lemma close_NI n c : NI (close s n c).
Proof. unfold close. destruct (valid_content s (node_ty s n) c); [apply NI_ok|ni_err]. Qed.
Lemma check_join_NI a b : NI (check_join s a b).
Proof. unfold check_join. destruct (compatible_content s _ _); [apply NI_ok|ni_err]. Qed.
Lemma joinable_NI before after depth :
  WP before -> WP after -> depth <= rp_depth before -> depth <= rp_depth after -> NI (joinable s before after depth).
Proof.
  intros H1 H2 D1 D2. unfold joinable.
  apply NI_bind; [apply rp_node_NI; assumption|]. intros n _.
  apply NI_bind; [apply rp_node_NI; assumption|]. intros a _.
  apply NI_bind; [apply check_join_NI|intros; apply NI_ok].
Qed.

(* ------------------------------------------------------------------ replace_two_way *)
Lemma two_way_NI : forall fuel from to depth,
  WP from -> WP to -> rp_depth from <= rp_depth to -> depth <= rp_depth from -> rp_depth from - depth < fuel ->
  NI (replace_two_way s fuel from to depth).
Proof.
  induction fuel as [|fuel IH]; intros from to depth Hf Ht Hft Hd Hfu; [lia|]. cbn [replace_two_way].
  apply NI_bind.
  { apply add_range_NI; [exact I|split; assumption|right; discriminate]. }
  intros c1 _. apply NI_bind.
  { destruct (depth <? rp_depth from) eqn:E; [|apply NI_ok]. apply Nat.ltb_lt in E.
    apply NI_bind; [apply joinable_NI; auto; lia|]. intros ty _.
    apply NI_bind; [apply IH; auto; lia|]. intros inner _.
    apply NI_bind; [apply close_NI|intros; apply NI_ok]. }
  intros c2 _. apply add_range_NI; [split; [assumption|lia]|exact I|left; discriminate].
Qed.

(* ------------------------------------------------------------------ replace_three_way *)
Lemma three_way_NI : forall fuel from start end_ to depth,
  WP from -> WP start -> WP end_ -> WP to ->
  rp_depth start = rp_depth from -> rp_depth end_ = rp_depth to ->
  depth <= rp_depth from -> depth <= rp_depth to ->
  rp_depth from + rp_depth to < fuel + depth ->
  NI (replace_three_way s fuel from start end_ to depth).
Proof.
  induction fuel as [|fuel IH]; intros from start end_ to depth Hf Hs He Ht Esf Eet Df Dt Hfu; [lia|].
  cbn [replace_three_way].
  apply NI_bind.
  { destruct (depth <? rp_depth from) eqn:E; [|apply NI_ok]. apply Nat.ltb_lt in E.
    apply NI_bind; [apply joinable_NI; auto; lia|intros; apply NI_ok]. }
  intros open_start Eos. apply NI_bind.
  { destruct (depth <? rp_depth to) eqn:E; [|apply NI_ok]. apply Nat.ltb_lt in E.
    apply NI_bind; [apply joinable_NI; auto; lia|intros; apply NI_ok]. }
  intros open_end Eoe. apply NI_bind.
  { apply add_range_NI; [exact I|split; assumption|right; discriminate]. }
  intros c1 _.
  assert (Hos : open_start <> None -> depth < rp_depth from).
  { intros Hne. destruct (depth <? rp_depth from) eqn:E; [apply Nat.ltb_lt in E; exact E|]. inversion Eos; subst. contradiction. }
  assert (Hoe : open_end <> None -> depth < rp_depth to).
  { intros Hne. destruct (depth <? rp_depth to) eqn:E; [apply Nat.ltb_lt in E; exact E|]. inversion Eoe; subst. contradiction. }
  assert (T1 : depth < rp_depth from -> NI (replace_two_way s fuel from start (S depth))).
  { intros Hlt. apply two_way_NI; auto; lia. }
  assert (T2 : depth < rp_depth to -> NI (replace_two_way s fuel end_ to (S depth))).
  { intros Hlt. apply two_way_NI; auto; lia. }
  assert (AR : forall tg, NI (add_range s (Some start) (Some end_) depth tg)).
  { intros tg. apply add_range_NI; [split; [assumption|lia]|split; [assumption|lia]|left; discriminate]. }
  apply NI_bind.
  { destruct open_start as [os|]; destruct open_end as [oe|].
    - pose proof (Hos ltac:(discriminate)) as L1. pose proof (Hoe ltac:(discriminate)) as L2.
      apply NI_bind; [apply rp_index_NI; [assumption|lia]|]. intros si _.
      apply NI_bind; [apply rp_index_NI; [assumption|lia]|]. intros ei _.
      destruct (si =? ei).
      + apply NI_bind; [apply check_join_NI|]. intros _ _.
        apply NI_bind; [apply IH; auto; lia|]. intros inner _.
        apply NI_bind; [apply close_NI|intros; apply NI_ok].
      + apply NI_bind; [apply T1; exact L1|]. intros inner _.
        apply NI_bind; [apply close_NI|]. intros cl _.
        apply NI_bind; [apply AR|]. intros c' _.
        apply NI_bind; [apply T2; exact L2|]. intros inner2 _.
        apply NI_bind; [apply close_NI|intros; apply NI_ok].
    - pose proof (Hos ltac:(discriminate)) as L1.
      apply NI_bind; [apply NI_bind; [apply T1; exact L1|intros inner _; apply NI_bind; [apply close_NI|intros; apply NI_ok]]|].
      intros c' _. apply NI_bind; [apply AR|intros; apply NI_ok].
    - pose proof (Hoe ltac:(discriminate)) as L2.
      apply NI_bind; [apply NI_ok|]. intros c' _. apply NI_bind; [apply AR|]. intros c'' _.
      apply NI_bind; [apply T2; exact L2|]. intros inner2 _. apply NI_bind; [apply close_NI|intros; apply NI_ok].
    - apply NI_bind; [apply NI_ok|]. intros c' _. apply NI_bind; [apply AR|intros; apply NI_ok]. }
  intros c2 _. apply add_range_NI; [split; assumption|exact I|left; discriminate].
Qed.


(* ------------------------------------------------------------------ prepare_slice *)
Lemma wrap_up_spec along : WP along -> forall i n, i <= rp_depth along -> is_elem n ->
  exists w, wrap_up along i n = Ok w /\ is_elem w.
Proof.
  intros Hw. induction i as [|i IH]; intros n Hi He; cbn [wrap_up]; [eauto|].
  destruct (WP_at along i Hw ltac:(lia)) as (a & ix & o & _ & Hea & _ & En & _). rewrite En. cbn [bind].
  apply IH; [lia|]. destruct Hea as (ty & at_ & m & cs & ->). cbn [node_copy]. unfold is_elem. eauto.
Qed.

Lemma prepare_slice_spec sl along :
  WP along -> sl_open_start sl <= rp_depth along ->
  NI (prepare_slice s sl along) /\
  forall st en, prepare_slice s sl along = Ok (st, en) ->
    WP st /\ WP en /\ rp_depth st = rp_depth along /\
    rp_depth en = sl_open_end sl + (rp_depth along - sl_open_start sl).
Proof.
  intros Hw Hos. unfold prepare_slice, prepare_slice0.
  set (extra := rp_depth along - sl_open_start sl).
  destruct (WP_at along extra Hw ltac:(unfold extra; lia)) as (parent & ix & o & _ & Hep & _ & En & _). rewrite En. cbn [bind].
  assert (Hec : is_elem (node_copy parent (sl_content sl))).
  { destruct Hep as (ty & at_ & m & cs & ->). cbn [node_copy]. unfold is_elem. eauto. }
  destruct (wrap_up_spec along Hw extra _ ltac:(unfold extra; lia) Hec) as (w & Ew & Hew). rewrite Ew. cbn [bind].
  destruct (fsize (node_content w) <? sl_open_end sl + extra); [split; [ni_err|discriminate]|].
  destruct (resolve s w (sl_open_start sl + extra)) as [st|e1] eqn:E1.
  2:{ cbn [bind]. split; [|discriminate]. pose proof (resolve_NI w (sl_open_start sl + extra) Hew) as Hn. rewrite E1 in Hn.
      exact (NI_cast _ Hn). }
  cbn [bind].
  destruct (resolve s w (fsize (node_content w) - sl_open_end sl - extra)) as [en|e2] eqn:E2.
  2:{ cbn [bind]. split; [|discriminate]. pose proof (resolve_NI w (fsize (node_content w) - sl_open_end sl - extra) Hew) as Hn.
      rewrite E2 in Hn. exact (NI_cast _ Hn). }
  cbn [bind].
  destruct (negb (rp_depth st =? rp_depth along) || negb (rp_depth en =? sl_open_end sl + extra)) eqn:Ec; [split; [ni_err|discriminate]|].
  apply orb_false_elim in Ec. destruct Ec as [C1 C2]. apply negb_false_iff in C1, C2. apply Nat.eqb_eq in C1, C2.
  split; [apply NI_ok|]. intros st' en' H. inversion H; subst st' en'.
  destruct (resolve_WP w _ st Hew E1) as (W1 & _). destruct (resolve_WP w _ en Hew E2) as (W2 & _). auto.
Qed.

(* ------------------------------------------------------------------ replace_outer *)
Lemma replace_outer_NI : forall fuel from to sl depth,
  WP from -> WP to ->
  sl_open_start sl <= rp_depth from -> rp_depth from - sl_open_start sl = rp_depth to - sl_open_end sl ->
  sl_open_end sl <= rp_depth to ->
  (fsize (sl_content sl) = 0 -> sl_open_start sl = 0 /\ sl_open_end sl = 0) ->
  depth <= rp_depth from - sl_open_start sl -> rp_depth from - depth < fuel ->
  NI (replace_outer s fuel from to sl depth).
Proof.
  induction fuel as [|fuel IH]; intros from to sl depth Hf Ht Hos Hcons Hoe Hemp Hd Hfu; [lia|]. cbn [replace_outer].
  apply NI_bind; [apply rp_index_NI; [assumption|lia]|]. intros index _.
  destruct (WP_at from depth Hf ltac:(lia)) as (n & ix & o & _ & _ & _ & En & _). rewrite En. cbn [bind].
  apply NI_bind; [apply rp_index_NI; [assumption|lia]|]. intros tindex _.
  destruct ((index =? tindex) && (depth <? rp_depth from - sl_open_start sl)) eqn:E1.
  { apply andb_prop in E1. destruct E1 as [_ E1]. apply Nat.ltb_lt in E1.
    apply NI_bind; [apply IH; auto; lia|intros; apply NI_ok]. }
  destruct (fsize (sl_content sl) =? 0) eqn:E2.
  { apply Nat.eqb_eq in E2. destruct (Hemp E2) as (Z1 & Z2). rewrite Z1, Z2, !Nat.sub_0_r in *.
    apply NI_bind; [apply two_way_NI; auto; lia|intros; apply close_NI]. }
  destruct ((sl_open_start sl =? 0) && (sl_open_end sl =? 0) && (rp_depth from =? depth) && (rp_depth to =? depth)) eqn:E3.
  { destruct Hf as (Hwf & Htaf & (pf & Epf & Hpf)). destruct Ht as (Hwt & Htat & (pt & Ept & Hpt)).
    rewrite Epf. cbn [bind].
    (* both positions have the same parent here: depth = both depths and the paths agree up to the shared index; what is
       needed is only that the second cut stays within the parent's content, which its own bound gives when the parents
       coincide - in general the cut is within [fsize content] by definition of the bound below *)
    apply NI_bind; [apply frag_cut_NI; exact Hpf|]. intros a _.
    apply NI_bind; [apply frag_cut_NI; apply le_n|]. intros b _. apply close_NI. }
  destruct (prepare_slice_spec sl from Hf Hos) as (Hni & Hsp).
  apply NI_bind; [exact Hni|]. intros [start end_] Ese.
  destruct (Hsp _ _ Ese) as (Ws & We & Ds & De).
  apply NI_bind; [|intros; apply close_NI].
  apply three_way_NI; auto; lia.
Qed.

Theorem node_replace_NI doc from to sl : is_elem doc -> NI (node_replace s doc from to sl).
Proof.
  intros He. unfold node_replace.
  destruct (resolve s doc from) as [rf|e1] eqn:Ef.
  2:{ cbn [bind]. pose proof (resolve_NI doc from He) as Hn. rewrite Ef in Hn. exact (NI_cast _ Hn). }
  cbn [bind]. destruct (resolve s doc to) as [rt|e2] eqn:Et.
  2:{ cbn [bind]. pose proof (resolve_NI doc to He) as Hn. rewrite Et in Hn. exact (NI_cast _ Hn). }
  cbn [bind]. destruct (resolve_WP doc from rf He Ef) as (Wf & _). destruct (resolve_WP doc to rt He Et) as (Wt & _).
  unfold replace_rp.
  destruct (rp_depth rf <? sl_open_start sl) eqn:E1; [ni_err|]. apply Nat.ltb_ge in E1.
  destruct (negb _) eqn:E2; [ni_err|]. apply negb_false_iff in E2. apply Z.eqb_eq in E2.
  destruct (rp_pos rt <? rp_pos rf); [ni_err|].
  destruct ((fsize (sl_content sl) =? 0) && ((0 <? sl_open_start sl) || (0 <? sl_open_end sl))) eqn:E4; [ni_err|].
  apply replace_outer_NI; auto; try lia.
  intros Hz. rewrite Hz, Nat.eqb_refl in E4. cbn [andb] in E4. apply orb_false_elim in E4. destruct E4 as [A B].
  apply Nat.ltb_ge in A, B. lia.
Qed.

End WithSchema.
