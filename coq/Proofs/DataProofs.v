From Coq Require Import ZArith NArith List Bool String Lia Arith.
From PM Require Import Model.Data.
Import ListNotations.

Lemma cps_eqb_sym a : forall b, cps_eqb a b = cps_eqb b a.
Proof. induction a as [|x a IH]; destruct b; simpl; auto. rewrite N.eqb_sym, IH. auto. Qed.

Fixpoint json_eqb_sym (a b : json) {struct a} : json_eqb a b = json_eqb b a.
Proof.
  destruct a, b; simpl; auto.
  - destruct b, b0; reflexivity.
  - apply Z.eqb_sym.
  - apply Z.eqb_sym.
  - apply Z.eqb_sym.
  - apply cps_eqb_sym.
  - revert l0. induction l as [|x l IH]; destruct l0 as [|y l0]; auto.
    rewrite (json_eqb_sym x y). f_equal. apply IH.
  - revert l0. induction l as [|[k x] l IH]; destruct l0 as [|[k' y] l0]; auto.
    rewrite (json_eqb_sym x y). rewrite String.eqb_sym. f_equal. apply IH.
Qed.

Lemma attrs_eqb_sym a : forall b, attrs_eqb a b = attrs_eqb b a.
Proof.
  induction a as [|[k x] a IH]; destruct b as [|[k' y] b]; simpl; auto.
  rewrite json_eqb_sym, String.eqb_sym, IH. reflexivity.
Qed.

Lemma mark_eqb_sym a b : mark_eqb a b = mark_eqb b a.
Proof. unfold mark_eqb. rewrite Nat.eqb_sym, attrs_eqb_sym. reflexivity. Qed.

Lemma cps_eqb_refl a : cps_eqb a a = true.
Proof. induction a; simpl; auto. rewrite N.eqb_refl; auto. Qed.

Fixpoint json_eqb_refl (a : json) : json_eqb a a = true.
Proof.
  destruct a; simpl; auto.
  - destruct b; reflexivity.
  - apply Z.eqb_refl.
  - apply cps_eqb_refl.
  - induction l as [|x l IH]; auto. rewrite (json_eqb_refl x). exact IH.
  - induction l as [|[k x] l IH]; auto. rewrite (json_eqb_refl x), String.eqb_refl. exact IH.
Qed.

Lemma attrs_eqb_refl a : attrs_eqb a a = true.
Proof. induction a as [|[k x] a IH]; simpl; auto. rewrite json_eqb_refl, String.eqb_refl. auto. Qed.

Lemma mark_eqb_refl a : mark_eqb a a = true.
Proof. unfold mark_eqb. rewrite Nat.eqb_refl, attrs_eqb_refl. reflexivity. Qed.

Lemma marks_eqb_refl a : marks_eqb a a = true.
Proof. induction a; simpl; auto. rewrite mark_eqb_refl; auto. Qed.
