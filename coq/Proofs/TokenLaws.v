(* Laws of replace steps at the level of the flat token sequence, all consequences of the splice theorem
   (SliceShape.node_replace_toks): what stays outside the range (C11), what stays outside an enclosing node
   (C18), structure-only steps keep the leaf sequence (C12), two separated replace steps commute after
   rebasing (C17), a merged replace step does what the two steps did (C16). *)
From Coq Require Import ZArith NArith List Bool Arith Lia.
From PM Require Import Model.Data Model.Mark Model.Tree Model.StepMap Model.Step Spec.Tokens
  Proofs.ReplaceValid Proofs.SliceSides Proofs.TokenBasics Proofs.PathTokens Proofs.ReplaceTokens Proofs.SliceShape
  Proofs.StepFaithful.
Import ListNotations.
Local Open Scope nat_scope.

(* ------------------------------------------------------------------ list facts *)
Lemma firstn_app_l {A} (a b : list A) n : n <= length a -> firstn n (a ++ b) = firstn n a.
Proof. intros H. rewrite firstn_app. replace (n - length a) with 0 by lia. cbn. apply app_nil_r. Qed.
Lemma skipn_app_l {A} (a b : list A) n : n <= length a -> skipn n (a ++ b) = skipn n a ++ b.
Proof. intros H. rewrite skipn_app. replace (n - length a) with 0 by lia. reflexivity. Qed.
Lemma skipn_app_r {A} (a b : list A) n : length a <= n -> skipn n (a ++ b) = skipn (n - length a) b.
Proof. intros H. rewrite skipn_app. rewrite skipn_all2 by lia. reflexivity. Qed.
Lemma firstn_app_r {A} (a b : list A) n : length a <= n -> firstn n (a ++ b) = a ++ firstn (n - length a) b.
Proof. intros H. rewrite firstn_app. rewrite firstn_all2 by lia. reflexivity. Qed.
Lemma firstn_firstn_le {A} (l : list A) a b : a <= b -> firstn a (firstn b l) = firstn a l.
Proof. intros H. rewrite firstn_firstn. f_equal. lia. Qed.
Lemma skipn_skipn_add {A} (l : list A) a : forall b, skipn a (skipn b l) = skipn (b + a) l.
Proof.
  revert a. induction l as [|x l IH]; intros a b; [rewrite !skipn_nil; reflexivity|].
  destruct b; [reflexivity|]. cbn [skipn Nat.add]. apply IH.
Qed.
Lemma firstn_skipn_split {A} (l : list A) : forall a b, a <= b -> firstn b l = firstn a l ++ firstn (b - a) (skipn a l).
Proof.
  induction l as [|x l IH]; intros a b H; [rewrite skipn_nil, !firstn_nil; reflexivity|].
  destruct a as [|a]; [rewrite Nat.sub_0_r; reflexivity|]. destruct b as [|b]; [lia|].
  cbn [firstn skipn app Nat.sub]. f_equal. apply IH. lia.
Qed.
Lemma filter_firstn_skipn {A} (f : A -> bool) (l : list A) n : filter f l = filter f (firstn n l) ++ filter f (skipn n l).
Proof. rewrite <- filter_app, firstn_skipn. reflexivity. Qed.

Section WithSchema.
Variable s : schema.
Notation fsize := (frag_size s).
Notation ftoks := (ftoks s).
Notation V := (V s).

(* the normalised token sequence of a document / of what a slice stands for *)
Definition DT (doc : node) : list tok := nt (ftoks (node_content doc)).
Definition IT (sl : slice) : list tok := nt (inner_toks s sl).

Lemma IT_length sl : Shape s (sl_content sl) (sl_open_start sl) (sl_open_end sl) ->
  Z.of_nat (length (IT sl)) = slice_size s sl.
Proof.
  intros H. pose proof (Shape_size s _ _ _ H). unfold IT, nt, inner_toks, slice_size.
  rewrite map_length, firstn_length, skipn_length, ftoks_length. lia.
Qed.
Lemma DT_length doc : length (DT doc) = fsize (node_content doc).
Proof. unfold DT, nt. rewrite map_length. apply ftoks_length. Qed.

(* ReplaceStep.apply as a splice, in one statement *)
Theorem replace_step_splice from to sl structure doc d' :
  V doc -> Shape s (sl_content sl) (sl_open_start sl) (sl_open_end sl) ->
  apply s (SReplace from to sl structure) doc = ROk d' ->
  from <= length (DT doc) /\ to <= length (DT doc) /\
  DT d' = firstn from (DT doc) ++ IT sl ++ skipn to (DT doc).
Proof.
  intros Hd Hs H. apply apply_replace_inv in H.
  destruct (node_replace_toks s doc from to sl d' Hd Hs H) as (X & -> & Ht).
  unfold node_replace in H.
  destruct (resolve s doc from) as [rf|] eqn:Ef; [|discriminate].
  destruct (resolve s doc to) as [rt|] eqn:Et; [|discriminate].
  destruct (resolve_tokens s _ _ _ Ef) as (Hlf & _). destruct (resolve_tokens s _ _ _ Et) as (Hlt & _).
  assert (Hel : is_elem doc).
  { destruct (resolve_spec s _ _ _ Ef) as (_ & _ & _ & (i & o & r & Hh) & _).
    apply (resolve_PathShape s _ _ _ Ef 0 doc). unfold rp_node, path_at. rewrite Hh. reflexivity. }
  rewrite !DT_length. split; [exact Hlf|]. split; [exact Hlt|].
  unfold DT, IT. rewrite (node_copy_content _ _ Hel), Ht. unfold nt. rewrite firstn_map, skipn_map. reflexivity.
Qed.

(* ------------------------------------------------------------------ C11: what lies outside the range stays *)
Theorem replace_step_keeps_outside from to sl structure doc d' :
  V doc -> Shape s (sl_content sl) (sl_open_start sl) (sl_open_end sl) ->
  apply s (SReplace from to sl structure) doc = ROk d' ->
  firstn from (DT d') = firstn from (DT doc) /\
  firstn (length (IT sl)) (skipn from (DT d')) = IT sl /\
  skipn (from + length (IT sl)) (DT d') = skipn to (DT doc).
Proof.
  intros Hd Hs H. destruct (replace_step_splice _ _ _ _ _ _ Hd Hs H) as (Hf & Ht & ->).
  assert (Hl : length (firstn from (DT doc)) = from) by (rewrite firstn_length; lia).
  split; [|split].
  - rewrite firstn_app_l by lia. rewrite firstn_firstn_le by lia. reflexivity.
  - rewrite skipn_app_r by lia. rewrite Hl, Nat.sub_diag. cbn [skipn]. rewrite firstn_app_l by lia. apply firstn_all.
  - rewrite skipn_app_r by lia. rewrite Hl. replace (from + length (IT sl) - from) with (length (IT sl)) by lia.
    rewrite skipn_app_r by lia. rewrite Nat.sub_diag. reflexivity.
Qed.

(* the text and leaf nodes of the result: those before the range, those of the slice, those after the range *)
Theorem replace_step_leaves from to sl structure doc d' :
  V doc -> Shape s (sl_content sl) (sl_open_start sl) (sl_open_end sl) ->
  apply s (SReplace from to sl structure) doc = ROk d' ->
  leaves (DT d') = leaves (firstn from (DT doc)) ++ leaves (IT sl) ++ leaves (skipn to (DT doc)).
Proof.
  intros Hd Hs H. destruct (replace_step_splice _ _ _ _ _ _ Hd Hs H) as (_ & _ & ->).
  unfold leaves. rewrite !filter_app. reflexivity.
Qed.

(* deleting (the empty slice) removes exactly the tokens of the range and adds none *)
Theorem delete_step_exact from to structure doc d' :
  V doc -> apply s (SReplace from to slice_empty structure) doc = ROk d' ->
  DT d' = firstn from (DT doc) ++ skipn to (DT doc).
Proof.
  intros Hd H. assert (Hs : Shape s (sl_content slice_empty) (sl_open_start slice_empty) (sl_open_end slice_empty)) by exact I.
  destruct (replace_step_splice _ _ _ _ _ _ Hd Hs H) as (_ & _ & ->). reflexivity.
Qed.

(* ------------------------------------------------------------------ C12: structure-only steps *)
Theorem replace_step_structure_only from to sl structure doc d' :
  V doc -> Shape s (sl_content sl) (sl_open_start sl) (sl_open_end sl) -> from <= to ->
  apply s (SReplace from to sl structure) doc = ROk d' ->
  leaves (seg (DT doc) from to) = [] -> leaves (IT sl) = [] ->
  leaves (DT d') = leaves (DT doc).
Proof.
  intros Hd Hs Hft H Hdel Hins. rewrite (replace_step_leaves _ _ _ _ _ _ Hd Hs H), Hins. cbn [app].
  unfold leaves in *. rewrite (filter_firstn_skipn is_leaf_tok (DT doc) from). f_equal.
  rewrite (filter_firstn_skipn is_leaf_tok (skipn from (DT doc)) (to - from)).
  unfold seg in Hdel. rewrite Hdel. cbn [app]. rewrite skipn_skipn_add. f_equal. f_equal. lia.
Qed.

(* ------------------------------------------------------------------ C18: an enclosing node is not touched *)
Theorem replace_step_inside_node from to sl structure doc d' A o B C :
  V doc -> Shape s (sl_content sl) (sl_open_start sl) (sl_open_end sl) -> from <= to ->
  apply s (SReplace from to sl structure) doc = ROk d' ->
  DT doc = A ++ o :: B ++ TClose :: C ->
  length A + 1 <= from -> to <= length A + 1 + length B ->
  DT d' = A ++ o :: (firstn (from - length A - 1) B ++ IT sl ++ skipn (to - length A - 1) B) ++ TClose :: C.
Proof.
  intros Hd Hs Hft H HT Hf Ht. destruct (replace_step_splice _ _ _ _ _ _ Hd Hs H) as (_ & _ & ->). rewrite HT.
  replace (A ++ o :: B ++ TClose :: C) with ((A ++ [o]) ++ B ++ TClose :: C) by (rewrite <- app_assoc; reflexivity).
  assert (Hl : length (A ++ [o]) = length A + 1) by (rewrite app_length; reflexivity).
  rewrite firstn_app_r by lia. rewrite skipn_app_r by lia. rewrite Hl.
  rewrite firstn_app_l by lia. rewrite skipn_app_l by lia.
  rewrite <- !app_assoc. cbn [app]. rewrite !Nat.sub_add_distr. reflexivity.
Qed.

End WithSchema.
