(* Mark steps, part 2: WHICH marks the tokens of the range end up with.  An add / remove-mark step rewrites
   the marks of every inline token of the range by a function of the token's own type and of the type of
   the node that encloses it in the document — nothing else (C13); merged mark steps (C16). *)
From Coq Require Import ZArith NArith List Bool Arith Lia.
From PM Require Import Model.Data Model.Mark Model.Tree Model.Resolve Model.StepMap Model.Step Spec.Tokens
  Proofs.ReplaceValid Proofs.SliceSides Proofs.TokenBasics Proofs.PathTokens Proofs.ReplaceTokens Proofs.SliceShape
  Proofs.StepFaithful Proofs.SliceTokens Proofs.SliceCut Proofs.TokenLaws Proofs.StepAlgebra Proofs.StepTokens
  Proofs.AroundTokens Proofs.NodeInd Proofs.MarkSteps.
Import ListNotations.
Local Open Scope nat_scope.

Section WithSchema.
Variable s : schema.
Notation nsize := (node_size s).
Notation fsize := (frag_size s).
Notation toks := (toks s).
Notation ftoks := (ftoks s).
Notation V := (V s).
Notation DT := (DT s).
Notation IT := (IT s).

(* how a step rewrites the marks of an inline token: parent type, own type, old marks *)
Definition upd := nat -> nat -> list mark -> list mark.
Variable u : upd.

Definition retag (ty : nat) (p : nat) (ms : list mark) : list mark :=
  if is_inline_ty s ty then u p ty ms else ms.

Definition ftok (p : nat) (t : tok) : tok :=
  match t with
  | TOpen ty a ms => TOpen ty a (retag ty p ms)
  | TLeaf ty a ms => TLeaf ty a (retag ty p ms)
  | TChar c ms => TChar c (retag (s_text s) p ms)
  | TClose => TClose
  end.

(* the enclosing node types while reading tokens: (stack of outer ones, innermost) *)
Definition ctx := (list nat * nat)%type.
Definition step_ctx (c : ctx) (t : tok) : ctx :=
  match t with
  | TOpen ty _ _ => (snd c :: fst c, ty)
  | TClose => match fst c with p :: st => (st, p) | [] => c end
  | _ => c
  end.
Definition ctx_after (l : list tok) (c : ctx) : ctx := fold_left step_ctx l c.

Fixpoint tmap (c : ctx) (l : list tok) : list tok :=
  match l with
  | [] => []
  | t :: r => ftok (snd c) t :: tmap (step_ctx c t) r
  end.

Lemma tmap_app c a b : tmap c (a ++ b) = tmap c a ++ tmap (ctx_after a c) b.
Proof. revert c. induction a as [|t a IH]; intros c; [reflexivity|]. cbn [app tmap ctx_after fold_left]. rewrite IH. reflexivity. Qed.
Lemma ctx_after_app a b c : ctx_after (a ++ b) c = ctx_after b (ctx_after a c).
Proof. unfold ctx_after. apply fold_left_app. Qed.
Lemma tmap_length c l : length (tmap c l) = length l.
Proof. revert c. induction l as [|t l IH]; intros c; [reflexivity|]. cbn [tmap length]. rewrite IH. reflexivity. Qed.

(* a node's tokens are balanced: the context after them is the context before *)
Lemma ctx_after_toks : forall n c, ctx_after (toks n) c = c.
Proof.
  induction n as [t m|ty a m cs IH] using node_ind2; intros c.
  - cbn [Tokens.toks]. induction (units t) as [|x l IHl]; [reflexivity|]. cbn [List.map ctx_after fold_left step_ctx]. exact IHl.
  - rewrite toks_elem. destruct (is_leaf_ty s ty); [reflexivity|].
    cbn [ctx_after fold_left step_ctx]. fold (ctx_after (ftoks cs ++ [TClose]) (snd c :: fst c, ty)).
    rewrite ctx_after_app.
    assert (G : forall c', ctx_after (ftoks cs) c' = c').
    { clear -IH. induction cs as [|x r IHr]; intros c'; [reflexivity|]. cbn [Tokens.ftoks]. rewrite ctx_after_app.
      rewrite (IH x (or_introl eq_refl)). apply IHr. intros y Hy. apply IH. right. exact Hy. }
    rewrite G. destruct c; reflexivity.
Qed.
Lemma ctx_after_ftoks l c : ctx_after (ftoks l) c = c.
Proof. revert c. induction l as [|x r IH]; intros c; [reflexivity|]. cbn [Tokens.ftoks]. rewrite ctx_after_app, ctx_after_toks. apply IH. Qed.

(* ... and what is done to them does not depend on the outer stack *)
Lemma tmap_toks_stack : forall n st st' cur, tmap (st, cur) (toks n) = tmap (st', cur) (toks n).
Proof.
  induction n as [t m|ty a m cs IH] using node_ind2; intros st st' cur.
  - cbn [Tokens.toks]. induction (units t) as [|x l IHl]; [reflexivity|]. cbn [List.map tmap step_ctx snd]. f_equal. exact IHl.
  - rewrite toks_elem. destruct (is_leaf_ty s ty); [reflexivity|].
    cbn [tmap step_ctx snd fst]. f_equal. rewrite !tmap_app, !ctx_after_ftoks. cbn [tmap step_ctx fst snd ftok]. f_equal.
    assert (G : forall s1 s2 c', tmap (s1, c') (ftoks cs) = tmap (s2, c') (ftoks cs)).
    { clear -IH. induction cs as [|x r IHr]; intros s1 s2 c'; [reflexivity|]. cbn [Tokens.ftoks]. rewrite !tmap_app, !ctx_after_toks.
      f_equal; [apply IH; left; reflexivity|]. apply IHr. intros y Hy. apply IH. right. exact Hy. }
    apply G.
Qed.

(* ------------------------------------------------------------------ map_fragment on tokens *)
Lemma join_text_nt x acc : nt (ftoks (join_text x acc)) = nt (toks x) ++ nt (ftoks acc).
Proof.
  unfold join_text. destruct x as [t m|ty a mk cs]; [|cbn [Tokens.ftoks]; apply nt_app].
  destruct acc as [|[t' m'|? ? ? ?] rest]; try (cbn [Tokens.ftoks]; apply nt_app).
  destruct (marks_eqb m m') eqn:E; [|cbn [Tokens.ftoks]; apply nt_app].
  cbn [Tokens.ftoks]. rewrite !nt_app, toks_text_app, nt_app, <- app_assoc. f_equal.
  symmetry. apply nt_text_marks. exact E.
Qed.
Lemma from_array_nt l : nt (ftoks (from_array l)) = nt (ftoks l).
Proof.
  unfold from_array. induction l as [|x l IH]; [reflexivity|]. cbn [fold_right Tokens.ftoks].
  rewrite join_text_nt, IH, nt_app. reflexivity.
Qed.

(* the node function a mark step maps over the slice *)
Definition Fu (n parent : node) : node := node_mark n (u (node_ty s parent) (node_ty s n) (node_marks n)).

Lemma node_mark_same n : node_mark n (node_marks n) = n.
Proof. destruct n; reflexivity. Qed.

Lemma ftoks_length0 l : fsize l = 0 -> ftoks l = [].
Proof. intros H. pose proof (ftoks_length s l) as E. rewrite H in E. destruct (ftoks l); [reflexivity|discriminate]. Qed.

Lemma tmap_ftoks_concat f parent_ty st cs :
  (forall c, In c cs -> forall st', nt (toks (f c)) = nt (tmap (st', parent_ty) (toks c))) ->
  nt (ftoks (List.map f cs)) = nt (tmap (st, parent_ty) (ftoks cs)).
Proof.
  induction cs as [|x r IH]; intros H; [reflexivity|]. cbn [List.map Tokens.ftoks].
  rewrite tmap_app, ctx_after_toks, !nt_app. f_equal; [apply H; left; reflexivity|].
  apply IH. intros c Hc. apply H. right. exact Hc.
Qed.

Lemma map_node_tmap f : (forall n p, is_inline_ty s (node_ty s n) = true -> f n p = Fu n p) ->
  forall n parent st, nt (toks (map_node s f parent n)) = nt (tmap (st, node_ty s parent) (toks n)).
Proof.
  intros Hf. induction n as [t m|ty a m cs IH] using node_ind2; intros parent st.
  - cbn [map_node]. cbn [node_ty]. destruct (is_inline_ty s (s_text s)) eqn:Ei.
    + rewrite Hf by (cbn [node_ty]; exact Ei). unfold Fu. cbn [node_mark node_ty node_marks Tokens.toks].
      f_equal. clear -Ei. induction (units t) as [|x l IHl]; [reflexivity|]. cbn [List.map tmap step_ctx snd ftok]. unfold retag. rewrite Ei.
      f_equal. exact IHl.
    + cbn [Tokens.toks]. f_equal. induction (units t) as [|x l IHl]; [reflexivity|]. cbn [List.map tmap step_ctx snd ftok]. unfold retag.
      rewrite Ei. f_equal. exact IHl.
  - set (cs1 := if fsize cs =? 0 then cs else from_array (List.map (map_node s f (Elem ty a m cs)) cs)).
    assert (Hcs1 : forall st', nt (ftoks cs1) = nt (tmap (st', ty) (ftoks cs))).
    { intros st'. unfold cs1. destruct (fsize cs =? 0) eqn:Ez.
      - apply Nat.eqb_eq in Ez. rewrite (ftoks_length0 _ Ez). reflexivity.
      - rewrite from_array_nt. apply (tmap_ftoks_concat (map_node s f (Elem ty a m cs)) ty st' cs).
        intros c Hc st''. apply (IH c Hc (Elem ty a m cs) st''). }
    assert (Hres : map_node s f parent (Elem ty a m cs) = Elem ty a (retag ty (node_ty s parent) m) cs1).
    { unfold map_node; fold (map_node s f). unfold cs1, retag.
      destruct (fsize cs =? 0); cbn [node_ty]; destruct (is_inline_ty s ty) eqn:Ei; try reflexivity;
        (rewrite Hf by (cbn [node_ty]; exact Ei)); reflexivity. }
    rewrite Hres, !toks_elem. destruct (is_leaf_ty s ty); [reflexivity|].
    cbn [tmap step_ctx snd fst ftok]. rewrite tmap_app, ctx_after_ftoks. cbn [tmap ftok step_ctx snd fst].
    rewrite !nt_cons, !nt_app, (Hcs1 (node_ty s parent :: st)). reflexivity.
Qed.

Lemma map_fragment_tmap f parent st l : (forall n p, is_inline_ty s (node_ty s n) = true -> f n p = Fu n p) ->
  nt (ftoks (map_fragment s f parent l)) = nt (tmap (st, node_ty s parent) (ftoks l)).
Proof.
  intros Hf. unfold map_fragment. rewrite from_array_nt. apply tmap_ftoks_concat. intros c _ st'. apply map_node_tmap. exact Hf.
Qed.

(* ------------------------------------------------------------------ the context at a position *)
Notation opens_l := (opens_l s).

Lemma ctx_after_chars (l : list unit16) m c : ctx_after (List.map (fun x => TChar x m) l) c = c.
Proof. induction l as [|x l IH]; [reflexivity|]. cbn [List.map ctx_after fold_left step_ctx]. exact IH. Qed.

Lemma firstn_map_chars (l : list unit16) m k : firstn k (List.map (fun x => TChar x m) l) = List.map (fun x => TChar x m) (firstn k l).
Proof. apply firstn_map. Qed.

Definition NodeCtx (n : node) : Prop :=
  forall ty a m cs, n = Elem ty a m cs ->
  forall p c, p <= fsize cs -> ctx_after (firstn p (ftoks cs)) c = ctx_after (opens_l cs 0 p) c.

Lemma ctx_prefix_go : forall l, (forall x, In x l -> NodeCtx x) ->
  forall pos p c, pos <= p -> p <= pos + fsize l ->
  ctx_after (firstn (p - pos) (ftoks l)) c = ctx_after (opens_l l pos p) c.
Proof.
  induction l as [|c0 r IH]; intros Hl pos p c H1 H2.
  - cbn [Tokens.ftoks]. rewrite firstn_nil. reflexivity.
  - cbn [Tokens.ftoks frag_size] in *. pose proof (toks_length s c0) as Hlen.
    destruct (Nat.le_gt_cases (pos + nsize c0) p) as [Hge|Hlt].
    + rewrite firstn_app_r by lia. rewrite Hlen. rewrite ctx_after_app, ctx_after_toks.
      rewrite (opens_cons_outside s c0 r pos p) by lia.
      replace (p - pos - nsize c0) with (p - (pos + nsize c0)) by lia.
      apply IH; [intros x Hx; apply Hl; right; exact Hx|lia|lia].
    + rewrite firstn_app_l by lia.
      destruct (Nat.eq_dec p pos) as [->|Hne].
      * rewrite Nat.sub_diag. cbn [firstn]. rewrite opens_l_before by lia. reflexivity.
      * destruct c0 as [t m|ty a m cc].
        -- rewrite (opens_cons_text s t m r pos p) by lia. cbn [Tokens.toks]. rewrite firstn_map_chars, ctx_after_chars. reflexivity.
        -- destruct (is_leaf_ty s ty) eqn:El.
           { exfalso. rewrite node_size_elem, El in Hlt. lia. }
           rewrite (opens_cons_inside s ty a m cc r pos p El) by lia.
           assert (Hk : p - pos - 1 <= fsize cc) by (rewrite node_size_elem, El in Hlt; lia).
           remember (p - pos - 1) as k eqn:Ek. assert (Epk : p - pos = S k) by lia.
           rewrite toks_elem, El, Epk. cbn [firstn ctx_after fold_left step_ctx].
           fold (ctx_after (firstn k (ftoks cc ++ [TClose])) (snd c :: fst c, ty)).
           fold (ctx_after (opens_l cc 0 k) (snd c :: fst c, ty)).
           rewrite firstn_app_l by (rewrite ftoks_length; lia).
           apply (Hl _ (or_introl eq_refl) ty a m cc eq_refl). exact Hk.
Qed.

Lemma node_ctx : forall n, NodeCtx n.
Proof.
  induction n as [t m|ty a m cs IH] using node_ind2; intros ty' a' m' cs' E; [discriminate|]. inversion E; subst.
  intros p c Hp. pose proof (ctx_prefix_go cs' IH 0 p c ltac:(lia) ltac:(lia)) as H. rewrite Nat.sub_0_r in H. exact H.
Qed.

Lemma ctx_prefix l p c : p <= fsize l -> ctx_after (firstn p (ftoks l)) c = ctx_after (opens_l l 0 p) c.
Proof.
  intros Hp. pose proof (ctx_prefix_go l (fun x _ => node_ctx x) 0 p c ltac:(lia) ltac:(lia)) as H. rewrite Nat.sub_0_r in H. exact H.
Qed.

(* the open tokens around a resolved position are the open tokens of the nodes on its path *)
Lemma resolve_in_opens_path : forall n po start p po',
  resolve_in s n po start = Ok (p, po') ->
  opens_l (node_content n) 0 po = List.map (fun e : node * nat * nat => open_tok (fst (fst e))) (tl p).
Proof.
  induction n as [t mk|ty a m cs IH] using node_ind2; intros po start p po' H; [discriminate|].
  cbn [node_content].
  destruct (resolve_in_cases s _ _ _ _ _ _ _ _ H) as
    [(i & -> & _ & Hi & [Hb|(t & mk & Hn & Hp)])|(i & ty1 & a1 & m1 & cs1 & rest & Hn & Hl & Hp & Hr & ->)].
  - rewrite (opens_at_boundary s _ _ _ Hi Hb). reflexivity.
  - rewrite (opens_at_text s _ _ _ _ _ Hn Hp). reflexivity.
  - rewrite (opens_at_inside s _ _ _ _ _ _ _ Hn Hl Hp). cbn [tl].
    destruct (resolve_in_spec s _ _ _ _ _ Hr) as ((i1 & o1 & rest1 & ->) & _ & _). cbn [List.map fst open_tok]. f_equal.
    pose proof (IH _ (nth_error_In _ _ Hn) _ _ _ _ Hr) as E. cbn [node_content tl] in E. exact E.
Qed.

(* ------------------------------------------------------------------ Node.slice, taken apart *)
Lemma node_slice_inv doc from to sl :
  from < to -> node_slice s doc from to = Ok sl ->
  exists rf d n st X Y content,
    resolve s doc from = Ok rf /\ shared_depth s rf to = Ok d /\ rp_node rf d = Ok n /\
    frag_cut s (node_content n) (from - st) (to - st) = Ok content /\
    sl = SL content (length (opens_l (node_content n) 0 (from - st))) (length (opens_l (node_content n) 0 (to - st))) /\
    ftoks (node_content doc) = X ++ ftoks (node_content n) ++ Y /\ length X = st /\
    st <= from /\ to <= st + fsize (node_content n) /\
    opens_l (node_content doc) 0 from =
      firstn d (opens_l (node_content doc) 0 from) ++ opens_l (node_content n) 0 (from - st) /\
    d <= length (opens_l (node_content doc) 0 from) /\
    (* the node at the shared depth is the d-th node the position lies inside (the document for d = 0) *)
    snd (ctx_after (firstn d (opens_l (node_content doc) 0 from)) ([], node_ty s doc)) = node_ty s n.
Proof.
  intros Hlt H. unfold node_slice in H. replace (from =? to) with false in H by (symmetry; apply Nat.eqb_neq; lia).
  destruct (resolve s doc from) as [rf|] eqn:Ef; [|discriminate]. cbn [bind] in H.
  destruct (resolve s doc to) as [rt|] eqn:Et; [|discriminate]. cbn [bind] in H.
  destruct (shared_depth s rf to) as [d|] eqn:Ed; [|discriminate]. cbn [bind] in H.
  destruct (rp_start rf d) as [st0|] eqn:Es; [|discriminate]. cbn [bind] in H.
  destruct (rp_node rf d) as [n|] eqn:En; [|discriminate]. cbn [bind] in H.
  destruct (frag_cut s (node_content n) (from - st0) (to - st0)) as [content|] eqn:Ec; [|discriminate]. cbn [bind] in H.
  inversion H; subst sl. clear H.
  pose proof Ef as Ef0. pose proof Et as Et0.
  unfold resolve in Ef, Et.
  destruct (fsize (node_content doc) <? from); [discriminate|]. destruct (fsize (node_content doc) <? to); [discriminate|].
  destruct (resolve_in s doc from 0) as [[pf qf]|] eqn:Rf; [|discriminate].
  destruct (resolve_in s doc to 0) as [[pt qt]|] eqn:Rt; [|discriminate].
  cbn [bind fst snd] in Ef, Et. inversion Ef; subst rf. inversion Et; subst rt. clear Ef Et.
  unfold rp_depth in *. cbn [rp_path] in *.
  pose proof (resolve_in_opens s _ _ _ _ _ Rf) as Lf. pose proof (resolve_in_opens s _ _ _ _ _ Rt) as Lt.
  destruct (resolve_in_tokens s _ _ _ _ _ Rt) as (Hto & _).
  pose proof En as En0.
  unfold rp_node, path_at in En. cbn [rp_path] in En.
  destruct (nth_error pf d) as [[[nd i] o]|] eqn:Enth; [|discriminate]. inversion En; subst nd. clear En.
  destruct (resolve_in_nth s d _ _ _ _ _ Rf _ _ _ Enth) as (st & X & Y & Hres & Hb1 & Hb2 & Hb3 & Htk & HlX & Hm & Hop).
  cbn [Nat.add] in *.
  assert (Hst : st0 = st).
  { destruct d as [|d']; cbn [rp_start] in Es.
    - inversion Es; subst. lia.
    - destruct Hm as (n' & i' & o' & Hn' & ->). unfold rp_offset, path_at in Es. cbn [rp_path] in Es. rewrite Hn' in Es.
      cbn [bind] in Es. inversion Es. reflexivity. }
  subst st0.
  assert (Hin : st <= to /\ to <= st + fsize (node_content n)).
  { destruct (shared_depth_go_spec s _ _ _ _ Ed) as (Hdk & [->|(st1 & en & Hs1 & He1 & Hle1 & Hle2)]).
    - destruct (resolve_in_spec s _ _ _ _ _ Rf) as ((i0 & o0 & rest & ->) & _ & _). cbn in Enth. inversion Enth; subst. lia.
    - unfold rp_end in He1. rewrite Hs1 in He1. cbn [bind] in He1.
      unfold rp_node, path_at in He1. cbn [rp_path] in He1. rewrite Enth in He1. cbn [bind] in He1. inversion He1; subst en.
      rewrite Es in Hs1. inversion Hs1; subst st1. lia. }
  destruct Hin as (Hin1 & Hin2).
  pose proof (Hop from Hb2 Hb3) as HopF. pose proof (Hop to Hin1 Hin2) as HopT.
  assert (Hd : d <= length (opens_l (node_content doc) 0 from)).
  { assert (d < length pf) by (apply nth_error_Some; rewrite Enth; discriminate). lia. }
  assert (LF : length (opens_l (node_content n) 0 (from - st)) = length pf - 1 - d).
  { apply (f_equal (@length tok)) in HopF. rewrite app_length, firstn_length in HopF. lia. }
  assert (LT : length (opens_l (node_content n) 0 (to - st)) = length pt - 1 - d).
  { apply (f_equal (@length tok)) in HopT. rewrite app_length, firstn_length in HopT. lia. }
  exists {| rp_pos := from; rp_path := pf; rp_parent_offset := qf |}, d, n, st, X, Y, content.
  split; [first [reflexivity|exact Ef0]|]. split; [first [reflexivity|exact Ed]|]. split; [first [reflexivity|exact En0]|]. split; [first [reflexivity|exact Ec]|].
  split; [rewrite LF, LT; reflexivity|]. split; [exact Htk|]. split; [lia|]. split; [lia|]. split; [exact Hin2|].
  split; [exact HopF|]. split; [exact Hd|].
  (* the type on top after pushing the first d opens *)
  rewrite (resolve_in_opens_path _ _ _ _ _ Rf).
  destruct (resolve_in_spec s _ _ _ _ _ Rf) as ((i0 & o0 & rest & Epf) & _ & _). subst pf. cbn [tl].
  destruct d as [|d'].
  - cbn in Enth. inversion Enth; subst. reflexivity.
  - cbn [nth_error] in Enth.
    assert (G : forall (l : list (node * nat * nat)) k c e ty a m cs, nth_error l k = Some e -> fst (fst e) = Elem ty a m cs ->
              snd (ctx_after (firstn (S k) (List.map (fun e : node * nat * nat => open_tok (fst (fst e))) l)) c) = ty).
    { induction l as [|e0 l IHl]; intros k c e ty a m cs Hk He; [destruct k; discriminate|]. destruct k as [|k].
      - cbn in Hk. inversion Hk; subst. cbn [List.map firstn ctx_after fold_left]. rewrite He. reflexivity.
      - cbn [nth_error] in Hk. cbn [List.map firstn ctx_after fold_left].
        fold (ctx_after (firstn (S k) (List.map (fun e : node * nat * nat => open_tok (fst (fst e))) l)) (step_ctx c (open_tok (fst (fst e0))))).
        apply (IHl k _ e ty a m cs Hk He). }
    destruct (resolve_in_shape s _ _ _ _ _ Rf (S d') n i o) as ((ty & a & m & cs & ->) & _); [exact Enth|].
    rewrite (G rest d' _ _ ty a m cs Enth eq_refl). reflexivity.
Qed.

(* ------------------------------------------------------------------ the re-marked slice *)
Definition ctx_at (doc : node) (pos : nat) : ctx :=
  ctx_after (firstn pos (ftoks (node_content doc))) ([], node_ty s doc).

(* the specification: tokens of [from, to) re-marked in their document context, everything else as it was *)
Definition remarked (doc : node) (from to : nat) : list tok :=
  let T := ftoks (node_content doc) in
  firstn from T ++ tmap (ctx_at doc from) (seg T from to) ++ skipn to T.

Lemma tmap_indep : (forall p p' ty ms, u p ty ms = u p' ty ms) -> forall l c c', tmap c l = tmap c' l.
Proof.
  intros Hu. assert (Hf : forall p p' t, ftok p t = ftok p' t).
  { intros p p' [ty a ms| |ty a ms|ch ms]; cbn [ftok]; unfold retag; try reflexivity;
      destruct (is_inline_ty s _); try reflexivity; rewrite (Hu p p'); reflexivity. }
  induction l as [|t l IH]; intros c c'; [reflexivity|]. cbn [tmap]. rewrite (Hf (snd c) (snd c')). f_equal. apply IH.
Qed.

Lemma repeat_close_tmap c k : tmap c (repeat TClose k) = repeat TClose k.
Proof. revert c. induction k as [|k IH]; intros c; [reflexivity|]. cbn [repeat tmap ftok]. rewrite IH. reflexivity. Qed.

Lemma mapped_slice_IT f parent doc from to sl :
  (forall n p, is_inline_ty s (node_ty s n) = true -> f n p = Fu n p) ->
  from < to -> node_slice s doc from to = Ok sl ->
  (forall rf d n, resolve s doc from = Ok rf -> shared_depth s rf to = Ok d -> rp_node rf d = Ok n ->
     node_ty s parent = node_ty s n \/ (forall p p' ty ms, u p ty ms = u p' ty ms)) ->
  IT (SL (map_fragment s f parent (sl_content sl)) (sl_open_start sl) (sl_open_end sl)) =
  nt (tmap (ctx_at doc from) (seg (ftoks (node_content doc)) from to)).
Proof.
  intros Hf Hlt Hs Hpar.
  destruct (node_slice_inv _ _ _ _ Hlt Hs) as
    (rf & d & n & st & X & Y & content & Er & Ed & En & Ec & -> & Htk & HlX & Hst & Hto & HopF & Hd & Hty).
  cbn [sl_content sl_open_start sl_open_end].
  assert (Hle' : from - st <= to - st) by lia. assert (Hlt' : from - st < to - st) by lia.
  destruct (frag_cut_toks_gen s _ _ _ _ Hle' Ec) as (_ & Hcut). specialize (Hcut Hlt').
  set (opens := opens_l (node_content n) 0 (from - st)) in *.
  set (S := seg (ftoks (node_content n)) (from - st) (to - st)) in *.
  unfold SliceTokens.closes_l in Hcut. set (k := length (SliceTokens.opens_l s (node_content n) 0 (to - st))) in *.
  (* the document context at `from` *)
  set (c00 := ctx_after (firstn d (opens_l (node_content doc) 0 from)) ([], node_ty s doc)) in *.
  assert (HcF : ctx_at doc from = ctx_after opens c00).
  { assert (Hfd : from <= fsize (node_content doc)).
    { pose proof (f_equal (@length tok) Htk) as Hl. rewrite !app_length, !ftoks_length in Hl. lia. }
    unfold ctx_at. rewrite (ctx_prefix _ _ _ Hfd). rewrite HopF. rewrite ctx_after_app. reflexivity. }
  assert (HS : S = seg (ftoks (node_content doc)) from to).
  { unfold S. rewrite Htk. rewrite seg_in_middle by (rewrite ?ftoks_length; lia). rewrite HlX. reflexivity. }
  (* the tokens of the mapped content *)
  assert (Hmap : nt (ftoks (map_fragment s f parent content)) =
                 nt (tmap (fst c00, node_ty s parent) opens) ++ nt (tmap (ctx_after opens (fst c00, node_ty s parent)) S) ++ nt (repeat TClose k)).
  { rewrite (map_fragment_tmap f parent (fst c00) content Hf), Hcut, !tmap_app, repeat_close_tmap, !nt_app. reflexivity. }
  assert (Hctx : tmap (ctx_after opens (fst c00, node_ty s parent)) S = tmap (ctx_at doc from) S).
  { destruct (Hpar _ _ _ Er Ed En) as [Hp|Hu].
    - rewrite HcF. rewrite Hp, <- Hty. destruct c00; reflexivity.
    - apply tmap_indep. exact Hu. }
  unfold IT, inner_toks. cbn [sl_content sl_open_start sl_open_end]. unfold nt in *. rewrite <- firstn_map, <- skipn_map.
  rewrite Hmap.
  assert (L1 : length (List.map tnorm (tmap (fst c00, node_ty s parent) opens)) = length opens) by (rewrite map_length; apply tmap_length).
  assert (Llen : length (ftoks (map_fragment s f parent content)) = length opens + length S + k).
  { rewrite <- (map_length tnorm), Hmap, !app_length, !map_length, !tmap_length, repeat_length. lia. }
  rewrite Llen. rewrite skipn_exact by (rewrite L1; reflexivity).
  replace (length opens + length S + k - length opens - k) with (length S) by lia.
  rewrite firstn_exact by (rewrite map_length, tmap_length; reflexivity).
  rewrite Hctx, HS. reflexivity.
Qed.

(* ------------------------------------------------------------------ the specification, token by token *)
Lemma tmap_nth : forall l c j t, nth_error l j = Some t ->
  nth_error (tmap c l) j = Some (ftok (snd (ctx_after (firstn j l) c)) t).
Proof.
  induction l as [|x l IH]; intros c j t H; [destruct j; discriminate|]. destruct j as [|j].
  - cbn in H. inversion H; subst. reflexivity.
  - cbn [nth_error] in H. cbn [tmap nth_error firstn ctx_after fold_left]. apply (IH _ _ _ H).
Qed.

Lemma ctx_at_split doc from j : ctx_after (firstn j (skipn from (ftoks (node_content doc)))) (ctx_at doc from) = ctx_at doc (from + j).
Proof.
  unfold ctx_at. rewrite <- ctx_after_app. f_equal. rewrite Nat.add_comm.
  rewrite (firstn_skipn_split (ftoks (node_content doc)) from (j + from)) by lia. f_equal. f_equal. lia.
Qed.

(* token number i of the result: re-marked in the context of the node that encloses it, if i is in the range;
   the old token otherwise *)
Theorem remarked_nth doc from to i t :
  from <= to -> to <= length (ftoks (node_content doc)) ->
  nth_error (ftoks (node_content doc)) i = Some t ->
  nth_error (remarked doc from to) i =
    Some (if (from <=? i) && (i <? to) then ftok (snd (ctx_at doc i)) t else t).
Proof.
  intros Hft Hto Hn. unfold remarked. set (T := ftoks (node_content doc)) in *.
  assert (LA : length (firstn from T) = from) by (rewrite firstn_length; lia).
  assert (LS : length (seg T from to) = to - from) by (unfold seg; rewrite firstn_length, skipn_length; lia).
  destruct (from <=? i) eqn:E1; cbn [andb].
  - apply Nat.leb_le in E1. destruct (i <? to) eqn:E2.
    + apply Nat.ltb_lt in E2. rewrite nth_error_app2 by lia. rewrite LA.
      rewrite nth_error_app1 by (rewrite tmap_length; lia).
      assert (Hs : nth_error (seg T from to) (i - from) = Some t).
      { unfold seg. rewrite nth_firstn by lia. rewrite nth_skipn. replace (from + (i - from)) with i by lia. exact Hn. }
      rewrite (tmap_nth _ _ _ _ Hs). f_equal. f_equal. f_equal.
      unfold seg. rewrite firstn_firstn, Nat.min_l by lia. unfold T. rewrite ctx_at_split. f_equal. lia.
    + apply Nat.ltb_ge in E2. rewrite nth_error_app2 by lia. rewrite LA.
      rewrite nth_error_app2 by (rewrite tmap_length; lia). rewrite tmap_length, LS, nth_skipn. rewrite <- Hn. f_equal. lia.
  - apply Nat.leb_gt in E1. rewrite nth_error_app1 by lia. rewrite nth_firstn by lia. exact Hn.
Qed.

Lemma remarked_length doc from to : from <= to -> to <= length (ftoks (node_content doc)) ->
  length (remarked doc from to) = length (ftoks (node_content doc)).
Proof.
  intros Hft Hto. unfold remarked. rewrite !app_length, tmap_length, firstn_length, skipn_length.
  unfold seg. rewrite firstn_length, skipn_length. lia.
Qed.

End WithSchema.

(* ------------------------------------------------------------------ the two mark steps *)
Section Steps.
Variable s : schema.
Notation ftoks := (ftoks s).
Notation V := (V s).
Notation DT := (DT s).
Notation IT := (IT s).

(* AddMarkStep: atoms (text, leaves, atom nodes) whose parent type allows the mark type get it added by
   Mark.add_to_set (C14 says what that does); everything else is left alone *)
Definition u_add (m : mark) : upd :=
  fun p ty ms => if is_atom_ty s ty && allows_mark_type s p (m_ty m) then add_to_set s m ms else ms.
(* RemoveMarkStep: the mark is removed from every inline token *)
Definition u_remove (m : mark) : upd := fun _ _ ms => remove_from_set m ms.

Definition step_upd (st : step) : upd :=
  match st with
  | SAddMark _ _ m => u_add m
  | SRemoveMark _ _ m => u_remove m
  | _ => fun _ _ ms => ms
  end.

Lemma add_mark_f_Fu m n p : add_mark_f s m n p = Fu s (u_add m) n p.
Proof.
  unfold add_mark_f, Fu, u_add. destruct (is_atom_ty s (node_ty s n)); destruct (allows_mark_type s (node_ty s p) (m_ty m));
    cbn [negb orb andb]; try reflexivity; symmetry; apply node_mark_same.
Qed.
Lemma remove_mark_f_Fu m n p : remove_mark_f m n p = Fu s (u_remove m) n p.
Proof. reflexivity. Qed.

Theorem mark_step_pointwise st from to doc d' :
  V doc -> from <= to -> mark_step_range st = Some (from, to) -> apply s st doc = ROk d' ->
  DT d' = nt (remarked s (step_upd st) doc from to).
Proof.
  intros Hd Hft Hr H.
  (* an empty range: nothing happens *)
  destruct (Nat.eq_dec from to) as [->|Hne].
  { destruct (mark_step_tokens s _ _ _ _ _ Hd Hft Hr H) as (_ & H1 & H2 & _).
    unfold remarked. rewrite seg_nil by lia. cbn [tmap app]. rewrite nt_app.
    unfold DT in *. unfold nt in *. rewrite <- firstn_map, <- skipn_map. rewrite <- H1, <- H2. symmetry. apply firstn_skipn. }
  assert (Hlt : from < to) by lia.
  assert (Hgen : forall f parent old,
            node_slice s doc from to = Ok old ->
            (forall n p, is_inline_ty s (node_ty s n) = true -> f n p = Fu s (step_upd st) n p) ->
            (forall rf d n, resolve s doc from = Ok rf -> shared_depth s rf to = Ok d -> rp_node rf d = Ok n ->
               node_ty s parent = node_ty s n \/ (forall p p' ty ms, step_upd st p ty ms = step_upd st p' ty ms)) ->
            MarkOnly f ->
            node_replace s doc from to (SL (map_fragment s f parent (sl_content old)) (sl_open_start old) (sl_open_end old)) = Ok d' ->
            DT d' = nt (remarked s (step_upd st) doc from to)).
  { intros f parent old Eo Hf Hpar Hmo Er.
    destruct (node_slice_IT s _ _ _ _ Hft Eo) as (Hso & _).
    set (new := SL (map_fragment s f parent (sl_content old)) (sl_open_start old) (sl_open_end old)) in *.
    assert (Hsn : SliceShape.Shape s (sl_content new) (sl_open_start new) (sl_open_end new)).
    { unfold new. cbn [sl_content sl_open_start sl_open_end]. apply map_fragment_Shape; auto. }
    assert (Ha : apply s (SReplace from to new false) doc = ROk d').
    { cbn [apply]. unfold lift, from_replace. rewrite Er. reflexivity. }
    destruct (replace_step_splice s _ _ _ _ _ _ Hd Hsn Ha) as (_ & _ & E).
    rewrite E. unfold new. rewrite (mapped_slice_IT s (step_upd st) f parent doc from to old Hf Hlt Eo Hpar).
    unfold remarked, DT. rewrite !nt_app. unfold nt. rewrite <- firstn_map, <- skipn_map. reflexivity. }
  destruct st; try discriminate; cbn [mark_step_range] in Hr; inversion Hr; subst; cbn [apply] in H; unfold lift in H.
  - destruct (node_slice s doc from to) as [old|] eqn:Eo; [|discriminate].
    destruct (resolve s doc from) as [rf|] eqn:Erf; [|discriminate].
    destruct (shared_depth s rf to) as [sd|] eqn:Esd; [|discriminate].
    destruct (rp_node rf sd) as [parent|] eqn:Epn; [|discriminate].
    unfold from_replace in H.
    destruct (node_replace s doc from to _) as [d|e] eqn:Er; [|destruct e; discriminate]. inversion H; subst d.
    eapply (Hgen (add_mark_f s m) parent old eq_refl); [| |apply add_mark_f_MarkOnly|exact Er].
    + intros n p _. apply add_mark_f_Fu.
    + intros rf2 d2 n2 Hrf2 Hd2 Hn2. left. inversion Hrf2; subst rf2. rewrite Esd in Hd2. inversion Hd2; subst d2. rewrite Epn in Hn2.
      inversion Hn2. reflexivity.
  - destruct (node_slice s doc from to) as [old|] eqn:Eo; [|discriminate].
    unfold from_replace in H.
    destruct (node_replace s doc from to _) as [d|e] eqn:Er; [|destruct e; discriminate]. inversion H; subst d.
    eapply (Hgen (remove_mark_f m) doc old eq_refl); [| |apply remove_mark_f_MarkOnly|exact Er].
    + intros n p _. apply remove_mark_f_Fu.
    + intros rf2 d2 n2 _ _ _. right. reflexivity.
Qed.

End Steps.
