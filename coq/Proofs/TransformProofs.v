(* History invariant of Transform (C04 a, C10 accumulators) *)
From Coq Require Import ZArith List Bool Arith Lia.
From PM Require Import Model.Data Model.Mark Model.Tree Model.StepMap Model.Step Model.Transform.
Import ListNotations.

Section WithSchema.
Variable s : schema.

(* docs[i] --steps[i]--> docs[i+1] (the current doc after the last one), maps[i] = steps[i].get_map() *)
Fixpoint chain (d0 : node) (steps : list step) (docs : list node) (maps : list stepmap) (final : node) : Prop :=
  match steps, docs, maps with
  | [], [], [] => d0 = final
  | st :: steps', d :: docs', m :: maps' =>
    d = d0 /\ m = get_map s st /\
    exists d1, apply s st d = ROk d1 /\ chain d1 steps' docs' maps' final
  | _, _, _ => False
  end.

Definition Inv (t : transform) : Prop :=
  chain (tr_before t) (t_steps t) (t_docs t) (t_maps t) (t_doc t).

Lemma chain_snoc : forall steps d0 docs maps final st d',
  chain d0 steps docs maps final -> apply s st final = ROk d' ->
  chain d0 (steps ++ [st]) (docs ++ [final]) (maps ++ [get_map s st]) d'.
Proof.
  induction steps as [|st0 steps IH]; intros d0 docs maps final st d' H Ha.
  - destruct docs; destruct maps; simpl in H; try contradiction. subst d0. simpl.
    repeat split; auto. exists d'. split; auto.
  - destruct docs as [|d docs]; destruct maps as [|m maps]; simpl in H; try contradiction.
    destruct H as (Hd & Hm & d1 & Hap & Hc). simpl. repeat split; auto.
    exists d1. split; auto.
Qed.

Lemma Inv_init d : Inv (tr_init d).
Proof. unfold Inv, tr_init, tr_before. simpl. reflexivity. Qed.

Lemma before_add_step t st d' : Inv t -> tr_before (add_step s t st d') = tr_before t.
Proof.
  unfold Inv, tr_before, add_step. simpl. destruct (t_docs t) as [|d docs] eqn:E; simpl; auto.
Qed.

Theorem maybe_step_Inv t st : Inv t -> Inv (fst (maybe_step s t st)).
Proof.
  intros H. unfold maybe_step. destruct (apply s st (t_doc t)) as [d'| |e] eqn:E; simpl; auto.
  unfold Inv. rewrite before_add_step by auto. unfold add_step; simpl.
  apply chain_snoc; auto.
Qed.

(* any sequence of attempted steps — including ones that are refused or raise
   half-way through a high-level operation — keeps the recorded arrays aligned
   and replayable *)
Theorem history_Inv d sts :
  Inv (fold_left (fun t st => fst (maybe_step s t st)) sts (tr_init d)).
Proof.
  assert (H : forall t, Inv t -> Inv (fold_left (fun t st => fst (maybe_step s t st)) sts t)).
  { induction sts as [|st sts IH]; simpl; auto. intros t Ht. apply IH. apply maybe_step_Inv; auto. }
  apply H. apply Inv_init.
Qed.

(* consequences *)
Lemma chain_lengths : forall steps d0 docs maps final,
  chain d0 steps docs maps final -> length docs = length steps /\ length maps = length steps.
Proof.
  induction steps as [|st steps IH]; intros d0 docs maps final H;
    destruct docs; destruct maps; simpl in H; try contradiction; auto.
  destruct H as (_ & _ & d1 & _ & Hc). destruct (IH _ _ _ _ Hc). simpl. auto.
Qed.

Fixpoint replay (d : node) (steps : list step) : sresult :=
  match steps with
  | [] => ROk d
  | st :: r => match apply s st d with ROk d' => replay d' r | x => x end
  end.

Lemma chain_replay : forall steps d0 docs maps final,
  chain d0 steps docs maps final -> replay d0 steps = ROk final.
Proof.
  induction steps as [|st steps IH]; intros d0 docs maps final H;
    destruct docs; destruct maps; simpl in H; try contradiction.
  - subst; reflexivity.
  - destruct H as (Hd & _ & d1 & Ha & Hc). subst n. simpl. rewrite Ha. eapply IH; eauto.
Qed.

Theorem history_replay d sts :
  let t := fold_left (fun t st => fst (maybe_step s t st)) sts (tr_init d) in
  replay (tr_before t) (t_steps t) = ROk (t_doc t) /\
  length (t_docs t) = length (t_steps t) /\ length (t_maps t) = length (t_steps t) /\
  t_maps t = List.map (get_map s) (t_steps t).
Proof.
  cbn zeta. pose proof (history_Inv d sts) as H. unfold Inv in H.
  set (t := fold_left _ sts (tr_init d)) in *.
  split; [eapply chain_replay; eauto|].
  destruct (chain_lengths _ _ _ _ _ H). repeat split; auto.
  clear -H. revert H. generalize (tr_before t) (t_docs t) (t_maps t) (t_doc t).
  induction (t_steps t) as [|st steps IH]; intros d0 docs maps final H;
    destruct docs; destruct maps; simpl in H; try contradiction; auto.
  destruct H as (_ & Hm & d1 & _ & Hc). simpl. f_equal; eauto.
Qed.

(* the accumulators only grow by appending (C10) *)
Theorem accumulators_append_only t st :
  let t' := fst (maybe_step s t st) in
  exists a b c, t_steps t' = t_steps t ++ a /\ t_docs t' = t_docs t ++ b /\ t_maps t' = t_maps t ++ c.
Proof.
  cbn zeta. unfold maybe_step. destruct (apply s st (t_doc t)); simpl.
  - eexists _, _, _. repeat split; reflexivity.
  - exists [], [], []. rewrite !app_nil_r. auto.
  - exists [], [], []. rewrite !app_nil_r. auto.
Qed.

End WithSchema.
