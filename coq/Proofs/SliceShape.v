(* Slices whose open sides have the claimed depth ([Shape]: the first os first-children and the last oe
   last-children are non-leaf element nodes) satisfy what the splice theorem needs of the positions
   prepare_slice resolves; hence Node.replace is a splice of the token sequence for every such slice (C02). *)
From Coq Require Import ZArith NArith List Bool Arith Lia.
From PM Require Import Model.Data Model.Mark Model.Tree Spec.Tokens Proofs.DataProofs Proofs.NodeInd
  Proofs.ReplaceValid Proofs.SliceSides Proofs.TokenBasics Proofs.PathTokens Proofs.ReplaceTokens.
Import ListNotations.

Section WithSchema.
Variable s : schema.
Notation nsize := (node_size s).
Notation fsize := (frag_size s).
Notation toks := (toks s).
Notation ftoks := (ftoks s).
Notation entry := (node * nat * nat)%type.

Definition nl_ty (ty : nat) : Prop := is_leaf_ty s ty = false.

Fixpoint ShapeL (l : list node) (k : nat) : Prop :=
  match k with
  | 0 => True
  | S k' => match l with Elem ty a m cs :: r => nl_ty ty /\ ShapeL cs k' | _ => False end
  end.
Fixpoint ShapeR (l : list node) (k : nat) : Prop :=
  match k with
  | 0 => True
  | S k' => exists r ty a m cs, l = r ++ [Elem ty a m cs] /\ nl_ty ty /\ ShapeR cs k'
  end.
Fixpoint Shape (l : list node) (os oe : nat) : Prop :=
  match os with
  | 0 => ShapeR l oe
  | S a =>
    match oe with
    | 0 => ShapeL l os
    | S b =>
      (exists ty at_ m cs, l = [Elem ty at_ m cs] /\ nl_ty ty /\ Shape cs a b) \/
      (exists ty1 a1 m1 cs1 mid ty2 a2 m2 cs2,
          l = Elem ty1 a1 m1 cs1 :: mid ++ [Elem ty2 a2 m2 cs2] /\ nl_ty ty1 /\ nl_ty ty2 /\
          ShapeL cs1 a /\ ShapeR cs2 b)
    end
  end.

Lemma OpenL_ShapeL : forall k l, OpenL s l k -> ShapeL l k.
Proof.
  induction k as [|k IH]; intros l H; [exact I|]. cbn [OpenL ShapeL] in *.
  destruct l as [|[t m|ty a m cs] r]; try contradiction. destruct H as ((Hn & _) & Hl & _). split; auto.
Qed.
Lemma OpenR_ShapeR : forall k l, OpenR s l k -> ShapeR l k.
Proof.
  induction k as [|k IH]; intros l H; [exact I|]. cbn [OpenR ShapeR] in *.
  destruct H as (r & ty & a & m & cs & -> & (Hn & _) & Hl & _). exists r, ty, a, m, cs. auto.
Qed.
Lemma OpenOK_Shape : forall os oe l, OpenOK s l os oe -> Shape l os oe.
Proof.
  induction os as [|a IH]; intros oe l H; cbn [OpenOK Shape] in *; [apply OpenR_ShapeR; auto|].
  destruct oe as [|b]; [apply (OpenL_ShapeL (S a)); auto|].
  destruct H as [(ty & at_ & m & cs & -> & (Hn & _) & Ho)|(ty1 & a1 & m1 & cs1 & mid & ty2 & a2 & m2 & cs2 & -> & (Hn1 & _) & (Hn2 & _) & Hl & Hr & _)].
  - left. exists ty, at_, m, cs. repeat split; auto.
  - right. exists ty1, a1, m1, cs1, mid, ty2, a2, m2, cs2. repeat split; auto using OpenL_ShapeL, OpenR_ShapeR.
Qed.

Lemma nl_size ty a m cs : nl_ty ty -> nsize (Elem ty a m cs) = 2 + fsize cs.
Proof. intros H. rewrite node_size_elem. unfold nl_ty in H. rewrite H. reflexivity. Qed.

Lemma ShapeL_size : forall k l, ShapeL l k -> k <= fsize l.
Proof.
  induction k as [|k IH]; intros l H; [lia|]. cbn [ShapeL] in H.
  destruct l as [|[t m|ty a m cs] r]; try contradiction. destruct H as (Hs & Hl).
  cbn [frag_size]. rewrite (nl_size _ _ _ _ Hs). specialize (IH _ Hl). lia.
Qed.
Lemma ShapeR_size : forall k l, ShapeR l k -> k <= fsize l.
Proof.
  induction k as [|k IH]; intros l H; [lia|]. cbn [ShapeR] in H.
  destruct H as (r & ty & a & m & cs & -> & Hs & Hl).
  rewrite frag_size_app. cbn [frag_size]. rewrite (nl_size _ _ _ _ Hs). specialize (IH _ Hl). lia.
Qed.
Lemma Shape_size : forall os oe l, Shape l os oe -> os + oe <= fsize l.
Proof.
  induction os as [|a IH]; intros oe l H.
  - cbn [Shape] in H. cbn. apply ShapeR_size; auto.
  - destruct oe as [|b]; cbn [Shape] in H.
    + rewrite Nat.add_0_r. apply ShapeL_size; auto.
    + destruct H as [(ty & at_ & m & cs & -> & Hs & Ho)|(ty1 & a1 & m1 & cs1 & mid & ty2 & a2 & m2 & cs2 & -> & Hs1 & Hs2 & Hl & Hr)].
      * cbn [frag_size]. rewrite (nl_size _ _ _ _ Hs). specialize (IH _ _ Ho). lia.
      * cbn [frag_size]. rewrite frag_size_app. cbn [frag_size].
        rewrite (nl_size _ _ _ _ Hs1), (nl_size _ _ _ _ Hs2).
        pose proof (ShapeL_size _ _ Hl). pose proof (ShapeR_size _ _ Hr). lia.
Qed.

(* ---------------------------------------------------------------- resolving at the very end of a node *)
Lemma rwalk_at_end2 n po start : forall l i cur,
  l <> [] -> cur + fsize l = po ->
  exists i', i < i' /\ rwalk s n po start l i cur = Ok ([(n, i', start + po)], po).
Proof.
  induction l as [|c r IH]; intros i cur Hne Hsz; [congruence|].
  cbn [rwalk]. cbn [frag_size] in Hsz.
  destruct (cur + nsize c =? po) eqn:E1.
  - apply Nat.eqb_eq in E1. exists (S i). split; [lia|]. rewrite E1. reflexivity.
  - apply Nat.eqb_neq in E1.
    destruct (po <? cur + nsize c) eqn:E2; [apply Nat.ltb_lt in E2; lia|].
    destruct (IH (S i) (cur + nsize c)) as (i' & Hi' & He); [|lia|].
    + intros ->. cbn [frag_size] in Hsz. lia.
    + exists i'. split; [lia|exact He].
Qed.

Lemma resolve_in_at_end2 ty a m cs start :
  exists i, (fsize cs <> 0 -> 0 < i) /\
    resolve_in s (Elem ty a m cs) (fsize cs) start = Ok ([(Elem ty a m cs, i, start + fsize cs)], fsize cs).
Proof.
  rewrite resolve_in_unfold. destruct (fsize cs =? 0) eqn:E.
  - apply Nat.eqb_eq in E. exists 0. split; [congruence|]. rewrite E, Nat.add_0_r. reflexivity.
  - destruct (rwalk_at_end2 (Elem ty a m cs) (fsize cs) start cs 0 0) as (i' & Hi' & He); [|lia|].
    + intros ->. cbn in E. discriminate.
    + exists i'. split; [intros _; lia|exact He].
Qed.

(* ---------------------------------------------------------------- the paths along the two open sides *)
Lemma last_off_single n i o : last_off [(n, i, o)] = o.
Proof. reflexivity. Qed.
Lemma last_off_cons e p : p <> [] -> last_off (e :: p) = last_off p.
Proof. intros H. unfold last_off. rewrite last_entry_cons by exact H. reflexivity. Qed.

Lemma shape_left : forall k l ty a m start p po',
  ShapeL l k -> resolve_in s (Elem ty a m l) k start = Ok (p, po') ->
  length p = S k /\ last_off p = start + k /\ exists o rest, p = (Elem ty a m l, 0, o) :: rest.
Proof.
  induction k as [|k IH]; intros l ty a m start p po' Hs H.
  - rewrite resolve_in_unfold in H. cbn in H. inversion H; subst. rewrite last_off_single. split; [reflexivity|]. split; [lia|eauto].
  - cbn [ShapeL] in Hs. destruct l as [|[t0 m0|ty1 a1 m1 cs1] r]; try contradiction. destruct Hs as (Hn & Hl).
    pose proof (ShapeL_size _ _ Hl) as Hsz.
    pose proof (resolve_in_descend s ty a m [] ty1 a1 m1 cs1 r (S k) start) as Hd. cbn [app frag_size length] in Hd.
    rewrite Hd in H by (rewrite ?(nl_size _ _ _ _ Hn); lia). clear Hd. replace (S k - 0 - 1) with k in H by lia.
    destruct (resolve_in s (Elem ty1 a1 m1 cs1) k (start + 0 + 1)) as [[p1 pp1]|] eqn:E1; [|discriminate].
    cbn [bind fst snd] in H. inversion H; subst p po'. clear H.
    destruct (IH _ _ _ _ _ _ _ Hl E1) as (Hlen & Hlo & (o1 & rest1 & Hp1)).
    split; [cbn [length]; lia|]. split; [|eauto].
    rewrite last_off_cons by (rewrite Hp1; discriminate). lia.
Qed.

Lemma shape_right : forall k l ty a m start p po',
  ShapeR l k -> resolve_in s (Elem ty a m l) (fsize l - k) start = Ok (p, po') ->
  length p = S k /\ last_off p = start + (fsize l - k) /\
  exists i o rest, p = (Elem ty a m l, i, o) :: rest /\ (k = 0 -> fsize l <> 0 -> 0 < i) /\ (0 < k -> i = length l - 1).
Proof.
  induction k as [|k IH]; intros l ty a m start p po' Hs H.
  - rewrite Nat.sub_0_r in *. destruct (resolve_in_at_end2 ty a m l start) as (i & Hi & He). rewrite He in H.
    inversion H; subst. rewrite last_off_single. split; [reflexivity|]. split; [lia|]. exists i, (start + fsize l), [].
    split; [reflexivity|]. split; [auto|lia].
  - cbn [ShapeR] in Hs. destruct Hs as (r & ty1 & a1 & m1 & cs1 & -> & Hn & Hl).
    pose proof (ShapeR_size _ _ Hl) as Hsz. pose proof (nl_size _ a1 m1 cs1 Hn) as Hss.
    assert (Hfs : fsize (r ++ [Elem ty1 a1 m1 cs1]) = fsize r + (2 + fsize cs1))
      by (rewrite frag_size_app; cbn [frag_size]; rewrite Hss; lia).
    rewrite (resolve_in_descend s ty a m r ty1 a1 m1 cs1 [] _ start) in H by (rewrite Hfs, ?Hss; lia).
    rewrite Hfs in *. replace (fsize r + (2 + fsize cs1) - S k - fsize r - 1) with (fsize cs1 - k) in H by lia.
    destruct (resolve_in s (Elem ty1 a1 m1 cs1) (fsize cs1 - k) (start + fsize r + 1)) as [[p1 pp1]|] eqn:E1; [|discriminate].
    cbn [bind fst snd] in H. inversion H; subst p po'. clear H.
    destruct (IH _ _ _ _ _ _ _ Hl E1) as (Hlen & Hlo & (i1 & o1 & rest1 & Hp1 & _)).
    split; [cbn [length]; lia|]. split.
    + rewrite last_off_cons by (rewrite Hp1; discriminate). lia.
    + exists (length r), (start + fsize r), p1. split; [reflexivity|]. split; [lia|]. intros _. rewrite app_length. cbn. lia.
Qed.

Lemma shape_both : forall os oe l ty a m s1 s2 ps po1 pe po2,
  Shape l os oe ->
  resolve_in s (Elem ty a m l) os s1 = Ok (ps, po1) ->
  resolve_in s (Elem ty a m l) (fsize l - oe) s2 = Ok (pe, po2) ->
  length ps = S os /\ length pe = S oe /\ last_off ps = s1 + os /\ last_off pe = s2 + (fsize l - oe) /\ ple ps pe.
Proof.
  induction os as [|a0 IH]; intros oe l ty a m s1 s2 ps po1 pe po2 Ho Hs He.
  - cbn [Shape] in Ho. destruct (shape_right _ _ _ _ _ _ _ _ Ho He) as (Hlen & Hlo & (i & o & rest & Hp & _)).
    rewrite resolve_in_unfold in Hs. cbn in Hs. inversion Hs; subst ps po1.
    rewrite last_off_single. split; [reflexivity|]. split; [exact Hlen|]. split; [lia|]. split; [exact Hlo|].
    rewrite Hp. cbn [ple]. lia.
  - destruct oe as [|b]; cbn [Shape] in Ho.
    + destruct (shape_left _ _ _ _ _ _ _ _ Ho Hs) as (Hlen & Hlo & (o1 & rest1 & Hp1)).
      pose proof (ShapeL_size _ _ Ho) as Hsz.
      destruct (shape_right 0 _ _ _ _ _ _ _ I He) as (Hlen2 & Hlo2 & (i & o & rest & Hp & Hi & _)).
      split; [exact Hlen|]. split; [exact Hlen2|]. split; [exact Hlo|]. split; [exact Hlo2|].
      assert (rest = []) by (rewrite Hp in Hlen2; cbn [length] in Hlen2; destruct rest; [reflexivity|cbn in Hlen2; lia]). subst rest.
      rewrite Hp1, Hp. destruct rest1 as [|e1 rest1]; [rewrite Hp1 in Hlen; cbn in Hlen; lia|].
      cbn [ple]. apply Hi; [reflexivity|lia].
    + destruct Ho as [(ty1 & a1 & m1 & cs1 & -> & Hn & Ho)|
                      (ty1 & a1 & m1 & cs1 & mid & ty2 & a2 & m2 & cs2 & -> & Hn1 & Hn2 & Hl & Hr)].
      * pose proof (Shape_size _ _ _ Ho) as Hsz. pose proof (nl_size _ a1 m1 cs1 Hn) as Hss.
        pose proof (resolve_in_descend s ty a m [] ty1 a1 m1 cs1 [] (S a0) s1) as Hd. cbn [app frag_size length] in Hd.
        rewrite Hd in Hs by (rewrite ?Hss; lia). clear Hd. replace (S a0 - 0 - 1) with a0 in Hs by lia.
        destruct (resolve_in s (Elem ty1 a1 m1 cs1) a0 (s1 + 0 + 1)) as [[ps1 pp1]|] eqn:E1; [|discriminate].
        cbn [bind fst snd] in Hs. inversion Hs; subst ps po1. clear Hs.
        pose proof (resolve_in_descend s ty a m [] ty1 a1 m1 cs1 [] (fsize [Elem ty1 a1 m1 cs1] - S b) s2) as Hd.
        cbn [app frag_size length] in Hd. cbn [frag_size] in He. rewrite Hss in *.
        rewrite Hd in He by lia. clear Hd.
        replace (2 + fsize cs1 + 0 - S b - 0 - 1) with (fsize cs1 - b) in He by lia.
        destruct (resolve_in s (Elem ty1 a1 m1 cs1) (fsize cs1 - b) (s2 + 0 + 1)) as [[pe1 pp2]|] eqn:E2; [|discriminate].
        cbn [bind fst snd] in He. inversion He; subst pe po2. clear He.
        destruct (IH _ _ _ _ _ _ _ _ _ _ _ Ho E1 E2) as (Hl1 & Hl2 & Ho1 & Ho2 & Hple).
        assert (Hn1 : ps1 <> []) by (intros ->; discriminate). assert (Hn2 : pe1 <> []) by (intros ->; discriminate).
        split; [cbn [length]; lia|]. split; [cbn [length]; lia|].
        rewrite !last_off_cons by assumption. split; [lia|]. split; [cbn [frag_size]; rewrite Hss; lia|].
        destruct ps1 as [|e1 ps1]; [congruence|]. destruct pe1 as [|e2 pe1]; [congruence|].
        cbn [ple]. right. split; [reflexivity|exact Hple].
      * pose proof (ShapeL_size _ _ Hl) as Hsa. pose proof (ShapeR_size _ _ Hr) as Hsb.
        pose proof (nl_size _ a1 m1 cs1 Hn1) as Hss1. pose proof (nl_size _ a2 m2 cs2 Hn2) as Hss2.
        set (c1 := Elem ty1 a1 m1 cs1) in *. set (c2 := Elem ty2 a2 m2 cs2) in *.
        pose proof (resolve_in_descend s ty a m [] ty1 a1 m1 cs1 (mid ++ [c2]) (S a0) s1) as Hd.
        cbn [app frag_size length] in Hd. fold c1 in Hd.
        rewrite Hd in Hs by (rewrite ?Hss1; lia). clear Hd. replace (S a0 - 0 - 1) with a0 in Hs by lia.
        destruct (resolve_in s c1 a0 (s1 + 0 + 1)) as [[ps1 pp1]|] eqn:E1; [|discriminate].
        cbn [bind fst snd] in Hs. inversion Hs; subst ps po1. clear Hs.
        assert (Hfs : fsize (c1 :: mid ++ [c2]) = fsize (c1 :: mid) + (2 + fsize cs2)).
        { change (c1 :: mid ++ [c2]) with ((c1 :: mid) ++ [c2]). rewrite frag_size_app. cbn [frag_size]. rewrite Hss2. lia. }
        pose proof (resolve_in_descend s ty a m (c1 :: mid) ty2 a2 m2 cs2 [] (fsize (c1 :: mid ++ [c2]) - S b) s2) as Hd.
        fold c2 in Hd. change ((c1 :: mid) ++ [c2]) with (c1 :: mid ++ [c2]) in Hd.
        rewrite Hd in He by (rewrite Hfs, ?Hss2; lia). clear Hd.
        rewrite Hfs in *.
        replace (fsize (c1 :: mid) + (2 + fsize cs2) - S b - fsize (c1 :: mid) - 1) with (fsize cs2 - b) in He by lia.
        destruct (resolve_in s c2 (fsize cs2 - b) (s2 + fsize (c1 :: mid) + 1)) as [[pe1 pp2]|] eqn:E2; [|discriminate].
        cbn [bind fst snd] in He. inversion He; subst pe po2. clear He.
        destruct (shape_left _ _ _ _ _ _ _ _ Hl E1) as (Hl1 & Ho1 & (o1 & rest1 & Hp1)).
        destruct (shape_right _ _ _ _ _ _ _ _ Hr E2) as (Hl2 & Ho2 & (i2 & o2 & rest2 & Hp2 & _)).
        split; [cbn [length]; lia|]. split; [cbn [length]; lia|].
        rewrite !last_off_cons by (rewrite ?Hp1, ?Hp2; discriminate). split; [lia|]. split; [lia|].
        rewrite Hp1, Hp2. cbn [ple length]. left. lia.
Qed.

(* ---------------------------------------------------------------- the prepared slice fits *)
Lemma resolve_in_IsPath n po start p po' : resolve_in s n po start = Ok (p, po') -> IsPath s n p.
Proof.
  intros H. destruct (resolve_in_spec s _ _ _ _ _ H) as ((i & o & rest & Hp) & Hl & _).
  eapply IsPath_of_linked; eauto. eapply resolve_in_shape; eauto.
Qed.

Lemma last_entry_app (wp p : list entry) : p <> [] -> last_entry (wp ++ p) = last_entry p.
Proof.
  intros Hp. induction wp as [|e wp IH]; [reflexivity|]. cbn [app].
  rewrite last_entry_cons; [exact IH|]. destruct wp; cbn; [exact Hp|discriminate].
Qed.
Lemma last_off_app (wp p : list entry) : p <> [] -> last_off (wp ++ p) = last_off p.
Proof. intros Hp. unfold last_off. rewrite last_entry_app by exact Hp. reflexivity. Qed.

Lemma rp_text_offset_last r : rp_text_offset r = rp_pos r - last_off (rp_path r).
Proof. reflexivity. Qed.

Lemma map_nth_same {A B} (f : A -> B) (l1 l2 : list A) d e1 :
  List.map f l1 = List.map f l2 -> nth_error l1 d = Some e1 -> exists e2, nth_error l2 d = Some e2 /\ f e1 = f e2.
Proof.
  intros Hm H1. pose proof (map_nth_error f _ _ H1) as H. rewrite Hm in H.
  destruct (nth_error l2 d) as [e2|] eqn:E2.
  - rewrite (map_nth_error f _ _ E2) in H. inversion H. eauto.
  - apply nth_error_None in E2. assert (d < length (List.map f l2)) by (apply nth_error_Some; congruence).
    rewrite map_length in *. lia.
Qed.

Lemma skipn_firstn_seg {A} (l : list A) a b : skipn a (firstn b l) = firstn (b - a) (skipn a l).
Proof. apply skipn_firstn_comm. Qed.

Lemma prepared_fits rf rt sl st en :
  PathV s rf -> PathShape s rf ->
  sl_open_start sl <= rp_depth rf ->
  rp_depth rt = rp_depth rf - sl_open_start sl + sl_open_end sl ->
  Shape (sl_content sl) (sl_open_start sl) (sl_open_end sl) ->
  prepare_slice s sl rf = Ok (st, en) ->
  PrepFits s rf rt sl st en.
Proof.
  intros Hv Hsh Hos Hdt Ho H. apply (prepare_slice_ok s) in H. unfold prepare_slice0 in H.
  set (os := sl_open_start sl) in *. set (oe := sl_open_end sl) in *. set (content := sl_content sl) in *.
  set (extra := rp_depth rf - os) in *.
  destruct (rp_node rf extra) as [parent|] eqn:Epar; [|discriminate]. cbn [bind] in H.
  destruct (Hsh _ _ Epar) as ((typ & ap & mp & csp & ->) & Hnlp). cbn [node_copy] in H.
  destruct (wrap_up rf extra (Elem typ ap mp content)) as [w|] eqn:Ew; [|discriminate]. cbn [bind] in H.
  destruct (wrap_resolve s rf extra typ ap mp content w Ew) as (Hfs & ws & Hlws & Hres).
  { intros d x Hd Hx. destruct (Hsh _ _ Hx) as [He Hn]. split; [exact He|]. split; [|exact Hn].
    apply V_MC. eapply rp_node_V; eauto. }
  { intros He. apply Hnlp in He. exact He. }
  destruct (fsize (node_content w) <? oe + extra); [discriminate|].
  destruct (resolve s w (os + extra)) as [st'|] eqn:Est; [|discriminate]. cbn [bind] in H.
  destruct (resolve s w (fsize (node_content w) - oe - extra)) as [en'|] eqn:Een; [|discriminate]. cbn [bind] in H.
  inversion H; subst st' en'. clear H.
  pose proof (Shape_size _ _ _ Ho) as Hsz. fold content os oe in Hsz.
  pose proof (resolve_PathShape s _ _ _ Een) as Hshe.
  destruct (resolve_spec s _ _ _ Est) as (Hps & Hls & _). destruct (resolve_spec s _ _ _ Een) as (Hpe & Hle & _).
  (* the left position *)
  unfold resolve in Est. destruct (fsize (node_content w) <? os + extra); [discriminate|].
  destruct (resolve_in s w (os + extra) 0) as [[p1 q1]|] eqn:R1; [|discriminate]. cbn [bind fst snd] in Est.
  destruct (Hres os 0 ltac:(lia)) as (wp1 & Hm1 & Hw1 & Heq1). rewrite Heq1 in R1.
  assert (Hl1 : length wp1 = extra) by (rewrite <- Hlws, <- Hm1, map_length; reflexivity).
  destruct (resolve_in s (Elem typ ap mp content) os (0 + extra)) as [[ps qs]|] eqn:Rs; [|discriminate].
  cbn [bind fst snd] in R1. inversion R1; subst p1 q1. clear R1 Heq1.
  (* the right position *)
  unfold resolve in Een. destruct (fsize (node_content w) <? fsize (node_content w) - oe - extra); [discriminate|].
  replace (fsize (node_content w) - oe - extra) with (fsize content - oe + extra) in * by lia.
  destruct (resolve_in s w (fsize content - oe + extra) 0) as [[p2 q2]|] eqn:R2; [|discriminate]. cbn [bind fst snd] in Een.
  destruct (Hres (fsize content - oe) 0 ltac:(lia)) as (wp2 & Hm2 & Hw2 & Heq2). rewrite Heq2 in R2.
  assert (Hl2 : length wp2 = extra) by (rewrite <- Hlws, <- Hm2, map_length; reflexivity).
  destruct (resolve_in s (Elem typ ap mp content) (fsize content - oe) (0 + extra)) as [[pe qe]|] eqn:Re; [|discriminate].
  cbn [bind fst snd] in R2. inversion R2; subst p2 q2. clear R2 Heq2.
  destruct (shape_both _ _ _ _ _ _ _ _ _ _ _ _ Ho Rs Re) as (Hlps & Hlpe & Hops & Hope & Hple).
  assert (Hn1 : ps <> []) by (intros ->; discriminate). assert (Hn2 : pe <> []) by (intros ->; discriminate).
  inversion Est; subst st. inversion Een; subst en. clear Est Een.
  cbn [rp_path rp_pos] in *.
  pose proof (resolve_in_IsPath _ _ _ _ _ Rs) as Hips. pose proof (resolve_in_IsPath _ _ _ _ _ Re) as Hipe.
  destruct (resolve_in_tokens s _ _ _ _ _ Rs) as (_ & _ & Hbs & _).
  destruct (resolve_in_tokens s _ _ _ _ _ Re) as (_ & _ & Hbe & _).
  rewrite Hops in Hbs. rewrite Hope in Hbe. rewrite Nat.sub_diag in Hbs, Hbe. cbn [node_content] in Hbs, Hbe.
  (* between the two inner paths lies exactly the slice's inner token sequence *)
  assert (Hbt : between s ps pe = inner_toks s sl).
  { pose proof (before_between s _ _ _ Hips Hipe Hple) as Hbb. rewrite Hbs, Hbe in Hbb.
    unfold inner_toks. fold content os oe. rewrite ftoks_length.
    assert (Hsk : skipn os (firstn (fsize content - oe) (ftoks content)) = between s ps pe).
    { rewrite Hbb. apply skipn_app_exact. rewrite firstn_length, ftoks_length. lia. }
    rewrite <- Hsk, skipn_firstn_seg. f_equal. lia. }
  unfold PrepFits. cbn [rp_path].
  assert (Hex : extra + os = rp_depth rf) by (unfold extra; lia).
  assert (Hex2 : extra + oe = rp_depth rt) by (unfold extra; lia).
  split; [unfold rp_depth at 1; cbn [rp_path]; rewrite app_length; lia|].
  split; [unfold rp_depth at 1; cbn [rp_path]; rewrite app_length; lia|].
  split; [rewrite rp_text_offset_last; cbn [rp_pos rp_path]; rewrite last_off_app by exact Hn1; lia|].
  split; [rewrite rp_text_offset_last; cbn [rp_pos rp_path]; rewrite last_off_app by exact Hn2; lia|].
  split; [exact Hshe|]. split; [exact Hls|]. split; [exact Hle|].
  fold os extra.
  assert (Hall : forall k, k <= extra ->
            between s (skipn (extra - k) (wp1 ++ ps)) (skipn (extra - k) (wp2 ++ pe)) = between s ps pe).
  { induction k as [|k IHk]; intros Hk.
    - rewrite Nat.sub_0_r. rewrite !skipn_app_exact by lia. reflexivity.
    - specialize (IHk ltac:(lia)). set (d := extra - S k) in *. replace (extra - k) with (S d) in IHk by lia.
      destruct (nth_error wp1 d) as [[[n1 i1] o1]|] eqn:E1; [|apply nth_error_None in E1; lia].
      destruct (nth_error wp2 d) as [[[n2 i2] o2]|] eqn:E2; [|apply nth_error_None in E2; lia].
      destruct (Hw1 _ _ _ _ E1) as [-> _]. destruct (Hw2 _ _ _ _ E2) as [-> _].
      assert (E1' : nth_error (wp1 ++ ps) d = Some (n1, 0, o1)) by (rewrite nth_error_app1 by lia; exact E1).
      assert (E2' : nth_error (wp2 ++ pe) d = Some (n2, 0, o2)) by (rewrite nth_error_app1 by lia; exact E2).
      rewrite (skipn_nth_cons _ _ _ E1'), (skipn_nth_cons _ _ _ E2').
      destruct (skipn (S d) (wp1 ++ ps)) as [|x1 r1] eqn:S1.
      { exfalso. assert (Hlen : length (skipn (S d) (wp1 ++ ps)) = 0) by (rewrite S1; reflexivity).
        rewrite skipn_length, app_length in Hlen. lia. }
      destruct (skipn (S d) (wp2 ++ pe)) as [|[[c2 j2] u2] r2] eqn:S2.
      { exfalso. assert (Hlen : length (skipn (S d) (wp2 ++ pe)) = 0) by (rewrite S2; reflexivity).
        rewrite skipn_length, app_length in Hlen. lia. }
      rewrite between_22. cbn [Nat.eqb]. exact IHk. }
  intros d Hd. split.
  - destruct (Nat.lt_ge_cases d extra) as [Hlt|Hge].
    + destruct (nth_error wp1 d) as [[[n1 i1] o1]|] eqn:E1; [|apply nth_error_None in E1; lia].
      destruct (map_nth_same _ _ _ _ _ (eq_trans Hm1 (eq_sym Hm2)) E1) as ([[n2 i2] o2] & E2 & Hf). cbn [fst] in Hf. subst n2.
      exists n1. unfold rp_node, path_at. cbn [rp_path]. rewrite !nth_error_app1 by lia. rewrite E1, E2. auto.
    + assert (d = extra) by lia. subst d.
      destruct (IsPath_head s _ _ Hips) as (i1 & o1 & r1 & ->). destruct (IsPath_head s _ _ Hipe) as (i2 & o2 & r2 & ->).
      exists (Elem typ ap mp content). unfold rp_node, path_at. cbn [rp_path].
      rewrite !nth_error_app2 by lia. rewrite Hl1, Hl2, Nat.sub_diag. auto.
  - replace d with (extra - (extra - d)) by lia. rewrite Hall by lia. rewrite Hbt. reflexivity.
Qed.

(* ---------------------------------------------------------------- the splice theorem *)
Theorem node_replace_toks doc from to sl d' :
  V s doc -> Shape (sl_content sl) (sl_open_start sl) (sl_open_end sl) ->
  node_replace s doc from to sl = Ok d' ->
  exists X, d' = node_copy doc X /\
    nt (ftoks X) = nt (firstn from (ftoks (node_content doc))) ++ nt (inner_toks s sl) ++
                   nt (skipn to (ftoks (node_content doc))).
Proof.
  intros Hd Ho H. eapply node_replace_toks_gen; [exact H| |].
  - intros Hz. pose proof (Shape_size _ _ _ Ho). lia.
  - intros rf rt st en Hf Ht Hos Hdt Hp.
    eapply prepared_fits; eauto using resolve_PathV, resolve_PathShape.
Qed.

End WithSchema.
