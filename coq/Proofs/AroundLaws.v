(* Consequences of the replace-around splice: the step's two-range map is faithful (C03), content outside
   the step and inside the gap is kept (C11, C12, C18). *)
From Coq Require Import ZArith NArith List Bool Arith Lia.
From PM Require Import Model.Data Model.Mark Model.Tree Model.StepMap Model.Step Spec.Tokens
  Proofs.ReplaceValid Proofs.SliceSides Proofs.TokenBasics Proofs.PathTokens Proofs.ReplaceTokens Proofs.SliceShape
  Proofs.StepFaithful Proofs.SliceTokens Proofs.SliceCut Proofs.TokenLaws Proofs.StepAlgebra Proofs.StepTokens
  Proofs.AroundTokens.
Import ListNotations.
Local Open Scope nat_scope.

(* a two-range map at positions outside the two ranges *)
Lemma map_two_before (f1 x1 y1 f2 x2 y2 p a : Z) : (p < f1)%Z ->
  map {| ranges := [(f1, x1, y1); (f2, x2, y2)]; inverted := false |} p a = p.
Proof.
  intros H. unfold map, map_result. cbn [inverted ranges map_go start_of].
  destruct (f1 - 0 >? p)%Z eqn:E; [cbn; lia|]. rewrite Z.gtb_ltb in E. apply Z.ltb_ge in E. lia.
Qed.
Lemma map_two_between (f1 x1 y1 f2 x2 y2 p : Z) : (0 <= x1)%Z -> (f1 + x1 <= p)%Z -> (p < f2)%Z ->
  map {| ranges := [(f1, x1, y1); (f2, x2, y2)]; inverted := false |} p 1 = (p + (y1 - x1))%Z.
Proof.
  intros Hx H1 H2. unfold map, map_result. cbn [inverted ranges map_go start_of old_of new_of].
  destruct (f1 - 0 >? p)%Z eqn:E0; [rewrite Z.gtb_ltb in E0; apply Z.ltb_lt in E0; lia|].
  destruct (p <=? f1 - 0 + x1)%Z eqn:E.
  - apply Z.leb_le in E. assert (p = f1 + x1)%Z by lia. subst p. cbn [mr_pos].
    destruct (x1 =? 0)%Z eqn:Ex.
    + apply Z.eqb_eq in Ex. subst x1. cbn. lia.
    + apply Z.eqb_neq in Ex. replace (f1 + x1 =? f1 - 0)%Z with false by (symmetry; apply Z.eqb_neq; lia).
      replace (f1 + x1 =? f1 - 0 + x1)%Z with true by (symmetry; apply Z.eqb_eq; lia). cbn. lia.
  - cbn [map_go start_of]. destruct (f2 - 0 >? p)%Z eqn:E2; [cbn [mr_pos]; lia|].
    rewrite Z.gtb_ltb in E2. apply Z.ltb_ge in E2. lia.
Qed.
Lemma map_two_after (f1 x1 y1 f2 x2 y2 p : Z) : (0 <= x1)%Z -> (0 <= x2)%Z -> (f1 + x1 < f2)%Z -> (f2 + x2 <= p)%Z ->
  map {| ranges := [(f1, x1, y1); (f2, x2, y2)]; inverted := false |} p 1 = (p + (y1 - x1) + (y2 - x2))%Z.
Proof.
  intros Hx1 Hx2 H12 H. unfold map, map_result. cbn [inverted ranges map_go start_of old_of new_of].
  destruct (f1 - 0 >? p)%Z eqn:E0; [rewrite Z.gtb_ltb in E0; apply Z.ltb_lt in E0; lia|].
  destruct (p <=? f1 - 0 + x1)%Z eqn:E; [apply Z.leb_le in E; lia|].
  cbn [map_go start_of old_of new_of].
  destruct (f2 - 0 >? p)%Z eqn:E2; [rewrite Z.gtb_ltb in E2; apply Z.ltb_lt in E2; lia|].
  destruct (p <=? f2 - 0 + x2)%Z eqn:E3.
  - apply Z.leb_le in E3. assert (p = f2 + x2)%Z by lia. subst p. cbn [mr_pos].
    destruct (x2 =? 0)%Z eqn:Ex.
    + apply Z.eqb_eq in Ex. subst x2. cbn. lia.
    + apply Z.eqb_neq in Ex. replace (f2 + x2 =? f2 - 0)%Z with false by (symmetry; apply Z.eqb_neq; lia).
      replace (f2 + x2 =? f2 - 0 + x2)%Z with true by (symmetry; apply Z.eqb_eq; lia). cbn. lia.
  - cbn [map_go mr_pos]. lia.
Qed.

Section WithSchema.
Variable s : schema.
Notation fsize := (frag_size s).
Notation ftoks := (ftoks s).
Notation V := (V s).
Notation DT := (DT s).
Notation IT := (IT s).
Notation ShapeS sl := (Shape s (sl_content sl) (sl_open_start sl) (sl_open_end sl)).

Lemma seg_length {A} (l : list A) a b : a <= b -> b <= length l -> length (seg l a b) = b - a.
Proof. intros H1 H2. unfold seg. rewrite firstn_length, skipn_length. lia. Qed.

Lemma nth_seg {A} (l : list A) a b i : i < b - a -> nth_error (seg l a b) i = nth_error l (a + i).
Proof. intros H. unfold seg. rewrite nth_firstn by lia. apply nth_skipn. Qed.

(* ------------------------------------------------------------------ C03 for replace-around steps *)
Theorem around_step_map_faithful (from to gf gt : nat) sl (ins : nat) structure doc d' :
  V doc -> ShapeS sl -> from <= gf -> gf < gt -> gt <= to -> ins <= length (IT sl) ->
  apply s (SReplaceAround from to gf gt sl ins structure) doc = ROk d' ->
  let m := get_map s (SReplaceAround from to gf gt sl ins structure) in
  let T := DT doc in
  let T' := DT d' in
  (Z.of_nat (length T') = Z.of_nat (length T) + (Z.of_nat ins - (Z.of_nat gf - Z.of_nat from))
                          + ((slice_size s sl - Z.of_nat ins) - (Z.of_nat to - Z.of_nat gt)))%Z /\
  (forall p, p < from -> nth_error T' (Z.to_nat (map m (Z.of_nat p) 1)) = nth_error T p) /\
  (forall p, gf <= p -> p < gt -> nth_error T' (Z.to_nat (map m (Z.of_nat p) 1)) = nth_error T p) /\
  (forall p, to <= p -> nth_error T' (Z.to_nat (map m (Z.of_nat p) 1)) = nth_error T p).
Proof.
  intros Hd Hs H1 H2 H3 Hi H. assert (H2' : gf <= gt) by lia.
  destruct (replace_around_splice s _ _ _ _ _ _ _ _ _ Hd Hs H2' Hi H) as (B1 & B2 & E).
  cbn zeta. pose proof (IT_length s sl Hs) as Hl. rewrite E. cbn [get_map].
  set (T := DT doc) in *. set (I := IT sl) in *.
  assert (LA : length (firstn from T) = from) by (rewrite firstn_length; lia).
  assert (LB : length (firstn ins I) = ins) by (rewrite firstn_length; lia).
  assert (LG : length (seg T gf gt) = gt - gf) by (apply seg_length; lia).
  assert (LC : length (skipn ins I) = length I - ins) by (apply skipn_length).
  assert (LD : length (skipn to T) = length T - to) by (apply skipn_length).
  split; [|split; [|split]].
  - rewrite !app_length, LA, LB, LG, LC, LD. lia.
  - intros p Hp. rewrite map_two_before by lia. rewrite Nat2Z.id.
    rewrite nth_error_app1 by lia. apply nth_firstn. lia.
  - intros p Hp1 Hp2. rewrite map_two_between by lia.
    replace (Z.to_nat (Z.of_nat p + (Z.of_nat ins - (Z.of_nat gf - Z.of_nat from)))) with (from + (ins + (p - gf))) by lia.
    rewrite nth_error_app2 by lia. replace (from + (ins + (p - gf)) - length (firstn from T)) with (ins + (p - gf)) by lia.
    rewrite nth_error_app2 by lia. replace (ins + (p - gf) - length (firstn ins I)) with (p - gf) by lia.
    rewrite nth_error_app1 by lia. rewrite nth_seg by lia. f_equal. lia.
  - intros p Hp. rewrite map_two_after by lia.
    replace (Z.to_nat (Z.of_nat p + (Z.of_nat ins - (Z.of_nat gf - Z.of_nat from)) + (slice_size s sl - Z.of_nat ins - (Z.of_nat to - Z.of_nat gt))))
      with (from + (ins + ((gt - gf) + ((length I - ins) + (p - to))))) by lia.
    rewrite nth_error_app2 by lia. rewrite LA. replace (from + (ins + ((gt - gf) + ((length I - ins) + (p - to)))) - from) with (ins + ((gt - gf) + ((length I - ins) + (p - to)))) by lia.
    rewrite nth_error_app2 by lia. rewrite LB. replace (ins + ((gt - gf) + ((length I - ins) + (p - to))) - ins) with ((gt - gf) + ((length I - ins) + (p - to))) by lia.
    rewrite nth_error_app2 by lia. rewrite LG. replace ((gt - gf) + ((length I - ins) + (p - to)) - (gt - gf)) with ((length I - ins) + (p - to)) by lia.
    rewrite nth_error_app2 by lia. rewrite LC. replace ((length I - ins) + (p - to) - (length I - ins)) with (p - to) by lia.
    rewrite nth_skipn. f_equal. lia.
Qed.

(* ------------------------------------------------------------------ what a replace-around step keeps (C11, C12, C18) *)
Theorem around_step_leaves from to gf gt sl ins structure doc d' :
  V doc -> ShapeS sl -> gf <= gt -> ins <= length (IT sl) ->
  apply s (SReplaceAround from to gf gt sl ins structure) doc = ROk d' ->
  leaves (DT d') = leaves (firstn from (DT doc)) ++ leaves (firstn ins (IT sl)) ++ leaves (seg (DT doc) gf gt) ++
                   leaves (skipn ins (IT sl)) ++ leaves (skipn to (DT doc)).
Proof.
  intros Hd Hs Hg Hi H. destruct (replace_around_splice s _ _ _ _ _ _ _ _ _ Hd Hs Hg Hi H) as (_ & _ & ->).
  unfold leaves. rewrite !filter_app. reflexivity.
Qed.

Lemma leaves_app a b : leaves (a ++ b) = leaves a ++ leaves b.
Proof. apply filter_app. Qed.

(* lift / wrap / set-block-type shaped steps: nothing but structure outside the gap *)
Theorem around_step_structure_only from to gf gt sl ins structure doc d' :
  V doc -> ShapeS sl -> from <= gf -> gf <= gt -> gt <= to -> ins <= length (IT sl) ->
  apply s (SReplaceAround from to gf gt sl ins structure) doc = ROk d' ->
  leaves (seg (DT doc) from gf) = [] -> leaves (seg (DT doc) gt to) = [] -> leaves (IT sl) = [] ->
  leaves (DT d') = leaves (DT doc).
Proof.
  intros Hd Hs H1 H2 H3 Hi H L1 L2 LI.
  destruct (replace_around_splice s _ _ _ _ _ _ _ _ _ Hd Hs H2 Hi H) as (B1 & B2 & _).
  rewrite (around_step_leaves _ _ _ _ _ _ _ _ _ Hd Hs H2 Hi H).
  assert (LI1 : leaves (firstn ins (IT sl)) = [] /\ leaves (skipn ins (IT sl)) = []).
  { rewrite <- (firstn_skipn ins (IT sl)) in LI. rewrite leaves_app in LI. apply app_eq_nil in LI. exact LI. }
  destruct LI1 as (-> & ->). cbn [app].
  destruct (split5 (DT doc) from gf gt to) as (P & D1 & M & D2 & S & ET & LP & LD1 & LM & LD2); try lia.
  assert (X1 : firstn from (DT doc) = P) by (rewrite ET; apply firstn_exact; lia).
  assert (X2 : seg (DT doc) from gf = D1).
  { unfold seg. rewrite ET. rewrite skipn_exact by lia. apply firstn_exact. lia. }
  assert (X3 : seg (DT doc) gf gt = M).
  { unfold seg. rewrite ET. rewrite (app_assoc P D1). rewrite skipn_exact by (rewrite app_length; lia). apply firstn_exact. lia. }
  assert (X4 : seg (DT doc) gt to = D2).
  { unfold seg. rewrite ET. rewrite (app_assoc P D1), (app_assoc (P ++ D1) M). rewrite skipn_exact by (rewrite !app_length; lia).
    apply firstn_exact. lia. }
  assert (X5 : skipn to (DT doc) = S).
  { rewrite ET. rewrite (app_assoc P D1), (app_assoc (P ++ D1) M), (app_assoc ((P ++ D1) ++ M) D2).
    apply skipn_exact. rewrite !app_length. lia. }
  rewrite X1, X3, X5. rewrite X2 in L1. rewrite X4 in L2. rewrite ET, !leaves_app, L1, L2. reflexivity.
Qed.

(* a replace-around step whose ends lie inside a node does not touch the node or anything outside it *)
Theorem around_step_inside_node from to gf gt sl ins structure doc d' A o B C :
  V doc -> ShapeS sl -> from <= gf -> gf <= gt -> gt <= to -> ins <= length (IT sl) ->
  apply s (SReplaceAround from to gf gt sl ins structure) doc = ROk d' ->
  DT doc = A ++ o :: B ++ TClose :: C ->
  length A + 1 <= from -> to <= length A + 1 + length B ->
  exists B', DT d' = A ++ o :: B' ++ TClose :: C.
Proof.
  intros Hd Hs H1 H2 H3 Hi H HT Hf Ht.
  destruct (replace_around_splice s _ _ _ _ _ _ _ _ _ Hd Hs H2 Hi H) as (_ & _ & ->). rewrite HT.
  replace (A ++ o :: B ++ TClose :: C) with ((A ++ [o]) ++ B ++ TClose :: C) by (rewrite <- app_assoc; reflexivity).
  assert (Hl : length (A ++ [o]) = length A + 1) by (rewrite app_length; reflexivity).
  rewrite firstn_app_r by lia. rewrite skipn_app_r by lia. rewrite Hl.
  rewrite firstn_app_l by lia. rewrite skipn_app_l by lia.
  exists (firstn (from - (length A + 1)) B ++ firstn ins (IT sl) ++
          seg ((A ++ [o]) ++ B ++ TClose :: C) gf gt ++ skipn ins (IT sl) ++ skipn (to - (length A + 1)) B).
  rewrite <- !app_assoc. cbn [app]. reflexivity.
Qed.

End WithSchema.
