(* replace never returns an invalid document (keystone for C01, C11-V, C12-V):
   every node of the result is an untouched valid node, a cut text node, a merged text node, or was
   rebuilt through [close], which validates its content. *)
From Coq Require Import ZArith NArith List Bool Arith Lia.
From PM Require Import Model.Data Model.Mark Model.Tree Proofs.DataProofs Proofs.NodeInd.
Import ListNotations.

Section WithSchema.
Variable s : schema.

Definition V (n : node) : Prop := check s n = true.
Definition VL (l : list node) : Prop := forall x, In x l -> V x.
Definition MC (n : node) : Prop := marks_canonical s (node_marks n) = true.

Lemma check_elem ty a m cs :
  check s (Elem ty a m cs) = valid_content s ty cs && marks_canonical s m && forallb (check s) cs.
Proof. reflexivity. Qed.

Lemma V_children ty a m cs : V (Elem ty a m cs) -> VL cs.
Proof.
  unfold V. rewrite check_elem. intros H. apply andb_prop in H. destruct H as [_ H].
  rewrite forallb_forall in H. exact H.
Qed.

Lemma V_MC n : V n -> MC n.
Proof.
  unfold V, MC. destruct n as [t m|ty a m cs]; simpl; auto.
  intros H. change (check s (Elem ty a m cs) = true) in H. rewrite check_elem in H.
  apply andb_prop in H. destruct H as [H _]. apply andb_prop in H. tauto.
Qed.

Lemma VL_nil : VL []. Proof. intros x []. Qed.
Lemma VL_app a b : VL a -> VL b -> VL (a ++ b).
Proof. intros Ha Hb x Hx. apply in_app_or in Hx. destruct Hx; auto. Qed.
Lemma VL_cons x l : V x -> VL l -> VL (x :: l).
Proof. intros Hx Hl y [<-|Hy]; auto. Qed.
Lemma VL_firstn n l : VL l -> VL (firstn n l).
Proof. intros H x Hx. apply H. rewrite <- (firstn_skipn n l). apply in_or_app; left; exact Hx. Qed.
Lemma VL_skipn n l : VL l -> VL (skipn n l).
Proof. intros H x Hx. apply H. rewrite <- (firstn_skipn n l). apply in_or_app; right; exact Hx. Qed.

Lemma In_removelast {A} (x : A) l : In x (removelast l) -> In x l.
Proof.
  induction l as [|y l IH]; simpl; auto. destruct l as [|z l]; [intros []|].
  intros [->|H]; auto.
Qed.

Lemma V_text t m : V (Text t m) <-> marks_canonical s m = true.
Proof. unfold V. simpl. tauto. Qed.

Lemma add_node_VL child target : V child -> VL target -> VL (add_node child target).
Proof.
  intros Hc Ht. unfold add_node. destruct child as [t m|ty a m cs].
  - destruct (rev target) as [|[t' m'|? ? ? ?] r] eqn:Er; try (apply VL_app; auto; apply VL_cons; auto; apply VL_nil).
    destruct (marks_eqb m m').
    + apply VL_app.
      * intros x Hx. apply Ht. apply In_removelast; auto.
      * apply VL_cons; [|apply VL_nil]. apply V_text. apply V_text in Hc. exact Hc.
    + apply VL_app; auto. apply VL_cons; auto. apply VL_nil.
  - apply VL_app; auto. apply VL_cons; auto. apply VL_nil.
Qed.

Lemma add_all_VL l : forall target, VL l -> VL target -> VL (add_all l target).
Proof.
  induction l as [|c l IH]; intros target Hl Ht; simpl; auto.
  apply IH. { intros x Hx. apply Hl; right; auto. }
  apply add_node_VL; auto. apply Hl; left; auto.
Qed.

Lemma text_cut_V t m a b n : text_cut t m a b = Ok n -> marks_canonical s m = true -> V n.
Proof.
  unfold text_cut. destruct ((a =? 0) && (b =? text_length t)).
  - intros H Hm; inversion H; subst. apply V_text; auto.
  - destruct (cut_text t a b) as [x|e]; simpl; [|discriminate].
    destruct x; [discriminate|]. intros H Hm; inversion H; subst. apply V_text; auto.
Qed.

Lemma close_V n content n' :
  close s n content = Ok n' -> MC n -> VL content -> V n'.
Proof.
  unfold close. destruct (valid_content s (node_ty s n) content) eqn:Ev; [|discriminate].
  intros H Hm Hc. inversion H; subst. destruct n as [t m|ty a m cs]; simpl.
  - (* a text node is never closed over content in practice; its check is its marks *)
    apply V_text. exact Hm.
  - unfold V. rewrite check_elem. simpl in Ev. rewrite Ev. unfold MC in Hm. simpl in Hm. rewrite Hm. simpl.
    apply forallb_forall. exact Hc.
Qed.

(* ---------------------------------------------------------------- resolved positions *)
Definition PathV (r : rpos) : Prop := forall n i o, In (n, i, o) (rp_path r) -> V n.

Lemma resolve_in_path_V : forall n po start path po',
  V n -> resolve_in s n po start = Ok (path, po') -> forall m i o, In (m, i, o) path -> V m.
Proof.
  induction n as [t m|ty a mk cs IH] using node_ind2; intros po start path po' Hv H; [discriminate|].
  cbn [resolve_in] in H. destruct (po =? 0).
  - inversion H; subst. intros m i o [Hin|[]]. inversion Hin; subst. exact Hv.
  - pose proof (V_children _ _ _ _ Hv) as Hcs.
    set (n := Elem ty a mk cs) in *.
    assert (G : forall (l : list node) i cur,
      (forall x, In x l -> In x cs) ->
      (fix walk (l : list node) (i cur : nat) {struct l} : res (list (node * nat * nat) * nat) :=
         match l with
         | [] => Err ErrValue
         | c :: r =>
           let e := cur + node_size s c in
           if e =? po then Ok ([(n, S i, start + e)], po)
           else if po <? e then
             match c with
             | Text _ _ => Ok ([(n, i, start + cur)], po)
             | Elem _ _ _ _ =>
               do rest <- resolve_in s c (po - cur - 1) (start + cur + 1);
               Ok ((n, i, start + cur) :: fst rest, snd rest)
             end
           else walk r (S i) e
         end) l i cur = Ok (path, po') -> forall m i0 o, In (m, i0, o) path -> V m).
    { clear H. induction l as [|c r IHl]; intros i cur Hl H; [discriminate|].
      cbn beta iota fix zeta in H.
      destruct (cur + node_size s c =? po).
      - inversion H; subst. intros m i0 o [Hin|[]]. inversion Hin; subst. exact Hv.
      - destruct (po <? cur + node_size s c).
        + assert (Hc : In c cs) by (apply Hl; left; auto).
          destruct c as [t' m'|ty' a' mk' cs'].
          * inversion H; subst. intros m i0 o [Hin|[]]. inversion Hin; subst. exact Hv.
          * destruct (resolve_in s (Elem ty' a' mk' cs') (po - cur - 1) (start + cur + 1)) as [[p2 po2]|e] eqn:Er;
              [|discriminate]. simpl in H. inversion H; subst.
            intros m i0 o [Hin|Hin]; [inversion Hin; subst; exact Hv|].
            eapply (IH _ Hc); eauto.
        + eapply IHl; eauto. intros x Hx. apply Hl. right; auto. }
    eapply (G cs 0 0); eauto.
Qed.

Lemma resolve_PathV doc pos r : V doc -> resolve s doc pos = Ok r -> PathV r.
Proof.
  unfold resolve. destruct (frag_size s (node_content doc) <? pos); [discriminate|].
  destruct (resolve_in s doc pos 0) as [[p po]|e] eqn:E; [|discriminate]. simpl.
  intros Hv H. inversion H; subst. intros n i o Hin. simpl in Hin.
  eapply resolve_in_path_V; eauto.
Qed.

(* ---------------------------------------------------------------- what add_range needs of a position *)
Definition TextAt (r : rpos) : Prop :=
  rp_text_offset r <> 0 ->
  exists n i o t m, path_at r (rp_depth r) = Some (n, i, o) /\ child_at n i = Some (Text t m).

(* the text node a position points into is valid (it is cut, its marks are kept) *)
Definition LastOK (r : rpos) : Prop :=
  rp_text_offset r <> 0 ->
  forall n i o c, path_at r (rp_depth r) = Some (n, i, o) -> child_at n i = Some c -> V c.
(* from depth D down: the children after the path's child are valid (and the child at the final index) *)
Definition AfterFrom (r : rpos) (D : nat) : Prop :=
  forall d n i o, D <= d -> path_at r d = Some (n, i, o) -> forall j c, child_at n j = Some c ->
    (i < j \/ (rp_depth r <= d /\ j = i)) -> V c.
(* from depth D down: the children before the path's child are valid *)
Definition BeforeFrom (r : rpos) (D : nat) : Prop :=
  forall d n i o, D <= d -> path_at r d = Some (n, i, o) -> forall j c, child_at n j = Some c -> j < i -> V c.
(* at depth d: the children strictly between the two paths are valid *)
Definition RangeOK (sp e : rpos) (d : nat) : Prop :=
  forall n ei oe si, path_at e d = Some (n, ei, oe) -> rp_index sp d = Ok si ->
    forall j c, child_at n j = Some c -> j < ei -> (si < j \/ (rp_depth sp <= d /\ j = si)) -> V c.
Definition PathMC (r : rpos) : Prop := forall d n i o, path_at r d = Some (n, i, o) -> MC n.

Lemma child_at_In n j c : child_at n j = Some c -> In c (node_content n).
Proof. unfold child_at. apply nth_error_In. Qed.

Lemma PathV_child r d n i o j c : PathV r -> path_at r d = Some (n, i, o) -> child_at n j = Some c -> V c.
Proof.
  intros H Hp Hc. unfold path_at in Hp. apply nth_error_In in Hp. specialize (H _ _ _ Hp).
  destruct n as [t m|ty a m cs]; [destruct j; discriminate|]. apply (V_children _ _ _ _ H). apply (child_at_In _ _ _ Hc).
Qed.
Lemma PathV_AfterFrom r D : PathV r -> AfterFrom r D.
Proof. intros H d n i o _ Hp j c Hc _. eapply PathV_child; eauto. Qed.
Lemma PathV_BeforeFrom r D : PathV r -> BeforeFrom r D.
Proof. intros H d n i o _ Hp j c Hc _. eapply PathV_child; eauto. Qed.
Lemma PathV_LastOK r : PathV r -> LastOK r.
Proof. intros H _ n i o c Hp Hc. eapply PathV_child; eauto. Qed.
Lemma PathV_PathMC r : PathV r -> PathMC r.
Proof. intros H d n i o Hp. apply V_MC. unfold path_at in Hp. apply nth_error_In in Hp. eapply H; eauto. Qed.
Lemma AfterFrom_mono r D D' : D <= D' -> AfterFrom r D -> AfterFrom r D'.
Proof. intros Hle H d n i o Hd. apply H. lia. Qed.
Lemma BeforeFrom_mono r D D' : D <= D' -> BeforeFrom r D -> BeforeFrom r D'.
Proof. intros Hle H d n i o Hd. apply H. lia. Qed.

Lemma rp_node_path r d n : rp_node r d = Ok n -> exists i o, path_at r d = Some (n, i, o).
Proof. unfold rp_node. destruct (path_at r d) as [[[n' i] o]|]; intros H; inversion H; subst; eauto. Qed.
Lemma rp_index_path r d i : rp_index r d = Ok i -> exists n o, path_at r d = Some (n, i, o).
Proof. unfold rp_index. destruct (path_at r d) as [[[n' i'] o]|]; intros H; inversion H; subst; eauto. Qed.

Lemma rp_node_after_V r x :
  rp_node_after s r = Ok (Some x) -> rp_text_offset r <> 0 -> LastOK r -> TextAt r -> V x.
Proof.
  unfold rp_node_after, rp_parent. intros H Ez Ha Ht.
  destruct (rp_node r (rp_depth r)) as [parent|] eqn:En; [|discriminate]. cbn [bind] in H.
  destruct (rp_index r (rp_depth r)) as [index|] eqn:Ei; [|discriminate]. cbn [bind] in H.
  destruct (rp_node_path _ _ _ En) as (i0 & o0 & Hp). destruct (rp_index_path _ _ _ Ei) as (n1 & o1 & Hp1).
  rewrite Hp in Hp1. inversion Hp1; subst n1 i0 o1. clear Hp1.
  destruct (child_at parent index) as [child|] eqn:Ec.
  - assert (Hvc : V child) by (eapply (Ha Ez _ _ _ _ Hp Ec)).
    destruct (rp_text_offset r =? 0) eqn:Ez'; [apply Nat.eqb_eq in Ez'; contradiction|].
    destruct (Ht Ez) as (n2 & i2 & o2 & t & m & Hp2 & Hc2).
    rewrite Hp in Hp2. inversion Hp2; subst n2 i2 o2. rewrite Ec in Hc2. inversion Hc2; subst child.
    destruct (text_cut t m (rp_text_offset r) (text_length t)) as [c|] eqn:Et; [|discriminate].
    cbn [bind] in H. inversion H; subst. eapply text_cut_V; [exact Et|]. apply (proj1 (V_text t m)). exact Hvc.
  - destruct (index =? length (node_content parent)); discriminate.
Qed.

Lemma rp_node_before_V r x :
  rp_node_before s r = Ok (Some x) -> rp_text_offset r <> 0 -> LastOK r -> TextAt r -> V x.
Proof.
  unfold rp_node_before, rp_parent. intros H Ez Hb Ht.
  destruct (rp_node r (rp_depth r)) as [parent|] eqn:En; [|discriminate]. cbn [bind] in H.
  destruct (rp_index r (rp_depth r)) as [index|] eqn:Ei; [|discriminate]. cbn [bind] in H.
  destruct (rp_node_path _ _ _ En) as (i0 & o0 & Hp). destruct (rp_index_path _ _ _ Ei) as (n1 & o1 & Hp1).
  rewrite Hp in Hp1. inversion Hp1; subst n1 i0 o1. clear Hp1.
  destruct (rp_text_offset r =? 0) eqn:Ez'; [apply Nat.eqb_eq in Ez'; contradiction|]. cbn [negb] in H.
  destruct (Ht Ez) as (n2 & i2 & o2 & t & m & Hp2 & Hc2).
  rewrite Hp in Hp2. inversion Hp2; subst n2 i2 o2. rewrite Hc2 in H.
  assert (Hvc : V (Text t m)) by (eapply (Hb Ez _ _ _ _ Hp Hc2)).
  destruct (text_cut t m 0 (rp_text_offset r)) as [c|] eqn:Et; [|discriminate].
  cbn [bind] in H. inversion H; subst. eapply text_cut_V; [exact Et|]. apply (proj1 (V_text t m)). exact Hvc.
Qed.

Lemma In_sub_nth {A} (c : A) k a l :
  In c (firstn k (skipn a l)) -> exists j, a <= j < a + k /\ nth_error l j = Some c.
Proof.
  revert a l. induction k as [|k IH]; intros a l H; [rewrite firstn_O in H; contradiction|].
  destruct (skipn a l) as [|x r] eqn:Es; [rewrite firstn_nil in H; contradiction|].
  simpl in H. destruct H as [->|H].
  - exists a. split; [lia|]. clear -Es. revert l Es. induction a as [|a IHa]; intros l Es.
    + simpl in Es. subst. reflexivity.
    + destruct l as [|y l]; [discriminate|]. simpl in *. auto.
  - assert (Es' : skipn (S a) l = r).
    { clear -Es. revert l Es. induction a as [|a IHa]; intros l Es.
      - simpl in Es. subst. reflexivity.
      - destruct l as [|y l]; [discriminate|]. simpl in *. auto. }
    rewrite <- Es' in H. destruct (IH (S a) l H) as (j & Hj & Hn). exists j. split; [lia|auto].
Qed.

(* the children add_range copies whole *)
Definition MidOK (start end_ : option rpos) (depth : nat) : Prop :=
  match end_, start with
  | Some e, None =>
    forall n ei o, path_at e depth = Some (n, ei, o) -> forall j c, child_at n j = Some c -> j < ei -> V c
  | Some e, Some sp => RangeOK sp e depth
  | None, Some sp =>
    forall n si o, path_at sp depth = Some (n, si, o) -> forall j c, child_at n j = Some c ->
      (si < j \/ (rp_depth sp <= depth /\ j = si)) -> V c
  | None, None => True
  end.

Lemma add_range_VL start end_ depth target l :
  add_range s start end_ depth target = Ok l -> VL target ->
  (forall sp, start = Some sp -> LastOK sp /\ TextAt sp) ->
  (forall e, end_ = Some e -> LastOK e /\ TextAt e) ->
  MidOK start end_ depth ->
  VL l.
Proof.
  unfold add_range. intros H Ht Hs He Hmo.
  destruct (match end_ with Some e => rp_node e depth | None => match start with Some st => rp_node st depth | None => Err ErrInternal end end)
    as [n|] eqn:En; [|discriminate]. cbn [bind] in H.
  destruct (match end_ with Some e => rp_index e depth | None => Ok (length (node_content n)) end) as [end_index|] eqn:Eei;
    [|discriminate]. cbn [bind] in H.
  (* the start part *)
  destruct (match start with
            | None => Ok (0, target)
            | Some sp => do si <- rp_index sp depth;
                         if depth <? rp_depth sp then Ok (S si, target)
                         else if negb (rp_text_offset sp =? 0)
                              then do na <- rp_node_after s sp;
                                   match na with Some x => Ok (S si, add_node x target) | None => Err ErrInternal end
                              else Ok (si, target)
            end) as [[start_index target1]|] eqn:Est; [|discriminate]. cbn [bind] in H.
  assert (Ht1 : VL target1 /\
                match start with
                | None => start_index = 0
                | Some sp => exists si, rp_index sp depth = Ok si /\
                                        (start_index = S si \/ (start_index = si /\ rp_depth sp <= depth))
                end).
  { destruct start as [sp|]; [|inversion Est; subst; auto].
    destruct (rp_index sp depth) as [si|]; [|discriminate]. cbn [bind] in Est.
    destruct (depth <? rp_depth sp) eqn:Ed; [inversion Est; subst; split; [auto|exists si; auto]|]. apply Nat.ltb_ge in Ed.
    destruct (rp_text_offset sp =? 0) eqn:Ez; cbn [negb] in Est; [inversion Est; subst; split; [auto|exists start_index; auto]|].
    apply Nat.eqb_neq in Ez.
    destruct (rp_node_after s sp) as [[x|]|] eqn:Ena; try discriminate. cbn [bind] in Est. inversion Est; subst.
    destruct (Hs sp eq_refl) as [Ha Hta]. split; [|eauto]. apply add_node_VL; auto. eapply rp_node_after_V; eauto. }
  destruct Ht1 as [Ht1 Hsi].
  destruct (length (node_content n) <? end_index); [discriminate|]. cbn [bind] in H.
  (* the children in between *)
  assert (Hmid : VL (firstn (end_index - start_index) (skipn start_index (node_content n)))).
  { intros c Hc. apply In_sub_nth in Hc. destruct Hc as (j & Hj & Hn).
    destruct end_ as [e|].
    - destruct (rp_node_path _ _ _ En) as (i0 & o0 & Hp). destruct (rp_index_path _ _ _ Eei) as (n1 & o1 & Hp1).
      rewrite Hp in Hp1. inversion Hp1; subst n1 i0 o1.
      destruct start as [sp|]; cbn [MidOK] in Hmo.
      + destruct Hsi as (si & Esi & Hcase).
        eapply (Hmo _ _ _ _ Hp Esi j c Hn); [lia|]. destruct Hcase as [->|[-> Hd]]; [left; lia|].
        destruct (Nat.eq_dec j si) as [->|Hne]; [right; auto|left; lia].
      + subst start_index. eapply (Hmo _ _ _ Hp j c Hn). lia.
    - destruct start as [sp|]; [|discriminate]. cbn [MidOK] in Hmo.
      destruct Hsi as (si & Esi & Hcase).
      destruct (rp_node_path _ _ _ En) as (i0 & o0 & Hp).
      destruct (rp_index_path _ _ _ Esi) as (n1 & o1 & Hp1). rewrite Hp in Hp1. inversion Hp1; subst n1 i0 o1.
      eapply (Hmo _ _ _ Hp j c Hn). destruct Hcase as [->|[-> Hd]]; [left; lia|].
      destruct (Nat.eq_dec j si) as [->|Hne]; [right; auto|left; lia]. }
  pose proof (add_all_VL _ _ Hmid Ht1) as Hall.
  destruct end_ as [e|]; [|inversion H; subst; exact Hall].
  destruct (rp_depth e =? depth); cbn [andb] in H; [|inversion H; subst; exact Hall].
  destruct (rp_text_offset e =? 0) eqn:Ez; cbn [negb] in H; [inversion H; subst; exact Hall|].
  apply Nat.eqb_neq in Ez.
  destruct (rp_node_before s e) as [[x|]|] eqn:Enb; try discriminate. cbn [bind] in H. inversion H; subst.
  destruct (He e eq_refl) as [Hb Hte]. apply add_node_VL; auto. eapply rp_node_before_V; eauto.
Qed.

(* ---------------------------------------------------------------- the recursive rebuilds *)
Lemma joinable_MC before after depth n :
  joinable s before after depth = Ok n -> PathMC before -> MC n.
Proof.
  unfold joinable. intros H Hm.
  destruct (rp_node before depth) as [n0|] eqn:En; [|discriminate]. cbn [bind] in H.
  destruct (rp_node after depth) as [a0|]; [|discriminate]. cbn [bind] in H.
  destruct (check_join s n0 a0); [|discriminate]. cbn [bind] in H. inversion H; subst.
  destruct (rp_node_path _ _ _ En) as (i & o & Hp). eapply Hm; eauto.
Qed.

Lemma MidOK_before e depth : BeforeFrom e depth -> MidOK None (Some e) depth.
Proof. intros H n ei o Hp j c Hc Hj. eapply H; eauto. Qed.
Lemma MidOK_after sp depth : AfterFrom sp depth -> MidOK (Some sp) None depth.
Proof. intros H n si o Hp j c Hc Hj. eapply H; eauto. Qed.

Lemma two_way_VL : forall fuel from to depth l,
  replace_two_way s fuel from to depth = Ok l ->
  BeforeFrom from depth -> LastOK from -> TextAt from -> PathMC from ->
  AfterFrom to depth -> LastOK to -> TextAt to -> VL l.
Proof.
  induction fuel as [|fuel IH]; intros from to depth l H Hbf Hlf Htf Hmf Hat Hlt Htt; [discriminate|].
  cbn [replace_two_way] in H.
  destruct (add_range s None (Some from) depth []) as [c1|] eqn:E1; [|discriminate]. cbn [bind] in H.
  assert (Hc1 : VL c1).
  { eapply add_range_VL; [exact E1|apply VL_nil|intros sp Hsp; discriminate| |apply MidOK_before; auto].
    intros e He; inversion He; subst; auto. }
  destruct (if depth <? rp_depth from
            then do ty <- joinable s from to (S depth);
                 do inner <- replace_two_way s fuel from to (S depth);
                 do cl <- close s ty inner; Ok (add_node cl c1)
            else Ok c1) as [c2|] eqn:E2; [|discriminate]. cbn [bind] in H.
  assert (Hc2 : VL c2).
  { destruct (depth <? rp_depth from); [|inversion E2; subst; auto].
    destruct (joinable s from to (S depth)) as [ty|] eqn:Ej; [|discriminate]. cbn [bind] in E2.
    destruct (replace_two_way s fuel from to (S depth)) as [inner|] eqn:Ei; [|discriminate]. cbn [bind] in E2.
    destruct (close s ty inner) as [cl|] eqn:Ec; [|discriminate]. cbn [bind] in E2. inversion E2; subst.
    apply add_node_VL; auto.
    eapply close_V; [exact Ec | eapply joinable_MC; eauto |].
    eapply IH; [exact Ei|eapply BeforeFrom_mono; [|exact Hbf]; lia|auto|auto|auto|eapply AfterFrom_mono; [|exact Hat]; lia|auto|auto]. }
  eapply add_range_VL; [exact H|exact Hc2| |intros e He; discriminate|apply MidOK_after; auto].
  intros sp Hsp; inversion Hsp; subst; auto.
Qed.

(* how the two sides of the (prepared) slice relate below a depth: they share the spine for a while,
   then they part, and from there on everything right of the left side and left of the right side,
   and everything between them at the parting level, is valid *)
Inductive Sides (Df Dt : nat) (st en : rpos) : nat -> Prop :=
| Sides_shared d :
    d < Df -> d < Dt ->
    (exists i, rp_index st d = Ok i /\ rp_index en d = Ok i) ->
    Sides Df Dt st en (S d) -> Sides Df Dt st en d
| Sides_parted d :
    RangeOK st en d -> AfterFrom st (S d) -> BeforeFrom en (S d) -> Sides Df Dt st en d.

Lemma Sides_parted_next Df Dt st en d :
  (RangeOK st en d /\ AfterFrom st (S d) /\ BeforeFrom en (S d)) -> Sides Df Dt st en (S d).
Proof.
  intros (Hr & Ha & Hb). apply Sides_parted.
  - intros n ei oe si Hp Hsi j c Hc Hj _. eapply Hb; eauto.
  - eapply AfterFrom_mono; [|exact Ha]; lia.
  - eapply BeforeFrom_mono; [|exact Hb]; lia.
Qed.

Lemma three_way_VL : forall fuel from start end_ to depth l,
  replace_three_way s fuel from start end_ to depth = Ok l ->
  BeforeFrom from depth -> LastOK from -> TextAt from -> PathMC from ->
  AfterFrom to depth -> LastOK to -> TextAt to ->
  LastOK start -> TextAt start -> LastOK end_ -> TextAt end_ -> PathMC end_ ->
  Sides (rp_depth from) (rp_depth to) start end_ depth -> VL l.
Proof.
  induction fuel as [|fuel IH]; intros from start end_ to depth l H Hbf Hlf Htf Hmf Hat Hlt Htt Hls Hts Hle Hte Hme Hsides;
    [discriminate|].
  cbn [replace_three_way] in H.
  destruct (if depth <? rp_depth from then do n <- joinable s from start (S depth); Ok (Some n) else Ok None)
    as [open_start|] eqn:Eos; [|discriminate]. cbn [bind] in H.
  destruct (if depth <? rp_depth to then do n <- joinable s end_ to (S depth); Ok (Some n) else Ok None)
    as [open_end|] eqn:Eoe; [|discriminate]. cbn [bind] in H.
  destruct (add_range s None (Some from) depth []) as [c1|] eqn:E1; [|discriminate]. cbn [bind] in H.
  assert (Hc1 : VL c1).
  { eapply add_range_VL; [exact E1|apply VL_nil|intros sp Hsp; discriminate| |apply MidOK_before; auto].
    intros e He; inversion He; subst; auto. }
  assert (Hos : forall os, open_start = Some os -> MC os).
  { intros os ->. destruct (depth <? rp_depth from); [|discriminate].
    destruct (joinable s from start (S depth)) as [n|] eqn:Ej; [|discriminate]. cbn [bind] in Eos.
    inversion Eos; subst. eapply joinable_MC; eauto. }
  assert (Hoe : forall oe, open_end = Some oe -> MC oe).
  { intros oe ->. destruct (depth <? rp_depth to); [|discriminate].
    destruct (joinable s end_ to (S depth)) as [n|] eqn:Ej; [|discriminate]. cbn [bind] in Eoe.
    inversion Eoe; subst. eapply joinable_MC; eauto. }
  assert (Hbf' : BeforeFrom from (S depth)) by (eapply BeforeFrom_mono; [|exact Hbf]; lia).
  assert (Hat' : AfterFrom to (S depth)) by (eapply AfterFrom_mono; [|exact Hat]; lia).
  (* unless both sides are open at the same child, the sides have parted *)
  assert (Hparted : (forall si ei os oe, open_start = Some os -> open_end = Some oe ->
                       rp_index start depth = Ok si -> rp_index end_ depth = Ok ei -> si <> ei) ->
                    RangeOK start end_ depth /\ AfterFrom start (S depth) /\ BeforeFrom end_ (S depth)).
  { intros Hne. inversion Hsides as [d Hdf Hdt (i & Hi1 & Hi2) Hnext|d Hr Ha Hb]; subst; [|auto].
    exfalso. apply Nat.ltb_lt in Hdf, Hdt. rewrite Hdf in Eos. rewrite Hdt in Eoe.
    destruct (joinable s from start (S depth)) as [os|]; [|discriminate].
    destruct (joinable s end_ to (S depth)) as [oe|]; [|discriminate]. cbn [bind] in Eos, Eoe.
    inversion Eos; inversion Eoe; subst. eapply (Hne i i); eauto. }
  (* the middle part *)
  match type of H with
  | bind ?mid _ = _ => destruct mid as [c2|] eqn:E2; [|discriminate]
  end. cbn [bind] in H.
  assert (Hc2 : VL c2).
  { clear H. destruct open_start as [os|]; destruct open_end as [oe|].
    - destruct (rp_index start depth) as [si|] eqn:Esi; [|discriminate]. cbn [bind] in E2.
      destruct (rp_index end_ depth) as [ei|] eqn:Eei; [|discriminate]. cbn [bind] in E2.
      destruct (si =? ei) eqn:Esame.
      + destruct (check_join s os oe); [|discriminate]. cbn [bind] in E2.
        destruct (replace_three_way s fuel from start end_ to (S depth)) as [inner|] eqn:Ei; [|discriminate].
        cbn [bind] in E2. destruct (close s os inner) as [cl|] eqn:Ec; [|discriminate]. cbn [bind] in E2.
        inversion E2; subst. apply add_node_VL; auto.
        eapply close_V; [exact Ec | apply Hos; reflexivity |].
        eapply IH; [exact Ei|auto..|].
        inversion Hsides as [d Hdf Hdt Hidx Hnext|d Hr Ha Hb]; subst; [exact Hnext|].
        apply Sides_parted_next; auto.
      + apply Nat.eqb_neq in Esame.
        destruct Hparted as (Hr & Ha & Hb).
        { intros si' ei' os' oe' _ _ E1' E2'. inversion E1'; inversion E2'; subst; auto. }
        destruct (replace_two_way s fuel from start (S depth)) as [inner|] eqn:Ei; [|discriminate].
        cbn [bind] in E2. destruct (close s os inner) as [cl|] eqn:Ec; [|discriminate]. cbn [bind] in E2.
        destruct (add_range s (Some start) (Some end_) depth (add_node cl c1)) as [c'|] eqn:Ea; [|discriminate].
        cbn [bind] in E2.
        destruct (replace_two_way s fuel end_ to (S depth)) as [inner2|] eqn:Ei2; [|discriminate].
        cbn [bind] in E2. destruct (close s oe inner2) as [cl2|] eqn:Ec2; [|discriminate]. cbn [bind] in E2.
        inversion E2; subst. apply add_node_VL.
        * eapply close_V; [exact Ec2 | apply Hoe; reflexivity | eapply two_way_VL; [exact Ei2|auto..]].
        * eapply add_range_VL; [exact Ea| | | |exact Hr].
          -- apply add_node_VL; auto.
             eapply close_V; [exact Ec | apply Hos; reflexivity | eapply two_way_VL; [exact Ei|auto..]].
          -- intros sp Hsp; inversion Hsp; subst; auto.
          -- intros e He; inversion He; subst; auto.
    - destruct Hparted as (Hr & Ha & Hb); [intros ? ? ? ? _ HH; discriminate|].
      destruct (replace_two_way s fuel from start (S depth)) as [inner|] eqn:Ei; [|discriminate].
      cbn [bind] in E2. destruct (close s os inner) as [cl|] eqn:Ec; [|discriminate]. cbn [bind] in E2.
      destruct (add_range s (Some start) (Some end_) depth (add_node cl c1)) as [c''|] eqn:Ea; [|discriminate].
      cbn [bind] in E2. inversion E2; subst.
      eapply add_range_VL; [exact Ea| | | |exact Hr].
      + apply add_node_VL; auto.
        eapply close_V; [exact Ec | apply Hos; reflexivity | eapply two_way_VL; [exact Ei|auto..]].
      + intros sp Hsp; inversion Hsp; subst; auto.
      + intros e He; inversion He; subst; auto.
    - destruct Hparted as (Hr & Ha & Hb); [intros ? ? ? ? HH; discriminate|].
      cbn [bind] in E2.
      destruct (add_range s (Some start) (Some end_) depth c1) as [c''|] eqn:Ea; [|discriminate].
      cbn [bind] in E2.
      destruct (replace_two_way s fuel end_ to (S depth)) as [inner2|] eqn:Ei2; [|discriminate].
      cbn [bind] in E2. destruct (close s oe inner2) as [cl2|] eqn:Ec2; [|discriminate]. cbn [bind] in E2.
      inversion E2; subst. apply add_node_VL.
      + eapply close_V; [exact Ec2 | apply Hoe; reflexivity | eapply two_way_VL; [exact Ei2|auto..]].
      + eapply add_range_VL; [exact Ea|exact Hc1| | |exact Hr].
        * intros sp Hsp; inversion Hsp; subst; auto.
        * intros e He; inversion He; subst; auto.
    - destruct Hparted as (Hr & Ha & Hb); [intros ? ? ? ? HH; discriminate|].
      cbn [bind] in E2.
      destruct (add_range s (Some start) (Some end_) depth c1) as [c''|] eqn:Ea; [|discriminate].
      cbn [bind] in E2. inversion E2; subst.
      eapply add_range_VL; [exact Ea|exact Hc1| | |exact Hr].
      + intros sp Hsp; inversion Hsp; subst; auto.
      + intros e He; inversion He; subst; auto. }
  eapply add_range_VL; [exact H|exact Hc2| |intros e He; discriminate|apply MidOK_after; auto].
  intros sp Hsp; inversion Hsp; subst; auto.
Qed.

(* ---------------------------------------------------------------- what resolve guarantees *)
(* p does not fall strictly inside an element child of l (children laid out from position pos) *)
Fixpoint nosplit (l : list node) (pos p : nat) : Prop :=
  match l with
  | [] => True
  | c :: r =>
    (match c with Elem _ _ _ _ => ~ (pos < p < pos + node_size s c) | Text _ _ => True end) /\
    nosplit r (pos + node_size s c) p
  end.

Lemma nosplit_before l : forall pos p, p <= pos -> nosplit l pos p.
Proof.
  induction l as [|c l IH]; intros pos p H; simpl; auto. split.
  - destruct c; auto. lia.
  - apply IH. lia.
Qed.

Lemma nosplit_after l : forall pos p, pos + frag_size s l <= p -> nosplit l pos p.
Proof.
  induction l as [|c l IH]; intros pos p H; simpl in *; auto. split.
  - destruct c; auto. lia.
  - apply IH. lia.
Qed.

Lemma nosplit_app a : forall b pos p,
  nosplit a pos p -> nosplit b (pos + frag_size s a) p -> nosplit (a ++ b) pos p.
Proof.
  induction a as [|c a IH]; intros b pos p Ha Hb; simpl in *.
  - rewrite Nat.add_0_r in Hb. exact Hb.
  - destruct Ha as [H1 H2]. split; auto. apply IH; auto.
    replace (pos + node_size s c + frag_size s a) with (pos + (node_size s c + frag_size s a)) by lia. exact Hb.
Qed.

Lemma frag_size_app a b : frag_size s (a ++ b) = frag_size s a + frag_size s b.
Proof. induction a; simpl; auto. rewrite IHa. lia. Qed.

Definition linked (path : list (node * nat * nat)) : Prop :=
  forall d n1 i1 o1 n2 i2 o2, nth_error path d = Some (n1, i1, o1) -> nth_error path (S d) = Some (n2, i2, o2) ->
    child_at n1 i1 = Some n2.

Definition last_entry (path : list (node * nat * nat)) := nth_error path (length path - 1).

Definition last_ok (path : list (node * nat * nat)) (g po' : nat) : Prop :=
  exists nl il ol, last_entry path = Some (nl, il, ol) /\ ol <= g /\
    (g - ol <> 0 -> exists t m, child_at nl il = Some (Text t m)) /\
    nosplit (node_content nl) 0 po'.

Lemma linked_cons n i o rest :
  linked rest -> (forall n2 i2 o2, nth_error rest 0 = Some (n2, i2, o2) -> child_at n i = Some n2) ->
  linked ((n, i, o) :: rest).
Proof.
  intros Hl Hh d n1 i1 o1 n2 i2 o2 H1 H2. destruct d as [|d].
  - simpl in H1. inversion H1; subst. simpl in H2. eapply Hh; eauto.
  - simpl in H1, H2. eapply Hl; eauto.
Qed.

Lemma linked_single e : linked [e].
Proof. intros d n1 i1 o1 n2 i2 o2 H1 H2. destruct d; simpl in H2; [discriminate|destruct d; discriminate]. Qed.

Lemma last_entry_cons e rest : rest <> [] -> last_entry (e :: rest) = last_entry rest.
Proof.
  unfold last_entry. destruct rest as [|x rest]; [contradiction|]. intros _. simpl length.
  replace (S (S (length rest)) - 1) with (S (length rest)) by lia.
  replace (S (length rest) - 1) with (length rest) by lia. reflexivity.
Qed.

Lemma nth_error_app_len {A} (pre : list A) c r : nth_error (pre ++ c :: r) (length pre) = Some c.
Proof. rewrite nth_error_app2 by lia. rewrite Nat.sub_diag. reflexivity. Qed.

Lemma resolve_in_spec : forall n po start path po',
  resolve_in s n po start = Ok (path, po') ->
  (exists i o rest, path = (n, i, o) :: rest) /\ linked path /\ last_ok path (start + po) po'.
Proof.
  induction n as [t m|ty a mk cs IH] using node_ind2; intros po start path po' H; [discriminate|].
  cbn [resolve_in] in H. set (n := Elem ty a mk cs) in *.
  destruct (po =? 0) eqn:Ez.
  - apply Nat.eqb_eq in Ez. subst po. inversion H; subst. split; [eauto|]. split; [apply linked_single|].
    exists n, 0, start. unfold last_entry. simpl. repeat split; auto; try lia.
    apply nosplit_before. lia.
  - apply Nat.eqb_neq in Ez.
    assert (G : forall (l pre : list node) i cur,
      cs = pre ++ l -> i = length pre -> cur = frag_size s pre -> cur < po ->
      (fix walk (l : list node) (i cur : nat) {struct l} : res (list (node * nat * nat) * nat) :=
         match l with
         | [] => Err ErrValue
         | c :: r =>
           let e := cur + node_size s c in
           if e =? po then Ok ([(n, S i, start + e)], po)
           else if po <? e then
             match c with
             | Text _ _ => Ok ([(n, i, start + cur)], po)
             | Elem _ _ _ _ =>
               do rest <- resolve_in s c (po - cur - 1) (start + cur + 1);
               Ok ((n, i, start + cur) :: fst rest, snd rest)
             end
           else walk r (S i) e
         end) l i cur = Ok (path, po') ->
      (exists i o rest, path = (n, i, o) :: rest) /\ linked path /\ last_ok path (start + po) po').
    { clear H. induction l as [|c r IHl]; intros pre i cur Hcs Hi Hcur Hle H; [discriminate|].
      cbn beta iota fix zeta in H.
      assert (Hnth : child_at n i = Some c).
      { unfold child_at, n. simpl. rewrite Hcs, Hi. apply nth_error_app_len. }
      assert (Hpre : nosplit pre 0 po) by (apply nosplit_after; lia).
      destruct (cur + node_size s c =? po) eqn:Ee.
      - apply Nat.eqb_eq in Ee. inversion H; subst path po'. split; [eauto|]. split; [apply linked_single|].
        exists n, (S i), (start + (cur + node_size s c)). unfold last_entry. simpl. repeat split; auto; try lia.
        unfold n. simpl. rewrite Hcs. apply nosplit_app; auto. simpl. split.
        + destruct c; auto. lia.
        + apply nosplit_before. lia.
      - apply Nat.eqb_neq in Ee. destruct (po <? cur + node_size s c) eqn:El.
        + apply Nat.ltb_lt in El.
          assert (Hc : In c cs) by (rewrite Hcs; apply in_or_app; right; left; auto).
          destruct c as [t' m'|ty' a' mk' cs'].
          * inversion H; subst path po'. split; [eauto|]. split; [apply linked_single|].
            exists n, i, (start + cur). unfold last_entry. simpl. repeat split; auto; try lia.
            -- intros _. eauto.
            -- unfold n. cbn [node_content]. rewrite Hcs. apply nosplit_app; auto. cbn [nosplit]. split; auto.
               apply nosplit_before. lia.
          * destruct (resolve_in s (Elem ty' a' mk' cs') (po - cur - 1) (start + cur + 1)) as [[p2 po2]|e] eqn:Er;
              [|discriminate]. simpl in H. inversion H; subst path po'.
            destruct (IH _ Hc _ _ _ _ Er) as ((i2 & o2 & rest2 & Hp2) & Hl2 & Hlast2).
            split; [eauto|]. split.
            -- apply linked_cons; auto. intros n3 i3 o3 H3. rewrite Hp2 in H3. simpl in H3. inversion H3; subst.
               exact Hnth.
            -- destruct Hlast2 as (nl & il & ol & Hle2 & Hol & Htx & Hns).
               exists nl, il, ol. rewrite last_entry_cons by (rewrite Hp2; discriminate).
               replace (start + cur + 1 + (po - cur - 1)) with (start + po) in * by lia. auto.
        + apply Nat.ltb_ge in El.
          eapply (IHl (pre ++ [c]) (S i) (cur + node_size s c)); eauto.
          * rewrite <- app_assoc. exact Hcs.
          * rewrite app_length. simpl. lia.
          * rewrite frag_size_app. simpl. lia.
          * lia. }
    eapply (G cs [] 0 0); eauto. lia.
Qed.

(* facts about a position produced by [resolve] *)
Lemma resolve_spec doc pos r :
  resolve s doc pos = Ok r ->
  rp_pos r = pos /\ linked (rp_path r) /\ TextAt r /\
  (exists i o rest, rp_path r = (doc, i, o) :: rest) /\
  (exists parent, rp_parent r = Ok parent /\ nosplit (node_content parent) 0 (rp_parent_offset r)).
Proof.
  unfold resolve. destruct (frag_size s (node_content doc) <? pos); [discriminate|].
  destruct (resolve_in s doc pos 0) as [[p po]|e] eqn:E; [|discriminate]. simpl. intros H. inversion H; subst r.
  destruct (resolve_in_spec _ _ _ _ _ E) as (Hhd & Hl & (nl & il & ol & Hlast & Hol & Htx & Hns)).
  simpl in *. repeat split; auto.
  - unfold TextAt, rp_text_offset, rp_last_offset, rp_depth, path_at. simpl.
    unfold last_entry in Hlast. rewrite Hlast. intros Hne. destruct (Htx Hne) as (t & m & Hc).
    exists nl, il, ol, t, m. auto.
  - exists nl. unfold rp_parent, rp_node, rp_depth, path_at. simpl. unfold last_entry in Hlast. rewrite Hlast. auto.
Qed.

(* ---------------------------------------------------------------- cutting and appending fragments *)
Lemma frag_cut_go_VL : forall l pos from to l',
  VL l -> nosplit l pos from -> nosplit l pos to -> frag_cut_go s l pos from to = Ok l' -> VL l'.
Proof.
  induction l as [|c r IH]; intros pos from to l' Hv Hf Ht H; cbn [frag_cut_go] in H.
  - destruct (pos <? to); [discriminate|]. inversion H; subst. apply VL_nil.
  - destruct (pos <? to) eqn:Ept; [|inversion H; subst; apply VL_nil].
    apply Nat.ltb_lt in Ept. cbn [nosplit] in Hf, Ht. destruct Hf as [Hf1 Hf2], Ht as [Ht1 Ht2].
    assert (Hr : VL r) by (intros x Hx; apply Hv; right; auto).
    assert (Hc : V c) by (apply Hv; left; auto).
    cbv zeta in H. destruct (from <? pos + node_size s c) eqn:Efe.
    + apply Nat.ltb_lt in Efe.
      destruct ((pos <? from) || (to <? pos + node_size s c)) eqn:Ecut.
      * destruct c as [t m|ty a m cs].
        -- destruct (text_cut t m (from - pos) (Nat.min (text_length t) (to - pos))) as [c'|] eqn:Ec; [|discriminate].
           cbn [bind] in H. destruct (frag_cut_go s r (pos + node_size s (Text t m)) from to) as [rest|] eqn:Er; [|discriminate].
           cbn [bind] in H. inversion H; subst. apply VL_cons.
           ++ eapply text_cut_V; [exact Ec|]. apply (proj1 (V_text t m)). exact Hc.
           ++ exact (IH _ _ _ _ Hr Hf2 Ht2 Er).
        -- exfalso. apply orb_prop in Ecut. destruct Ecut as [E|E]; apply Nat.ltb_lt in E.
           ++ apply Hf1. lia.
           ++ apply Ht1. lia.
      * cbn [bind] in H. destruct (frag_cut_go s r (pos + node_size s c) from to) as [rest|] eqn:Er; [|discriminate].
        cbn [bind] in H. inversion H; subst. apply VL_cons; auto. exact (IH _ _ _ _ Hr Hf2 Ht2 Er).
    + exact (IH _ _ _ _ Hr Hf2 Ht2 H).
Qed.

Lemma frag_cut_VL l from to l' :
  VL l -> nosplit l 0 from -> nosplit l 0 to -> frag_cut s l from to = Ok l' -> VL l'.
Proof.
  unfold frag_cut. intros Hv Hf Ht H.
  destruct ((from =? 0) && (to =? frag_size s l)); [inversion H; subst; auto|].
  destruct (to <=? from); [inversion H; subst; apply VL_nil|].
  exact (frag_cut_go_VL _ _ _ _ _ Hv Hf Ht H).
Qed.

Lemma last_In {A} (a : list A) d : a <> [] -> In (last a d) a.
Proof.
  induction a as [|x a IH]; [congruence|]. intros _. destruct a as [|y a]; [left; reflexivity|].
  right. apply IH. discriminate.
Qed.

Lemma frag_append_VL a b : VL a -> VL b -> VL (frag_append a b).
Proof.
  intros Ha Hb. unfold frag_append. destruct b as [|first b']; auto.
  destruct a as [|a0 a']; auto. set (a := a0 :: a') in *.
  assert (Hl : In (last a first) a) by (apply last_In; discriminate).
  destruct (last a first) as [t m|? ? ? ?] eqn:El; [|apply VL_app; auto].
  destruct first as [t' m'|? ? ? ?]; [|apply VL_app; auto].
  destruct (marks_eqb m m'); [|apply VL_app; auto].
  apply VL_app; [intros x Hx; apply Ha; apply In_removelast; auto|].
  apply VL_app.
  - apply VL_cons; [|apply VL_nil]. apply V_text. apply (proj1 (V_text t m)). apply Ha. exact Hl.
  - intros x Hx. apply Hb. right. exact Hx.
Qed.

(* ---------------------------------------------------------------- replacing one child by a same-markup node *)
Lemma forallb_map_eq {A B} (f : B -> bool) (g : A -> B) l : forallb (fun c => f (g c)) l = forallb f (map g l).
Proof. induction l; simpl; auto. rewrite IHl. reflexivity. Qed.

Lemma valid_content_ext ty l l' :
  map (node_ty s) l = map (node_ty s) l' -> map node_marks l = map node_marks l' ->
  valid_content s ty l = valid_content s ty l'.
Proof.
  intros Ht Hm. unfold valid_content, match_fragment, types_of.
  assert (Hlen : length l = length l') by (rewrite <- (map_length (node_ty s) l), Ht, map_length; reflexivity).
  rewrite !Nat.sub_0_r. cbn [skipn]. rewrite !firstn_all, Ht.
  rewrite (forallb_map_eq (allows_marks s ty) node_marks l), (forallb_map_eq (allows_marks s ty) node_marks l'), Hm.
  reflexivity.
Qed.

Lemma replace_child_map {B} (g : node -> B) : forall l i old n,
  nth_error l i = Some old -> g n = g old -> map g (replace_child l i n) = map g l.
Proof.
  unfold replace_child. induction l as [|x l IH]; intros i old n Hn Hg; [destruct i; discriminate|].
  destruct i as [|i]; simpl in *.
  - inversion Hn; subst. rewrite Hg. reflexivity.
  - f_equal. eapply IH; eauto.
Qed.

Lemma replace_child_VL l i n : VL l -> V n -> VL (replace_child l i n).
Proof.
  intros Hl Hn. unfold replace_child. apply VL_app; [apply VL_firstn; auto|].
  apply VL_app; [apply VL_cons; auto; apply VL_nil|apply VL_skipn; auto].
Qed.

Lemma forallb_check_VL l : VL l -> forallb (check s) l = true.
Proof. intros H. apply forallb_forall. exact H. Qed.

Lemma replace_child_V ty a m cs i old inner :
  V (Elem ty a m cs) -> nth_error cs i = Some old -> V inner ->
  node_ty s inner = node_ty s old -> node_marks inner = node_marks old ->
  V (Elem ty a m (replace_child cs i inner)).
Proof.
  intros Hv Hn Hi Ht Hm. pose proof (V_children _ _ _ _ Hv) as Hcs.
  unfold V in *. rewrite check_elem in *. apply andb_prop in Hv. destruct Hv as [Hv _].
  apply andb_prop in Hv. destruct Hv as [Hvc Hmc].
  rewrite (valid_content_ext ty _ cs), Hvc, Hmc; [|eapply replace_child_map; eauto..]. simpl.
  apply forallb_check_VL. apply replace_child_VL; auto.
Qed.

(* ---------------------------------------------------------------- replace_outer *)
Lemma node_copy_markup n c : node_ty s (node_copy n c) = node_ty s n /\ node_marks (node_copy n c) = node_marks n.
Proof. destruct n; simpl; auto. Qed.

Lemma close_copy n c r : close s n c = Ok r -> r = node_copy n c.
Proof. unfold close. destruct (valid_content s (node_ty s n) c); [|discriminate]. intros H; inversion H; auto. Qed.

Lemma replace_outer_markup fuel from to sl depth r :
  replace_outer s fuel from to sl depth = Ok r ->
  (exists n, rp_node from depth = Ok n /\ node_ty s r = node_ty s n /\ node_marks r = node_marks n) /\
  (exists ti, rp_index to depth = Ok ti).
Proof.
  destruct fuel as [|fuel]; [discriminate|]. cbn [replace_outer].
  destruct (rp_index from depth) as [index|]; [|discriminate]. cbn [bind].
  destruct (rp_node from depth) as [n|] eqn:En; [|discriminate]. cbn [bind].
  destruct (rp_index to depth) as [tindex|]; [|discriminate]. cbn [bind].
  intros H. split; [|eauto]. exists n. split; auto.
  destruct ((index =? tindex) && (depth <? rp_depth from - sl_open_start sl)).
  { destruct (replace_outer s fuel from to sl (S depth)); [|discriminate]. cbn [bind] in H. inversion H; subst.
    apply node_copy_markup. }
  destruct (frag_size s (sl_content sl) =? 0).
  { destruct (replace_two_way s (S (rp_depth from)) from to depth); [|discriminate]. cbn [bind] in H.
    apply close_copy in H. subst. apply node_copy_markup. }
  destruct ((sl_open_start sl =? 0) && (sl_open_end sl =? 0) && (rp_depth from =? depth) && (rp_depth to =? depth)) eqn:Ec.
  { apply andb_prop in Ec. destruct Ec as [Ec _]. apply andb_prop in Ec. destruct Ec as [_ Ed]. apply Nat.eqb_eq in Ed.
    unfold rp_parent in H. rewrite Ed, En in H. cbn [bind] in H.
    destruct (frag_cut s (node_content n) 0 (rp_parent_offset from)); [|discriminate]. cbn [bind] in H.
    destruct (frag_cut s (node_content n) (rp_parent_offset to) (frag_size s (node_content n))); [|discriminate]. cbn [bind] in H.
    apply close_copy in H. subst. apply node_copy_markup. }
  destruct (prepare_slice s sl from) as [[st en]|]; [|discriminate]. cbn [bind] in H.
  destruct (replace_three_way s (S (rp_depth from + rp_depth to + rp_depth st)) from st en to depth); [|discriminate].
  cbn [bind] in H. apply close_copy in H. subst. apply node_copy_markup.
Qed.

Definition NoSplitP (r : rpos) : Prop :=
  exists parent, rp_parent r = Ok parent /\ nosplit (node_content parent) 0 (rp_parent_offset r).

Lemma rp_node_V r d n : PathV r -> rp_node r d = Ok n -> V n.
Proof.
  intros Hp Hn. destruct (rp_node_path _ _ _ Hn) as (i & o & Hpa). unfold path_at in Hpa.
  apply nth_error_In in Hpa. eapply Hp; eauto.
Qed.

Lemma replace_outer_V : forall fuel from to sl depth r,
  replace_outer s fuel from to sl depth = Ok r ->
  PathV from -> PathV to -> linked (rp_path from) -> linked (rp_path to) -> TextAt from -> TextAt to ->
  NoSplitP from -> NoSplitP to ->
  rp_node from depth = rp_node to depth ->
  (sl_open_start sl = 0 -> sl_open_end sl = 0 -> VL (sl_content sl)) ->
  depth <= rp_depth from - sl_open_start sl ->
  (forall st en, prepare_slice s sl from = Ok (st, en) ->
     LastOK st /\ TextAt st /\ LastOK en /\ TextAt en /\ PathMC en /\
     forall d, d <= rp_depth from - sl_open_start sl -> Sides (rp_depth from) (rp_depth to) st en d) ->
  V r.
Proof.
  induction fuel as [|fuel IH]; intros from to sl depth r H Hvf Hvt Hlf Hlt Htf Htt Hnf Hnt Hsame Hclosed Hdepth Hprep;
    [discriminate|].
  cbn [replace_outer] in H.
  destruct (rp_index from depth) as [index|] eqn:Ei; [|discriminate]. cbn [bind] in H.
  destruct (rp_node from depth) as [n|] eqn:En; [|discriminate]. cbn [bind] in H.
  destruct (rp_index to depth) as [tindex|] eqn:Eti; [|discriminate]. cbn [bind] in H.
  assert (Hn : V n) by (eapply rp_node_V; eauto).
  destruct ((index =? tindex) && (depth <? rp_depth from - sl_open_start sl)) eqn:Edesc.
  { destruct (replace_outer s fuel from to sl (S depth)) as [inner|] eqn:Einner; [|discriminate]. cbn [bind] in H.
    inversion H; subst r. clear H.
    apply andb_prop in Edesc. destruct Edesc as [Eidx Elt]. apply Nat.eqb_eq in Eidx. subst tindex.
    apply Nat.ltb_lt in Elt.
    destruct (replace_outer_markup _ _ _ _ _ _ Einner) as ((n' & En' & Hty & Hmk) & (ti' & Eti')).
    destruct (rp_node_path _ _ _ En') as (i1 & o1 & Hp1).
    destruct (rp_index_path _ _ _ Ei) as (n0 & o0 & Hp0).
    assert (n0 = n) by (unfold rp_node in En; rewrite Hp0 in En; inversion En; auto). subst n0.
    assert (Hchild : child_at n index = Some n') by (eapply Hlf; eauto).
    destruct (rp_index_path _ _ _ Eti') as (n2 & o2 & Hp2).
    destruct (rp_index_path _ _ _ Eti) as (n3 & o3 & Hp3).
    assert (Hto : rp_node to depth = Ok n) by congruence.
    assert (n3 = n) by (unfold rp_node in Hto; rewrite Hp3 in Hto; inversion Hto; auto). subst n3.
    assert (Hchild2 : child_at n index = Some n2) by (eapply Hlt; eauto).
    assert (n2 = n') by congruence. subst n2.
    assert (Hinner : V inner).
    { eapply IH; eauto; try lia. rewrite En'. unfold rp_node. rewrite Hp2. reflexivity. }
    destruct n as [t m|ty a m cs]; [destruct index; discriminate|]. cbn [node_copy node_content].
    eapply replace_child_V; eauto. }
  destruct (frag_size s (sl_content sl) =? 0).
  { destruct (replace_two_way s (S (rp_depth from)) from to depth) as [c|] eqn:E2; [|discriminate]. cbn [bind] in H.
    eapply close_V; [exact H|apply V_MC; auto|].
    eapply two_way_VL; eauto using PathV_BeforeFrom, PathV_PathMC, PathV_AfterFrom, PathV_LastOK. }
  destruct ((sl_open_start sl =? 0) && (sl_open_end sl =? 0) && (rp_depth from =? depth) && (rp_depth to =? depth)) eqn:Ec.
  { apply andb_prop in Ec. destruct Ec as [Ec Edt]. apply andb_prop in Ec. destruct Ec as [Ec Edf].
    apply andb_prop in Ec. destruct Ec as [Eos Eoe].
    apply Nat.eqb_eq in Edt, Edf, Eos, Eoe.
    destruct Hnf as (pf & Epf & Hnsf). destruct Hnt as (pt & Ept & Hnst).
    unfold rp_parent in *. rewrite Edf, En in Epf. inversion Epf; subst pf.
    assert (Hto : rp_node to depth = Ok n) by congruence.
    rewrite Edt, Hto in Ept. inversion Ept; subst pt.
    rewrite Edf, En in H. cbn [bind] in H.
    destruct (frag_cut s (node_content n) 0 (rp_parent_offset from)) as [a|] eqn:Ea; [|discriminate]. cbn [bind] in H.
    destruct (frag_cut s (node_content n) (rp_parent_offset to) (frag_size s (node_content n))) as [b|] eqn:Eb; [|discriminate].
    cbn [bind] in H.
    assert (Hcs : VL (node_content n)).
    { destruct n as [t m|ty a0 m cs]; [apply VL_nil|]. eapply V_children; eauto. }
    eapply close_V; [exact H|apply V_MC; auto|].
    apply frag_append_VL; [apply frag_append_VL; auto|].
    - eapply frag_cut_VL; [exact Hcs| |exact Hnsf|exact Ea]. apply nosplit_before. lia.
    - eapply frag_cut_VL; [exact Hcs|exact Hnst| |exact Eb]. apply nosplit_after. lia. }
  destruct (prepare_slice s sl from) as [[st en]|] eqn:Eprep; [|discriminate]. cbn [bind] in H.
  destruct (replace_three_way s (S (rp_depth from + rp_depth to + rp_depth st)) from st en to depth) as [c|] eqn:E3;
    [|discriminate]. cbn [bind] in H.
  destruct (Hprep _ _ eq_refl) as (Has & Hts & Hbe & Hte & Hme & Hsd).
  eapply close_V; [exact H|apply V_MC; auto|].
  eapply three_way_VL; eauto using PathV_BeforeFrom, PathV_PathMC, PathV_AfterFrom, PathV_LastOK.
Qed.

Lemma prepare_slice_ok sl along st en : prepare_slice s sl along = Ok (st, en) -> prepare_slice0 s sl along = Ok (st, en).
Proof.
  unfold prepare_slice. destruct (prepare_slice0 s sl along) as [[a b]|]; [|discriminate]. cbn [bind].
  destruct (negb _ || negb _); [discriminate|]. auto.
Qed.

Lemma prepare_slice_TextAt sl along st en : prepare_slice s sl along = Ok (st, en) -> TextAt st /\ TextAt en.
Proof.
  intros H0. apply prepare_slice_ok in H0. revert H0.
  unfold prepare_slice0. destruct (rp_node along (rp_depth along - sl_open_start sl)) as [n|]; [|discriminate]. cbn [bind].
  destruct (wrap_up along (rp_depth along - sl_open_start sl) (node_copy n (sl_content sl))) as [w|]; [|discriminate].
  cbn [bind]. destruct (frag_size s (node_content w) <? sl_open_end sl + (rp_depth along - sl_open_start sl)); [discriminate|].
  destruct (resolve s w (sl_open_start sl + (rp_depth along - sl_open_start sl))) as [a|] eqn:Ea; [|discriminate]. cbn [bind].
  destruct (resolve s w (frag_size s (node_content w) - sl_open_end sl - (rp_depth along - sl_open_start sl))) as [b|] eqn:Eb;
    [|discriminate]. cbn [bind]. intros H; inversion H; subst.
  split; [apply (resolve_spec _ _ _ Ea)|apply (resolve_spec _ _ _ Eb)].
Qed.

(* Node.replace returns a valid document whenever it returns one.  For an open slice the sides of the
   prepared slice must consist of valid nodes (the hypothesis is on the slice, not on the result). *)
Theorem node_replace_valid doc from to sl d' :
  V doc -> node_replace s doc from to sl = Ok d' ->
  (sl_open_start sl = 0 -> sl_open_end sl = 0 -> VL (sl_content sl)) ->
  (forall rf rt st en, resolve s doc from = Ok rf -> resolve s doc to = Ok rt ->
     sl_open_start sl <= rp_depth rf -> rp_depth rt = rp_depth rf - sl_open_start sl + sl_open_end sl ->
     prepare_slice s sl rf = Ok (st, en) ->
     LastOK st /\ LastOK en /\ PathMC en /\
     forall d, d <= rp_depth rf - sl_open_start sl -> Sides (rp_depth rf) (rp_depth rt) st en d) ->
  V d'.
Proof.
  intros Hd H Hclosed Hprep. unfold node_replace in H.
  destruct (resolve s doc from) as [rf|] eqn:Ef; [|discriminate]. cbn [bind] in H.
  destruct (resolve s doc to) as [rt|] eqn:Et; [|discriminate]. cbn [bind] in H.
  unfold replace_rp in H. destruct (rp_depth rf <? sl_open_start sl) eqn:E1; [discriminate|].
  apply Nat.ltb_ge in E1.
  destruct (negb _) eqn:E2; [discriminate|]. apply negb_false_iff in E2. apply Z.eqb_eq in E2.
  destruct (rp_pos rt <? rp_pos rf); [discriminate|]. destruct (_ && _); [discriminate|].
  destruct (resolve_spec _ _ _ Ef) as (_ & Hlf & Htf & (i1 & o1 & r1 & Hh1) & Hnf).
  destruct (resolve_spec _ _ _ Et) as (_ & Hlt & Htt & (i2 & o2 & r2 & Hh2) & Hnt).
  eapply replace_outer_V; eauto using resolve_PathV.
  - unfold rp_node, path_at. rewrite Hh1, Hh2. reflexivity.
  - lia.
  - intros st en Hp. destruct (prepare_slice_TextAt _ _ _ _ Hp) as [Hts Hte].
    destruct (Hprep _ _ _ _ eq_refl eq_refl E1 ltac:(lia) Hp) as (Ha & Hb & Hm & Hsd). auto 10.
Qed.

End WithSchema.
