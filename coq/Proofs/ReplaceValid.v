(* replace never returns an invalid document (keystone for C01, C11-V, C12-V):
   every node of the result is an untouched valid node, a cut text node, a merged text node, or was
   rebuilt through [close], which validates its content. *)
From Coq Require Import ZArith NArith List Bool Arith Lia.
From PM Require Import Model.Data Model.Mark Model.Tree Proofs.DataProofs Proofs.NodeInd.
Import ListNotations.

Section WithSchema.
Variable s : schema.

Definition V (n : node) : Prop := check s n = true.
Definition VL (l : list node) : Prop := forall x, In x l -> V x.
Definition MC (n : node) : Prop := marks_canonical s (node_marks n) = true.

Lemma check_elem ty a m cs :
  check s (Elem ty a m cs) = valid_content s ty cs && marks_canonical s m && forallb (check s) cs.
Proof. reflexivity. Qed.

Lemma V_children ty a m cs : V (Elem ty a m cs) -> VL cs.
Proof.
  unfold V. rewrite check_elem. intros H. apply andb_prop in H. destruct H as [_ H].
  rewrite forallb_forall in H. exact H.
Qed.

Lemma V_MC n : V n -> MC n.
Proof.
  unfold V, MC. destruct n as [t m|ty a m cs]; simpl; auto.
  intros H. change (check s (Elem ty a m cs) = true) in H. rewrite check_elem in H.
  apply andb_prop in H. destruct H as [H _]. apply andb_prop in H. tauto.
Qed.

Lemma VL_nil : VL []. Proof. intros x []. Qed.
Lemma VL_app a b : VL a -> VL b -> VL (a ++ b).
Proof. intros Ha Hb x Hx. apply in_app_or in Hx. destruct Hx; auto. Qed.
Lemma VL_cons x l : V x -> VL l -> VL (x :: l).
Proof. intros Hx Hl y [<-|Hy]; auto. Qed.
Lemma VL_firstn n l : VL l -> VL (firstn n l).
Proof. intros H x Hx. apply H. rewrite <- (firstn_skipn n l). apply in_or_app; left; exact Hx. Qed.
Lemma VL_skipn n l : VL l -> VL (skipn n l).
Proof. intros H x Hx. apply H. rewrite <- (firstn_skipn n l). apply in_or_app; right; exact Hx. Qed.

Lemma In_removelast {A} (x : A) l : In x (removelast l) -> In x l.
Proof.
  induction l as [|y l IH]; simpl; auto. destruct l as [|z l]; [intros []|].
  intros [->|H]; auto.
Qed.

Lemma V_text t m : V (Text t m) <-> marks_canonical s m = true.
Proof. unfold V. simpl. tauto. Qed.

Lemma add_node_VL child target : V child -> VL target -> VL (add_node child target).
Proof.
  intros Hc Ht. unfold add_node. destruct child as [t m|ty a m cs].
  - destruct (rev target) as [|[t' m'|? ? ? ?] r] eqn:Er; try (apply VL_app; auto; apply VL_cons; auto; apply VL_nil).
    destruct (marks_eqb m m').
    + apply VL_app.
      * intros x Hx. apply Ht. apply In_removelast; auto.
      * apply VL_cons; [|apply VL_nil]. apply V_text. apply V_text in Hc. exact Hc.
    + apply VL_app; auto. apply VL_cons; auto. apply VL_nil.
  - apply VL_app; auto. apply VL_cons; auto. apply VL_nil.
Qed.

Lemma add_all_VL l : forall target, VL l -> VL target -> VL (add_all l target).
Proof.
  induction l as [|c l IH]; intros target Hl Ht; simpl; auto.
  apply IH. { intros x Hx. apply Hl; right; auto. }
  apply add_node_VL; auto. apply Hl; left; auto.
Qed.

Lemma text_cut_V t m a b n : text_cut t m a b = Ok n -> marks_canonical s m = true -> V n.
Proof.
  unfold text_cut. destruct ((a =? 0) && (b =? text_length t)).
  - intros H Hm; inversion H; subst. apply V_text; auto.
  - destruct (cut_text t a b) as [x|e]; simpl; [|discriminate].
    destruct x; [discriminate|]. intros H Hm; inversion H; subst. apply V_text; auto.
Qed.

Lemma close_V n content n' :
  close s n content = Ok n' -> MC n -> VL content -> V n'.
Proof.
  unfold close. destruct (valid_content s (node_ty s n) content) eqn:Ev; [|discriminate].
  intros H Hm Hc. inversion H; subst. destruct n as [t m|ty a m cs]; simpl.
  - (* a text node is never closed over content in practice; its check is its marks *)
    apply V_text. exact Hm.
  - unfold V. rewrite check_elem. simpl in Ev. rewrite Ev. unfold MC in Hm. simpl in Hm. rewrite Hm. simpl.
    apply forallb_forall. exact Hc.
Qed.

(* ---------------------------------------------------------------- resolved positions *)
Definition PathV (r : rpos) : Prop := forall n i o, In (n, i, o) (rp_path r) -> V n.

Lemma resolve_in_path_V : forall n po start path po',
  V n -> resolve_in s n po start = Ok (path, po') -> forall m i o, In (m, i, o) path -> V m.
Proof.
  induction n as [t m|ty a mk cs IH] using node_ind2; intros po start path po' Hv H; [discriminate|].
  cbn [resolve_in] in H. destruct (po =? 0).
  - inversion H; subst. intros m i o [Hin|[]]. inversion Hin; subst. exact Hv.
  - pose proof (V_children _ _ _ _ Hv) as Hcs.
    set (n := Elem ty a mk cs) in *.
    assert (G : forall (l : list node) i cur,
      (forall x, In x l -> In x cs) ->
      (fix walk (l : list node) (i cur : nat) {struct l} : res (list (node * nat * nat) * nat) :=
         match l with
         | [] => Err ErrValue
         | c :: r =>
           let e := cur + node_size s c in
           if e =? po then Ok ([(n, S i, start + e)], po)
           else if po <? e then
             match c with
             | Text _ _ => Ok ([(n, i, start + cur)], po)
             | Elem _ _ _ _ =>
               do rest <- resolve_in s c (po - cur - 1) (start + cur + 1);
               Ok ((n, i, start + cur) :: fst rest, snd rest)
             end
           else walk r (S i) e
         end) l i cur = Ok (path, po') -> forall m i0 o, In (m, i0, o) path -> V m).
    { clear H. induction l as [|c r IHl]; intros i cur Hl H; [discriminate|].
      cbn beta iota fix zeta in H.
      destruct (cur + node_size s c =? po).
      - inversion H; subst. intros m i0 o [Hin|[]]. inversion Hin; subst. exact Hv.
      - destruct (po <? cur + node_size s c).
        + assert (Hc : In c cs) by (apply Hl; left; auto).
          destruct c as [t' m'|ty' a' mk' cs'].
          * inversion H; subst. intros m i0 o [Hin|[]]. inversion Hin; subst. exact Hv.
          * destruct (resolve_in s (Elem ty' a' mk' cs') (po - cur - 1) (start + cur + 1)) as [[p2 po2]|e] eqn:Er;
              [|discriminate]. simpl in H. inversion H; subst.
            intros m i0 o [Hin|Hin]; [inversion Hin; subst; exact Hv|].
            eapply (IH _ Hc); eauto.
        + eapply IHl; eauto. intros x Hx. apply Hl. right; auto. }
    eapply (G cs 0 0); eauto.
Qed.

Lemma resolve_PathV doc pos r : V doc -> resolve s doc pos = Ok r -> PathV r.
Proof.
  unfold resolve. destruct (frag_size s (node_content doc) <? pos); [discriminate|].
  destruct (resolve_in s doc pos 0) as [[p po]|e] eqn:E; [|discriminate]. simpl.
  intros Hv H. inversion H; subst. intros n i o Hin. simpl in Hin.
  eapply resolve_in_path_V; eauto.
Qed.

(* ---------------------------------------------------------------- what add_range needs of a position *)
Definition TextAt (r : rpos) : Prop :=
  rp_text_offset r <> 0 ->
  exists n i o t m, path_at r (rp_depth r) = Some (n, i, o) /\ child_at n i = Some (Text t m).

(* children after the path's child at every level are valid (plus the child at the final index) *)
Definition AfterOK (r : rpos) : Prop :=
  forall d n i o, path_at r d = Some (n, i, o) -> forall j c, child_at n j = Some c ->
    (i < j \/ (d = rp_depth r /\ j = i)) -> V c.
(* children before the path's child at every level are valid (plus the final child when it is cut) *)
Definition BeforeOK (r : rpos) : Prop :=
  forall d n i o, path_at r d = Some (n, i, o) -> forall j c, child_at n j = Some c ->
    (j < i \/ (d = rp_depth r /\ j = i /\ rp_text_offset r <> 0)) -> V c.
Definition PathMC (r : rpos) : Prop := forall d n i o, path_at r d = Some (n, i, o) -> MC n.

Lemma child_at_In n j c : child_at n j = Some c -> In c (node_content n).
Proof. unfold child_at. apply nth_error_In. Qed.

Lemma PathV_AfterOK r : PathV r -> AfterOK r.
Proof.
  intros H d n i o Hp j c Hc _. unfold path_at in Hp. apply nth_error_In in Hp. specialize (H _ _ _ Hp).
  destruct n as [t m|ty a m cs]; [destruct j; discriminate|]. apply (V_children _ _ _ _ H). apply (child_at_In _ _ _ Hc).
Qed.
Lemma PathV_BeforeOK r : PathV r -> BeforeOK r.
Proof.
  intros H d n i o Hp j c Hc _. unfold path_at in Hp. apply nth_error_In in Hp. specialize (H _ _ _ Hp).
  destruct n as [t m|ty a m cs]; [destruct j; discriminate|]. apply (V_children _ _ _ _ H). apply (child_at_In _ _ _ Hc).
Qed.
Lemma PathV_PathMC r : PathV r -> PathMC r.
Proof. intros H d n i o Hp. apply V_MC. unfold path_at in Hp. apply nth_error_In in Hp. eapply H; eauto. Qed.

Lemma rp_node_path r d n : rp_node r d = Ok n -> exists i o, path_at r d = Some (n, i, o).
Proof. unfold rp_node. destruct (path_at r d) as [[[n' i] o]|]; intros H; inversion H; subst; eauto. Qed.
Lemma rp_index_path r d i : rp_index r d = Ok i -> exists n o, path_at r d = Some (n, i, o).
Proof. unfold rp_index. destruct (path_at r d) as [[[n' i'] o]|]; intros H; inversion H; subst; eauto. Qed.

Lemma rp_node_after_V r x : rp_node_after s r = Ok (Some x) -> AfterOK r -> TextAt r -> V x.
Proof.
  unfold rp_node_after, rp_parent. intros H Ha Ht.
  destruct (rp_node r (rp_depth r)) as [parent|] eqn:En; [|discriminate]. cbn [bind] in H.
  destruct (rp_index r (rp_depth r)) as [index|] eqn:Ei; [|discriminate]. cbn [bind] in H.
  destruct (rp_node_path _ _ _ En) as (i0 & o0 & Hp). destruct (rp_index_path _ _ _ Ei) as (n1 & o1 & Hp1).
  rewrite Hp in Hp1. inversion Hp1; subst n1 i0 o1. clear Hp1.
  destruct (child_at parent index) as [child|] eqn:Ec.
  - assert (Hvc : V child) by (eapply (Ha _ _ _ _ Hp index child Ec); right; auto).
    destruct (rp_text_offset r =? 0) eqn:Ez.
    + inversion H; subst. exact Hvc.
    + apply Nat.eqb_neq in Ez. destruct (Ht Ez) as (n2 & i2 & o2 & t & m & Hp2 & Hc2).
      rewrite Hp in Hp2. inversion Hp2; subst n2 i2 o2. rewrite Ec in Hc2. inversion Hc2; subst child.
      destruct (text_cut t m (rp_text_offset r) (text_length t)) as [c|] eqn:Et; [|discriminate].
      cbn [bind] in H. inversion H; subst. eapply text_cut_V; [exact Et|]. apply (proj1 (V_text t m)). exact Hvc.
  - destruct (index =? length (node_content parent)); discriminate.
Qed.

Lemma rp_node_before_V r x : rp_node_before s r = Ok (Some x) -> BeforeOK r -> TextAt r -> V x.
Proof.
  unfold rp_node_before, rp_parent. intros H Hb Ht.
  destruct (rp_node r (rp_depth r)) as [parent|] eqn:En; [|discriminate]. cbn [bind] in H.
  destruct (rp_index r (rp_depth r)) as [index|] eqn:Ei; [|discriminate]. cbn [bind] in H.
  destruct (rp_node_path _ _ _ En) as (i0 & o0 & Hp). destruct (rp_index_path _ _ _ Ei) as (n1 & o1 & Hp1).
  rewrite Hp in Hp1. inversion Hp1; subst n1 i0 o1. clear Hp1.
  destruct (rp_text_offset r =? 0) eqn:Ez; cbn [negb] in H.
  - destruct index as [|i']; [discriminate|].
    destruct (child_at parent i') as [c|] eqn:Ec; [|discriminate]. inversion H; subst.
    eapply (Hb _ _ _ _ Hp i' x Ec). left. lia.
  - apply Nat.eqb_neq in Ez. destruct (Ht Ez) as (n2 & i2 & o2 & t & m & Hp2 & Hc2).
    rewrite Hp in Hp2. inversion Hp2; subst n2 i2 o2. rewrite Hc2 in H.
    assert (Hvc : V (Text t m)) by (eapply (Hb _ _ _ _ Hp index _ Hc2); right; auto).
    destruct (text_cut t m 0 (rp_text_offset r)) as [c|] eqn:Et; [|discriminate].
    cbn [bind] in H. inversion H; subst. eapply text_cut_V; [exact Et|]. apply (proj1 (V_text t m)). exact Hvc.
Qed.

Lemma In_sub_nth {A} (c : A) k a l :
  In c (firstn k (skipn a l)) -> exists j, a <= j < a + k /\ nth_error l j = Some c.
Proof.
  revert a l. induction k as [|k IH]; intros a l H; [rewrite firstn_O in H; contradiction|].
  destruct (skipn a l) as [|x r] eqn:Es; [rewrite firstn_nil in H; contradiction|].
  simpl in H. destruct H as [->|H].
  - exists a. split; [lia|]. clear -Es. revert l Es. induction a as [|a IHa]; intros l Es.
    + simpl in Es. subst. reflexivity.
    + destruct l as [|y l]; [discriminate|]. simpl in *. auto.
  - assert (Es' : skipn (S a) l = r).
    { clear -Es. revert l Es. induction a as [|a IHa]; intros l Es.
      - simpl in Es. subst. reflexivity.
      - destruct l as [|y l]; [discriminate|]. simpl in *. auto. }
    rewrite <- Es' in H. destruct (IH (S a) l H) as (j & Hj & Hn). exists j. split; [lia|auto].
Qed.

Lemma add_range_VL start end_ depth target l :
  add_range s start end_ depth target = Ok l -> VL target ->
  (forall sp, start = Some sp -> AfterOK sp /\ TextAt sp) ->
  (forall e, end_ = Some e -> BeforeOK e /\ TextAt e) ->
  VL l.
Proof.
  unfold add_range. intros H Ht Hs He.
  destruct (match end_ with Some e => rp_node e depth | None => match start with Some st => rp_node st depth | None => Err ErrInternal end end)
    as [n|] eqn:En; [|discriminate]. cbn [bind] in H.
  destruct (match end_ with Some e => rp_index e depth | None => Ok (length (node_content n)) end) as [end_index|] eqn:Eei;
    [|discriminate]. cbn [bind] in H.
  (* the start part *)
  destruct (match start with
            | None => Ok (0, target)
            | Some sp => do si <- rp_index sp depth;
                         if depth <? rp_depth sp then Ok (S si, target)
                         else if negb (rp_text_offset sp =? 0)
                              then do na <- rp_node_after s sp;
                                   match na with Some x => Ok (S si, add_node x target) | None => Err ErrInternal end
                              else Ok (si, target)
            end) as [[start_index target1]|] eqn:Est; [|discriminate]. cbn [bind] in H.
  assert (Ht1 : VL target1).
  { destruct start as [sp|]; [|inversion Est; subst; auto].
    destruct (rp_index sp depth) as [si|]; [|discriminate]. cbn [bind] in Est.
    destruct (depth <? rp_depth sp); [inversion Est; subst; auto|].
    destruct (negb (rp_text_offset sp =? 0)); [|inversion Est; subst; auto].
    destruct (rp_node_after s sp) as [[x|]|] eqn:Ena; try discriminate. cbn [bind] in Est. inversion Est; subst.
    destruct (Hs sp eq_refl) as [Ha Hta]. apply add_node_VL; auto. eapply rp_node_after_V; eauto. }
  destruct (length (node_content n) <? end_index); [discriminate|]. cbn [bind] in H.
  (* the children in between *)
  assert (Hmid : VL (firstn (end_index - start_index) (skipn start_index (node_content n)))).
  { intros c Hc. apply In_sub_nth in Hc. destruct Hc as (j & Hj & Hn).
    destruct end_ as [e|].
    - destruct (He e eq_refl) as [Hb _].
      destruct (rp_node_path _ _ _ En) as (i0 & o0 & Hp). destruct (rp_index_path _ _ _ Eei) as (n1 & o1 & Hp1).
      rewrite Hp in Hp1. inversion Hp1; subst n1 i0 o1.
      eapply (Hb _ _ _ _ Hp j c Hn). left. lia.
    - destruct start as [sp|]; [|discriminate].
      destruct (Hs sp eq_refl) as [Ha _].
      destruct (rp_node_path _ _ _ En) as (i0 & o0 & Hp).
      destruct (rp_index sp depth) as [si|] eqn:Esi; [|discriminate]. cbn [bind] in Est.
      destruct (rp_index_path _ _ _ Esi) as (n1 & o1 & Hp1). rewrite Hp in Hp1. inversion Hp1; subst n1 i0 o1.
      destruct (depth <? rp_depth sp) eqn:Ed.
      + inversion Est; subst. eapply (Ha _ _ _ _ Hp j c Hn). left. lia.
      + destruct (negb (rp_text_offset sp =? 0)).
        * destruct (rp_node_after s sp) as [[x|]|]; try discriminate. cbn [bind] in Est. inversion Est; subst.
          eapply (Ha _ _ _ _ Hp j c Hn). left. lia.
        * inversion Est; subst. eapply (Ha _ _ _ _ Hp j c Hn).
          destruct (Nat.eq_dec j start_index) as [->|Hne]; [|left; lia].
          right. split; auto.
          (* depth is a valid path index and not below the position's depth: it is the depth *)
          apply Nat.ltb_ge in Ed. unfold path_at in Hp.
          assert (depth < length (rp_path sp)) by (apply nth_error_Some; congruence).
          unfold rp_depth in *. lia. }
  pose proof (add_all_VL _ _ Hmid Ht1) as Hall.
  destruct end_ as [e|]; [|inversion H; subst; exact Hall].
  destruct ((rp_depth e =? depth) && negb (rp_text_offset e =? 0)); [|inversion H; subst; exact Hall].
  destruct (rp_node_before s e) as [[x|]|] eqn:Enb; try discriminate. cbn [bind] in H. inversion H; subst.
  destruct (He e eq_refl) as [Hb Hte]. apply add_node_VL; auto. eapply rp_node_before_V; eauto.
Qed.

(* ---------------------------------------------------------------- the recursive rebuilds *)
Lemma joinable_MC before after depth n :
  joinable s before after depth = Ok n -> PathMC before -> MC n.
Proof.
  unfold joinable. intros H Hm.
  destruct (rp_node before depth) as [n0|] eqn:En; [|discriminate]. cbn [bind] in H.
  destruct (rp_node after depth) as [a0|]; [|discriminate]. cbn [bind] in H.
  destruct (check_join s n0 a0); [|discriminate]. cbn [bind] in H. inversion H; subst.
  destruct (rp_node_path _ _ _ En) as (i & o & Hp). eapply Hm; eauto.
Qed.

Lemma two_way_VL : forall fuel from to depth l,
  replace_two_way s fuel from to depth = Ok l ->
  BeforeOK from -> TextAt from -> PathMC from -> AfterOK to -> TextAt to -> VL l.
Proof.
  induction fuel as [|fuel IH]; intros from to depth l H Hbf Htf Hmf Hat Htt; [discriminate|].
  cbn [replace_two_way] in H.
  destruct (add_range s None (Some from) depth []) as [c1|] eqn:E1; [|discriminate]. cbn [bind] in H.
  assert (Hc1 : VL c1).
  { eapply add_range_VL; eauto using VL_nil; [intros sp Hsp; discriminate|].
    intros e He; inversion He; subst; auto. }
  destruct (if depth <? rp_depth from
            then do ty <- joinable s from to (S depth);
                 do inner <- replace_two_way s fuel from to (S depth);
                 do cl <- close s ty inner; Ok (add_node cl c1)
            else Ok c1) as [c2|] eqn:E2; [|discriminate]. cbn [bind] in H.
  assert (Hc2 : VL c2).
  { destruct (depth <? rp_depth from); [|inversion E2; subst; auto].
    destruct (joinable s from to (S depth)) as [ty|] eqn:Ej; [|discriminate]. cbn [bind] in E2.
    destruct (replace_two_way s fuel from to (S depth)) as [inner|] eqn:Ei; [|discriminate]. cbn [bind] in E2.
    destruct (close s ty inner) as [cl|] eqn:Ec; [|discriminate]. cbn [bind] in E2. inversion E2; subst.
    apply add_node_VL; auto.
    eapply close_V; [exact Ec | eapply joinable_MC; eauto | eapply IH; eauto]. }
  eapply add_range_VL; eauto.
  - intros sp Hsp; inversion Hsp; subst; auto.
  - intros e He; discriminate.
Qed.

Lemma three_way_VL : forall fuel from start end_ to depth l,
  replace_three_way s fuel from start end_ to depth = Ok l ->
  BeforeOK from -> TextAt from -> PathMC from ->
  AfterOK start -> TextAt start ->
  BeforeOK end_ -> TextAt end_ -> PathMC end_ ->
  AfterOK to -> TextAt to -> VL l.
Proof.
  induction fuel as [|fuel IH]; intros from start end_ to depth l H Hbf Htf Hmf Has Hts Hbe Hte Hme Hat Htt; [discriminate|].
  cbn [replace_three_way] in H.
  destruct (if depth <? rp_depth from then do n <- joinable s from start (S depth); Ok (Some n) else Ok None)
    as [open_start|] eqn:Eos; [|discriminate]. cbn [bind] in H.
  destruct (if depth <? rp_depth to then do n <- joinable s end_ to (S depth); Ok (Some n) else Ok None)
    as [open_end|] eqn:Eoe; [|discriminate]. cbn [bind] in H.
  destruct (add_range s None (Some from) depth []) as [c1|] eqn:E1; [|discriminate]. cbn [bind] in H.
  assert (Hc1 : VL c1).
  { eapply add_range_VL; eauto using VL_nil; [intros sp Hsp; discriminate|].
    intros e He; inversion He; subst; auto. }
  assert (Hos : forall os, open_start = Some os -> MC os).
  { intros os ->. destruct (depth <? rp_depth from); [|discriminate].
    destruct (joinable s from start (S depth)) as [n|] eqn:Ej; [|discriminate]. cbn [bind] in Eos.
    inversion Eos; subst. eapply joinable_MC; eauto. }
  assert (Hoe : forall oe, open_end = Some oe -> MC oe).
  { intros oe ->. destruct (depth <? rp_depth to); [|discriminate].
    destruct (joinable s end_ to (S depth)) as [n|] eqn:Ej; [|discriminate]. cbn [bind] in Eoe.
    inversion Eoe; subst. eapply joinable_MC; eauto. }
  (* the middle part *)
  match type of H with
  | bind ?mid _ = _ => destruct mid as [c2|] eqn:E2; [|discriminate]
  end. cbn [bind] in H.
  assert (Hc2 : VL c2).
  { clear H. destruct open_start as [os|]; destruct open_end as [oe|].
    - destruct (rp_index start depth) as [si|]; [|discriminate]. cbn [bind] in E2.
      destruct (rp_index end_ depth) as [ei|]; [|discriminate]. cbn [bind] in E2.
      destruct (si =? ei).
      + destruct (check_join s os oe); [|discriminate]. cbn [bind] in E2.
        destruct (replace_three_way s fuel from start end_ to (S depth)) as [inner|] eqn:Ei; [|discriminate].
        cbn [bind] in E2. destruct (close s os inner) as [cl|] eqn:Ec; [|discriminate]. cbn [bind] in E2.
        inversion E2; subst. apply add_node_VL; auto.
        eapply close_V; [exact Ec | apply Hos; reflexivity | eapply IH; eauto].
      + destruct (replace_two_way s fuel from start (S depth)) as [inner|] eqn:Ei; [|discriminate].
        cbn [bind] in E2. destruct (close s os inner) as [cl|] eqn:Ec; [|discriminate]. cbn [bind] in E2.
        destruct (add_range s (Some start) (Some end_) depth (add_node cl c1)) as [c'|] eqn:Ea; [|discriminate].
        cbn [bind] in E2.
        destruct (replace_two_way s fuel end_ to (S depth)) as [inner2|] eqn:Ei2; [|discriminate].
        cbn [bind] in E2. destruct (close s oe inner2) as [cl2|] eqn:Ec2; [|discriminate]. cbn [bind] in E2.
        inversion E2; subst. apply add_node_VL.
        * eapply close_V; [exact Ec2 | apply Hoe; reflexivity | eapply two_way_VL; eauto].
        * eapply add_range_VL; eauto.
          -- apply add_node_VL; auto. eapply close_V; [exact Ec | apply Hos; reflexivity | eapply two_way_VL; eauto].
          -- intros sp Hsp; inversion Hsp; subst; auto.
          -- intros e He; inversion He; subst; auto.
    - destruct (replace_two_way s fuel from start (S depth)) as [inner|] eqn:Ei; [|discriminate].
      cbn [bind] in E2. destruct (close s os inner) as [cl|] eqn:Ec; [|discriminate]. cbn [bind] in E2.
      destruct (add_range s (Some start) (Some end_) depth (add_node cl c1)) as [c''|] eqn:Ea; [|discriminate].
      cbn [bind] in E2. inversion E2; subst.
      eapply add_range_VL; eauto.
      + apply add_node_VL; auto. eapply close_V; [exact Ec | apply Hos; reflexivity | eapply two_way_VL; eauto].
      + intros sp Hsp; inversion Hsp; subst; auto.
      + intros e He; inversion He; subst; auto.
    - cbn [bind] in E2.
      destruct (add_range s (Some start) (Some end_) depth c1) as [c''|] eqn:Ea; [|discriminate].
      cbn [bind] in E2.
      destruct (replace_two_way s fuel end_ to (S depth)) as [inner2|] eqn:Ei2; [|discriminate].
      cbn [bind] in E2. destruct (close s oe inner2) as [cl2|] eqn:Ec2; [|discriminate]. cbn [bind] in E2.
      inversion E2; subst. apply add_node_VL.
      + eapply close_V; [exact Ec2 | apply Hoe; reflexivity | eapply two_way_VL; eauto].
      + eapply add_range_VL; eauto.
        * intros sp Hsp; inversion Hsp; subst; auto.
        * intros e He; inversion He; subst; auto.
    - cbn [bind] in E2.
      destruct (add_range s (Some start) (Some end_) depth c1) as [c''|] eqn:Ea; [|discriminate].
      cbn [bind] in E2. inversion E2; subst.
      eapply add_range_VL; eauto.
      + intros sp Hsp; inversion Hsp; subst; auto.
      + intros e He; inversion He; subst; auto. }
  eapply add_range_VL; eauto.
  - intros sp Hsp; inversion Hsp; subst; auto.
  - intros e He; discriminate.
Qed.

(* ---------------------------------------------------------------- what resolve guarantees *)
(* p does not fall strictly inside an element child of l (children laid out from position pos) *)
Fixpoint nosplit (l : list node) (pos p : nat) : Prop :=
  match l with
  | [] => True
  | c :: r =>
    (match c with Elem _ _ _ _ => ~ (pos < p < pos + node_size s c) | Text _ _ => True end) /\
    nosplit r (pos + node_size s c) p
  end.

Lemma nosplit_before l : forall pos p, p <= pos -> nosplit l pos p.
Proof.
  induction l as [|c l IH]; intros pos p H; simpl; auto. split.
  - destruct c; auto. lia.
  - apply IH. lia.
Qed.

Lemma nosplit_after l : forall pos p, pos + frag_size s l <= p -> nosplit l pos p.
Proof.
  induction l as [|c l IH]; intros pos p H; simpl in *; auto. split.
  - destruct c; auto. lia.
  - apply IH. lia.
Qed.

Lemma nosplit_app a : forall b pos p,
  nosplit a pos p -> nosplit b (pos + frag_size s a) p -> nosplit (a ++ b) pos p.
Proof.
  induction a as [|c a IH]; intros b pos p Ha Hb; simpl in *.
  - rewrite Nat.add_0_r in Hb. exact Hb.
  - destruct Ha as [H1 H2]. split; auto. apply IH; auto.
    replace (pos + node_size s c + frag_size s a) with (pos + (node_size s c + frag_size s a)) by lia. exact Hb.
Qed.

Lemma frag_size_app a b : frag_size s (a ++ b) = frag_size s a + frag_size s b.
Proof. induction a; simpl; auto. rewrite IHa. lia. Qed.

Definition linked (path : list (node * nat * nat)) : Prop :=
  forall d n1 i1 o1 n2 i2 o2, nth_error path d = Some (n1, i1, o1) -> nth_error path (S d) = Some (n2, i2, o2) ->
    child_at n1 i1 = Some n2.

Definition last_entry (path : list (node * nat * nat)) := nth_error path (length path - 1).

Definition last_ok (path : list (node * nat * nat)) (g po' : nat) : Prop :=
  exists nl il ol, last_entry path = Some (nl, il, ol) /\ ol <= g /\
    (g - ol <> 0 -> exists t m, child_at nl il = Some (Text t m)) /\
    nosplit (node_content nl) 0 po'.

Lemma linked_cons n i o rest :
  linked rest -> (forall n2 i2 o2, nth_error rest 0 = Some (n2, i2, o2) -> child_at n i = Some n2) ->
  linked ((n, i, o) :: rest).
Proof.
  intros Hl Hh d n1 i1 o1 n2 i2 o2 H1 H2. destruct d as [|d].
  - simpl in H1. inversion H1; subst. simpl in H2. eapply Hh; eauto.
  - simpl in H1, H2. eapply Hl; eauto.
Qed.

Lemma linked_single e : linked [e].
Proof. intros d n1 i1 o1 n2 i2 o2 H1 H2. destruct d; simpl in H2; [discriminate|destruct d; discriminate]. Qed.

Lemma last_entry_cons e rest : rest <> [] -> last_entry (e :: rest) = last_entry rest.
Proof.
  unfold last_entry. destruct rest as [|x rest]; [contradiction|]. intros _. simpl length.
  replace (S (S (length rest)) - 1) with (S (length rest)) by lia.
  replace (S (length rest) - 1) with (length rest) by lia. reflexivity.
Qed.

Lemma nth_error_app_len {A} (pre : list A) c r : nth_error (pre ++ c :: r) (length pre) = Some c.
Proof. rewrite nth_error_app2 by lia. rewrite Nat.sub_diag. reflexivity. Qed.

Lemma resolve_in_spec : forall n po start path po',
  resolve_in s n po start = Ok (path, po') ->
  (exists i o rest, path = (n, i, o) :: rest) /\ linked path /\ last_ok path (start + po) po'.
Proof.
  induction n as [t m|ty a mk cs IH] using node_ind2; intros po start path po' H; [discriminate|].
  cbn [resolve_in] in H. set (n := Elem ty a mk cs) in *.
  destruct (po =? 0) eqn:Ez.
  - apply Nat.eqb_eq in Ez. subst po. inversion H; subst. split; [eauto|]. split; [apply linked_single|].
    exists n, 0, start. unfold last_entry. simpl. repeat split; auto; try lia.
    apply nosplit_before. lia.
  - apply Nat.eqb_neq in Ez.
    assert (G : forall (l pre : list node) i cur,
      cs = pre ++ l -> i = length pre -> cur = frag_size s pre -> cur <= po ->
      (fix walk (l : list node) (i cur : nat) {struct l} : res (list (node * nat * nat) * nat) :=
         match l with
         | [] => Err ErrValue
         | c :: r =>
           let e := cur + node_size s c in
           if e =? po then Ok ([(n, S i, start + e)], po)
           else if po <? e then
             match c with
             | Text _ _ => Ok ([(n, i, start + cur)], po)
             | Elem _ _ _ _ =>
               do rest <- resolve_in s c (po - cur - 1) (start + cur + 1);
               Ok ((n, i, start + cur) :: fst rest, snd rest)
             end
           else walk r (S i) e
         end) l i cur = Ok (path, po') ->
      (exists i o rest, path = (n, i, o) :: rest) /\ linked path /\ last_ok path (start + po) po').
    { clear H. induction l as [|c r IHl]; intros pre i cur Hcs Hi Hcur Hle H; [discriminate|].
      cbn beta iota fix zeta in H.
      assert (Hnth : child_at n i = Some c).
      { unfold child_at, n. simpl. rewrite Hcs, Hi. apply nth_error_app_len. }
      assert (Hpre : nosplit pre 0 po) by (apply nosplit_after; lia).
      destruct (cur + node_size s c =? po) eqn:Ee.
      - apply Nat.eqb_eq in Ee. inversion H; subst path po'. split; [eauto|]. split; [apply linked_single|].
        exists n, (S i), (start + (cur + node_size s c)). unfold last_entry. simpl. repeat split; auto; try lia.
        unfold n. simpl. rewrite Hcs. apply nosplit_app; auto. simpl. split.
        + destruct c; auto. lia.
        + apply nosplit_before. lia.
      - apply Nat.eqb_neq in Ee. destruct (po <? cur + node_size s c) eqn:El.
        + apply Nat.ltb_lt in El.
          assert (Hc : In c cs) by (rewrite Hcs; apply in_or_app; right; left; auto).
          destruct c as [t' m'|ty' a' mk' cs'].
          * inversion H; subst path po'. split; [eauto|]. split; [apply linked_single|].
            exists n, i, (start + cur). unfold last_entry. simpl. repeat split; auto; try lia.
            -- intros _. eauto.
            -- unfold n. simpl. rewrite Hcs. apply nosplit_app; auto. simpl. split; auto.
               apply nosplit_before. lia.
          * destruct (resolve_in s (Elem ty' a' mk' cs') (po - cur - 1) (start + cur + 1)) as [[p2 po2]|e] eqn:Er;
              [|discriminate]. simpl in H. inversion H; subst path po'.
            destruct (IH _ Hc _ _ _ _ Er) as ((i2 & o2 & rest2 & Hp2) & Hl2 & Hlast2).
            split; [eauto|]. split.
            -- apply linked_cons; auto. intros n3 i3 o3 H3. rewrite Hp2 in H3. simpl in H3. inversion H3; subst.
               exact Hnth.
            -- destruct Hlast2 as (nl & il & ol & Hle2 & Hol & Htx & Hns).
               exists nl, il, ol. rewrite last_entry_cons by (rewrite Hp2; discriminate).
               replace (start + cur + 1 + (po - cur - 1)) with (start + po) in * by lia. auto.
        + apply Nat.ltb_ge in El.
          eapply (IHl (pre ++ [c]) (S i) (cur + node_size s c)); eauto.
          * rewrite <- app_assoc. exact Hcs.
          * rewrite app_length. simpl. lia.
          * rewrite frag_size_app. simpl. lia.
          * lia. }
    eapply (G cs [] 0 0); eauto. lia.
Qed.

(* facts about a position produced by [resolve] *)
Lemma resolve_spec doc pos r :
  resolve s doc pos = Ok r ->
  rp_pos r = pos /\ linked (rp_path r) /\ TextAt r /\
  (exists i o rest, rp_path r = (doc, i, o) :: rest) /\
  (exists parent, rp_parent r = Ok parent /\ nosplit (node_content parent) 0 (rp_parent_offset r)).
Proof.
  unfold resolve. destruct (frag_size s (node_content doc) <? pos); [discriminate|].
  destruct (resolve_in s doc pos 0) as [[p po]|e] eqn:E; [|discriminate]. simpl. intros H. inversion H; subst r.
  destruct (resolve_in_spec _ _ _ _ _ E) as (Hhd & Hl & (nl & il & ol & Hlast & Hol & Htx & Hns)).
  simpl in *. repeat split; auto.
  - unfold TextAt, rp_text_offset, rp_last_offset, rp_depth, path_at. simpl.
    unfold last_entry in Hlast. rewrite Hlast. intros Hne. destruct (Htx Hne) as (t & m & Hc).
    exists nl, il, ol, t, m. auto.
  - exists nl. unfold rp_parent, rp_node, rp_depth, path_at. simpl. unfold last_entry in Hlast. rewrite Hlast. auto.
Qed.

End WithSchema.
