(* Cutting a fragment (Fragment.cut / Node.cut): the tokens of the result are the tokens in the range,
   preceded by the open tokens of the nodes the start lies strictly inside and followed by one close token
   for every node the end lies strictly inside. *)
From Coq Require Import ZArith NArith List Bool Arith Lia.
From PM Require Import Model.Data Model.Mark Model.Tree Spec.Tokens Proofs.DataProofs Proofs.NodeInd
  Proofs.ReplaceValid Proofs.SliceSides Proofs.TokenBasics Proofs.PathTokens Proofs.ReplaceTokens Proofs.SliceShape.
Import ListNotations.

Ltac lnorm := repeat (first [rewrite <- app_assoc | progress cbn [app]]).

Section WithSchema.
Variable s : schema.
Notation nsize := (node_size s).
Notation fsize := (frag_size s).
Notation toks := (toks s).
Notation ftoks := (ftoks s).

(* open tokens of the non-leaf element nodes that strictly contain position p; [pos] is the position at
   which the fragment l starts *)
Fixpoint opens_n (n : node) (p : nat) {struct n} : list tok :=
  match n with
  | Text _ _ => []
  | Elem _ _ _ cs =>
    (fix go (l : list node) (pos : nat) {struct l} : list tok :=
       match l with
       | [] => []
       | c :: r =>
         let e := pos + nsize c in
         if (pos <? p) && (p <? e) then
           match c with
           | Elem ty a m _ => if is_leaf_ty s ty then [] else TOpen ty a m :: opens_n c (p - pos - 1)
           | Text _ _ => []
           end
         else go r e
       end) cs 0
  end.
Fixpoint opens_l (l : list node) (pos p : nat) {struct l} : list tok :=
  match l with
  | [] => []
  | c :: r =>
    let e := pos + nsize c in
    if (pos <? p) && (p <? e) then
      match c with
      | Elem ty a m _ => if is_leaf_ty s ty then [] else TOpen ty a m :: opens_n c (p - pos - 1)
      | Text _ _ => []
      end
    else opens_l r e p
  end.
Definition closes_l (l : list node) (pos p : nat) : list tok := repeat TClose (length (opens_l l pos p)).
Definition closes_n (n : node) (p : nat) : list tok := repeat TClose (length (opens_n n p)).

Lemma opens_n_elem ty a m cs p : opens_n (Elem ty a m cs) p = opens_l cs 0 p.
Proof.
  cbn [opens_n].
  assert (G : forall l pos,
    (fix go (l : list node) (pos : nat) {struct l} : list tok :=
       match l with
       | [] => []
       | c :: r =>
         let e := pos + nsize c in
         if (pos <? p) && (p <? e) then
           match c with
           | Elem ty a m _ => if is_leaf_ty s ty then [] else TOpen ty a m :: opens_n c (p - pos - 1)
           | Text _ _ => []
           end
         else go r e
       end) l pos = opens_l l pos p).
  { induction l as [|c r IH]; intros pos; [reflexivity|].
    cbn [opens_l]. cbv zeta. destruct ((pos <? p) && (p <? pos + nsize c)); [reflexivity|apply IH]. }
  apply G.
Qed.

Lemma opens_l_before l : forall pos p, p <= pos -> opens_l l pos p = [].
Proof.
  induction l as [|c r IH]; intros pos p H; [reflexivity|]. cbn [opens_l]. cbv zeta.
  replace (pos <? p) with false by (symmetry; apply Nat.ltb_ge; lia). cbn [andb]. apply IH. lia.
Qed.
Lemma opens_l_after l : forall pos p, pos + fsize l <= p -> opens_l l pos p = [].
Proof.
  induction l as [|c r IH]; intros pos p H; [reflexivity|]. cbn [opens_l]. cbv zeta. cbn [frag_size] in H.
  replace (p <? pos + nsize c) with false by (symmetry; apply Nat.ltb_ge; lia). rewrite andb_false_r. apply IH. lia.
Qed.

Lemma repeat_snoc {A} (x : A) n : repeat x n ++ [x] = repeat x (S n).
Proof. induction n; cbn; [reflexivity|]. rewrite IHn. reflexivity. Qed.

Lemma node_cut_unfold ty a m cs from to :
  node_cut s (Elem ty a m cs) from to =
  if (from =? 0) && (to =? fsize cs) then Ok (Elem ty a m cs)
  else if to <=? from then Ok (Elem ty a m [])
  else do cs' <- frag_cut_go s cs 0 from to; Ok (Elem ty a m cs').
Proof.
  cbn [node_cut]. destruct ((from =? 0) && (to =? fsize cs)); [reflexivity|].
  destruct (to <=? from); [reflexivity|].
  assert (G : forall l pos,
    (fix go (l : list node) (pos : nat) {struct l} : res (list node) :=
       if pos <? to then
         match l with
         | [] => Err ErrInternal
         | c :: r =>
           let e := pos + nsize c in
           if from <? e then
             do c' <- (if (pos <? from) || (to <? e) then
                         match c with
                         | Text t' m' => text_cut t' m' (from - pos) (Nat.min (text_length t') (to - pos))
                         | Elem _ _ _ cc => node_cut s c (from - pos - 1) (Nat.min (fsize cc) (to - pos - 1))
                         end
                       else Ok c);
             do rest <- go r e;
             Ok (c' :: rest)
           else go r e
         end
       else Ok []) l pos = frag_cut_go s l pos from to).
  { induction l as [|c r IH]; intros pos; [reflexivity|]. cbn [frag_cut_go]. cbv zeta.
    destruct (pos <? to); [|reflexivity]. destruct (from <? pos + nsize c); [|apply IH]. rewrite IH. reflexivity. }
  rewrite G. reflexivity.
Qed.

Lemma seg_in_first {A} (a b : list A) x y : y <= length a -> seg (a ++ b) x y = seg a x y.
Proof.
  intros H. rewrite seg_app. rewrite Nat.min_r by lia. replace (y - length a) with 0 by lia.
  rewrite (seg_nil b) by lia. apply app_nil_r.
Qed.

(* segments of the tokens of a non-leaf element node *)
Lemma seg_cons_SS {A} (x : A) l a y : seg (x :: l) (S a) (S y) = seg l a y.
Proof. reflexivity. Qed.
Lemma seg_cons_0S {A} (x : A) l y : seg (x :: l) 0 (S y) = x :: seg l 0 y.
Proof. unfold seg. cbn [skipn Nat.sub firstn]. rewrite Nat.sub_0_r. reflexivity. Qed.

Lemma seg_elem_inside (o : tok) (CC : list tok) a y :
  S a <= y -> y <= S (length CC) -> seg (o :: CC ++ [TClose]) (S a) y = seg CC a (y - 1).
Proof.
  intros H1 H2. destruct y as [|y]; [lia|]. rewrite seg_cons_SS. replace (S y - 1) with y by lia.
  apply seg_in_first. lia.
Qed.
Lemma seg_elem_to_end (o : tok) (CC : list tok) a y :
  a <= length CC -> 2 + length CC <= y ->
  seg (o :: CC ++ [TClose]) (S a) (Nat.min (2 + length CC) y) = seg CC a (length CC) ++ [TClose].
Proof.
  intros H1 H2. rewrite Nat.min_l by lia. change (2 + length CC) with (S (S (length CC))). rewrite seg_cons_SS.
  rewrite seg_app. rewrite Nat.min_l by lia. f_equal.
  replace (a - length CC) with 0 by lia. replace (S (length CC) - length CC) with 1 by lia. reflexivity.
Qed.
Lemma seg_elem_from_start (o : tok) (CC : list tok) y :
  1 <= y -> y <= S (length CC) -> seg (o :: CC ++ [TClose]) 0 y = o :: seg CC 0 (y - 1).
Proof.
  intros H1 H2. destruct y as [|y]; [lia|]. rewrite seg_cons_0S. replace (S y - 1) with y by lia.
  f_equal. apply seg_in_first. lia.
Qed.

Lemma seg_elem_inside2 (o : tok) (CC : list tok) x y :
  1 <= x -> x <= y -> y <= S (length CC) -> seg (o :: CC ++ [TClose]) x y = seg CC (x - 1) (y - 1).
Proof. intros. destruct x as [|a]; [lia|]. rewrite seg_elem_inside by lia. f_equal. lia. Qed.
Lemma seg_elem_to_end2 (o : tok) (CC : list tok) x y :
  1 <= x -> x - 1 <= length CC -> 2 + length CC <= y ->
  seg (o :: CC ++ [TClose]) x (Nat.min (2 + length CC) y) = seg CC (x - 1) (length CC) ++ [TClose].
Proof. intros. destruct x as [|a]; [lia|]. rewrite seg_elem_to_end by lia. f_equal. f_equal. lia. Qed.

Definition CutSpec (n : node) : Prop :=
  forall ty at_ m cs, n = Elem ty at_ m cs -> is_leaf_ty s ty = false ->
  forall a b n', a <= b -> b <= fsize cs -> (a = b -> a = 0 \/ a = fsize cs) ->
    node_cut s n a b = Ok n' ->
    toks n' = TOpen ty at_ m :: opens_l cs 0 a ++ seg (ftoks cs) a b ++ closes_l cs 0 b ++ [TClose].

Lemma opens_cons_inside ty a m cc r pos p :
  is_leaf_ty s ty = false -> pos < p -> p < pos + nsize (Elem ty a m cc) ->
  opens_l (Elem ty a m cc :: r) pos p = TOpen ty a m :: opens_l cc 0 (p - pos - 1).
Proof.
  intros Hl H1 H2. cbn [opens_l]. cbv zeta.
  replace (pos <? p) with true by (symmetry; apply Nat.ltb_lt; lia).
  replace (p <? pos + nsize (Elem ty a m cc)) with true by (symmetry; apply Nat.ltb_lt; lia).
  cbn [andb]. rewrite Hl, opens_n_elem. reflexivity.
Qed.
Lemma opens_cons_outside c r pos p :
  ~ (pos < p < pos + nsize c) -> opens_l (c :: r) pos p = opens_l r (pos + nsize c) p.
Proof.
  intros H. cbn [opens_l]. cbv zeta.
  destruct ((pos <? p) && (p <? pos + nsize c)) eqn:E; [|reflexivity].
  apply andb_prop in E. destruct E as [E1 E2]. apply Nat.ltb_lt in E1, E2. lia.
Qed.
Lemma opens_cons_text t m r pos p : pos < p < pos + nsize (Text t m) -> opens_l (Text t m :: r) pos p = [].
Proof.
  intros [H1 H2]. cbn [opens_l]. cbv zeta.
  replace (pos <? p) with true by (symmetry; apply Nat.ltb_lt; lia).
  replace (p <? pos + nsize (Text t m)) with true by (symmetry; apply Nat.ltb_lt; lia). reflexivity.
Qed.

Lemma cut_go_toks : forall l, (forall c, In c l -> CutSpec c) ->
  forall pos from to l', from < to -> frag_cut_go s l pos from to = Ok l' ->
  ftoks l' = opens_l l pos from ++ seg (ftoks l) (from - pos) (to - pos) ++ closes_l l pos to.
Proof.
  induction l as [|c r IH]; intros Hl pos from to l' Hft H; cbn [frag_cut_go] in H.
  - destruct (pos <? to); [discriminate|]. inversion H; subst. unfold closes_l. cbn. unfold seg. rewrite skipn_nil, firstn_nil. reflexivity.
  - destruct (pos <? to) eqn:Ept.
    2:{ apply Nat.ltb_ge in Ept. inversion H; subst. unfold closes_l. rewrite !opens_l_before by lia.
        rewrite seg_nil by lia. reflexivity. }
    apply Nat.ltb_lt in Ept. cbv zeta in H.
    assert (IHr : forall pos from to l', from < to -> frag_cut_go s r pos from to = Ok l' ->
              ftoks l' = opens_l r pos from ++ seg (ftoks r) (from - pos) (to - pos) ++ closes_l r pos to).
    { apply IH. intros c0 Hc0. apply Hl. right. exact Hc0. }
    pose proof (toks_length s c) as Hlc. cbn [Tokens.ftoks]. rewrite seg_app, Hlc.
    set (e := pos + nsize c) in *.
    destruct (from <? e) eqn:Efe.
    2:{ (* the child lies before the range *)
        apply Nat.ltb_ge in Efe. rewrite (IHr _ _ _ _ Hft H).
        unfold closes_l. rewrite !(opens_cons_outside c r) by (fold e; lia). fold e.
        rewrite (seg_beyond (toks c)) by lia. cbn [app]. f_equal. f_equal. f_equal; lia. }
    apply Nat.ltb_lt in Efe.
    assert (Hrest : forall rest, frag_cut_go s r e from to = Ok rest ->
              ftoks rest = seg (ftoks r) 0 (to - e) ++ closes_l r e to).
    { intros rest Hr. rewrite (IHr _ _ _ _ Hft Hr). rewrite opens_l_before by lia. replace (from - e) with 0 by lia. reflexivity. }
    replace (from - pos - nsize c) with 0 by lia. replace (to - pos - nsize c) with (to - e) by (unfold e; lia).
    destruct ((pos <? from) || (to <? e)) eqn:Ecut.
    + destruct c as [t m|ty a m cc].
      * (* a text node is cut *)
        destruct (text_cut t m (from - pos) (Nat.min (text_length t) (to - pos))) as [c'|] eqn:Ec; [|discriminate].
        cbn [bind] in H. destruct (frag_cut_go s r e from to) as [rest|] eqn:Er; [|discriminate].
        cbn [bind] in H. inversion H; subst l'. cbn [Tokens.ftoks]. rewrite (Hrest _ eq_refl), (text_cut_toks s _ _ _ _ _ Ec).
        cbn [node_size] in *.
        assert (Ho : opens_l (Text t m :: r) pos from = []).
        { destruct (Nat.lt_ge_cases pos from); [apply opens_cons_text; cbn [node_size]; fold e; lia|].
          rewrite opens_cons_outside by lia. apply opens_l_before. fold e. lia. }
        rewrite Ho. cbn [app]. rewrite <- app_assoc. f_equal. f_equal.
        unfold closes_l. destruct (Nat.lt_ge_cases to e) as [Hte|Hte].
        -- rewrite opens_cons_text by (cbn [node_size]; fold e; lia). rewrite opens_l_before by lia. reflexivity.
        -- rewrite opens_cons_outside by (cbn [node_size]; fold e; lia). reflexivity.
      * (* an element node is cut *)
        destruct (is_leaf_ty s ty) eqn:Eleaf.
        { exfalso. assert (Hs1 : nsize (Elem ty a m cc) = 1) by (rewrite node_size_elem, Eleaf; reflexivity).
          apply orb_prop in Ecut. unfold e in *. destruct Ecut as [E|E]; apply Nat.ltb_lt in E; lia. }
        assert (Hs : nsize (Elem ty a m cc) = 2 + fsize cc) by (rewrite node_size_elem, Eleaf; reflexivity).
        destruct (node_cut s (Elem ty a m cc) (from - pos - 1) (Nat.min (fsize cc) (to - pos - 1))) as [c'|] eqn:Ec; [|discriminate].
        cbn [bind] in H. destruct (frag_cut_go s r e from to) as [rest|] eqn:Er; [|discriminate].
        cbn [bind] in H. inversion H; subst l'. cbn [Tokens.ftoks]. rewrite (Hrest _ eq_refl).
        assert (Htk : toks (Elem ty a m cc) = TOpen ty a m :: ftoks cc ++ [TClose]) by (rewrite toks_elem, Eleaf; reflexivity).
        pose proof (ftoks_length s cc) as Hlcc.
        assert (Hspec := Hl _ (or_introl eq_refl) ty a m cc eq_refl Eleaf).
        assert (He : e = pos + (2 + fsize cc)) by (unfold e; lia).
        unfold closes_l in *. rewrite Htk.
        destruct (Nat.lt_ge_cases pos from) as [Hpf|Hpf]; destruct (Nat.lt_ge_cases to e) as [Hte|Hte].
        -- (* both ends strictly inside *)
           rewrite (Hspec (from - pos - 1) (Nat.min (fsize cc) (to - pos - 1)) c' ltac:(lia) ltac:(lia) ltac:(lia) Ec).
           rewrite (opens_cons_inside ty a m cc r pos from Eleaf) by lia.
           rewrite (opens_cons_inside ty a m cc r pos to Eleaf) by lia.
           rewrite (Nat.min_r (fsize cc) (to - pos - 1)) by lia. rewrite (Nat.min_r (nsize (Elem ty a m cc))) by lia.
           rewrite seg_elem_inside2 by (rewrite ?Hlcc; lia).
           rewrite (seg_nil (ftoks r)) by lia. rewrite (opens_l_before r) by lia.
           cbn [length repeat app]. rewrite !app_nil_r. rewrite repeat_snoc. reflexivity.
        -- (* the start inside, the end beyond *)
           rewrite (Hspec (from - pos - 1) (Nat.min (fsize cc) (to - pos - 1)) c' ltac:(lia) ltac:(lia) ltac:(lia) Ec).
           rewrite (opens_cons_inside ty a m cc r pos from Eleaf) by lia.
           rewrite (opens_cons_outside _ r pos to) by lia. fold e.
           rewrite (Nat.min_l (fsize cc) (to - pos - 1)) by lia.
           rewrite (opens_l_after cc 0 (fsize cc)) by lia. cbn [length repeat app].
           rewrite Hs, <- Hlcc. rewrite seg_elem_to_end2 by (rewrite ?Hlcc; lia).
           rewrite Hlcc. lnorm. reflexivity.
        -- (* the start at or before the node, the end strictly inside *)
           replace (from - pos - 1) with 0 in Ec by lia.
           rewrite (Hspec 0 (Nat.min (fsize cc) (to - pos - 1)) c' ltac:(lia) ltac:(lia) ltac:(lia) Ec).
           rewrite (opens_cons_outside _ r pos from) by lia. fold e.
           rewrite (opens_l_before r e from) by lia. rewrite (opens_l_before cc 0 0) by lia.
           rewrite (opens_cons_inside ty a m cc r pos to Eleaf) by lia.
           rewrite (Nat.min_r (fsize cc) (to - pos - 1)) by lia. replace (from - pos) with 0 by lia.
           rewrite (Nat.min_r (nsize (Elem ty a m cc))) by lia.
           rewrite seg_elem_from_start by (rewrite ?Hlcc; lia).
           rewrite (seg_nil (ftoks r)) by lia. rewrite (opens_l_before r) by lia.
           cbn [length repeat app]. rewrite !app_nil_r. rewrite repeat_snoc. reflexivity.
        -- exfalso. apply orb_prop in Ecut. destruct Ecut as [E|E]; apply Nat.ltb_lt in E; lia.
    + (* the child lies wholly inside the range *)
      apply orb_false_elim in Ecut. destruct Ecut as [Ec1 Ec2]. apply Nat.ltb_ge in Ec1, Ec2.
      cbn [bind] in H. destruct (frag_cut_go s r e from to) as [rest|] eqn:Er; [|discriminate].
      cbn [bind] in H. inversion H; subst l'. cbn [Tokens.ftoks]. rewrite (Hrest _ eq_refl).
      unfold closes_l. rewrite !(opens_cons_outside c r) by (fold e; lia). fold e.
      rewrite (opens_l_before r e from) by lia. cbn [app].
      replace (from - pos) with 0 by lia. rewrite Nat.min_l by (unfold e in *; lia).
      rewrite (seg_whole (toks c)) by lia. rewrite <- app_assoc. reflexivity.
Qed.

Theorem node_cut_toks : forall n, CutSpec n.
Proof.
  induction n as [t m|ty a m cs IH] using node_ind2; intros ty' at' m' cs' Heq Hleaf a0 b n' Hab Hb Heqab H; [discriminate|].
  inversion Heq; subst ty' at' m' cs'. clear Heq.
  assert (Htk : forall X, toks (Elem ty a m X) = TOpen ty a m :: ftoks X ++ [TClose]) by (intros X; rewrite toks_elem, Hleaf; reflexivity).
  rewrite node_cut_unfold in H. unfold closes_l.
  destruct ((a0 =? 0) && (b =? fsize cs)) eqn:E.
  - apply andb_prop in E. destruct E as [E1 E2]. apply Nat.eqb_eq in E1, E2. subst a0 b. inversion H; subst n'.
    rewrite Htk, opens_l_before, opens_l_after by lia. rewrite seg_whole by (rewrite ftoks_length; lia). reflexivity.
  - destruct (b <=? a0) eqn:Eb.
    + apply Nat.leb_le in Eb. assert (a0 = b) by lia. subst b. inversion H; subst n'. rewrite Htk. cbn [Tokens.ftoks app].
      rewrite seg_nil by lia. destruct (Heqab eq_refl) as [->| ->].
      * rewrite !opens_l_before by lia. reflexivity.
      * rewrite !opens_l_after by lia. reflexivity.
    + apply Nat.leb_gt in Eb. destruct (frag_cut_go s cs 0 a0 b) as [cs'|] eqn:Ec; [|discriminate]. cbn [bind] in H.
      inversion H; subst n'. rewrite Htk. f_equal.
      rewrite (cut_go_toks cs IH 0 a0 b cs' Eb Ec). rewrite !Nat.sub_0_r. unfold closes_l. rewrite <- !app_assoc. reflexivity.
Qed.

(* Fragment.cut *)
Theorem frag_cut_toks_gen l from to l' :
  from <= to -> frag_cut s l from to = Ok l' ->
  (from = to -> ftoks l' = []) /\
  (from < to -> ftoks l' = opens_l l 0 from ++ seg (ftoks l) from to ++ closes_l l 0 to).
Proof.
  intros Hft H. unfold frag_cut in H. destruct ((from =? 0) && (to =? fsize l)) eqn:E.
  - apply andb_prop in E. destruct E as [E1 E2]. apply Nat.eqb_eq in E1, E2. subst from to. inversion H; subst l'.
    split.
    + intros Hz. pose proof (ftoks_length s l) as Hl. rewrite <- Hz in Hl. destruct (ftoks l); [reflexivity|discriminate].
    + intros _. unfold closes_l. rewrite opens_l_before, opens_l_after by lia. rewrite seg_whole by (rewrite ftoks_length; lia).
      cbn [app length repeat]. rewrite app_nil_r. reflexivity.
  - destruct (to <=? from) eqn:El.
    + apply Nat.leb_le in El. inversion H; subst l'. split; [reflexivity|lia].
    + apply Nat.leb_gt in El. split; [lia|]. intros _.
      rewrite (cut_go_toks l (fun c _ => node_cut_toks c) 0 from to l' El H). rewrite !Nat.sub_0_r. reflexivity.
Qed.

End WithSchema.
