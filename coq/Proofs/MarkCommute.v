(* Two mark steps over disjoint ranges commute (C17): their maps are empty, so rebasing leaves both unchanged, and both
   orders of application give the same token sequence - each step re-marks only the tokens of its own range, and the
   node a token lies in (which decides whether the mark is allowed) is not changed by a mark step. *)
From Coq Require Import ZArith NArith List Bool Arith Lia.
From PM Require Import Model.Data Model.Mark Model.Tree Model.Resolve Model.StepMap Model.Step Spec.Tokens
  Proofs.DataProofs Proofs.MarkProofs
  Proofs.ReplaceValid Proofs.SliceSides Proofs.TokenBasics Proofs.PathTokens Proofs.ReplaceTokens Proofs.SliceShape
  Proofs.StepFaithful Proofs.SliceTokens Proofs.SliceCut Proofs.TokenLaws Proofs.StepAlgebra Proofs.StepTokens
  Proofs.TokenInj Proofs.ReplaceCanon Proofs.MarkSteps Proofs.MarkPointwise Proofs.MarkMerge.
Import ListNotations.
Local Open Scope nat_scope.

Section WithSchema.
Variable s : schema.
Notation V := (V s).
Notation DT := (DT s).

Lemma mark_step_map_id st from to m :
  mark_step_range st = Some (from, to) -> get_map s st = empty_map /\ step_map st m = step_map st m.
Proof. intros H. split; [destruct st; try discriminate; reflexivity|reflexivity]. Qed.

(* rebasing a mark step over an empty map leaves it as it is (for a non-empty range) *)
Lemma step_map_empty st from to :
  mark_step_range st = Some (from, to) -> from <= to -> step_map st empty_map = Some st.
Proof.
  intros Hr Hft. destruct st; try discriminate; cbn [mark_step_range] in Hr; inversion Hr; subst;
    cbn [step_map]; unfold map_result, empty_map; cbn [ranges inverted map_go mr_pos mr_del];
    unfold deleted; cbn [mr_del Z.land Z.ltb Z.compare andb orb]; rewrite !Z.add_0_r;
    (destruct (Z.of_nat to <? Z.of_nat from)%Z eqn:E; [apply Z.ltb_lt in E; lia|]); rewrite !Nat2Z.id; reflexivity.
Qed.

Theorem separated_mark_steps_commute a b f1 t1 f2 t2 doc da db dab dba :
  V doc -> V da -> V db ->
  mark_step_range a = Some (f1, t1) -> mark_step_range b = Some (f2, t2) -> f1 <= t1 -> t1 <= f2 -> f2 <= t2 ->
  apply s a doc = ROk da -> apply s b doc = ROk db ->
  apply s b da = ROk dab -> apply s a db = ROk dba ->
  step_map a (get_map s b) = Some a /\ step_map b (get_map s a) = Some b /\ DT dab = DT dba.
Proof.
  intros Hd Hda Hdb Ra Rb H1 H12 H2 Aa Ab Aab Aba.
  assert (Ma : get_map s a = empty_map) by (destruct a; try discriminate; reflexivity).
  assert (Mb : get_map s b = empty_map) by (destruct b; try discriminate; reflexivity).
  split; [rewrite Mb; eapply step_map_empty; eauto|]. split; [rewrite Ma; eapply step_map_empty; eauto|].
  destruct (mark_step_root s _ _ _ _ _ Ra Aa) as (Tya & La). destruct (mark_step_root s _ _ _ _ _ Rb Ab) as (Tyb & Lb).
  pose proof (mark_step_normalised s _ _ _ _ _ Hd H1 Ra Aa) as Ea.
  pose proof (mark_step_normalised s _ _ _ _ _ Hd H2 Rb Ab) as Eb.
  pose proof (mark_step_normalised s _ _ _ _ _ Hda H2 Rb Aab) as Eab. rewrite Tya in Eab.
  pose proof (mark_step_normalised s _ _ _ _ _ Hdb H1 Ra Aba) as Eba. rewrite Tyb in Eba.
  set (T := DT doc) in *. set (rty := node_ty s doc) in *. set (ua := step_updN s a) in *. set (ub := step_updN s b) in *.
  assert (Lda : length (DT da) = length T) by (rewrite Ea; apply remarkedT_length; assumption).
  assert (Ldb : length (DT db) = length T) by (rewrite Eb; apply remarkedT_length; assumption).
  rewrite Eab, Eba, Ea, Eb.
  apply nth_error_ext_eq. intros i.
  destruct (nth_error T i) as [t|] eqn:Hn.
  - (* token i of the document *)
    assert (Na : nth_error (remarkedT s ua rty f1 t1 T) i = Some (if (f1 <=? i) && (i <? t1) then ftok s ua (snd (ctxT rty T i)) t else t))
      by (apply remarkedT_nth; assumption).
    assert (Nb : nth_error (remarkedT s ub rty f2 t2 T) i = Some (if (f2 <=? i) && (i <? t2) then ftok s ub (snd (ctxT rty T i)) t else t))
      by (apply remarkedT_nth; assumption).
    assert (Lb' : t2 <= length (remarkedT s ua rty f1 t1 T)) by (rewrite remarkedT_length; assumption).
    assert (La' : t1 <= length (remarkedT s ub rty f2 t2 T)) by (rewrite remarkedT_length; assumption).
    rewrite (remarkedT_nth s ub rty f2 t2 _ i _ H2 Lb' Na).
    rewrite (remarkedT_nth s ua rty f1 t1 _ i _ H1 La' Nb).
    rewrite !ctxT_remarkedT by assumption.
    destruct ((f1 <=? i) && (i <? t1)) eqn:Ia; destruct ((f2 <=? i) && (i <? t2)) eqn:Ib; try reflexivity.
    exfalso. apply andb_prop in Ia, Ib. destruct Ia as [_ Ia]. destruct Ib as [Ib _]. apply Nat.ltb_lt in Ia. apply Nat.leb_le in Ib. lia.
  - (* beyond the end *)
    apply nth_error_None in Hn.
    assert (E1 : nth_error (remarkedT s ub rty f2 t2 (remarkedT s ua rty f1 t1 T)) i = None).
    { apply nth_error_None. rewrite !remarkedT_length; try assumption. rewrite remarkedT_length; assumption. }
    assert (E2 : nth_error (remarkedT s ua rty f1 t1 (remarkedT s ub rty f2 t2 T)) i = None).
    { apply nth_error_None. rewrite !remarkedT_length; try assumption. rewrite remarkedT_length; assumption. }
    rewrite E1, E2. reflexivity.
Qed.

End WithSchema.
