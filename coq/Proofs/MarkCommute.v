(* Two mark steps over disjoint ranges commute (C17): their maps are empty, so rebasing leaves both unchanged, and both
   orders of application give the same token sequence - each step re-marks only the tokens of its own range, and the
   node a token lies in (which decides whether the mark is allowed) is not changed by a mark step. *)
From Coq Require Import ZArith NArith List Bool Arith Lia.
From PM Require Import Model.Data Model.Mark Model.Tree Model.Resolve Model.StepMap Model.Step Spec.Tokens
  Proofs.DataProofs Proofs.MarkProofs
  Proofs.ReplaceValid Proofs.SliceSides Proofs.TokenBasics Proofs.PathTokens Proofs.ReplaceTokens Proofs.SliceShape
  Proofs.StepFaithful Proofs.SliceTokens Proofs.SliceCut Proofs.TokenLaws Proofs.StepAlgebra Proofs.StepTokens
  Proofs.TokenInj Proofs.ReplaceCanon Proofs.NodeSteps Proofs.MarkSteps Proofs.MarkPointwise Proofs.MarkMerge Proofs.AttrUndo Proofs.NodeStepCommute.
Import ListNotations.
Local Open Scope nat_scope.

Section WithSchema.
Variable s : schema.
Notation V := (V s).
Notation DT := (DT s).

Lemma mark_step_map_id st from to m :
  mark_step_range st = Some (from, to) -> get_map s st = empty_map /\ step_map st m = step_map st m.
Proof. intros H. split; [destruct st; try discriminate; reflexivity|reflexivity]. Qed.

(* rebasing a mark step over an empty map leaves it as it is (for a non-empty range) *)
Lemma step_map_empty st from to :
  mark_step_range st = Some (from, to) -> from <= to -> step_map st empty_map = Some st.
Proof.
  intros Hr Hft. destruct st; try discriminate; cbn [mark_step_range] in Hr; inversion Hr; subst;
    cbn [step_map]; unfold map_result, empty_map; cbn [ranges inverted map_go mr_pos mr_del];
    unfold deleted; cbn [mr_del Z.land Z.ltb Z.compare andb orb]; rewrite !Z.add_0_r;
    (destruct (Z.of_nat to <? Z.of_nat from)%Z eqn:E; [apply Z.ltb_lt in E; lia|]); rewrite !Nat2Z.id; reflexivity.
Qed.

Theorem separated_mark_steps_commute a b f1 t1 f2 t2 doc da db dab dba :
  V doc -> V da -> V db ->
  mark_step_range a = Some (f1, t1) -> mark_step_range b = Some (f2, t2) -> f1 <= t1 -> t1 <= f2 -> f2 <= t2 ->
  apply s a doc = ROk da -> apply s b doc = ROk db ->
  apply s b da = ROk dab -> apply s a db = ROk dba ->
  step_map a (get_map s b) = Some a /\ step_map b (get_map s a) = Some b /\ DT dab = DT dba.
Proof.
  intros Hd Hda Hdb Ra Rb H1 H12 H2 Aa Ab Aab Aba.
  assert (Ma : get_map s a = empty_map) by (destruct a; try discriminate; reflexivity).
  assert (Mb : get_map s b = empty_map) by (destruct b; try discriminate; reflexivity).
  split; [rewrite Mb; eapply step_map_empty; eauto|]. split; [rewrite Ma; eapply step_map_empty; eauto|].
  destruct (mark_step_root s _ _ _ _ _ Ra Aa) as (Tya & La). destruct (mark_step_root s _ _ _ _ _ Rb Ab) as (Tyb & Lb).
  pose proof (mark_step_normalised s _ _ _ _ _ Hd H1 Ra Aa) as Ea.
  pose proof (mark_step_normalised s _ _ _ _ _ Hd H2 Rb Ab) as Eb.
  pose proof (mark_step_normalised s _ _ _ _ _ Hda H2 Rb Aab) as Eab. rewrite Tya in Eab.
  pose proof (mark_step_normalised s _ _ _ _ _ Hdb H1 Ra Aba) as Eba. rewrite Tyb in Eba.
  set (T := DT doc) in *. set (rty := node_ty s doc) in *. set (ua := step_updN s a) in *. set (ub := step_updN s b) in *.
  assert (Lda : length (DT da) = length T) by (rewrite Ea; apply remarkedT_length; assumption).
  assert (Ldb : length (DT db) = length T) by (rewrite Eb; apply remarkedT_length; assumption).
  rewrite Eab, Eba, Ea, Eb.
  apply nth_error_ext_eq. intros i.
  destruct (nth_error T i) as [t|] eqn:Hn.
  - (* token i of the document *)
    assert (Na : nth_error (remarkedT s ua rty f1 t1 T) i = Some (if (f1 <=? i) && (i <? t1) then ftok s ua (snd (ctxT rty T i)) t else t))
      by (apply remarkedT_nth; assumption).
    assert (Nb : nth_error (remarkedT s ub rty f2 t2 T) i = Some (if (f2 <=? i) && (i <? t2) then ftok s ub (snd (ctxT rty T i)) t else t))
      by (apply remarkedT_nth; assumption).
    assert (Lb' : t2 <= length (remarkedT s ua rty f1 t1 T)) by (rewrite remarkedT_length; assumption).
    assert (La' : t1 <= length (remarkedT s ub rty f2 t2 T)) by (rewrite remarkedT_length; assumption).
    rewrite (remarkedT_nth s ub rty f2 t2 _ i _ H2 Lb' Na).
    rewrite (remarkedT_nth s ua rty f1 t1 _ i _ H1 La' Nb).
    rewrite !ctxT_remarkedT by assumption.
    destruct ((f1 <=? i) && (i <? t1)) eqn:Ia; destruct ((f2 <=? i) && (i <? t2)) eqn:Ib; try reflexivity.
    exfalso. apply andb_prop in Ia, Ib. destruct Ia as [_ Ia]. destruct Ib as [Ib _]. apply Nat.ltb_lt in Ia. apply Nat.leb_le in Ib. lia.
  - (* beyond the end *)
    apply nth_error_None in Hn.
    assert (E1 : nth_error (remarkedT s ub rty f2 t2 (remarkedT s ua rty f1 t1 T)) i = None).
    { apply nth_error_None. rewrite !remarkedT_length; try assumption. rewrite remarkedT_length; assumption. }
    assert (E2 : nth_error (remarkedT s ua rty f1 t1 (remarkedT s ub rty f2 t2 T)) i = None).
    { apply nth_error_None. rewrite !remarkedT_length; try assumption. rewrite remarkedT_length; assumption. }
    rewrite E1, E2. reflexivity.
Qed.

(* ------------------------------------------------------------------ a mark step in front of a replace step
   The mark step's range ends before the replaced range starts: the replace step changes nothing the mark step reads
   (the tokens of its range and the chain of nodes open around them lie entirely in front), and the mark step changes no
   sizes, so both orders give the same token sequence and neither step moves under rebasing. *)
Notation OpenS sl := (OpenOK s (sl_content sl) (sl_open_start sl) (sl_open_end sl)).

Lemma replace_step_root from to sl structure doc d' :
  apply s (SReplace from to sl structure) doc = ROk d' -> node_ty s d' = node_ty s doc.
Proof.
  intros H. apply apply_replace_inv in H. unfold node_replace in H.
  destruct (resolve s doc from) as [rf|] eqn:Ef; [|discriminate]. cbn [bind] in H.
  destruct (resolve s doc to) as [rt|] eqn:Et; [|discriminate]. cbn [bind] in H.
  unfold replace_rp in H. destruct (rp_depth rf <? _); [discriminate|]. destruct (negb _); [discriminate|].
  destruct (rp_pos _ <? rp_pos _); [discriminate|]. destruct (_ && _); [discriminate|].
  destruct (replace_outer_copy s _ _ _ _ _ _ H) as (n & X & En & ->).
  destruct (resolve_spec s _ _ _ Ef) as (_ & _ & _ & (i & o & rest & Hh) & _).
  unfold rp_node, path_at in En. rewrite Hh in En. cbn in En. inversion En; subst n.
  apply node_copy_markup.
Qed.

Lemma remarkedT_app_l u rty f2 t2 P R : f2 <= t2 -> t2 <= length P ->
  remarkedT s u rty f2 t2 (P ++ R) = remarkedT s u rty f2 t2 P ++ R.
Proof.
  intros H1 H2. unfold remarkedT, ctxT.
  rewrite (firstn_app f2 P R). replace (f2 - length P) with 0 by lia. cbn [firstn]. rewrite app_nil_r.
  rewrite (seg_in_first P R f2 t2 H2).
  rewrite (skipn_app t2 P R). replace (t2 - length P) with 0 by lia. cbn [skipn].
  rewrite <- !app_assoc. reflexivity.
Qed.

Theorem mark_step_before_replace_commute f t sl structure b f2 t2 doc da db :
  V doc -> OpenS sl -> f <= t -> mark_step_range b = Some (f2, t2) -> f2 <= t2 -> t2 < f ->
  apply s (SReplace f t sl structure) doc = ROk da ->
  apply s b doc = ROk db ->
  step_map b (get_map s (SReplace f t sl structure)) = Some b /\
  step_map (SReplace f t sl structure) (get_map s b) = Some (SReplace f t sl false) /\
  forall dab dba,
    V db -> apply s b da = ROk dab -> apply s (SReplace f t sl false) db = ROk dba ->
    DT dab = DT dba.
Proof.
  intros Hd Ho Hft Rb H2 Hsep Ha Hb.
  pose proof (OpenOK_Shape s _ _ _ Ho) as Hs.
  assert (Mb : get_map s b = empty_map) by (destruct b; try discriminate; reflexivity).
  split; [|split].
  - destruct b; try discriminate; cbn [mark_step_range] in Rb; inversion Rb; subst;
      cbn [step_map get_map]; rewrite !map_result_single_before by lia;
      unfold deleted; cbn [mr_del mr_pos Z.land Z.ltb Z.compare andb orb];
      (destruct (Z.of_nat t2 <? Z.of_nat f2)%Z eqn:E; [apply Z.ltb_lt in E; lia|]); rewrite !Nat2Z.id; reflexivity.
  - rewrite Mb. cbn [step_map]. unfold map_result, empty_map. cbn [ranges inverted map_go mr_pos mr_del].
    unfold deleted. cbn [mr_del Z.land Z.ltb Z.compare andb]. rewrite !Z.add_0_r.
    assert (E : (Z.max (Z.of_nat f) (Z.of_nat t)) = Z.of_nat t) by lia. rewrite E, !Nat2Z.id. reflexivity.
  - intros dab dba Hdb Hab Hba.
    destruct (replace_step_splice s _ _ _ _ _ _ Hd Hs Ha) as (Hf & Ht & Ea).
    pose proof (apply_replace_valid s _ _ _ _ _ _ Hd Ho Ha) as Hda.
    pose proof (replace_step_root _ _ _ _ _ _ Ha) as Tya.
    pose proof (mark_step_normalised s _ _ _ _ _ Hd H2 Rb Hb) as Eb.
    pose proof (mark_step_normalised s _ _ _ _ _ Hda H2 Rb Hab) as Eab. rewrite Tya in Eab.
    destruct (replace_step_splice s _ _ _ _ _ _ Hdb Hs Hba) as (_ & _ & Eba).
    set (T := DT doc) in *. set (rty := node_ty s doc) in *. set (u := step_updN s b) in *. set (I := IT s sl) in *.
    set (P := firstn f T). assert (LP : length P = f) by (unfold P; rewrite firstn_length; lia).
    assert (ET : T = P ++ skipn f T) by (unfold P; symmetry; apply firstn_skipn).
    assert (EbT : DT db = remarkedT s u rty f2 t2 P ++ skipn f T).
    { rewrite Eb. rewrite ET at 1. apply remarkedT_app_l; lia. }
    assert (LRP : length (remarkedT s u rty f2 t2 P) = f) by (rewrite remarkedT_length; lia).
    rewrite Eab, Ea. fold P. rewrite remarkedT_app_l by lia.
    rewrite Eba, EbT. rewrite firstn_app, LRP, Nat.sub_diag. cbn [firstn]. rewrite app_nil_r.
    rewrite <- LRP at 1. rewrite firstn_all.
    rewrite skipn_app, LRP. rewrite (skipn_all2 (remarkedT s u rty f2 t2 P)) by lia. cbn [app].
    rewrite skipn_skipn_add. replace (f + (t - f)) with t by lia. reflexivity.
Qed.

(* ------------------------------------------------------------------ a mark step behind a replace step
   Here the mark step reads something the replace step may change: the chain of nodes that are open at the end of the
   replaced range (it decides which node encloses the tokens behind it).  When that chain is the same before and after the
   replace step - true of every edit that stays inside one parent node; false when the step joins or retypes nodes, the
   recorded finding C17-join-vs-mark-context - the two steps commute after rebasing. *)
Definition remarkedTc (u : upd) (c : ctx) (a b : nat) (R : list tok) : list tok :=
  firstn a R ++ tmap s u (ctx_after (firstn a R) c) (seg R a b) ++ skipn b R.

Lemma remarkedT_app_r u rty a b Q R : a <= b ->
  remarkedT s u rty (length Q + a) (length Q + b) (Q ++ R) = Q ++ remarkedTc u (ctx_after Q ([], rty)) a b R.
Proof.
  intros Hab. unfold remarkedT, remarkedTc, ctxT.
  rewrite (firstn_app (length Q + a) Q R). rewrite firstn_all2 by lia. replace (length Q + a - length Q) with a by lia.
  rewrite ctx_after_app.
  assert (Es : seg (Q ++ R) (length Q + a) (length Q + b) = seg R a b).
  { rewrite seg_app. rewrite (seg_beyond Q) by lia. cbn [app]. f_equal; lia. }
  rewrite Es. rewrite (skipn_app (length Q + b) Q R). rewrite skipn_all2 by lia. cbn [app].
  replace (length Q + b - length Q) with b by lia. rewrite <- !app_assoc. reflexivity.
Qed.

Theorem mark_step_after_replace_commute f t sl structure b f2 t2 doc da db :
  V doc -> OpenS sl -> f <= t -> mark_step_range b = Some (f2, t2) -> t < f2 -> f2 <= t2 ->
  ctx_after (firstn f (DT doc) ++ IT s sl) ([], node_ty s doc) = ctx_after (firstn t (DT doc)) ([], node_ty s doc) ->
  apply s (SReplace f t sl structure) doc = ROk da ->
  apply s b doc = ROk db ->
  let delta := (Z.of_nat (length (IT s sl)) - (Z.of_nat t - Z.of_nat f))%Z in
  let f2' := Z.to_nat (Z.of_nat f2 + delta) in let t2' := Z.to_nat (Z.of_nat t2 + delta) in
  step_map (SReplace f t sl structure) (get_map s b) = Some (SReplace f t sl false) /\
  forall b' dab dba,
    mark_step_range b' = Some (f2', t2') -> step_updN s b' = step_updN s b ->
    V db -> apply s b' da = ROk dab -> apply s (SReplace f t sl false) db = ROk dba ->
    DT dab = DT dba.
Proof.
  intros Hd Ho Hft Rb Hsep H2 Hctx Ha Hb delta f2' t2'.
  pose proof (OpenOK_Shape s _ _ _ Ho) as Hs.
  assert (Mb : get_map s b = empty_map) by (destruct b; try discriminate; reflexivity).
  split.
  - rewrite Mb. cbn [step_map]. unfold map_result, empty_map. cbn [ranges inverted map_go mr_pos mr_del].
    unfold deleted. cbn [mr_del Z.land Z.ltb Z.compare andb]. rewrite !Z.add_0_r.
    assert (E : (Z.max (Z.of_nat f) (Z.of_nat t)) = Z.of_nat t) by lia. rewrite E, !Nat2Z.id. reflexivity.
  - intros b' dab dba Rb' Hu Hdb Hab Hba.
    destruct (replace_step_splice s _ _ _ _ _ _ Hd Hs Ha) as (Hf & Ht & Ea).
    pose proof (apply_replace_valid s _ _ _ _ _ _ Hd Ho Ha) as Hda.
    pose proof (replace_step_root _ _ _ _ _ _ Ha) as Tya.
    destruct (mark_step_root s _ _ _ _ _ Rb Hb) as (_ & Lb).
    pose proof (mark_step_normalised s _ _ _ _ _ Hd H2 Rb Hb) as Eb.
    assert (H2' : f2' <= t2') by (unfold f2', t2', delta; lia).
    pose proof (mark_step_normalised s _ _ _ _ _ Hda H2' Rb' Hab) as Eab. rewrite Tya, Hu in Eab.
    destruct (replace_step_splice s _ _ _ _ _ _ Hdb Hs Hba) as (_ & _ & Eba).
    set (T := DT doc) in *. set (rty := node_ty s doc) in *. set (u := step_updN s b) in *. set (I := IT s sl) in *.
    set (P := firstn f T). set (Q := firstn t T). set (S0 := skipn t T).
    assert (LP : length P = f) by (unfold P; rewrite firstn_length; lia).
    assert (LQ : length Q = t) by (unfold Q; rewrite firstn_length; lia).
    assert (ET : T = Q ++ S0) by (unfold Q, S0; symmetry; apply firstn_skipn).
    (* b then a' *)
    assert (EbT : DT db = Q ++ remarkedTc u (ctx_after Q ([], rty)) (f2 - t) (t2 - t) S0).
    { rewrite Eb. rewrite ET at 1. replace f2 with (length Q + (f2 - t)) at 1 by lia. replace t2 with (length Q + (t2 - t)) at 1 by lia.
      apply remarkedT_app_r. lia. }
    assert (Efirst : firstn f (DT db) = P).
    { rewrite EbT. rewrite firstn_app. replace (f - length Q) with 0 by lia. cbn [firstn]. rewrite app_nil_r.
      unfold Q, P. rewrite firstn_firstn. f_equal. lia. }
    assert (Eskip : skipn t (DT db) = remarkedTc u (ctx_after Q ([], rty)) (f2 - t) (t2 - t) S0).
    { rewrite EbT. rewrite skipn_app. rewrite skipn_all2 by lia. cbn [app]. replace (t - length Q) with 0 by lia. reflexivity. }
    rewrite Eba, Efirst, Eskip.
    (* a then b' *)
    rewrite Eab, Ea. fold P I S0. replace (P ++ I ++ S0) with ((P ++ I) ++ S0) by (rewrite <- app_assoc; reflexivity).
    assert (LPI : length (P ++ I) = f + length I) by (rewrite app_length; lia).
    replace f2' with (length (P ++ I) + (f2 - t)) by (unfold f2', delta; fold I; lia).
    replace t2' with (length (P ++ I) + (t2 - t)) by (unfold t2', delta; fold I; lia).
    rewrite remarkedT_app_r by lia. rewrite <- app_assoc. unfold P, I, rty, T in *. rewrite Hctx. reflexivity.
Qed.

Definition move_mark_step (st : step) (f t : nat) : step :=
  match st with
  | SAddMark _ _ m => SAddMark f t m
  | SRemoveMark _ _ m => SRemoveMark f t m
  | _ => st
  end.

Lemma mark_step_map_after f t sl structure b f2 t2 :
  Shape s (sl_content sl) (sl_open_start sl) (sl_open_end sl) -> f <= t ->
  mark_step_range b = Some (f2, t2) -> t < f2 -> f2 <= t2 ->
  let delta := (Z.of_nat (length (IT s sl)) - (Z.of_nat t - Z.of_nat f))%Z in
  step_map b (get_map s (SReplace f t sl structure)) =
    Some (move_mark_step b (Z.to_nat (Z.of_nat f2 + delta)) (Z.to_nat (Z.of_nat t2 + delta))).
Proof.
  intros Hs Hft Rb Hsep H2 delta. pose proof (IT_length s sl Hs) as Hl.
  destruct b; try discriminate; cbn [mark_step_range] in Rb; inversion Rb; subst;
    cbn [step_map get_map move_mark_step]; rewrite !map_result_single_after by lia;
    unfold deleted; cbn [mr_del mr_pos Z.land Z.ltb Z.compare andb orb];
    match goal with |- context [(?x <? ?y)%Z] => destruct (x <? y)%Z eqn:E; [apply Z.ltb_lt in E; lia|] end;
    unfold delta; rewrite Hl; f_equal; f_equal; lia.
Qed.

(* ------------------------------------------------------------------ a node-level step and a mark step
   An attribute / node-mark step at a position outside the mark step's range: the node step rewrites one token and keeps its
   node type (so no token's enclosing chain changes), the mark step re-marks the tokens of its range only - both orders give
   the same token sequence; both maps are empty, so neither step moves. *)

Definition same_ctx_step (t t' : tok) : Prop := forall c, step_ctx c t = step_ctx c t'.

Lemma ctx_after_same : forall l l' c, Forall2 same_ctx_step l l' -> ctx_after l c = ctx_after l' c.
Proof.
  induction l as [|t l IH]; intros l' c H; inversion H; subst; [reflexivity|].
  unfold ctx_after in *. cbn [fold_left]. rewrite (H2 c). apply IH. assumption.
Qed.

Lemma Forall2_firstn {A B} (R : A -> B -> Prop) : forall n l l', Forall2 R l l' -> Forall2 R (firstn n l) (firstn n l').
Proof.
  induction n as [|n IH]; intros l l' H; [constructor|]. inversion H; subst; cbn [firstn]; constructor; auto.
Qed.

Lemma Forall2_refl_same l : Forall2 same_ctx_step l l.
Proof. induction l; constructor; [intros c; reflexivity|assumption]. Qed.

Lemma node_step_root st pos doc d' :
  is_node_step st = Some pos -> apply s st doc = ROk d' -> node_ty s d' = node_ty s doc.
Proof.
  intros Hst H.
  assert (G : forall upd, apply s st doc = node_step s doc pos upd tt -> node_ty s d' = node_ty s doc).
  { intros upd Eap. rewrite Eap in H. unfold node_step, lift in H.
    destruct (node_at s (S (node_size s doc)) doc pos) as [[n|]|]; try discriminate.
    destruct (upd n) as [updated|]; [|discriminate].
    apply (replace_step_root pos (pos + 1) (SL [updated] 0 (if is_leaf_ty s (node_ty s n) then 0 else 1)) false doc d').
    cbn [apply]. unfold lift. exact H. }
  destruct st; try discriminate; cbn [is_node_step] in Hst; inversion Hst; subst; eapply G; reflexivity.
Qed.

Theorem node_step_and_mark_step_commute a pos b f2 t2 doc da db dab dba :
  V doc -> V da -> V db ->
  is_node_step a = Some pos -> mark_step_range b = Some (f2, t2) -> f2 <= t2 -> (pos < f2 \/ t2 <= pos) ->
  apply s a doc = ROk da -> apply s b doc = ROk db ->
  apply s b da = ROk dab -> apply s a db = ROk dba ->
  get_map s a = empty_map /\ get_map s b = empty_map /\ DT dab = DT dba.
Proof.
  intros Hd Hda Hdb Hst Rb H2 Hout Aa Ab Aab Aba.
  split; [destruct a; try discriminate; reflexivity|]. split; [destruct b; try discriminate; reflexivity|].
  destruct (node_step_splice s a pos doc da Hd Hst Aa) as (ty & at_ & m & cs & a' & m' & En & Eu & Hn & Ea).
  destruct (node_step_splice s a pos db dba Hdb Hst Aba) as (ty2 & at2 & m2 & cs2 & a2' & m2' & En2 & Eu2 & Hn2 & Eba).
  pose proof (node_step_root a pos doc da Hst Aa) as Tya.
  destruct (mark_step_root s _ _ _ _ _ Rb Ab) as (_ & Lb).
  pose proof (mark_step_normalised s _ _ _ _ _ Hd H2 Rb Ab) as Eb.
  pose proof (mark_step_normalised s _ _ _ _ _ Hda H2 Rb Aab) as Eab. rewrite Tya in Eab.
  set (T := DT doc) in *. set (rty := node_ty s doc) in *. set (u := step_updN s b) in *.
  set (y := tnorm (head_tok s ty at_ m)) in *. set (x := tnorm (head_tok s ty a' m')) in *.
  assert (Hp : pos < length T) by (apply nth_error_Some; rewrite Hn; discriminate).
  (* the token at pos is not touched by the mark step *)
  assert (Hnb : nth_error (DT db) pos = Some y).
  { rewrite Eb. rewrite (remarkedT_nth s u rty f2 t2 T pos y H2 Lb Hn).
    assert (E : (f2 <=? pos) && (pos <? t2) = false).
    { destruct Hout as [Ho|Ho]; [assert ((f2 <=? pos) = false) by (apply Nat.leb_gt; lia)|assert ((pos <? t2) = false) by (apply Nat.ltb_ge; lia)];
        rewrite H; auto using andb_false_r. }
    rewrite E. reflexivity. }
  rewrite Hnb in Hn2. inversion Hn2 as [Hsame]. unfold y in Hsame.
  destruct (head_tok_norm_inj s _ _ _ _ _ _ Hsame) as (<- & Hat & Hms).
  assert (Hx : tnorm (head_tok s ty a2' m2') = x).
  { unfold x. eapply (node_update_norm s a pos ty at2 m2 cs2 a2' m2' at_ m cs a' m'); eauto. }
  rewrite Hx in Eba.
  (* the chain of open nodes is the same in T and in DT da: the rewritten token keeps its kind and node type *)
  assert (Hxy : same_ctx_step x y).
  { intros c. unfold x, y, head_tok. destruct (is_leaf_ty s ty); reflexivity. }
  assert (HF : Forall2 same_ctx_step (DT da) T).
  { rewrite Ea. pose proof (nth_split T pos y Hn) as ETy. set (A := firstn pos T) in *. set (S1 := skipn (S pos) T) in *.
    rewrite ETy. apply Forall2_app; [apply Forall2_refl_same|].
    apply Forall2_app; [constructor; [exact Hxy|constructor]|apply Forall2_refl_same]. }
  apply nth_error_ext_eq. intros i.
  assert (Lda : length (DT da) = length T).
  { rewrite Ea, !app_length, firstn_length, skipn_length. cbn [length]. lia. }
  assert (Ldb : length (DT db) = length T) by (rewrite Eb; apply remarkedT_length; assumption).
  destruct (nth_error T i) as [t0|] eqn:Hi.
  - assert (Hia : nth_error (DT da) i = Some (if i =? pos then x else t0)).
    { rewrite Ea. destruct (i =? pos) eqn:Ei.
      - apply Nat.eqb_eq in Ei. subst i. rewrite nth_error_app2 by (rewrite firstn_length; lia).
        rewrite firstn_length, Nat.min_l, Nat.sub_diag by lia. reflexivity.
      - apply Nat.eqb_neq in Ei. destruct (Nat.lt_ge_cases i pos) as [Hlt|Hge].
        + rewrite nth_error_app1 by (rewrite firstn_length; lia). rewrite nth_firstn by lia. exact Hi.
        + rewrite nth_error_app2 by (rewrite firstn_length; lia). rewrite firstn_length, Nat.min_l by lia.
          destruct (i - pos) as [|k] eqn:Ek; [lia|]. cbn [app nth_error]. rewrite nth_skipn.
          replace (S pos + k) with i by lia. exact Hi. }
    assert (Hctx : ctxT rty (DT da) i = ctxT rty T i).
    { unfold ctxT. apply ctx_after_same. apply Forall2_firstn. exact HF. }
    assert (Lb' : t2 <= length (DT da)) by lia.
    rewrite Eab, (remarkedT_nth s u rty f2 t2 (DT da) i _ H2 Lb' Hia), Hctx.
    rewrite Eba. pose proof (remarkedT_nth s u rty f2 t2 T i t0 H2 Lb Hi) as Hib. rewrite <- Eb in Hib.
    destruct (i =? pos) eqn:Ei.
    + apply Nat.eqb_eq in Ei. subst i.
      assert (E : (f2 <=? pos) && (pos <? t2) = false).
      { destruct Hout as [Ho|Ho]; [assert ((f2 <=? pos) = false) by (apply Nat.leb_gt; lia)|assert ((pos <? t2) = false) by (apply Nat.ltb_ge; lia)];
          rewrite H; auto using andb_false_r. }
      rewrite E. rewrite nth_error_app2 by (rewrite firstn_length; lia). rewrite firstn_length, Nat.min_l, Nat.sub_diag by lia. reflexivity.
    + apply Nat.eqb_neq in Ei. destruct (Nat.lt_ge_cases i pos) as [Hlt|Hge].
      * rewrite nth_error_app1 by (rewrite firstn_length; lia). rewrite nth_firstn by lia. exact (eq_sym Hib).
      * rewrite nth_error_app2 by (rewrite firstn_length; lia). rewrite firstn_length, Nat.min_l by lia.
        destruct (i - pos) as [|k] eqn:Ek; [lia|]. cbn [app nth_error]. rewrite nth_skipn.
        replace (S pos + k) with i by lia. exact (eq_sym Hib).
  - apply nth_error_None in Hi.
    assert (E1 : nth_error (DT dab) i = None) by (apply nth_error_None; rewrite Eab, remarkedT_length by lia; lia).
    assert (E2 : nth_error (DT dba) i = None).
    { apply nth_error_None. rewrite Eba, !app_length, firstn_length, skipn_length. cbn [length]. lia. }
    rewrite E1, E2. reflexivity.
Qed.

(* ------------------------------------------------------------------ two node-level steps at different positions *)
Lemma nth_splice1 {A} (L : list A) p x i : p < length L ->
  nth_error (firstn p L ++ [x] ++ skipn (S p) L) i = if i =? p then Some x else nth_error L i.
Proof.
  intros Hp. destruct (i =? p) eqn:Ei.
  - apply Nat.eqb_eq in Ei. subst i. rewrite nth_error_app2 by (rewrite firstn_length; lia).
    rewrite firstn_length, Nat.min_l, Nat.sub_diag by lia. reflexivity.
  - apply Nat.eqb_neq in Ei. destruct (Nat.lt_ge_cases i p) as [Hlt|Hge].
    + rewrite nth_error_app1 by (rewrite firstn_length; lia). apply nth_firstn. lia.
    + rewrite nth_error_app2 by (rewrite firstn_length; lia). rewrite firstn_length, Nat.min_l by lia.
      destruct (i - p) as [|k] eqn:Ek; [lia|]. cbn [app nth_error]. rewrite nth_skipn. f_equal. lia.
Qed.

Theorem two_node_steps_commute a pa b pb doc da db dab dba :
  V doc -> V da -> V db ->
  is_node_step a = Some pa -> is_node_step b = Some pb -> pa <> pb ->
  apply s a doc = ROk da -> apply s b doc = ROk db ->
  apply s b da = ROk dab -> apply s a db = ROk dba ->
  DT dab = DT dba.
Proof.
  intros Hd Hda Hdb Ha Hb Hne Aa Ab Aab Aba.
  destruct (node_step_splice s a pa doc da Hd Ha Aa) as (tya & aa & ma & csa & aa' & ma' & _ & Eua & Hna & Ea).
  destruct (node_step_splice s b pb doc db Hd Hb Ab) as (tyb & ab & mb & csb & ab' & mb' & _ & Eub & Hnb & Eb).
  destruct (node_step_splice s b pb da dab Hda Hb Aab) as (tyb2 & ab2 & mb2 & csb2 & ab2' & mb2' & _ & Eub2 & Hnb2 & Eab).
  destruct (node_step_splice s a pa db dba Hdb Ha Aba) as (tya2 & aa2 & ma2 & csa2 & aa2' & ma2' & _ & Eua2 & Hna2 & Eba).
  set (T := DT doc) in *.
  assert (Hpa : pa < length T) by (apply nth_error_Some; rewrite Hna; discriminate).
  assert (Hpb : pb < length T) by (apply nth_error_Some; rewrite Hnb; discriminate).
  (* b's token in da is b's token in doc, and the other way round *)
  rewrite Ea, (nth_splice1 T pa _ pb Hpa) in Hnb2. assert (E1 : (pb =? pa) = false) by (apply Nat.eqb_neq; lia). rewrite E1, Hnb in Hnb2.
  rewrite Eb, (nth_splice1 T pb _ pa Hpb) in Hna2. assert (E2 : (pa =? pb) = false) by (apply Nat.eqb_neq; lia). rewrite E2, Hna in Hna2.
  inversion Hnb2 as [Sb]. inversion Hna2 as [Sa].
  destruct (head_tok_norm_inj s _ _ _ _ _ _ Sb) as (<- & _ & _). destruct (head_tok_norm_inj s _ _ _ _ _ _ Sa) as (<- & _ & _).
  assert (Xb : tnorm (head_tok s tyb ab2' mb2') = tnorm (head_tok s tyb ab' mb')).
  { eapply (node_update_norm s b pb tyb ab2 mb2 csb2 ab2' mb2' ab mb csb ab' mb'); eauto. }
  assert (Xa : tnorm (head_tok s tya aa2' ma2') = tnorm (head_tok s tya aa' ma')).
  { eapply (node_update_norm s a pa tya aa2 ma2 csa2 aa2' ma2' aa ma csa aa' ma'); eauto. }
  rewrite Xb in Eab. rewrite Xa in Eba.
  set (xa := tnorm (head_tok s tya aa' ma')) in *. set (xb := tnorm (head_tok s tyb ab' mb')) in *.
  assert (Lda : length (DT da) = length T) by (rewrite Ea, !app_length, firstn_length, skipn_length; cbn [length]; lia).
  assert (Ldb : length (DT db) = length T) by (rewrite Eb, !app_length, firstn_length, skipn_length; cbn [length]; lia).
  apply nth_error_ext_eq. intros i. rewrite Eab, Eba.
  rewrite (nth_splice1 (DT da) pb xb i) by lia. rewrite (nth_splice1 (DT db) pa xa i) by lia.
  rewrite Ea, Eb, (nth_splice1 T pa xa i Hpa), (nth_splice1 T pb xb i Hpb).
  destruct (i =? pb) eqn:Eib; destruct (i =? pa) eqn:Eia; try reflexivity.
  apply Nat.eqb_eq in Eib, Eia. lia.
Qed.

End WithSchema.
