(* WHEN a mark step succeeds, for ranges that lie inside one parent node and cut no node (C13, C16): Node.slice of such a
   range is closed, and the step - a replace of the range by the re-marked slice - applies exactly when the parent's children
   with the re-marked ones in place (equal-marked text merged) are valid content for the parent's type; otherwise it FAILS
   (a failed result), it never raises.  The success-direction theorem of Proofs/ReplaceSuccess.v, specialised. *)
From Coq Require Import ZArith NArith List Bool Arith Lia.
From PM Require Import Model.Data Model.Mark Model.Tree Model.Resolve Model.StepMap Model.Step Spec.Tokens
  Proofs.ReplaceValid Proofs.SliceSides Proofs.ReplaceSafe Proofs.TokenBasics Proofs.ReplaceSuccess Proofs.MarkSteps.
Import ListNotations.
Local Open Scope nat_scope.

Section WithSchema.
Variable s : schema.
Notation fsize := (frag_size s).

Lemma map_fragment_size f parent l : MarkOnly f -> fsize (map_fragment s f parent l) = fsize l.
Proof.
  intros Hf. rewrite <- !(ftoks_length s). pose proof (map_fragment_shs s f parent l Hf) as H.
  apply (f_equal (@List.length tok)) in H. unfold shs in H. rewrite !map_length in H. exact H.
Qed.

Theorem flat_add_mark_step_applies_iff doc from to m old rf rt parent a b sd par :
  is_elem doc -> from <= to ->
  node_slice s doc from to = Ok old -> sl_open_start old = 0 -> sl_open_end old = 0 -> fsize (sl_content old) <> 0 ->
  resolve s doc from = Ok rf -> resolve s doc to = Ok rt ->
  rp_depth rf = rp_depth rt -> (forall d, d < rp_depth rf -> rp_index rf d = rp_index rt d) ->
  rp_parent rf = Ok parent ->
  frag_cut s (node_content parent) 0 (rp_parent_offset rf) = Ok a ->
  frag_cut s (node_content parent) (rp_parent_offset rt) (fsize (node_content parent)) = Ok b ->
  shared_depth s rf to = Ok sd -> rp_node rf sd = Ok par ->
  let marked := map_fragment s (add_mark_f s m) par (sl_content old) in
  if valid_content s (node_ty s parent) (frag_append (frag_append a marked) b)
  then exists d', apply s (SAddMark from to m) doc = ROk d'
  else apply s (SAddMark from to m) doc = RFail.
Proof.
  intros He Hft Hsl Hos Hoe Hne Hrf Hrt Hdep Hidx Hpar Ha Hb Hsd Hpn marked.
  assert (Hne' : fsize marked <> 0) by (unfold marked; rewrite map_fragment_size by apply add_mark_f_MarkOnly; exact Hne).
  pose proof (flat_closed_replace_step s doc from to (SL marked 0 0) rf rt parent a b He Hrf Hrt Hft Hdep Hidx eq_refl eq_refl Hne' Hpar Ha Hb) as H.
  cbn [sl_content] in H.
  assert (E : apply s (SAddMark from to m) doc = apply s (SReplace from to (SL marked 0 0) false) doc).
  { cbn [apply]. rewrite Hsl. cbn [lift]. rewrite Hrf. cbn [lift]. rewrite Hsd. cbn [lift]. rewrite Hpn. cbn [lift].
    rewrite Hos, Hoe. reflexivity. }
  rewrite E. exact H.
Qed.

Theorem flat_remove_mark_step_applies_iff doc from to m old rf rt parent a b :
  is_elem doc -> from <= to ->
  node_slice s doc from to = Ok old -> sl_open_start old = 0 -> sl_open_end old = 0 -> fsize (sl_content old) <> 0 ->
  resolve s doc from = Ok rf -> resolve s doc to = Ok rt ->
  rp_depth rf = rp_depth rt -> (forall d, d < rp_depth rf -> rp_index rf d = rp_index rt d) ->
  rp_parent rf = Ok parent ->
  frag_cut s (node_content parent) 0 (rp_parent_offset rf) = Ok a ->
  frag_cut s (node_content parent) (rp_parent_offset rt) (fsize (node_content parent)) = Ok b ->
  let marked := map_fragment s (remove_mark_f m) doc (sl_content old) in
  if valid_content s (node_ty s parent) (frag_append (frag_append a marked) b)
  then exists d', apply s (SRemoveMark from to m) doc = ROk d'
  else apply s (SRemoveMark from to m) doc = RFail.
Proof.
  intros He Hft Hsl Hos Hoe Hne Hrf Hrt Hdep Hidx Hpar Ha Hb marked.
  assert (Hne' : fsize marked <> 0) by (unfold marked; rewrite map_fragment_size by apply remove_mark_f_MarkOnly; exact Hne).
  pose proof (flat_closed_replace_step s doc from to (SL marked 0 0) rf rt parent a b He Hrf Hrt Hft Hdep Hidx eq_refl eq_refl Hne' Hpar Ha Hb) as H.
  cbn [sl_content] in H.
  assert (E : apply s (SRemoveMark from to m) doc = apply s (SReplace from to (SL marked 0 0) false) doc).
  { cbn [apply]. rewrite Hsl. cbn [lift]. rewrite Hos, Hoe. reflexivity. }
  rewrite E. exact H.
Qed.

End WithSchema.
