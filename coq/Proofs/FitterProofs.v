(* First facts about the modelled fitter (Model.Fitter): the step replace_step plans starts at the requested
   position (and, for a replace-around step, keeps the content from `to` to the end of its textblock as the
   gap), so by the splice theorems everything before `from` is kept by the planned edit (C11). *)
From Coq Require Import ZArith NArith List Bool Arith Lia.
From PM Require Import Model.Data Model.Mark Model.Tree Model.Resolve Model.StepMap Model.Step Model.Fill Model.Fitter
  Spec.Tokens Proofs.ReplaceValid Proofs.SliceSides Proofs.TokenBasics Proofs.PathTokens Proofs.ReplaceTokens
  Proofs.SliceShape Proofs.StepFaithful Proofs.SliceTokens Proofs.SliceCut Proofs.TokenLaws Proofs.StepAlgebra
  Proofs.StepTokens Proofs.AroundTokens Proofs.AroundLaws.
Import ListNotations.
Local Open Scope nat_scope.

Section WithSchema.
Variable s : schema.
Notation V := (V s).
Notation DT := (DT s).
Notation IT := (IT s).

Theorem replace_step_shape doc from to sl st :
  replace_step s doc from to sl = Ok (Some st) ->
  (exists t' sl', st = SReplace from t' sl' false) \/
  (exists mi e sl' ins, st = SReplaceAround from mi to e sl' ins false).
Proof.
  unfold replace_step. destruct ((from =? to) && (slice_size s sl =? 0)%Z); [discriminate|].
  destruct (resolve s doc from) as [rf|] eqn:Ef; [|discriminate]. cbn [bind].
  destruct (resolve s doc to) as [rt|] eqn:Et; [|discriminate]. cbn [bind].
  destruct (fits_trivially s rf rt sl) as [[|]|]; cbn [bind]; try discriminate.
  - intros H. inversion H. left. eauto.
  - destruct (resolve_spec s _ _ _ Ef) as (Hpf & _). destruct (resolve_spec s _ _ _ Et) as (Hpt & _).
    unfold fitter_fit. destruct (fitter_init s rf sl) as [st0|]; [|discriminate]. cbn [bind].
    destruct (fit_loop s _ _) as [st1|]; [|discriminate]. cbn [bind].
    destruct (must_move_inline s rt doc st1) as [mi|]; [|discriminate]. cbn [bind].
    destruct (match mi with None => Ok rt | Some p => resolve s doc p end) as [t0|]; [|discriminate]. cbn [bind].
    destruct (fitter_close s doc st1 t0) as [[[st' t']|]|]; cbn [bind]; try discriminate.
    destruct (strip_single _ _ _ _) as [[content os] oe].
    destruct mi as [m|].
    + destruct (rp_end s rt (rp_depth rt)) as [e|]; [|discriminate]. cbn [bind]. intros H. inversion H. right.
      rewrite Hpf, Hpt. eauto 10.
    + destruct (negb _ || negb _); [|discriminate]. intros H. inversion H. left. rewrite Hpf. eauto.
Qed.

(* what lies before the requested start survives the planned edit, token for token *)
Theorem planned_step_keeps_before doc from to sl st d' :
  V doc -> replace_step s doc from to sl = Ok (Some st) -> apply s st doc = ROk d' ->
  (forall f t sl' b, st = SReplace f t sl' b -> Shape s (sl_content sl') (sl_open_start sl') (sl_open_end sl')) ->
  (forall f t gf gt sl' ins b, st = SReplaceAround f t gf gt sl' ins b ->
     Shape s (sl_content sl') (sl_open_start sl') (sl_open_end sl') /\ gf <= gt /\ ins <= length (IT sl')) ->
  firstn from (DT d') = firstn from (DT doc).
Proof.
  intros Hd Hp Ha H1 H2.
  destruct (replace_step_shape _ _ _ _ _ Hp) as [(t' & sl' & ->)|(mi & e & sl' & ins & ->)].
  - apply (replace_step_keeps_outside s _ _ _ _ _ _ Hd (H1 _ _ _ _ eq_refl) Ha).
  - destruct (H2 _ _ _ _ _ _ _ eq_refl) as (Hs & Hg & Hi).
    destruct (replace_around_splice s _ _ _ _ _ _ _ _ _ Hd Hs Hg Hi Ha) as (B1 & _ & ->).
    rewrite firstn_app_l by (rewrite firstn_length; lia). rewrite firstn_firstn_le by lia. reflexivity.
Qed.

End WithSchema.
