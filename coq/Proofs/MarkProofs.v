(* Proofs about Model/Mark.v (property C14) *)
From Coq Require Import ZArith NArith List Bool String Lia Arith.
From PM Require Import Model.Data Model.Mark Proofs.DataProofs.
Import ListNotations.

Section WithSchema.
Variable s : schema.

Notation excl a b := (excludes s a b).

(* "a present mark blocks the addition": an equal mark, or a mark that the new
   one does not exclude but that excludes the new one *)
Definition blocks (m o : mark) : bool :=
  mark_eqb m o || (negb (excl (m_ty m) (m_ty o)) && excl (m_ty o) (m_ty m)).
Definition blocked (m : mark) (set : list mark) : bool := existsb (blocks m) set.
Definition kept (m : mark) (set : list mark) : list mark :=
  filter (fun o => negb (excl (m_ty m) (m_ty o))) set.

Lemma insert_sorted_all_le m l :
  (forall y, In y l -> m_ty y <= m_ty m) -> insert_sorted m l = l ++ [m].
Proof.
  induction l as [|x l IH]; simpl; intros H; auto.
  assert (Hx : m_ty x <= m_ty m) by (apply H; auto).
  destruct (Nat.ltb_spec (m_ty m) (m_ty x)); [lia|]. f_equal. apply IH. intros; apply H; auto.
Qed.

Lemma insert_sorted_snoc m l x :
  (exists y, In y l /\ m_ty m < m_ty y) -> insert_sorted m (l ++ [x]) = insert_sorted m l ++ [x].
Proof.
  induction l as [|z l IH]; simpl; intros [y [Hin Hlt]]; [contradiction|].
  destruct (Nat.ltb_spec (m_ty m) (m_ty z)); auto.
  simpl. f_equal. apply IH. destruct Hin as [->|Hin]; [lia|]. eauto.
Qed.

Lemma kept_app m a b : kept m (a ++ b) = kept m a ++ kept m b.
Proof. unfold kept. apply filter_app. Qed.

Lemma blocked_app m a b : blocked m (a ++ b) = blocked m a || blocked m b.
Proof. unfold blocked. apply existsb_app. Qed.

Lemma add_go_spec m : forall (rest pre : list mark) (copy : option (list mark)) (placed : bool) (orig : list mark),
  orig = pre ++ rest ->
  match copy return Prop with
  | None => kept m pre = pre /\ placed = false
  | Some c => c = if placed then insert_sorted m (kept m pre) else kept m pre
  end ->
  (if placed then exists y, In y (kept m pre) /\ m_ty m < m_ty y
   else forall y, In y (kept m pre) -> m_ty y <= m_ty m) ->
  add_go s m rest pre copy placed orig =
  if blocked m rest then orig else insert_sorted m (kept m (pre ++ rest)).
Proof.
  induction rest as [|o rest IH]; intros pre copy placed orig Horig Hcopy Hpl.
  - simpl. rewrite app_nil_r.
    destruct copy as [c|].
    + subst c. destruct placed; auto. symmetry. apply insert_sorted_all_le; auto.
    + destruct Hcopy as [Hk ->]. rewrite Hk in *. rewrite insert_sorted_all_le by auto.
      subst orig. rewrite app_nil_r. reflexivity.
  - cbn [add_go blocked existsb]. unfold blocks at 1.
    destruct (mark_eqb m o) eqn:Eeq; [reflexivity|]. cbn [orb].
    destruct (excl (m_ty m) (m_ty o)) eqn:Eex; cbn [negb andb orb].
    + (* o is excluded by m: dropped *)
      rewrite IH.
      * fold (blocked m rest). rewrite <- app_assoc. reflexivity.
      * subst orig. rewrite <- app_assoc. reflexivity.
      * rewrite kept_app. cbn [kept filter]. rewrite Eex. cbn [negb]. rewrite app_nil_r.
        destruct copy as [c|]; auto. destruct Hcopy as [Hk ->]. rewrite Hk. reflexivity.
      * rewrite kept_app. cbn [kept filter]. rewrite Eex. cbn [negb]. rewrite app_nil_r. exact Hpl.
    + destruct (excl (m_ty o) (m_ty m)) eqn:Eex2; [reflexivity|]. cbn [orb].
      assert (Hk1 : kept m (pre ++ [o]) = kept m pre ++ [o]).
      { rewrite kept_app. cbn [kept filter]. rewrite Eex. reflexivity. }
      destruct placed; cbn [negb andb].
      * (* already placed *)
        rewrite IH.
        -- fold (blocked m rest). rewrite <- app_assoc. reflexivity.
        -- subst orig. rewrite <- app_assoc. reflexivity.
        -- destruct copy as [c|]; [|destruct Hcopy; discriminate].
           subst c. rewrite Hk1. symmetry. apply insert_sorted_snoc. exact Hpl.
        -- rewrite Hk1. destruct Hpl as [y [Hy1 Hy2]]. exists y. split; auto. apply in_or_app; auto.
      * destruct (Nat.ltb_spec (m_ty m) (m_ty o)) as [Hlt|Hge].
        -- (* place m before o *)
           rewrite IH.
           ++ fold (blocked m rest). rewrite <- app_assoc. reflexivity.
           ++ subst orig. rewrite <- app_assoc. reflexivity.
           ++ rewrite Hk1.
              assert (Hc : match copy with Some c => c | None => pre end = kept m pre).
              { destruct copy as [c|]; [auto|]. destruct Hcopy as [Hk _]. auto. }
              rewrite Hc.
              assert (Hins : insert_sorted m (kept m pre ++ [o]) = kept m pre ++ [m] ++ [o]).
              { clear -Hpl Hlt. induction (kept m pre) as [|z l IHl]; simpl.
                - destruct (Nat.ltb_spec (m_ty m) (m_ty o)); [auto|lia].
                - assert (m_ty z <= m_ty m) by (apply Hpl; simpl; auto).
                  destruct (Nat.ltb_spec (m_ty m) (m_ty z)); [lia|]. f_equal. apply IHl.
                  intros; apply Hpl; simpl; auto. }
              rewrite Hins. reflexivity.
           ++ rewrite Hk1. exists o. split; [apply in_or_app; simpl; auto|auto].
        -- rewrite IH.
           ++ fold (blocked m rest). rewrite <- app_assoc. reflexivity.
           ++ subst orig. rewrite <- app_assoc. reflexivity.
           ++ rewrite Hk1. destruct copy as [c|].
              ** subst c. reflexivity.
              ** destruct Hcopy as [Hk _]. split; auto. rewrite Hk. reflexivity.
           ++ rewrite Hk1. intros y Hy. apply in_app_or in Hy. destruct Hy as [Hy|[<-|[]]]; auto.
Qed.

(* Adding a mark: unchanged if blocked; otherwise exactly the marks the new
   one excludes are removed, every other mark is kept in order, and the new
   mark is inserted at its rank position (after marks of equal rank). *)
Theorem add_to_set_spec m set :
  add_to_set s m set = if blocked m set then set else insert_sorted m (kept m set).
Proof.
  unfold add_to_set. rewrite add_go_spec; auto.
  simpl. intros y [].
Qed.

(* ---- canonical form ---- *)
Fixpoint sorted_rank (l : list mark) : Prop :=
  match l with
  | [] => True
  | x :: r => (forall y, In y r -> m_ty x <= m_ty y) /\ sorted_rank r
  end.

Lemma sorted_filter f l : sorted_rank l -> sorted_rank (filter f l).
Proof.
  induction l as [|x l IH]; simpl; auto. intros [H1 H2].
  destruct (f x); simpl; auto. split; auto.
  intros y Hy. apply filter_In in Hy. apply H1. tauto.
Qed.

Lemma in_insert_sorted m l y : In y (insert_sorted m l) <-> y = m \/ In y l.
Proof.
  induction l as [|x l IH]; simpl; [intuition|].
  destruct (Nat.ltb (m_ty m) (m_ty x)); simpl; [intuition|]. rewrite IH. intuition.
Qed.

Lemma sorted_insert m l : sorted_rank l -> sorted_rank (insert_sorted m l).
Proof.
  induction l as [|x l IH]; simpl; intros H.
  - split; auto. intros y [].
  - destruct H as [H1 H2]. destruct (Nat.ltb_spec (m_ty m) (m_ty x)).
    + simpl. split; [|split; auto]. intros y [<-|Hy]; [lia|]. specialize (H1 y Hy). lia.
    + simpl. split; auto. intros y Hy. apply in_insert_sorted in Hy. destruct Hy as [->|Hy]; [lia|auto].
Qed.

Theorem add_to_set_sorted m set : sorted_rank set -> sorted_rank (add_to_set s m set).
Proof.
  intros H. rewrite add_to_set_spec. destruct (blocked m set); auto.
  apply sorted_insert. apply sorted_filter. auto.
Qed.

(* no two equal marks *)
Fixpoint nodup_marks (l : list mark) : Prop :=
  match l with
  | [] => True
  | x :: r => (forall y, In y r -> mark_eqb x y = false) /\ nodup_marks r
  end.

Lemma nodup_filter f l : nodup_marks l -> nodup_marks (filter f l).
Proof.
  induction l as [|x l IH]; simpl; auto. intros [H1 H2].
  destruct (f x); simpl; auto. split; auto.
  intros y Hy. apply filter_In in Hy. apply H1. tauto.
Qed.


Lemma nodup_insert m l :
  nodup_marks l -> (forall y, In y l -> mark_eqb m y = false) -> nodup_marks (insert_sorted m l).
Proof.
  induction l as [|x l IH]; simpl; intros H Hm.
  - split; auto.
  - destruct H as [H1 H2]. destruct (Nat.ltb (m_ty m) (m_ty x)).
    + simpl. split; [|split; auto]. intros y Hy. apply Hm. simpl. tauto.
    + simpl. split.
      * intros y Hy. apply in_insert_sorted in Hy. destruct Hy as [->|Hy]; auto.
        rewrite mark_eqb_sym. apply Hm; auto.
      * apply IH; auto.
Qed.

Theorem add_to_set_nodup m set : nodup_marks set -> nodup_marks (add_to_set s m set).
Proof.
  intros H. rewrite add_to_set_spec. destruct (blocked m set) eqn:Hb; auto.
  apply nodup_insert. { apply nodup_filter; auto. }
  intros y Hy. apply filter_In in Hy. destruct Hy as [Hy _].
  unfold blocked in Hb. destruct (mark_eqb m y) eqn:E; auto.
  assert (existsb (blocks m) set = true); [|congruence].
  apply existsb_exists. exists y. split; auto. unfold blocks. rewrite E. reflexivity.
Qed.

Theorem remove_from_set_spec m set y :
  In y (remove_from_set m set) <-> In y set /\ mark_eqb y m = false.
Proof.
  unfold remove_from_set. rewrite filter_In. destruct (mark_eqb y m); simpl; intuition congruence.
Qed.

Theorem remove_from_set_sorted m set : sorted_rank set -> sorted_rank (remove_from_set m set).
Proof. apply sorted_filter. Qed.
Theorem remove_from_set_nodup m set : nodup_marks set -> nodup_marks (remove_from_set m set).
Proof. apply nodup_filter. Qed.

Theorem is_in_set_spec m set : is_in_set m set = true <-> exists y, In y set /\ mark_eqb y m = true.
Proof. unfold is_in_set. apply existsb_exists. Qed.

(* every set reachable from the empty set by additions and removals is sorted
   by rank and duplicate-free *)
Inductive setop := OpAdd (m : mark) | OpRemove (m : mark) | OpRemoveType (t : nat).
Definition apply_op (set : list mark) (o : setop) : list mark :=
  match o with
  | OpAdd m => add_to_set s m set
  | OpRemove m => remove_from_set m set
  | OpRemoveType t => type_remove_from_set t set
  end.

Theorem reachable_canonical ops :
  let set := fold_left apply_op ops [] in sorted_rank set /\ nodup_marks set.
Proof.
  cbn zeta.
  assert (H : forall init, sorted_rank init /\ nodup_marks init ->
            sorted_rank (fold_left apply_op ops init) /\ nodup_marks (fold_left apply_op ops init)).
  { induction ops as [|o ops IH]; simpl; auto. intros init [H1 H2]. apply IH.
    destruct o; simpl.
    - split; [apply add_to_set_sorted|apply add_to_set_nodup]; auto.
    - split; [apply sorted_filter|apply nodup_filter]; auto.
    - split; [apply sorted_filter|apply nodup_filter]; auto. }
  apply H. simpl. auto.
Qed.

(* allowed_marks = filter by the parent's permission, order kept *)
Lemma allowed_go_spec nt : forall (rest pre : list mark) (copy : option (list mark)),
  match copy return Prop with
  | None => filter (fun m => allows_mark_type s nt (m_ty m)) pre = pre
  | Some c => c = filter (fun m => allows_mark_type s nt (m_ty m)) pre
  end ->
  match allowed_go s nt rest pre copy return Prop with
  | None => filter (fun m => allows_mark_type s nt (m_ty m)) (pre ++ rest) = pre ++ rest
  | Some c => c = filter (fun m => allows_mark_type s nt (m_ty m)) (pre ++ rest)
  end.
Proof.
  induction rest as [|m rest IH]; intros pre copy H; simpl.
  - rewrite app_nil_r. exact H.
  - destruct (allows_mark_type s nt (m_ty m)) eqn:E; cbn [negb].
    + specialize (IH (pre ++ [m]) (match copy with Some c => Some (c ++ [m]) | None => None end)).
      rewrite <- app_assoc in IH. apply IH.
      rewrite filter_app. simpl. rewrite E.
      destruct copy as [c|]; [subst c; reflexivity|]. rewrite H. reflexivity.
    + specialize (IH (pre ++ [m]) (Some (match copy with Some c => c | None => pre end))).
      rewrite <- app_assoc in IH. apply IH.
      rewrite filter_app. simpl. rewrite E. rewrite app_nil_r.
      destruct copy as [c|]; auto.
Qed.

Theorem allowed_marks_spec nt ms :
  allowed_marks s nt ms =
  match nt_markset (ntype_of s nt) with
  | None => ms
  | Some _ => filter (fun m => allows_mark_type s nt (m_ty m)) ms
  end.
Proof.
  unfold allowed_marks. destruct (nt_markset (ntype_of s nt)) eqn:E; auto.
  pose proof (allowed_go_spec nt ms [] None eq_refl) as H. simpl in H.
  destruct (allowed_go s nt ms [] None); auto.
Qed.

Theorem allows_marks_spec nt ms :
  allows_marks s nt ms = forallb (fun m => allows_mark_type s nt (m_ty m)) ms.
Proof.
  unfold allows_marks, allows_mark_type. destruct (nt_markset (ntype_of s nt)); auto.
  induction ms; simpl; auto.
Qed.

End WithSchema.
