(* find_wrapping is complete (C15): it returns nothing ONLY IF no chain of wrapper types fits.  The search is a
   breadth-first traversal over wrapper types with a visited list; when the queue runs empty the visited types,
   together with the start state, are closed under "may be the next wrapper" and none of them accepts the target. *)
From Coq Require Import ZArith List Bool Arith Lia.
From PM Require Import Model.Data Model.Mark Model.Tree Model.Step Model.Fill Proofs.FillProofs Proofs.FillComplete.
Import ListNotations.

Lemma bounded_nodup_length_gen (l : list nat) K : NoDup l -> (forall x, In x l -> x < K) -> length l <= K.
Proof.
  intros Hn Hb. rewrite <- (seq_length K 0). apply NoDup_incl_length; [exact Hn|].
  intros x Hx. apply in_seq. specialize (Hb x Hx). lia.
Qed.

Section WithSchema.
Variable s : schema.
Notation M := (length (s_nodes s)).
Notation start t := (nt_start (ntype_of s t)).

(* every edge of the table is labelled with a node type of the schema (boolean-checkable) *)
Definition closed_types : bool :=
  forallb (fun st => forallb (fun e => Nat.ltb (fst e) M) (cs_next st)) (s_states s).
Lemma closed_type q t nx : closed_types = true -> In (t, nx) (cs_next (state_of s q)) -> t < M.
Proof.
  unfold closed_types, state_of. intros Hc Hin.
  destruct (nth_in_or_default q (s_states s) dummy_state) as [Hi|He].
  - rewrite forallb_forall in Hc. specialize (Hc _ Hi). rewrite forallb_forall in Hc. specialize (Hc _ Hin).
    apply Nat.ltb_lt in Hc. exact Hc.
  - rewrite He in Hin. destruct Hin.
Qed.

Lemma assoc_nat_In l t nx : assoc_nat l t = Some nx -> In (t, nx) l.
Proof.
  induction l as [|[a b] l IH]; [discriminate|]. cbn [assoc_nat].
  destruct (Nat.eqb_spec a t); [intros H; inversion H; subst; left; reflexivity|intros H; right; apply IH; exact H].
Qed.

Section Search.
Variables (q0 target : nat).
Hypothesis Hclosed : closed_types = true.

Definition wtype (t : nat) : bool := negb (is_leaf_ty s t) && negb (has_required_attrs (nt_attrs (ntype_of s t))).
(* t may be the next wrapper after a position whose match state is q *)
Definition succ (q : nat) (initial : bool) (t : nat) : Prop :=
  exists nx, In (t, nx) (cs_next (state_of s q)) /\ wtype t = true /\ (initial || valid_end s nx) = true.
Definition DoneState (seen : list nat) (q : nat) (initial : bool) : Prop :=
  match_type s q target = None /\ forall t, succ q initial t -> In t seen.
Lemma DoneState_mono seen seen' q ini : incl seen seen' -> DoneState seen q ini -> DoneState seen' q ini.
Proof. intros Hi [H1 H2]. split; [exact H1|]. intros t Ht. apply Hi, H2, Ht. Qed.

Definition entry := (nat * list nat * bool)%type.
Definition entry_shape (seen : list nat) (e : entry) : Prop :=
  let '(q, chain, ini) := e in
  (ini = true /\ q = q0) \/ (ini = false /\ exists t rest, chain = t :: rest /\ q = start t /\ In t seen).
Definition waiting (active : list entry) (t : nat) : Prop := exists rest, In (start t, t :: rest, false) active.
Definition Inv (active : list entry) (seen : list nat) : Prop :=
  (forall e, In e active -> entry_shape seen e) /\
  (forall t, In t seen -> waiting active t \/ DoneState seen (start t) false) /\
  ((exists chain, In (q0, chain, true) active) \/ DoneState seen q0 true).

Definition stepf (chain : list nat) (initial : bool) :=
  fun (acc : list entry * list nat) (e : nat * nat) =>
    let '(added, sn) := acc in
    let '(t, nx) := e in
    if negb (is_leaf_ty s t) && negb (has_required_attrs (nt_attrs (ntype_of s t)))
       && negb (nat_mem t sn) && (initial || valid_end s nx)
    then (added ++ [(start t, t :: chain, false)], t :: sn)
    else (added, sn).

(* one round: the successors of the popped entry are all visited afterwards; new entries are well-shaped *)
Lemma round_spec q chain initial : forall (edges : list (nat * nat)) added sn added' sn',
  incl edges (cs_next (state_of s q)) ->
  fold_left (stepf chain initial) edges (added, sn) = (added', sn') ->
  NoDup sn -> (forall x, In x sn -> x < M) ->
  incl sn sn' /\ NoDup sn' /\ (forall x, In x sn' -> x < M) /\
  (exists new, added' = added ++ new /\ length sn' = length sn + length new /\
     forall e, In e new -> exists t, e = (start t, t :: chain, false) /\ In t sn' /\ ~ In t sn) /\
  (forall t, In t sn' -> In t sn \/ exists rest, In (start t, t :: rest, false) added') /\
  (forall t nx, In (t, nx) edges -> wtype t = true -> (initial || valid_end s nx) = true -> In t sn').
Proof.
  induction edges as [|[t nx] edges IH]; intros added sn added' sn' Hincl H Hnd Hb.
  - cbn [fold_left] in H. inversion H; subst. split; [apply incl_refl|]. split; [exact Hnd|]. split; [exact Hb|].
    split; [exists []; rewrite app_nil_r; split; [reflexivity|split; [cbn; lia|intros e []]]|].
    split; [intros t Ht; left; exact Ht|intros t nx []].
  - assert (Hincl' : incl edges (cs_next (state_of s q))) by (intros x Hx; apply Hincl; right; exact Hx).
    cbn [fold_left] in H. unfold stepf at 2 in H.
    destruct (negb (is_leaf_ty s t) && negb (has_required_attrs (nt_attrs (ntype_of s t)))
              && negb (nat_mem t sn) && (initial || valid_end s nx)) eqn:Ec.
    + apply andb_prop in Ec. destruct Ec as [Ec Hv]. apply andb_prop in Ec. destruct Ec as [Hw Hnm].
      apply negb_true_iff in Hnm. assert (Hnin : ~ In t sn) by (intros Hx; apply nat_mem_In in Hx; congruence).
      assert (Hnd' : NoDup (t :: sn)) by (constructor; assumption).
      assert (Hb' : forall x, In x (t :: sn) -> x < M).
      { intros x [<-|Hx]; [eapply closed_type; [exact Hclosed|apply Hincl; left; reflexivity]|apply Hb; exact Hx]. }
      destruct (IH _ _ _ _ Hincl' H Hnd' Hb') as (Hi & Hn1 & Hb1 & (new & En & Hl & Hnew) & Hback & Hall).
      split; [intros x Hx; apply Hi; right; exact Hx|]. split; [exact Hn1|]. split; [exact Hb1|].
      split.
      * exists ((start t, t :: chain, false) :: new). split; [rewrite En, <- app_assoc; reflexivity|].
        split; [cbn [length] in *; lia|].
        intros e [<-|He]; [exists t; split; [reflexivity|split; [apply Hi; left; reflexivity|exact Hnin]]|].
        destruct (Hnew e He) as (t' & -> & H1 & H2). exists t'. split; [reflexivity|]. split; [exact H1|].
        intros Hx. apply H2. right. exact Hx.
      * split.
        -- intros t' Ht'. destruct (Hback t' Ht') as [[<-|Hx]|Hx]; [|left; exact Hx|right; exact Hx].
           right. exists chain. rewrite En. apply in_or_app. left. apply in_or_app. right. left. reflexivity.
        -- intros t' nx' [E|Hin] Hw' Hv'; [inversion E; subst; apply Hi; left; reflexivity|eapply Hall; eauto].
    + destruct (IH _ _ _ _ Hincl' H Hnd Hb) as (Hi & Hn1 & Hb1 & Hnew & Hback & Hall).
      split; [exact Hi|]. split; [exact Hn1|]. split; [exact Hb1|]. split; [exact Hnew|]. split; [exact Hback|].
      intros t' nx' [E|Hin] Hw' Hv'; [|eapply Hall; eauto]. inversion E; subst t' nx'.
      unfold wtype in Hw'. rewrite Hw', Hv' in Ec. cbn [andb] in Ec. rewrite andb_true_r in Ec.
      apply negb_false_iff in Ec. apply Hi. apply nat_mem_In. exact Ec.
Qed.

Lemma wrap_bfs_none : forall fuel active seen,
  Inv active seen -> NoDup seen -> (forall x, In x seen -> x < M) ->
  length active + (M - length seen) + 1 <= fuel ->
  wrap_bfs s fuel target active seen = None ->
  exists seen', DoneState seen' q0 true /\ forall t, In t seen' -> DoneState seen' (start t) false.
Proof.
  induction fuel as [|fuel IH]; intros active seen HI Hnd Hb Hf H; [lia|].
  cbn [wrap_bfs] in H. destruct active as [|[[q chain] initial] rest].
  { destruct HI as (_ & H2 & H3). exists seen. split.
    - destruct H3 as [(c & [])|H3]; exact H3.
    - intros t Ht. destruct (H2 t Ht) as [(r & [])|Hd]; exact Hd. }
  destruct (match_type s q target) as [q'|] eqn:Em; [discriminate|].
  destruct (fold_left (stepf chain initial) (cs_next (state_of s q)) ([], seen)) as [added' sn'] eqn:Ef.
  pose proof Ef as Ef'. unfold stepf, entry in Ef'. rewrite Ef' in H. clear Ef'.
  cbn [fst snd] in H.
  destruct (round_spec q chain initial _ [] seen added' sn' (incl_refl _) Ef Hnd Hb)
    as (Hi & Hn1 & Hb1 & (new & En & Hl & Hnew) & Hback & Hall).
  cbn [app] in En. subst added'.
  pose proof (bounded_nodup_length_gen sn' M Hn1 Hb1) as Hlen'.
  apply (IH (rest ++ new) sn'); auto.
  - destruct HI as (H1 & H2 & H3).
    (* the popped entry is done *)
    assert (Hdone : DoneState sn' q initial).
    { split; [exact Em|]. intros t (nx & Hin & Hw & Hv). eapply Hall; eauto. }
    assert (Hshape : entry_shape seen (q, chain, initial)) by (apply H1; left; reflexivity).
    split; [|split].
    + intros e He. apply in_app_or in He. destruct He as [He|He].
      * specialize (H1 e (or_intror He)). destruct e as [[qe ce] ie]. cbn [entry_shape] in *.
        destruct H1 as [H1|(Hie & t & r & Hc & Hq & Ht)]; [left; exact H1|right].
        split; [exact Hie|]. exists t, r. split; [exact Hc|]. split; [exact Hq|apply Hi; exact Ht].
      * destruct (Hnew e He) as (t & -> & Ht & _). cbn [entry_shape]. right. split; [reflexivity|]. exists t, chain. auto.
    + intros t Ht. destruct (Hback t Ht) as [Hs|(r & Hr)]; [|left; exists r; apply in_or_app; right; exact Hr].
      destruct (H2 t Hs) as [(r & Hr)|Hd]; [|right; eapply DoneState_mono; eauto].
      destruct Hr as [E|Hr]; [|left; exists r; apply in_or_app; left; exact Hr].
      (* the popped entry was the one waiting for t *)
      inversion E; subst q chain initial. right. exact Hdone.
    + destruct H3 as [(c & [E|Hc])|H3].
      * inversion E; subst q chain initial. right. exact Hdone.
      * left. exists c. apply in_or_app. left. exact Hc.
      * right. eapply DoneState_mono; eauto.
  - rewrite app_length. cbn [length] in Hf. lia.
Qed.


Lemma closed_no_chain seen' :
  DoneState seen' q0 true -> (forall t, In t seen' -> DoneState seen' (start t) false) ->
  forall chain q ini,
    ((q = q0 /\ ini = true) \/ (ini = false /\ exists t, In t seen' /\ q = start t)) ->
    ~ chain_fits s q chain target ini.
Proof.
  intros H0 HS. induction chain as [|w rest IH]; intros q ini Hq Hfit.
  - cbn [chain_fits] in Hfit. destruct Hfit as (q' & Hm).
    destruct Hq as [[-> ->]|(-> & t & Ht & ->)].
    + destruct H0 as [Hn _]. congruence.
    + destruct (HS t Ht) as [Hn _]. congruence.
  - cbn [chain_fits] in Hfit. destruct Hfit as ((nx & Hm & Hv) & Hl & Ha & Hrest).
    assert (Hsucc : succ q ini w).
    { exists nx. split; [apply assoc_nat_In; exact Hm|]. split; [unfold wtype; rewrite Hl, Ha; reflexivity|].
      destruct Hv as [-> | ->]; [reflexivity|apply orb_true_r]. }
    assert (Hw : In w seen').
    { destruct Hq as [[-> ->]|(-> & t & Ht & ->)]; [apply H0; exact Hsucc|apply (HS t Ht); exact Hsucc]. }
    apply (IH (start w) false); [right; split; [reflexivity|exists w; auto]|exact Hrest].
Qed.

Theorem find_wrapping_none_no_chain :
  find_wrapping s q0 target = None -> forall chain, ~ chain_fits s q0 chain target true.
Proof.
  unfold find_wrapping. intros H chain.
  assert (HI : Inv [(q0, [], true)] []).
  { split; [|split].
    - intros e [<-|[]]. cbn [entry_shape]. left. auto.
    - intros t [].
    - left. exists []. left. reflexivity. }
  destruct (wrap_bfs_none (S (S M)) [(q0, [], true)] [] HI (NoDup_nil _) (fun x (Hx : In x []) => match Hx with end)
              ltac:(cbn [length]; lia) H) as (seen' & H0 & HS).
  apply (closed_no_chain seen' H0 HS). left. auto.
Qed.


(* ------------------------------------------------------------------ the chain found is a shortest one *)
Definition elen (e : entry) : nat := length (snd (fst e)).

(* every entry is as long as the head or one longer, in queue order *)
Fixpoint levels (k : nat) (l : list entry) : Prop :=
  match l with
  | [] => True
  | e :: r => (elen e = k \/ elen e = S k) /\ (elen e = S k -> forall e', In e' r -> elen e' = S k) /\ levels k r
  end.
Lemma levels_bound k l : levels k l -> forall e, In e l -> elen e <= S k.
Proof. induction l as [|x l IH]; intros H e He; [destruct He|]. destruct He as [<-|He]; cbn [levels] in H; [lia|apply IH; tauto]. Qed.
Lemma levels_ge k l : levels k l -> forall e, In e l -> k <= elen e.
Proof. induction l as [|x l IH]; intros H e He; [destruct He|]. destruct He as [<-|He]; cbn [levels] in H; [lia|apply IH; tauto]. Qed.
Lemma levels_app_new k l new : levels k l -> (forall e, In e new -> elen e = S k) -> levels k (l ++ new).
Proof.
  induction l as [|x l IH]; intros H Hn; cbn [app].
  - induction new as [|y new IHn]; [exact I|]. cbn [levels]. split; [right; apply Hn; left; reflexivity|].
    split; [intros _ e' He'; apply Hn; right; exact He'|apply IHn; intros e He; apply Hn; right; exact He].
  - cbn [levels] in *. destruct H as (H1 & H2 & H3). split; [exact H1|]. split; [|apply IH; assumption].
    intros Hx e' He'. apply in_app_or in He'. destruct He' as [He'|He']; [apply H2; assumption|apply Hn; exact He'].
Qed.
(* after popping the head, the rest is levelled from its own head *)
Lemma levels_tail k x l : levels k (x :: l) -> match l with [] => True | y :: _ => levels (elen y) l end.
Proof.
  destruct l as [|y l']; [auto|]. cbn [levels]. intros (H1 & H2 & (Hy1 & Hy2 & Hy3)).
  destruct Hy1 as [Hy1|Hy1].
  - split; [left; reflexivity|]. split; [intros E; lia|]. rewrite Hy1. exact Hy3.
  - assert (Hall : forall e', In e' l' -> elen e' = S k) by (apply Hy2; exact Hy1).
    split; [left; reflexivity|]. split; [intros E; lia|]. rewrite Hy1.
    clear -Hall. induction l' as [|z l IH]; [exact I|]. cbn [levels]. split; [left; apply Hall; left; reflexivity|].
    split; [intros E; rewrite (Hall z (or_introl eq_refl)) in E; lia|apply IH; intros e He; apply Hall; right; exact He].
Qed.

(* a solution (a fitting chain) passes through an active entry that is no longer than the part of the chain before it *)
Definition through (active : list entry) (c : list nat) : Prop :=
  exists pre suf e, c = pre ++ suf /\ In e active /\ elen e <= length pre /\
    chain_fits s (fst (fst e)) suf target (snd e) /\
    ((pre = [] /\ e = (q0, snd (fst e), true)) \/ (exists pre' t, pre = pre' ++ [t] /\ fst (fst e) = start t /\ snd e = false /\ hd_error (snd (fst e)) = Some t)).

Lemma chain_fits_suffix : forall pre q ini t suf,
  chain_fits s q ((pre ++ [t]) ++ suf) target ini -> chain_fits s (start t) suf target false.
Proof.
  induction pre as [|w pre IH]; intros q ini t suf H; cbn [app chain_fits] in H.
  - tauto.
  - destruct H as (_ & _ & _ & H). apply (IH _ _ _ _ H).
Qed.

Lemma wrap_bfs_shortest : forall fuel active seen res,
  Inv active seen -> NoDup seen -> (forall x, In x seen -> x < M) ->
  match active with [] => True | e :: _ => levels (elen e) active end ->
  wrap_bfs s fuel target active seen = Some res ->
  forall c, chain_fits s q0 c target true -> through active c -> length res <= length c.
Proof.
  induction fuel as [|fuel IH]; intros active seen res HI Hnd Hb Hlev H c Hc Hthr; [discriminate|].
  cbn [wrap_bfs] in H. destruct active as [|[[q chain] initial] rest]; [discriminate|].
  destruct (match_type s q target) as [q'|] eqn:Em.
  - inversion H; subst res. rewrite rev_length.
    destruct Hthr as (pre & suf & e & -> & He & Hle & _). rewrite app_length.
    pose proof (levels_ge _ _ Hlev e He) as Hge. unfold elen in Hge at 1. cbn [fst snd] in Hge. lia.
  - destruct (fold_left (stepf chain initial) (cs_next (state_of s q)) ([], seen)) as [added' sn'] eqn:Ef.
    pose proof Ef as Ef'. unfold stepf, entry in Ef'. rewrite Ef' in H. clear Ef'. cbn [fst snd] in H.
    destruct (round_spec q chain initial _ [] seen added' sn' (incl_refl _) Ef Hnd Hb)
      as (Hi & Hn1 & Hb1 & (new & En & Hl & Hnew) & Hback & Hall).
    cbn [app] in En. subst added'.
    assert (Hnewlen : forall e, In e new -> elen e = S (length chain)).
    { intros e He. destruct (Hnew e He) as (t & -> & _). reflexivity. }
    (* the invariant of the completeness proof, for the next round *)
    destruct HI as (H1 & H2 & H3).
    assert (Hdone : DoneState sn' q initial).
    { split; [exact Em|]. intros t (nx & Hin & Hw & Hv). eapply Hall; eauto. }
    assert (HI' : Inv (rest ++ new) sn').
    { split; [|split].
      + intros e He. apply in_app_or in He. destruct He as [He|He].
        * specialize (H1 e (or_intror He)). destruct e as [[qe ce] ie]. cbn [entry_shape] in *.
          destruct H1 as [H1|(Hie & t & r & Hcc & Hq & Ht)]; [left; exact H1|right].
          split; [exact Hie|]. exists t, r. split; [exact Hcc|]. split; [exact Hq|apply Hi; exact Ht].
        * destruct (Hnew e He) as (t & -> & Ht & _). cbn [entry_shape]. right. split; [reflexivity|]. exists t, chain. auto.
      + intros t Ht. destruct (Hback t Ht) as [Hs|(r & Hr)]; [|left; exists r; apply in_or_app; right; exact Hr].
        destruct (H2 t Hs) as [(r & Hr)|Hd]; [|right; eapply DoneState_mono; eauto].
        destruct Hr as [E|Hr]; [|left; exists r; apply in_or_app; left; exact Hr].
        inversion E; subst q chain initial. right. exact Hdone.
      + destruct H3 as [(c0 & [E|Hc0])|H3].
        * inversion E; subst q chain initial. right. exact Hdone.
        * left. exists c0. apply in_or_app. left. exact Hc0.
        * right. eapply DoneState_mono; eauto. }
    assert (Hlev' : match rest ++ new with [] => True | e :: _ => levels (elen e) (rest ++ new) end).
    { pose proof (levels_app_new _ _ new Hlev Hnewlen) as HL. cbn [app] in HL.
      pose proof (levels_tail _ _ _ HL) as HT. exact HT. }
    apply (IH (rest ++ new) sn' res HI' Hn1 Hb1 Hlev' H c Hc).
    (* the solution still passes through an active entry *)
    destruct Hthr as (pre & suf & e & Ec & He & Hle & Hfit & Hpos).
    destruct He as [<-|He].
    2:{ exists pre, suf, e. repeat split; auto. apply in_or_app. left. exact He. }
    cbn [fst snd] in Hfit, Hpos, Hle. unfold elen in Hle. cbn [fst snd] in Hle.
    (* walk along the rest of the solution: its wrappers are visited; the first one still waiting is the witness *)
    assert (Walk : forall suf pre qx inix, c = pre ++ suf -> length chain <= length pre ->
              chain_fits s qx suf target inix -> DoneState sn' qx inix ->
              ((pre = [] /\ qx = q0 /\ inix = true) \/ (exists pre' t, pre = pre' ++ [t] /\ qx = start t /\ inix = false)) ->
              through (rest ++ new) c).
    { clear Ec Hfit Hpos Hle suf pre. induction suf as [|w suf IHs]; intros pre qx inix Ec Hlen Hfit Hd Hpos.
      - cbn [chain_fits] in Hfit. destruct Hfit as (qq & Hm). destruct Hd as [Hn _]. congruence.
      - cbn [chain_fits] in Hfit. destruct Hfit as ((nx & Hm & Hv) & Hlf & Ha & Hrest).
        assert (Hsucc : succ qx inix w).
        { exists nx. split; [apply assoc_nat_In; exact Hm|]. split; [unfold wtype; rewrite Hlf, Ha; reflexivity|].
          destruct Hv as [-> | ->]; [reflexivity|apply orb_true_r]. }
        assert (Hw : In w sn') by (apply Hd; exact Hsucc).
        destruct HI' as (_ & H2' & _). destruct (H2' w Hw) as [(r & Hr)|Hdw].
        + exists (pre ++ [w]), suf, (start w, w :: r, false). split; [rewrite <- app_assoc; exact Ec|]. split; [exact Hr|].
          split.
          * pose proof (levels_bound _ _ (levels_app_new _ _ new Hlev Hnewlen) (start w, w :: r, false) (or_intror Hr)) as Hb2.
            unfold elen in Hb2 |- *. cbn [fst snd] in Hb2 |- *. rewrite app_length. cbn [length] in Hb2 |- *. lia.
          * split; [exact Hrest|]. right. exists pre, w. auto.
        + apply (IHs (pre ++ [w]) (start w) false); auto.
          * rewrite <- app_assoc. exact Ec.
          * rewrite app_length. cbn [length]. lia.
          * right. exists pre, w. auto. }
    apply (Walk suf pre q initial Ec Hle Hfit Hdone).
    destruct Hpos as [(Hp & E)|(pre' & t & Hp & Hq & Hi0 & _)].
    + inversion E; subst. left. auto.
    + right. exists pre', t. auto.
Qed.

Theorem find_wrapping_shortest chain :
  find_wrapping s q0 target = Some chain -> forall c, chain_fits s q0 c target true -> length chain <= length c.
Proof.
  unfold find_wrapping. intros H c Hc.
  assert (HI : Inv [(q0, [], true)] []).
  { split; [|split].
    - intros e [<-|[]]. cbn [entry_shape]. left. auto.
    - intros t [].
    - left. exists []. left. reflexivity. }
  apply (wrap_bfs_shortest (S (S M)) [(q0, [], true)] [] chain HI (NoDup_nil _) (fun x (Hx : In x []) => match Hx with end)); auto.
  - cbn. split; [left; reflexivity|]. split; [intros E; discriminate E|exact I].
  - exists [], c, (q0, [], true). cbn [app fst snd length elen]. repeat split; auto. left; reflexivity.
Qed.

End Search.
End WithSchema.
