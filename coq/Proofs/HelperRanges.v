(* The structure helpers return in-range positions (C12): whatever join_point and insert_point answer lies within
   0 .. size of the document. *)
From Coq Require Import ZArith NArith List Bool Arith Lia.
From PM Require Import Model.Data Model.Mark Model.Tree Model.Resolve Model.StepMap Model.Step Model.StructOps Spec.Tokens
  Proofs.ReplaceValid Proofs.SliceSides Proofs.TokenBasics Proofs.PathTokens Proofs.ReplaceTokens Proofs.Accessors.
Import ListNotations.
Local Open Scope nat_scope.

Section WithSchema.
Variable s : schema.
Notation fsize := (frag_size s).
Notation ftoks := (ftoks s).

Lemma span_bound doc pos r d nd :
  resolve s doc pos = Ok r -> rp_node r (S d) = Ok nd ->
  exists b, rp_before r (S d) = Ok b /\ rp_after s r (S d) = Ok (b + 2 + fsize (node_content nd)) /\
            b + 2 + fsize (node_content nd) <= fsize (node_content doc).
Proof.
  intros Hr Hn. destruct (ancestor_span s doc pos r d nd Hr Hn) as (X & Y & Htk & Hb & _ & _ & Ha & _).
  exists (length X). split; [exact Hb|]. split; [exact Ha|].
  apply (f_equal (@length tok)) in Htk. rewrite ftoks_length in Htk. rewrite Htk.
  rewrite app_length. cbn [length]. rewrite app_length, ftoks_length. cbn [length]. lia.
Qed.

Lemma path_at_le r d x : path_at r d = Some x -> d <= rp_depth r.
Proof.
  unfold path_at, rp_depth. intros H. assert (d < length (rp_path r)) by (apply nth_error_Some; rewrite H; discriminate). lia.
Qed.

Lemma rp_before_in_range doc pos r k p :
  resolve s doc pos = Ok r -> rp_before r k = Ok p -> p <= fsize (node_content doc).
Proof.
  intros Hr H. destruct (resolve_tokens s _ _ _ Hr) as (Hpos & _). pose proof (proj2 (conj I (resolve_spec s _ _ _ Hr))) as Hsp.
  destruct k as [|d]; [discriminate|]. cbn [rp_before] in H.
  destruct (S d =? rp_depth r + 1) eqn:E.
  - inversion H; subst p. destruct Hsp as (Hp & _). rewrite Hp. exact Hpos.
  - apply Nat.eqb_neq in E. unfold rp_offset in H. destruct (path_at r d) as [[[n i] o]|] eqn:Ep; [|discriminate].
    pose proof (path_at_le _ _ _ Ep) as Hd.
    assert (Hex : exists nd, rp_node r (S d) = Ok nd).
    { unfold rp_node, path_at. destruct (nth_error (rp_path r) (S d)) as [[[n' i'] o']|] eqn:En; [eauto|].
      apply nth_error_None in En. unfold rp_depth in *. lia. }
    destruct Hex as (nd & Hn). destruct (span_bound _ _ _ _ _ Hr Hn) as (b & Hb & _ & Hle).
    cbn [rp_before] in Hb. apply Nat.eqb_neq in E. rewrite E in Hb. unfold rp_offset in Hb. rewrite Ep in Hb.
    inversion H; inversion Hb; subst. lia.
Qed.

Lemma rp_after_in_range doc pos r k p :
  resolve s doc pos = Ok r -> rp_after s r k = Ok p -> p <= fsize (node_content doc).
Proof.
  intros Hr H. destruct (resolve_tokens s _ _ _ Hr) as (Hpos & _). pose proof (resolve_spec s _ _ _ Hr) as Hsp.
  destruct k as [|d]; [discriminate|]. cbn [rp_after] in H.
  destruct (S d =? rp_depth r + 1) eqn:E.
  - inversion H; subst p. destruct Hsp as (Hp & _). rewrite Hp. exact Hpos.
  - destruct (rp_offset r d) as [o|] eqn:Eo; [|discriminate]. cbn [bind] in H.
    destruct (rp_node r (S d)) as [nd|] eqn:Hn; [|discriminate]. cbn [bind] in H.
    destruct (span_bound _ _ _ _ _ Hr Hn) as (b & _ & Ha & Hle).
    cbn [rp_after] in Ha. rewrite E, Eo in Ha. cbn [bind] in Ha. rewrite Hn in Ha. cbn [bind] in Ha.
    inversion H; subst p. inversion Ha. lia.
Qed.

(* join_point *)
Lemma join_point_go_in_range doc pos0 r dir : resolve s doc pos0 = Ok r ->
  forall fuel d pos p, pos <= fsize (node_content doc) ->
  join_point_go s fuel r dir d pos = Ok (Some p) -> p <= fsize (node_content doc).
Proof.
  intros Hr. induction fuel as [|fuel IH]; intros d pos p Hpos H; [discriminate|]. cbn [join_point_go] in H.
  destruct (rp_index r d) as [index0|]; [|discriminate]. cbn [bind] in H.
  destruct (rp_node r d) as [nd|]; [|discriminate]. cbn [bind] in H.
  match type of H with (do bai <- ?X; _) = _ => destruct X as [[[before after] index]|]; [|discriminate] end. cbn [bind] in H.
  match type of H with (do ok <- ?X; _) = _ => destruct X as [ok|]; [|discriminate] end. cbn [bind] in H.
  destruct ok; [inversion H; subst p; exact Hpos|].
  destruct d as [|d']; [discriminate|].
  destruct (if dir then rp_after s r (S d') else rp_before r (S d')) as [pos'|] eqn:Ep; [|discriminate]. cbn [bind] in H.
  apply (IH d' pos' p); [|exact H].
  destruct dir; [eapply rp_after_in_range; eauto|eapply rp_before_in_range; eauto].
Qed.

Theorem join_point_in_range doc pos dir p :
  join_point s doc pos dir = Ok (Some p) -> p <= fsize (node_content doc).
Proof.
  unfold join_point. intros H. destruct (resolve s doc pos) as [r|] eqn:Hr; [|discriminate]. cbn [bind] in H.
  destruct (resolve_tokens s _ _ _ Hr) as (Hpos & _).
  eapply join_point_go_in_range; eauto.
Qed.

(* insert_point *)
Lemma insert_point_up_in_range doc pos0 r ty at_start : resolve s doc pos0 = Ok r ->
  forall fuel d p, insert_point_up s fuel r ty at_start d = Ok (Some (Some p)) -> p <= fsize (node_content doc).
Proof.
  intros Hr. induction fuel as [|fuel IH]; intros d p H; [discriminate|]. cbn [insert_point_up] in H.
  destruct (rp_node r d) as [n|]; [|discriminate]. cbn [bind] in H.
  match type of H with (do index <- ?X; _) = _ => destruct X as [index|]; [|discriminate] end. cbn [bind] in H.
  destruct (can_replace_with s n index index ty []) as [c|]; [|discriminate]. cbn [bind] in H.
  destruct c.
  - destruct (if at_start then rp_before r (S d) else rp_after s r (S d)) as [q|] eqn:Eq; [|discriminate]. cbn [bind] in H.
    inversion H; subst p. destruct at_start; [eapply rp_before_in_range; eauto|eapply rp_after_in_range; eauto].
  - destruct (if at_start then 0 <? index else index <? nchildren n); [discriminate|].
    destruct d as [|d']; [discriminate|]. eapply IH; eauto.
Qed.

Theorem insert_point_in_range doc pos ty p :
  insert_point s doc pos ty = Ok (Some p) -> p <= fsize (node_content doc).
Proof.
  unfold insert_point. intros H. destruct (resolve s doc pos) as [r|] eqn:Hr; [|discriminate]. cbn [bind] in H.
  destruct (resolve_tokens s _ _ _ Hr) as (Hpos & _).
  destruct (rp_parent r) as [parent|]; [|discriminate]. cbn [bind] in H.
  destruct (rp_index r (rp_depth r)) as [index|]; [|discriminate]. cbn [bind] in H.
  destruct (can_replace_with s parent index index ty []) as [c|]; [|discriminate]. cbn [bind] in H.
  destruct c; [inversion H; subst p; exact Hpos|].
  match type of H with (do first <- ?X; _) = _ => destruct X as [first|] eqn:E1; [|discriminate] end. cbn [bind] in H.
  destruct first as [ans|].
  - inversion H; subst ans. destruct (rp_parent_offset r =? 0); [|discriminate].
    destruct (rp_depth r) as [|d']; [discriminate|]. eapply insert_point_up_in_range; eauto.
  - match type of H with (do second <- ?X; _) = _ => destruct X as [second|] eqn:E2; [|discriminate] end. cbn [bind] in H.
    destruct second as [ans|]; [|discriminate]. inversion H; subst ans.
    destruct (rp_parent_offset r =? fsize (node_content parent)); [|discriminate].
    destruct (rp_depth r) as [|d']; [discriminate|]. eapply insert_point_up_in_range; eauto.
Qed.

End WithSchema.
