(* Node.slice: the slice cut from a document stands for exactly the tokens in the range, and its open
   sides have the claimed depths (C02's cutting clause; also what ReplaceStep.invert, the mark steps and
   ReplaceAroundStep build their slices from). *)
From Coq Require Import ZArith NArith List Bool Arith Lia.
From PM Require Import Model.Data Model.Mark Model.Tree Spec.Tokens Proofs.DataProofs Proofs.NodeInd
  Proofs.ReplaceValid Proofs.SliceSides Proofs.TokenBasics Proofs.PathTokens Proofs.ReplaceTokens Proofs.SliceShape
  Proofs.SliceTokens.
Import ListNotations.

Section WithSchema.
Variable s : schema.
Notation nsize := (node_size s).
Notation fsize := (frag_size s).
Notation toks := (toks s).
Notation ftoks := (ftoks s).
Notation entry := (node * nat * nat)%type.
Notation opens_l := (opens_l s).
Notation closes_l := (closes_l s).

(* ------------------------------------------------------------------ resolve_in, inverted with all facts *)
Lemma fsize_firstn_app pre (c : node) r : fsize (firstn (length pre) (pre ++ c :: r)) = fsize pre.
Proof. rewrite firstn_app_exact by reflexivity. reflexivity. Qed.

Lemma resolve_in_cases ty a m cs po start p po' :
  resolve_in s (Elem ty a m cs) po start = Ok (p, po') ->
  let n := Elem ty a m cs in
  (exists i, p = [(n, i, start + fsize (firstn i cs))] /\ po' = po /\ i <= length cs /\
     (fsize (firstn i cs) = po \/
      exists t mk, nth_error cs i = Some (Text t mk) /\ fsize (firstn i cs) < po < fsize (firstn i cs) + text_length t)) \/
  (exists i ty1 a1 m1 cs1 rest, nth_error cs i = Some (Elem ty1 a1 m1 cs1) /\ is_leaf_ty s ty1 = false /\
     fsize (firstn i cs) < po < fsize (firstn i cs) + nsize (Elem ty1 a1 m1 cs1) /\
     resolve_in s (Elem ty1 a1 m1 cs1) (po - fsize (firstn i cs) - 1) (start + fsize (firstn i cs) + 1) = Ok (rest, po') /\
     p = (n, i, start + fsize (firstn i cs)) :: rest).
Proof.
  intros H n. rewrite resolve_in_unfold in H. destruct (po =? 0) eqn:Ez.
  { apply Nat.eqb_eq in Ez. subst po. inversion H; subst. left. exists 0. cbn [firstn frag_size].
    rewrite Nat.add_0_r. repeat split; auto; lia. }
  apply Nat.eqb_neq in Ez. fold n in H.
  assert (G : forall l pre, cs = pre ++ l -> fsize pre < po ->
              rwalk s n po start l (length pre) (fsize pre) = Ok (p, po') ->
    (exists i, p = [(n, i, start + fsize (firstn i cs))] /\ po' = po /\ i <= length cs /\
       (fsize (firstn i cs) = po \/
        exists t mk, nth_error cs i = Some (Text t mk) /\ fsize (firstn i cs) < po < fsize (firstn i cs) + text_length t)) \/
    (exists i ty1 a1 m1 cs1 rest, nth_error cs i = Some (Elem ty1 a1 m1 cs1) /\ is_leaf_ty s ty1 = false /\
       fsize (firstn i cs) < po < fsize (firstn i cs) + nsize (Elem ty1 a1 m1 cs1) /\
       resolve_in s (Elem ty1 a1 m1 cs1) (po - fsize (firstn i cs) - 1) (start + fsize (firstn i cs) + 1) = Ok (rest, po') /\
       p = (n, i, start + fsize (firstn i cs)) :: rest)).
  { clear H. induction l as [|c r IHl]; intros pre Hcs Hcur H; [discriminate|]. cbn [rwalk] in H. cbv zeta in H.
    destruct (firstn_length_app pre c r) as (Hfi & Hnth & Hsk). rewrite <- Hcs in Hfi, Hnth, Hsk.
    assert (Hcs2 : cs = (pre ++ [c]) ++ r) by (rewrite <- app_assoc; exact Hcs).
    assert (Hl2 : length (pre ++ [c]) = S (length pre)) by (rewrite app_length; cbn; lia).
    assert (Hf2 : firstn (S (length pre)) cs = pre ++ [c]) by (rewrite Hcs2; apply firstn_app_exact; auto).
    assert (Hfs2 : fsize (pre ++ [c]) = fsize pre + nsize c) by (rewrite frag_size_app; cbn [frag_size]; lia).
    assert (Hlen : S (length pre) <= length cs) by (rewrite Hcs, app_length; cbn; lia).
    destruct (fsize pre + nsize c =? po) eqn:E1.
    - apply Nat.eqb_eq in E1. inversion H; subst p po'. left. exists (S (length pre)).
      rewrite Hf2, Hfs2. repeat split; auto.
    - apply Nat.eqb_neq in E1. destruct (po <? fsize pre + nsize c) eqn:E2.
      + apply Nat.ltb_lt in E2. destruct c as [t mk|ty1 a1 m1 cs1].
        * inversion H; subst p po'. left. exists (length pre). rewrite Hfi.
          repeat split; auto; [lia|]. right. exists t, mk. split; [exact Hnth|]. cbn [node_size] in E2. lia.
        * destruct (resolve_in s (Elem ty1 a1 m1 cs1) (po - fsize pre - 1) (start + fsize pre + 1)) as [[p1 pp1]|] eqn:E; [|discriminate].
          cbn [bind fst snd] in H. inversion H; subst p po'. right.
          exists (length pre), ty1, a1, m1, cs1, p1. rewrite Hfi.
          assert (Hnl : is_leaf_ty s ty1 = false).
          { pose proof (node_size_elem s ty1 a1 m1 cs1) as Hs. destruct (is_leaf_ty s ty1); [|reflexivity]. lia. }
          repeat split; auto; lia.
      + apply Nat.ltb_ge in E2. apply (IHl (pre ++ [c])); [exact Hcs2| rewrite Hfs2; lia |].
        rewrite Hl2, Hfs2. exact H. }
  apply (G cs []); auto. cbn. lia.
Qed.

(* ------------------------------------------------------------------ open tokens around a position, by index *)
Lemma opens_l_skip pre l : forall pos p, pos + fsize pre <= p -> opens_l (pre ++ l) pos p = opens_l l (pos + fsize pre) p.
Proof.
  induction pre as [|c r IH]; intros pos p H; cbn [app frag_size] in *; [rewrite Nat.add_0_r; reflexivity|].
  rewrite opens_cons_outside by lia. rewrite IH by lia. f_equal. lia.
Qed.

Lemma split_at_index (cs : list node) i c : nth_error cs i = Some c -> cs = firstn i cs ++ c :: skipn (S i) cs.
Proof. intros H. rewrite <- (firstn_skipn i cs) at 1. rewrite (skipn_nth_cons _ _ _ H). reflexivity. Qed.

Lemma opens_at_inside cs i ty1 a1 m1 cs1 p :
  nth_error cs i = Some (Elem ty1 a1 m1 cs1) -> is_leaf_ty s ty1 = false ->
  fsize (firstn i cs) < p < fsize (firstn i cs) + nsize (Elem ty1 a1 m1 cs1) ->
  opens_l cs 0 p = TOpen ty1 a1 m1 :: opens_l cs1 0 (p - fsize (firstn i cs) - 1).
Proof.
  intros Hn Hl Hp. rewrite (split_at_index _ _ _ Hn) at 1. rewrite opens_l_skip by lia. cbn [Nat.add].
  apply opens_cons_inside; auto; lia.
Qed.
Lemma opens_at_boundary cs i p : i <= length cs -> fsize (firstn i cs) = p -> opens_l cs 0 p = [].
Proof.
  intros Hi Hp. rewrite <- (firstn_skipn i cs). rewrite opens_l_skip by lia. apply opens_l_before. lia.
Qed.
Lemma opens_at_text cs i t mk p :
  nth_error cs i = Some (Text t mk) -> fsize (firstn i cs) < p < fsize (firstn i cs) + text_length t ->
  opens_l cs 0 p = [].
Proof.
  intros Hn Hp. rewrite (split_at_index _ _ _ Hn) at 1. rewrite opens_l_skip by lia. cbn [Nat.add].
  apply opens_cons_text. cbn [node_size]. lia.
Qed.

(* the depth of a resolved position = the number of nodes it lies strictly inside *)
Lemma resolve_in_opens : forall n po start p po',
  resolve_in s n po start = Ok (p, po') -> length p = S (length (opens_l (node_content n) 0 po)).
Proof.
  induction n as [t mk|ty a m cs IH] using node_ind2; intros po start p po' H; [discriminate|].
  cbn [node_content].
  destruct (resolve_in_cases _ _ _ _ _ _ _ _ H) as
    [(i & -> & _ & Hi & [Hb|(t & mk & Hn & Hp)])|(i & ty1 & a1 & m1 & cs1 & rest & Hn & Hl & Hp & Hr & ->)].
  - rewrite (opens_at_boundary _ _ _ Hi Hb). reflexivity.
  - rewrite (opens_at_text _ _ _ _ _ Hn Hp). reflexivity.
  - rewrite (opens_at_inside _ _ _ _ _ _ _ Hn Hl Hp). cbn [length]. f_equal.
    apply (IH _ (nth_error_In _ _ Hn) _ _ _ _ Hr).
Qed.

(* ------------------------------------------------------------------ the d-th node of a resolved path *)
Lemma resolve_in_nth : forall d n po start p po',
  resolve_in s n po start = Ok (p, po') -> forall nd i o, nth_error p d = Some (nd, i, o) ->
  exists st X Y,
    resolve_in s nd (start + po - st) st = Ok (skipn d p, po') /\
    start <= st /\ st <= start + po /\ start + po <= st + fsize (node_content nd) /\
    ftoks (node_content n) = X ++ ftoks (node_content nd) ++ Y /\ length X = st - start /\
    match d with
    | 0 => st = start
    | S d' => exists n' i' o', nth_error p d' = Some (n', i', o') /\ st = o' + 1
    end /\
    (forall q, st <= start + q -> start + q <= st + fsize (node_content nd) ->
       opens_l (node_content n) 0 q =
         firstn d (opens_l (node_content n) 0 po) ++ opens_l (node_content nd) 0 (start + q - st)).
Proof.
  induction d as [|d' IHd]; intros n po start p po' H nd i o Hnth.
  - destruct (resolve_in_spec s _ _ _ _ _ H) as ((i0 & o0 & rest & ->) & _ & _). cbn in Hnth. inversion Hnth; subst nd i0 o0.
    destruct (resolve_in_tokens s _ _ _ _ _ H) as (Hle & _).
    exists start, [], []. replace (start + po - start) with po by lia. cbn [skipn app firstn length].
    rewrite app_nil_r. repeat split; auto; try lia.
    intros q _ _. f_equal. lia.
  - destruct n as [t mk|ty a m cs]; [discriminate|]. cbn [node_content].
    destruct (resolve_in_cases _ _ _ _ _ _ _ _ H) as
      [(i0 & -> & _)|(i0 & ty1 & a1 & m1 & cs1 & rest & Hn & Hl & Hp & Hr & ->)].
    { cbn in Hnth. destruct d'; discriminate. }
    cbn [nth_error] in Hnth. set (cur := fsize (firstn i0 cs)) in *.
    destruct (IHd _ _ _ _ _ Hr _ _ _ Hnth) as (st & X' & Y' & Hres & Hb1 & Hb2 & Hb3 & Htk & HlX & Hm & Hop).
    cbn [node_content] in *.
    pose proof (node_size_elem s ty1 a1 m1 cs1) as Hsz. rewrite Hl in Hsz.
    assert (Hfit : st - (start + cur + 1) + fsize (node_content nd) <= fsize cs1).
    { apply (f_equal (@length tok)) in Htk. rewrite !app_length, !ftoks_length in Htk. lia. }
    exists st, (ftoks (firstn i0 cs) ++ TOpen ty1 a1 m1 :: X'), (Y' ++ TClose :: ftoks (skipn (S i0) cs)).
    split; [|split; [|split; [|split; [|split; [|split; [|split]]]]]].
    + replace (start + po - st) with (start + cur + 1 + (po - cur - 1) - st) by lia. exact Hres.
    + lia.
    + lia.
    + lia.
    + rewrite (ftoks_split_at s _ _ _ Hn). rewrite toks_elem, Hl, Htk. rewrite <- !app_assoc. cbn [app].
      rewrite <- !app_assoc. reflexivity.
    + rewrite app_length, ftoks_length. cbn [length]. fold cur. lia.
    + destruct d' as [|d''].
      * exists (Elem ty a m cs), i0, (start + cur). split; [reflexivity|]. lia.
      * destruct Hm as (n' & i' & o' & Hn' & Hst). exists n', i', o'. split; [exact Hn'|exact Hst].
    + intros q Hq1 Hq2.
      rewrite (opens_at_inside cs i0 ty1 a1 m1 cs1 q Hn Hl) by (fold cur; lia).
      rewrite (opens_at_inside cs i0 ty1 a1 m1 cs1 po Hn Hl) by (fold cur; lia).
      cbn [firstn app]. f_equal. fold cur.
      rewrite (Hop (q - cur - 1)) by lia. f_equal. f_equal. lia.
Qed.

(* ------------------------------------------------------------------ the shape of a cut *)
Notation ShapeL := (ShapeL s).
Notation ShapeR := (ShapeR s).
Notation Shape := (Shape s).

Lemma Shape_LR : forall os oe l, Shape l os oe -> ShapeL l os /\ ShapeR l oe.
Proof.
  induction os as [|a IH]; intros oe l H; cbn [SliceShape.Shape] in H.
  - split; [exact I|exact H].
  - destruct oe as [|b]; [split; [exact H|exact I]|].
    destruct H as [(ty & at_ & m & cs & -> & Hn & Hs)|(ty1 & a1 & m1 & cs1 & mid & ty2 & a2 & m2 & cs2 & -> & Hn1 & Hn2 & Hl & Hr)].
    + destruct (IH _ _ Hs) as [HL HR]. split; [cbn; auto|]. exists [], ty, at_, m, cs. auto.
    + split; [cbn; auto|]. exists (Elem ty1 a1 m1 cs1 :: mid), ty2, a2, m2, cs2. auto.
Qed.

Lemma Shape_combine l os oe :
  ShapeL l os -> ShapeR l oe ->
  (forall ty a m cs, l = [Elem ty a m cs] -> 0 < os -> 0 < oe -> Shape cs (os - 1) (oe - 1)) ->
  Shape l os oe.
Proof.
  intros HL HR Hone. destruct os as [|a]; [exact HR|]. destruct oe as [|b]; [exact HL|].
  cbn [SliceShape.Shape]. cbn [SliceShape.ShapeL] in HL. destruct l as [|[t mk|ty1 a1 m1 cs1] r]; try contradiction.
  destruct HL as (Hn1 & HL). destruct HR as (r' & ty2 & a2 & m2 & cs2 & E & Hn2 & HR).
  destruct r as [|x r].
  - left. destruct r' as [|y r']; [|destruct r'; discriminate]. inversion E; subst.
    exists ty2, a2, m2, cs2. split; [reflexivity|]. split; [exact Hn2|].
    specialize (Hone _ _ _ _ eq_refl ltac:(lia) ltac:(lia)). cbn in Hone. rewrite !Nat.sub_0_r in Hone. exact Hone.
  - right. destruct r' as [|y r']; [discriminate|]. inversion E; subst y.
    exists ty1, a1, m1, cs1, r', ty2, a2, m2, cs2. rewrite H1. auto.
Qed.

Lemma ShapeR_cons c l k : ShapeR l k -> (k = 0 \/ l <> []) -> ShapeR (c :: l) k.
Proof.
  destruct k as [|k]; [intros; exact I|]. intros (r & ty & a & m & cs & -> & Hn & Hr) _.
  exists (c :: r), ty, a, m, cs. auto.
Qed.
Lemma ShapeR_nonempty l k : ShapeR l (S k) -> l <> [].
Proof. intros (r & ty & a & m & cs & -> & _) E. destruct r; discriminate. Qed.

Definition NodeCutShape (n : node) : Prop :=
  forall ty at_ m cs, n = Elem ty at_ m cs -> is_leaf_ty s ty = false ->
  forall a b n', a <= b -> b <= fsize cs -> (a = b -> a = 0 \/ a = fsize cs) ->
    node_cut s n a b = Ok n' ->
    exists cs', n' = Elem ty at_ m cs' /\ Shape cs' (length (opens_l cs 0 a)) (length (opens_l cs 0 b)).

Lemma frag_cut_go_nil r e from to : to <= e -> frag_cut_go s r e from to = Ok [].
Proof.
  intros H. destruct r; cbn [frag_cut_go]; replace (e <? to) with false by (symmetry; apply Nat.ltb_ge; lia); reflexivity.
Qed.

Lemma cut_go_shape : forall l, (forall c, In c l -> NodeCutShape c) ->
  forall pos from to l', from < to -> frag_cut_go s l pos from to = Ok l' ->
  let os := length (opens_l l pos from) in
  let oe := length (opens_l l pos to) in
  ShapeL l' os /\ ShapeR l' oe /\
  (forall ty a m cs', l' = [Elem ty a m cs'] -> 0 < os -> 0 < oe -> Shape cs' (os - 1) (oe - 1)).
Proof.
  induction l as [|c r IH]; intros Hl pos from to l' Hft H; cbn [frag_cut_go] in H.
  - cbn. repeat split; auto; intros; lia.
  - destruct (pos <? to) eqn:Ept.
    2:{ apply Nat.ltb_ge in Ept. inversion H; subst. rewrite !opens_l_before by lia. cbn. repeat split; auto; intros; lia. }
    apply Nat.ltb_lt in Ept. cbv zeta in H.
    assert (IHr : forall pos from to l', from < to -> frag_cut_go s r pos from to = Ok l' ->
              let os := length (opens_l r pos from) in
              let oe := length (opens_l r pos to) in
              ShapeL l' os /\ ShapeR l' oe /\
              (forall ty a m cs', l' = [Elem ty a m cs'] -> 0 < os -> 0 < oe -> Shape cs' (os - 1) (oe - 1))).
    { apply IH. intros c0 Hc0. apply Hl. right. exact Hc0. }
    set (e := pos + nsize c) in *.
    destruct (from <? e) eqn:Efe.
    2:{ apply Nat.ltb_ge in Efe. rewrite !(opens_cons_outside s c r) by (fold e; lia). fold e. apply IHr; auto. }
    apply Nat.ltb_lt in Efe.
    (* what follows the first child of the result *)
    assert (Hrest : forall rest, frag_cut_go s r e from to = Ok rest ->
              ShapeR rest (length (opens_l r e to)) /\ (to <= e -> rest = [])).
    { intros rest Hr. split; [apply (IHr _ _ _ _ Hft Hr)|]. intros Hte. rewrite frag_cut_go_nil in Hr by exact Hte. inversion Hr. reflexivity. }
    destruct (match c with Text _ _ => true | Elem ty _ _ _ => is_leaf_ty s ty end) eqn:Eflat.
    + (* a text or leaf child: no position of it adds an open token *)
      assert (Ho : forall p, opens_l (c :: r) pos p = if p <? e then [] else opens_l r e p).
      { intros p. destruct (p <? e) eqn:Epe.
        - apply Nat.ltb_lt in Epe. destruct (Nat.lt_ge_cases pos p) as [Hp|Hp].
          + destruct c as [t mk|ty a m cc]; [apply opens_cons_text; fold e; lia|].
            cbn [SliceTokens.opens_l]. cbv zeta. fold e.
            replace (pos <? p) with true by (symmetry; apply Nat.ltb_lt; lia).
            replace (p <? e) with true by (symmetry; apply Nat.ltb_lt; lia). cbn [andb]. rewrite Eflat. reflexivity.
          + rewrite opens_cons_outside by lia. apply opens_l_before. fold e. lia.
        - apply Nat.ltb_ge in Epe. apply opens_cons_outside. fold e. lia. }
      rewrite !Ho. replace (from <? e) with true by (symmetry; apply Nat.ltb_lt; lia). cbn [length].
      destruct (_ : res node) as [c'|] in H; [|discriminate]. cbn [bind] in H.
      destruct (frag_cut_go s r e from to) as [rest|] eqn:Er; [|discriminate]. cbn [bind] in H. inversion H; subst l'.
      destruct (Hrest _ eq_refl) as (HR & Hnil).
      split; [exact I|]. split; [|intros; lia].
      destruct (to <? e) eqn:Ete; [exact I|]. apply ShapeR_cons; [exact HR|].
      destruct (length (opens_l r e to)) eqn:Ek; [left; reflexivity|right]. eapply ShapeR_nonempty. exact HR.
    + (* a non-leaf element child *)
      destruct c as [t mk|ty a m cc]; [discriminate|].
      assert (Hs : nsize (Elem ty a m cc) = 2 + fsize cc) by (rewrite node_size_elem, Eflat; reflexivity).
      assert (He : e = pos + (2 + fsize cc)) by (unfold e; lia).
      assert (Hspec := Hl _ (or_introl eq_refl) ty a m cc eq_refl Eflat).
      destruct ((pos <? from) || (to <? e)) eqn:Ecut.
      * destruct (node_cut s (Elem ty a m cc) (from - pos - 1) (Nat.min (fsize cc) (to - pos - 1))) as [c'|] eqn:Ec; [|discriminate].
        cbn [bind] in H. destruct (frag_cut_go s r e from to) as [rest|] eqn:Er; [|discriminate].
        cbn [bind] in H. inversion H; subst l'.
        destruct (Hrest _ eq_refl) as (HR & Hnil).
        destruct (Hspec (from - pos - 1) (Nat.min (fsize cc) (to - pos - 1)) c' ltac:(lia) ltac:(lia) ltac:(lia) Ec)
          as (cs' & -> & Hsh).
        destruct (Shape_LR _ _ _ Hsh) as (HshL & HshR).
        (* the open tokens at the two ends, in terms of the child *)
        assert (HoF : opens_l (Elem ty a m cc :: r) pos from =
                      if pos <? from then TOpen ty a m :: opens_l cc 0 (from - pos - 1) else []).
        { destruct (pos <? from) eqn:Epf.
          - apply Nat.ltb_lt in Epf. apply opens_cons_inside; auto; lia.
          - apply Nat.ltb_ge in Epf. rewrite opens_cons_outside by lia. apply opens_l_before. fold e. lia. }
        assert (HoT : opens_l (Elem ty a m cc :: r) pos to =
                      if to <? e then TOpen ty a m :: opens_l cc 0 (to - pos - 1) else opens_l r e to).
        { destruct (to <? e) eqn:Ete.
          - apply Nat.ltb_lt in Ete. apply opens_cons_inside; auto; lia.
          - apply Nat.ltb_ge in Ete. apply opens_cons_outside. fold e. lia. }
        rewrite HoF, HoT.
        assert (HminT : to < e -> Nat.min (fsize cc) (to - pos - 1) = to - pos - 1) by (intros; apply Nat.min_r; lia).
        assert (HminE : e <= to -> length (opens_l cc 0 (Nat.min (fsize cc) (to - pos - 1))) = 0).
        { intros Hte. rewrite Nat.min_l by lia. rewrite opens_l_after by lia. reflexivity. }
        assert (HfromO : from <= pos -> length (opens_l cc 0 (from - pos - 1)) = 0).
        { intros Hfp. replace (from - pos - 1) with 0 by lia. rewrite opens_l_before by lia. reflexivity. }
        split; [|split].
        -- destruct (pos <? from) eqn:Epf; [|exact I]. cbn [length SliceShape.ShapeL]. split; [exact Eflat|exact HshL].
        -- destruct (to <? e) eqn:Ete.
           ++ apply Nat.ltb_lt in Ete. rewrite (Hnil ltac:(lia)). cbn [length]. exists [], ty, a, m, cs'.
              split; [reflexivity|]. split; [exact Eflat|]. rewrite (HminT Ete) in HshR. exact HshR.
           ++ apply ShapeR_cons; [exact HR|].
              destruct (length (opens_l r e to)) eqn:Ek; [left; reflexivity|right]. eapply ShapeR_nonempty. exact HR.
        -- intros ty0 a0 m0 cs0 E Hos Hoe. inversion E; subst ty0 a0 m0 cs0. subst rest.
           destruct (pos <? from) eqn:Epf; [|cbn in Hos; lia].
           destruct (to <? e) eqn:Ete.
           ++ apply Nat.ltb_lt in Ete. cbn [length Nat.sub]. rewrite !Nat.sub_0_r.
              rewrite (HminT Ete) in Hsh. exact Hsh.
           ++ exfalso. destruct (length (opens_l r e to)) eqn:Ek; [lia|]. eapply ShapeR_nonempty; [exact HR|reflexivity].
      * (* wholly inside the range *)
        apply orb_false_elim in Ecut. destruct Ecut as [Ec1 Ec2]. apply Nat.ltb_ge in Ec1, Ec2.
        cbn [bind] in H. destruct (frag_cut_go s r e from to) as [rest|] eqn:Er; [|discriminate].
        cbn [bind] in H. inversion H; subst l'. destruct (Hrest _ eq_refl) as (HR & Hnil).
        rewrite !(opens_cons_outside s _ r) by (fold e; lia). fold e.
        rewrite (opens_l_before s r e from) by lia. cbn [length].
        split; [exact I|]. split; [|intros; lia].
        apply ShapeR_cons; [exact HR|].
        destruct (length (opens_l r e to)) eqn:Ek; [left; reflexivity|right]. eapply ShapeR_nonempty. exact HR.
Qed.

Lemma cut_go_Shape l pos from to l' :
  (forall c, In c l -> NodeCutShape c) -> from < to -> frag_cut_go s l pos from to = Ok l' ->
  Shape l' (length (opens_l l pos from)) (length (opens_l l pos to)).
Proof.
  intros Hl Hft H. destruct (cut_go_shape l Hl pos from to l' Hft H) as (HL & HR & H1).
  apply Shape_combine; auto.
Qed.

Theorem node_cut_shape : forall n, NodeCutShape n.
Proof.
  induction n as [t m|ty a m cs IH] using node_ind2; intros ty' at' m' cs' Heq Hleaf a0 b n' Hab Hb Heqab H; [discriminate|].
  inversion Heq; subst ty' at' m' cs'. clear Heq.
  rewrite node_cut_unfold in H.
  destruct ((a0 =? 0) && (b =? fsize cs)) eqn:E.
  - apply andb_prop in E. destruct E as [E1 E2]. apply Nat.eqb_eq in E1, E2. subst a0 b. inversion H; subst n'.
    exists cs. split; [reflexivity|]. rewrite opens_l_before, opens_l_after by lia. exact I.
  - destruct (b <=? a0) eqn:Eb.
    + apply Nat.leb_le in Eb. assert (a0 = b) by lia. subst b. inversion H; subst n'. exists []. split; [reflexivity|].
      destruct (Heqab eq_refl) as [->| ->]; [rewrite !opens_l_before by lia|rewrite !opens_l_after by lia]; exact I.
    + apply Nat.leb_gt in Eb. destruct (frag_cut_go s cs 0 a0 b) as [cs'|] eqn:Ec; [|discriminate]. cbn [bind] in H.
      inversion H; subst n'. exists cs'. split; [reflexivity|]. apply (cut_go_Shape cs 0 a0 b cs' IH Eb Ec).
Qed.

Theorem frag_cut_shape l from to l' :
  from < to -> frag_cut s l from to = Ok l' ->
  Shape l' (length (opens_l l 0 from)) (length (opens_l l 0 to)).
Proof.
  intros Hft H. unfold frag_cut in H. destruct ((from =? 0) && (to =? fsize l)) eqn:E.
  - apply andb_prop in E. destruct E as [E1 E2]. apply Nat.eqb_eq in E1, E2. subst from to. inversion H; subst l'.
    rewrite opens_l_before, opens_l_after by lia. exact I.
  - destruct (to <=? from) eqn:El; [apply Nat.leb_le in El; lia|].
    apply (cut_go_Shape l 0 from to l' (fun c _ => node_cut_shape c) Hft H).
Qed.

(* ------------------------------------------------------------------ Node.slice *)
Lemma shared_depth_go_spec r pos : forall k d,
  shared_depth_go s r pos k = Ok d ->
  d <= k /\ (d = 0 \/ exists st en, rp_start r d = Ok st /\ rp_end s r d = Ok en /\ st <= pos /\ pos <= en).
Proof.
  induction k as [|k IH]; intros d H; cbn [shared_depth_go] in H.
  - inversion H; subst. split; [lia|left; reflexivity].
  - destruct (rp_start r (S k)) as [st|] eqn:Es; [|discriminate]. cbn [bind] in H.
    destruct (rp_end s r (S k)) as [en|] eqn:Ee; [|discriminate]. cbn [bind] in H.
    destruct ((st <=? pos) && (pos <=? en)) eqn:E.
    + inversion H; subst d. apply andb_prop in E. destruct E as [E1 E2]. apply Nat.leb_le in E1, E2.
      split; [lia|]. right. exists st, en. auto.
    + destruct (IH _ H) as (Hle & Hd). split; [lia|exact Hd].
Qed.

Lemma seg_in_middle {A} (X F Y : list A) a b :
  length X <= a -> a <= b -> b <= length X + length F ->
  seg (X ++ F ++ Y) a b = seg F (a - length X) (b - length X).
Proof.
  intros H1 H2 H3. unfold seg. rewrite skipn_app_in by lia. rewrite skipn_app.
  rewrite firstn_app. rewrite skipn_length.
  replace (b - a - (length F - (a - length X))) with 0 by lia. cbn [firstn]. rewrite app_nil_r. f_equal. lia.
Qed.

Theorem node_slice_toks doc from to sl :
  from <= to -> node_slice s doc from to = Ok sl ->
  Shape (sl_content sl) (sl_open_start sl) (sl_open_end sl) /\
  inner_toks s sl = seg (ftoks (node_content doc)) from to.
Proof.
  intros Hft H. unfold node_slice in H. destruct (from =? to) eqn:Eft.
  { apply Nat.eqb_eq in Eft. subst to. inversion H; subst sl. split; [exact I|]. rewrite seg_nil by lia. reflexivity. }
  apply Nat.eqb_neq in Eft. assert (Hlt : from < to) by lia. clear Eft Hft.
  destruct (resolve s doc from) as [rf|] eqn:Ef; [|discriminate]. cbn [bind] in H.
  destruct (resolve s doc to) as [rt|] eqn:Et; [|discriminate]. cbn [bind] in H.
  destruct (shared_depth s rf to) as [d|] eqn:Ed; [|discriminate]. cbn [bind] in H.
  destruct (rp_start rf d) as [st0|] eqn:Es; [|discriminate]. cbn [bind] in H.
  destruct (rp_node rf d) as [n|] eqn:En; [|discriminate]. cbn [bind] in H.
  destruct (frag_cut s (node_content n) (from - st0) (to - st0)) as [content|] eqn:Ec; [|discriminate]. cbn [bind] in H.
  inversion H; subst sl. clear H. cbn [sl_content sl_open_start sl_open_end].
  (* the two resolved paths *)
  unfold resolve in Ef, Et.
  destruct (fsize (node_content doc) <? from); [discriminate|]. destruct (fsize (node_content doc) <? to); [discriminate|].
  destruct (resolve_in s doc from 0) as [[pf qf]|] eqn:Rf; [|discriminate].
  destruct (resolve_in s doc to 0) as [[pt qt]|] eqn:Rt; [|discriminate].
  cbn [bind fst snd] in Ef, Et. inversion Ef; subst rf. inversion Et; subst rt. clear Ef Et.
  unfold rp_depth in *. cbn [rp_path] in *.
  pose proof (resolve_in_opens _ _ _ _ _ Rf) as Lf. pose proof (resolve_in_opens _ _ _ _ _ Rt) as Lt.
  destruct (resolve_in_tokens s _ _ _ _ _ Rt) as (Hto & _).
  (* the node at the shared depth *)
  unfold rp_node, path_at in En. cbn [rp_path] in En.
  destruct (nth_error pf d) as [[[nd i] o]|] eqn:Enth; [|discriminate]. inversion En; subst nd. clear En.
  destruct (resolve_in_nth d _ _ _ _ _ Rf _ _ _ Enth) as (st & X & Y & Hres & Hb1 & Hb2 & Hb3 & Htk & HlX & Hm & Hop).
  cbn [Nat.add] in *.
  assert (Hst : st0 = st).
  { destruct d as [|d']; cbn [rp_start] in Es.
    - inversion Es; subst. lia.
    - destruct Hm as (n' & i' & o' & Hn' & ->). unfold rp_offset, path_at in Es. cbn [rp_path] in Es. rewrite Hn' in Es.
      cbn [bind] in Es. inversion Es. reflexivity. }
  subst st0.
  assert (Hin : st <= to /\ to <= st + fsize (node_content n)).
  { destruct (shared_depth_go_spec _ _ _ _ Ed) as (Hdk & [->|(st1 & en & Hs1 & He1 & Hle1 & Hle2)]).
    - destruct (resolve_in_spec s _ _ _ _ _ Rf) as ((i0 & o0 & rest & ->) & _ & _). cbn in Enth. inversion Enth; subst.
      lia.
    - unfold rp_end in He1. rewrite Hs1 in He1. cbn [bind] in He1.
      unfold rp_node, path_at in He1. cbn [rp_path] in He1. rewrite Enth in He1. cbn [bind] in He1. inversion He1; subst en.
      rewrite Es in Hs1. inversion Hs1; subst st1. lia. }
  destruct Hin as (Hin1 & Hin2).
  pose proof (Hop from Hb2 Hb3) as HopF. pose proof (Hop to Hin1 Hin2) as HopT.
  assert (Hd : d <= length (opens_l (node_content doc) 0 from)).
  { assert (d < length pf) by (apply nth_error_Some; rewrite Enth; discriminate). lia. }
  assert (LF : length (opens_l (node_content n) 0 (from - st)) = length pf - 1 - d).
  { apply (f_equal (@length tok)) in HopF. rewrite app_length, firstn_length in HopF. lia. }
  assert (LT : length (opens_l (node_content n) 0 (to - st)) = length pt - 1 - d).
  { apply (f_equal (@length tok)) in HopT. rewrite app_length, firstn_length in HopT. lia. }
  split.
  - rewrite <- LF, <- LT. apply frag_cut_shape; [lia|exact Ec].
  - assert (Hle' : from - st <= to - st) by lia. assert (Hlt' : from - st < to - st) by lia.
    destruct (frag_cut_toks_gen s _ _ _ _ Hle' Ec) as (_ & Hcut). specialize (Hcut Hlt').
    unfold inner_toks. cbn [sl_content sl_open_start sl_open_end]. rewrite Hcut.
    unfold SliceTokens.closes_l. rewrite <- LF, <- LT.
    rewrite skipn_app_exact by reflexivity. rewrite !app_length, repeat_length.
    set (S1 := seg (ftoks (node_content n)) (from - st) (to - st)).
    replace (length (opens_l (node_content n) 0 (from - st)) + (length S1 + length (opens_l (node_content n) 0 (to - st))) -
             length (opens_l (node_content n) 0 (from - st)) - length (opens_l (node_content n) 0 (to - st))) with (length S1) by lia.
    rewrite firstn_app_exact by reflexivity. unfold S1.
    rewrite Htk. rewrite seg_in_middle by (rewrite ?ftoks_length; lia). rewrite HlX, Nat.sub_0_r. reflexivity.
Qed.

End WithSchema.
