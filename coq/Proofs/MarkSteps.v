(* Mark steps (AddMarkStep, RemoveMarkStep) on the flat token sequence, part 1: they change nothing but the
   marks of tokens inside the range — every token outside [from, to) is identical, and inside the range the
   tokens keep their kind, node type, attributes and characters (C13; C03 for the empty map). *)
From Coq Require Import ZArith NArith List Bool Arith Lia.
From PM Require Import Model.Data Model.Mark Model.Tree Model.Resolve Model.StepMap Model.Step Spec.Tokens
  Proofs.ReplaceValid Proofs.SliceSides Proofs.TokenBasics Proofs.PathTokens Proofs.ReplaceTokens Proofs.SliceShape
  Proofs.StepFaithful Proofs.SliceTokens Proofs.SliceCut Proofs.TokenLaws Proofs.StepAlgebra Proofs.StepTokens
  Proofs.AroundTokens Proofs.NodeInd.
Import ListNotations.
Local Open Scope nat_scope.

(* a token without its marks *)
Definition sh (t : tok) : tok :=
  match t with
  | TOpen ty a _ => TOpen ty a []
  | TClose => TClose
  | TLeaf ty a _ => TLeaf ty a []
  | TChar u _ => TChar u []
  end.
Definition shs (l : list tok) : list tok := List.map sh l.

Lemma shs_app a b : shs (a ++ b) = shs a ++ shs b.
Proof. apply map_app. Qed.

Section WithSchema.
Variable s : schema.
Notation nsize := (node_size s).
Notation fsize := (frag_size s).
Notation toks := (toks s).
Notation ftoks := (ftoks s).
Notation V := (V s).
Notation DT := (DT s).
Notation IT := (IT s).
Notation ShapeL := (ShapeL s).
Notation ShapeR := (ShapeR s).
Notation Shape := (Shape s).

(* a function that only re-marks nodes *)
Definition MarkOnly (f : node -> node -> node) : Prop := forall n p, exists ms, f n p = node_mark n ms.

Lemma add_mark_f_MarkOnly m : MarkOnly (add_mark_f s m).
Proof.
  intros n p. unfold add_mark_f. destruct (negb _ || negb _); [|eauto].
  exists (node_marks n). destruct n; reflexivity.
Qed.
Lemma remove_mark_f_MarkOnly m : MarkOnly (remove_mark_f m).
Proof. intros n p. unfold remove_mark_f. eauto. Qed.

Lemma shs_toks_node_mark n ms : shs (toks (node_mark n ms)) = shs (toks n).
Proof.
  destruct n as [t mk|ty a m cs]; cbn [node_mark].
  - cbn [Tokens.toks]. unfold shs. rewrite !map_map. reflexivity.
  - rewrite !toks_elem. destruct (is_leaf_ty s ty); reflexivity.
Qed.

Lemma shs_text t m : shs (toks (Text t m)) = List.map (fun u => TChar u []) (units t).
Proof. cbn [Tokens.toks]. unfold shs. rewrite map_map. reflexivity. Qed.

(* Fragment.from_array only merges text *)
Lemma join_text_shs x acc : shs (ftoks (join_text x acc)) = shs (toks x) ++ shs (ftoks acc).
Proof.
  unfold join_text. destruct x as [t m|ty a mk cs]; [|cbn [Tokens.ftoks]; apply shs_app].
  destruct acc as [|[t' m'|? ? ? ?] rest]; try (cbn [Tokens.ftoks]; apply shs_app).
  destruct (marks_eqb m m'); [|cbn [Tokens.ftoks]; apply shs_app].
  cbn [Tokens.ftoks]. rewrite !shs_app, !shs_text, units_app, map_app, <- app_assoc. reflexivity.
Qed.
Lemma from_array_shs l : shs (ftoks (from_array l)) = shs (ftoks l).
Proof.
  unfold from_array. induction l as [|x l IH]; [reflexivity|]. cbn [fold_right Tokens.ftoks].
  rewrite join_text_shs, IH, shs_app. reflexivity.
Qed.

Lemma node_size_node_mark n ms : nsize (node_mark n ms) = nsize n.
Proof. destruct n; reflexivity. Qed.

Lemma map_node_shs f : MarkOnly f -> forall n parent, shs (toks (map_node s f parent n)) = shs (toks n).
Proof.
  intros Hf. induction n as [t m|ty a m cs IH] using node_ind2; intros parent.
  - cbn [map_node]. destruct (is_inline_ty s (node_ty s (Text t m))); [|reflexivity].
    destruct (Hf (Text t m) parent) as (ms & ->). apply shs_toks_node_mark.
  - assert (Hn1 : forall n1, n1 = (if fsize cs =? 0 then Elem ty a m cs
                                   else Elem ty a m (from_array (List.map (map_node s f (Elem ty a m cs)) cs))) ->
                  shs (toks n1) = shs (toks (Elem ty a m cs))).
    { intros n1 ->. destruct (fsize cs =? 0); [reflexivity|]. rewrite !toks_elem. destruct (is_leaf_ty s ty); [reflexivity|].
      cbn [shs List.map]. fold (shs (ftoks (from_array (List.map (map_node s f (Elem ty a m cs)) cs)) ++ [TClose])).
      change (sh (TOpen ty a m) :: shs (ftoks (from_array (List.map (map_node s f (Elem ty a m cs)) cs)) ++ [TClose]) =
              sh (TOpen ty a m) :: shs (ftoks cs ++ [TClose])).
      f_equal. rewrite !shs_app. f_equal. rewrite from_array_shs.
      generalize (Elem ty a m cs) as P. intros P.
      clear -IH. induction cs as [|c r IHr]; [reflexivity|]. cbn [List.map Tokens.ftoks]. rewrite !shs_app.
      rewrite (IH c (or_introl eq_refl)). f_equal. apply IHr. intros x Hx. apply IH. right. exact Hx. }
    unfold map_node; fold (map_node s f).
    match goal with |- shs (toks (if is_inline_ty s (node_ty s ?N1) then _ else _)) = _ => set (n1 := N1) end.
    specialize (Hn1 n1 eq_refl). destruct (is_inline_ty s (node_ty s n1)); [|exact Hn1].
    destruct (Hf n1 parent) as (ms & ->). rewrite shs_toks_node_mark. exact Hn1.
Qed.

Lemma map_fragment_shs f parent l : MarkOnly f -> shs (ftoks (map_fragment s f parent l)) = shs (ftoks l).
Proof.
  intros Hf. unfold map_fragment. rewrite from_array_shs. induction l as [|c r IH]; [reflexivity|].
  cbn [List.map Tokens.ftoks]. rewrite !shs_app, (map_node_shs f Hf), IH. reflexivity.
Qed.

(* ------------------------------------------------------------------ open sides survive re-marking *)
Lemma from_array_cons_elem ty a m cs r : from_array (Elem ty a m cs :: r) = Elem ty a m cs :: from_array r.
Proof. reflexivity. Qed.

Lemma from_array_last r ty a m cs : exists z, from_array (r ++ [Elem ty a m cs]) = z ++ [Elem ty a m cs].
Proof.
  unfold from_array. induction r as [|x r (z & IH)]; [exists []; reflexivity|]. cbn [app fold_right]. rewrite IH.
  destruct z as [|y z']; cbn [app].
  - exists [x]. destruct x; reflexivity.
  - unfold join_text. destruct x as [t mk|tx ax mx cx]; [|exists (Elem tx ax mx cx :: y :: z'); reflexivity].
    destruct y as [t' mk'|tY aY mY cY]; [|exists (Text t mk :: Elem tY aY mY cY :: z'); reflexivity].
    destruct (marks_eqb mk mk'); [exists (Text (t ++ t') mk' :: z')|exists (Text t mk :: Text t' mk' :: z')]; reflexivity.
Qed.

Lemma from_array_nonempty x r : from_array (x :: r) <> [].
Proof.
  unfold from_array. cbn [fold_right]. set (acc := fold_right join_text [] r). unfold join_text.
  destruct x as [t mk|? ? ? ?]; [|discriminate].
  destruct acc as [|[t' mk'|? ? ? ?] rest]; try discriminate.
  destruct (marks_eqb mk mk'); discriminate.
Qed.

Lemma from_array_single l ty a m cs : from_array l = [Elem ty a m cs] -> l = [Elem ty a m cs].
Proof.
  destruct l as [|x r]; [discriminate|]. intros H.
  destruct x as [t mk|ty0 a0 m0 cs0].
  - exfalso. unfold from_array in H. cbn [fold_right] in H. set (acc := fold_right join_text [] r) in H. unfold join_text in H.
    destruct acc as [|[t' mk'|? ? ? ?] rest]; try discriminate.
    destruct (marks_eqb mk mk'); discriminate.
  - rewrite from_array_cons_elem in H. inversion H as [[E1 E2 E3 E4 E5]]. f_equal.
    destruct r as [|y r']; [reflexivity|]. exfalso. exact (from_array_nonempty y r' E5).
Qed.

(* what map_node makes of an element node *)
Lemma map_node_elem f parent ty a m cs : MarkOnly f ->
  exists ms, map_node s f parent (Elem ty a m cs) =
             Elem ty a ms (if fsize cs =? 0 then cs else map_fragment s f (Elem ty a m cs) cs).
Proof.
  intros Hf. unfold map_node; fold (map_node s f). unfold map_fragment.
  match goal with |- exists ms, (if is_inline_ty s (node_ty s ?N1) then _ else _) = _ => set (n1 := N1) end.
  assert (En1 : n1 = Elem ty a m (if fsize cs =? 0 then cs else from_array (List.map (map_node s f (Elem ty a m cs)) cs))).
  { unfold n1. destruct (fsize cs =? 0); reflexivity. }
  destruct (is_inline_ty s (node_ty s n1)).
  - destruct (Hf n1 parent) as (ms & ->). exists ms. rewrite En1. reflexivity.
  - exists m. exact En1.
Qed.

Lemma ShapeL_fsize0 cs k : fsize cs = 0 -> ShapeL cs k -> k = 0.
Proof.
  intros Hz H. destruct k as [|k]; [reflexivity|]. pose proof (ShapeL_size s _ _ H). lia.
Qed.

Lemma map_fragment_ShapeL f : MarkOnly f -> forall k l parent, ShapeL l k -> ShapeL (map_fragment s f parent l) k.
Proof.
  intros Hf. induction k as [|k IH]; intros l parent H; [exact I|]. cbn [SliceShape.ShapeL] in H.
  destruct l as [|[t mk|ty a m cs] r]; try contradiction. destruct H as (Hn & H).
  unfold map_fragment. cbn [List.map]. destruct (map_node_elem f parent ty a m cs Hf) as (ms & ->).
  rewrite from_array_cons_elem. cbn [SliceShape.ShapeL]. split; [exact Hn|].
  destruct (fsize cs =? 0) eqn:Ez; [exact H|]. apply IH. exact H.
Qed.

Lemma map_fragment_ShapeR f : MarkOnly f -> forall k l parent, ShapeR l k -> ShapeR (map_fragment s f parent l) k.
Proof.
  intros Hf. induction k as [|k IH]; intros l parent H; [exact I|].
  destruct H as (r & ty & a & m & cs & -> & Hn & H).
  unfold map_fragment. rewrite map_app. cbn [List.map]. destruct (map_node_elem f parent ty a m cs Hf) as (ms & ->).
  destruct (from_array_last (List.map (map_node s f parent) r) ty a ms (if fsize cs =? 0 then cs else map_fragment s f (Elem ty a m cs) cs)) as (z & ->).
  exists z, ty, a, ms, (if fsize cs =? 0 then cs else map_fragment s f (Elem ty a m cs) cs).
  split; [reflexivity|]. split; [exact Hn|]. destruct (fsize cs =? 0); [exact H|]. apply IH. exact H.
Qed.

Lemma map_fragment_Shape f : MarkOnly f -> forall os oe l parent, Shape l os oe -> Shape (map_fragment s f parent l) os oe.
Proof.
  intros Hf. induction os as [|a IH]; intros oe l parent H.
  - cbn [SliceShape.Shape] in *. apply map_fragment_ShapeR; auto.
  - destruct (Shape_LR s _ _ _ H) as (HL & HR). apply Shape_combine.
    + apply map_fragment_ShapeL; auto.
    + apply map_fragment_ShapeR; auto.
    + intros ty' a' m' cs' El Hos Hoe. destruct oe as [|b]; [lia|]. cbn [Nat.sub]. rewrite !Nat.sub_0_r.
      unfold map_fragment in El. apply from_array_single in El.
      destruct l as [|x [|y r]]; try discriminate. cbn [List.map] in El. inversion El as [Ex]. clear El.
      cbn [SliceShape.Shape] in H.
      destruct H as [(ty & at_ & m & cs & E & Hn & Hs)|(ty1 & a1 & m1 & cs1 & mid & ty2 & a2 & m2 & cs2 & E & _)].
      * inversion E; subst x. destruct (map_node_elem f parent ty at_ m cs Hf) as (ms & Em). rewrite Em in Ex.
        inversion Ex; subst ty' a' m' cs'. destruct (fsize cs =? 0); [exact Hs|]. apply IH. exact Hs.
      * exfalso. destruct mid; discriminate.
Qed.

(* ------------------------------------------------------------------ the two mark steps *)
Definition mark_step_range (st : step) : option (nat * nat) :=
  match st with SAddMark f t _ | SRemoveMark f t _ => Some (f, t) | _ => None end.

Lemma apply_mark_inv st from to doc d' :
  mark_step_range st = Some (from, to) -> apply s st doc = ROk d' ->
  exists old f parent, node_slice s doc from to = Ok old /\ MarkOnly f /\
    node_replace s doc from to (SL (map_fragment s f parent (sl_content old)) (sl_open_start old) (sl_open_end old)) = Ok d'.
Proof.
  intros Hr H. destruct st; try discriminate; cbn [mark_step_range] in Hr; inversion Hr; subst; cbn [apply] in H; unfold lift in H.
  - destruct (node_slice s doc from to) as [old|] eqn:Eo; [|discriminate].
    destruct (resolve s doc from) as [rf|]; [|discriminate].
    destruct (shared_depth s rf to) as [sd|]; [|discriminate].
    destruct (rp_node rf sd) as [parent|]; [|discriminate].
    unfold from_replace in H.
    destruct (node_replace s doc from to _) as [d|e] eqn:Er; [|destruct e; discriminate]. inversion H; subst d.
    exists old, (add_mark_f s m), parent. split; [reflexivity|]. split; [apply add_mark_f_MarkOnly|exact Er].
  - destruct (node_slice s doc from to) as [old|] eqn:Eo; [|discriminate].
    unfold from_replace in H.
    destruct (node_replace s doc from to _) as [d|e] eqn:Er; [|destruct e; discriminate]. inversion H; subst d.
    exists old, (remove_mark_f m), doc. split; [reflexivity|]. split; [apply remove_mark_f_MarkOnly|exact Er].
Qed.

Lemma shs_firstn n l : shs (firstn n l) = firstn n (shs l).
Proof. unfold shs. symmetry. apply firstn_map. Qed.
Lemma shs_skipn n l : shs (skipn n l) = skipn n (shs l).
Proof. unfold shs. symmetry. apply skipn_map. Qed.
Lemma sh_tnorm t : sh (tnorm t) = tnorm (sh t).
Proof. destruct t; reflexivity. Qed.
Lemma shs_nt l : shs (nt l) = nt (shs l).
Proof. unfold shs, nt. rewrite !map_map. apply map_ext. intros t. apply sh_tnorm. Qed.

Lemma shs_IT content content' os oe :
  shs (ftoks content') = shs (ftoks content) -> shs (IT (SL content' os oe)) = shs (IT (SL content os oe)).
Proof.
  intros H. unfold IT, inner_toks. cbn [sl_content sl_open_start sl_open_end].
  assert (Hl : length (ftoks content') = length (ftoks content)).
  { apply (f_equal (@length tok)) in H. unfold shs in H. rewrite !map_length in H. exact H. }
  rewrite !shs_nt, !shs_firstn, !shs_skipn, H, Hl. reflexivity.
Qed.

Theorem mark_step_tokens st from to doc d' :
  V doc -> from <= to -> mark_step_range st = Some (from, to) -> apply s st doc = ROk d' ->
  length (DT d') = length (DT doc) /\
  firstn from (DT d') = firstn from (DT doc) /\
  skipn to (DT d') = skipn to (DT doc) /\
  shs (DT d') = shs (DT doc).
Proof.
  intros Hd Hft Hr H. destruct (apply_mark_inv _ _ _ _ _ Hr H) as (old & f & parent & Eo & Hf & Er).
  destruct (node_slice_IT s _ _ _ _ Hft Eo) as (Hso & Hio).
  set (new := SL (map_fragment s f parent (sl_content old)) (sl_open_start old) (sl_open_end old)) in *.
  assert (Hsn : SliceShape.Shape s (sl_content new) (sl_open_start new) (sl_open_end new)).
  { unfold new. cbn [sl_content sl_open_start sl_open_end]. apply map_fragment_Shape; auto. }
  assert (Ha : apply s (SReplace from to new false) doc = ROk d').
  { cbn [apply]. unfold lift, from_replace. rewrite Er. reflexivity. }
  destruct (replace_step_splice s _ _ _ _ _ _ Hd Hsn Ha) as (B1 & B2 & E).
  assert (Hsh : shs (IT new) = shs (IT old)).
  { destruct old as [c os oe]. unfold new. cbn [sl_content sl_open_start sl_open_end]. apply shs_IT. apply map_fragment_shs. exact Hf. }
  assert (Hlen : length (IT new) = to - from).
  { apply (f_equal (@length tok)) in Hsh. unfold shs in Hsh. rewrite !map_length in Hsh. rewrite Hsh, Hio.
    unfold seg. rewrite firstn_length, skipn_length. lia. }
  assert (LA : length (firstn from (DT doc)) = from) by (rewrite firstn_length; lia).
  rewrite E. split; [|split; [|split]].
  - rewrite !app_length, LA, Hlen, skipn_length. lia.
  - rewrite firstn_app_l by lia. rewrite firstn_firstn_le by lia. reflexivity.
  - rewrite skipn_app_r by lia. rewrite LA. rewrite skipn_app_r by lia. rewrite Hlen. replace (to - from - (to - from)) with 0 by lia. reflexivity.
  - rewrite !shs_app, Hsh, Hio, <- !shs_app. f_equal. symmetry. apply split3. exact Hft.
Qed.

End WithSchema.
