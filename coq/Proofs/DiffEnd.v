(* find_diff_end (C20): the scan from the end, modelled over the mirrored tree (Model/Diff.v).  Mirroring keeps
   sizes, well-formedness and the normal form; the identity fast path never changes the answer; nothing is reported
   exactly when the fragments are equal. *)
From Coq Require Import ZArith NArith List Bool Arith Lia.
From PM Require Import Model.Data Model.Mark Model.Tree Spec.Tokens Spec.DiffSpec Model.Diff
  Proofs.DataProofs Proofs.NodeInd Proofs.DiffProofs Proofs.TokenBasics Proofs.ReplaceTokens Proofs.TokenInj Proofs.ReplaceCanon
  Proofs.DiffPositions.
Import ListNotations.
Local Open Scope nat_scope.

Section WithSchema.
Variable s : schema.
Notation nsize := (node_size s).
Notation fsize := (frag_size s).
Notation canon := (canon s).
Notation canon_list := (canon_list s).

(* ------------------------------------------------------------------ the mirrored tree *)
Lemma rev_node_elem ty a m cs : rev_node (Elem ty a m cs) = Elem ty a m (rev_frag cs).
Proof. reflexivity. Qed.

Lemma rev_frag_app a b : rev_frag (a ++ b) = rev_frag b ++ rev_frag a.
Proof.
  induction a as [|x a IH]; cbn [app rev_frag]; [rewrite app_nil_r; reflexivity|]. rewrite IH, app_assoc. reflexivity.
Qed.

Lemma rev_node_invol : forall n, rev_node (rev_node n) = n.
Proof.
  induction n as [t m|ty a m cs IH] using node_ind2; [reflexivity|]. rewrite !rev_node_elem. f_equal.
  induction cs as [|c cs IHcs]; [reflexivity|]. cbn [rev_frag]. rewrite rev_frag_app. cbn [rev_frag app].
  rewrite (IH c (or_introl eq_refl)). f_equal. apply IHcs. intros x Hx. apply IH. right. exact Hx.
Qed.
Lemma rev_frag_invol l : rev_frag (rev_frag l) = l.
Proof.
  induction l as [|c l IH]; [reflexivity|]. cbn [rev_frag]. rewrite rev_frag_app. cbn [rev_frag app].
  rewrite rev_node_invol, IH. reflexivity.
Qed.

Lemma frag_size_app a b : fsize (a ++ b) = fsize a + fsize b.
Proof. induction a as [|x a IH]; [reflexivity|]. cbn [app frag_size]. rewrite IH. lia. Qed.

Lemma rev_node_size : forall n, nsize (rev_node n) = nsize n.
Proof.
  induction n as [t m|ty a m cs IH] using node_ind2; [reflexivity|]. rewrite rev_node_elem, !node_size_elem.
  destruct (is_leaf_ty s ty); [reflexivity|]. f_equal.
  induction cs as [|c cs IHcs]; [reflexivity|]. cbn [rev_frag frag_size]. rewrite frag_size_app. cbn [frag_size].
  rewrite (IH c (or_introl eq_refl)), IHcs by (intros x Hx; apply IH; right; exact Hx). lia.
Qed.
Lemma rev_frag_size l : fsize (rev_frag l) = fsize l.
Proof.
  induction l as [|c l IH]; [reflexivity|]. cbn [rev_frag frag_size]. rewrite frag_size_app. cbn [frag_size].
  rewrite rev_node_size, IH. lia.
Qed.

Lemma rev_rev_frag l : rev (rev_frag l) = List.map rev_node l.
Proof. induction l as [|c l IH]; [reflexivity|]. cbn [rev_frag List.map]. rewrite rev_app_distr, IH. reflexivity. Qed.

(* well-formed text / code points *)
Lemma wf_text_list_app a b : wf_text_list (a ++ b) = wf_text_list a && wf_text_list b.
Proof. induction a as [|x a IH]; [reflexivity|]. cbn [app wf_text_list]. rewrite IH, andb_assoc. reflexivity. Qed.
Lemma rev_node_wf : forall n, wf_text (rev_node n) = wf_text n.
Proof.
  induction n as [t m|ty a m cs IH] using node_ind2; [reflexivity|]. rewrite rev_node_elem, !wf_text_elem.
  induction cs as [|c cs IHcs]; [reflexivity|]. cbn [rev_frag wf_text_list]. rewrite wf_text_list_app. cbn [wf_text_list].
  rewrite (IH c (or_introl eq_refl)), IHcs by (intros x Hx; apply IH; right; exact Hx). rewrite andb_true_r. apply andb_comm.
Qed.
Lemma rev_frag_wf l : wf_text_list (rev_frag l) = wf_text_list l.
Proof.
  induction l as [|c l IH]; [reflexivity|]. cbn [rev_frag wf_text_list]. rewrite wf_text_list_app. cbn [wf_text_list].
  rewrite rev_node_wf, IH, andb_true_r. apply andb_comm.
Qed.
Lemma ok_list_app a b : ok_list (a ++ b) = ok_list a && ok_list b.
Proof. induction a as [|x a IH]; [reflexivity|]. cbn [app ok_list]. rewrite IH, andb_assoc. reflexivity. Qed.
Lemma rev_node_ok : forall n, ok_node (rev_node n) = ok_node n.
Proof.
  induction n as [t m|ty a m cs IH] using node_ind2; [reflexivity|]. rewrite rev_node_elem, !ok_node_elem.
  induction cs as [|c cs IHcs]; [reflexivity|]. cbn [rev_frag ok_list]. rewrite ok_list_app. cbn [ok_list].
  rewrite (IH c (or_introl eq_refl)), IHcs by (intros x Hx; apply IH; right; exact Hx). rewrite andb_true_r. apply andb_comm.
Qed.
Lemma rev_frag_ok l : ok_list (rev_frag l) = ok_list l.
Proof.
  induction l as [|c l IH]; [reflexivity|]. cbn [rev_frag ok_list]. rewrite ok_list_app. cbn [ok_list].
  rewrite rev_node_ok, IH, andb_true_r. apply andb_comm.
Qed.

(* the normal form *)
Lemma seam_rev x y : seam x y = true -> seam (rev_node y) (rev_node x) = true.
Proof.
  destruct x as [t m|ty a mk cs]; destruct y as [t' m'|ty' a' mk' cs']; cbn [seam rev_node]; auto.
  rewrite marks_eqb_sym. auto.
Qed.

Lemma rev_frag_canon_aux : forall l, (forall c, In c l -> canon c = true -> canon (rev_node c) = true) ->
  canon_list l = true -> canon_list (rev_frag l) = true.
Proof.
  induction l as [|x l IH]; intros Hc H; [reflexivity|].
  destruct (canon_list_cons s _ _ H) as (Hx & Hl). cbn [rev_frag].
  apply (CL_app s).
  - apply IH; [intros c Hin; apply Hc; right; exact Hin|exact Hl].
  - unfold CL. cbn [TokenInj.canon_list]. rewrite (Hc x (or_introl eq_refl) Hx). destruct (rev_node x); reflexivity.
  - intros x0 y r Hr Hy. cbn in Hy. inversion Hy; subst y. rewrite rev_rev_frag in Hr.
    destruct l as [|x1 l']; [discriminate|]. cbn [List.map] in Hr. inversion Hr; subst x0.
    apply seam_rev. apply (CL_cons2 s) in H. tauto.
Qed.
Lemma rev_node_canon : forall n, canon n = true -> canon (rev_node n) = true.
Proof.
  induction n as [t m|ty a m cs IH] using node_ind2; [auto|]. rewrite rev_node_elem, !canon_elem. intros H.
  apply andb_prop in H. destruct H as [H1 H2]. apply andb_true_intro. split.
  - destruct (is_leaf_ty s ty); [|reflexivity]. destruct cs; [reflexivity|discriminate].
  - apply rev_frag_canon_aux; [exact IH|exact H2].
Qed.
Lemma rev_frag_canon l : canon_list l = true -> canon_list (rev_frag l) = true.
Proof. apply rev_frag_canon_aux. intros c _. apply rev_node_canon. Qed.

(* equality *)
Lemma frag_eqb_snoc : forall l1 l2 x y, frag_eqb (l1 ++ [x]) (l2 ++ [y]) = frag_eqb l1 l2 && node_eqb x y.
Proof.
  induction l1 as [|a l1 IH]; intros [|b l2] x y; cbn [app frag_eqb].
  - rewrite andb_true_r. reflexivity.
  - destruct l2; cbn [app frag_eqb]; rewrite andb_false_r; reflexivity.
  - destruct l1; cbn [app frag_eqb]; rewrite andb_false_r; reflexivity.
  - rewrite IH, andb_assoc. reflexivity.
Qed.
Lemma rev_node_eqb : forall x y, node_eqb (rev_node x) (rev_node y) = node_eqb x y.
Proof.
  induction x as [t m|ty a m cs IH] using node_ind2; intros [t' m'|ty' a' m' cs']; try reflexivity.
  rewrite !rev_node_elem, !TokenInj.node_eqb_elem. f_equal.
  revert cs'. induction cs as [|c cs IHcs]; intros [|c' cs']; cbn [rev_frag frag_eqb]; try reflexivity.
  - destruct (rev_frag cs'); reflexivity.
  - destruct (rev_frag cs); reflexivity.
  - rewrite frag_eqb_snoc, (IH c (or_introl eq_refl)), IHcs by (intros x Hx; apply IH; right; exact Hx). apply andb_comm.
Qed.
Lemma rev_frag_eqb : forall a b, frag_eqb (rev_frag a) (rev_frag b) = frag_eqb a b.
Proof.
  induction a as [|x a IH]; intros [|y b]; cbn [rev_frag frag_eqb]; try reflexivity.
  - destruct (rev_frag b); reflexivity.
  - destruct (rev_frag a); reflexivity.
  - rewrite frag_eqb_snoc, rev_node_eqb, IH. apply andb_comm.
Qed.

(* ------------------------------------------------------------------ the scan *)
Lemma nde_elem (o : node -> node -> bool) ty a m cs ty' a' m' cs' pa pb :
  node_diff_end s o (Elem ty a m cs) (Elem ty' a' m' cs') pa pb =
  if (fsize cs =? 0) && (fsize cs' =? 0) then None else diff_end_go s o cs cs' (pa - 1) (pb - 1).
Proof. cbn [node_diff_end]. destruct ((fsize cs =? 0) && (fsize cs' =? 0)); reflexivity. Qed.

Lemma nde_refl (o : node -> node -> bool) : forall x pa pb, node_diff_end s o x x pa pb = None.
Proof.
  fix IH 1. intros [t m|ty a m cs] pa pb.
  - cbn [node_diff_end]. rewrite cps_eqb_refl. reflexivity.
  - rewrite nde_elem. destruct ((fsize cs =? 0) && (fsize cs =? 0)); [reflexivity|].
    generalize (pa - 1) (pb - 1). induction cs as [|c cs IHcs]; intros p q; [reflexivity|]. cbn [diff_end_go].
    destruct (o (rev_node c) (rev_node c)); [apply IHcs|]. rewrite same_markup_refl. cbn [negb]. rewrite IH. apply IHcs.
Qed.

Lemma nde_irrelevant (o : node -> node -> bool) (Ho : sound_oracle o) :
  forall x y pa pb, node_diff_end s o x y pa pb = node_diff_end s never x y pa pb.
Proof.
  fix IH 1. intros [t m|ty a m cs] [t' m'|ty' a' m' cs'] pa pb; try reflexivity.
  rewrite !nde_elem. destruct ((fsize cs =? 0) && (fsize cs' =? 0)); [reflexivity|].
  generalize (pa - 1) (pb - 1). revert cs'. induction cs as [|c cs IHcs]; intros [|c' cs'] p q; try reflexivity.
  cbn [diff_end_go]. rewrite never_false.
  destruct (o (rev_node c) (rev_node c')) eqn:E.
  - apply Ho in E. apply (f_equal rev_node) in E. rewrite !rev_node_invol in E. subst c'.
    rewrite same_markup_refl. cbn [negb]. rewrite nde_refl. apply IHcs.
  - destruct (negb (same_markup c c')); [reflexivity|]. rewrite IH. destruct (node_diff_end s never c c' p q); [reflexivity|apply IHcs].
Qed.

Theorem diff_end_oracle_irrelevant (o : node -> node -> bool) (Ho : sound_oracle o) :
  forall a b pa pb, find_diff_end s o a b pa pb = find_diff_end s never a b pa pb.
Proof.
  intros a b. unfold find_diff_end. generalize (rev_frag b). induction (rev_frag a) as [|x l IH]; intros [|y l'] pa pb; try reflexivity.
  cbn [diff_end_go]. rewrite never_false.
  destruct (o (rev_node x) (rev_node y)) eqn:E.
  - apply Ho in E. apply (f_equal rev_node) in E. rewrite !rev_node_invol in E. subst y.
    rewrite same_markup_refl. cbn [negb]. rewrite nde_refl. apply IH.
  - destruct (negb (same_markup x y)); [reflexivity|]. rewrite (nde_irrelevant o Ho).
    destruct (node_diff_end s never x y pa pb); [reflexivity|apply IH].
Qed.

(* nothing is reported exactly when the (mirrored) nodes are equal *)
Lemma nde_none_iff : forall x y pa pb,
  wf_text x = true -> wf_text y = true -> same_markup x y = true ->
  (node_diff_end s never x y pa pb = None <-> node_eqb x y = true).
Proof.
  fix IH 1. intros [t m|ty a m cs] [t' m'|ty' a' m' cs'] pa pb Hx Hy Hm; try discriminate.
  - cbn [node_diff_end node_eqb]. cbn [same_markup] in Hm. rewrite Hm, andb_true_r.
    destruct (cps_eqb t t'); split; intros; try discriminate; auto.
  - rewrite TokenInj.node_eqb_elem. cbn [same_markup] in Hm. rewrite Hm. cbn [andb].
    rewrite wf_text_elem in Hx, Hy. rewrite nde_elem.
    destruct ((fsize cs =? 0) && (fsize cs' =? 0)) eqn:Ez.
    + apply andb_prop in Ez. destruct Ez as [E1 E2]. apply Nat.eqb_eq in E1, E2.
      rewrite (frag_size_zero s cs Hx E1), (frag_size_zero s cs' Hy E2). cbn. tauto.
    + clear Ez. generalize (pa - 1) (pb - 1). revert cs' Hy.
      induction cs as [|c cs IHcs]; intros [|c' cs'] Hy p q; cbn [diff_end_go frag_eqb]; try (split; intros; (discriminate || reflexivity)).
      cbn [wf_text_list] in Hx, Hy. apply andb_prop in Hx, Hy. destruct Hx as [Hc Hcs], Hy as [Hc' Hcs'].
      rewrite never_false.
      destruct (same_markup c c') eqn:Esm; cbn [negb].
      * destruct (node_diff_end s never c c' p q) eqn:End.
        -- split; [discriminate|]. intros H. apply andb_prop in H. destruct H as [H _].
           apply (IH c c' p q Hc Hc' Esm) in H. congruence.
        -- assert (Heq : node_eqb c c' = true) by (apply (IH c c' p q Hc Hc' Esm); auto).
           rewrite Heq. cbn [andb]. apply IHcs; auto.
      * split; [discriminate|]. intros H. apply andb_prop in H. destruct H as [H _].
        apply node_eqb_same_markup in H. congruence.
Qed.

Lemma deg_none_iff : forall a b pa pb,
  wf_text_list a = true -> wf_text_list b = true ->
  (diff_end_go s never a b pa pb = None <-> frag_eqb a b = true).
Proof.
  induction a as [|x a IH]; intros [|y b] pa pb Ha Hb; cbn [diff_end_go frag_eqb]; try (split; intros; (discriminate || reflexivity)).
  cbn [wf_text_list] in Ha, Hb. apply andb_prop in Ha, Hb. destruct Ha as [Hx Ha], Hb as [Hy Hb].
  rewrite never_false.
  destruct (same_markup x y) eqn:Esm; cbn [negb].
  - destruct (node_diff_end s never x y pa pb) eqn:End.
    + split; [discriminate|]. intros H. apply andb_prop in H. destruct H as [H _].
      apply (nde_none_iff x y pa pb Hx Hy Esm) in H. congruence.
    + assert (Heq : node_eqb x y = true) by (apply (nde_none_iff x y pa pb Hx Hy Esm); auto).
      rewrite Heq. cbn [andb]. apply IH; auto.
  - split; [discriminate|]. intros H. apply andb_prop in H. destruct H as [H _].
    apply node_eqb_same_markup in H. congruence.
Qed.

Theorem diff_end_none_iff (o : node -> node -> bool) (Ho : sound_oracle o) a b pa pb :
  wf_text_list a = true -> wf_text_list b = true ->
  (find_diff_end s o a b pa pb = None <-> frag_eqb a b = true).
Proof.
  intros Ha Hb. rewrite (diff_end_oracle_irrelevant o Ho). unfold find_diff_end.
  rewrite <- (rev_frag_eqb a b). apply deg_none_iff; rewrite rev_frag_wf; assumption.
Qed.

End WithSchema.
