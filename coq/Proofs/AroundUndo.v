(* Exact undo of replace-around steps on the token sequence (C04): Slice.remove_between takes the gap's
   tokens out of the slice cut from the original document, and the inverse step built from it puts everything
   back. *)
From Coq Require Import ZArith NArith List Bool Arith Lia.
From PM Require Import Model.Data Model.Mark Model.Tree Model.StepMap Model.Step Spec.Tokens
  Proofs.ReplaceValid Proofs.SliceSides Proofs.TokenBasics Proofs.PathTokens Proofs.ReplaceTokens Proofs.SliceShape
  Proofs.StepFaithful Proofs.SliceTokens Proofs.SliceCut Proofs.TokenLaws Proofs.StepAlgebra Proofs.StepTokens
  Proofs.AroundTokens Proofs.AroundLaws.
Import ListNotations.
Local Open Scope nat_scope.

(* an inverted map read as a plain one: each range moved by the sizes changed before it, old and new swapped *)
Fixpoint flip_ranges (rs : list range) (diff : Z) : list range :=
  match rs with
  | [] => []
  | r :: rest => (start_of r - diff, new_of false r, old_of false r)%Z
                 :: flip_ranges rest (diff + (old_of false r - new_of false r))%Z
  end.
Lemma map_go_flip : forall rs i diff pos assoc,
  map_go true rs i diff pos assoc = map_go false (flip_ranges rs diff) i diff pos assoc.
Proof.
  induction rs as [|[[st x] y] rest IH]; intros i diff pos assoc; [reflexivity|].
  cbn [map_go flip_ranges start_of old_of new_of]. rewrite Z.sub_0_r.
  destruct (st - diff >? pos)%Z; [reflexivity|].
  destruct (pos <=? st - diff + y)%Z; [reflexivity|]. apply IH.
Qed.
Lemma inverted_as_plain (m : stepmap) : inverted m = false ->
  forall p a, map_result (StepMap.invert m) p a = map_result {| ranges := flip_ranges (ranges m) 0; inverted := false |} p a.
Proof. intros H p a. unfold map_result, StepMap.invert. cbn [ranges inverted]. rewrite H. apply map_go_flip. Qed.

Section WithSchema.
Variable s : schema.
Notation nsize := (node_size s).
Notation fsize := (frag_size s).
Notation toks := (toks s).
Notation ftoks := (ftoks s).
Notation V := (V s).
Notation DT := (DT s).
Notation IT := (IT s).
Notation opens_l := (opens_l s).
Notation ShapeL := (ShapeL s).
Notation ShapeR := (ShapeR s).
Notation Shape := (Shape s).
Notation ShapeS sl := (SliceShape.Shape s (sl_content sl) (sl_open_start sl) (sl_open_end sl)).

(* remove_range, inverted *)
Lemma remove_range_form fuel content from to l :
  remove_range s (S fuel) content from to = Ok l -> from <= to ->
  (exists index ty a m cs l',
      nth_error content index = Some (Elem ty a m cs) /\ is_leaf_ty s ty = false /\
      fsize (firstn index content) < from /\ to < fsize (firstn index content) + nsize (Elem ty a m cs) /\
      remove_range s fuel cs (from - fsize (firstn index content) - 1) (to - fsize (firstn index content) - 1) = Ok l' /\
      l = replace_child content index (Elem ty a m l')) \/
  (opens_l content 0 from = [] /\ opens_l content 0 to = [] /\ to <= fsize content /\
   exists a b, frag_cut s content 0 from = Ok a /\ frag_cut s content to (fsize content) = Ok b /\ l = frag_append a b).
Proof.
  intros H Hft. cbn [remove_range] in H.
  destruct (find_index s content from) as [[index offset]|] eqn:Ef; [|discriminate]. cbn [bind] in H.
  destruct (find_index s content to) as [[index_to offset_to]|] eqn:Et; [|discriminate]. cbn [bind] in H.
  destruct (find_index_spec s _ _ _ _ Ef) as (Hoff & Hidx & Hle & Hpos).
  destruct (find_index_spec s _ _ _ _ Et) as (Hoff2 & Hidx2 & Hle2 & Hpos2).
  destruct ((offset =? from) || match nth_error content index with Some c => node_is_text c | None => false end) eqn:Ecase.
  - right.
    assert (Ho1 : opens_l content 0 from = []).
    { apply orb_prop in Ecase. destruct Ecase as [E|E].
      - apply Nat.eqb_eq in E. apply (opens_at_boundary s content index from Hidx). lia.
      - destruct (nth_error content index) as [c|] eqn:En; [|discriminate]. destruct c as [t mk|]; [|discriminate].
        destruct Hpos as [Hp|(c' & Hc' & Hp)]; [apply (opens_at_boundary s content index from Hidx); lia|].
        inversion Hc'; subst c'. cbn [node_size] in Hp. apply (opens_at_text s content index t mk from En). lia. }
    destruct (if negb (offset_to =? to) then _ else Ok tt) as [[]|] eqn:Eg; [|discriminate]. cbn [bind] in H.
    assert (Ho2 : opens_l content 0 to = []).
    { destruct (offset_to =? to) eqn:E; cbn [negb] in Eg.
      - apply Nat.eqb_eq in E. apply (opens_at_boundary s content index_to to Hidx2). lia.
      - apply Nat.eqb_neq in E. destruct (nth_error content index_to) as [c|] eqn:En; [|discriminate].
        destruct c as [t mk|]; [|discriminate]. destruct Hpos2 as [Hp|(c' & Hc' & Hp)]; [lia|].
        inversion Hc'; subst c'. cbn [node_size] in Hp. apply (opens_at_text s content index_to t mk to En). lia. }
    destruct (frag_cut s content 0 from) as [a|] eqn:Ea; [|discriminate]. cbn [bind] in H.
    destruct (frag_cut s content to (fsize content)) as [b|] eqn:Eb; [|discriminate]. cbn [bind] in H.
    inversion H; subst l. split; [exact Ho1|]. split; [exact Ho2|]. split; [exact Hle2|]. eauto.
  - left. apply orb_false_elim in Ecase. destruct Ecase as [E1 E2]. apply Nat.eqb_neq in E1.
    destruct (nth_error content index) as [c|] eqn:En; [|discriminate].
    destruct (negb (index =? index_to)) eqn:Ei; [discriminate|]. apply negb_false_iff in Ei. apply Nat.eqb_eq in Ei. subst index_to.
    destruct (remove_range s fuel (node_content c) (from - offset - 1) (to - offset - 1)) as [inner|] eqn:Er; [|discriminate].
    cbn [bind] in H. inversion H; subst l. clear H.
    destruct Hpos as [Hp|(c' & Hc' & Hp)]; [lia|]. inversion Hc'; subst c'.
    destruct c as [t mk|ty a m cs]; [discriminate|]. cbn [node_content node_copy] in *.
    assert (Hnl : is_leaf_ty s ty = false).
    { pose proof (node_size_elem s ty a m cs) as Hs. destruct (is_leaf_ty s ty); [|reflexivity]. lia. }
    (* `to` lies strictly inside the same child: it resolved to the same index and is not its end *)
    assert (Hto : to < offset + nsize (Elem ty a m cs)).
    { rewrite <- Hoff in Hoff2. destruct Hpos2 as [Hp2|(c2 & Hc2 & Hp2)]; [lia|]. rewrite En in Hc2. inversion Hc2; subst c2. lia. }
    exists index, ty, a, m, cs, inner. subst offset. repeat split; auto; lia.
Qed.

Lemma remove_range_toks : forall fuel content from to l,
  remove_range s fuel content from to = Ok l -> from <= to ->
  to <= fsize content /\
  nt (ftoks l) = nt (firstn from (ftoks content)) ++ nt (skipn to (ftoks content)).
Proof.
  induction fuel as [|fuel IH]; intros content from to l H Hft; [discriminate|].
  destruct (remove_range_form _ _ _ _ _ H Hft) as
    [(index & ty & a & m & cs & l' & Hn & Hnl & Hp1 & Hp2 & Hr & ->)|(Ho1 & Ho2 & Hle & a & b & Ha & Hb & ->)].
  - pose proof (node_size_elem s ty a m cs) as Hs. rewrite Hnl in Hs.
    set (off := fsize (firstn index content)) in *.
    assert (Hft' : from - off - 1 <= to - off - 1) by lia.
    destruct (IH _ _ _ _ Hr Hft') as (Hle' & Hin).
    assert (Hfs : fsize content = off + nsize (Elem ty a m cs) + fsize (skipn (S index) content)).
    { rewrite (split_at_index content index _ Hn) at 1. rewrite frag_size_app. cbn [frag_size]. fold off. lia. }
    split; [lia|].
    unfold replace_child. rewrite ftoks_app. cbn [app Tokens.ftoks]. rewrite toks_elem, Hnl.
    rewrite (ftoks_split_at s _ _ _ Hn), toks_elem, Hnl.
    pose proof (ftoks_length s (firstn index content)) as HlA. fold off in HlA.
    pose proof (ftoks_length s cs) as HlC.
    set (A := ftoks (firstn index content)) in *. set (R := ftoks (skipn (S index) content)) in *.
    rewrite firstn_app_in by lia. rewrite skipn_app_in by lia. rewrite HlA.
    replace (from - off) with (S (from - off - 1)) by lia. replace (to - off) with (S (to - off - 1)) by lia.
    cbn [firstn skipn app]. rewrite <- !app_assoc.
    rewrite firstn_app_l by (rewrite HlC; lia). rewrite skipn_app_l by (rewrite HlC; lia).
    rewrite !nt_app, !nt_cons, !nt_app, Hin. repeat (rewrite <- ?app_assoc; cbn [app]). reflexivity.
  - split; [exact Hle|]. rewrite frag_append_toks.
    assert (Hfl : from <= fsize content) by lia.
    rewrite (frag_cut_prefix s _ _ _ Hfl Ho1 Ha), (frag_cut_suffix s _ _ _ Hle Ho2 Hb). reflexivity.
Qed.

Lemma remove_range_ShapeL : forall fuel content from to l os,
  ShapeL content os -> os <= from -> from <= to -> remove_range s fuel content from to = Ok l -> ShapeL l os.
Proof.
  induction fuel as [|fuel IH]; intros content from to l os HL Hd Hft H; [discriminate|].
  destruct os as [|k]; [exact I|]. cbn [SliceShape.ShapeL] in HL.
  destruct content as [|[t mk|ty1 a1 m1 cs1] r]; try contradiction. destruct HL as (Hn1 & HL).
  pose proof (node_size_elem s ty1 a1 m1 cs1) as Hs1. unfold nl_ty in Hn1. rewrite Hn1 in Hs1.
  destruct (remove_range_form _ _ _ _ _ H Hft) as
    [(index & ty & a & m & cs & l' & Hn & Hnl & Hp1 & Hp2 & Hr & ->)|(Ho1 & Ho2 & Hle & a & b & Ha & Hb & ->)].
  - destruct index as [|j].
    + cbn in Hn. inversion Hn; subst ty a m cs. cbn [firstn frag_size] in *. unfold replace_child. cbn [firstn skipn app].
      cbn [SliceShape.ShapeL]. split; [exact Hn1|]. eapply IH; [exact HL| | |exact Hr]; lia.
    + unfold replace_child. cbn [firstn app SliceShape.ShapeL]. auto.
  - assert (Hge : nsize (Elem ty1 a1 m1 cs1) <= from).
    { destruct (Nat.le_gt_cases (nsize (Elem ty1 a1 m1 cs1)) from) as [Hx|Hx]; [exact Hx|exfalso].
      rewrite (opens_at_inside s (Elem ty1 a1 m1 cs1 :: r) 0 ty1 a1 m1 cs1 from eq_refl Hn1) in Ho1 by (cbn [firstn frag_size]; lia).
      discriminate. }
    destruct (frag_cut_head s _ _ _ _ _ _ _ Hge Ha) as (a' & ->).
    destruct (frag_append_head ty1 a1 m1 cs1 a' b) as (x & ->). cbn [SliceShape.ShapeL]. auto.
Qed.

Lemma remove_range_ShapeR : forall fuel content from to l oe,
  ShapeR content oe -> to + oe <= fsize content -> from <= to -> remove_range s fuel content from to = Ok l -> ShapeR l oe.
Proof.
  induction fuel as [|fuel IH]; intros content from to l oe HR Hd Hft H; [discriminate|].
  destruct oe as [|k]; [exact I|]. destruct HR as (r & ty2 & a2 & m2 & cs2 & -> & Hn2 & HR).
  pose proof (node_size_elem s ty2 a2 m2 cs2) as Hs2. unfold nl_ty in Hn2. rewrite Hn2 in Hs2.
  rewrite frag_size_app in Hd. cbn [frag_size] in Hd.
  destruct (firstn_length_app r (Elem ty2 a2 m2 cs2) []) as (Hfi & Hnth & Hsk).
  destruct (remove_range_form _ _ _ _ _ H Hft) as
    [(index & ty & a & m & cs & l' & Hn & Hnl & Hp1 & Hp2 & Hr & ->)|(Ho1 & Ho2 & Hle & a & b & Ha & Hb & ->)].
  - assert (Hil : index < length (r ++ [Elem ty2 a2 m2 cs2])) by (apply nth_error_Some; rewrite Hn; discriminate).
    rewrite app_length in Hil. cbn [length] in Hil.
    destruct (Nat.eq_dec index (length r)) as [->|Hne].
    + rewrite Hnth in Hn. inversion Hn; subst ty a m cs. rewrite Hfi in *. unfold replace_child. rewrite Hfi, Hsk.
      exists r, ty2, a2, m2, l'. split; [reflexivity|]. split; [exact Hn2|]. eapply IH; [exact HR| | |exact Hr]; lia.
    + unfold replace_child. rewrite firstn_app, skipn_app. replace (index - length r) with 0 by lia.
      replace (S index - length r) with 0 by lia. cbn [firstn skipn].
      exists (firstn index r ++ [Elem ty a m l'] ++ skipn (S index) r), ty2, a2, m2, cs2.
      split; [rewrite app_nil_r, <- !app_assoc; reflexivity|]. auto.
  - assert (Hge : to <= fsize r).
    { destruct (Nat.le_gt_cases to (fsize r)) as [Hx|Hx]; [exact Hx|exfalso].
      rewrite (opens_at_inside s (r ++ [Elem ty2 a2 m2 cs2]) (length r) ty2 a2 m2 cs2 to Hnth Hn2) in Ho2 by (rewrite Hfi; lia).
      discriminate. }
    destruct (frag_cut_last s _ _ _ _ _ _ _ Hge Hb) as (b' & ->).
    destruct (frag_append_last a b' ty2 a2 m2 cs2) as (z & ->).
    exists z, ty2, a2, m2, cs2. auto.
Qed.

Lemma remove_range_Shape : forall fuel content from to l os oe,
  Shape content os oe -> os <= from -> from <= to -> to + oe <= fsize content ->
  remove_range s fuel content from to = Ok l -> Shape l os oe.
Proof.
  induction fuel as [|fuel IH]; intros content from to l os oe Hsh Hd1 Hft Hd2 H; [discriminate|].
  destruct (Shape_LR s _ _ _ Hsh) as (HL & HR).
  apply Shape_combine.
  - eapply remove_range_ShapeL; eauto.
  - eapply remove_range_ShapeR; eauto.
  - intros ty' a' m' cs' El Hos Hoe. destruct os as [|a]; [lia|]. destruct oe as [|b]; [lia|].
    cbn [Nat.sub]. rewrite !Nat.sub_0_r. cbn [SliceShape.Shape] in Hsh.
    destruct Hsh as [(ty & at_ & m & cs & -> & Hn & Hs)|(ty1 & a1 & m1 & cs1 & mid & ty2 & a2 & m2 & cs2 & -> & Hn1 & Hn2 & Hl & Hr)].
    + pose proof (node_size_elem s ty at_ m cs) as Hsz. unfold nl_ty in Hn. rewrite Hn in Hsz. cbn [frag_size] in Hd2.
      destruct (remove_range_form _ _ _ _ _ H Hft) as
        [(index & ty0 & a0 & m0 & cs0 & l' & Hnth & Hnl & Hp1 & Hp2 & Hi & E)|(Ho1 & Ho2 & Hle & x & y & Ha & Hb & E)].
      * destruct index as [|j]; [|destruct j; discriminate]. cbn in Hnth. inversion Hnth; subst ty0 a0 m0 cs0.
        cbn [firstn frag_size] in *. unfold replace_child in E. cbn [firstn skipn app] in E. rewrite E in El.
        inversion El; subst ty' a' m' cs'. eapply IH; [exact Hs| | | |exact Hi]; lia.
      * exfalso. rewrite (opens_at_inside s [Elem ty at_ m cs] 0 ty at_ m cs from eq_refl Hn) in Ho1 by (cbn [firstn frag_size]; lia).
        discriminate.
    + exfalso. assert (Hlen : 2 <= length l).
      { destruct (remove_range_form _ _ _ _ _ H Hft) as
          [(index & ty0 & a0 & m0 & cs0 & l' & Hnth & Hnl & Hp1 & Hp2 & Hi & E)|(Ho1 & Ho2 & Hle & x & y & Ha & Hb & E)].
        - rewrite E. rewrite replace_child_length by (apply nth_error_Some; rewrite Hnth; discriminate).
          cbn [length]. rewrite app_length. cbn. lia.
        - pose proof (node_size_elem s ty1 a1 m1 cs1) as Hs1. unfold nl_ty in Hn1. rewrite Hn1 in Hs1.
          pose proof (node_size_elem s ty2 a2 m2 cs2) as Hs2. unfold nl_ty in Hn2. rewrite Hn2 in Hs2.
          set (content := Elem ty1 a1 m1 cs1 :: mid ++ [Elem ty2 a2 m2 cs2]) in *.
          assert (Hc2 : content = (Elem ty1 a1 m1 cs1 :: mid) ++ [Elem ty2 a2 m2 cs2]) by reflexivity.
          destruct (firstn_length_app (Elem ty1 a1 m1 cs1 :: mid) (Elem ty2 a2 m2 cs2) []) as (Hfi & Hnth & Hsk).
          rewrite <- Hc2 in Hfi, Hnth.
          assert (Hfs : fsize content = fsize (Elem ty1 a1 m1 cs1 :: mid) + nsize (Elem ty2 a2 m2 cs2)).
          { rewrite Hc2, frag_size_app. cbn [frag_size]. lia. }
          assert (Hge1 : nsize (Elem ty1 a1 m1 cs1) <= from).
          { destruct (Nat.le_gt_cases (nsize (Elem ty1 a1 m1 cs1)) from) as [Hx|Hx]; [exact Hx|exfalso].
            rewrite (opens_at_inside s content 0 ty1 a1 m1 cs1 from eq_refl Hn1) in Ho1 by (cbn [firstn frag_size]; lia).
            discriminate. }
          assert (Hge2 : to <= fsize (Elem ty1 a1 m1 cs1 :: mid)).
          { destruct (Nat.le_gt_cases to (fsize (Elem ty1 a1 m1 cs1 :: mid))) as [Hx|Hx]; [exact Hx|exfalso].
            rewrite (opens_at_inside s content _ ty2 a2 m2 cs2 to Hnth Hn2) in Ho2 by (rewrite Hfi; lia).
            discriminate. }
          destruct (frag_cut_head s _ _ _ _ _ _ _ Hge1 Ha) as (x' & ->).
          rewrite Hc2 in Hb. destruct (frag_cut_last s _ _ _ _ _ _ _ Hge2 Hb) as (y' & ->).
          destruct (frag_append_ends ty1 a1 m1 cs1 x' y' ty2 a2 m2 cs2) as (z & Ez). rewrite Ez in E.
          rewrite E. cbn [length]. rewrite app_length. cbn. lia. }
      rewrite El in Hlen. cbn in Hlen. lia.
Qed.


(* the tokens a slice stands for once the gap is taken out of it *)
Lemma inner_without_gap {A} (Y X : list A) os oe a b :
  os <= a -> a <= b -> b + oe <= length Y -> X = firstn a Y ++ skipn b Y ->
  firstn (length X - os - oe) (skipn os X) =
  firstn (a - os) (firstn (length Y - os - oe) (skipn os Y)) ++ skipn (b - os) (firstn (length Y - os - oe) (skipn os Y)).
Proof.
  intros H1 H2 H3 ->.
  destruct (split5 Y os a b (length Y - oe) H1 H2 ltac:(lia) ltac:(lia)) as (Y1 & Y2 & Y3 & Y4 & Y5 & E & L1 & L2 & L3 & L4).
  assert (L5 : length Y5 = oe). { apply (f_equal (@length A)) in E. rewrite !app_length in E. lia. }
  subst Y. set (Y := Y1 ++ Y2 ++ Y3 ++ Y4 ++ Y5) in *.
  assert (LY : length Y = length Y1 + length Y2 + length Y3 + length Y4 + length Y5) by (unfold Y; rewrite !app_length; lia).
  assert (Ea : firstn a Y = Y1 ++ Y2).
  { unfold Y. rewrite app_assoc. apply firstn_exact. rewrite app_length. lia. }
  assert (Eb : skipn b Y = Y4 ++ Y5).
  { unfold Y. replace (Y1 ++ Y2 ++ Y3 ++ Y4 ++ Y5) with ((Y1 ++ Y2 ++ Y3) ++ Y4 ++ Y5) by (rewrite <- !app_assoc; reflexivity).
    apply skipn_exact. rewrite !app_length. lia. }
  assert (Em : firstn (length Y - os - oe) (skipn os Y) = Y2 ++ Y3 ++ Y4).
  { unfold Y at 2. rewrite (skipn_exact Y1) by lia.
    replace (Y2 ++ Y3 ++ Y4 ++ Y5) with ((Y2 ++ Y3 ++ Y4) ++ Y5) by (rewrite <- !app_assoc; reflexivity).
    apply firstn_exact. rewrite !app_length. lia. }
  rewrite Em, Ea, Eb. rewrite (firstn_exact Y2) by lia.
  replace (Y2 ++ Y3 ++ Y4) with ((Y2 ++ Y3) ++ Y4) by (rewrite <- app_assoc; reflexivity).
  rewrite (skipn_exact (Y2 ++ Y3)) by (rewrite app_length; lia).
  rewrite <- (app_assoc Y1). rewrite (skipn_exact Y1) by lia.
  replace (Y2 ++ Y4 ++ Y5) with ((Y2 ++ Y4) ++ Y5) by (rewrite <- app_assoc; reflexivity).
  apply firstn_exact. rewrite !app_length. lia.
Qed.

(* Slice.remove_between: the slice keeps its open sides and stands for its old tokens minus the gap *)
Lemma remove_between_IT sl a b rem :
  ShapeS sl -> a <= b -> b <= length (IT sl) -> remove_between s sl a b = Ok rem ->
  ShapeS rem /\ IT rem = firstn a (IT sl) ++ skipn b (IT sl).
Proof.
  intros Hs Hab Hb H. unfold remove_between in H.
  destruct (remove_range s _ (sl_content sl) (a + sl_open_start sl) (b + sl_open_start sl)) as [c|] eqn:Er; [|discriminate].
  cbn [bind] in H. inversion H; subst rem. clear H. cbn [sl_content sl_open_start sl_open_end].
  pose proof (Shape_size s _ _ _ Hs) as Hsz. pose proof (IT_length s sl Hs) as Hl. unfold slice_size in Hl.
  assert (Hft : a + sl_open_start sl <= b + sl_open_start sl) by lia.
  destruct (remove_range_toks _ _ _ _ _ Er Hft) as (Hle & Ht).
  split.
  - eapply remove_range_Shape; [exact Hs| | | |exact Er]; lia.
  - unfold IT, inner_toks. cbn [sl_content sl_open_start sl_open_end].
    set (os := sl_open_start sl) in *. set (oe := sl_open_end sl) in *.
    set (F := ftoks (sl_content sl)) in *. set (X := ftoks c) in *.
    assert (HX : nt X = firstn (a + os) (nt F) ++ skipn (b + os) (nt F)).
    { rewrite Ht. unfold nt. rewrite firstn_map, skipn_map. reflexivity. }
    assert (HlF : length (nt F) = length F) by apply map_length.
    assert (HlX : length (nt X) = length X) by apply map_length.
    assert (EL : nt (firstn (length X - os - oe) (skipn os X)) = firstn (length (nt X) - os - oe) (skipn os (nt X))).
    { rewrite HlX. unfold nt. rewrite skipn_map, firstn_map. reflexivity. }
    assert (EM : nt (firstn (length F - os - oe) (skipn os F)) = firstn (length (nt F) - os - oe) (skipn os (nt F))).
    { rewrite HlF. unfold nt. rewrite skipn_map, firstn_map. reflexivity. }
    rewrite EL, EM.
    pose proof (inner_without_gap (nt F) (nt X) os oe (a + os) (b + os)) as Hk.
    replace (a + os - os) with a in Hk by lia. replace (b + os - os) with b in Hk by lia.
    apply Hk; [lia|lia| |exact HX].
    rewrite HlF. unfold F. rewrite ftoks_length. lia.
Qed.

(* ------------------------------------------------------------------ C04: exact undo of a replace-around step *)
Theorem around_step_undo_on from to gf gt sl ins structure doc d' inv e d'' :
  V doc -> ShapeS sl -> from <= gf -> gf <= gt -> gt <= to -> ins <= length (IT sl) ->
  apply s (SReplaceAround from to gf gt sl ins structure) doc = ROk d' ->
  invert_step s (SReplaceAround from to gf gt sl ins structure) doc = Ok inv ->
  V e -> DT e = DT d' ->
  apply s inv e = ROk d'' ->
  DT d'' = DT doc.
Proof.
  intros Hd Hs H1 H2 H3 Hins Ha Hi Hd' HeT Hb.
  destruct (replace_around_splice s _ _ _ _ _ _ _ _ _ Hd Hs H2 Hins Ha) as (Bf & Bt & E').
  cbn [invert_step] in Hi. destruct (node_slice s doc from to) as [old|] eqn:Eo; [|discriminate]. cbn [bind] in Hi.
  destruct (remove_between s old (gf - from) (gt - from)) as [rem|] eqn:Erm; [|discriminate]. cbn [bind] in Hi.
  inversion Hi; subst inv. clear Hi.
  assert (Hft : from <= to) by lia.
  destruct (node_slice_IT s _ _ _ _ Hft Eo) as (Hso & Hio).
  destruct (split5 (DT doc) from gf gt to H1 H2 H3 Bt) as (P & D1 & G & D2 & S & ET & L1 & L2 & L3 & L4).
  assert (Eold : IT old = D1 ++ G ++ D2).
  { rewrite Hio, ET. unfold seg. rewrite (skipn_exact P) by lia.
    replace (D1 ++ G ++ D2 ++ S) with ((D1 ++ G ++ D2) ++ S) by (rewrite <- !app_assoc; reflexivity).
    apply firstn_exact. rewrite !app_length. lia. }
  assert (Hbl : gt - from <= length (IT old)) by (rewrite Eold, !app_length; lia).
  destruct (remove_between_IT old (gf - from) (gt - from) rem Hso ltac:(lia) Hbl Erm) as (Hsr & Hir).
  assert (Erem : IT rem = D1 ++ D2).
  { rewrite Hir, Eold. rewrite (firstn_exact D1) by lia. rewrite app_assoc, (skipn_exact (D1 ++ G)) by (rewrite app_length; lia).
    reflexivity. }
  assert (EP : firstn from (DT doc) = P) by (rewrite ET; apply firstn_exact; lia).
  assert (EG : seg (DT doc) gf gt = G).
  { rewrite ET. unfold seg. rewrite app_assoc, (skipn_exact (P ++ D1)) by (rewrite app_length; lia). apply firstn_exact. lia. }
  assert (ES : skipn to (DT doc) = S).
  { rewrite ET. replace (P ++ D1 ++ G ++ D2 ++ S) with ((P ++ D1 ++ G ++ D2) ++ S) by (rewrite <- !app_assoc; reflexivity).
    apply skipn_exact. rewrite !app_length. lia. }
  rewrite EP, EG, ES in E'.
  set (I1 := firstn ins (IT sl)) in *. set (I2 := skipn ins (IT sl)) in *.
  assert (LI1 : length I1 = ins) by (unfold I1; rewrite firstn_length; lia).
  assert (LI2 : length I2 = length (IT sl) - ins) by (unfold I2; rewrite skipn_length; lia).
  pose proof (IT_length s sl Hs) as Hl.
  assert (Hins' : gf - from <= length (IT rem)) by (rewrite Erem, app_length; lia).
  assert (Hg' : from + ins <= from + ins + (gt - gf)) by lia.
  destruct (replace_around_splice s _ _ _ _ _ _ _ _ _ Hd' Hsr Hg' Hins' Hb) as (_ & _ & E'').
  replace (Z.to_nat (Z.of_nat from + slice_size s sl + Z.of_nat (gt - gf))) with (from + length (IT sl) + (gt - gf)) in E'' by lia.
  rewrite E'', HeT, E', Erem, ET.
  rewrite (firstn_exact P) by lia. rewrite (firstn_exact D1) by lia. rewrite (skipn_exact D1) by lia.
  assert (EG' : seg (P ++ I1 ++ G ++ I2 ++ S) (from + ins) (from + ins + (gt - gf)) = G).
  { unfold seg. rewrite app_assoc, (skipn_exact (P ++ I1)) by (rewrite app_length; lia). apply firstn_exact. lia. }
  assert (ES' : skipn (from + length (IT sl) + (gt - gf)) (P ++ I1 ++ G ++ I2 ++ S) = S).
  { replace (P ++ I1 ++ G ++ I2 ++ S) with ((P ++ I1 ++ G ++ I2) ++ S) by (rewrite <- !app_assoc; reflexivity).
    apply skipn_exact. rewrite !app_length. lia. }
  rewrite EG', ES'. reflexivity.
Qed.

Theorem around_step_undo from to gf gt sl ins structure doc d' inv d'' :
  V doc -> V d' -> ShapeS sl -> from <= gf -> gf <= gt -> gt <= to -> ins <= length (IT sl) ->
  apply s (SReplaceAround from to gf gt sl ins structure) doc = ROk d' ->
  invert_step s (SReplaceAround from to gf gt sl ins structure) doc = Ok inv ->
  apply s inv d' = ROk d'' ->
  DT d'' = DT doc.
Proof.
  intros Hd Hd' Hs H1 H2 H3 Hins Ha Hi Hb.
  exact (around_step_undo_on _ _ _ _ _ _ _ _ _ _ d' _ Hd Hs H1 H2 H3 Hins Ha Hi Hd' eq_refl Hb).
Qed.

(* the size of the slice cut out of a document is the width of the range *)
Lemma node_slice_size doc from to old :
  from <= to -> node_slice s doc from to = Ok old -> length (IT old) = to - from.
Proof.
  intros Hft Eo. destruct (node_slice_IT s _ _ _ _ Hft Eo) as (Hso & Hio).
  unfold node_slice in Eo. destruct (from =? to) eqn:Eft.
  - apply Nat.eqb_eq in Eft. subst to. inversion Eo; subst old. unfold IT, inner_toks. cbn. lia.
  - destruct (resolve s doc from) as [rf|] eqn:Ef; [|discriminate].
    destruct (resolve s doc to) as [rt|] eqn:Et; [|discriminate].
    destruct (resolve_tokens s _ _ _ Et) as (Hlt & _).
    rewrite Hio. unfold seg. rewrite firstn_length, skipn_length, DT_length. lia.
Qed.

(* the inverse step's position map maps every position exactly as the inverted original map does *)
Theorem around_step_inverse_map from to gf gt sl ins structure doc inv :
  ShapeS sl -> from <= gf -> gf <= gt -> gt <= to -> ins <= length (IT sl) ->
  invert_step s (SReplaceAround from to gf gt sl ins structure) doc = Ok inv ->
  forall p a, map_result (get_map s inv) p a =
              map_result (StepMap.invert (get_map s (SReplaceAround from to gf gt sl ins structure))) p a.
Proof.
  intros Hs H1 H2 H3 Hins Hi p a.
  cbn [invert_step] in Hi. destruct (node_slice s doc from to) as [old|] eqn:Eo; [|discriminate]. cbn [bind] in Hi.
  destruct (remove_between s old (gf - from) (gt - from)) as [rem|] eqn:Erm; [|discriminate]. cbn [bind] in Hi.
  inversion Hi; subst inv. clear Hi.
  assert (Hft : from <= to) by lia.
  destruct (node_slice_IT s _ _ _ _ Hft Eo) as (Hso & _).
  pose proof (node_slice_size _ _ _ _ Hft Eo) as Hlo.
  assert (Hab : gf - from <= gt - from) by lia.
  assert (Hbl : gt - from <= length (IT old)) by lia.
  destruct (remove_between_IT old (gf - from) (gt - from) rem Hso Hab Hbl Erm) as (Hsr & Hir).
  pose proof (IT_length s rem Hsr) as Hlr. rewrite Hir, app_length, firstn_length, skipn_length in Hlr.
  pose proof (IT_length s sl Hs) as Hl.
  rewrite (inverted_as_plain (get_map s (SReplaceAround from to gf gt sl ins structure))) by reflexivity.
  unfold map_result. cbn [get_map ranges inverted flip_ranges start_of old_of new_of]. rewrite Z.sub_0_r.
  replace (Z.of_nat (from + ins) - Z.of_nat from)%Z with (Z.of_nat ins) by lia.
  replace (Z.of_nat (gf - from)) with (Z.of_nat gf - Z.of_nat from)%Z by lia.
  replace (Z.of_nat (from + ins + (gt - gf))) with (Z.of_nat gt - (0 + (Z.of_nat gf - Z.of_nat from - Z.of_nat ins)))%Z by lia.
  replace (Z.of_nat (Z.to_nat (Z.of_nat from + slice_size s sl + Z.of_nat (gt - gf))) -
           (Z.of_nat gt - (0 + (Z.of_nat gf - Z.of_nat from - Z.of_nat ins))))%Z with (slice_size s sl - Z.of_nat ins)%Z by lia.
  replace (slice_size s rem - (Z.of_nat gf - Z.of_nat from))%Z with (Z.of_nat to - Z.of_nat gt)%Z by lia.
  reflexivity.
Qed.

End WithSchema.
