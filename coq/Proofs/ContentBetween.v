(* replace_step.content_between: when it answers "no content" for a range that starts at a position that
   is not inside a text node, the tokens of the range are close tokens followed by open tokens — no text
   and no leaf.  So a step with the structure flag that applies deletes structure only (C12). *)
From Coq Require Import ZArith NArith List Bool Arith Lia.
From PM Require Import Model.Data Model.Mark Model.Tree Model.Resolve Model.StepMap Model.Step Spec.Tokens
  Proofs.ReplaceValid Proofs.SliceSides Proofs.TokenBasics Proofs.PathTokens Proofs.ReplaceTokens Proofs.SliceShape
  Proofs.StepFaithful Proofs.SliceTokens Proofs.SliceCut Proofs.TokenLaws Proofs.StepAlgebra Proofs.StepTokens.
Import ListNotations.
Local Open Scope nat_scope.

Section WithSchema.
Variable s : schema.
Notation nsize := (node_size s).
Notation fsize := (frag_size s).
Notation toks := (toks s).
Notation ftoks := (ftoks s).
Notation entry := (node * nat * nat)%type.

(* the siblings that follow the position at depth d *)
Definition F (r : rpos) (d : nat) : list tok :=
  match rp_node r d, rp_index_after r d with
  | Ok n, Ok ia => ftoks (skipn ia (node_content n))
  | _, _ => []
  end.
(* everything that follows the position, read from depth d outwards *)
Fixpoint R (r : rpos) (d : nat) : list tok :=
  F r d ++ match d with 0 => [] | S d' => TClose :: R r d' end.

Lemma R_unfold r d : R r d = F r d ++ match d with 0 => [] | S d' => TClose :: R r d' end.
Proof. destruct d; reflexivity. Qed.

Lemma ftoks_skipn_nth l i : ftoks (skipn i l) = match nth_error l i with Some c => toks c ++ ftoks (skipn (S i) l) | None => [] end.
Proof.
  destruct (nth_error l i) as [c|] eqn:E; [rewrite (skipn_nth_cons _ _ _ E); reflexivity|].
  apply nth_error_None in E. rewrite skipn_all2 by lia. reflexivity.
Qed.

Lemma after_p_R r : rp_text_offset r = 0 -> rp_path r <> [] ->
  forall k d, d + k = rp_depth r ->
  R r (rp_depth r) = after_p s (skipn d (rp_path r)) 0 ++ match d with 0 => [] | S d' => TClose :: R r d' end.
Proof.
  intros Hoff Hne. assert (Hlen : length (rp_path r) = S (rp_depth r)).
  { unfold rp_depth. destruct (rp_path r); [contradiction|cbn; lia]. }
  induction k as [|k IH]; intros d Hd.
  - (* the deepest entry *)
    assert (d = rp_depth r) by lia. subst d.
    destruct (nth_error (rp_path r) (rp_depth r)) as [[[n i] o]|] eqn:En; [|apply nth_error_None in En; lia].
    assert (Hsk : skipn (rp_depth r) (rp_path r) = [(n, i, o)]).
    { rewrite (skipn_nth_cons _ _ _ En). rewrite skipn_all2 by lia. reflexivity. }
    rewrite Hsk. cbn [after_p]. destruct (rp_depth r) as [|D] eqn:ED.
    + cbn [R]. unfold F, rp_node, rp_index_after, rp_index, path_at. rewrite En. cbn [bind]. rewrite ED, Hoff. cbn [Nat.eqb andb].
      rewrite Nat.add_0_r, !app_nil_r, ftoks_skipn_nth. destruct (nth_error (node_content n) i); reflexivity.
    + cbn [R]. f_equal. unfold F, rp_node, rp_index_after, rp_index, path_at. rewrite En. cbn [bind]. rewrite ED, Nat.eqb_refl, Hoff. cbn [Nat.eqb andb].
      rewrite Nat.add_0_r, ftoks_skipn_nth. destruct (nth_error (node_content n) i); reflexivity.
  - specialize (IH (S d) ltac:(lia)). rewrite IH.
    destruct (nth_error (rp_path r) d) as [[[n i] o]|] eqn:En; [|apply nth_error_None in En; lia].
    rewrite (skipn_nth_cons _ _ _ En).
    destruct (skipn (S d) (rp_path r)) as [|e rest] eqn:Es.
    { exfalso. apply (f_equal (@length entry)) in Es. rewrite skipn_length in Es. cbn in Es. lia. }
    cbn [after_p]. fold (after_p s (e :: rest) 0). rewrite <- app_assoc. f_equal. cbn [app]. f_equal.
    rewrite (R_unfold r d). f_equal. unfold F, rp_node, rp_index_after, rp_index, path_at. rewrite En. cbn [bind].
    replace (d =? rp_depth r) with false by (symmetry; apply Nat.eqb_neq; lia). cbn [andb]. rewrite Nat.add_1_r. reflexivity.
Qed.

Lemma skipn_tokens_R doc pos r :
  resolve s doc pos = Ok r -> rp_text_offset r = 0 -> skipn pos (ftoks (node_content doc)) = R r (rp_depth r).
Proof.
  intros H Hoff. destruct (resolve_tokens s _ _ _ H) as (_ & _ & Ha). rewrite Hoff in Ha. rewrite <- Ha.
  destruct (resolve_spec s _ _ _ H) as (_ & _ & _ & (i & o & rest & Hh) & _).
  rewrite (after_p_R r Hoff ltac:(rewrite Hh; discriminate) (rp_depth r) 0 ltac:(lia)). cbn [skipn]. rewrite app_nil_r. reflexivity.
Qed.

(* going up: each step consumes one close token *)
Lemma cb_up_spec r : forall depth dist dist' depth',
  cb_up r dist depth = Ok (dist', depth') ->
  exists k, dist = dist' + k /\ depth = depth' + k /\ R r depth = repeat TClose k ++ R r depth' /\
            (dist' = 0 \/ depth' = 0 \/
             exists n ia, rp_node r depth' = Ok n /\ rp_index_after r depth' = Ok ia /\ ia <> length (node_content n)).
Proof.
  induction depth as [|d IH]; intros dist dist' depth' H; cbn [cb_up] in H.
  - inversion H; subst. exists 0. cbn. repeat split; auto.
  - destruct (dist =? 0) eqn:Ez.
    + inversion H; subst. apply Nat.eqb_eq in Ez. subst. exists 0. cbn [repeat app]. repeat split; auto.
    + apply Nat.eqb_neq in Ez. destruct (rp_index_after r (S d)) as [ia|] eqn:Ei; [|discriminate]. cbn [bind] in H.
      destruct (rp_node r (S d)) as [n|] eqn:En; [|discriminate]. cbn [bind] in H.
      destruct (ia =? length (node_content n)) eqn:Ea.
      * apply Nat.eqb_eq in Ea. destruct (IH _ _ _ H) as (k & H1 & H2 & H3 & H4).
        exists (S k). split; [lia|]. split; [lia|]. split; [|exact H4].
        cbn [R]. unfold F. rewrite En, Ei, Ea, skipn_all. cbn [Tokens.ftoks app repeat]. rewrite H3. reflexivity.
      * apply Nat.eqb_neq in Ea. inversion H; subst. exists 0. cbn [repeat app]. repeat split; auto. right. right. eauto.
Qed.

(* going down: each step consumes one open token *)
Hypothesis text_is_leaf : is_leaf_ty s (s_text s) = true.

Lemma cb_down_opens : forall dist l i,
  cb_down s (nth_error l i) dist = false ->
  exists opens rest, ftoks (skipn i l) = opens ++ rest /\ length opens = dist /\ leaves opens = [].
Proof.
  induction dist as [|dist IH]; intros l i H.
  - exists [], (ftoks (skipn i l)). auto.
  - cbn [cb_down] in H. destruct (nth_error l i) as [n|] eqn:En; [|discriminate].
    destruct (is_leaf_ty s (node_ty s n)) eqn:El; [discriminate|].
    destruct n as [t m|ty a m cs].
    { (* a text node is a leaf *) exfalso. cbn [node_ty] in El. congruence. }
    cbn [node_ty] in El. cbn [node_content] in H.
    assert (Hfc : match cs with [] => None | c :: _ => Some c end = nth_error cs 0) by (destruct cs; reflexivity).
    rewrite Hfc in H. destruct (IH cs 0 H) as (opens & rest & E & Hl & Hv). cbn [skipn] in E.
    rewrite (skipn_nth_cons _ _ _ En). cbn [Tokens.ftoks]. rewrite toks_elem, El, E.
    exists (TOpen ty a m :: opens), (rest ++ [TClose] ++ ftoks (skipn (S i) l)).
    split; [cbn [app]; rewrite <- !app_assoc; reflexivity|]. split; [cbn; lia|]. unfold leaves in *. cbn [filter is_leaf_tok]. exact Hv.
Qed.

Lemma leaves_repeat_close k : leaves (repeat TClose k) = [].
Proof. induction k; cbn; auto. Qed.

Theorem content_between_no_leaves doc from to r :
  resolve s doc from = Ok r -> rp_text_offset r = 0 -> from <= to ->
  content_between s doc from to = Ok false ->
  leaves (seg (ftoks (node_content doc)) from to) = [].
Proof.
  intros Hr Hoff Hft H. unfold content_between in H. rewrite Hr in H. cbn [bind] in H.
  destruct (cb_up r (to - from) (rp_depth r)) as [[dist depth]|] eqn:Eu; [|discriminate]. cbn [bind] in H.
  destruct (cb_up_spec r _ _ _ _ Eu) as (k & H1 & H2 & H3 & H4).
  unfold seg. rewrite (skipn_tokens_R _ _ _ Hr Hoff), H3.
  destruct (dist =? 0) eqn:Ez.
  - apply Nat.eqb_eq in Ez. subst dist. rewrite firstn_app_l by (rewrite repeat_length; lia).
    rewrite firstn_all2 by (rewrite repeat_length; lia). apply leaves_repeat_close.
  - destruct (rp_node r depth) as [n|] eqn:En; [|discriminate]. cbn [bind] in H.
    destruct (rp_index_after r depth) as [ia|] eqn:Ei; [|discriminate]. cbn [bind] in H. inversion H as [Hd]. clear H.
    unfold child_at in Hd. destruct (cb_down_opens _ _ _ Hd) as (opens & rest & E & Hl & Hv).
    rewrite firstn_app_r by (rewrite repeat_length; lia). rewrite repeat_length.
    replace (to - from - k) with dist by lia.
    assert (HR : R r depth = opens ++ (rest ++ match depth with 0 => [] | S d' => TClose :: R r d' end)).
    { destruct depth; cbn [R]; unfold F; rewrite En, Ei, E, <- app_assoc; reflexivity. }
    rewrite HR. rewrite firstn_app_l by lia. rewrite firstn_all2 by lia.
    unfold leaves in *. rewrite filter_app, Hv, app_nil_r. apply leaves_repeat_close.
Qed.

End WithSchema.
