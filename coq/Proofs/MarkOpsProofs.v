(* Transform.add_mark / remove_mark (Model/MarkOps.v): every step the planners emit is an add-mark / remove-mark step
   whose range lies inside the operation's range, so the whole operation - however many steps it plans - changes
   nothing but marks of tokens inside [from, to) (C13). *)
From Coq Require Import ZArith NArith List Bool Arith Lia.
From PM Require Import Model.Data Model.Mark Model.Tree Model.Resolve Model.StepMap Model.Step Model.MarkOps Spec.Tokens
  Proofs.ReplaceValid Proofs.TokenBasics Proofs.ReplaceTokens Proofs.SliceShape Proofs.TokenLaws Proofs.MarkSteps
  Proofs.MarkPointwise Proofs.MarkMerge.
Import ListNotations.
Local Open Scope nat_scope.

Section WithSchema.
Variable s : schema.
Notation V := (V s).
Notation DT := (DT s).

(* an add-mark / remove-mark step over a range inside [from, to] *)
Definition MarkIn (from to : nat) (st : step) : Prop :=
  exists f t, mark_step_range st = Some (f, t) /\ from <= f /\ t <= to.

Lemma am_remove_one_in from to start end_ new_set removed x :
  from <= start -> end_ <= to -> Forall (MarkIn from to) removed ->
  Forall (MarkIn from to) (am_remove_one start end_ new_set removed x).
Proof.
  intros H1 H2 H. unfold am_remove_one. destruct (is_in_set x new_set); [exact H|].
  assert (Hnew : MarkIn from to (SRemoveMark start end_ x)) by (exists start, end_; cbn; auto).
  destruct removed as [|[| | |f t m0| | | |] rest]; try (constructor; assumption).
  destruct ((t =? start) && mark_eqb m0 x); [|constructor; assumption].
  inversion H as [|? ? Hh Ht]; subst. constructor; [|exact Ht].
  destruct Hh as (f0 & t0 & E & Hf & _). cbn in E. inversion E; subst f0 t0. exists f, end_. cbn. auto.
Qed.

Lemma am_visit_in mk from to st v :
  Forall (MarkIn from to) (fst st) -> Forall (MarkIn from to) (snd st) ->
  Forall (MarkIn from to) (fst (am_visit s mk from to st v)) /\ Forall (MarkIn from to) (snd (am_visit s mk from to st v)).
Proof.
  destruct st as [removed added]. cbn [fst snd]. intros Hr Ha. unfold am_visit.
  destruct (negb (node_is_inline s (v_node v))); [cbn; auto|].
  destruct (negb (is_in_set mk (node_marks (v_node v))) && _); [|cbn; auto]. cbn [fst snd].
  set (start := Nat.max (v_pos v) from). set (end_ := Nat.min (v_pos v + node_size s (v_node v)) to).
  assert (H1 : from <= start) by (unfold start; lia). assert (H2 : end_ <= to) by (unfold end_; lia).
  split.
  - generalize (node_marks (v_node v)) at 2 as l. intros l. revert removed Hr.
    induction l as [|x l IH]; intros removed Hr; [exact Hr|]. cbn [fold_left]. apply IH. apply am_remove_one_in; assumption.
  - assert (Hnew : MarkIn from to (SAddMark start end_ mk)) by (exists start, end_; cbn; auto).
    destruct added as [|[| |f t m0| | | | |] rest]; try (constructor; assumption).
    destruct (t =? start); [|constructor; assumption].
    inversion Ha as [|? ? Hh Ht]; subst. constructor; [|exact Ht].
    destruct Hh as (f0 & t0 & E & Hf & _). cbn in E. inversion E; subst f0 t0. exists f, end_. cbn. auto.
Qed.

Theorem plan_add_mark_in doc from to mk sts :
  plan_add_mark s doc from to mk = Ok sts -> Forall (MarkIn from to) sts.
Proof.
  unfold plan_add_mark. destruct (nodes_between_node s (fun _ => true) doc from to 0) as [vs|]; [|discriminate]. cbn [bind].
  assert (G : forall vs st, Forall (MarkIn from to) (fst st) -> Forall (MarkIn from to) (snd st) ->
            Forall (MarkIn from to) (fst (fold_left (am_visit s mk from to) vs st)) /\
            Forall (MarkIn from to) (snd (fold_left (am_visit s mk from to) vs st))).
  { clear. induction vs as [|v vs IH]; intros st H1 H2; [auto|]. cbn [fold_left].
    destruct (am_visit_in mk from to st v H1 H2) as (H3 & H4). apply IH; assumption. }
  destruct (G vs ([], []) (Forall_nil _) (Forall_nil _)) as (H1 & H2).
  destruct (fold_left (am_visit s mk from to) vs ([], [])) as [removed added]. cbn [fst snd] in H1, H2.
  intros H. inversion H; subst sts. apply Forall_app. split; apply Forall_rev; assumption.
Qed.

(* ------------------------------------------------------------------ remove_mark *)
Definition MatchedIn (from to : nat) (m : matched) : Prop := from <= mt_from m /\ mt_to m <= to.

Lemma rm_update_last_in from to ms style step end_ ms' :
  end_ <= to -> Forall (MatchedIn from to) ms -> rm_update_last ms style step end_ = Some ms' -> Forall (MatchedIn from to) ms'.
Proof.
  intros He. revert ms'. induction ms as [|m r IH]; intros ms' H E; cbn [rm_update_last] in E; [discriminate|].
  inversion H as [|? ? Hm Hr]; subst.
  destruct (rm_update_last r style step end_) as [r'|].
  - inversion E; subst ms'. constructor; [exact Hm|]. apply IH; auto.
  - destruct ((mt_step m =? step - 1) && mark_eqb style (mt_style m)); [|discriminate].
    inversion E; subst ms'. constructor; [|exact Hr]. destruct Hm as (H1 & _). split; cbn; assumption.
Qed.

Lemma rm_one_in from to pos end_ step ms style :
  end_ <= to -> Forall (MatchedIn from to) ms -> Forall (MatchedIn from to) (rm_one from pos end_ step ms style).
Proof.
  intros He H. unfold rm_one. destruct (rm_update_last ms style step end_) as [ms'|] eqn:E.
  - eapply rm_update_last_in; eauto.
  - apply Forall_app. split; [exact H|]. constructor; [|constructor]. split; cbn; [lia|exact He].
Qed.

Theorem plan_remove_mark_in doc from to sel sts :
  plan_remove_mark s doc from to sel = Ok sts -> Forall (MarkIn from to) sts.
Proof.
  unfold plan_remove_mark. destruct (nodes_between_node s (fun _ => true) doc from to 0) as [vs|]; [|discriminate]. cbn [bind].
  assert (G : forall vs st, Forall (MatchedIn from to) (fst st) ->
            Forall (MatchedIn from to) (fst (fold_left (rm_visit s sel from to) vs st))).
  { clear. induction vs as [|v vs IH]; intros st H; [exact H|]. cbn [fold_left]. apply IH.
    destruct st as [ms step]. unfold rm_visit. cbn [fst] in H. destruct (negb (node_is_inline s (v_node v))); [exact H|]. cbn [fst].
    set (end_ := Nat.min (v_pos v + node_size s (v_node v)) to). assert (He : end_ <= to) by (unfold end_; lia).
    generalize (rm_to_remove sel (node_marks (v_node v))) as l. intros l. revert ms H.
    induction l as [|x l IHl]; intros ms H; [exact H|]. cbn [fold_left]. apply IHl. apply rm_one_in; assumption. }
  pose proof (G vs ([], 0) (Forall_nil _)) as H.
  destruct (fold_left (rm_visit s sel from to) vs ([], 0)) as [ms n]. cbn [fst] in H.
  intros E. inversion E; subst sts. clear - H. induction H as [|m ms Hm _ IH]; cbn [List.map]; constructor; [|exact IH].
  destruct Hm as (H1 & H2). exists (mt_from m), (mt_to m). cbn. auto.
Qed.

(* ------------------------------------------------------------------ the whole operation *)
Lemma node_replace_le doc from to sl d' : node_replace s doc from to sl = Ok d' -> from <= to.
Proof.
  unfold node_replace. destruct (resolve s doc from) as [rf|] eqn:Ef; [|discriminate].
  destruct (resolve s doc to) as [rt|] eqn:Et; [|discriminate]. cbn [bind]. unfold replace_rp.
  destruct (resolve_spec s _ _ _ Ef) as (Pf & _). destruct (resolve_spec s _ _ _ Et) as (Pt & _).
  destruct (rp_depth rf <? sl_open_start sl); [discriminate|].
  destruct (negb _); [discriminate|]. destruct (rp_pos rt <? rp_pos rf) eqn:El; [discriminate|].
  apply Nat.ltb_ge in El. lia.
Qed.

Lemma firstn_le_eq {A} (a b : nat) (X Y : list A) : a <= b -> firstn b X = firstn b Y -> firstn a X = firstn a Y.
Proof.
  intros Hab H. assert (E : forall Z : list A, firstn a Z = firstn a (firstn b Z)).
  { intros Z. rewrite firstn_firstn. f_equal. lia. }
  rewrite (E X), (E Y), H. reflexivity.
Qed.
Lemma skipn_le_eq {A} (a b : nat) (X Y : list A) : a <= b -> skipn a X = skipn a Y -> skipn b X = skipn b Y.
Proof.
  intros Hab H. assert (E : forall Z : list A, skipn b Z = skipn (b - a) (skipn a Z)).
  { intros Z. rewrite skipn_skipn_add. f_equal. lia. }
  rewrite (E X), (E Y), H. reflexivity.
Qed.

(* the steps run one after the other, each on a valid document *)
Fixpoint RunV (d : node) (sts : list step) (r : node) : Prop :=
  match sts with
  | [] => r = d
  | st :: rest => V d /\ exists d1, apply s st d = ROk d1 /\ RunV d1 rest r
  end.

Theorem mark_steps_change_only_marks_in_range from to : forall sts doc d',
  Forall (MarkIn from to) sts -> RunV doc sts d' ->
  length (DT d') = length (DT doc) /\
  firstn from (DT d') = firstn from (DT doc) /\
  skipn to (DT d') = skipn to (DT doc) /\
  shs (DT d') = shs (DT doc).
Proof.
  induction sts as [|st sts IH]; intros doc d' Hin Hrun.
  - cbn in Hrun. subst d'. auto.
  - inversion Hin as [|? ? Hst Hrest]; subst. cbn [RunV] in Hrun. destruct Hrun as (Hd & d1 & Ha & Hr).
    destruct Hst as (f & t & Er & Hf & Ht).
    assert (Hft : f <= t).
    { destruct (apply_mark_inv s _ _ _ _ _ Er Ha) as (old & g & parent & _ & _ & E). exact (node_replace_le _ _ _ _ _ E). }
    destruct (mark_step_tokens s st f t doc d1 Hd Hft Er Ha) as (L1 & F1 & S1 & Sh1).
    destruct (IH d1 d' Hrest Hr) as (L2 & F2 & S2 & Sh2).
    split; [congruence|]. split; [|split; [|congruence]].
    + rewrite F2. exact (firstn_le_eq from f _ _ Hf F1).
    + rewrite S2. exact (skipn_le_eq t to _ _ Ht S1).
Qed.

(* ------------------------------------------------------------------ the effect of a run of mark steps, token by token
   Token i of the result is token i of the starting document, re-marked in turn by every step whose range contains i -
   each time by that step's rule ([step_updN]: add_to_set where the enclosing node's type allows the mark, on atoms;
   remove_from_set on inline tokens), read in the context token i has in the STARTING document (mark steps never change
   contexts). *)
Definition touches_tok (st : step) (i : nat) : bool :=
  match mark_step_range st with Some (f, t) => (f <=? i) && (i <? t) | None => false end.

Definition apply_tok (pty : nat) (i : nat) (tk : tok) (st : step) : tok :=
  if touches_tok st i then ftok s (step_updN s st) pty tk else tk.

Definition IsMarkStep (st : step) : Prop := exists f t, mark_step_range st = Some (f, t).

Theorem mark_run_pointwise : forall sts doc d',
  Forall IsMarkStep sts -> RunV doc sts d' ->
  node_ty s d' = node_ty s doc /\
  length (DT d') = length (DT doc) /\
  (forall i, ctxT (node_ty s doc) (DT d') i = ctxT (node_ty s doc) (DT doc) i) /\
  forall i t0, nth_error (DT doc) i = Some t0 ->
    nth_error (DT d') i = Some (fold_left (apply_tok (snd (ctxT (node_ty s doc) (DT doc) i)) i) sts t0).
Proof.
  induction sts as [|st sts IH]; intros doc d' Hall Hrun.
  - cbn in Hrun. subst d'. repeat split; auto.
  - inversion Hall as [|? ? (f & t & Er) Hrest]; subst. cbn [RunV] in Hrun. destruct Hrun as (Hd & d1 & Ha & Hr).
    assert (Hft : f <= t).
    { destruct (apply_mark_inv s _ _ _ _ _ Er Ha) as (old & g & parent & _ & _ & E). exact (node_replace_le _ _ _ _ _ E). }
    destruct (mark_step_root s _ _ _ _ _ Er Ha) as (Hrty & Hto).
    pose proof (mark_step_normalised s st f t doc d1 Hd Hft Er Ha) as E1.
    destruct (IH d1 d' Hrest Hr) as (R1 & L1 & C1 & N1). rewrite Hrty in *.
    assert (Hc : forall i, ctxT (node_ty s doc) (DT d1) i = ctxT (node_ty s doc) (DT doc) i)
      by (intros i; rewrite E1; apply ctxT_remarkedT; exact Hft).
    split; [exact R1|]. split; [rewrite L1, E1; apply remarkedT_length; assumption|].
    split; [intros i; rewrite C1; apply Hc|].
    intros i t0 Hn. cbn [fold_left].
    pose proof (remarkedT_nth s (step_updN s st) (node_ty s doc) f t (DT doc) i t0 Hft Hto Hn) as H1. rewrite <- E1 in H1.
    rewrite (N1 i _ H1), Hc. f_equal. f_equal. unfold apply_tok, touches_tok. rewrite Er. reflexivity.
Qed.

End WithSchema.
