(* Further bounds on StepMap.map (property C08): the result is monotone in the
   association side, never negative, and moves a position by at most the sizes
   the map's ranges declare. *)
From Coq Require Import ZArith List Bool Lia ZifyBool.
From PM Require Import Model.StepMap Proofs.StepMapProofs Proofs.StepMapProofs2.
Import ListNotations.
Open Scope Z_scope.

Lemma map_go_assoc_mono rs : forall i d p a b lo,
  wf_ranges lo rs -> a <= b ->
  mr_pos (map_go false rs i d p a) <= mr_pos (map_go false rs i d p b).
Proof.
  induction rs as [|[[s x] y] rs IH]; intros i d p a b lo Hwf Hab; simpl in *.
  - lia.
  - destruct Hwf as (H1 & H2 & H3 & H4).
    replace (s - 0) with s by lia.
    destruct (s >? p) eqn:E1; simpl; [lia|].
    destruct (p <=? s + x) eqn:E2; simpl.
    + destruct (x =? 0) eqn:Ex.
      * destruct (a <? 0) eqn:Ea; destruct (b <? 0) eqn:Eb; lia.
      * destruct (p =? s); simpl; [lia|].
        destruct (p =? s + x); simpl; [lia|].
        destruct (a <? 0) eqn:Ea; destruct (b <? 0) eqn:Eb; lia.
    + apply (IH _ _ _ _ _ (s + x)); auto.
Qed.

Theorem map_assoc_mono m p a b : wf_map m -> a <= b -> map m p a <= map m p b.
Proof.
  unfold wf_map, map, map_result. intros Hwf Hab.
  destruct (inverted m).
  - rewrite !map_go_inv. apply (map_go_assoc_mono _ _ _ _ _ _ (0 - 0)); auto.
    apply wf_norm; auto.
  - apply (map_go_assoc_mono _ _ _ _ _ _ 0); auto.
Qed.

Theorem map_nonneg m p a : wf_map m -> 0 <= p -> 0 <= map m p a.
Proof.
  unfold wf_map, map, map_result. intros Hwf Hp.
  destruct (inverted m).
  - rewrite map_go_inv.
    pose proof (map_go_lower (norm 0 (ranges m)) 0 0 p a (0 - 0)) as H.
    assert (Hw : wf_ranges (0 - 0) (norm 0 (ranges m))) by (apply wf_norm; auto).
    specialize (H Hw). lia.
  - pose proof (map_go_lower (ranges m) 0 0 p a 0 Hwf). lia.
Qed.

(* Both sides of a position map to places at most one range's new size apart: the gap between the two
   associations is the inserted size of the single range the position falls in (or 0). *)
Fixpoint max_new (rs : list range) : Z :=
  match rs with [] => 0 | (_, _, y) :: rest => Z.max y (max_new rest) end.

Lemma max_new_nonneg rs : 0 <= max_new rs.
Proof. induction rs as [|[[s x] y] rs IH]; simpl; lia. Qed.

Lemma map_go_assoc_gap rs : forall i d p a b lo,
  wf_ranges lo rs ->
  mr_pos (map_go false rs i d p b) - mr_pos (map_go false rs i d p a) <= max_new rs.
Proof.
  induction rs as [|[[s x] y] rs IH]; intros i d p a b lo Hwf; simpl in *.
  - lia.
  - destruct Hwf as (H1 & H2 & H3 & H4).
    pose proof (max_new_nonneg rs) as Hn.
    replace (s - 0) with s by lia.
    destruct (s >? p) eqn:E1; simpl; [lia|].
    destruct (p <=? s + x) eqn:E2; simpl.
    + destruct (x =? 0) eqn:Ex.
      * destruct (a <? 0) eqn:Ea; destruct (b <? 0) eqn:Eb; lia.
      * destruct (p =? s); simpl; [lia|].
        destruct (p =? s + x); simpl; [lia|].
        destruct (a <? 0) eqn:Ea; destruct (b <? 0) eqn:Eb; lia.
    + specialize (IH (i + 1) (d + (y - x)) p a b (s + x) H4). lia.
Qed.

Theorem map_assoc_gap rs p a b :
  wf_ranges 0 rs ->
  map {| ranges := rs; inverted := false |} p b - map {| ranges := rs; inverted := false |} p a <= max_new rs.
Proof. unfold map, map_result; simpl. intros H. apply (map_go_assoc_gap _ _ _ _ _ _ 0); auto. Qed.

(* A position strictly outside every range (not at a boundary either) maps identically for both sides *)
Theorem map_outside_side_independent pre post p a b :
  all_before pre p ->
  (match post with [] => True | (s, _, _) :: _ => p < s end) ->
  map {| ranges := pre ++ post; inverted := false |} p a = map {| ranges := pre ++ post; inverted := false |} p b.
Proof. intros H1 H2. rewrite !rule_outside; auto. Qed.

(* ------------------------------------------------------------------ *)
(* A mirror-free Mapping over well-formed maps inherits all three bounds: it is the composition of its maps. *)
Lemma fold_maps_nonneg ms : forall p a, Forall wf_map ms -> 0 <= p -> 0 <= fold_maps ms p a.
Proof.
  induction ms as [|m ms IH]; intros p a Hwf Hp; simpl; auto.
  inversion Hwf as [|? ? Hm Hms]; subst. apply IH; auto. apply map_nonneg; auto.
Qed.

Theorem fold_maps_mono ms : forall p q a,
  Forall wf_map ms -> 0 <= p -> p <= q -> fold_maps ms p a <= fold_maps ms q a.
Proof.
  induction ms as [|m ms IH]; intros p q a Hwf Hp Hpq; simpl; auto.
  inversion Hwf as [|? ? Hm Hms]; subst. apply IH; auto.
  - apply map_nonneg; auto.
  - apply map_mono; auto.
Qed.

Theorem fold_maps_assoc_mono ms : forall p a b,
  Forall wf_map ms -> 0 <= p -> a <= b -> fold_maps ms p a <= fold_maps ms p b.
Proof.
  induction ms as [|m ms IH]; intros p a b Hwf Hp Hab; simpl; [lia|].
  inversion Hwf as [|? ? Hm Hms]; subst.
  transitivity (fold_maps ms (map m p a) b).
  - apply IH; auto. apply map_nonneg; auto.
  - apply fold_maps_mono; auto.
    + apply map_nonneg; auto.
    + apply map_assoc_mono; auto.
Qed.

(* ------------------------------------------------------------------ *)
(* Untouched positions survive a round trip through a map and its inverse. *)
Lemma wf_before_lt rest : forall lo p,
  wf_ranges lo rest -> all_before rest p -> lo < p -> lo < p + total_diff rest.
Proof.
  induction rest as [|[[s x] y] r IH]; intros lo p Hwf Hb Hlt; unfold total_diff; simpl; [lia|].
  destruct Hwf as (H1 & H2 & H3 & H4). destruct Hb as [[Hb0 Hb1] Hb2].
  specialize (IH (s + x) p H4 Hb2 Hb1). unfold total_diff in IH. lia.
Qed.

Lemma norm_app pre : forall post d, norm d (pre ++ post) = norm d pre ++ norm (d - total_diff pre) post.
Proof.
  induction pre as [|[[s x] y] pre IH]; intros post d; simpl.
  - f_equal. unfold total_diff; simpl. lia.
  - f_equal. rewrite IH. f_equal. f_equal. unfold total_diff; simpl. lia.
Qed.

Lemma total_diff_norm pre : forall d, total_diff (norm d pre) = - total_diff pre.
Proof.
  induction pre as [|[[s x] y] pre IH]; intros d; unfold total_diff in *; simpl; [lia|].
  rewrite IH. lia.
Qed.

Lemma all_before_norm pre : forall lo d p,
  wf_ranges lo pre -> all_before pre p -> all_before (norm d pre) (p - d + total_diff pre).
Proof.
  induction pre as [|[[s x] y] pre IH]; intros lo d p Hwf Hb; [simpl; auto|].
  simpl in Hwf, Hb. destruct Hwf as (H1 & H2 & H3 & H4). destruct Hb as [[Hb0 Hb1] Hb2].
  cbn [norm all_before].
  pose proof (wf_before_lt pre (s + x) p H4 Hb2 Hb1) as Hlt.
  match goal with |- context[total_diff ?l] => lazymatch l with (_ :: _) =>
    assert (Etd : total_diff l = (y - x) + total_diff pre) by (unfold total_diff; simpl; lia);
    rewrite !Etd end end.
  split; [split; lia|].
  replace (p - d + (y - x + total_diff pre)) with (p - (d + (x - y)) + total_diff pre) by lia.
  apply (IH (s + x)); auto.
Qed.

Theorem map_invert_roundtrip_outside pre post p a b :
  wf_ranges 0 pre -> all_before pre p ->
  (match post with [] => True | (s, _, _) :: _ => p < s end) ->
  let m := {| ranges := pre ++ post; inverted := false |} in
  map (invert m) (map m p a) b = p.
Proof.
  intros Hwf Hb Hp m. unfold m. rewrite rule_outside by auto.
  unfold map, invert; cbn [ranges inverted negb]. unfold map_result; cbn [ranges inverted].
  rewrite map_go_inv. rewrite norm_app.
  pose proof (rule_outside (norm 0 pre) (norm (0 - total_diff pre) post) (p + total_diff pre) b) as R.
  unfold map, map_result in R; cbn [ranges inverted] in R. rewrite R.
  - rewrite total_diff_norm. lia.
  - replace (p + total_diff pre) with (p - 0 + total_diff pre) by lia. apply (all_before_norm pre 0); auto.
  - destruct post as [|[[s x] y] post]; simpl; auto. lia.
Qed.

(* ------------------------------------------------------------------ *)
(* A map moves a position by at most what its ranges delete (downwards) or insert (upwards). *)
Fixpoint sum_old (rs : list range) : Z := match rs with [] => 0 | (_, x, _) :: r => x + sum_old r end.
Fixpoint sum_new (rs : list range) : Z := match rs with [] => 0 | (_, _, y) :: r => y + sum_new r end.

Lemma map_go_shift rs : forall i d p a lo,
  wf_ranges lo rs ->
  p + d - sum_old rs <= mr_pos (map_go false rs i d p a) <= p + d + sum_new rs.
Proof.
  induction rs as [|[[s x] y] rs IH]; intros i d p a lo Hwf; simpl in *.
  - lia.
  - destruct Hwf as (H1 & H2 & H3 & H4).
    assert (0 <= sum_old rs /\ 0 <= sum_new rs) as [Ho Hn].
    { clear -H4. revert H4. generalize (s + x). induction rs as [|[[s' x'] y'] r IHr]; simpl; intros z Hz; [lia|].
      destruct Hz as (? & ? & ? & Hz). specialize (IHr _ Hz). lia. }
    replace (s - 0) with s by lia.
    destruct (s >? p) eqn:E1; simpl; [lia|].
    destruct (p <=? s + x) eqn:E2; simpl.
    + destruct (_ <? 0); lia.
    + specialize (IH (i + 1) (d + (y - x)) p a (s + x) H4). lia.
Qed.

Theorem map_shift_bound rs p a :
  wf_ranges 0 rs ->
  p - sum_old rs <= map {| ranges := rs; inverted := false |} p a <= p + sum_new rs.
Proof.
  intros H. unfold map, map_result; cbn [ranges inverted].
  pose proof (map_go_shift rs 0 0 p a 0 H). lia.
Qed.

(* Positions in the same untouched gap keep their distance: untouched content is moved rigidly. *)
Lemma all_before_le rs : forall p q, all_before rs p -> p <= q -> all_before rs q.
Proof. induction rs as [|[[s x] y] rs IH]; simpl; intros p q H Hpq; auto. destruct H as [[? ?] H]. split; [lia|eauto]. Qed.

Theorem map_gap_rigid pre post p q a b :
  all_before pre p -> p <= q ->
  (match post with [] => True | (s, _, _) :: _ => q < s end) ->
  let m := {| ranges := pre ++ post; inverted := false |} in
  map m q a - map m p b = q - p.
Proof.
  intros Hb Hpq Hq m. unfold m.
  rewrite (rule_outside pre post q a); [|eapply all_before_le; eauto|auto].
  rewrite (rule_outside pre post p b); [lia|auto|destruct post as [|[[s x] y] post]; auto; lia].
Qed.

(* ------------------------------------------------------------------ *)
(* The inverse of a map sends the new boundaries of every range back to its old boundaries. *)
Theorem invert_maps_boundaries_back pre s x y post :
  wf_ranges 0 pre -> all_before pre s -> 0 <= x -> 0 <= y ->
  let m := {| ranges := pre ++ (s, x, y) :: post; inverted := false |} in
  map (invert m) (s + total_diff pre) (-1) = s /\
  map (invert m) (s + total_diff pre + y) 1 = s + x.
Proof.
  intros Hwf Hb Hx Hy m. unfold m, map, invert; cbn [ranges inverted negb]. unfold map_result; cbn [ranges inverted].
  rewrite !map_go_inv. rewrite norm_app. cbn [norm].
  replace (s - (0 - total_diff pre)) with (s + total_diff pre) by lia.
  pose proof (for_each_consistent (norm 0 pre) (s + total_diff pre) y x
               (norm (0 - total_diff pre + (x - y)) post)) as R.
  unfold map, map_result in R; cbn [ranges inverted] in R.
  destruct R as [R1 R2]; auto.
  - replace (s + total_diff pre) with (s - 0 + total_diff pre) by lia. apply (all_before_norm pre 0); auto.
  - rewrite R1, R2, total_diff_norm. split; lia.
Qed.
