(* Exact undo of attribute steps (C04): AttrStep / DocAttrStep followed by the inverse the step builds from the
   original document give back the original node, when that node's attributes are what its type computes
   (NodeType.compute_attrs is idempotent on its own output) and its marks are a rank-sorted set. *)
From Coq Require Import ZArith NArith List Bool Arith Lia String.
From PM Require Import Model.Data Model.Mark Model.Tree Model.Resolve Model.StepMap Model.Step Spec.Tokens
  Proofs.DataProofs Proofs.MarkProofs Proofs.JsonProofs
  Proofs.ReplaceValid Proofs.SliceSides Proofs.TokenBasics Proofs.PathTokens Proofs.ReplaceTokens Proofs.SliceShape
  Proofs.StepFaithful Proofs.TokenLaws Proofs.NodeSteps Proofs.MarkMerge.
Import ListNotations.
Local Open Scope nat_scope.
Local Open Scope list_scope.

(* ------------------------------------------------------------------ attribute lists *)
Lemma lookup_set_attr a k v n :
  lookup_attr (set_attr a k v) n = if String.eqb k n then Some v else lookup_attr a n.
Proof.
  induction a as [|[k' v'] r IH]; cbn [set_attr lookup_attr].
  - destruct (String.eqb k n); reflexivity.
  - destruct (String.eqb k' k) eqn:E.
    + apply String.eqb_eq in E. subst k'. cbn [lookup_attr]. destruct (String.eqb k n); reflexivity.
    + cbn [lookup_attr]. destruct (String.eqb k' n) eqn:E2.
      * apply String.eqb_eq in E2. subst k'. rewrite String.eqb_sym, E. reflexivity.
      * exact IH.
Qed.

(* compute_attrs reads the given attributes only through lookups of the declared names *)
Lemma compute_attrs_ext decls x y :
  (forall d, In d decls -> lookup_attr x (ad_name d) = lookup_attr y (ad_name d)) ->
  compute_attrs decls x = compute_attrs decls y.
Proof.
  induction decls as [|d r IH]; intros H; [reflexivity|]. cbn [compute_attrs].
  rewrite IH by (intros d' Hd'; apply H; right; exact Hd'). rewrite (H d (or_introl eq_refl)). reflexivity.
Qed.

(* the value compute_attrs stores for a declaration *)
Definition stored (d : attrdecl) (o : option json) : option json :=
  match o with Some JNull | None => ad_default d | Some v => Some v end.

Lemma compute_attrs_lookup decls x r :
  NoDup (List.map ad_name decls) -> compute_attrs decls x = Ok r ->
  forall d, In d decls -> lookup_attr r (ad_name d) = stored d (lookup_attr x (ad_name d)) /\
                          stored d (lookup_attr x (ad_name d)) <> None.
Proof.
  revert r. induction decls as [|d0 rest IH]; intros r Hnd H d Hd; [destruct Hd|].
  cbn [List.map] in Hnd. inversion Hnd as [|? ? Hni Hnd']; subst.
  cbn [compute_attrs] in H. destruct (compute_attrs rest x) as [rr|] eqn:Er; [|discriminate]. cbn [bind] in H.
  assert (Hst : exists v, stored d0 (lookup_attr x (ad_name d0)) = Some v /\ r = (ad_name d0, v) :: rr).
  { unfold stored. destruct (lookup_attr x (ad_name d0)) as [[]|];
      try (inversion H; eauto; fail); destruct (ad_default d0); try discriminate; inversion H; eauto. }
  destruct Hst as (v & Hv & ->). destruct Hd as [->|Hd].
  - cbn [lookup_attr]. rewrite String.eqb_refl, Hv. split; [reflexivity|discriminate].
  - cbn [lookup_attr]. destruct (String.eqb (ad_name d0) (ad_name d)) eqn:E.
    + apply String.eqb_eq in E. exfalso. apply Hni. rewrite E. apply in_map. exact Hd.
    + apply (IH rr Hnd' eq_refl d Hd).
Qed.

Lemma stored_idem d o v : stored d o = Some v -> stored d (Some v) = Some v.
Proof.
  unfold stored. destruct o as [[]|]; intros H; try (inversion H; subst; reflexivity);
    destruct v; try reflexivity; exact H.
Qed.

(* set an attribute, recompute, set it back to its old value, recompute: the attributes one started from *)
Lemma attrs_round_trip decls a k value v0 a1 a2 :
  NoDup (List.map ad_name decls) -> compute_attrs decls a = Ok a -> lookup_attr a k = Some v0 ->
  compute_attrs decls (set_attr a k value) = Ok a1 ->
  compute_attrs decls (set_attr a1 k v0) = Ok a2 ->
  a2 = a.
Proof.
  intros Hnd Hfix Hk H1 H2.
  assert (E : compute_attrs decls (set_attr a1 k v0) = compute_attrs decls a).
  { apply compute_attrs_ext. intros d Hd. rewrite lookup_set_attr.
    destruct (String.eqb k (ad_name d)) eqn:Ek.
    - apply String.eqb_eq in Ek. subst k. symmetry. exact Hk.
    - destruct (compute_attrs_lookup _ _ _ Hnd H1 d Hd) as (L1 & _). rewrite lookup_set_attr, Ek in L1.
      destruct (compute_attrs_lookup _ _ _ Hnd Hfix d Hd) as (L0 & N0).
      rewrite L1. rewrite L0.
      destruct (stored d (lookup_attr a (ad_name d))) as [v|] eqn:Es; [|contradiction].
      rewrite L0 in Es. pose proof (stored_idem _ _ _ Es) as Hid. congruence. }
  rewrite E, Hfix in H2. inversion H2. reflexivity.
Qed.

(* compute_attrs on == attribute lists gives == attribute lists *)
Lemma lookup_anorm a k : lookup_attr (anorm a) k = option_map jnorm (lookup_attr a k).
Proof.
  unfold anorm. induction a as [|[k' v] r IH]; [reflexivity|]. cbn [List.map lookup_attr fst snd].
  destruct (String.eqb k' k); [reflexivity|exact IH].
Qed.
Lemma jnorm_null v : jnorm v = JNull <-> v = JNull.
Proof. destruct v; cbn; split; intros H; try discriminate; auto. Qed.
Lemma json_eq_dec_null (v : json) : v = JNull \/ v <> JNull.
Proof. destruct v; [left; reflexivity|right; discriminate ..]. Qed.
Lemma compute_attrs_norm decls x y rx :
  anorm x = anorm y -> compute_attrs decls x = Ok rx ->
  exists ry, compute_attrs decls y = Ok ry /\ anorm rx = anorm ry.
Proof.
  intros Hn. revert rx. induction decls as [|d r IH]; intros rx H.
  - inversion H. exists []. split; reflexivity.
  - cbn [compute_attrs] in *. destruct (compute_attrs r x) as [rr|] eqn:Er; [|discriminate]. cbn [bind] in H.
    destruct (IH rr eq_refl) as (ry' & Ey & En). rewrite Ey. cbn [bind].
    pose proof (lookup_anorm x (ad_name d)) as Lx. pose proof (lookup_anorm y (ad_name d)) as Ly. rewrite Hn in Lx.
    rewrite Lx in Ly. clear Lx.
    destruct (lookup_attr x (ad_name d)) as [vx|], (lookup_attr y (ad_name d)) as [vy|]; cbn [option_map] in Ly; try discriminate.
    + inversion Ly as [Hv].
      destruct (json_eq_dec_null vx) as [->|Hx].
      * assert (vy = JNull) by (apply jnorm_null; rewrite <- Hv; reflexivity). subst vy.
        destruct (ad_default d) as [dv|]; [|discriminate]. inversion H; subst rx. eexists. split; [reflexivity|].
        cbn [anorm List.map fst snd]. f_equal. exact En.
      * assert (Hy : vy <> JNull). { intros ->. apply Hx. apply jnorm_null. rewrite Hv. reflexivity. }
        assert (Hrx : rx = (ad_name d, vx) :: rr) by (destruct vx; try contradiction; inversion H; reflexivity).
        assert (Hry : (match vy with JNull => match ad_default d with Some v => Ok ((ad_name d, v) :: ry') | None => Err ErrValue end
                                   | _ => Ok ((ad_name d, vy) :: ry') end) = Ok ((ad_name d, vy) :: ry'))
          by (destruct vy; try contradiction; reflexivity).
        subst rx. eexists. split; [exact Hry|]. cbn [anorm List.map fst snd]. rewrite Hv. f_equal. exact En.
    + destruct (ad_default d) as [dv|]; [|discriminate]. inversion H; subst rx. eexists. split; [reflexivity|].
      cbn [anorm List.map fst snd]. f_equal. exact En.
Qed.

Lemma anorm_set_attr a k v : anorm (set_attr a k v) = set_attr (anorm a) k (jnorm v).
Proof.
  unfold anorm. induction a as [|[k' v'] r IH]; [reflexivity|]. cbn [set_attr List.map fst snd].
  destruct (String.eqb k' k); cbn [List.map fst snd]; [reflexivity|]. rewrite IH. reflexivity.
Qed.

Lemma set_from_norm l : msnorm (set_from l) = set_from (msnorm l).
Proof.
  unfold set_from. change (@nil mark) with (msnorm []) at 2. generalize (@nil mark) as acc.
  induction l as [|m r IH]; intros acc; [reflexivity|]. cbn [fold_left msnorm List.map].
  rewrite IH. unfold msnorm at 2. cbn [List.map]. fold (msnorm r). f_equal. symmetry. apply insert_sorted_norm.
Qed.

Lemma set_nth_back {A} : forall pos (T : list A) x y, nth_error T pos = Some x ->
  firstn pos (firstn pos T ++ [y] ++ skipn (S pos) T) ++ [x] ++ skipn (S pos) (firstn pos T ++ [y] ++ skipn (S pos) T) = T.
Proof.
  induction pos as [|p IH]; intros T x y H; destruct T as [|t T']; try discriminate.
  - cbn in H. inversion H. reflexivity.
  - cbn [nth_error] in H. change (firstn (S p) (t :: T')) with (t :: firstn p T').
    change (skipn (S (S p)) (t :: T')) with (skipn (S p) T').
    change ((t :: firstn p T') ++ [y] ++ skipn (S p) T') with (t :: (firstn p T' ++ [y] ++ skipn (S p) T')).
    cbn [firstn skipn app]. f_equal. apply (IH T' x y H).
Qed.

Section WithSchema.
Variable s : schema.
Notation nsize := (node_size s).
Notation V := (V s).
Notation DT := (DT s).
Notation decls ty := (nt_attrs (ntype_of s ty)).

(* what the library's constructors give every node: declared attributes as the type computes them, marks a sorted set *)
Definition NodeNormal (n : node) : Prop :=
  match n with
  | Text _ _ => True
  | Elem ty a m _ => NoDup (List.map ad_name (decls ty)) /\ compute_attrs (decls ty) a = Ok a /\ sorted_rank m
  end.

(* ------------------------------------------------------------------ DocAttrStep *)
Theorem doc_attr_step_undo attr value doc d' inv d'' :
  NodeNormal doc ->
  apply s (SDocAttr attr value) doc = ROk d' ->
  invert_step s (SDocAttr attr value) doc = Ok inv ->
  apply s inv d' = ROk d'' ->
  d'' = doc.
Proof.
  intros Hn Ha Hi Hb. cbn [invert_step] in Hi.
  destruct (lookup_attr (node_attrs doc) attr) as [v0|] eqn:Ek; [|discriminate]. inversion Hi; subst inv. clear Hi.
  cbn [apply] in Ha, Hb. unfold lift, type_create in Ha.
  destruct doc as [t mk|ty a m cs]; cbn [node_ty node_attrs node_content node_marks] in *.
  { unfold is_text_ty in Ha. rewrite Nat.eqb_refl in Ha. discriminate. }
  destruct Hn as (Hnd & Hfix & Hsr).
  destruct (is_text_ty s ty) eqn:Et; [discriminate|].
  destruct (compute_attrs (decls ty) (set_attr a attr value)) as [a1|] eqn:E1; [|discriminate]. cbn [bind] in Ha.
  inversion Ha; subst d'. clear Ha.
  unfold lift, type_create in Hb. cbn [node_ty node_attrs node_content node_marks] in Hb. rewrite Et in Hb.
  destruct (compute_attrs (decls ty) (set_attr a1 attr v0)) as [a2|] eqn:E2; [|discriminate]. cbn [bind] in Hb.
  inversion Hb; subst d''. clear Hb.
  rewrite (attrs_round_trip _ _ _ _ _ _ _ Hnd Hfix Ek E1 E2). rewrite !(set_from_sorted _ Hsr). reflexivity.
Qed.

(* ------------------------------------------------------------------ AttrStep *)
Lemma head_tok_norm_inj ty a m ty2 a2 m2 :
  tnorm (head_tok s ty a m) = tnorm (head_tok s ty2 a2 m2) -> ty = ty2 /\ anorm a = anorm a2 /\ msnorm m = msnorm m2.
Proof.
  unfold head_tok. destruct (is_leaf_ty s ty), (is_leaf_ty s ty2); cbn [tnorm]; intros H; inversion H; auto.
Qed.

Theorem attr_step_undo_on pos attr value doc d' inv e d'' :
  V doc ->
  (forall n, node_at s (S (nsize doc)) doc pos = Ok (Some n) -> NodeNormal n) ->
  apply s (SAttr pos attr value) doc = ROk d' ->
  invert_step s (SAttr pos attr value) doc = Ok inv ->
  V e -> DT e = DT d' ->
  apply s inv e = ROk d'' ->
  DT d'' = DT doc.
Proof.
  intros Hd Hn Ha Hi Hd' HeT Hb.
  destruct (node_step_splice s (SAttr pos attr value) pos _ _ Hd eq_refl Ha) as (ty & a & m & cs & a1 & m1 & En & Eu & Hnth & E').
  destruct (Hn _ En) as (Hnd & Hfix & Hsr).
  cbn [invert_step] in Hi. rewrite En in Hi. cbn [bind node_attrs] in Hi.
  destruct (lookup_attr a attr) as [v0|] eqn:Ek; [|discriminate]. inversion Hi; subst inv. clear Hi.
  destruct (node_step_splice s (SAttr pos attr v0) pos _ _ Hd' eq_refl Hb) as (ty2 & a2 & m2 & cs2 & a3 & m3 & En2 & Eu2 & Hnth2 & E'').
  rewrite HeT in Hnth2, E''.
  cbn [node_update node_ty node_attrs node_marks] in Eu, Eu2. unfold type_create in Eu, Eu2.
  destruct (is_text_ty s ty); [discriminate|]. destruct (is_text_ty s ty2); [discriminate|].
  destruct (compute_attrs (decls ty) (set_attr a attr value)) as [x1|] eqn:E1; [|discriminate]. cbn [bind] in Eu.
  destruct (compute_attrs (decls ty2) (set_attr a2 attr v0)) as [x3|] eqn:E3; [|discriminate]. cbn [bind] in Eu2.
  inversion Eu; subst x1 m1. inversion Eu2; subst x3 m3. clear Eu Eu2.
  rewrite (set_from_sorted _ Hsr) in E'.
  assert (Hp : pos < List.length (DT doc)) by (apply nth_error_Some; rewrite Hnth; discriminate).
  assert (Hlf : List.length (firstn pos (DT doc)) = pos) by (rewrite firstn_length; lia).
  (* the node the inverse finds is the node the step wrote *)
  assert (Hsame : tnorm (head_tok s ty2 a2 m2) = tnorm (head_tok s ty a1 m)).
  { rewrite E' in Hnth2. rewrite nth_error_app2 in Hnth2 by lia. rewrite Hlf, Nat.sub_diag in Hnth2.
    cbn in Hnth2. inversion Hnth2. reflexivity. }
  destruct (head_tok_norm_inj _ _ _ _ _ _ Hsame) as (-> & Ha2 & Hm2).
  assert (Hx : anorm (set_attr a2 attr v0) = anorm (set_attr a1 attr v0)) by (rewrite !anorm_set_attr, Ha2; reflexivity).
  destruct (compute_attrs_norm _ _ _ _ Hx E3) as (ry & Ery & Hry).
  pose proof (attrs_round_trip _ _ _ _ _ _ _ Hnd Hfix Ek E1 Ery) as ->.
  assert (Hm3 : msnorm (set_from m2) = msnorm m).
  { rewrite set_from_norm, Hm2, <- set_from_norm, (set_from_sorted _ Hsr). reflexivity. }
  assert (Htok : tnorm (head_tok s ty a3 (set_from m2)) = tnorm (head_tok s ty a m)).
  { unfold head_tok. destruct (is_leaf_ty s ty); cbn [tnorm]; rewrite Hry, Hm3; reflexivity. }
  rewrite E'', Htok, E'. apply set_nth_back. exact Hnth.
Qed.

Theorem attr_step_undo pos attr value doc d' inv d'' :
  V doc -> V d' ->
  (forall n, node_at s (S (nsize doc)) doc pos = Ok (Some n) -> NodeNormal n) ->
  apply s (SAttr pos attr value) doc = ROk d' ->
  invert_step s (SAttr pos attr value) doc = Ok inv ->
  apply s inv d' = ROk d'' ->
  DT d'' = DT doc.
Proof.
  intros Hd Hd' Hn Ha Hi Hb. exact (attr_step_undo_on _ _ _ _ d' _ d' _ Hd Hn Ha Hi Hd' eq_refl Hb).
Qed.

(* a DocAttrStep does not touch the content at all *)
Lemma doc_attr_step_tokens attr value doc d' : apply s (SDocAttr attr value) doc = ROk d' -> DT d' = DT doc.
Proof.
  intros Ha. cbn [apply] in Ha. unfold lift, type_create in Ha.
  destruct (is_text_ty s (node_ty s doc)); [discriminate|].
  destruct (compute_attrs _ _) as [a1|]; [|discriminate]. cbn [bind] in Ha. inversion Ha. reflexivity.
Qed.

End WithSchema.
