(* lift_target and can_split never cross an isolating boundary (C18): every node a lift moves content out of, and
   every node a split cuts, is a non-isolating node. *)
From Coq Require Import ZArith NArith List Bool Arith Lia.
From PM Require Import Model.Data Model.Mark Model.Tree Model.Resolve Model.StepMap Model.Step Model.StructOps Model.Fill Model.Fitter Model.RangeOps.
Import ListNotations.
Local Open Scope nat_scope.

Section WithSchema.
Variable s : schema.

(* the ancestors of the range's start at depths d+1 .. top are not isolating *)
Definition open_between (r : rpos) (d top : nat) : Prop :=
  forall k, d < k -> k <= top -> exists n, rp_node r k = Ok n /\ isolating s n = false.

Lemma lift_target_go_spec : forall fuel r content depth d,
  lift_target_go s fuel r content depth = Ok (Some d) ->
  d <= depth /\ d < nr_depth r /\ open_between (nr_from r) d depth.
Proof.
  induction fuel as [|fuel IH]; intros r content depth d H; [discriminate|]. cbn [lift_target_go] in H.
  destruct (rp_node (nr_from r) depth) as [n|] eqn:En; [|discriminate]. cbn [bind] in H.
  destruct (rp_index (nr_from r) depth) as [index|]; [|discriminate]. cbn [bind] in H.
  destruct (rp_index_after (nr_to r) depth) as [end_index|]; [|discriminate]. cbn [bind] in H.
  destruct (depth <? nr_depth r) eqn:Ed.
  - destruct (can_replace s n index end_index content 0 (length content)) as [fits|]; [|discriminate]. cbn [bind] in H.
    destruct fits.
    + inversion H; subst d. apply Nat.ltb_lt in Ed. split; [lia|]. split; [exact Ed|]. intros k Hk1 Hk2. lia.
    + destruct ((depth =? 0) || isolating s n) eqn:Eb; [discriminate|]. apply orb_false_elim in Eb. destruct Eb as [E0 Ei].
      apply Nat.eqb_neq in E0.
      destruct (can_cut s n index end_index) as [cc|]; [|discriminate]. cbn [bind] in H.
      destruct (negb cc); [discriminate|].
      destruct (IH _ _ _ _ H) as (H1 & H2 & H3). split; [lia|]. split; [exact H2|].
      intros k Hk1 Hk2. destruct (Nat.eq_dec k depth) as [->|Hne]; [exists n; auto|]. apply H3; lia.
  - cbn [bind] in H. destruct ((depth =? 0) || isolating s n) eqn:Eb; [discriminate|]. apply orb_false_elim in Eb.
    destruct Eb as [E0 Ei]. apply Nat.eqb_neq in E0.
    destruct (can_cut s n index end_index) as [cc|]; [|discriminate]. cbn [bind] in H.
    destruct (negb cc); [discriminate|].
    destruct (IH _ _ _ _ H) as (H1 & H2 & H3). split; [lia|]. split; [exact H2|].
    intros k Hk1 Hk2. destruct (Nat.eq_dec k depth) as [->|Hne]; [exists n; auto|]. apply H3; lia.
Qed.

(* lift_target(range) = d: d is strictly above the range's depth, and every ancestor the lift takes the content out
   of (depths d+1 .. range.depth) is a non-isolating node *)
Theorem lift_target_not_across_isolating r d :
  lift_target s r = Ok (Some d) -> d < nr_depth r /\ open_between (nr_from r) d (nr_depth r).
Proof.
  unfold lift_target. intros H.
  destruct (nr_parent r); [|discriminate]. cbn [bind] in H.
  destruct (nr_start_index r); [|discriminate]. cbn [bind] in H.
  destruct (nr_end_index r); [|discriminate]. cbn [bind] in H.
  destruct (lift_target_go_spec _ _ _ _ _ H) as (_ & H2 & H3). split; assumption.
Qed.

Lemma can_split_go_spec : forall fuel r d base,
  can_split_go s fuel r d base = Ok true -> open_between r base d.
Proof.
  induction fuel as [|fuel IH]; intros r d base H; [discriminate|]. cbn [can_split_go] in H.
  destruct (d <=? base) eqn:Ed.
  - apply Nat.leb_le in Ed. intros k Hk1 Hk2. lia.
  - apply Nat.leb_gt in Ed.
    destruct (rp_node r d) as [n|] eqn:En; [|discriminate]. cbn [bind] in H.
    destruct (rp_index r d) as [index|]; [|discriminate]. cbn [bind] in H.
    destruct (isolating s n) eqn:Ei; [discriminate|].
    destruct (can_replace0 s n (S index) (nchildren n)) as [cr|]; [|discriminate]. cbn [bind] in H.
    destruct (negb cr || negb (valid_content s (node_ty s n) (sub_list (node_content n) index (nchildren n)))); [discriminate|].
    pose proof (IH _ _ _ H) as H3.
    intros k Hk1 Hk2. destruct (Nat.eq_dec k d) as [->|Hne]; [exists n; auto|]. apply H3; lia.
Qed.

(* can_split(doc, pos, depth) = True: each of the `depth` innermost ancestors of pos - the nodes the split cuts in
   two - is a non-isolating node *)
Theorem can_split_not_across_isolating doc pos depth r :
  can_split s doc pos depth = Ok true -> resolve s doc pos = Ok r ->
  depth <= rp_depth r /\ open_between r (rp_depth r - depth) (rp_depth r).
Proof.
  unfold can_split. intros H Hr. rewrite Hr in H. cbn [bind] in H.
  destruct (rp_depth r <? depth) eqn:Ed; [discriminate|]. apply Nat.ltb_ge in Ed. split; [exact Ed|].
  destruct (rp_parent r) as [parent|] eqn:Ep; [|discriminate]. cbn [bind] in H.
  destruct (rp_index r (rp_depth r)) as [index|]; [|discriminate]. cbn [bind] in H.
  destruct (isolating s parent) eqn:Ei; [discriminate|].
  destruct (can_replace0 s parent index (nchildren parent)) as [cr|]; [|discriminate]. cbn [bind] in H.
  destruct (negb cr || _); [discriminate|].
  intros k Hk1 Hk2.
  destruct (Nat.eq_dec k (rp_depth r)) as [->|Hne].
  - exists parent. split; [exact Ep|exact Ei].
  - destruct (rp_depth r) as [|dm1] eqn:Edep; [lia|].
    destruct (can_split_go s (S (S dm1)) r dm1 (S dm1 - depth)) as [ok|] eqn:Eg; [|discriminate]. cbn [bind] in H.
    destruct ok; [|discriminate]. apply (can_split_go_spec _ _ _ _ Eg); lia.
Qed.

(* ... and the same with types_after: whatever types the split-off parts are to get, the nodes the split cuts are
   non-isolating *)
Lemma can_split_ta_go_spec : forall fuel r ta d base i,
  can_split_ta_go s fuel r ta d base i = Ok true -> open_between r base d.
Proof.
  induction fuel as [|fuel IH]; intros r ta d base i H; [discriminate|]. cbn [can_split_ta_go] in H.
  destruct (d <=? base) eqn:Ed.
  - apply Nat.leb_le in Ed. intros k Hk1 Hk2. lia.
  - apply Nat.leb_gt in Ed.
    destruct (rp_node r d) as [n|] eqn:En; [|discriminate]. cbn [bind] in H.
    destruct (rp_index r d) as [index|]; [|discriminate]. cbn [bind] in H.
    destruct (isolating s n) eqn:Ei; [discriminate|].
    match type of H with (do rest <- ?X; _) = _ => destruct X as [rest|]; [|discriminate] end. cbn [bind] in H.
    destruct (can_replace0 s n (S index) (nchildren n)) as [cr|]; [|discriminate]. cbn [bind] in H.
    destruct (negb cr || _); [discriminate|].
    pose proof (IH _ _ _ _ _ H) as H3.
    intros k Hk1 Hk2. destruct (Nat.eq_dec k d) as [->|Hne]; [exists n; auto|]. apply H3; lia.
Qed.

Theorem can_split_ta_not_across_isolating doc pos depth ta r :
  can_split_ta s doc pos depth ta = Ok true -> resolve s doc pos = Ok r ->
  depth <= rp_depth r /\ open_between r (rp_depth r - depth) (rp_depth r).
Proof.
  unfold can_split_ta. intros H Hr. rewrite Hr in H. cbn [bind] in H.
  destruct (rp_depth r <? depth) eqn:Ed; [discriminate|]. apply Nat.ltb_ge in Ed. split; [exact Ed|].
  destruct (rp_parent r) as [parent|] eqn:Ep; [|discriminate]. cbn [bind] in H.
  destruct (rp_index r (rp_depth r)) as [index|]; [|discriminate]. cbn [bind] in H.
  destruct (isolating s parent) eqn:Ei; [discriminate|].
  destruct (can_replace0 s parent index (nchildren parent)) as [cr|]; [|discriminate]. cbn [bind] in H.
  destruct (negb cr || _); [discriminate|].
  intros k Hk1 Hk2.
  destruct (Nat.eq_dec k (rp_depth r)) as [->|Hne].
  - exists parent. split; [exact Ep|exact Ei].
  - destruct (rp_depth r) as [|dm1] eqn:Edep; [lia|].
    destruct (can_split_ta_go s (S (S dm1)) r ta dm1 (S dm1 - depth) (depth - 2)) as [ok|] eqn:Eg; [|discriminate]. cbn [bind] in H.
    destruct ok; [|discriminate]. apply (can_split_ta_go_spec _ _ _ _ _ _ Eg); lia.
Qed.

(* covered_depths(from, to) - the depths Transform.delete_range / replace_range may expand the range to: a covered
   depth d lies below no isolating ancestor of either end (the ancestors at depths d .. min depth are all
   non-isolating), so the expanded range [start(d), end(d)] or [before(d), after(d)] stays inside the innermost
   isolating node that holds both ends *)
Lemma covered_go_spec : forall k rf rt l,
  covered_go s rf rt k = Ok l ->
  forall d, In d l -> d < k /\
    forall j, d <= j -> j < k -> exists nf nt, rp_node rf j = Ok nf /\ rp_node rt j = Ok nt /\
                                     iso_node s nf = false /\ iso_node s nt = false.
Proof.
  induction k as [|k IH]; intros rf rt l H d Hd; cbn [covered_go] in H.
  - inversion H; subst l. destruct Hd.
  - destruct (rp_start rf k) as [start|]; [|discriminate]. cbn [bind] in H.
    destruct (rp_end s rt k) as [te|]; [|discriminate]. cbn [bind] in H.
    destruct (rp_node rf k) as [nf|] eqn:Enf; [|discriminate]. cbn [bind] in H.
    destruct (rp_node rt k) as [nt|] eqn:Ent; [|discriminate]. cbn [bind] in H.
    destruct ((start <? rp_pos rf - (rp_depth rf - k)) || (rp_pos rt + (rp_depth rt - k) <? te) || iso_node s nf || iso_node s nt) eqn:Eb.
    { inversion H; subst l. destruct Hd. }
    apply orb_false_elim in Eb. destruct Eb as [Eb Ei2]. apply orb_false_elim in Eb. destruct Eb as [_ Ei1].
    destruct (rp_start rt k) as [ts|]; [|discriminate]. cbn [bind] in H.
    match type of H with (do hit <- ?X; _) = _ => destruct X as [hit|]; [|discriminate] end. cbn [bind] in H.
    destruct (covered_go s rf rt k) as [rest|] eqn:Er; [|discriminate]. cbn [bind] in H. inversion H; subst l. clear H.
    assert (Hk : forall j, k <= j -> j < S k -> exists nf0 nt0, rp_node rf j = Ok nf0 /\ rp_node rt j = Ok nt0 /\
                                     iso_node s nf0 = false /\ iso_node s nt0 = false).
    { intros j H1 H2. assert (j = k) by lia. subst j. exists nf, nt. auto. }
    assert (Hrest : forall d0, In d0 rest -> d0 < S k /\ forall j, d0 <= j -> j < S k -> exists nf0 nt0,
                      rp_node rf j = Ok nf0 /\ rp_node rt j = Ok nt0 /\ iso_node s nf0 = false /\ iso_node s nt0 = false).
    { intros d0 Hd0. destruct (IH _ _ _ Er d0 Hd0) as (H1 & H2). split; [lia|]. intros j Hj1 Hj2.
      destruct (Nat.eq_dec j k) as [->|Hne]; [apply Hk; lia|apply H2; lia]. }
    destruct hit.
    + destruct Hd as [<-|Hd]; [split; [lia|exact Hk]|apply Hrest; exact Hd].
    + apply Hrest; exact Hd.
Qed.

Theorem covered_depths_below_isolating rf rt l d :
  covered_depths s rf rt = Ok l -> In d l ->
  d <= Nat.min (rp_depth rf) (rp_depth rt) /\
  forall j, d <= j -> j <= Nat.min (rp_depth rf) (rp_depth rt) ->
    exists nf nt, rp_node rf j = Ok nf /\ rp_node rt j = Ok nt /\ iso_node s nf = false /\ iso_node s nt = false.
Proof.
  unfold covered_depths. intros H Hd. destruct (covered_go_spec _ _ _ _ H d Hd) as (H1 & H2). split; [lia|].
  intros j Hj1 Hj2. apply H2; lia.
Qed.

End WithSchema.
