(* Node-level steps (AttrStep, AddNodeMarkStep, RemoveNodeMarkStep) on the flat token sequence: they
   replace the one token that opens (or is) the addressed node by a token of the same type with the new
   attributes / marks, and nothing else (C13, C03 for these steps). *)
From Coq Require Import ZArith NArith List Bool Arith Lia String.
From PM Require Import Model.Data Model.Mark Model.Tree Model.Resolve Model.StepMap Model.Step Spec.Tokens
  Proofs.ReplaceValid Proofs.SliceSides Proofs.TokenBasics Proofs.PathTokens Proofs.ReplaceTokens Proofs.SliceShape
  Proofs.StepFaithful Proofs.SliceTokens Proofs.SliceCut Proofs.TokenLaws Proofs.StepAlgebra Proofs.StepTokens
  Proofs.AroundTokens.
Import ListNotations.
Local Open Scope nat_scope.

Section WithSchema.
Variable s : schema.
Notation nsize := (node_size s).
Notation fsize := (frag_size s).
Notation toks := (toks s).
Notation ftoks := (ftoks s).
Notation V := (V s).
Notation DT := (DT s).
Notation IT := (IT s).

Definition head_tok (ty : nat) (a : attrs) (m : list mark) : tok :=
  if is_leaf_ty s ty then TLeaf ty a m else TOpen ty a m.

Lemma toks_head ty a m cs : exists r, toks (Elem ty a m cs) = head_tok ty a m :: r.
Proof. rewrite toks_elem. unfold head_tok. destruct (is_leaf_ty s ty); eauto. Qed.

(* Node.node_at(pos) returns the node whose first token is token number pos *)
Lemma node_at_tok : forall fuel n pos ty a m cs,
  node_at s fuel n pos = Ok (Some (Elem ty a m cs)) ->
  nth_error (ftoks (node_content n)) pos = Some (head_tok ty a m).
Proof.
  induction fuel as [|fuel IH]; intros n pos ty a m cs H; [discriminate|]. cbn [node_at] in H.
  destruct (find_index s (node_content n) pos) as [[index offset]|] eqn:Efi; [|discriminate]. cbn [bind] in H.
  destruct (find_index_spec s _ _ _ _ Efi) as (Hoff & Hidx & Hle & Hpos).
  unfold child_at in H. destruct (nth_error (node_content n) index) as [c|] eqn:En; [|discriminate].
  rewrite (ftoks_split_at s _ _ _ En).
  pose proof (ftoks_length s (firstn index (node_content n))) as HlA. rewrite <- Hoff in HlA.
  destruct ((offset =? pos) || node_is_text c) eqn:E.
  - inversion H; subst c. cbn [node_is_text] in E. rewrite orb_false_r in E. apply Nat.eqb_eq in E. subst pos.
    rewrite nth_error_app2 by lia. rewrite HlA, Nat.sub_diag.
    destruct (toks_head ty a m cs) as (r & ->). reflexivity.
  - apply orb_false_elim in E. destruct E as [E1 E2]. apply Nat.eqb_neq in E1.
    destruct Hpos as [Hp|(c' & Hc' & Hp)]; [lia|]. inversion Hc'; subst c'.
    destruct c as [t mk|ty1 a1 m1 cs1]; [discriminate|].
    assert (Hnl : is_leaf_ty s ty1 = false).
    { pose proof (node_size_elem s ty1 a1 m1 cs1) as Hs. destruct (is_leaf_ty s ty1); [|reflexivity]. lia. }
    pose proof (node_size_elem s ty1 a1 m1 cs1) as Hs. rewrite Hnl in Hs.
    specialize (IH _ _ _ _ _ _ H). cbn [node_content] in IH.
    rewrite nth_error_app2 by lia. rewrite HlA. rewrite toks_elem, Hnl.
    replace (pos - offset) with (S (pos - offset - 1)) by lia. cbn [nth_error app].
    rewrite <- app_assoc. rewrite nth_error_app1; [exact IH|]. apply nth_error_Some. rewrite IH. discriminate.
Qed.

(* the step's slice *)
Lemma node_slice_IT1 ty a m (leaf : bool) :
  is_leaf_ty s ty = leaf ->
  let sl := SL [Elem ty a m []] 0 (if leaf then 0 else 1) in
  Shape s (sl_content sl) (sl_open_start sl) (sl_open_end sl) /\ IT sl = [tnorm (head_tok ty a m)].
Proof.
  intros Hl. cbn zeta. cbn [sl_content sl_open_start sl_open_end]. unfold IT, inner_toks, head_tok.
  cbn [sl_content sl_open_start sl_open_end Tokens.ftoks]. rewrite toks_elem, Hl. destruct leaf.
  - split; [exact I|]. reflexivity.
  - split; [|reflexivity]. cbn. exists [], ty, a, m, []. repeat split; auto.
Qed.

Definition is_node_step (st : step) : option nat :=
  match st with
  | SAddNodeMark p _ | SRemoveNodeMark p _ | SAttr p _ _ => Some p
  | _ => None
  end.

(* what the step does to the addressed node *)
Definition node_update (st : step) (n : node) : res node :=
  match st with
  | SAddNodeMark _ m => type_create s (node_ty s n) (node_attrs n) [] (add_to_set s m (node_marks n))
  | SRemoveNodeMark _ m => type_create s (node_ty s n) (node_attrs n) [] (remove_from_set m (node_marks n))
  | SAttr _ attr value => type_create s (node_ty s n) (set_attr (node_attrs n) attr value) [] (node_marks n)
  | _ => Err ErrInternal
  end.

Theorem node_step_splice st pos doc d' :
  V doc -> is_node_step st = Some pos -> apply s st doc = ROk d' ->
  exists ty a m cs a' m',
    node_at s (S (nsize doc)) doc pos = Ok (Some (Elem ty a m cs)) /\
    node_update st (Elem ty a m cs) = Ok (Elem ty a' m' []) /\
    nth_error (DT doc) pos = Some (tnorm (head_tok ty a m)) /\
    DT d' = firstn pos (DT doc) ++ [tnorm (head_tok ty a' m')] ++ skipn (S pos) (DT doc).
Proof.
  intros Hd Hst H.
  assert (G : forall upd, apply s st doc = node_step s doc pos upd tt ->
              (forall n, upd n = node_update st n) ->
    exists ty a m cs a' m',
      node_at s (S (nsize doc)) doc pos = Ok (Some (Elem ty a m cs)) /\
      node_update st (Elem ty a m cs) = Ok (Elem ty a' m' []) /\
      nth_error (DT doc) pos = Some (tnorm (head_tok ty a m)) /\
      DT d' = firstn pos (DT doc) ++ [tnorm (head_tok ty a' m')] ++ skipn (S pos) (DT doc)).
  { intros upd Eap Hupd. rewrite Eap in H. unfold node_step, lift in H.
    destruct (node_at s (S (nsize doc)) doc pos) as [[n|]|] eqn:En; try discriminate.
    rewrite Hupd in H. destruct (node_update st n) as [updated|] eqn:Eu; [|discriminate].
    assert (Hshape : exists ty a m cs a' m', n = Elem ty a m cs /\ updated = Elem ty a' m' []).
    { destruct st; try discriminate; cbn [node_update] in Eu; unfold type_create in Eu;
        (destruct (is_text_ty s (node_ty s n)) eqn:Et; [discriminate|]);
        (destruct (compute_attrs _ _) as [a'|]; [|discriminate]); cbn [bind] in Eu; inversion Eu; subst updated;
        (destruct n as [t0 mk0|ty0 a0 m0 cs0];
         [exfalso; cbn [node_ty] in Et; unfold is_text_ty in Et; rewrite Nat.eqb_refl in Et; discriminate|]);
        cbn [node_ty]; eauto 10. }
    destruct Hshape as (ty & a & m & cs & a' & m' & -> & ->).
    exists ty, a, m, cs, a', m'. split; [reflexivity|]. split; [exact Eu|].
    split.
    - unfold DT, nt. rewrite nth_error_map. rewrite (node_at_tok _ _ _ _ _ _ _ En). reflexivity.
    - cbn [node_ty] in H.
      destruct (node_slice_IT1 ty a' m' (is_leaf_ty s ty) eq_refl) as (Hs & HI).
      assert (Ha : apply s (SReplace pos (pos + 1) (SL [Elem ty a' m' []] 0 (if is_leaf_ty s ty then 0 else 1)) false) doc = ROk d').
      { cbn [apply]. unfold lift. exact H. }
      destruct (replace_step_splice s _ _ _ _ _ _ Hd Hs Ha) as (_ & _ & E). rewrite E, HI.
      replace (pos + 1) with (S pos) by lia. reflexivity. }
  destruct st; try discriminate; cbn [is_node_step] in Hst; inversion Hst; subst; eapply G; try reflexivity.
Qed.

End WithSchema.
