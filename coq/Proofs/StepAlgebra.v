(* Algebra of replace steps on the flat token sequence: separated steps commute after rebasing (C17),
   a merged step equals the two steps it replaces (C16).  Everything is list algebra over
   TokenLaws.replace_step_splice plus the validity theorem (to apply the splice theorem to the
   intermediate document). *)
From Coq Require Import ZArith NArith List Bool Arith Lia.
From PM Require Import Model.Data Model.Mark Model.Tree Model.StepMap Model.Step Spec.Tokens
  Proofs.ReplaceValid Proofs.SliceSides Proofs.TokenBasics Proofs.PathTokens Proofs.ReplaceTokens Proofs.SliceShape
  Proofs.StepFaithful Proofs.TokenLaws.
Import ListNotations.
Local Open Scope nat_scope.

(* ------------------------------------------------------------------ a single-range map away from its range *)
Lemma map_result_single_before (f x y p a : Z) : (p < f)%Z ->
  map_result {| ranges := [(f, x, y)]; inverted := false |} p a = {| mr_pos := p; mr_del := 0; mr_recover := None |}.
Proof.
  intros H. unfold map_result. cbn [inverted ranges map_go start_of].
  destruct (f - 0 >? p)%Z eqn:E; [f_equal; lia|]. rewrite Z.gtb_ltb in E. apply Z.ltb_ge in E. lia.
Qed.
Lemma map_result_single_after (f x y p a : Z) : (0 <= x)%Z -> (f + x < p)%Z ->
  map_result {| ranges := [(f, x, y)]; inverted := false |} p a =
    {| mr_pos := p + (y - x); mr_del := 0; mr_recover := None |}.
Proof.
  intros Hx H. unfold map_result. cbn [inverted ranges map_go start_of old_of new_of].
  destruct (f - 0 >? p)%Z eqn:E0.
  - destruct (Z.gtb_spec (f - 0) p); [lia|discriminate].
  - destruct (p <=? f - 0 + x)%Z eqn:E; [apply Z.leb_le in E; lia|]. cbn [map_go]. f_equal; try lia.
Qed.

Lemma firstn_exact {A} (a b : list A) n : n = length a -> firstn n (a ++ b) = a.
Proof. intros ->. rewrite firstn_app, Nat.sub_diag, firstn_all. cbn. apply app_nil_r. Qed.
Lemma skipn_exact {A} (a b : list A) n : n = length a -> skipn n (a ++ b) = b.
Proof. intros ->. rewrite skipn_app, Nat.sub_diag, skipn_all. reflexivity. Qed.

(* cut a list at four increasing positions *)
Lemma split5 {A} (T : list A) a b c d : a <= b -> b <= c -> c <= d -> d <= length T ->
  exists P D1 M D2 S, T = P ++ D1 ++ M ++ D2 ++ S /\
    length P = a /\ length D1 = b - a /\ length M = c - b /\ length D2 = d - c.
Proof.
  intros Hab Hbc Hcd Hd.
  exists (firstn a T), (firstn (b - a) (skipn a T)), (firstn (c - b) (skipn b T)), (firstn (d - c) (skipn c T)), (skipn d T).
  split.
  - transitivity (firstn d T ++ skipn d T); [symmetry; apply firstn_skipn|].
    rewrite (firstn_skipn_split T c d) by lia.
    rewrite (firstn_skipn_split T b c) by lia.
    rewrite (firstn_skipn_split T a b) by lia. rewrite <- !app_assoc. reflexivity.
  - rewrite !firstn_length, !skipn_length. lia.
Qed.

Section WithSchema.
Variable s : schema.
Notation fsize := (frag_size s).
Notation ftoks := (ftoks s).
Notation V := (V s).
Notation DT := (DT s).
Notation IT := (IT s).
Notation ShapeS sl := (Shape s (sl_content sl) (sl_open_start sl) (sl_open_end sl)).
Notation OpenS sl := (OpenOK s (sl_content sl) (sl_open_start sl) (sl_open_end sl)).

Lemma apply_replace_valid from to sl structure doc d' :
  V doc -> OpenS sl -> apply s (SReplace from to sl structure) doc = ROk d' -> V d'.
Proof. intros Hd Ho H. apply apply_replace_inv in H. eapply node_replace_valid_open; eauto. Qed.

(* ------------------------------------------------------------------ C17 *)
(* a = replace [f1,t1) by s1, b = replace [f2,t2) by s2, at least one untouched token between them.
   Rebasing each over the other's map never drops it; if both orders apply, the results have the same
   tokens. *)
Theorem replace_steps_commute f1 t1 s1 st1 f2 t2 s2 st2 doc da db :
  V doc -> OpenS s1 -> OpenS s2 -> f1 <= t1 -> t1 < f2 -> f2 <= t2 ->
  apply s (SReplace f1 t1 s1 st1) doc = ROk da ->
  apply s (SReplace f2 t2 s2 st2) doc = ROk db ->
  let d1 := length (IT s1) in
  step_map (SReplace f1 t1 s1 st1) (get_map s (SReplace f2 t2 s2 st2)) = Some (SReplace f1 t1 s1 false) /\
  step_map (SReplace f2 t2 s2 st2) (get_map s (SReplace f1 t1 s1 st1)) =
    Some (SReplace (f2 + d1 - (t1 - f1)) (t2 + d1 - (t1 - f1)) s2 false) /\
  forall dab dba,
    apply s (SReplace (f2 + d1 - (t1 - f1)) (t2 + d1 - (t1 - f1)) s2 false) da = ROk dab ->
    apply s (SReplace f1 t1 s1 false) db = ROk dba ->
    DT dab = DT dba.
Proof.
  intros Hd Ho1 Ho2 H1 H12 H2 Ha Hb d1.
  pose proof (OpenOK_Shape s _ _ _ Ho1) as Hs1. pose proof (OpenOK_Shape s _ _ _ Ho2) as Hs2.
  pose proof (IT_length s s1 Hs1) as Hl1. pose proof (IT_length s s2 Hs2) as Hl2. fold d1 in Hl1.
  split; [|split].
  - cbn [step_map get_map]. rewrite !map_result_single_before by lia. cbn [deleted mr_del mr_pos andb Z.land Z.ltb Z.compare].
    f_equal. f_equal; lia.
  - cbn [step_map get_map]. rewrite !map_result_single_after by lia. cbn [deleted mr_del mr_pos andb Z.land Z.ltb Z.compare].
    f_equal. f_equal; lia.
  - intros dab dba Hab Hba.
    destruct (replace_step_splice s _ _ _ _ _ _ Hd Hs1 Ha) as (_ & _ & Ea).
    destruct (replace_step_splice s _ _ _ _ _ _ Hd Hs2 Hb) as (_ & Ht2 & Eb).
    pose proof (apply_replace_valid _ _ _ _ _ _ Hd Ho1 Ha) as Hda.
    pose proof (apply_replace_valid _ _ _ _ _ _ Hd Ho2 Hb) as Hdb.
    destruct (replace_step_splice s _ _ _ _ _ _ Hda Hs2 Hab) as (_ & _ & Eab).
    destruct (replace_step_splice s _ _ _ _ _ _ Hdb Hs1 Hba) as (_ & _ & Eba).
    destruct (split5 (DT doc) f1 t1 f2 t2) as (P & D1 & M & D2 & S & ET & LP & LD1 & LM & LD2); try lia.
    rewrite ET in Ea, Eb.
    assert (Ea' : DT da = P ++ IT s1 ++ M ++ D2 ++ S).
    { rewrite Ea. rewrite firstn_exact by lia. f_equal. f_equal.
      rewrite app_assoc. rewrite skipn_exact by (rewrite app_length; lia). reflexivity. }
    assert (Eb' : DT db = P ++ D1 ++ M ++ IT s2 ++ S).
    { rewrite Eb. replace (P ++ D1 ++ M ++ D2 ++ S) with ((P ++ D1 ++ M) ++ D2 ++ S) by (rewrite <- !app_assoc; reflexivity).
      rewrite firstn_exact by (rewrite !app_length; lia).
      replace ((P ++ D1 ++ M) ++ D2 ++ S) with (((P ++ D1 ++ M) ++ D2) ++ S) by (rewrite <- !app_assoc; reflexivity).
      rewrite skipn_exact by (rewrite !app_length; lia). rewrite <- !app_assoc. reflexivity. }
    rewrite Eab, Eba, Ea', Eb'.
    replace (P ++ IT s1 ++ M ++ D2 ++ S) with ((P ++ IT s1 ++ M) ++ D2 ++ S) by (rewrite <- !app_assoc; reflexivity).
    rewrite firstn_exact by (rewrite !app_length; fold d1; lia).
    replace ((P ++ IT s1 ++ M) ++ D2 ++ S) with (((P ++ IT s1 ++ M) ++ D2) ++ S) by (rewrite <- !app_assoc; reflexivity).
    rewrite skipn_exact by (rewrite !app_length; fold d1; lia).
    rewrite firstn_exact by lia.
    rewrite (app_assoc P D1). rewrite skipn_exact by (rewrite app_length; lia).
    rewrite <- !app_assoc. reflexivity.
Qed.

(* ------------------------------------------------------------------ C16: shapes of appended fragments *)
Lemma ShapeR_nil k : ShapeR s [] (S k) -> False.
Proof. cbn. intros (r & ty & a & m & cs & H & _). destruct r; discriminate. Qed.

Lemma ShapeR_app x y k : y <> [] -> ShapeR s y k -> ShapeR s (x ++ y) k.
Proof.
  destruct k as [|k]; [intros; exact I|]. intros _ (r & ty & a & m & cs & -> & Hn & Hr).
  exists (x ++ r), ty, a, m, cs. rewrite app_assoc. auto.
Qed.
Lemma ShapeL_app x y k : x <> [] -> ShapeL s x k -> ShapeL s (x ++ y) k.
Proof. destruct k as [|k]; [intros; exact I|]. destruct x as [|[t m|ty a m cs] r]; cbn; try contradiction; auto. Qed.

Lemma Shape_app x y os oe : x <> [] -> y <> [] -> Shape s x os 0 -> Shape s y 0 oe -> Shape s (x ++ y) os oe.
Proof.
  intros Hx Hy H1 H2. destruct os as [|a].
  - cbn [Shape] in *. apply ShapeR_app; auto.
  - destruct oe as [|b].
    + cbn [Shape] in *. apply ShapeL_app; auto.
    + cbn [Shape] in H1, H2. cbn [Shape]. right.
      destruct x as [|[t m|ty1 a1 m1 cs1] r1]; cbn [ShapeL] in H1; try contradiction. destruct H1 as (Hn1 & Hl).
      destruct H2 as (r2 & ty2 & a2 & m2 & cs2 & -> & Hn2 & Hr).
      exists ty1, a1, m1, cs1, (r1 ++ r2), ty2, a2, m2, cs2.
      split; [cbn [app]; rewrite <- ?app_assoc; reflexivity|auto].
Qed.

(* the seam: a text node is replaced by another text node *)
Lemma Shape_seam x y t m t' m' t'' m'' os oe :
  Shape s (x ++ [Text t m]) os 0 -> Shape s (Text t' m' :: y) 0 oe -> Shape s (x ++ Text t'' m'' :: y) os oe.
Proof.
  intros H1 H2.
  assert (HR : forall b, ShapeR s (Text t' m' :: y) (S b) ->
                 exists r' ty a mm cs, y = r' ++ [Elem ty a mm cs] /\ nl_ty s ty /\ ShapeR s cs b).
  { intros b (r & ty & a & mm & cs & E & Hn & Hr). destruct r as [|r0 r]; [discriminate|]. inversion E; subst.
    exists r, ty, a, mm, cs. auto. }
  destruct os as [|a].
  - cbn [Shape] in *. destruct oe as [|b]; [exact I|]. destruct (HR b H2) as (r' & ty & a & mm & cs & -> & Hn & Hr).
    exists (x ++ Text t'' m'' :: r'), ty, a, mm, cs. split; [rewrite <- app_assoc; reflexivity|auto].
  - assert (HL : exists ty1 a1 m1 cs1 x', x = Elem ty1 a1 m1 cs1 :: x' /\ nl_ty s ty1 /\ ShapeL s cs1 a).
    { destruct oe; cbn [Shape] in H1;
      (destruct x as [|[tt mm|ty1 a1 m1 cs1] x']; cbn in H1; try contradiction;
       destruct H1 as (Hn & Hl); exists ty1, a1, m1, cs1, x'; auto). }
    destruct HL as (ty1 & a1 & m1 & cs1 & x' & -> & Hn1 & Hl).
    destruct oe as [|b].
    + cbn. auto.
    + cbn [Shape] in H2. destruct (HR b H2) as (r' & ty & a2 & mm & cs & -> & Hn & Hr). cbn [Shape]. right.
      exists ty1, a1, m1, cs1, (x' ++ Text t'' m'' :: r'), ty, a2, mm, cs.
      split; [cbn [app]; rewrite <- ?app_assoc; reflexivity|auto].
Qed.

Lemma frag_append_shape c1 c2 os oe : Shape s c1 os 0 -> Shape s c2 0 oe -> Shape s (frag_append c1 c2) os oe.
Proof.
  intros H1 H2. unfold frag_append. destruct c2 as [|first b'].
  - destruct oe as [|b]; [exact H1|]. cbn [Shape] in H2. destruct (ShapeR_nil _ H2).
  - destruct c1 as [|a0 a'].
    + destruct os as [|a]; [exact H2|]. destruct oe; cbn in H1; contradiction.
    + set (a := a0 :: a') in *.
      assert (Hd : Shape s (a ++ first :: b') os oe) by (apply Shape_app; auto; discriminate).
      destruct (last a first) as [t m|? ? ? ?] eqn:El; [|exact Hd].
      destruct first as [t' m'|? ? ? ?]; [|exact Hd].
      destruct (marks_eqb m m') eqn:Em; [|exact Hd].
      assert (Hs : a = removelast a ++ [Text t m]) by (rewrite <- El; apply last_split; discriminate).
      rewrite Hs in H1. cbn [app]. eapply Shape_seam; eauto.
Qed.

Lemma Shape_os_0 c os : Shape s c os 0 -> ShapeL s c os.
Proof. destruct os; cbn; auto. Qed.

(* inner tokens of the concatenation *)
Lemma IT_append c1 os c2 oe :
  Shape s c1 os 0 -> Shape s c2 0 oe ->
  IT (SL (frag_append c1 c2) os oe) = IT (SL c1 os 0) ++ IT (SL c2 0 oe).
Proof.
  intros H1 H2. pose proof (Shape_size s _ _ _ H1) as Z1. pose proof (Shape_size s _ _ _ H2) as Z2.
  unfold IT, inner_toks. cbn [sl_content sl_open_start sl_open_end].
  pose proof (frag_append_toks s c1 c2) as Hfa. unfold nt in *.
  assert (L3 : length (ftoks (frag_append c1 c2)) = fsize c1 + fsize c2).
  { rewrite <- (map_length tnorm), Hfa, app_length, !map_length, !ftoks_length. reflexivity. }
  rewrite <- !firstn_map, <- !skipn_map. rewrite Hfa, L3, !ftoks_length.
  set (F1 := List.map tnorm (ftoks c1)). set (F2 := List.map tnorm (ftoks c2)).
  assert (L1 : length F1 = fsize c1) by (unfold F1; rewrite map_length; apply ftoks_length).
  assert (L2 : length F2 = fsize c2) by (unfold F2; rewrite map_length; apply ftoks_length).
  cbn [skipn]. rewrite skipn_app_l by lia.
  rewrite firstn_app_r by (rewrite skipn_length; lia). rewrite skipn_length, L1.
  f_equal.
  - symmetry. apply firstn_all2. rewrite skipn_length. lia.
  - f_equal. lia.
Qed.

Lemma IT_nil sl : ShapeS sl -> slice_size s sl = 0%Z -> IT sl = [].
Proof. intros H Hz. pose proof (IT_length s sl H). destruct (IT sl); [reflexivity|cbn in *; lia]. Qed.

(* ------------------------------------------------------------------ C16 *)
Theorem merged_replace_step a b m doc da dab dm :
  V doc ->
  (forall f t sl st, a = SReplace f t sl st -> OpenS sl /\ f <= t) ->
  (forall f t sl st, b = SReplace f t sl st -> ShapeS sl /\ f <= t) ->
  (exists f t sl st, a = SReplace f t sl st) ->
  merge s a b = Some m ->
  apply s a doc = ROk da -> apply s b da = ROk dab -> apply s m doc = ROk dm ->
  DT dm = DT dab.
Proof.
  intros Hd Ha Hb (f1 & t1 & s1 & st1 & ->) Hm A1 A2 A3.
  destruct (Ha _ _ _ _ eq_refl) as (Ho1 & Hft1). clear Ha.
  destruct b as [f2 t2 s2 st2| | | | | | |]; try discriminate.
  destruct (Hb _ _ _ _ eq_refl) as (Hs2 & Hft2). clear Hb.
  pose proof (OpenOK_Shape s _ _ _ Ho1) as Hs1.
  pose proof (IT_length s s1 Hs1) as Hl1. pose proof (IT_length s s2 Hs2) as Hl2.
  destruct (replace_step_splice s _ _ _ _ _ _ Hd Hs1 A1) as (Bf1 & Bt1 & Ea).
  pose proof (apply_replace_valid _ _ _ _ _ _ Hd Ho1 A1) as Hda.
  destruct (replace_step_splice s _ _ _ _ _ _ Hda Hs2 A2) as (Bf2 & Bt2 & Eab).
  cbn [merge] in Hm. destruct (st1 || st2); [discriminate|].
  destruct s1 as [c1 os1 oe1]. destruct s2 as [c2 os2 oe2]. cbn [sl_content sl_open_start sl_open_end] in *.
  destruct ((Z.of_nat f1 + slice_size s (SL c1 os1 oe1) =? Z.of_nat f2)%Z && (oe1 =? 0) && (os2 =? 0)) eqn:C1.
  - (* the second step continues where the first one's insertion ended *)
    apply andb_prop in C1. destruct C1 as [C1 C1c]. apply andb_prop in C1. destruct C1 as [C1a C1b].
    apply Z.eqb_eq in C1a. apply Nat.eqb_eq in C1b, C1c. subst oe1 os2.
    assert (Ef2 : f2 = f1 + length (IT (SL c1 os1 0))) by lia.
    assert (Hsm : forall slm, slm = (if (slice_size s (SL c1 os1 0) + slice_size s (SL c2 0 oe2) =? 0)%Z then slice_empty
                               else SL (frag_append c1 c2) os1 oe2) ->
                  ShapeS slm /\ IT slm = IT (SL c1 os1 0) ++ IT (SL c2 0 oe2)).
    { intros slm ->. destruct (slice_size s (SL c1 os1 0) + slice_size s (SL c2 0 oe2) =? 0)%Z eqn:Ez.
      - apply Z.eqb_eq in Ez. split; [exact I|]. rewrite (IT_nil (SL c1 os1 0)), (IT_nil (SL c2 0 oe2)); auto; lia.
      - cbn [sl_content sl_open_start sl_open_end]. split; [apply frag_append_shape; auto|apply IT_append; auto]. }
    inversion Hm; subst m. clear Hm.
    destruct (Hsm _ eq_refl) as (Hshm & EIm).
    destruct (replace_step_splice s _ _ _ _ _ _ Hd Hshm A3) as (_ & _ & Em).
    rewrite Em, Eab, Ea, EIm.
    assert (LP : length (firstn f1 (DT doc)) = f1) by (rewrite firstn_length; lia).
    set (P := firstn f1 (DT doc)) in *. set (I1 := IT (SL c1 os1 0)) in *. set (I2 := IT (SL c2 0 oe2)) in *.
    replace (P ++ I1 ++ skipn t1 (DT doc)) with ((P ++ I1) ++ skipn t1 (DT doc)) by (rewrite <- app_assoc; reflexivity).
    rewrite firstn_exact by (rewrite app_length; lia).
    rewrite skipn_app_r by (rewrite app_length; lia). rewrite app_length, LP.
    rewrite skipn_skipn_add. rewrite <- !app_assoc. f_equal. f_equal. f_equal. f_equal. lia.
  - destruct ((t2 =? f1) && (os1 =? 0) && (oe2 =? 0)) eqn:C2; [|discriminate].
    (* the second step ends where the first one started *)
    apply andb_prop in C2. destruct C2 as [C2 C2c]. apply andb_prop in C2. destruct C2 as [C2a C2b].
    apply Nat.eqb_eq in C2a, C2b, C2c. subst t2 os1 oe2.
    assert (Hsm : forall slm, slm = (if (slice_size s (SL c1 0 oe1) + slice_size s (SL c2 os2 0) =? 0)%Z then slice_empty
                               else SL (frag_append c2 c1) os2 oe1) ->
                  ShapeS slm /\ IT slm = IT (SL c2 os2 0) ++ IT (SL c1 0 oe1)).
    { intros slm ->. destruct (slice_size s (SL c1 0 oe1) + slice_size s (SL c2 os2 0) =? 0)%Z eqn:Ez.
      - apply Z.eqb_eq in Ez. split; [exact I|]. rewrite (IT_nil (SL c1 0 oe1)), (IT_nil (SL c2 os2 0)); auto; lia.
      - cbn [sl_content sl_open_start sl_open_end]. split; [apply frag_append_shape; auto|apply IT_append; auto]. }
    inversion Hm; subst m. clear Hm.
    destruct (Hsm _ eq_refl) as (Hshm & EIm).
    destruct (replace_step_splice s _ _ _ _ _ _ Hd Hshm A3) as (_ & _ & Em).
    rewrite Em, Eab, Ea, EIm.
    assert (LP : length (firstn f1 (DT doc)) = f1) by (rewrite firstn_length; lia).
    rewrite firstn_app_l by lia. rewrite firstn_firstn_le by lia.
    rewrite skipn_exact by lia. rewrite <- !app_assoc. reflexivity.
Qed.

End WithSchema.
