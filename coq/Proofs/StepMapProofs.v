(* Proofs about Model/StepMap.v (property C08). *)
From Coq Require Import ZArith List Bool Lia ZifyBool.
From PM Require Import Model.StepMap.
Import ListNotations.
Open Scope Z_scope.

(* ------------------------------------------------------------------ *)
(* Well-formed range lists: starts non-decreasing past the previous range's
   old end, sizes non-negative.  Adjacent ranges (gap 0) are allowed;
   [sep_ranges] additionally asks for a gap of at least one untouched token. *)
Fixpoint wf_ranges (lo : Z) (rs : list range) : Prop :=
  match rs with
  | [] => True
  | (s, a, b) :: rest => lo <= s /\ 0 <= a /\ 0 <= b /\ wf_ranges (s + a) rest
  end.

Fixpoint sep_ranges (lo : Z) (rs : list range) : Prop :=
  match rs with
  | [] => True
  | (s, a, b) :: rest => lo < s /\ 0 <= a /\ 0 <= b /\ sep_ranges (s + a) rest
  end.

Lemma sep_wf lo rs : sep_ranges lo rs -> wf_ranges lo rs.
Proof.
  revert lo; induction rs as [|[[s a] b] rs IH]; simpl; intros lo H; auto.
  destruct H as (H1 & H2 & H3 & H4). repeat split; try lia. apply IH; auto.
Qed.

Lemma wf_ranges_weaken lo lo' rs : lo' <= lo -> wf_ranges lo rs -> wf_ranges lo' rs.
Proof. destruct rs as [|[[s a] b] rs]; simpl; intuition lia. Qed.

(* An inverted map is the plain map over the "normalised" range list: starts
   moved to the other coordinate system, old and new sizes swapped. *)
Fixpoint norm (diff : Z) (rs : list range) : list range :=
  match rs with
  | [] => []
  | (s, a, b) :: rest => (s - diff, b, a) :: norm (diff + (a - b)) rest
  end.

Lemma map_go_inv rs : forall i d p a,
  map_go true rs i d p a = map_go false (norm d rs) i d p a.
Proof.
  induction rs as [|[[s x] y] rs IH]; intros i d p a; simpl; auto.
  replace (s - d - 0) with (s - d) by lia.
  destruct (s - d >? p); auto.
  destruct (p <=? s - d + y); auto.
Qed.

Lemma wf_norm rs : forall lo d, wf_ranges lo rs -> wf_ranges (lo - d) (norm d rs).
Proof.
  induction rs as [|[[s a] b] rs IH]; simpl; intros lo d H; auto.
  destruct H as (H1 & H2 & H3 & H4). repeat split; try lia.
  replace (s - d + b) with ((s + a) - (d + (a - b))) by lia. apply IH; auto.
Qed.

Lemma sep_norm rs : forall lo d, sep_ranges lo rs -> sep_ranges (lo - d) (norm d rs).
Proof.
  induction rs as [|[[s a] b] rs IH]; simpl; intros lo d H; auto.
  destruct H as (H1 & H2 & H3 & H4). repeat split; try lia.
  replace (s - d + b) with ((s + a) - (d + (a - b))) by lia. apply IH; auto.
Qed.

(* ------------------------------------------------------------------ *)
(* Lower / upper bounds used for monotonicity *)

Lemma map_go_lower rs : forall i d p a lo,
  wf_ranges lo rs -> lo <= p ->
  lo + d <= mr_pos (map_go false rs i d p a).
Proof.
  induction rs as [|[[s x] y] rs IH]; intros i d p a lo Hwf Hp; simpl in *.
  - lia.
  - destruct Hwf as (H1 & H2 & H3 & H4).
    replace (s - 0) with s by lia.
    destruct (s >? p) eqn:E1; simpl; [lia|].
    destruct (p <=? s + x) eqn:E2; simpl.
    + destruct (_ <? 0); lia.
    + specialize (IH (i + 1) (d + (y - x)) p a (s + x) H4). lia.
Qed.

(* Monotonicity *)
Lemma map_go_mono rs : forall i d p q a lo,
  wf_ranges lo rs -> lo <= p -> p <= q ->
  mr_pos (map_go false rs i d p a) <= mr_pos (map_go false rs i d q a).
Proof.
  induction rs as [|[[s x] y] rs IH]; intros i d p q a lo Hwf Hp Hpq; simpl in *.
  - lia.
  - destruct Hwf as (H1 & H2 & H3 & H4).
    replace (s - 0) with s by lia.
    destruct (s >? p) eqn:E1; simpl.
    + (* p before the range *)
      destruct (s >? q) eqn:E2; simpl; [lia|].
      destruct (q <=? s + x) eqn:E3; simpl.
      * destruct (_ <? 0); lia.
      * pose proof (map_go_lower rs (i + 1) (d + (y - x)) q a (s + x) H4). lia.
    + destruct (s >? q) eqn:E2; [lia|].
      destruct (p <=? s + x) eqn:E3; simpl.
      * destruct (q <=? s + x) eqn:E4; simpl.
        -- (* both inside *)
           destruct (x =? 0) eqn:Ex.
           ++ destruct (a <? 0); lia.
           ++ destruct (p =? s) eqn:Eps; simpl.
              ** destruct (q =? s) eqn:Eqs; simpl; [lia|].
                 destruct (q =? s + x); simpl; [lia|]. destruct (a <? 0); lia.
              ** destruct (q =? s) eqn:Eqs; [lia|].
                 destruct (p =? s + x) eqn:Epe; simpl.
                 --- assert (q = s + x) by lia. subst q. rewrite Z.eqb_refl. simpl. lia.
                 --- destruct (q =? s + x); simpl; destruct (a <? 0); lia.
        -- pose proof (map_go_lower rs (i + 1) (d + (y - x)) q a (s + x) H4).
           destruct (_ <? 0); lia.
      * destruct (q <=? s + x) eqn:E4; [lia|].
        apply (IH _ _ _ _ _ (s + x)); auto; lia.
Qed.

Definition wf_map (m : stepmap) : Prop := wf_ranges 0 (ranges m).
Definition sep_map (m : stepmap) : Prop := sep_ranges (-1) (ranges m).

Theorem map_mono m p q a : wf_map m -> 0 <= p -> p <= q -> map m p a <= map m q a.
Proof.
  unfold wf_map, map, map_result. intros Hwf Hp Hpq.
  destruct (inverted m).
  - rewrite !map_go_inv. apply (map_go_mono _ _ _ _ _ _ (0 - 0)); try lia.
    apply wf_norm; auto.
  - apply (map_go_mono _ _ _ _ _ _ 0); auto.
Qed.

(* ------------------------------------------------------------------ *)
(* The documented rule, in split-list form (non-inverted orientation; the
   inverted orientation is the same statement about [norm 0 rs]). *)

Definition total_diff (rs : list range) : Z := fold_right (fun r acc => (new_of false r - old_of false r) + acc) 0 rs.

(* every range of [rs] ends strictly before p *)
Fixpoint all_before (rs : list range) (p : Z) : Prop :=
  match rs with [] => True | (s, a, _) :: rest => (0 <= a /\ s + a < p) /\ all_before rest p end.

Lemma map_go_skip pre : forall post i d p a,
  all_before pre p ->
  map_go false (pre ++ post) i d p a =
  map_go false post (i + Z.of_nat (length pre)) (d + total_diff pre) p a.
Proof.
  induction pre as [|[[s x] y] pre IH]; intros post i d p a Hb.
  - simpl. f_equal; lia.
  - destruct Hb as [[Hb0 Hb1] Hb2]. cbn [app map_go start_of old_of new_of].
    replace (s - 0) with s by lia.
    assert (E1 : (s >? p) = false) by lia. rewrite E1.
    assert (E2 : (p <=? s + x) = false) by lia. rewrite E2.
    rewrite IH by auto. unfold total_diff; cbn [fold_right new_of old_of length].
    f_equal; lia.
Qed.

(* positions between ranges (or before the first / after the last) shift by
   the size differences of the ranges before them *)
Theorem rule_outside pre post p a :
  all_before pre p ->
  (match post with [] => True | (s, _, _) :: _ => p < s end) ->
  map {| ranges := pre ++ post; inverted := false |} p a = p + total_diff pre.
Proof.
  intros Hb Hp. unfold map, map_result; simpl.
  rewrite map_go_skip by auto.
  destruct post as [|[[s x] y] post]; simpl; [lia|].
  replace (s - 0) with s by lia.
  assert (E : (s >? p) = true) by lia. rewrite E. simpl. lia.
Qed.

(* positions strictly inside a replaced range go to the start or the end of
   the replacement according to the association side *)
Theorem rule_inside pre s x y post p a :
  all_before pre p -> s < p < s + x ->
  map {| ranges := pre ++ (s, x, y) :: post; inverted := false |} p a =
  s + total_diff pre + (if a <? 0 then 0 else y).
Proof.
  intros Hb Hp. unfold map, map_result; simpl.
  rewrite map_go_skip by auto. simpl.
  replace (s - 0) with s by lia.
  assert (E1 : (s >? p) = false) by lia. rewrite E1.
  assert (E2 : (p <=? s + x) = true) by lia. rewrite E2.
  assert (E3 : (x =? 0) = false) by lia. rewrite E3.
  assert (E4 : (p =? s) = false) by lia. rewrite E4.
  assert (E5 : (p =? s + x) = false) by lia. rewrite E5. simpl. lia.
Qed.

(* at the start / end of a non-empty replaced range (not touching the previous
   range) the position sticks to the outside of the replacement; for an
   insertion (old size 0) the association side decides *)
Theorem rule_at_start pre s x y post a :
  all_before pre s -> 0 < x ->
  map {| ranges := pre ++ (s, x, y) :: post; inverted := false |} s a = s + total_diff pre.
Proof.
  intros Hb Hx. unfold map, map_result; simpl.
  rewrite map_go_skip by auto. simpl.
  replace (s - 0) with s by lia.
  assert (E1 : (s >? s) = false) by lia. rewrite E1.
  assert (E2 : (s <=? s + x) = true) by lia. rewrite E2.
  assert (E3 : (x =? 0) = false) by lia. rewrite E3.
  rewrite Z.eqb_refl. simpl. lia.
Qed.

Theorem rule_at_end pre s x y post a :
  all_before pre (s + x) -> 0 < x ->
  map {| ranges := pre ++ (s, x, y) :: post; inverted := false |} (s + x) a = s + total_diff pre + y.
Proof.
  intros Hb Hx. unfold map, map_result; simpl.
  rewrite map_go_skip by auto. simpl.
  replace (s - 0) with s by lia.
  assert (E1 : (s >? s + x) = false) by lia. rewrite E1.
  assert (E2 : (s + x <=? s + x) = true) by lia. rewrite E2.
  assert (E3 : (x =? 0) = false) by lia. rewrite E3.
  assert (E4 : (s + x =? s) = false) by lia. rewrite E4.
  rewrite Z.eqb_refl. simpl. lia.
Qed.

Theorem rule_insertion pre s y post a :
  all_before pre s ->
  map {| ranges := pre ++ (s, 0, y) :: post; inverted := false |} s a =
  s + total_diff pre + (if a <? 0 then 0 else y).
Proof.
  intros Hb. unfold map, map_result; simpl.
  rewrite map_go_skip by auto. simpl.
  replace (s - 0) with s by lia.
  assert (E1 : (s >? s) = false) by lia. rewrite E1.
  assert (E2 : (s <=? s + 0) = true) by lia. rewrite E2. simpl. lia.
Qed.

(* deletion flags, same form *)
Theorem flags_inside pre s x y post p a :
  all_before pre p -> s < p < s + x ->
  let r := map_result {| ranges := pre ++ (s, x, y) :: post; inverted := false |} p a in
  deleted r = true /\ deleted_across r = true /\ deleted_before r = true /\ deleted_after r = true
  /\ mr_recover r = Some (make_recover (Z.of_nat (length pre)) (p - s)).
Proof.
  intros Hb Hp. unfold map_result; simpl.
  rewrite map_go_skip by auto. simpl.
  replace (s - 0) with s by lia.
  assert (E1 : (s >? p) = false) by lia. rewrite E1.
  assert (E2 : (p <=? s + x) = true) by lia. rewrite E2.
  assert (E4 : (p =? s) = false) by lia. rewrite E4.
  assert (E5 : (p =? s + x) = false) by lia. rewrite E5.
  destruct (a <? 0); rewrite ?E4, ?E5; simpl; repeat split; reflexivity.
Qed.

Theorem flags_outside pre post p a :
  all_before pre p ->
  (match post with [] => True | (s, _, _) :: _ => p < s end) ->
  let r := map_result {| ranges := pre ++ post; inverted := false |} p a in
  mr_del r = 0 /\ mr_recover r = None.
Proof.
  intros Hb Hp. unfold map_result; simpl.
  rewrite map_go_skip by auto.
  destruct post as [|[[s x] y] post]; simpl; [auto|].
  replace (s - 0) with s by lia.
  assert (E : (s >? p) = true) by lia. rewrite E. simpl. auto.
Qed.

Theorem flags_at_start pre s x y post a :
  all_before pre s -> 0 < x ->
  let r := map_result {| ranges := pre ++ (s, x, y) :: post; inverted := false |} s a in
  deleted_after r = true /\ deleted_before r = false /\ deleted_across r = false /\
  deleted r = negb (a <? 0).
Proof.
  intros Hb Hx. unfold map_result; simpl.
  rewrite map_go_skip by auto. simpl.
  replace (s - 0) with s by lia.
  assert (E1 : (s >? s) = false) by lia. rewrite E1.
  assert (E2 : (s <=? s + x) = true) by lia. rewrite E2.
  rewrite Z.eqb_refl.
  assert (E4 : (s =? s + x) = false) by lia.
  destruct (a <? 0); rewrite ?E4; simpl; repeat split; reflexivity.
Qed.

Theorem flags_at_end pre s x y post a :
  all_before pre (s + x) -> 0 < x ->
  let r := map_result {| ranges := pre ++ (s, x, y) :: post; inverted := false |} (s + x) a in
  deleted_before r = true /\ deleted_after r = false /\ deleted_across r = false /\
  deleted r = (a <? 0).
Proof.
  intros Hb Hx. unfold map_result; simpl.
  rewrite map_go_skip by auto. simpl.
  replace (s - 0) with s by lia.
  assert (E1 : (s >? s + x) = false) by lia. rewrite E1.
  assert (E2 : (s + x <=? s + x) = true) by lia. rewrite E2.
  assert (E4 : (s + x =? s) = false) by lia. rewrite E4.
  rewrite Z.eqb_refl.
  destruct (a <? 0); simpl; repeat split; reflexivity.
Qed.

(* ------------------------------------------------------------------ *)
(* recover encoding *)

Lemma land_lower16 i o : 0 <= i < 65536 -> Z.land (i + o * 65536) 65535 = i.
Proof.
  intros Hi. change 65535 with (Z.ones 16). rewrite Z.land_ones by lia.
  change (2 ^ 16) with 65536. rewrite Z.mod_add by lia. apply Z.mod_small; lia.
Qed.

Lemma recover_index_make i o : 0 <= i < 65536 -> recover_index (make_recover i o) = i.
Proof. intros; unfold recover_index, make_recover, lower16, factor16. apply land_lower16; auto. Qed.

Lemma recover_offset_make i o : 0 <= i < 65536 -> recover_offset (make_recover i o) = o.
Proof.
  intros Hi. unfold recover_offset, make_recover, lower16, factor16.
  rewrite land_lower16 by auto. replace (i + o * 65536 - i) with (o * 65536) by lia.
  apply Z.div_mul; lia.
Qed.

(* generalised: map_go over a suffix [rs] of the full list [pre ++ rs] *)
Lemma map_go_recover_false rs : forall pre i d p a v,
  i = Z.of_nat (length pre) -> i + Z.of_nat (length rs) <= 65536 ->
  mr_recover (map_go false rs i d p a) = Some v ->
  exists r, nth_error (pre ++ rs) (Z.to_nat (recover_index v)) = Some r /\
            start_of r + recover_offset v = p.
Proof.
  induction rs as [|[[s x] y] rs IH]; intros pre i d p a v Hi Hlen H; simpl in *; [discriminate|].
  replace (s - 0) with s in H by lia.
  destruct (s >? p); simpl in H; [discriminate|].
  destruct (p <=? s + x); simpl in H.
  - destruct (p =? _); [discriminate|]. inversion H; subst v; clear H.
    rewrite recover_index_make, recover_offset_make by lia.
    exists (s, x, y). split; [|simpl; lia].
    subst i. rewrite Nat2Z.id. rewrite nth_error_app2 by lia. rewrite Nat.sub_diag. reflexivity.
  - specialize (IH (pre ++ [(s, x, y)]) (i + 1) (d + (y - x)) p a v).
    rewrite <- app_assoc in IH. simpl in IH. apply IH; auto.
    + rewrite app_length; simpl. lia.
    + lia.
Qed.

Lemma sum_diff_norm rs : forall n d,
  (n <= length rs)%nat ->
  forall r, nth_error (norm d rs) n = Some r ->
  exists r0, nth_error rs n = Some r0 /\ start_of r = start_of r0 - d + sum_diff rs n.
Proof.
  induction rs as [|[[s x] y] rs IH]; intros n d Hn r H.
  - destruct n; discriminate.
  - destruct n; simpl in *.
    + inversion H; subst. eexists; split; eauto. simpl. lia.
    + destruct (IH n (d + (x - y)) ltac:(lia) r H) as (r0 & H1 & H2).
      exists r0; split; auto. lia.
Qed.

Lemma length_norm rs : forall d, length (norm d rs) = length rs.
Proof. induction rs as [|[[? ?] ?] l IH]; simpl; intros; auto. Qed.

(* If mapping through m yields a recover value, recovering it through the
   inverse map (the registered mirror) gives back the original position. *)
Theorem recover_roundtrip m p a v :
  Z.of_nat (length (ranges m)) <= 65536 ->
  mr_recover (map_result m p a) = Some v ->
  recover (invert m) v = Some p.
Proof.
  unfold map_result, recover, invert; simpl. intros Hlen H.
  destruct (inverted m); simpl.
  - rewrite map_go_inv in H.
    destruct (map_go_recover_false (norm 0 (ranges m)) [] 0 0 p a v eq_refl) as (r & Hr & Hp); auto.
    { rewrite length_norm. lia. }
    simpl in Hr.
    destruct (sum_diff_norm (ranges m) (Z.to_nat (recover_index v)) 0) with (r := r) as (r0 & H1 & H2); auto.
    { assert (Hlt : (Z.to_nat (recover_index v) < length (norm 0 (ranges m)))%nat).
      { apply nth_error_Some. congruence. }
      rewrite length_norm in Hlt. lia. }
    rewrite H1. f_equal. lia.
  - destruct (map_go_recover_false (ranges m) [] 0 0 p a v eq_refl) as (r & Hr & Hp); auto.
    simpl in Hr. rewrite Hr. f_equal. lia.
Qed.
