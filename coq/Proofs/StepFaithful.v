(* The position map of a replace step describes what the step did to the tokens (C03, replace steps). *)
From Coq Require Import ZArith NArith List Bool Arith Lia.
From PM Require Import Model.Data Model.Mark Model.Tree Model.StepMap Model.Step Spec.Tokens
  Proofs.ReplaceValid Proofs.SliceSides Proofs.TokenBasics Proofs.PathTokens Proofs.ReplaceTokens Proofs.SliceShape.
Import ListNotations.
Local Open Scope nat_scope.

Lemma map_single_before (f x y p a : Z) : (p < f)%Z ->
  map {| ranges := [(f, x, y)]; inverted := false |} p a = p.
Proof.
  intros H. unfold map, map_result. cbn [inverted ranges map_go start_of].
  destruct (f - 0 >? p)%Z eqn:E; [cbn; lia|]. rewrite Z.gtb_ltb in E. apply Z.ltb_ge in E. lia.
Qed.

Lemma map_single_after (f x y p : Z) : (0 <= x)%Z -> (f + x <= p)%Z ->
  map {| ranges := [(f, x, y)]; inverted := false |} p 1 = (p + (y - x))%Z.
Proof.
  intros Hx H. unfold map, map_result. cbn [inverted ranges map_go start_of old_of new_of].
  destruct (f - 0 >? p)%Z eqn:E0; [rewrite Z.gtb_ltb in E0; apply Z.ltb_lt in E0; lia|].
  destruct (p <=? f - 0 + x)%Z eqn:E.
  - apply Z.leb_le in E. assert (p = f + x)%Z by lia. subst p. cbn [mr_pos].
    destruct (x =? 0)%Z eqn:Ex.
    + apply Z.eqb_eq in Ex. subst x. cbn. lia.
    + apply Z.eqb_neq in Ex. replace (f + x =? f - 0)%Z with false by (symmetry; apply Z.eqb_neq; lia).
      replace (f + x =? f - 0 + x)%Z with true by (symmetry; apply Z.eqb_eq; lia). cbn. lia.
  - cbn [map_go mr_pos]. lia.
Qed.

Lemma nth_firstn {A} (l : list A) : forall n i, i < n -> nth_error (firstn n l) i = nth_error l i.
Proof.
  induction l as [|x l IH]; intros [|n] [|i] H; try reflexivity; try lia.
  cbn [firstn nth_error]. apply IH. lia.
Qed.
Lemma nth_skipn {A} (l : list A) : forall n i, nth_error (skipn n l) i = nth_error l (n + i).
Proof.
  induction l as [|x l IH]; intros [|n] i; try reflexivity.
  - destruct i; reflexivity.
  - cbn [skipn Nat.add nth_error]. apply IH.
Qed.

Section WithSchema.
Variable s : schema.
Notation fsize := (frag_size s).
Notation ftoks := (ftoks s).

Lemma apply_replace_inv (from to : nat) sl structure doc d' :
  apply s (SReplace from to sl structure) doc = ROk d' -> node_replace s doc from to sl = Ok d'.
Proof.
  intros H. cbn [apply] in H. unfold lift in H.
  destruct (if structure then content_between s doc from to else Ok false) as [cb|]; [|discriminate].
  destruct cb; [discriminate|]. unfold from_replace in H.
  destruct (node_replace s doc from to sl) as [d|e] eqn:E; [|destruct e; discriminate].
  inversion H; subst. reflexivity.
Qed.

Theorem replace_step_map_faithful (from to : nat) sl structure doc d' :
  V s doc -> Shape s (sl_content sl) (sl_open_start sl) (sl_open_end sl) -> from <= to ->
  apply s (SReplace from to sl structure) doc = ROk d' ->
  let m := get_map s (SReplace from to sl structure) in
  let T := nt (ftoks (node_content doc)) in
  let T' := nt (ftoks (node_content d')) in
  (Z.of_nat (length T') = Z.of_nat (length T) + (slice_size s sl - (Z.of_nat to - Z.of_nat from)))%Z /\
  (forall p, p < from -> nth_error T' (Z.to_nat (map m (Z.of_nat p) 1)) = nth_error T p) /\
  (forall p, to <= p -> nth_error T' (Z.to_nat (map m (Z.of_nat p) 1)) = nth_error T p).
Proof.
  intros Hd Hs Hft H. apply apply_replace_inv in H.
  destruct (node_replace_toks s doc from to sl d' Hd Hs H) as (X & -> & Ht).
  assert (Hrf : from <= fsize (node_content doc) /\ to <= fsize (node_content doc) /\ is_elem doc).
  { unfold node_replace in H.
    destruct (resolve s doc from) as [rf|] eqn:Ef; [|discriminate].
    destruct (resolve s doc to) as [rt|] eqn:Et; [|discriminate].
    destruct (resolve_tokens s _ _ _ Ef) as (Hlf & _). destruct (resolve_tokens s _ _ _ Et) as (Hlt & _).
    split; [exact Hlf|]. split; [exact Hlt|].
    destruct (resolve_spec s _ _ _ Ef) as (_ & _ & _ & (i & o & r & Hh) & _).
    apply (resolve_PathShape s _ _ _ Ef 0 doc). unfold rp_node, path_at. rewrite Hh. reflexivity. }
  destruct Hrf as (Hlf & Hlt & Hel). rewrite (node_copy_content _ _ Hel).
  pose proof (Shape_size s _ _ _ Hs) as Hsz.
  set (A := nt (firstn from (ftoks (node_content doc)))) in *.
  set (I := nt (inner_toks s sl)) in *.
  set (B := nt (skipn to (ftoks (node_content doc)))) in *.
  assert (HlA : length A = from) by (unfold A, nt; rewrite map_length, firstn_length, ftoks_length; lia).
  assert (HlI : length I = fsize (sl_content sl) - sl_open_start sl - sl_open_end sl).
  { unfold I, nt, inner_toks. rewrite map_length, firstn_length, skipn_length, ftoks_length. lia. }
  assert (HlB : length B = fsize (node_content doc) - to) by (unfold B, nt; rewrite map_length, skipn_length, ftoks_length; lia).
  assert (Hsl : slice_size s sl = Z.of_nat (length I)) by (unfold slice_size; lia).
  cbn zeta. rewrite Ht. cbn [get_map].
  split; [|split].
  - unfold nt. rewrite !app_length, map_length, ftoks_length. fold (nt (firstn from (ftoks (node_content doc)))). lia.
  - intros p Hp. rewrite map_single_before by lia. rewrite Nat2Z.id.
    rewrite nth_error_app1 by lia. unfold A, nt. rewrite <- !firstn_map.
    rewrite nth_firstn by lia. reflexivity.
  - intros p Hp. rewrite map_single_after by lia. rewrite Hsl.
    replace (Z.to_nat (Z.of_nat p + (Z.of_nat (length I) - (Z.of_nat to - Z.of_nat from))))
      with (length A + (length I + (p - to))) by lia.
    rewrite nth_error_app2 by lia. replace (length A + (length I + (p - to)) - length A) with (length I + (p - to)) by lia.
    rewrite nth_error_app2 by lia. replace (length I + (p - to) - length I) with (p - to) by lia.
    unfold B, nt. rewrite <- skipn_map. rewrite nth_skipn. f_equal. lia.
Qed.

End WithSchema.
