"""C07 — validity predicates agree with the schema's definition of validity (node.py, schema.py, content.py)."""
from __future__ import annotations

import random

import gen
from c02 import info_for
from common import Case, b, nat
from pm import err_class
from prosemirror.model import Fragment, Mark, Node
from steps import rand_mark as S_rand_mark

ID = "C07"
CORR_MODULE = "Corr.C07"
LEVEL = "proof"
SHARD = 250


def res_bool(f):
    try:
        return f"(Ok {b(bool(f()))})", True
    except Exception as e:  # noqa: BLE001
        return f"(Err {err_class(e)})", f"{type(e).__name__}: {e}"[:100]


def all_nodes(doc: Node):
    out = [doc]
    doc.descendants(lambda n, *_a: out.append(n) if not n.is_text else None)
    return out


def raw_node(schema, j):
    """build a node bypassing every check (to feed invalid trees to check())"""
    if j["type"] == "text":
        return schema.text(j["text"], [schema.mark_from_json(m) for m in j.get("marks", [])]) \
            if not j.get("raw_marks") else _raw_text(schema, j)
    t = schema.nodes[j["type"]]
    kids = [raw_node(schema, c) for c in j.get("content", [])]
    marks = [schema.mark_from_json(m) for m in j.get("marks", [])]
    return Node(t, t.compute_attrs(j.get("attrs")), Fragment(kids), marks)


def _raw_text(schema, j):
    from prosemirror.model.node import TextNode
    t = schema.nodes["text"]
    return TextNode(t, t.default_attrs, j["text"], [schema.mark_from_json(m) for m in j.get("marks", [])])


def corrupt(rng, schema, j):
    """mutate a valid document's JSON into a (probably) invalid tree"""
    import copy
    j = copy.deepcopy(j)
    nodes = []

    def walk(x):
        nodes.append(x)
        for c in x.get("content", []) or []:
            walk(c)
    walk(j)
    x = rng.choice(nodes)
    r = rng.random()
    names = list(schema.marks)
    if r < 0.3 and x.get("content"):
        x["content"].pop(rng.randrange(len(x["content"])))
    elif r < 0.5 and x.get("content"):
        y = rng.choice(nodes)
        x["content"].insert(rng.randint(0, len(x["content"])), copy.deepcopy(y))
    elif r < 0.75 and names:
        ms = [{"type": rng.choice(names)} for _ in range(rng.randint(1, 3))]
        for m in ms:
            if m["type"] == "link":
                m["attrs"] = {"href": "h", "title": None}
            if m["type"] == "comment":
                m["attrs"] = {"id": rng.randint(0, 1)}
        x["marks"] = ms
        if x["type"] == "text":
            x["raw_marks"] = True
    elif x.get("content") and len(x["content"]) >= 2:
        rng.shuffle(x["content"])
    # adjacent equal text nodes are legal input for check(); avoid empty text
    return j


def generate(rng: random.Random, tier: str):
    quick = tier == "quick"
    ndocs = 10 if quick else 150
    for fam in gen.FAMILY:
        sc = gen.family(fam)
        info = info_for(fam)
        S = info.schema_term()
        g = gen.DocGen(sc, rng)
        docs = [g.doc(rng.randint(2, 5)) for _ in range(ndocs)]
        pool = [n for d in docs for n in all_nodes(d)]
        for d in docs:
            for n in all_nodes(d)[: (6 if quick else 30)]:
                cnt = n.child_count
                ranges = [(f, t) for f in range(cnt + 1) for t in range(f, cnt + 1)]
                if len(ranges) > (6 if quick else 28):
                    ranges = rng.sample(ranges, 6 if quick else 28)
                for f, t in ranges:
                    o = rng.choice(pool)
                    rc = o.child_count
                    st = rng.randint(0, rc)
                    en = rng.randint(st, rc)
                    term, ok = res_bool(lambda: n.can_replace(f, t, o.content, st, en))
                    yield Case(coq=f"CCanReplace @S@ {info.node(n)} {nat(f)} {nat(t)} {info.frag(o.content)} {nat(st)} {nat(en)} {term}",
                               desc={"op": "can_replace", "family": fam, "node": n.to_json(), "from": f, "to": t,
                                     "repl": [c.to_json() for c in o.content.content], "start": st, "end": en, "obs": term},
                               schema=S, kind=f"can_replace/{term[:8]}", nontrivial=cnt > 0 or rc > 0)
                    ty = sc.nodes[rng.choice(info.node_names)]
                    ms = g.marks_for(sc.nodes["paragraph"]) if rng.random() < 0.5 else Mark.none
                    term, ok = res_bool(lambda: n.can_replace_with(f, t, ty, ms))
                    yield Case(coq=f"CCanReplaceWith @S@ {info.node(n)} {nat(f)} {nat(t)} {info.ty(ty)} {info.marks(ms)} {term}",
                               desc={"op": "can_replace_with", "family": fam, "node": n.to_json(), "from": f, "to": t,
                                     "type": ty.name, "marks": [m.to_json() for m in ms], "obs": term},
                               schema=S, kind=f"can_replace_with/{term[:8]}")
                same = [x for x in pool if x.type == n.type and x.content.size]
                o = rng.choice(same) if same and rng.random() < 0.6 else rng.choice(pool)
                term, ok = res_bool(lambda: n.can_append(o))
                yield Case(coq=f"CCanAppend @S@ {info.node(n)} {info.node(o)} {term}",
                           desc={"op": "can_append", "family": fam, "node": n.to_json(), "other": o.to_json(), "obs": term},
                           schema=S, kind="can_append")
                # valid_content / create_checked of a random type on this node's children
                ty = sc.nodes[rng.choice(info.node_names)]
                if not ty.is_text:
                    vc = bool(ty.valid_content(n.content))
                    try:
                        ty.create_checked(g.attrs_for(ty) if ty.has_required_attrs() else None, n.content)
                        cc = True
                    except ValueError:
                        cc = False
                    yield Case(coq=f"CValidContent @S@ {info.ty(ty)} {info.frag(n.content)} {b(vc)} {b(cc)}",
                               desc={"op": "valid_content", "family": fam, "type": ty.name,
                                     "content": [c.to_json() for c in n.content.content], "obs": [vc, cc]},
                               schema=S, kind=f"valid_content/{vc}")
            # mark admissibility of the inserted sub-range only: parents that restrict marks, replacement
            # fragments mixing allowed and disallowed marks, sub-ranges that do not start at 0
            restricted = [n for n in all_nodes(d) if n.type.mark_set is not None and not n.is_leaf][: (3 if quick else 12)]
            for n in restricted:
                kids = []
                inline = n.inline_content
                for _ in range(rng.randint(2, 5)):
                    if inline:
                        ms = g.marks_for(sc.nodes["paragraph"]) if rng.random() < 0.6 else Mark.none
                        kids.append(sc.text(rng.choice(["u", "vw"]), ms))
                    else:
                        cands = [x for x in pool if x.is_block]
                        if not cands:
                            break
                        x = rng.choice(cands)
                        if sc.marks and rng.random() < 0.5:
                            x = x.mark(g.marks_for(sc.nodes["doc"]) or [S_rand_mark(rng, sc)])
                        kids.append(x)
                if not kids:
                    continue
                fr = Fragment(kids)      # raw: keep the pieces apart so that start/end select individual children
                cnt = n.child_count
                for _ in range(3 if quick else 8):
                    f = rng.randint(0, cnt)
                    t = rng.randint(f, cnt)
                    st = rng.randint(0, len(kids))
                    en = rng.randint(st, len(kids))
                    term, ok = res_bool(lambda: n.can_replace(f, t, fr, st, en))
                    yield Case(coq=f"CCanReplace @S@ {info.node(n)} {nat(f)} {nat(t)} {info.frag(fr)} {nat(st)} {nat(en)} {term}",
                               desc={"op": "can_replace", "family": fam, "node": n.to_json(), "from": f, "to": t,
                                     "repl": [c.to_json() for c in kids], "start": st, "end": en, "obs": term},
                               schema=S, kind=f"can_replace-marks/{term[:8]}")
            # whole-document check on valid and corrupted trees
            for k in range(3 if quick else 10):
                j = d.to_json() if k == 0 else corrupt(rng, sc, d.to_json())
                try:
                    n = raw_node(sc, j)
                except Exception:  # noqa: BLE001
                    continue
                try:
                    n.check()
                    ok = True
                except ValueError:
                    ok = False
                yield Case(coq=f"CCheck @S@ {info.node(n)} {b(ok)}",
                           desc={"op": "check", "family": fam, "doc": j, "obs": ok}, schema=S, kind=f"check/{ok}")
                # content_match_at on (possibly invalid) nodes
                for x in all_nodes(n)[:4]:
                    i = rng.randint(0, x.child_count)
                    try:
                        q = x.content_match_at(i)
                        term = f"(Ok {nat(info.sid(q))})"
                    except Exception as e:  # noqa: BLE001
                        term = f"(Err {err_class(e)})"
                    yield Case(coq=f"CMatchAt @S@ {info.node(x)} {nat(i)} {term}",
                               desc={"op": "match_at", "family": fam, "node": j, "index": i, "obs": term},
                               schema=info.schema_term(), kind="content_match_at")


    # the compiled mark sets against the node specs (appended; one case per schema family)
    for fam in gen.FAMILY:
        info = info_for(fam)
        sc = gen.family(fam)
        yield Case(coq="CSchemaMarks @S@", desc={"op": "schema-marks", "family": fam,
                                                "mark_set": {k: (None if v.mark_set is None else [m.name for m in v.mark_set])
                                                             for k, v in sc.nodes.items()}},
                   schema=info.schema_term(), kind="schema-marks")


def rebuild(desc):
    raise NotImplementedError("C07 replays are re-run through the generator with the recorded seed")


def classify(case):
    return None
