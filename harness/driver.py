"""Verdict logic shared by all properties (DESIGN.md section 4)."""
from __future__ import annotations

import glob
import importlib
import json
import os
import random
import sys
import time
from collections import Counter

import common
from common import Case


def _corpus(mod, violations=None, prop=None):
    """Minimised earlier failures run first, each under the same watchdog as generated cases."""
    import signal
    d = os.path.join(common.VERIF, "harness", "corpus", mod.ID)
    out = []
    limit = int(os.environ.get("VERIF_CASE_TIMEOUT", "30"))

    def on_alarm(_s, _f):
        raise _Hang()
    old = signal.signal(signal.SIGALRM, on_alarm)
    try:
        for p in sorted(glob.glob(os.path.join(d, "*.json"))):
            try:
                desc = json.load(open(p))
                if isinstance(desc.get("case"), dict):
                    desc = desc["case"]
                signal.alarm(limit)
                c = mod.rebuild(desc)
                signal.alarm(0)
                c.kind = "corpus:" + (c.kind or "")
                out.append(c)
            except _Hang:
                if violations is not None:
                    path = common.write_replay(prop or mod.ID, {
                        "property": prop or mod.ID,
                        "why": f"implementation did not return within {limit}s on corpus case {os.path.basename(p)} (hang)",
                        "corpus_file": p, "case": desc})
                    violations.append(("hang", path, ""))
            except Exception as e:  # noqa: BLE001
                print(f"corpus file {p} could not be rebuilt: {type(e).__name__}: {e}", file=sys.stderr)
    finally:
        signal.alarm(0)
        signal.signal(signal.SIGALRM, old)
    return out


class _Hang(BaseException):
    pass


def _generate_watched(mod, rng, tier, violations, prop, seed, cap=None):
    """Pull cases out of the generator under a watchdog: if the implementation does not come back from one
    case within VERIF_CASE_TIMEOUT seconds the run reports a hang (termination is part of every property:
    the model is total, so a hang is a model/implementation disagreement with no result to compare)."""
    import signal
    limit = int(os.environ.get("VERIF_CASE_TIMEOUT", "30"))

    def on_alarm(_s, _f):
        raise _Hang()
    old = signal.signal(signal.SIGALRM, on_alarm)
    out = []
    it = iter(mod.generate(rng, tier))
    try:
        while True:
            signal.alarm(limit)
            try:
                c = next(it)
            except StopIteration:
                break
            out.append(c)
            if cap is not None and len(out) >= cap:
                break
    except _Hang:
        import traceback
        tb = traceback.format_exc()[-1500:]
        path = common.write_replay(prop, {
            "property": prop, "why": f"implementation did not return within {limit}s while case #{len(out)} was being "
                                     "generated (hang); the model is a total function",
            "seed": seed, "tier": tier, "case_index": len(out),
            "last_completed_case": out[-1].desc if out else None, "traceback_tail": tb})
        violations.append(("hang", path, ""))
    except Exception as e:  # noqa: BLE001 - the generator drives the implementation through its public API
        import traceback
        tb = traceback.format_exc()[-2500:]
        path = common.write_replay(prop, {
            "property": prop,
            "why": f"the implementation raised {type(e).__name__}: {e} while the harness was building case #{len(out)} "
                   "(constructing documents, marks, slices or steps through the public API, which never raises on the "
                   "unchanged tree); the run stops here - re-run with the same seed and tier to reproduce",
            "seed": seed, "tier": tier, "case_index": len(out),
            "last_completed_case": out[-1].desc if out else None, "traceback_tail": tb})
        violations.append(("generator-exception", path, ""))
    finally:
        signal.alarm(0)
        signal.signal(signal.SIGALRM, old)
    return out


def run_property(modname: str, tier: str, seed: int, replay: str | None = None) -> int:
    t0 = time.time()
    mod = importlib.import_module(modname)
    prop = mod.ID
    rng = random.Random(seed * 1000003 + sum(map(ord, prop)))
    violations = []      # (what, replay path, suffix)
    known_lines = []
    notes = []

    # ---- 1. proof side: build, forbidden vernacular, theorem file, Print Assumptions
    ok, log = common.build_coq(clean=(tier == "thorough" and not replay and os.environ.get("VERIF_NOCLEAN") is None))
    forbidden = common.scan_forbidden()
    tinfo = common.theorem_info(prop) if ok else {"ok": False, "error": "development does not build", "theorems": []}
    proof_broken = None
    if not ok:
        proof_broken = "coq development does not build: " + log[-800:]
    elif forbidden:
        proof_broken = "forbidden vernacular: " + "; ".join(forbidden[:5])
    elif not tinfo["ok"]:
        proof_broken = f"Properties/{prop}.v does not check: " + str(tinfo.get("error"))[-800:]
    elif getattr(mod, "REQUIRE_CLOSED", True) and not tinfo.get("closed"):
        allowed = set(getattr(mod, "ALLOWED_AXIOMS", []))
        extra = [a for a in tinfo.get("axioms", []) if a not in allowed]
        if extra or tinfo.get("closed_count", 0) + len([1 for _ in []]) < 0:
            proof_broken = f"Properties/{prop}.v depends on undeclared axioms: {extra}"

    # ---- 2. cases: corpus first, then generated (or the replayed one)
    if not ok:
        cases = []
    elif replay:
        desc = json.load(open(replay))
        try:
            cases = [mod.rebuild(desc["case"] if isinstance(desc.get("case"), dict) else desc)]
        except NotImplementedError:
            # no direct rebuild: regenerate the recorded run and pick the recorded case out of it
            rseed, rtier = int(desc.get("seed", seed)), desc.get("tier", tier)
            rrng = random.Random(rseed * 1000003 + sum(map(ord, prop)))
            want = json.dumps(desc.get("case"), sort_keys=True, default=str)
            cases = [c for c in mod.generate(rrng, rtier)
                     if json.dumps(c.desc, sort_keys=True, default=str) == want][:1]
            if not cases:
                print(f"replay: recorded case not reproduced by seed {rseed}/{rtier}; running the whole recorded run")
                cases = list(mod.generate(random.Random(rseed * 1000003 + sum(map(ord, prop))), rtier))
    else:
        cases = _corpus(mod, violations, prop) + _generate_watched(mod, rng, tier, violations, prop, seed)
    prelude = getattr(mod, "PRELUDE", "")
    if callable(prelude):
        prelude = prelude()
    res = common.run_cases(prop, mod.CORR_MODULE, cases, prelude=prelude,
                           shard=getattr(mod, "SHARD", 300)) if cases else common.RunResult()
    for e in res.coq_errors:
        notes.append(e[:600])

    findings = common.load_findings(prop)
    seen_known = Counter()

    def handle_failure(c: Case, why: str):
        try:
            fid = mod.classify(c) if hasattr(mod, "classify") else None
        except Exception as e:  # noqa: BLE001 - a matcher that cannot judge the case excuses nothing
            fid = None
            notes.append(f"classify raised {type(e).__name__} on a failing case: reported as a violation")
        if fid and fid in findings:
            seen_known[fid] += 1
            return
        path = common.write_replay(prop, {"property": prop, "why": why, "case": c.desc, "seed": seed,
                                         "tier": tier, "kind": c.kind})
        violations.append((why, path, ""))

    pf = set(res.prop_fail)
    for i in sorted(pf):
        handle_failure(cases[i], "property predicate false on the implementation's output")
    # an exception outside the permitted classes escaped the implementation while the harness ran the case's operation, or
    # a harness-side observation of the operation's result failed (the harness marks such cases in their description; no
    # model evaluation is needed to judge them)
    for i, c in enumerate(cases):
        if i not in pf and isinstance(c.desc, dict) and c.desc.get("impl_failure"):
            pf.add(i)
            res.prop_fail.append(i)
            handle_failure(c, "the implementation failed while the harness ran the operation: " + str(c.desc["impl_failure"])[:240])
    only_dis = [i for i in res.disagree if i not in pf]

    # ---- 3. failing-input search when model and implementation disagree but the predicate still holds
    searched = 0
    if (only_dis or proof_broken or res.coq_errors) and not replay and ok:
        found = False
        if hasattr(mod, "search"):
            extra = list(mod.search([cases[i] for i in only_dis[:5]], random.Random(seed + 7919), tier))
        else:
            extra = _generate_watched(mod, random.Random(seed + 7919), "thorough" if tier == "quick" else tier,
                                      [], prop, seed, cap=getattr(mod, "SEARCH_CAP", max(2000, 4 * len(cases))))
        searched = len(extra)
        if extra:
            r2 = common.run_cases(prop, mod.CORR_MODULE, extra, prelude=prelude, tag="search",
                                  shard=getattr(mod, "SHARD", 300))
            before = len(violations)
            for i in sorted(set(r2.prop_fail)):
                handle_failure(extra[i], "property predicate false on the implementation's output (found by search)")
                if len(violations) - before >= 3:
                    break
            found = len(violations) > before
        if not found:
            if only_dis:
                c = cases[only_dis[0]]
                path = common.write_replay(prop, {
                    "property": prop,
                    "why": "model and implementation disagree; the property's theorems are about the model, so the "
                           "property is no longer shown to hold for this code",
                    "correspondence_broken": f"{mod.CORR_MODULE}.agree",
                    "theorems_no_longer_transferable": tinfo.get("theorems", []),
                    "disagreeing_cases": len(only_dis), "case": c.desc, "seed": seed, "tier": tier,
                    "searched_for_failing_input": searched})
                violations.append(("correspondence broken", path, " no-failing-input-found"))
            if proof_broken:
                path = common.write_replay(prop, {"property": prop, "why": proof_broken,
                                                 "theorem_file": f"coq/Properties/{prop}.v",
                                                 "theorems": tinfo.get("theorems", []),
                                                 "searched_for_failing_input": searched})
                violations.append(("proof obligation broken", path, " no-failing-input-found"))
            elif res.coq_errors and not only_dis:
                path = common.write_replay(prop, {"property": prop, "why": "case files did not evaluate",
                                                 "errors": res.coq_errors[:3]})
                violations.append(("correspondence could not be evaluated", path, " no-failing-input-found"))
    elif proof_broken and not violations:
        path = common.write_replay(prop, {"property": prop, "why": proof_broken,
                                         "theorem_file": f"coq/Properties/{prop}.v"})
        violations.append(("proof obligation broken", path, " no-failing-input-found"))
    elif replay and only_dis:
        path = common.write_replay(prop, {"property": prop, "why": "model and implementation disagree on the replayed case",
                                         "case": cases[only_dis[0]].desc})
        violations.append(("correspondence broken", path, " no-failing-input-found"))

    for fid, n in seen_known.items():
        known_lines.append(f"KNOWN-FINDING: property={prop} {findings[fid]['what']} [{fid}; {n} cases in this run]")

    # ---- 4. evidence
    kinds = Counter(c.kind for c in cases)
    distinct = len({c.hkey() for c in cases if c.nontrivial})
    samples = [common.small(c.desc, 1200) for c in cases[:: max(1, len(cases) // 3)][:3]]
    extra_cov = mod.coverage(cases) if hasattr(mod, "coverage") else {}
    nthm = len(tinfo.get("theorems", []))
    coverage = {
        "obligations": nthm,
        "discharged": nthm if (ok and tinfo.get("ok") and not forbidden) else 0,
        "checker_cmd": f"cd /verif/coq && coq_makefile -f _CoqProject -o Makefile && make -j16 && coqc -Q . PM Properties/{prop}.v  "
                       "(full .vo build; kernel-checked; Print Assumptions under every theorem)",
        "trusted_base": [
            "Coq 8.16.1 kernel + vm_compute (no native_compute)",
            "axioms reported by Print Assumptions: " + (", ".join(tinfo.get("axioms", [])) or
                                                        f"none ({tinfo.get('closed_count', 0)}/{nthm} theorems 'Closed under the global context')"),
            "hand-written Gallina model tied to /repo by this run's correspondence (harness/*.py: generators, "
            "implementation runner, value->Gallina printer)",
        ] + list(getattr(mod, "TRUSTED", [])),
        "theorems": tinfo.get("theorems", []),
        "evaluations": len(cases),
        "distinct_nontrivial": distinct,
        "traces_validated_against_impl": len(cases) - len(res.disagree),
        "disagreements": len(res.disagree),
        "rule": getattr(mod, "RULE", "cases generated from VERIF_SEED by " + modname + ".generate; distinct = distinct "
                        "(inputs) hashes among cases flagged non-trivial by the generator"),
        "samples": samples,
        "input_distribution": dict(kinds),
        "known_findings_seen": dict(seen_known),
        "failing_input_search_cases": searched,
        "notes": notes,
        "coq_eval_wall_s": round(res.wall, 1),
    }
    coverage.update(extra_cov)
    level = getattr(mod, "LEVEL", "proof")
    # a replay run re-examines one recorded case: it must not overwrite the record of the last full run
    common.write_evidence(prop if not replay else prop + ".replay", tier, seed, level, coverage,
                          list(getattr(mod, "ASSUMPTIONS", [])), time.time() - t0, len(violations))

    for line in known_lines:
        print(line)
    for why, path, suffix in violations[:10]:
        print(f"VIOLATION property={prop} replay={path}{suffix}")
    print(f"{prop} {tier}: {len(cases)} cases, {len(res.disagree)} model/impl disagreements, "
          f"{len(res.prop_fail)} predicate failures, {sum(seen_known.values())} known, "
          f"{len(violations)} violations, {time.time() - t0:.1f}s")
    return 1 if violations else 0
