"""Generators shared by the tree-level properties: the schema family named in the
property quantifiers and valid documents grown through the compiled automata."""
from __future__ import annotations

import copy
import random
from functools import lru_cache

from prosemirror.model import Fragment, Mark, Node, Schema, Slice
from prosemirror.schema.basic import schema as basic_schema
from prosemirror.schema.list import add_list_nodes
from prosemirror.test_builder import test_schema


def _strip(spec):
    """drop callables (toDOM/parseDOM getAttrs) so specs are plain data"""
    out = {}
    for k, v in spec.items():
        if k in ("toDOM", "parseDOM", "toDebugString", "leafText"):
            continue
        out[k] = v
    return out


def _nodes(base):
    return {k: _strip(v) for k, v in base.items()}


_BASIC_NODES = _nodes(basic_schema.spec["nodes"])
_LIST_NODES = _nodes(test_schema.spec["nodes"])
_MARKS = {k: _strip(v) for k, v in basic_schema.spec["marks"].items()}


def _family_specs():
    fam = {}
    fam["basic"] = {"nodes": copy.deepcopy(_BASIC_NODES), "marks": copy.deepcopy(_MARKS)}
    fam["list"] = {"nodes": copy.deepcopy(_LIST_NODES), "marks": copy.deepcopy(_MARKS)}
    # strict: required first child, fixed positions, code without marks
    n = copy.deepcopy(_LIST_NODES)
    n["doc"] = {"content": "heading block+"}
    n["heading"] = {"attrs": {"level": {"default": 1}}, "content": "text*", "defining": True}
    n["figure"] = {"content": "caption figureimage", "group": "block"}
    n["caption"] = {"content": "text*", "marks": ""}
    n["figureimage"] = {}
    fam["strict"] = {"nodes": n, "marks": copy.deepcopy(_MARKS)}
    # isolating containers
    n = copy.deepcopy(_LIST_NODES)
    n["box"] = {"content": "block+", "group": "block", "isolating": True}
    n["tightbox"] = {"content": "paragraph+", "group": "block", "isolating": True, "defining": True}
    fam["iso"] = {"nodes": n, "marks": copy.deepcopy(_MARKS)}
    # table-like
    n = copy.deepcopy(_LIST_NODES)
    n["table"] = {"content": "row+", "group": "block", "isolating": True}
    n["row"] = {"content": "cell+"}
    n["cell"] = {"content": "block+", "isolating": True}
    fam["table"] = {"nodes": n, "marks": copy.deepcopy(_MARKS)}
    # marks on block nodes + a doc attribute + a self-non-excluding mark with attrs
    n = copy.deepcopy(_LIST_NODES)
    n["doc"] = {"content": "block+", "marks": "_", "attrs": {"meta": {"default": None}}}
    n["blockquote"] = dict(n["blockquote"], marks="_")
    m = copy.deepcopy(_MARKS)
    m["comment"] = {"attrs": {"id": {"default": 0}}, "excludes": "", "inclusive": False}
    m["hilite"] = {"excludes": "em strong"}
    m["x1"] = {"excludes": "x2"}
    m["x2"] = {"excludes": "x1 code"}
    n["notepara"] = {"content": "inline*", "group": "block", "marks": "em strong link x1"}
    fam["blockmarks"] = {"nodes": n, "marks": m}
    return fam


FAMILY_SPECS = _family_specs()
FAMILY = list(FAMILY_SPECS)
# further hand-written variants used by the fitting / structure properties only (C11, C12, C18)
_n = copy.deepcopy(_LIST_NODES)
_n["list_item"] = dict(_n["list_item"], isolating=True)
FAMILY_SPECS["isoli"] = {"nodes": _n, "marks": copy.deepcopy(_MARKS)}
EXTRA_FAMILY = ["isoli"]
# a textblock whose content expression COUNTS inline children: adjacent text nodes that a mark step makes
# equally marked are merged by Fragment.from_array, which changes the count (C01 known finding)
_n = copy.deepcopy(_LIST_NODES)
_n["pair"] = {"content": "(text | hard_break){2}", "group": "block"}
FAMILY_SPECS["counted"] = {"nodes": _n, "marks": copy.deepcopy(_MARKS)}
COUNTED_FAMILY = ["counted"]
# a block container with a bounded number of children: whether two of them may be joined depends on how many remain
# (Node.can_replace(index, index + 1) in can_join / join_point), which `block+` parents never decide
_n = copy.deepcopy(_LIST_NODES)
_n["trio"] = {"content": "block{2,3}", "group": "block"}
FAMILY_SPECS["trio"] = {"nodes": _n, "marks": copy.deepcopy(_MARKS)}
TRIO_FAMILY = ["trio"]
# an inline ATOM that nevertheless has content (a footnote): it counts as open + content + close like every non-leaf
# node - `atom` only tells the editor not to put the cursor inside (C02 / C09; seeded change C02-8 sized nodes by is_atom)
_n = copy.deepcopy(_LIST_NODES)
_n["footnote"] = {"content": "text*", "group": "inline", "inline": True, "atom": True}
FAMILY_SPECS["atomic"] = {"nodes": _n, "marks": copy.deepcopy(_MARKS)}
ATOMIC_FAMILY = ["atomic"]
_SCHEMAS: dict[str, Schema] = {}


def family(name: str) -> Schema:
    if name not in _SCHEMAS:
        _SCHEMAS[name] = Schema(copy.deepcopy(FAMILY_SPECS[name]))
    return _SCHEMAS[name]


TEXT_ALPHABET = ["a", "b", "c", " ", "x", "\U0001F600", "é", "\n", "<", "&", "\U00010348"]


class DocGen:
    def __init__(self, schema: Schema, rng: random.Random):
        self.schema = schema
        self.rng = rng
        self._mind: dict[str, int] = {}
        self._compute_min_depth()

    # minimal nesting depth needed to build a valid node of each type
    def _compute_min_depth(self):
        INF = 10 ** 6
        md = {n: (0 if t.is_leaf or t.is_text else INF) for n, t in self.schema.nodes.items()}
        changed = True
        while changed:
            changed = False
            for n, t in self.schema.nodes.items():
                if t.is_leaf or t.is_text:
                    continue
                d = self._min_fill(t.content_match, md)
                if d is not None and d + 1 < md[n]:
                    md[n] = d + 1
                    changed = True
        self._mind = md

    def _min_fill(self, start, md):
        """min over paths to a valid end of the max min-depth of the types used"""
        best = {id(start): 0}
        work = [(start, 0)]
        res = None
        while work:
            st, cost = work.pop(0)
            if st.valid_end and (res is None or cost < res):
                res = cost
            for e in st.next:
                c = max(cost, md[e.type.name])
                if c >= 10 ** 6:
                    continue
                if id(e.next) not in best or c < best[id(e.next)]:
                    best[id(e.next)] = c
                    work.append((e.next, c))
        return res

    def attrs_for(self, t):
        rng = self.rng
        out = {}
        for name, a in t.attrs.items():
            if a.has_default and rng.random() < 0.6:
                continue
            if name in ("level", "order"):
                out[name] = rng.randint(1, 3)
            elif name == "id":
                out[name] = rng.choice([None, 1, 2])
            elif name == "meta":
                out[name] = rng.choice([None, 1, 2, "m", [1, "a", None], {"k": [1, 2], "z": {"y": False}}, True])
            else:
                out[name] = rng.choice(["a.png", "b", "x y"])
        return out or None

    def marks_for(self, parent_type):
        rng = self.rng
        if rng.random() < 0.55:
            return Mark.none
        ms = Mark.none
        names = list(self.schema.marks)
        if rng.random() < 0.12:
            # every non-inclusive mark the parent allows, together (marks-at-position strips them one after
            # the other at the end of the marked text)
            for nm in names:
                mt = self.schema.marks[nm]
                if mt.spec.get("inclusive") is False and parent_type.allows_mark_type(mt):
                    at = {an: ("foo" if an != "id" else 1) for an, a in mt.attrs.items() if not a.has_default}
                    ms = mt.create(at or None).add_to_set(ms)
            if ms:
                return ms
        for _ in range(rng.randint(1, 3)):
            mt = self.schema.marks[rng.choice(names)]
            if not parent_type.allows_mark_type(mt):
                continue
            at = {}
            for an, a in mt.attrs.items():
                if a.has_default and rng.random() < 0.5:
                    continue
                at[an] = rng.choice(["foo", "bar", 1]) if an != "id" else rng.randint(0, 2)
            ms = mt.create(at or None).add_to_set(ms)
        return ms

    def text(self, parent_type):
        rng = self.rng
        s = "".join(rng.choice(TEXT_ALPHABET) for _ in range(rng.randint(1, 4)))
        return self.schema.text(s, self.marks_for(parent_type))

    def node(self, t, depth: int, block_marks: bool = True) -> Node:
        rng = self.rng
        children: list[Node] = []
        st = t.content_match
        maxc = rng.choice([0, 1, 1, 2, 2, 3, 4])
        steps = 0
        while True:
            steps += 1
            can_stop = st.valid_end
            edges = [e for e in st.next if self._mind[e.type.name] <= depth - 1 or e.type.is_text or e.type.is_leaf]
            if can_stop and (len(children) >= maxc or not edges or steps > 12):
                break
            if not edges:
                edges = list(st.next)
            if not can_stop and (len(children) >= maxc or steps > 12):
                # head for a valid end by the cheapest route
                e = self._toward_end(st, depth)
            else:
                e = rng.choice(edges)
            if e is None:
                break
            if e.type.is_text:
                children.append(self.text(t))
            else:
                ch = self.node(e.type, depth - 1)
                if e.type.is_inline or (t.mark_set is None and self.schema.marks and rng.random() < 0.5) or \
                        (t.mark_set and rng.random() < 0.4):
                    ms = self.marks_for(t)
                    if ms:
                        ch = ch.mark(ms)
                children.append(ch)
            st = e.next
        return t.create(self.attrs_for(t), Fragment.from_(children))

    def _toward_end(self, st, depth):
        # BFS for the nearest valid end, restricted to types that fit the depth budget if possible
        for restrict in (True, False):
            seen = {id(st)}
            work = [(st, None)]
            while work:
                cur, first = work.pop(0)
                if cur.valid_end and first is not None:
                    return first
                for e in cur.next:
                    if restrict and self._mind[e.type.name] > depth - 1 and not (e.type.is_text or e.type.is_leaf):
                        continue
                    if id(e.next) not in seen:
                        seen.add(id(e.next))
                        work.append((e.next, first or e))
        return None

    def doc(self, depth: int = 4) -> Node:
        for _ in range(20):
            d = self.node(self.schema.top_node_type, max(depth, self._mind[self.schema.top_node_type.name]))
            try:
                d.check()
                return d
            except ValueError:
                continue
        raise RuntimeError("could not generate a valid document")

    # ---- slices
    def slice_from(self, other: Node) -> Slice:
        rng = self.rng
        n = other.content.size
        a = rng.randint(0, n)
        b_ = rng.randint(a, n)
        if rng.random() < 0.3:
            # ends on the edges of nodes: right before a closing token / right after an opening token,
            # several levels deep, kept with their parents
            edges = []
            other.descendants(lambda nd, pos, *_: edges.extend([pos + 1, pos + 1 + nd.content.size]) if not nd.is_leaf and not nd.is_text else None)
            if edges:
                a = rng.choice(edges)
                later = [e for e in edges if e >= a]
                b_ = rng.choice(later) if rng.random() < 0.5 else rng.randint(a, n)
                try:
                    return other.slice(a, b_, rng.random() < 0.6)
                except ValueError:
                    return Slice.empty
        r = rng.random()
        try:
            if r < 0.75:
                return other.slice(a, b_)
            if r < 0.85:
                return other.slice(a, b_, True)
            sl = other.slice(a, b_)
            # re-opened as far as possible (open nodes may be partial); closed only when the cut was already closed,
            # so that the payload stays schema-valid
            if sl.open_start == 0 and sl.open_end == 0 and rng.random() < 0.5:
                return sl
            return Slice.max_open(sl.content)
        except ValueError:
            return Slice.empty

    def positions(self, doc: Node, k: int):
        n = doc.content.size
        if n + 1 <= k:
            return list(range(n + 1))
        return sorted(self.rng.sample(range(n + 1), k))


def doc_to_json(d: Node):
    return d.to_json()


def slice_to_json(s: Slice):
    return {"content": [c.to_json() for c in s.content.content], "openStart": s.open_start, "openEnd": s.open_end}


def slice_from_json(schema, j) -> Slice:
    return Slice(Fragment.from_json(schema, j["content"]), j["openStart"], j["openEnd"])
