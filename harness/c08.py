"""C08 — position maps and mappings obey the mapping algebra (prosemirror/transform/map.py)."""
from __future__ import annotations

import itertools
import random

from common import Case, b, lst, nat, opt, z

ID = "C08"
CORR_MODULE = "Corr.C08"
LEVEL = "proof"

from prosemirror.transform.map import Mapping, StepMap, make_recover  # noqa: E402


# ------------------------------------------------------------------ implementation side
def _mr(r):
    return (r.pos, r.del_info, r.recover)


def impl_sweep(flat, inverted, lo, n):
    m = StepMap(list(flat), inverted)
    inv = m.invert()
    obs = {"neg": [], "pos": [], "sneg": [], "spos": [], "rneg": [], "rpos": [], "touch": [], "fe": [], "fei": [],
           "exc": []}
    nr = len(flat) // 3
    for p in range(lo, lo + n):
        for assoc, k, ks, kr in ((-1, "neg", "sneg", "rneg"), (1, "pos", "spos", "rpos")):
            r = m.map_result(p, assoc)
            obs[k].append(_mr(r))
            obs[ks].append(m.map(p, assoc))
            try:
                obs[kr].append(None if r.recover is None else inv.recover(r.recover))
            except Exception as e:  # noqa: BLE001
                obs[kr].append(None)
                obs["exc"].append(f"recover: {type(e).__name__}")
        row = []
        for k in range(nr):
            try:
                row.append(bool(m.touches(p, make_recover(k, 0))))
            except Exception as e:  # noqa: BLE001
                obs["exc"].append(f"touches: {type(e).__name__}")
        obs["touch"].append(row)
    try:
        m.for_each(lambda a, b_, c, d: obs["fe"].append((a, b_, c, d)))
        inv.for_each(lambda a, b_, c, d: obs["fei"].append((a, b_, c, d)))
    except Exception as e:  # noqa: BLE001
        obs["exc"].append(f"for_each: {type(e).__name__}")
    return obs


def coq_ranges(flat):
    return lst(f"({z(flat[i])}, {z(flat[i+1])}, {z(flat[i+2])})" for i in range(0, len(flat), 3))


def coq_sm(flat, inverted):
    return f"(SM {coq_ranges(flat)} {b(inverted)})"


def coq_mr(t):
    return f"(MR {z(t[0])} {z(t[1])} {opt(t[2], z)})"


def coq_quad(q):
    return "(" + ", ".join(z(x) for x in q) + ")"


def sweep_case(flat, inverted, lo, n, kind):
    obs = impl_sweep(flat, inverted, lo, n)
    term = (
        "CSweep {| sw_map := %s; sw_lo := %s; sw_n := %s; sw_neg := %s; sw_pos := %s; "
        "sw_simple_neg := %s; sw_simple_pos := %s; sw_rec_neg := %s; sw_rec_pos := %s; "
        "sw_touch := %s; sw_foreach := %s; sw_foreach_inv := %s |}"
        % (coq_sm(flat, inverted), z(lo), nat(n), lst(map(coq_mr, obs["neg"])), lst(map(coq_mr, obs["pos"])),
           lst(map(z, obs["sneg"])), lst(map(z, obs["spos"])),
           lst(opt(x, z) for x in obs["rneg"]), lst(opt(x, z) for x in obs["rpos"]),
           lst(lst(map(b, row)) for row in obs["touch"]),
           lst(map(coq_quad, obs["fe"])), lst(map(coq_quad, obs["fei"])))
    )
    desc = {"kind": kind, "ranges": list(flat), "inverted": inverted, "lo": lo, "n": n, "obs": obs}
    nontrivial = len(flat) > 0 and any(flat[i + 1] != flat[i + 2] or flat[i + 1] for i in range(0, len(flat), 3))
    return Case(coq=term, desc=desc, key=("sweep", tuple(flat), inverted, lo, n), nontrivial=nontrivial, kind=kind)


# mapping operations -------------------------------------------------
def build_impl(ops):
    mp = Mapping()
    for op in ops:
        t = op[0]
        if t == "map":
            mp.append_map(StepMap(list(op[1]), op[2]), op[3])
        elif t == "mapping":
            mp.append_mapping(build_impl(op[1]))
        elif t == "mapping_inv":
            mp.append_mapping_inverted(build_impl(op[1]))
        elif t == "mirror":
            mp.set_mirror(op[1], op[2])
        elif t == "slice":
            mp = mp.slice(op[1], op[2])
        elif t == "invert":
            mp = mp.invert()
    return mp


def coq_ops(ops):
    out = []
    for op in ops:
        t = op[0]
        if t == "map":
            out.append(f"OAppendMap {coq_sm(op[1], op[2])} {opt(op[3], z)}")
        elif t == "mapping":
            out.append(f"OAppendMapping {coq_ops(op[1])}")
        elif t == "mapping_inv":
            out.append(f"OAppendMappingInverted {coq_ops(op[1])}")
        elif t == "mirror":
            out.append(f"OSetMirror {z(op[1])} {z(op[2])}")
        elif t == "slice":
            out.append(f"OSlice {z(op[1])} {z(op[2])}")
        elif t == "invert":
            out.append("OInvert")
    return lst(out)


def mapping_case(ops, lo, n, roundtrip, kind):
    exc = []
    try:
        mp = build_impl(ops)
    except Exception as e:  # noqa: BLE001
        # construction itself failed: report as a case whose observations are empty
        exc.append(f"build: {type(e).__name__}: {e}")
        mp = None
    neg, pos, sneg, spos = [], [], [], []
    maps, mirror, frm, to = [], [], 0, 0
    if mp is not None:
        maps = [(list(m.ranges), m.inverted) for m in mp.maps]
        mirror = list(mp.mirror or [])
        frm, to = mp.from_, mp.to
        for p in range(lo, lo + n):
            for assoc, full, simple in ((-1, neg, sneg), (1, pos, spos)):
                try:
                    r = mp.map_result(p, assoc)
                    full.append((r.pos, r.del_info))
                except Exception as e:  # noqa: BLE001
                    full.append(None)
                    exc.append(f"map_result: {type(e).__name__}")
                try:
                    simple.append(mp.map(p, assoc))
                except Exception as e:  # noqa: BLE001
                    simple.append(None)
                    exc.append(f"map: {type(e).__name__}")
    pr = lambda t: f"({z(t[0])}, {z(t[1])})"
    term = (
        "CMapping {| mc_ops := %s; mc_lo := %s; mc_n := %s; mc_maps := %s; mc_mirror := %s; mc_from := %s; "
        "mc_to := %s; mc_neg := %s; mc_pos := %s; mc_simple_neg := %s; mc_simple_pos := %s; mc_roundtrip := %s |}"
        % (coq_ops(ops), z(lo), nat(n), lst(coq_sm(r, i) for r, i in maps),
           lst(pr((mirror[i], mirror[i + 1])) for i in range(0, len(mirror) - 1, 2)), z(frm), z(to),
           lst(opt(x, pr) for x in neg), lst(opt(x, pr) for x in pos),
           lst(opt(x, z) for x in sneg), lst(opt(x, z) for x in spos), b(roundtrip))
    )
    desc = {"kind": kind, "ops": ops, "lo": lo, "n": n, "roundtrip": roundtrip,
            "obs": {"maps": maps, "mirror": mirror, "from": frm, "to": to, "neg": neg, "pos": pos,
                    "sneg": sneg, "spos": spos, "exc": exc}}
    return Case(coq=term, desc=desc, key=("mapping", repr(ops), lo, n), nontrivial=len(ops) > 1, kind=kind)


# ------------------------------------------------------------------ generators
def flat_from_triples(triples):
    """triples of (gap, old, new) -> flat range list with starts in old coordinates"""
    out, pos = [], 0
    for gap, old, new in triples:
        s = pos + gap
        out += [s, old, new]
        pos = s + old
    return out, pos


def inverted_flat(triples):
    """the same change seen from the other side: an inverted map stores the starts of the original"""
    return flat_from_triples(triples)


def random_triples(rng, k, maxgap, maxsize, sep=False):
    return [(rng.randint(1 if sep else 0, maxgap), rng.randint(0, maxsize), rng.randint(0, maxsize)) for _ in range(k)]


def exhaustive_maps(maxr=3, g=2, s=2):
    vals = list(itertools.product(range(g + 1), range(s + 1), range(s + 1)))
    for k in range(maxr + 1):
        for triples in itertools.product(vals, repeat=k):
            yield list(triples)


def gen_ops(rng, depth=0):
    ops = []
    nmaps = 0
    for _ in range(rng.randint(1, 5)):
        c = rng.random()
        if c < 0.5 or nmaps == 0:
            tr = random_triples(rng, rng.randint(0, 3), 3, 3)
            flat, _ = flat_from_triples(tr)
            mir = rng.randrange(nmaps) if nmaps and rng.random() < 0.35 else None
            ops.append(("map", flat, rng.random() < 0.3, mir))
            nmaps += 1
        elif c < 0.62 and depth < 2:
            sub, k = gen_ops(rng, depth + 1)
            ops.append(("mapping", sub))
            nmaps += k
        elif c < 0.74 and depth < 2:
            sub, k = gen_ops(rng, depth + 1)
            ops.append(("mapping_inv", sub))
            nmaps += k
        elif c < 0.84 and nmaps >= 2:
            i, j = rng.sample(range(nmaps), 2)
            ops.append(("mirror", i, j))
        elif c < 0.92 and depth == 0 and nmaps >= 1:
            f = rng.randint(0, nmaps)
            t = rng.randint(f, nmaps)
            ops.append(("slice", f, t))
        elif depth == 0:
            ops.append(("invert",))
    return ops, nmaps


def roundtrip_ops(rng, k, sep=True):
    ms = []
    for _ in range(k):
        tr = random_triples(rng, rng.randint(0, 3), 3, 3, sep=sep)
        flat, _ = flat_from_triples(tr)
        ms.append((flat, rng.random() < 0.3))
    ops = [("map", f, i, None) for f, i in ms]
    for j in range(k - 1, -1, -1):
        f, i = ms[j]
        ops.append(("map", f, not i, j))
    return ops


def generate(rng: random.Random, tier: str):
    quick = tier == "quick"
    # 1. exhaustive small maps (complete in thorough; a random slice of the same space in quick)
    space = list(exhaustive_maps(3, 2, 2))
    if quick:
        small = [t for t in space if len(t) <= 1]
        pick = small + rng.sample([t for t in space if len(t) > 1], 900)
    else:
        pick = space
    for tr in pick:
        flat, end = flat_from_triples(tr)
        for inverted in (False, True):
            # positions in the map's own old coordinates; inverted maps read the new side
            hi = end + sum(t[2] for t in tr) + 2
            yield sweep_case(flat, inverted, 0, hi + 1, "exhaustive<=3ranges,gap<=2,size<=2")
    # 2. random larger maps
    for _ in range(150 if quick else 3000):
        tr = random_triples(rng, rng.randint(1, 6), 4, 5)
        flat, end = flat_from_triples(tr)
        yield sweep_case(flat, rng.random() < 0.5, 0, end + sum(t[2] for t in tr) + 3, "random<=6ranges")
    # 3. mappings built by operation sequences
    for _ in range(400 if quick else 6000):
        ops, _ = gen_ops(rng)
        yield mapping_case(ops, 0, 14, False, "mapping-ops")
    # 4. rebasing-style mirror round trips over strictly separated maps
    for _ in range(200 if quick else 3000):
        ops = roundtrip_ops(rng, rng.randint(1, 4), sep=True)
        yield mapping_case(ops, 0, 16, True, "mirror-roundtrip-separated")
    # 5. the same with adjacent ranges allowed (known upstream limitation is reported separately)
    for _ in range(100 if quick else 1500):
        ops = roundtrip_ops(rng, rng.randint(1, 3), sep=False)
        c = mapping_case(ops, 0, 16, True, "mirror-roundtrip-adjacent")
        yield c
    # 6. every slice of a mapping, explicit bounds included (slice(k, 0) is the empty composition; seeded change C08-7:
    #    `to or len(maps)` turned an explicit upper bound 0 into "all maps")
    for _ in range(25 if quick else 400):
        k = rng.randint(1, 3)
        base = []
        for i in range(k):
            tr = random_triples(rng, rng.randint(1, 3), 3, 3)
            flat, _ = flat_from_triples(tr)
            base.append(("map", flat, rng.random() < 0.3, rng.randrange(i) if i and rng.random() < 0.3 else None))
        for f in range(k + 1):
            for t in range(f, k + 1):
                yield mapping_case(base + [("slice", f, t)], 0, 14, False, "slice-sweep")


def rebuild(desc):
    """re-run the implementation on the inputs of a stored case (replay / corpus)"""
    if "ranges" in desc:
        return sweep_case(desc["ranges"], desc["inverted"], desc["lo"], desc["n"], desc["kind"])
    ops = _tuplify(desc["ops"])
    return mapping_case(ops, desc["lo"], desc["n"], desc["roundtrip"], desc["kind"])


def _tuplify(ops):
    out = []
    for op in ops:
        op = list(op)
        if op[0] in ("mapping", "mapping_inv"):
            out.append((op[0], _tuplify(op[1])))
        else:
            out.append(tuple(op))
    return out


def _has_adjacent(flat):
    return any(flat[i + 3] == flat[i] + flat[i + 1] for i in range(0, len(flat) - 3, 3)) or \
        any(flat[i + 3] - flat[i] - flat[i + 1] == 0 for i in range(0, len(flat) - 3, 3))


def classify(case: Case):
    """A failing case is the known upstream limitation only if it is a mirror round trip whose maps
    contain touching ranges AND every other clause of the predicate holds on it."""
    d = case.desc
    if d.get("kind") != "mirror-roundtrip-adjacent" or not d.get("roundtrip"):
        return None
    o = d["obs"]
    if o["exc"]:
        return None
    if not any(op[0] == "map" and _has_adjacent(op[1]) for op in d["ops"]):
        return None
    for full, simple in ((o["neg"], o["sneg"]), (o["pos"], o["spos"])):
        for r, s_ in zip(full, simple):
            if r is None or s_ is None or r[0] != s_:
                return None
    return "C08-mirror-adjacent-ranges"
