#!/usr/bin/env python3
"""Regenerates /verif/MANIFEST.json from the table below (keeps it schema-valid)."""
import json
import os

VERIF = os.path.dirname(os.path.dirname(os.path.abspath(__file__)))
ALL = [f"C{i:02d}" for i in range(1, 21)]

TB = ("Trusted: Coq 8.16.1 kernel + vm_compute (no native_compute); the hand-written Gallina model; the Python "
      "harness (generators, implementation runner, value->Gallina printer). Print Assumptions output is recorded "
      "in the evidence file on every run. ")

CHECKS = {
    "C08": dict(
        category="proof",
        technique="machine-checked proof in Coq (model of transform/map.py) + model/implementation correspondence evaluated by vm_compute",
        text="Theorems in coq/Properties/C08.v hold for every well-formed step map, position and side: monotonicity, "
             "the documented rule (outside / inside / at the edges / insertions) in split-list form, deletion flags, "
             "the recover round trip, inverted maps by normalisation. The model is function-for-function map.py and "
             "is compared with the implementation on every observable (map, map_result, recover, touches, for_each, "
             "Mapping construction/slice/append/invert/map) over exhaustive small maps (<=3 ranges, gaps and sizes "
             "<=2, both orientations, all positions, both sides), random larger maps and operation-built mappings. "
             "Mapping-level composition and the mirror round trip over strictly separated ranges are evaluated as "
             "predicates on the implementation's output (exploration strength for those clauses). The mirror round "
             "trip is refuted for maps with touching ranges (upstream semantics) and recorded as a known finding.",
        note=TB + "Closed under the global context for every theorem."),
    "C14": dict(
        category="proof",
        technique="machine-checked proof in Coq (model of model/mark.py + mark part of schema.py) + correspondence by vm_compute",
        text="Theorems in coq/Properties/C14.v for every schema (arbitrary exclusion relation, ranks, attributes): "
             "exact characterisation of add_to_set (blocked -> unchanged, else excluded marks removed, others kept in "
             "order, new mark inserted at rank), preservation of rank order and duplicate-freeness, canonicity of "
             "every set reachable by additions/removals, removal/membership as set operations, allowed_marks = "
             "order-preserving filter. Correspondence: all 512 exclusion matrices over three mark types x add "
             "sequences, random configurations with groups, '_', '' and attributes, compiled exclusion lists and "
             "mark sets recomputed by the model from the spec.",
        note=TB + "Closed under the global context for every theorem."),
}

NOT_YET = "check under construction in this round (model/correspondence not registered yet)"


def main():
    checks = []
    for pid, c in CHECKS.items():
        checks.append({
            "property_id": pid,
            "quick_cmd": f"./check {pid} --tier quick",
            "thorough_cmd": f"./check {pid} --tier thorough",
            "evidence_file": f"/verif/evidence/{pid}.json",
            "replay_cmd_template": f"./check {pid} --replay {{path}}",
            "engine": "coq-model+correspondence",
            "technique": c["technique"],
            "level_claimed": {"category": c["category"], "text": c["text"], "design_ref": f"DESIGN.md section 5, {pid}"},
            "level_note": c["note"],
        })
    man = {
        "version": 1,
        "setup_cmd": "cd /verif && ./check --setup",
        "hooks": {
            "guard": "PROSEMIRROR_PY_VERIF",
            "enable": "no source hooks: checks import /repo in place (PYTHONPATH=/repo) and observe public attributes only",
            "baseline_off_cmd": "cd /repo && /venv/bin/python -m pytest -ra -q -p no:cacheprovider --timeout=900 --continue-on-collection-errors",
            "source_commits": [],
            "add_only": True,
        },
        "engines": [{
            "name": "coq-model+correspondence", "path": "/verif/check", "serves_properties": sorted(CHECKS),
            "kind_free_text": "Coq 8.16.1 theorems about a hand-written executable Gallina model (coq/Model, coq/Proofs, "
                              "coq/Properties); the model is tied to /repo's working tree on every run by differential "
                              "execution (implementation vs vm_compute of the model; the comparison and the property "
                              "predicates are evaluated inside Coq)"}],
        "checks": checks,
        "not_applicable": [{"property_id": p, "reason": NOT_YET} for p in ALL if p not in CHECKS],
        "notes": "See DESIGN.md. known_findings.json lists recorded findings and fixed defects.",
    }
    with open(os.path.join(VERIF, "MANIFEST.json"), "w") as f:
        json.dump(man, f, indent=1)


if __name__ == "__main__":
    main()
