#!/usr/bin/env python3
"""Regenerates /verif/MANIFEST.json from the table below (keeps it schema-valid)."""
import json
import os

VERIF = os.path.dirname(os.path.dirname(os.path.abspath(__file__)))
ALL = [f"C{i:02d}" for i in range(1, 21)]

TB = ("Trusted: Coq 8.16.1 kernel + vm_compute (no native_compute); the hand-written Gallina model; the Python "
      "harness (generators, implementation runner, value->Gallina printer). Print Assumptions output is recorded "
      "in the evidence file on every run. ")

PARTIAL = ("Claimed level: model/implementation correspondence with property predicates evaluated inside Coq on the "
           "implementation's observations (exploration strength for the universally quantified statement); the named "
           "theorems are machine-checked. ")

def C(category, technique, text, note=TB):
    return dict(category=category, technique=technique, text=text, note=note)

COQ = "machine-checked proof in Coq + model/implementation correspondence evaluated by vm_compute"
CORR = "Coq model of the code + correspondence and property predicates evaluated by vm_compute (theorems pending for the full statement)"

CHECKS = {
    "C01": C("proof", COQ, "Theorems (coq/Properties/C01.v) for every schema, document, range and slice: Node.replace and ReplaceStep.apply return a VALID document whenever they return one, given a valid document and a slice whose open sides are non-leaf nodes with canonical marks and whose other nodes are valid (OpenOK; closed slice = valid nodes; the empty slice needs nothing) - proved through the whole rebuild (replace_outer, two/three-way, add_range, close, prepare_slice, resolve). The other clauses (refusal instead of exception; the slices that replace-around, mark and node steps build before calling Node.replace) are evaluated per case: Step model (all eight step types: apply/get_map/invert/map/merge) compared with the implementation on adversarial primitive steps (wrap-like and lift-like replace-around steps with wrappers that cannot hold the gap, JSON round-tripped steps) and on every step the transform API emits; the predicate is the Coq validity checker `check` (= C07's `valid`, theorem check_iff) on the implementation's result, plus 'no internal error class'. Silent invalid results of replace-around steps with a closed wrapper are a recorded upstream finding (the wrapper is an invalid closed node, outside the theorem's hypothesis)."),
    "C02": C("proof", COQ, "Theorems (coq/Properties/C02.v) for every schema, valid document, range and slice whose open sides have the claimed depth (Shape - true of every slice cut from a document): Node.replace returns a document whose token sequence is EXACTLY old[:from] ++ inner tokens of the slice ++ old[to:] (tokens compared up to Python's True==1 on attribute values), with the root's markup unchanged; the size changes by slice size minus range size; with valid off-spine slice nodes the result is valid (C01). Proved through resolve (a position is a token index), add_range, two/three-way rebuild, close, prepare_slice and replace_outer, with text merging and UTF-16 cuts. Cutting a slice (tokens in the range, open depths), re-inserting a cut slice and the error class of refused replaces (ReplaceError / split surrogate pair) are evaluated in Coq per case; the function-for-function model of cut/resolve/slice/replace agrees with the implementation on every observable."),
    "C03": C("proof", COQ, "Theorem (coq/Properties/C03.v) for replace steps - the step every deletion, insertion and paste compiles to - for every schema, valid document, range and depth-consistent slice: the size changes by (new - old) of the map's range and every old token before / after the range is found, unchanged, at the position StepMap.map sends it to (tokens compared up to True==1; the meaning of map is C08's theorems). For replace-around, mark, attribute, node-mark steps and for the steps emitted by every high-level operation the same statement is evaluated in Coq over all positions of every case (mark/attr steps: same token shape). Replace-around steps with an empty gap are a recorded upstream finding."),
    "C04": C("proof", COQ, "Theorems (coq/Properties/C04.v): the recorded steps/docs/maps of a transform stay aligned and replay exactly over ANY sequence of attempted steps, including refused ones (history_Inv, history_replay). Exact single-step undo, inverse maps and whole-history undo are evaluated in Coq on random histories of up to 12 transform operations and on primitive steps (exploration strength for those clauses)."),
    "C05": C("proof", COQ, "Theorems (coq/Properties/C05.v) over the value-level codec, for every schema with distinct type names: decoding the encoding of a mark, node, fragment, slice or any of the eight step types gives back the very same value (so: equal object, identical JSON again, identical effect and map of a decoded step on every document; every step type is dispatched by its published stepType name). Hypotheses are the shapes the library builds (declared attributes in declaration order, rank-sorted marks, non-empty text, empty-content slice = Slice.empty). The model is compared with the implementation after a real json.dumps/json.loads on every case; aliasing of live attribute objects is monitored on the implementation (outside a value model)."),
    "C06": C("proof", COQ, "Brzozowski-derivative semantics of content expressions and a bisimulation certificate checker proved sound for all expressions and automata (check_bisim_sound, check_bisim_prefix, deriv_ok). Every quick run evaluates the checker in Coq against the automaton the implementation compiled for every expression of syntax-tree size <= 3 over {a, b, group}, smaller sweeps over non-generatable and inline alphabets, and random nested expressions: for each of them the statement holds for ALL child sequences. Malformed expressions and the dead-end rule are compared with an oracle computed in Coq."),
    "C07": C("proof", COQ, "Theorems (coq/Properties/C07.v) for all schemas and nodes: valid_content, check, can_replace, can_replace_with, can_append and content_match_at answer exactly the schema's definition of validity (accepted child-type sequence + allowed marks). Correspondence on all index ranges of generated nodes, replacement sub-ranges, corrupted trees."),
    "C08": C("proof", COQ, "Theorems (coq/Properties/C08.v) for every well-formed step map, position and side: monotonicity, the documented rule (outside / inside / edges / insertions), deletion flags, recover round trip; inverted maps by normalisation. Correspondence: exhaustive maps (<=3 ranges, gaps and sizes <=2, both orientations, all positions, both sides), random larger maps, operation-built mappings; mapping composition and mirror round trips evaluated as predicates. Mirror round trip over touching ranges is a recorded upstream finding."),
    "C09": C("proof", COQ, "Theorems (coq/Properties/C09.v) for every schema, document and position: resolve succeeds exactly on 0..size; the tokens left/right of the resolved path are exactly the first pos / the remaining tokens of the document (a position IS a token index, one per UTF-16 unit); the path is a parent/child chain of element nodes starting at the document; a non-zero text offset points into a text child; the parent offset is the token index inside the innermost ancestor. The individual accessors (node/index/start/end/before/after/index_after/pos_at_index/offsets/node_before/after/marks/marks_across/shared_depth/block_range), node_at, child_after/before, nodes_between, range_has_mark, text_between are modelled and compared with the implementation at every position of generated documents (astral text, non-inclusive marks), and their token-picture specification (Spec/TokenPos.v) is evaluated on the implementation's answers."),
    "C10": C("exploration", "frame monitor on the implementation driven by model-replayed histories; accumulator theorem in Coq", "Theorem accumulators_append_only (transform bookkeeping only appends). In-place mutation/aliasing of Python objects cannot be exhibited by a value-level model: every object handed out during random histories (documents, fragments, slices, marks, mark lists, steps, maps, the shared empties) is snapshotted and re-serialised after every operation; histories also replay through the model."),
    "C11": C("exploration", CORR, "Seven replace-family operations on the bundled schema family: never raise, emitted steps replay through the model, result valid (Coq check), content before/after preserved in order, inserted content an in-order subsequence of the slice's (marks only dropped, only required block fillers added), deletions add no text. Silent no-op when the fitter cannot close is a recorded upstream finding."),
    "C12": C("exploration", CORR, "Seven structure helpers: never crash, in-range results, approval implies the edit succeeds, is valid (Coq check) and preserves the leaf sequence for split/join/lift/wrap; emitted steps replay through the model. find_wrapping ignoring marks on block nodes is a recorded upstream finding."),
    "C13": C("exploration", CORR, "Pointwise token specification of add/remove mark steps and of whole add_mark/remove_mark operations (by mark, by type, all), node-mark, attribute and doc-attribute steps, evaluated in Coq on the implementation's result; steps replay through the model."),
    "C14": C("proof", COQ, "Theorems (coq/Properties/C14.v) for every schema: exact characterisation of add_to_set, rank order and duplicate-freeness preserved, every reachable set canonical, removal/membership as set operations, allowed_marks = order-preserving filter. Correspondence: all 512 exclusion matrices over three types, random configurations with groups (including names that are substrings of each other), '_', '' and attributes; compiled exclusion lists and mark sets recomputed by the model."),
    "C15": C("proof", COQ, "Theorems (coq/Properties/C15.v) over every deterministic automaton table: fill_before proposes only generatable node types that really make the content match (to a valid end when asked); the wrapper chain find_wrapping returns really fits (first wrapper allowed, each holds the next as only child, innermost accepts the target, none leaf/with required attributes). Completeness ('nothing only if no filling / chain exists', shortest chain) and create_and_fill are evaluated per case against independent closures computed in Coq (exploration strength for those clauses). The model gives the exact answers of the implementation on every state of the bundled family and of generated well-founded schemas. Unbounded recursion on first-choice cycles is a recorded upstream finding."),
    "C16": C("exploration", CORR, "Mergeable pairs (replace steps closed on the seam in both directions, typing sequences, mark steps) on the bundled family: merge result agrees with the model, merged step succeeds whenever the pair did, yields an equal document and the same size change."),
    "C17": C("exploration", CORR, "Pairs of single steps from every high-level operation with strictly separated touched ranges: rebased steps exist, both orders succeed and give equal documents; Step.map agrees with the model. Joining replace vs mark step is a recorded upstream finding (witness in the corpus)."),
    "C18": C("exploration", CORR, "Edits with both ends inside an isolating node (isolating and table-like variants): tokens up to and including the node's open token and from its close token on are unchanged, for the replace family, lift and split; steps replay through the model. The fitter placing unfittable content after the isolating node is a recorded upstream finding."),
    "C19": C("exploration", "verified validity oracle (Coq) on parser output + round trips compared in Coq + Coq model of matches_context", "lxml and the parser's state machine are not modelled. Every generated HTML fragment must parse (no exception, no hang) into a document the Coq validity checker accepts; serialise-then-parse must give an equal document for whitespace-normal documents (spaces between differently marked words, code blocks, escaping of text/attributes checked through lxml); matches_context is modelled in Coq and compared on random open-node stacks and context expressions."),
    "C20": C("proof", COQ, "Theorems (coq/Properties/C20.v): the identity fast path never changes the answer (any sound sharing oracle), nothing is reported exactly when the fragments are equal, a fragment never differs from itself; both scans are structurally recursive (total). That the reported positions equal the common token prefix/suffix (UTF-16 units) is evaluated in Coq on edit pairs with shared nodes, independent copies and astral text; every call runs under an alarm."),
}

NOT_YET = "check under construction in this round (model/correspondence not registered yet)"


def main():
    checks = []
    for pid, c in CHECKS.items():
        checks.append({
            "property_id": pid,
            "quick_cmd": f"./check {pid} --tier quick",
            "thorough_cmd": f"./check {pid} --tier thorough",
            "evidence_file": f"/verif/evidence/{pid}.json",
            "replay_cmd_template": f"./check {pid} --replay {{path}}",
            "engine": "coq-model+correspondence",
            "technique": c["technique"],
            "level_claimed": {"category": c["category"], "text": c["text"], "design_ref": f"DESIGN.md section 5, {pid}"},
            "level_note": c["note"],
        })
    man = {
        "version": 1,
        "setup_cmd": "cd /verif && ./check --setup",
        "hooks": {
            "guard": "PROSEMIRROR_PY_VERIF",
            "enable": "no source hooks: checks import /repo in place (PYTHONPATH=/repo) and observe public attributes only",
            "baseline_off_cmd": "cd /repo && /venv/bin/python -m pytest -ra -q -p no:cacheprovider --timeout=900 --continue-on-collection-errors",
            "source_commits": [],
            "add_only": True,
        },
        "engines": [{
            "name": "coq-model+correspondence", "path": "/verif/check", "serves_properties": sorted(CHECKS),
            "kind_free_text": "Coq 8.16.1 theorems about a hand-written executable Gallina model (coq/Model, coq/Proofs, "
                              "coq/Properties); the model is tied to /repo's working tree on every run by differential "
                              "execution (implementation vs vm_compute of the model; the comparison and the property "
                              "predicates are evaluated inside Coq)"}],
        "checks": checks,
        "not_applicable": [{"property_id": p, "reason": NOT_YET} for p in ALL if p not in CHECKS],
        "notes": "See DESIGN.md. known_findings.json lists recorded findings and fixed defects.",
    }
    with open(os.path.join(VERIF, "MANIFEST.json"), "w") as f:
        json.dump(man, f, indent=1)


if __name__ == "__main__":
    main()
