"""C04 — every recorded change can be undone exactly and replayed exactly."""
from __future__ import annotations

import random

import gen
import steps as S

ID = "C04"
CORR_MODULE = "Corr.C04"
LEVEL = "proof"
SHARD = 100


def generate(rng: random.Random, tier: str):
    quick = tier == "quick"
    for fam in gen.FAMILY:
        g, docs = S.family_docs(rng, fam, 10 if quick else 120)
        for doc in docs:
            for _ in range(4 if quick else 12):
                tr, ops = S.gen_history(rng, g, doc, docs, rng.randint(1, 8 if quick else 12))
                # recorded arrays stay aligned even when an operation was rejected half-way
                aligned = len(tr.steps) == len(tr.docs) == len(tr.mapping.maps)
                c = S.history_case(fam, tr.before, tr.steps, tr.doc, "transform-history", ops)
                if not aligned:
                    c.coq = c.coq.replace("CHistory", "CHistory", 1)
                    c.desc["misaligned"] = [len(tr.steps), len(tr.docs), len(tr.mapping.maps)]
                    c.kind = "transform-history/MISALIGNED"
                yield c
            for _ in range(8 if quick else 40):
                st = S.adversarial_step(rng, g, doc, docs)
                yield S.apply_case(fam, doc, st, True, "primitive")[0]
        # node-mark steps on nodes that already carry marks, one per mark type: displacement by exclusion
        from prosemirror.transform import AddNodeMarkStep, RemoveNodeMarkStep
        sc_ = gen.family(fam)
        for doc in docs[: (4 if quick else 40)]:
            marked = [(p, nd) for p, nd in S.all_positions_with_nodes(doc) if not nd.is_text and nd.marks]
            for p, nd in marked[: (3 if quick else 10)]:
                for mt in sc_.marks.values():
                    try:
                        m = mt.create({k: "foo" for k, at in mt.attrs.items() if not at.has_default} or None)
                    except ValueError:
                        continue
                    yield S.apply_case(fam, doc, AddNodeMarkStep(p, m), True, "node-mark-on-marked")[0]
                yield S.apply_case(fam, doc, RemoveNodeMarkStep(p, rng.choice(nd.marks)), True, "node-mark-on-marked")[0]
        # mark-heavy documents: histories of mark operations (the inverse of a mark step is only exact
        # because of how add_mark / remove_mark plan their steps), and node-mark steps on marked nodes
        from prosemirror.transform import Transform
        for _ in range(25 if quick else 300):
            d = S.marky_doc(rng, g)
            tr = Transform(d)
            ops = []
            for _ in range(rng.randint(1, 4)):
                try:
                    name, args = S.do_op(rng, g, tr, docs, rng.choice(["add_mark", "remove_mark", "add_mark", "add_node_mark", "remove_node_mark"]))
                    ops.append([name, args, "ok"])
                except Exception as e:  # noqa: BLE001
                    ops.append(["?", {}, type(e).__name__])
            yield S.history_case(fam, tr.before, tr.steps, tr.doc, "mark-history", ops)
    # single steps the transform API never records but a peer may send: node-mark steps whose mark has the TYPE of a
    # mark the node carries but other attributes (removing link(a) from a node with link(b) is a no-op, and so must
    # its inverse be), and replace steps with the structure flag set although their slice carries content
    from prosemirror.model import Fragment, Slice
    from prosemirror.transform import AddNodeMarkStep, RemoveNodeMarkStep, ReplaceStep
    for fam in ("basic", "blockmarks"):
        g, docs = S.family_docs(rng, fam, 6 if quick else 60)
        sc_ = gen.family(fam)
        typed = [mt for mt in sc_.marks.values() if mt.attrs]
        for doc in docs:
            cand = [(p, nd) for p, nd in S.all_positions_with_nodes(doc) if not nd.is_text]
            rng.shuffle(cand)
            for p, nd in cand[: (3 if quick else 8)]:
                mt = rng.choice(typed)

                def mk(v, mt=mt):
                    return mt.create({an: (v if an != "id" else (1 if v == "foo" else 2)) for an in mt.attrs})
                # give the node a mark of that type first (as a step), then remove / add the other variant
                r = AddNodeMarkStep(p, mk("foo")).apply(doc)
                base = r.doc if r.doc is not None else doc
                for st in (RemoveNodeMarkStep(p, mk("bar")), AddNodeMarkStep(p, mk("bar")), RemoveNodeMarkStep(p, mk("foo"))):
                    yield S.apply_case(fam, base, st, True, "node-mark-same-type")[0]
            ps = S.boundary_positions(doc)
            for _ in range(3 if quick else 10):
                a = rng.choice(ps)
                c = a if rng.random() < 0.6 else rng.choice([q for q in ps if q >= a][:4])
                sl = Slice(Fragment.from_(sc_.text("X")), 0, 0) if rng.random() < 0.5 else g.slice_from(rng.choice(docs))
                yield S.apply_case(fam, doc, ReplaceStep(a, c, sl, True), True, "structure-flag-with-content")[0]

    # remove_mark across an inline leaf that does NOT carry the mark, between two runs that do (appended stream): the two
    # runs must stay two RemoveMark steps - merged into one, the naive inverse would also mark the leaf and undo would not be
    # exact (seeded change C04-9 counted only text nodes as runs)
    from prosemirror.transform import Transform as _T
    for fam in gen.FAMILY:
        sc_ = gen.family(fam)
        if "paragraph" not in sc_.nodes:
            continue
        para_t = sc_.nodes["paragraph"]
        leaves = [t for t in sc_.nodes.values() if t.is_inline and t.is_leaf and not t.is_text and not t.has_required_attrs()]
        if "image" in sc_.nodes and sc_.nodes["image"].is_inline:
            leaves.append(sc_.nodes["image"])
        marks_ = [m for m in sc_.marks.values() if para_t.allows_mark_type(m)]
        for _ in range(6 if quick else 80):
            if not leaves or not marks_:
                break
            mt = rng.choice(marks_)
            try:
                mk = mt.create({"href": "h"} if "href" in mt.attrs else None)
            except Exception:  # noqa: BLE001
                continue
            lt = rng.choice(leaves)
            leaf = lt.create({"src": "s"} if "src" in lt.attrs else None)
            other = [m.create({"href": "o"} if "href" in m.attrs else None) for m in marks_ if m is not mt and rng.random() < 0.3
                     and not m.excludes(mt) and not mt.excludes(m)]
            kids = [sc_.text("one", [mk] + other), leaf, sc_.text("two", [mk]), sc_.text(" tail")]
            try:
                para = para_t.create(None, Fragment.from_(kids))
                doc = sc_.top_node_type.create_and_fill(None, Fragment.from_(para))
                doc.check()
            except Exception:  # noqa: BLE001
                continue
            start = doc.content.size - para.node_size + 1
            a = start + rng.randint(0, 2)
            c = start + 3 + 1 + rng.randint(1, 3)
            tr = _T(doc)
            what = rng.choice(["mark", "type", "all"])
            try:
                tr.remove_mark(a, c, mk if what == "mark" else (mt if what == "type" else None))
            except Exception as e:  # noqa: BLE001
                continue
            yield S.history_case(fam, tr.before, tr.steps, tr.doc, "remove-mark-across-leaf",
                                 [["remove_mark", {"from": a, "to": c, "what": what}, "ok"]])


def rebuild(desc):
    return S.rebuild_history(desc) if desc.get("case") == "history" else S.rebuild_apply(desc)


def _structure_inverse(s):
    st = s["step"]
    return (st["type"] == "ReplaceAroundStep" and st["structure"] and s["result"][0] == "ok"
            and s["undo"] and s["undo"][0] == "fail")


def _inside_pair(doc, pos):
    return 0 <= pos <= doc.content.size and pos not in S.boundary_positions(doc)


def classify(case):
    from prosemirror.model import Node
    d = case.desc
    steps = [d["obs"]] if d.get("case") == "apply" else d.get("steps", [])
    # known upstream semantics: the inverse of a structure-flagged replace-around keeps the flag and is refused
    # when the original step inserted content
    if any(_structure_inverse(s) for s in steps):
        return "C04-structure-flag-inverse"
    # known upstream semantics: AddNodeMarkStep.invert re-adds the displaced mark, which only restores the old
    # set when the displaced mark also excludes the new one (mutual exclusion)
    sc = gen.family(d["family"])
    for s in steps:
        st, inv = s["step"], s["invert"]
        if st["type"] == "AddNodeMarkStep" and isinstance(inv, dict) and inv["type"] == "AddNodeMarkStep":
            new_t, old_t = sc.marks[st["mark"]["type"]], sc.marks[inv["mark"]["type"]]
            if new_t != old_t and new_t.excludes(old_t) and not old_t.excludes(new_t):
                return "C04-node-mark-one-sided-exclusion"
    # the remaining findings need the documents the steps were applied to
    try:
        cur = Node.from_json(sc, d["doc"])
    except Exception:  # noqa: BLE001
        return None
    for s in steps:
        st = s["step"]
        if s["result"][0] != "ok":
            continue
        if st["type"] == "ReplaceAroundStep" and s["invert"] == "ErrValue" and \
                any(_inside_pair(cur, st[k]) for k in ("from_", "to", "gap_from", "gap_to")):
            return "C04-gap-inside-surrogate-pair"
        if st["type"] == "AddNodeMarkStep":
            nd = cur.node_at(st["pos"])
            new_t = sc.marks[st["mark"]["type"]]
            if nd is not None and sum(1 for m in nd.marks if m.type != new_t and new_t.excludes(m.type)) >= 2:
                return "C04-node-mark-displaces-several"
        if st["type"] == "RemoveNodeMarkStep":
            # known upstream semantics: a mark type that does not exclude itself may occur several times on a node,
            # in insertion order; removing one that is not the LAST of its type and adding it back puts it last
            nd = cur.node_at(st["pos"])
            mk = sc.mark_from_json(st["mark"])
            if nd is not None and not mk.type.excludes(mk.type):
                same = [m for m in nd.marks if m.type == mk.type]
                if len(same) >= 2 and any(m.eq(mk) for m in same[:-1]) and not same[-1].eq(mk):
                    return "C04-node-mark-same-type-order"
        if st["type"] == "RemoveMarkStep":
            # the range form of the same upstream semantics: an inline node in the range carries several marks of a type
            # that does not exclude itself, and the removed one is not the last of them
            mk = sc.mark_from_json(st["mark"])
            if not mk.type.excludes(mk.type):
                hit = []

                def look(nd, pos, *_a, mk=mk, hit=hit):
                    if nd.is_inline:
                        same = [m for m in nd.marks if m.type == mk.type]
                        if len(same) >= 2 and any(m.eq(mk) for m in same[:-1]) and not same[-1].eq(mk):
                            hit.append(pos)
                    return True
                try:
                    cur.nodes_between(st["from_"], st["to"], look)
                except Exception:  # noqa: BLE001
                    hit = []
                if hit:
                    return "C04-mark-step-same-type-order"
        try:
            res = S.step_from_desc(sc, st).apply(cur)
        except Exception:  # noqa: BLE001
            return None
        if res.failed:
            return None
        cur = res.doc
        if st["type"] == "ReplaceAroundStep":
            try:
                cur.check()
            except Exception:  # noqa: BLE001
                return "C04-history-through-invalid-wrap"
    return None
