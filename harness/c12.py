"""C12 — structure helpers approve only edits that then succeed and keep content intact."""
from __future__ import annotations

import random

import gen
import ops
import steps as S
from common import Case, b, lst, nat
from prosemirror.model import Fragment, Node, Slice
from prosemirror.transform import Transform, structure

ID = "C12"
CORR_MODULE = "Corr.C12"
LEVEL = "proof"
SHARD = 80


def helper_case(rng, fam, g, doc: Node, docs, helper, fixed=None):
    info = S.info_for(fam)
    sc = gen.family(fam)
    n = doc.content.size
    ps = S.boundary_positions(doc)
    a = rng.choice(ps)
    c = rng.choice([p for p in ps if p >= a])
    if helper == "lift_target" and rng.random() < 0.7:
        # ranges deep inside nested containers (lists in lists, quotes in lists), short ones, so that siblings
        # remain before/after the lifted range at the inner level
        deep = [p for p in ps if doc.resolve(p).depth >= 3]
        if deep:
            a = rng.choice(deep)
            near = [p for p in deep if a <= p <= a + 6]
            c = rng.choice(near) if near else a
    fixed = fixed or {}
    if "a" in fixed:
        a, c = fixed["a"], fixed.get("c", fixed["a"])
    tr = Transform(doc)
    hcrash, approved, in_range, performed, structure_only = False, False, True, False, False
    args = {"pos": a, "to": c}
    err = ""
    try:
        if helper == "can_split":
            depth = fixed.get("depth") or rng.randint(1, 3)
            args["depth"] = depth
            ta = None
            if fixed.get("types_after"):
                ta = [structure.NodeTypeWithAttrs(sc.nodes[nm], at) for nm, at in fixed["types_after"]]
                args["types_after"] = fixed["types_after"]
            approved = bool(structure.can_split(doc, a, depth, ta))
            if approved:
                structure_only = True
                out, err = ops.run(tr, lambda t: t.split(a, depth, ta))
                performed = out == "ok"
        elif helper == "can_join":
            approved = bool(structure.can_join(doc, a))
            if approved:
                structure_only = True
                out, err = ops.run(tr, lambda t: t.join(a))
                performed = out == "ok"
        elif helper == "join_point":
            d = fixed.get("dir") or rng.choice([-1, 1])
            args["dir"] = d
            p = structure.join_point(doc, a, d)
            approved = p is not None
            if approved:
                in_range = 0 <= p <= n
                args["result"] = p
                structure_only = True
                out, err = ops.run(tr, lambda t: t.join(p))
                performed = out == "ok"
        elif helper == "lift_target":
            ra = doc.resolve(a)
            level = fixed.get("level")
            if level is None and "a" not in fixed and ra.depth >= 2 and rng.random() < 0.5:
                level = rng.randint(1, ra.depth - 1)
            if level is not None and level < ra.depth:
                # the block range at a chosen ancestor level (list items inside a list, not only the innermost
                # range around the textblocks)
                args["level"] = level
                want = ra.node(level)
                rg = ra.block_range(doc.resolve(c), lambda nd: nd is want)
            else:
                rg = ra.block_range(doc.resolve(c))
            if rg is not None:
                tgt = structure.lift_target(rg)
                approved = tgt is not None
                if approved:
                    in_range = 0 <= tgt <= rg.depth
                    args["result"] = tgt
                    structure_only = True
                    out, err = ops.run(tr, lambda t: t.lift(rg, tgt))
                    performed = out == "ok"
        elif helper == "find_wrapping":
            rg = doc.resolve(a).block_range(doc.resolve(c))
            names = [nm for nm, t in sc.nodes.items() if not t.is_text]
            ty = sc.nodes[rng.choice(names)]
            args["type"] = ty.name
            if rg is not None:
                wr = structure.find_wrapping(rg, ty, g.attrs_for(ty))
                approved = wr is not None
                if approved:
                    structure_only = True
                    out, err = ops.run(tr, lambda t: t.wrap(rg, wr))
                    performed = out == "ok"
        elif helper == "insert_point":
            names = [nm for nm, t in sc.nodes.items() if not t.is_text]
            ty = sc.nodes[rng.choice(names)]
            args["type"] = ty.name
            p = structure.insert_point(doc, a, ty)
            approved = p is not None
            if approved:
                in_range = 0 <= p <= n
                args["result"] = p
                node = ty.create_and_fill(g.attrs_for(ty) if ty.has_required_attrs() else None)
                if node is None:
                    approved = False
                else:
                    out, err = ops.run(tr, lambda t: t.insert(p, node))
                    performed = out == "ok"
        elif helper == "drop_point":
            sl = gen.slice_from_json(sc, fixed["slice"]) if "slice" in fixed else g.slice_from(rng.choice(docs))
            args["slice"] = gen.slice_to_json(sl)
            p = structure.drop_point(doc, a, sl)
            approved = p is not None
            if approved:
                in_range = 0 <= p <= n
                args["result"] = p
                out, err = ops.run(tr, lambda t: t.replace(p, p, sl))
                performed = out == "ok"
    except Exception as e:  # noqa: BLE001
        hcrash = True
        err = f"{type(e).__name__}: {e}"[:160]
    hist_t, hist_d = ops.hist_terms(info, doc, tr)
    coq = (f"CHelper @S@ {info.node(doc)} {b(hcrash)} {b(approved)} {b(in_range)} {b(performed)} {b(structure_only)} "
           f"{hist_t} {info.node(tr.doc)}")
    desc = {"case": "helper", "family": fam, "helper": helper, "doc": doc.to_json(), "args": args,
            "helper_crashed": hcrash, "approved": approved, "in_range": in_range, "performed": performed,
            "error": err, "steps": hist_d, "final": tr.doc.to_json()}
    k = "crash" if hcrash else ("approved-" + ("ok" if performed else "FAILED") if approved else "declined")
    return Case(coq=coq, desc=desc, schema=info.schema_term(), kind=f"{helper}/{k}", nontrivial=approved)


HELPERS = ["can_split", "can_join", "join_point", "lift_target", "lift_target", "lift_target", "find_wrapping", "insert_point", "drop_point"]


def approved_candidates(rng, doc, cap):
    """enumerate positions / ranges the helpers approve (the helpers are cheap), so that the edits they
    approve are actually performed instead of mostly drawing declined arguments"""
    ps = S.boundary_positions(doc)
    out = []

    def safe(f):
        try:
            return f()
        except Exception:  # noqa: BLE001
            return None
    joins = [p for p in ps if safe(lambda: structure.can_join(doc, p))]
    out += [("can_join", {"a": p}) for p in rng.sample(joins, min(len(joins), cap))]
    jps = [(p, d) for p in ps for d in (-1, 1) if safe(lambda: structure.join_point(doc, p, d)) is not None]
    out += [("join_point", {"a": p, "dir": d}) for p, d in rng.sample(jps, min(len(jps), cap))]
    splits = [(p, d) for p in ps for d in (1, 2, 3) if safe(lambda: structure.can_split(doc, p, d))]
    out += [("can_split", {"a": p, "depth": d}) for p, d in rng.sample(splits, min(len(splits), cap))]
    pairs = [(x, y) for x in ps for y in ps if x <= y]
    pairs = rng.sample(pairs, min(len(pairs), 150))
    lifts = []
    for x, y in pairs:
        rg = safe(lambda: doc.resolve(x).block_range(doc.resolve(y)))
        if rg is not None and safe(lambda: structure.lift_target(rg)) is not None:
            lifts.append((x, y))
    out += [("lift_target", {"a": x, "c": y}) for x, y in rng.sample(lifts, min(len(lifts), 2 * cap))]
    # ... and approved lifts of ranges at a chosen ancestor level (items of a list, a quote inside an item)
    lv = []
    for x, y in pairs:
        rx = safe(lambda: doc.resolve(x))
        if rx is None or rx.depth < 2:
            continue
        for level in range(1, rx.depth):
            want = rx.node(level)
            rg = safe(lambda: rx.block_range(doc.resolve(y), lambda nd: nd is want))
            if rg is not None and safe(lambda: structure.lift_target(rg)) is not None:
                lv.append((x, y, level))
    out += [("lift_target", {"a": x, "c": y, "level": l}) for x, y, l in rng.sample(lv, min(len(lv), 2 * cap))]
    return out


# ---------------------------------------------------------------- modelled helpers and step builders
def _answer(info, f, kind):
    """run the implementation; the answer as a Gallina term of type sanswer"""
    from common import opt
    import pm
    try:
        v = f()
    except Exception as e:  # noqa: BLE001
        return f"(AErr {pm.err_class(e)})", f"error:{type(e).__name__}"
    if kind == "bool":
        return f"(ABool {b(bool(v))})", str(bool(v))
    if kind == "optbool":
        return f"(AOptBool {opt(v, lambda x: b(bool(x)))})", str(v)
    if kind == "optnat":
        return f"(AOptNat {opt(v, nat)})", str(v)
    return f"(AStep {S.step_term(info, v)})", "step"


def struct_queries(rng, fam, doc: Node, docs, cap):
    """queries to the structure helpers and to the step builders of split / join / lift / wrap, answered by
    the implementation; Coq compares each with Model.StructOps (the builders: the very step handed to
    Transform.step, or the error class when that step does not apply)"""
    from pm import attrs_term
    info = S.info_for(fam)
    sc = gen.family(fam)
    ps = S.boundary_positions(doc)
    out = []

    def case(qterm, ans, kind, qdesc):
        term, short = ans
        return Case(coq=f"CStruct @S@ {info.node(doc)} {qterm} {term}",
                    desc={"case": "struct", "family": fam, "doc": doc.to_json(), "query": qdesc, "answer": short},
                    schema=info.schema_term(), kind=f"struct:{kind}/{short.split(':')[0] if short.startswith('error') else 'ok'}",
                    nontrivial=True)

    def last_step(f):
        tr = Transform(doc)
        f(tr)
        return tr.steps[-1]

    for _ in range(cap):
        pos = rng.choice(ps)
        depth = rng.randint(1, 3)
        out.append(case(f"(QCanSplit {nat(pos)} {nat(depth)})",
                        _answer(info, lambda: structure.can_split(doc, pos, depth), "bool"), "can_split",
                        {"q": "can_split", "pos": pos, "depth": depth}))
        if doc.resolve(pos).depth >= depth:
            out.append(case(f"(QSplit {nat(pos)} {nat(depth)})",
                            _answer(info, lambda: last_step(lambda t: t.split(pos, depth)), "step"), "split",
                            {"q": "split", "pos": pos, "depth": depth}))
        out.append(case(f"(QCanJoin {nat(pos)})", _answer(info, lambda: structure.can_join(doc, pos), "optbool"),
                        "can_join", {"q": "can_join", "pos": pos}))
        jd = rng.randint(1, 2)
        if pos - jd >= 0 and pos + jd <= doc.content.size:
            out.append(case(f"(QJoin {nat(pos)} {nat(jd)})",
                            _answer(info, lambda: last_step(lambda t: t.join(pos, jd)), "step"), "join",
                            {"q": "join", "pos": pos, "depth": jd}))
        d = rng.choice([-1, 1])
        out.append(case(f"(QJoinPoint {nat(pos)} {b(d > 0)})",
                        _answer(info, lambda: structure.join_point(doc, pos, d), "optnat"), "join_point",
                        {"q": "join_point", "pos": pos, "dir": d}))
        ty = sc.nodes[rng.choice([nm for nm, t in sc.nodes.items() if not t.is_text])]
        out.append(case(f"(QInsertPoint {nat(pos)} {info.ty(ty)})",
                        _answer(info, lambda: structure.insert_point(doc, pos, ty), "optnat"), "insert_point",
                        {"q": "insert_point", "pos": pos, "type": ty.name}))
        # ranges: the default block range and block ranges at a chosen ancestor level
        c = rng.choice([p for p in ps if p >= pos])
        ra, rc = doc.resolve(pos), doc.resolve(c)
        cands = [ra.block_range(rc)]
        if ra.depth >= 2:
            want = ra.node(rng.randint(1, ra.depth - 1))
            cands.append(ra.block_range(rc, lambda nd, want=want: nd is want))
        for rg in cands:
            if rg is None:
                continue
            f_, t_, dp = rg.from_.pos, rg.to.pos, rg.depth
            tgt_ans = _answer(info, lambda: structure.lift_target(rg), "optnat")
            out.append(case(f"(QLiftTarget {nat(f_)} {nat(t_)} {nat(dp)})", tgt_ans, "lift_target",
                            {"q": "lift_target", "from": f_, "to": t_, "depth": dp}))
            try:
                tgt = structure.lift_target(rg)
            except Exception:  # noqa: BLE001
                tgt = None
            targets = ([tgt] if tgt is not None else []) + ([rng.randint(0, dp - 1)] if dp >= 1 and rng.random() < 0.3 else [])
            for tg in targets:
                out.append(case(f"(QLift {nat(f_)} {nat(t_)} {nat(dp)} {nat(tg)})",
                                _answer(info, lambda: last_step(lambda t: t.lift(rg, tg)), "step"), "lift",
                                {"q": "lift", "from": f_, "to": t_, "depth": dp, "target": tg}))
            names = [nm for nm, t in sc.nodes.items() if not t.is_text and not t.is_leaf]
            wt = sc.nodes[rng.choice(names)]
            try:
                ws = structure.find_wrapping(rg, wt, g_attrs(rng, wt))
            except Exception:  # noqa: BLE001
                ws = None
            if ws is None and rng.random() < 0.3:
                ws = [structure.NodeTypeWithAttrs(wt, g_attrs(rng, wt))]
            if ws is not None:
                wterm = lst(f"({info.ty(w.type)}, {attrs_term(w.attrs)})" for w in ws)
                out.append(case(f"(QWrap {nat(f_)} {nat(t_)} {nat(dp)} {wterm})",
                                _answer(info, lambda: last_step(lambda t: t.wrap(rg, ws)), "step"), "wrap",
                                {"q": "wrap", "from": f_, "to": t_, "depth": dp,
                                 "wrappers": [[w.type.name, w.attrs] for w in ws]}))
    return out


def g_attrs(rng, t):
    out = {}
    for name, a in t.attrs.items():
        if a.has_default and rng.random() < 0.6:
            continue
        out[name] = rng.randint(1, 3) if name in ("level", "order") else rng.choice(["a.png", "b"])
    return out or None


def generate(rng: random.Random, tier: str):
    quick = tier == "quick"
    for fam in gen.FAMILY:
        g, docs = S.family_docs(rng, fam, 10 if quick else 150)
        for doc in docs:
            for cs in struct_queries(rng, fam, doc, docs, 6 if quick else 20):
                yield cs
            for helper, fixed in approved_candidates(rng, doc, 3 if quick else 10):
                yield helper_case(rng, fam, g, doc, docs, helper, fixed)
            for _ in range(16 if quick else 60):
                yield helper_case(rng, fam, g, doc, docs, rng.choice(HELPERS))
    # drop_point(doc, pos, slice): the implementation's answer against Model.DropPoint (both passes: content that fits
    # as it is, closed content whose first node fits once wrapped), at every kind of position
    for fam in gen.FAMILY:
        g, docs = S.family_docs(rng, fam, 5 if quick else 60)
        info = S.info_for(fam)
        sc = gen.family(fam)
        for doc in docs:
            ps = S.boundary_positions(doc)
            for _ in range(8 if quick else 30):
                pos = rng.choice(ps)
                r = rng.random()
                if r < 0.5:
                    sl = g.slice_from(rng.choice(docs))
                elif r < 0.8:
                    # closed slices of one or two nodes: paragraphs, list items, text - what gets wrapped in pass two
                    src = rng.choice(docs)
                    pool = [n for _, n in S.all_positions_with_nodes(src) if not n.is_text]
                    kids = [rng.choice(pool)] if pool else []
                    if rng.random() < 0.3:
                        kids = [sc.text("dropped")]
                    sl = Slice(Fragment.from_(kids), 0, 0)
                else:
                    sl = Slice.empty
                yield Case(coq=f"CStruct @S@ {info.node(doc)} (QDropPoint {nat(pos)} {info.slice(sl)}) "
                               f"{_answer(info, lambda: structure.drop_point(doc, pos, sl), 'optnat')[0]}",
                           desc={"case": "struct", "family": fam, "doc": doc.to_json(),
                                 "query": {"q": "drop_point", "pos": pos, "slice": gen.slice_to_json(sl)},
                                 "answer": str(_answer(info, lambda: structure.drop_point(doc, pos, sl), 'optnat')[1])},
                           schema=info.schema_term(), kind="struct:drop_point", nontrivial=True)


    # can_split with types_after (the node types, with attributes, the split-off parts are to get): Model.StructOps.can_split_ta
    from pm import attrs_term
    for fam in gen.FAMILY:
        g, docs = S.family_docs(rng, fam, 8 if quick else 50)
        info = S.info_for(fam)
        sc = gen.family(fam)
        blocky = [t for t in sc.nodes.values() if not t.is_text and not t.is_inline]
        for doc in docs:
            ps = S.boundary_positions(doc)
            deep = [p_ for p_ in ps if doc.resolve(p_).depth >= 2] or ps
            for _ in range(24 if quick else 60):
                pos = rng.choice(deep if rng.random() < 0.8 else ps)
                rp = doc.resolve(pos)
                dmax = rp.depth
                depth = rng.randint(1, max(1, min(4, dmax)))
                base = dmax - depth
                k = rng.randint(1, depth)
                ta = []
                for j in range(k):
                    # types_after[j] is the type the part split off at depth base+1+j gets: mostly the type it has
                    if rng.random() < 0.7 and base + 1 + j >= 1:
                        t_ = rp.node(base + 1 + j).type
                    else:
                        t_ = rng.choice(blocky)
                    ta.append(structure.NodeTypeWithAttrs(t_, g_attrs(rng, t_)))
                taterm = lst(f"({info.ty(w.type)}, {attrs_term(w.attrs)})" for w in ta)
                ans = _answer(info, lambda: structure.can_split(doc, pos, depth, ta), "bool")
                yield Case(coq=f"CStruct @S@ {info.node(doc)} (QCanSplitTA {nat(pos)} {nat(depth)} {taterm}) {ans[0]}",
                           desc={"case": "struct", "family": fam, "doc": doc.to_json(),
                                 "query": {"q": "can_split_ta", "pos": pos, "depth": depth,
                                           "types_after": [[w.type.name, w.attrs] for w in ta]}, "answer": ans[1]},
                           schema=info.schema_term(), kind=f"struct:can_split_ta/{ans[1].split(chr(58))[0]}", nontrivial=True)
                # (no "approved => split succeeds" case is derived from these answers: C12 quantifies over positions and depths,
                # not over types_after, and upstream's canSplit approves requests its split then refuses - a blockquote split
                # "into a heading", a list retyped as a blockquote; the comparison of the ANSWER with the model is unrestricted)


    # join sweep (appended stream): can_join and join_point (both directions) at EVERY node boundary of a few documents -
    # the answers hinge on how many siblings remain (Node.can_replace(index, index + 1)), which sampled positions rarely hit
    for fam in gen.FAMILY:
        g, docs = S.family_docs(rng, fam, 4 if quick else 25)
        info = S.info_for(fam)
        for doc in docs:
            for pos in S.boundary_positions(doc):
                qs = [(f"(QCanJoin {nat(pos)})", lambda: structure.can_join(doc, pos), "optbool", "can_join", {"q": "can_join", "pos": pos})]
                for d in (-1, 1):
                    qs.append((f"(QJoinPoint {nat(pos)} {b(d > 0)})", lambda d=d: structure.join_point(doc, pos, d), "optnat",
                               "join_point", {"q": "join_point", "pos": pos, "dir": d}))
                for qterm, f, akind, kind, qdesc in qs:
                    term, short = _answer(info, f, akind)
                    yield Case(coq=f"CStruct @S@ {info.node(doc)} {qterm} {term}",
                               desc={"case": "struct", "family": fam, "doc": doc.to_json(), "query": qdesc, "answer": short},
                               schema=info.schema_term(), kind=f"struct:{kind}-sweep/{short.split(':')[0] if short.startswith('error') else 'ok'}",
                               nontrivial=True)


    # the same sweep over documents with a bounded-arity container (family "trio": content "block{2,3}")
    yield from trio_cases(rng, 6 if quick else 40)
    # insert_point sweep (appended stream): at the start / end of every node, for EVERY node type - the answer walks up
    # the ancestors one level at a time, which a sampled (position, type) pair rarely exercises beyond the first level
    for fam in gen.FAMILY:
        g, docs = S.family_docs(rng, fam, 5 if quick else 20)
        info = S.info_for(fam)
        sc = gen.family(fam)
        types = [t for t in sc.nodes.values() if not t.is_text]
        for doc in docs:
            for pos in S.boundary_positions(doc):
                rp = doc.resolve(pos)
                if rp.parent_offset != 0 and rp.parent_offset != rp.parent.content.size:
                    continue
                for ty in types:
                    term, short = _answer(info, lambda ty=ty: structure.insert_point(doc, pos, ty), "optnat")
                    yield Case(coq=f"CStruct @S@ {info.node(doc)} (QInsertPoint {nat(pos)} {info.ty(ty)}) {term}",
                               desc={"case": "struct", "family": fam, "doc": doc.to_json(),
                                     "query": {"q": "insert_point", "pos": pos, "type": ty.name}, "answer": short},
                               schema=info.schema_term(), kind=f"struct:insert_point-sweep/{short.split(':')[0] if short.startswith('error') else 'ok'}",
                               nontrivial=True)


def trio_cases(rng, n):
    fam = "trio"
    sc = gen.family(fam)
    info = S.info_for(fam)
    g = gen.DocGen(sc, rng)
    N = sc.nodes

    def p_(t):
        return N["paragraph"].create(None, sc.text(t))

    def block(depth):
        r = rng.random()
        if r < 0.3:
            return N["blockquote"].create(None, [p_("q")] + ([p_("r")] if rng.random() < 0.4 else []))
        if r < 0.5:
            return N["bullet_list"].create(None, [N["list_item"].create(None, p_("i")) for _ in range(rng.randint(1, 2))])
        if r < 0.7 and depth < 2:
            return trio(depth + 1)
        return p_(rng.choice(["a", "bc"]))

    def trio(depth):
        return N["trio"].create(None, [block(depth) for _ in range(rng.randint(2, 3))])
    def bq(t):
        return N["blockquote"].create(None, p_(t))

    def ul(t):
        return N["bullet_list"].create(None, N["list_item"].create(None, p_(t)))
    fixed = [N["doc"].create(None, N["trio"].create(None, [mk("a"), mk("b"), mk("c")][:k]))
             for mk in (bq, ul, p_) for k in (3, 2)]
    fixed.append(N["doc"].create(None, [N["trio"].create(None, [bq("a"), N["trio"].create(None, [bq("b"), bq("c"), bq("d")]), bq("e")])]))
    for k in range(len(fixed) + n):
        doc = fixed[k] if k < len(fixed) else N["doc"].create(None, [trio(0)] + ([block(0)] if rng.random() < 0.5 else []))
        doc.check()
        docs = [doc]
        for pos in S.boundary_positions(doc):
            qs = [(f"(QCanJoin {nat(pos)})", lambda: structure.can_join(doc, pos), "optbool", "can_join", {"q": "can_join", "pos": pos})]
            for d in (-1, 1):
                qs.append((f"(QJoinPoint {nat(pos)} {b(d > 0)})", lambda d=d: structure.join_point(doc, pos, d), "optnat",
                           "join_point", {"q": "join_point", "pos": pos, "dir": d}))
            for qterm, f, akind, kind, qdesc in qs:
                term, short = _answer(info, f, akind)
                yield Case(coq=f"CStruct @S@ {info.node(doc)} {qterm} {term}",
                           desc={"case": "struct", "family": fam, "doc": doc.to_json(), "query": qdesc, "answer": short},
                           schema=info.schema_term(), kind=f"struct:{kind}-trio/{short.split(':')[0] if short.startswith('error') else 'ok'}",
                           nontrivial=True)
            # ... and the promise: an approved join then succeeds and gives a valid document
            yield helper_case(rng, fam, g, doc, docs, "can_join", {"a": pos})
            yield helper_case(rng, fam, g, doc, docs, "join_point", {"a": pos, "dir": rng.choice([-1, 1])})


def rebuild(desc):
    """re-run a recorded helper case on the current implementation (helpers whose arguments are all in the
    description: can_split, can_join, join_point, lift_target, drop_point)"""
    helper, args = desc["helper"], desc["args"]
    if helper not in ("can_split", "can_join", "join_point", "lift_target", "drop_point"):
        raise NotImplementedError
    fam = desc["family"]
    sc = gen.family(fam)
    rng = random.Random(0)
    g = gen.DocGen(sc, rng)
    doc = Node.from_json(sc, desc["doc"])
    fixed = {"a": args["pos"], "c": args.get("to", args["pos"])}
    for k in ("depth", "dir", "slice", "level", "types_after"):
        if k in args:
            fixed[k] = args[k]
    return helper_case(rng, fam, g, doc, [doc], helper, fixed)


def _lift_split_parts_invalid(doc, rg, target):
    """Transform.lift splits every ancestor between the range and the target; the part of each ancestor that
    comes before / after the lifted range is re-wrapped in a copy of that ancestor.  True if one of those
    re-wrapped parts is not valid content for its ancestor type (what lift_target / can_cut do not look at:
    can_cut only asks about the ancestor's own children, not about the re-wrapped deeper remainder)."""
    f, t_, depth = rg.from_, rg.to, rg.depth
    pre = post = None          # the wrapped part of the level below
    for d in range(depth, target, -1):
        node = f.node(d)
        kids = list(node.content.content)
        before = kids[: (rg.start_index if d == depth else f.index(d))]
        after = kids[(rg.end_index if d == depth else t_.index_after(d)):]
        if pre is not None:
            before = before + [pre]
        if post is not None:
            after = [post] + after
        for part in (before, after):
            if part and not node.type.valid_content(Fragment.from_(part)):
                return True
        pre = node.copy(Fragment.from_(before)) if before else None
        post = node.copy(Fragment.from_(after)) if after else None
    return False


def classify(case):
    d = case.desc
    if d.get("helper") == "lift_target" and d.get("approved") and not d.get("performed") \
            and "Invalid content for node" in (d.get("error") or "") and "result" in d.get("args", {}):
        # known upstream semantics: lift_target / can_cut approve a multi-level lift whose split-off
        # remainder cannot stand alone in a copy of the ancestor (a list item that would start with a list)
        sc = gen.family(d["family"])
        doc = Node.from_json(sc, d["doc"])
        a = d["args"]
        ra = doc.resolve(a["pos"])
        if a.get("level") is not None and a["level"] < ra.depth:
            want = ra.node(a["level"])
            rg = ra.block_range(doc.resolve(a["to"]), lambda nd: nd is want)
        else:
            rg = ra.block_range(doc.resolve(a["to"]))
        if rg is not None and a["result"] < rg.depth - 1 and _lift_split_parts_invalid(doc, rg, a["result"]):
            return "C12-lift-split-remainder-invalid"
        return None
    if d.get("helper") == "find_wrapping" and d.get("approved") and d.get("performed"):
        # known upstream semantics: marks on wrapped block nodes are not considered. Specific match: the final
        # document becomes valid once the marks of the wrapped nodes' are ignored by their new parent, i.e. the
        # only complaint of check() is about content of the innermost new wrapper, and stripping block marks fixes it
        sc = gen.family(d["family"])
        fin = Node.from_json(sc, d["final"])
        try:
            fin.check()
            return None
        except ValueError:
            pass

        def strip(n):
            if n.is_text or n.is_inline:
                return n
            kids = [strip(c) for c in n.content.content]
            return n.type.create(n.attrs, Fragment.from_(kids), None)
        try:
            strip(fin).check()
        except ValueError:
            return None
        return "C12-wrap-ignores-marks"
    return None
