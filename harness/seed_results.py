#!/usr/bin/env python3
"""Writes /verif/seeded/RESULTS.md from seeded/*/meta.json (one row per confirmed seeded change)."""
import json
import os
import re

VERIF = os.path.dirname(os.path.dirname(os.path.abspath(__file__)))
SEEDED = os.path.join(VERIF, "seeded")


def files_of(patch_path):
    try:
        txt = open(patch_path).read()
    except OSError:
        return ""
    return ", ".join(sorted(set(re.findall(r"^\+\+\+ b/(\S+)", txt, flags=re.M))))


def what(meta, k, j=None):
    """first paragraph about the k-th (or, in the author's own numbering, j-th) change in the author's notes"""
    notes = meta.get("needs_to_manifest") or ""
    parts = re.split(r"^##+ ", notes, flags=re.M)
    for n in [k] + ([j] if j else []):
        for p in parts:
            head = p.split("\n", 1)[0]
            if re.match(rf"(Mutation|Change|Patch|patch|Seed)\s*{n}\b", head) or f"patch{n}.diff" in head:
                m = re.search(r"Change:(.*?)(?:\n\n|\Z)", p, flags=re.S)
                if m:
                    return " ".join(m.group(1).split())[:260]
                body = p.split("\n", 1)[-1].strip()
                first = re.split(r"\n\s*\n", body)[0] if body else head
                return " ".join((head + ": " + first).split())[:260]
    return ""


def main():
    rows = []
    for d in sorted(os.listdir(SEEDED)):
        mp = os.path.join(SEEDED, d, "meta.json")
        if not os.path.exists(mp):
            continue
        m = json.load(open(mp))
        k = int(d.split("-")[1])
        det = m.get("detected_by") or []
        summ = ""
        for c in (m.get("checks") or {}).values():
            if c.get("summary"):
                summ = c["summary"][-1]
        # the author's own numbering: changes that share one notes file are numbered 1, 2, ... in id order
        same = sorted(int(x.split("-")[1]) for x in os.listdir(SEEDED)
                      if x.startswith(d.split("-")[0] + "-") and os.path.exists(os.path.join(SEEDED, x, "meta.json"))
                      and json.load(open(os.path.join(SEEDED, x, "meta.json"))).get("needs_to_manifest") == m.get("needs_to_manifest"))
        j = same.index(k) + 1 if k in same else None
        rows.append((d, m.get("property"), files_of(os.path.join(SEEDED, d, "patch.diff")), m.get("confirmed"),
                     ", ".join(det) if det else "NOT DETECTED", summ, what(m, k, j)))
    out = ["# Seeded changes and what caught them", "",
           "Every row is a change written by a fresh sub-agent that was given only the property's text and a scratch",
           "worktree; each was confirmed here (the repository's 442 tests still pass with it, the author's demo fails",
           "with it and passes without it), applied to /repo with `git -C /repo apply`, checked with the property's",
           "quick check, and reverted.  `harness/seedtest.py` re-runs any of them.", "",
           "| id | files touched | confirmed | caught by | check summary |", "|---|---|---|---|---|"]
    for d, prop, files, conf, det, summ, w in rows:
        out.append(f"| {d} | {files} | {'yes' if conf else 'no'} | {det} | {summ} |")
    out += ["", "## What each change does", ""]
    for d, prop, files, conf, det, summ, w in rows:
        out.append(f"* **{d}** ({files}): {w}")
    n_det = sum(1 for r in rows if r[4] != "NOT DETECTED")
    out += ["", f"{n_det} of {len(rows)} confirmed changes are detected by the quick check of their property."]
    open(os.path.join(SEEDED, "RESULTS.md"), "w").write("\n".join(out) + "\n")
    print(f"{n_det}/{len(rows)} detected")


if __name__ == "__main__":
    main()
