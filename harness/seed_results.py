#!/usr/bin/env python3
"""Writes /verif/seeded/RESULTS.md from seeded/*/meta.json (one row per confirmed seeded change)."""
import json
import os
import re

VERIF = os.path.dirname(os.path.dirname(os.path.abspath(__file__)))
SEEDED = os.path.join(VERIF, "seeded")


def files_of(patch_path):
    try:
        txt = open(patch_path).read()
    except OSError:
        return ""
    return ", ".join(sorted(set(re.findall(r"^\+\+\+ b/(\S+)", txt, flags=re.M))))


def what(meta, k):
    """first 'Change:' paragraph of the k-th mutation in the author's notes"""
    notes = meta.get("needs_to_manifest") or ""
    parts = re.split(r"^## ", notes, flags=re.M)
    for p in parts:
        if re.match(rf"Mutation {k}\b", p):
            m = re.search(r"Change:(.*?)(?:\n\n|\Z)", p, flags=re.S)
            if m:
                return " ".join(m.group(1).split())[:260]
            return " ".join(p.split("\n", 1)[-1].split())[:260]
    return ""


def main():
    rows = []
    for d in sorted(os.listdir(SEEDED)):
        mp = os.path.join(SEEDED, d, "meta.json")
        if not os.path.exists(mp):
            continue
        m = json.load(open(mp))
        k = int(d.split("-")[1])
        det = m.get("detected_by") or []
        summ = ""
        for c in (m.get("checks") or {}).values():
            if c.get("summary"):
                summ = c["summary"][-1]
        rows.append((d, m.get("property"), files_of(os.path.join(SEEDED, d, "patch.diff")), m.get("confirmed"),
                     ", ".join(det) if det else "NOT DETECTED", summ, what(m, k)))
    out = ["# Seeded changes and what caught them", "",
           "Every row is a change written by a fresh sub-agent that was given only the property's text and a scratch",
           "worktree; each was confirmed here (the repository's 442 tests still pass with it, the author's demo fails",
           "with it and passes without it), applied to /repo with `git -C /repo apply`, checked with the property's",
           "quick check, and reverted.  `harness/seedtest.py` re-runs any of them.", "",
           "| id | files touched | confirmed | caught by | check summary |", "|---|---|---|---|---|"]
    for d, prop, files, conf, det, summ, w in rows:
        out.append(f"| {d} | {files} | {'yes' if conf else 'no'} | {det} | {summ} |")
    out += ["", "## What each change does", ""]
    for d, prop, files, conf, det, summ, w in rows:
        out.append(f"* **{d}** ({files}): {w}")
    n_det = sum(1 for r in rows if r[4] != "NOT DETECTED")
    out += ["", f"{n_det} of {len(rows)} confirmed changes are detected by the quick check of their property."]
    open(os.path.join(SEEDED, "RESULTS.md"), "w").write("\n".join(out) + "\n")
    print(f"{n_det}/{len(rows)} detected")


if __name__ == "__main__":
    main()
