"""Step-level machinery shared by C01, C03, C04, C13, C16, C17: printing steps, observing
apply/get_map/invert on the implementation, and generating steps (emitted by the transform API
on random arguments, and adversarial primitive steps)."""
from __future__ import annotations

import random

import gen
from common import Case, b, coq_string, lst, nat, opt, z
from pm import SchemaInfo, err_class, js
from prosemirror.model import Fragment, Mark, Node, ReplaceError, Slice
from prosemirror.transform import (
    AddMarkStep, AddNodeMarkStep, AttrStep, RemoveMarkStep, RemoveNodeMarkStep,
    ReplaceAroundStep, ReplaceStep, Step, Transform,
)
from prosemirror.transform.doc_attr_step import DocAttrStep
from prosemirror.transform import structure
from prosemirror.transform.transform import TransformError

_INFO: dict[str, SchemaInfo] = {}


def info_for(fam: str) -> SchemaInfo:
    from c02 import info_for as f
    return f(fam)


# ---------------------------------------------------------------- printing
def step_term(info: SchemaInfo, st: Step) -> str:
    if isinstance(st, ReplaceStep):
        return f"(SReplace {nat(st.from_)} {nat(st.to)} {info.slice(st.slice)} {b(st.structure)})"
    if isinstance(st, ReplaceAroundStep):
        return (f"(SReplaceAround {nat(st.from_)} {nat(st.to)} {nat(st.gap_from)} {nat(st.gap_to)} "
                f"{info.slice(st.slice)} {nat(st.insert)} {b(st.structure)})")
    if isinstance(st, AddMarkStep):
        return f"(SAddMark {nat(st.from_)} {nat(st.to)} {info.mark(st.mark)})"
    if isinstance(st, RemoveMarkStep):
        return f"(SRemoveMark {nat(st.from_)} {nat(st.to)} {info.mark(st.mark)})"
    if isinstance(st, AddNodeMarkStep):
        return f"(SAddNodeMark {nat(st.pos)} {info.mark(st.mark)})"
    if isinstance(st, RemoveNodeMarkStep):
        return f"(SRemoveNodeMark {nat(st.pos)} {info.mark(st.mark)})"
    if isinstance(st, AttrStep):
        return f"(SAttr {nat(st.pos)} {coq_string(st.attr)} {js(st.value)})"
    if isinstance(st, DocAttrStep):
        return f"(SDocAttr {coq_string(st.attr)} {js(st.value)})"
    raise TypeError(st)


def step_desc(st: Step):
    d = {"type": type(st).__name__}
    for k in ("from_", "to", "gap_from", "gap_to", "insert", "structure", "pos", "attr", "value"):
        if hasattr(st, k):
            d[k] = getattr(st, k)
    if hasattr(st, "slice"):
        d["slice"] = gen.slice_to_json(st.slice)
    if hasattr(st, "mark"):
        d["mark"] = st.mark.to_json()
    return d


def step_from_desc(schema, d) -> Step:
    t = d["type"]
    sl = gen.slice_from_json(schema, d["slice"]) if "slice" in d else None
    mk = schema.mark_from_json(d["mark"]) if "mark" in d else None
    if t == "ReplaceStep":
        return ReplaceStep(d["from_"], d["to"], sl, d["structure"])
    if t == "ReplaceAroundStep":
        return ReplaceAroundStep(d["from_"], d["to"], d["gap_from"], d["gap_to"], sl, d["insert"], d["structure"])
    if t == "AddMarkStep":
        return AddMarkStep(d["from_"], d["to"], mk)
    if t == "RemoveMarkStep":
        return RemoveMarkStep(d["from_"], d["to"], mk)
    if t == "AddNodeMarkStep":
        return AddNodeMarkStep(d["pos"], mk)
    if t == "RemoveNodeMarkStep":
        return RemoveNodeMarkStep(d["pos"], mk)
    if t == "AttrStep":
        return AttrStep(d["pos"], d["attr"], d["value"])
    return DocAttrStep(d["attr"], d["value"])


def sresult(f):
    """run step.apply-like thunk -> (term, ('ok', doc) | ('fail', msg) | ('err', cls, text))"""
    try:
        r = f()
    except Exception as e:  # noqa: BLE001
        return None, ("err", err_class(e), f"{type(e).__name__}: {e}"[:160])
    if r.failed:
        return None, ("fail", r.failed)
    return r.doc, ("ok",)


def sresult_term(info, doc, tag):
    if tag[0] == "ok":
        return f"(ROk {info.node(doc)})"
    if tag[0] == "fail":
        return "RFail"
    return f"(RErr {tag[1]})"


def positions_ok(st: Step) -> bool:
    return all(getattr(st, k, 0) >= 0 for k in ("from_", "to", "gap_from", "gap_to", "insert", "pos"))


class Applied:
    """observation of one step against one document on the implementation"""

    def __init__(self, info: SchemaInfo, doc: Node, st: Step):
        self.st = st
        self.doc = doc
        self.res_doc, self.tag = sresult(lambda: st.apply(doc))
        try:
            self.ranges = list(st.get_map().ranges)
        except Exception as e:  # noqa: BLE001
            self.ranges = []
        try:
            self.inv = st.invert(doc)
            self.inv_err = None
        except Exception as e:  # noqa: BLE001
            self.inv = None
            self.inv_err = err_class(e) if not isinstance(e, (KeyError, AssertionError, IndexError, AttributeError, TypeError)) else "ErrInternal"
        self.undo_doc, self.undo_tag = (None, None)
        if self.res_doc is not None and self.inv is not None and positions_ok(self.inv):
            self.undo_doc, self.undo_tag = sresult(lambda: self.inv.apply(self.res_doc))
        self.info = info
        # where the implementation's map sends every position of the document (assoc = 1)
        try:
            mp = st.get_map()
            self.mapped = [mp.map(p, 1) for p in range(doc.content.size + 1)]
        except Exception:  # noqa: BLE001
            self.mapped = []

    def term(self) -> str:
        info = self.info
        rs = lst(f"({z(self.ranges[i])}, {z(self.ranges[i+1])}, {z(self.ranges[i+2])})" for i in range(0, len(self.ranges), 3))
        inv = f"(Ok {step_term(info, self.inv)})" if self.inv is not None and positions_ok(self.inv) else \
            f"(Err {self.inv_err or 'ErrInternal'})"
        undo = "None" if self.undo_tag is None else f"(Some {sresult_term(info, self.undo_doc, self.undo_tag)})"
        mapped = lst(z(v) for v in self.mapped)
        return f"(AP {step_term(info, self.st)} {sresult_term(info, self.res_doc, self.tag)} {rs} {inv} {undo} {mapped})"

    def desc(self):
        return {"step": step_desc(self.st), "result": list(self.tag), "map": self.ranges,
                "invert": step_desc(self.inv) if self.inv is not None else self.inv_err,
                "undo": list(self.undo_tag) if self.undo_tag else None}


# ---------------------------------------------------------------- generators
def rand_mark(rng, schema):
    name = rng.choice(list(schema.marks))
    t = schema.marks[name]
    at = {}
    for an, a in t.attrs.items():
        if a.has_default and rng.random() < 0.5:
            continue
        at[an] = rng.choice(["foo", "bar", "baz"]) if an != "id" else rng.randint(0, 2)
    return t.create(at or None)


_BOUNDARY_CACHE: dict[int, list[int]] = {}


def boundary_positions(doc):
    """positions that do not split a surrogate pair (positions a JavaScript peer can also hold)"""
    k = id(doc)
    if k not in _BOUNDARY_CACHE:
        if len(_BOUNDARY_CACHE) > 5000:
            _BOUNDARY_CACHE.clear()
        ok = []
        for p in range(doc.content.size + 1):
            try:
                r = doc.resolve(p)
                if r.text_offset:
                    r.node_before  # noqa: B018  (cuts the text: raises when a pair is split)
                ok.append(p)
            except ValueError:
                pass
        _BOUNDARY_CACHE[k] = (doc, ok)   # keep the document alive so the id stays unique
    return _BOUNDARY_CACHE[k][1]


def rand_range(rng, doc):
    ps = boundary_positions(doc)
    a = rng.choice(ps)
    c = rng.choice(ps)
    return (a, c) if a <= c else (c, a)


OPS = ["replace", "replace_with", "delete", "insert", "replace_range", "replace_range_with", "delete_range",
       "add_mark", "remove_mark", "split", "join", "lift", "wrap", "set_block_type", "set_node_markup",
       "set_node_attribute", "set_doc_attribute", "add_node_mark", "remove_node_mark"]


def all_positions_with_nodes(doc):
    out = []
    doc.descendants(lambda n, pos, *_: out.append((pos, n)))
    return out


def do_op(rng: random.Random, g: gen.DocGen, tr: Transform, docs, op: str | None = None):
    """apply one random high-level operation to tr; returns (name, args-desc) or raises"""
    doc = tr.doc
    sc = g.schema
    op = op or rng.choice(OPS)
    a, c = rand_range(rng, doc)
    if op == "replace":
        sl = g.slice_from(rng.choice(docs)) if rng.random() < 0.8 else Slice.empty
        tr.replace(a, c, sl)
        return op, {"from": a, "to": c, "slice": gen.slice_to_json(sl)}
    if op == "replace_with":
        other = rng.choice(docs)
        nodes = [ch for ch in other.content.content]
        node = rng.choice(nodes) if nodes else sc.text("z")
        if rng.random() < 0.4:
            node = sc.text("zz", g.marks_for(sc.nodes["paragraph"]))
        tr.replace_with(a, c, node)
        return op, {"from": a, "to": c, "node": node.to_json()}
    if op == "delete":
        tr.delete(a, c)
        return op, {"from": a, "to": c}
    if op == "insert":
        other = rng.choice(docs)
        nodes = [ch for ch in other.content.content] or [sc.text("z")]
        node = rng.choice(nodes) if rng.random() < 0.6 else sc.text("ins", g.marks_for(sc.nodes["paragraph"]))
        tr.insert(a, node)
        return op, {"pos": a, "node": node.to_json()}
    if op == "replace_range":
        sl = g.slice_from(rng.choice(docs))
        tr.replace_range(a, c, sl)
        return op, {"from": a, "to": c, "slice": gen.slice_to_json(sl)}
    if op == "replace_range_with":
        other = rng.choice(docs)
        pool = [n for _, n in all_positions_with_nodes(other) if not n.is_text] or [sc.nodes["paragraph"].create()]
        node = rng.choice(pool)
        tr.replace_range_with(a, c, node)
        return op, {"from": a, "to": c, "node": node.to_json()}
    if op == "delete_range":
        tr.delete_range(a, c)
        return op, {"from": a, "to": c}
    if op == "add_mark":
        m = rand_mark(rng, sc)
        tr.add_mark(a, c, m)
        return op, {"from": a, "to": c, "mark": m.to_json()}
    if op == "remove_mark":
        r = rng.random()
        m = rand_mark(rng, sc)
        arg = m if r < 0.5 else (m.type if r < 0.8 else None)
        tr.remove_mark(a, c, arg)
        return op, {"from": a, "to": c, "mark": m.to_json() if r < 0.5 else None,
                    "mark_type": m.type.name if 0.5 <= r < 0.8 else None}
    if op == "split":
        depth = rng.randint(1, 2)
        ok = structure.can_split(doc, a, depth)
        if not ok:
            raise TransformError("can_split said no")
        tr.split(a, depth)
        return op, {"pos": a, "depth": depth}
    if op == "join":
        cands = [p for p in range(doc.content.size + 1) if structure.can_join(doc, p)]
        if not cands:
            raise TransformError("nothing joinable")
        p = rng.choice(cands)
        tr.join(p)
        return op, {"pos": p}
    if op == "lift":
        rg = doc.resolve(a).block_range(doc.resolve(c))
        tgt = rg and structure.lift_target(rg)
        if rg is None or tgt is None:
            raise TransformError("no lift target")
        tr.lift(rg, tgt)
        return op, {"from": a, "to": c, "target": tgt}
    if op == "wrap":
        rg = doc.resolve(a).block_range(doc.resolve(c))
        names = [n for n, t in sc.nodes.items() if not t.is_leaf and not t.is_text and not t.inline_content]
        ty = sc.nodes[rng.choice(names)]
        wr = rg and structure.find_wrapping(rg, ty)
        if not wr:
            raise TransformError("no wrapping")
        tr.wrap(rg, wr)
        return op, {"from": a, "to": c, "type": ty.name}
    if op == "set_block_type":
        names = [n for n, t in sc.nodes.items() if t.is_textblock]
        ty = sc.nodes[rng.choice(names)]
        tr.set_block_type(a, c, ty, g.attrs_for(ty))
        return op, {"from": a, "to": c, "type": ty.name}
    pn = [(p, n) for p, n in all_positions_with_nodes(doc) if not n.is_text]
    if op == "set_node_markup":
        if not pn:
            raise TransformError("no node")
        p, n = rng.choice(pn)
        same_kind = [t for t in sc.nodes.values() if not t.is_text and t.is_leaf == n.is_leaf and t.is_inline == n.is_inline]
        ty = rng.choice(same_kind) if rng.random() < 0.6 else n.type
        tr.set_node_markup(p, ty, g.attrs_for(ty), g.marks_for(sc.nodes["paragraph"]) if n.is_inline else None)
        return op, {"pos": p, "type": ty.name}
    if op == "set_node_attribute":
        cand = [(p, n) for p, n in pn if n.type.attrs]
        if not cand:
            raise TransformError("no node with attrs")
        p, n = rng.choice(cand)
        an = rng.choice(list(n.type.attrs))
        val = rng.choice([1, 2, 3]) if an in ("level", "order") else rng.choice(["v1", "v2", 7])
        tr.set_node_attribute(p, an, val)
        return op, {"pos": p, "attr": an, "value": val}
    if op == "set_doc_attribute":
        if not doc.type.attrs:
            raise TransformError("doc has no attrs")
        an = rng.choice(list(doc.type.attrs))
        val = rng.choice([None, 1, "m"])
        tr.set_doc_attribute(an, val)
        return op, {"attr": an, "value": val}
    if op in ("add_node_mark", "remove_node_mark"):
        if not pn:
            raise TransformError("no node")
        p, n = rng.choice(pn)
        m = rand_mark(rng, sc)
        if op == "add_node_mark":
            tr.add_node_mark(p, m)
        else:
            if n.marks and rng.random() < 0.7:
                m = rng.choice(n.marks)
            tr.remove_node_mark(p, m if rng.random() < 0.7 else m.type)
        return op, {"pos": p, "mark": m.to_json()}
    raise ValueError(op)


def observe_history(info, before: Node, steps: list[Step]):
    """re-observe each recorded step against the document it was applied to"""
    out = []
    cur = before
    for st in steps:
        ap = Applied(info, cur, st)
        out.append(ap)
        if ap.res_doc is None:
            break
        cur = ap.res_doc
    return out, cur


def adversarial_step(rng, g: gen.DocGen, doc: Node, docs) -> Step:
    """structurally plausible but possibly wrong for the document"""
    n = doc.content.size
    sc = g.schema
    r = rng.random()
    a, c = rand_range(rng, doc)
    if r < 0.16:
        # plain deletions, biased towards ranges that start and end in different nodes at the same depth (joins)
        ps = boundary_positions(doc)
        for _ in range(6):
            x, y = sorted((rng.choice(ps), rng.choice(ps)))
            try:
                rx, ry = doc.resolve(x), doc.resolve(y)
            except ValueError:
                continue
            if rx.depth == ry.depth and rx.depth > 0 and not rx.same_parent(ry):
                a, c = x, y
                break
        return ReplaceStep(a, c, Slice.empty, rng.random() < 0.15)
    if r < 0.3:
        sl = g.slice_from(rng.choice(docs))
        if rng.random() < 0.4:
            # a single-spine open slice (cut inside ONE textblock of another document, so open 1/1 or deeper)
            # put inside a textblock of this document: the two nodes are joined, and the joined node must be
            # re-validated (marks / inline nodes the target forbids)
            def textblocks(d):
                out = []
                d.descendants(lambda nd, pos, *_: out.append((pos, nd)) if nd.is_textblock else None)
                return out
            src = rng.choice(docs)
            tbs, tbd = textblocks(src), textblocks(doc)
            rich = [(p, nd) for p, nd in tbs if any(ch.marks or not ch.is_text for ch in nd.content.content)] or tbs
            if rich and tbd:
                ps, ns = rng.choice(rich)
                x = rng.randint(ps + 1, ps + 1 + ns.content.size)
                y = rng.randint(x, ps + 1 + ns.content.size)
                pd, nd_ = rng.choice(tbd)
                a = rng.randint(pd + 1, pd + 1 + nd_.content.size)
                c = rng.randint(a, pd + 1 + nd_.content.size)
                try:
                    sl = src.slice(x, y, rng.random() < 0.3)
                    if sl.open_start == 0 and x < y:
                        sl = Slice(Fragment.from_(ns.cut(x - ps - 1, y - ps - 1)), 1, 1)
                except ValueError:
                    pass
        return ReplaceStep(a, c, sl, rng.random() < 0.25)
    if r < 0.45:
        # wrap-like / lift-like: a flat block range as the gap, a wrapper of an arbitrary type around it
        try:
            rg = doc.resolve(a).block_range(doc.resolve(c))
        except ValueError:
            rg = None
        if rg is not None:
            names = [nm for nm, t in sc.nodes.items() if not t.is_leaf and not t.is_text]
            ty = sc.nodes[rng.choice(names)]
            try:
                w = ty.create(g.attrs_for(ty))
            except ValueError:
                w = None
            if w is not None:
                if rng.random() < 0.25:
                    inner = sc.nodes[rng.choice(names)]
                    try:
                        w = ty.create(g.attrs_for(ty), inner.create(g.attrs_for(inner)))
                        return ReplaceAroundStep(rg.start, rg.end, rg.start, rg.end, Slice(Fragment.from_(w), 0, 0), 2,
                                                 rng.random() < 0.7)
                    except ValueError:
                        pass
                if rng.random() < 0.25 and rg.end_index - rg.start_index >= 2:
                    first, last = rg.parent.child(rg.start_index), rg.parent.child(rg.end_index - 1)
                    if not first.is_leaf and not last.is_leaf:
                        # a gap whose ends sit at equal depth inside two different siblings: not a flat range
                        return ReplaceAroundStep(rg.start, rg.end, rg.start + 1, rg.end - 1,
                                                 Slice(Fragment.from_(w), 0, 0), 1, rng.random() < 0.3)
                if rng.random() < 0.75:
                    return ReplaceAroundStep(rg.start, rg.end, rg.start, rg.end, Slice(Fragment.from_(w), 0, 0), 1,
                                             rng.random() < 0.7)
                if rg.depth >= 1 and rg.start >= 1:
                    return ReplaceAroundStep(rg.start - 1, rg.end + 1, rg.start, rg.end, Slice(Fragment.from_(w), 0, 0), 1,
                                             rng.random() < 0.7)
    if r < 0.6:
        gf = rng.randint(a, c)
        gt = rng.randint(gf, c)
        if rng.random() < 0.35:
            # a gap that is NOT flat although both ends sit at the same depth (two sibling nodes)
            ps = boundary_positions(doc)
            for _ in range(8):
                x, y = sorted((rng.choice(ps), rng.choice(ps)))
                try:
                    rx, ry = doc.resolve(x), doc.resolve(y)
                except ValueError:
                    continue
                if rx.depth == ry.depth and rx.depth > 0 and not rx.same_parent(ry):
                    gf, gt = x, y
                    a = rng.choice([p for p in ps if p <= gf])
                    c = rng.choice([p for p in ps if p >= gt])
                    break
        other = rng.choice(docs)
        sl = g.slice_from(other)
        if rng.random() < 0.3:
            # a gap that is open on exactly ONE side (its ends at different depths), around which the step is
            # otherwise consistent: ends of the step inside sibling textblocks, a two-node slice open 1/1 with
            # the insertion point on the seam between the two nodes
            ps = boundary_positions(doc)
            for _ in range(12):
                x, y = sorted((rng.choice(ps), rng.choice(ps)))
                if x == y:
                    continue
                try:
                    gp = doc.slice(x, y)
                    rx, ry = doc.resolve(x), doc.resolve(y)
                except ValueError:
                    continue
                if (gp.open_start == 0) == (gp.open_end == 0):
                    continue
                lo = [p for p in ps if p <= x and doc.resolve(p).depth == max(rx.depth, ry.depth)]
                hi = [p for p in ps if p >= y and doc.resolve(p).depth == max(rx.depth, ry.depth)]
                if not lo or not hi:
                    continue
                a, c, gf, gt = rng.choice(lo[-3:]), rng.choice(hi[:3]), x, y
                par = (rx if rx.depth >= ry.depth else ry).parent
                try:
                    two = Fragment.from_([par.type.create(par.attrs, sc.text("X") if par.type.inline_content else None),
                                          par.type.create(par.attrs, sc.text("Y") if par.type.inline_content else None)])
                    sl2 = Slice(two, 1, 1)
                    return ReplaceAroundStep(a, c, gf, gt, sl2, two.child(0).node_size - 1, rng.random() < 0.2)
                except ValueError:
                    break
        if rng.random() < 0.6:
            # wrapper-like slices: a closed or open node around the gap
            pool = [nd for _, nd in all_positions_with_nodes(other) if not nd.is_leaf and not nd.is_text]
            if pool:
                w = rng.choice(pool)
                w = w.copy(Fragment.empty) if rng.random() < 0.6 else w
                k = rng.choice([0, 0, 1])
                sl = Slice(Fragment.from_(w), k, k)
        ins = rng.randint(0, max(0, sl.size)) if sl.size > 0 else 0
        return ReplaceAroundStep(a, c, gf, gt, sl, ins, rng.random() < 0.4)
    if r < 0.7:
        return AddMarkStep(a, c, rand_mark(rng, sc))
    if r < 0.78:
        return RemoveMarkStep(a, c, rand_mark(rng, sc))
    if r < 0.86:
        marked = [(p, nd) for p, nd in all_positions_with_nodes(doc) if not nd.is_text and nd.marks]
        if marked and rng.random() < 0.6:
            p, nd = rng.choice(marked)
            if rng.random() < 0.5:
                return AddNodeMarkStep(p, rand_mark(rng, sc))
            return RemoveNodeMarkStep(p, rng.choice(nd.marks) if rng.random() < 0.7 else rand_mark(rng, sc))
        return (AddNodeMarkStep if rng.random() < 0.5 else RemoveNodeMarkStep)(a, rand_mark(rng, sc))
    if r < 0.95:
        pn = [(p, nd) for p, nd in all_positions_with_nodes(doc) if nd.type.attrs]
        if pn:
            p, nd = rng.choice(pn)
            an = rng.choice(list(nd.type.attrs))
            return AttrStep(p, an, rng.choice([1, 2, "s", None]))
        return AddMarkStep(a, c, rand_mark(rng, sc))
    if doc.type.attrs:
        return DocAttrStep(rng.choice(list(doc.type.attrs)), rng.choice([None, 1, "x"]))
    return RemoveMarkStep(a, c, rand_mark(rng, sc))


def node_level_steps(rng, doc, sc, limit=6):
    """one attribute step for (up to `limit`) nodes that declare attributes — in particular node types with
    REQUIRED content (ordered_list/order, figure...), which random sampling rarely picks — and node-mark
    steps on non-text nodes"""
    pn = [(p, nd) for p, nd in all_positions_with_nodes(doc) if not nd.is_text and nd.type.attrs]
    rng.shuffle(pn)
    # prefer node types whose content expression does not accept the empty sequence
    pn.sort(key=lambda x: 0 if not x[1].type.content_match.valid_end else 1)
    out = []
    for p, nd in pn[:limit]:
        an = rng.choice(list(nd.type.attrs))
        out.append(AttrStep(p, an, rng.choice([1, 2, 3]) if an in ("level", "order") else rng.choice([1, "s", None])))
    nm = [(p, nd) for p, nd in all_positions_with_nodes(doc) if not nd.is_text]
    rng.shuffle(nm)
    for p, nd in nm[:2]:
        out.append((AddNodeMarkStep if rng.random() < 0.6 else RemoveNodeMarkStep)(p, rand_mark(rng, sc)))
    return out


def _sibling_pairs(doc):
    """pairs of boundary positions at the same depth > 0 inside different parents"""
    ps = boundary_positions(doc)
    res = []
    rs = {}
    for p in ps:
        try:
            rs[p] = doc.resolve(p)
        except ValueError:
            pass
    keys = sorted(rs)
    for i, x in enumerate(keys):
        for y in keys[i + 1:]:
            rx, ry = rs[x], rs[y]
            if rx.depth == ry.depth and rx.depth > 0 and not rx.same_parent(ry):
                res.append((x, y))
    return res


def join_deletion_steps(rng, doc, k):
    """deletions whose ends sit at the same depth inside different nodes: the two nodes are joined and the
    joined node must be re-validated (a list item that would start with a list, a figure with two captions)"""
    pairs = _sibling_pairs(doc)
    rng.shuffle(pairs)
    # prefer ranges that start at the very start of their parent's content (the whole head of the left node goes)
    pairs.sort(key=lambda xy: 0 if doc.resolve(xy[0]).parent_offset == 0 else 1)
    return [ReplaceStep(x, y, Slice.empty, False) for x, y in pairs[:k]]


def sibling_gap_steps(rng, g, doc, k):
    """replace-around steps whose gap ends sit at equal depth inside two different siblings (not a flat
    range) while the step is otherwise consistent: ends of the step at the gap's depth, a two-node slice"""
    sc = g.schema
    pairs = _sibling_pairs(doc)
    rng.shuffle(pairs)
    out = []
    ps = boundary_positions(doc)
    for x, y in pairs[:k]:
        rx = doc.resolve(x)
        lo = [p for p in ps if p <= x and doc.resolve(p).depth == rx.depth]
        hi = [p for p in ps if p >= y and doc.resolve(p).depth == rx.depth]
        if not lo or not hi:
            continue
        par = rx.parent
        try:
            kid = (sc.text("X") if par.type.inline_content else None)
            two = Fragment.from_([par.type.create(par.attrs, kid), par.type.create(par.attrs, kid)])
            sl = Slice(two, 1, 1)
            out.append(ReplaceAroundStep(rng.choice(lo[-2:]), rng.choice(hi[:2]), x, y, sl, two.child(0).node_size - 1, False))
        except ValueError:
            continue
    return out


def undeclared_attr_step(rng, doc):
    """malformed stream: attribute steps naming an attribute the node does not declare (outside the
    quantifier of C01/C04; model and code must still agree on what happens)"""
    pn = [(p, nd) for p, nd in all_positions_with_nodes(doc) if not nd.is_text]
    if pn and rng.random() < 0.6:
        p, nd = rng.choice(pn)
        return AttrStep(p, "nosuchattr", 1)
    return DocAttrStep("nosuchattr", 1)


def family_docs(rng, fam, ndocs, maxsize=60):
    g = gen.DocGen(gen.family(fam), rng)
    docs = [g.doc(rng.randint(2, 5)) for _ in range(ndocs)]
    docs = [d for d in docs if d.content.size <= maxsize] or docs[:1]
    return g, docs


def apply_case(fam, doc, st, payload_valid, kind):
    info = info_for(fam)
    ap = Applied(info, doc, st)
    coq = f"CApply @S@ {info.node(doc)} {ap.term()} {b(payload_valid)}"
    return Case(coq=coq, desc={"case": "apply", "family": fam, "doc": doc.to_json(), "payload_valid": payload_valid,
                               "obs": ap.desc(), "kind": kind},
                schema=info.schema_term(), kind=f"{kind}/{type(st).__name__}/{ap.tag[0]}",
                nontrivial=ap.tag[0] == "ok"), ap


def history_case(fam, before, steps, final, kind, ops):
    info = info_for(fam)
    hist, cur = observe_history(info, before, steps)
    coq = f"CHistory @S@ {info.node(before)} {lst(a.term() for a in hist)} {info.node(final)}"
    desc = {"case": "history", "family": fam, "doc": before.to_json(), "ops": ops,
            "steps": [a.desc() for a in hist], "final": final.to_json(), "kind": kind}
    # an operation of the history died with an exception outside TransformError / ReplaceError / ValueError (gen_history
    # records it as "crash: ..."): an internal error of the transform API, reported whatever the recorded steps say
    crashed = [o for o in ops if isinstance(o, (list, tuple)) and len(o) > 2 and str(o[2]).startswith("crash")]
    if crashed:
        desc["impl_failure"] = f"a transform operation of the history raised an internal error ({crashed[0][2]})"[:240]
    return Case(coq=coq, desc=desc, schema=info.schema_term(), kind=kind, nontrivial=len(steps) > 0)


def gen_history(rng, g, doc, docs, nops):
    """a transform history: ops may be rejected half-way (TransformError/ValueError); the recorded state must stay aligned"""
    tr = Transform(doc)
    ops = []
    for _ in range(nops):
        try:
            name, args = do_op(rng, g, tr, docs)
            ops.append([name, args, "ok"])
        except (TransformError, ReplaceError, ValueError) as e:
            ops.append(["?", {}, f"rejected: {type(e).__name__}"])
        except Exception as e:  # noqa: BLE001
            ops.append(["?", {}, f"crash: {type(e).__name__}: {e}"[:120]])
    return tr, ops


def rebuild_apply(desc):
    fam = desc["family"]
    sc = gen.family(fam)
    doc = Node.from_json(sc, desc["doc"])
    st = step_from_desc(sc, desc["obs"]["step"])
    return apply_case(fam, doc, st, desc["payload_valid"], desc.get("kind", "replay"))[0]


def rebuild_history(desc):
    fam = desc["family"]
    sc = gen.family(fam)
    doc = Node.from_json(sc, desc["doc"])
    steps = [step_from_desc(sc, s["step"]) for s in desc["steps"]]
    return history_case(fam, doc, steps, Node.from_json(sc, desc["final"]), desc.get("kind", "replay"), desc.get("ops"))


def marky_doc(rng, g):
    """paragraph-like blocks made of several short text pieces with different mark sets (adjacent links with
    different hrefs, excluded/excluding marks next to each other) — the shapes mark operations coalesce over"""
    sc = g.schema
    blocks = []
    tbs = [t for t in sc.nodes.values() if t.is_textblock and not t.has_required_attrs()]
    theme = rand_mark(rng, sc)          # one mark that recurs across the blocks
    for _ in range(rng.randint(2, 5)):
        t = rng.choice(tbs)
        pieces = []
        for _ in range(rng.randint(1, 4)):
            ms = Mark.none
            if rng.random() < 0.6 and t.allows_mark_type(theme.type):
                ms = theme.add_to_set(ms)
            for _ in range(rng.randint(0, 2)):
                m = rand_mark(rng, sc)
                if t.allows_mark_type(m.type):
                    ms = m.add_to_set(ms)
            pieces.append(sc.text(rng.choice(["ab", "c", "de f", "\U0001F600"]), ms))
        try:
            blocks.append(t.create_checked(g.attrs_for(t), Fragment.from_(pieces)))
        except ValueError:
            continue
    if not blocks:
        return g.doc(3)
    try:
        d = sc.top_node_type.create_and_fill(g.attrs_for(sc.top_node_type), Fragment.from_(blocks))
        if d is None:
            return g.doc(3)
        d.check()
        return d
    except ValueError:
        return g.doc(3)


def excluding_mark(rng, sc, doc):
    """a mark that excludes some mark type present in the document, if there is one"""
    present = set()
    doc.descendants(lambda n, *_: [present.add(m.type.name) for m in n.marks] and None)
    cands = [t for t in sc.marks.values() if any(e.name in present and e.name != t.name for e in t.excluded)]
    if not cands:
        return rand_mark(rng, sc)
    t = rng.choice(cands)
    return t.create({k: "foo" for k, a in t.attrs.items() if not a.has_default} or None)
