"""C16 — a merged step is equivalent to the two steps it replaces."""
from __future__ import annotations

import random

import gen
import steps as S
from common import Case, opt
from prosemirror.model import Fragment, Node, Slice
from prosemirror.transform import AddMarkStep, RemoveMarkStep, ReplaceStep

ID = "C16"
CORR_MODULE = "Corr.C16"
LEVEL = "proof"
SHARD = 100


def merge_case(fam, doc, s1, s2, kind):
    info = S.info_for(fam)
    a = S.Applied(info, doc, s1)
    if a.res_doc is None:
        return None
    bb = S.Applied(info, a.res_doc, s2)
    mres_t = "None"
    mres = None
    try:
        merged = s1.merge(s2)
    except Exception as e:  # noqa: BLE001
        # Step.merge raised (it must answer None for steps it cannot merge): recorded as "no merged step, yet a result"
        merged = None
        mres_t = "(Some (RErr ErrInternal))"
        mres = ["merge-raised", f"{type(e).__name__}: {e}"[:100]]
    if merged is not None and S.positions_ok(merged):
        md, mtag = S.sresult(lambda: merged.apply(doc))
        mres_t = f"(Some {S.sresult_term(info, md, mtag)})"
        mres = list(mtag)
    coq = (f"CMerge @S@ {info.node(doc)} {a.term()} {bb.term()} "
           f"{opt(merged if merged is not None and S.positions_ok(merged) else None, lambda m: S.step_term(info, m))} {mres_t}")
    desc = {"case": "merge", "family": fam, "doc": doc.to_json(), "a": a.desc(), "b": bb.desc(),
            "merged": S.step_desc(merged) if merged is not None else None, "merged_result": mres, "kind": kind}
    return Case(coq=coq, desc=desc, schema=info.schema_term(),
                kind=f"{kind}/{'merged' if merged is not None else 'nomerge'}/{bb.tag[0]}",
                nontrivial=merged is not None and bb.tag[0] == "ok")


def generate(rng: random.Random, tier: str):
    quick = tier == "quick"
    for fam in gen.FAMILY:
        g, docs = S.family_docs(rng, fam, 10 if quick else 120)
        sc = gen.family(fam)
        for doc in docs:
            for _ in range(20 if quick else 80):
                a, c = S.rand_range(rng, doc)
                r = rng.random()
                if r < 0.55:
                    # replace pairs built to be mergeable: closed on the seam
                    sl1 = g.slice_from(rng.choice(docs)) if rng.random() < 0.7 else Slice.empty
                    if rng.random() < 0.5:
                        sl1 = Slice(sl1.content, sl1.open_start, 0) if sl1.open_end and rng.random() < 0.5 else sl1
                    s1 = ReplaceStep(a, c, sl1)
                    ap = S.Applied(S.info_for(fam), doc, s1)
                    if ap.res_doc is None:
                        continue
                    d1 = ap.res_doc
                    sl2 = g.slice_from(rng.choice(docs)) if rng.random() < 0.6 else Slice.empty
                    if rng.random() < 0.3:
                        sl2 = Slice(Fragment.from_(sc.text(rng.choice(["x", "yz", "\U0001F600"]))), 0, 0)
                    if rng.random() < 0.6:
                        f2 = a + sl1.size          # second step starts where the first one's insertion ends
                        if f2 < 0 or f2 > d1.content.size:
                            continue
                        ps = [p for p in S.boundary_positions(d1) if p >= f2]
                        t2 = rng.choice(ps) if ps else f2
                        s2 = ReplaceStep(f2, t2, sl2)
                    else:
                        ps = [p for p in S.boundary_positions(d1) if p <= a]   # second step ends where the first begins
                        f2 = rng.choice(ps) if ps else a
                        s2 = ReplaceStep(f2, a, sl2)
                    cs = merge_case(fam, doc, s1, s2, "replace-pair")
                elif r < 0.7:
                    # typing-like sequences
                    s1 = ReplaceStep(a, a, Slice(Fragment.from_(sc.text("t")), 0, 0))
                    s2 = ReplaceStep(a + 1, a + 1, Slice(Fragment.from_(sc.text(rng.choice(["u", "\U0001F600"]))), 0, 0))
                    cs = merge_case(fam, doc, s1, s2, "typing")
                else:
                    m = S.rand_mark(rng, sc)
                    cls = AddMarkStep if rng.random() < 0.5 else RemoveMarkStep
                    s1 = cls(a, c, m)
                    a2, c2 = S.rand_range(rng, doc)
                    if rng.random() < 0.5:
                        a2 = rng.choice([p for p in S.boundary_positions(doc) if p <= c] or [a])
                        c2 = max(a2, rng.choice(S.boundary_positions(doc)))
                    s2 = cls(a2, c2, m if rng.random() < 0.8 else S.rand_mark(rng, sc))
                    cs = merge_case(fam, doc, s1, s2, "mark-pair")
                if cs:
                    yield cs


    # mark-step pairs over overlapping ranges whose marks have the SAME TYPE but different attributes (links with
    # different hrefs, comments with different ids): these must not merge; and replace pairs whose first slice is
    # open on the left (the seam is measured in inserted tokens, not in content size)
    for fam in ("basic", "blockmarks"):
        g, docs = S.family_docs(rng, fam, 4 if quick else 40)
        sc = gen.family(fam)
        typed = [n for n, mt in sc.marks.items() if mt.attrs]
        for doc in docs:
            ps = S.boundary_positions(doc)
            for _ in range(8 if quick else 30):
                name = rng.choice(typed)
                mt = sc.marks[name]

                def mk(v):
                    return mt.create({an: (v if an != "id" else (1 if v == "foo" else 2)) for an in mt.attrs})
                m1, m2 = mk("foo"), (mk("bar") if rng.random() < 0.7 else mk("foo"))
                a, c = sorted((rng.choice(ps), rng.choice(ps)))
                a2 = rng.choice([p for p in ps if p <= c])
                c2 = rng.choice([p for p in ps if p >= max(a, a2)])
                cls = AddMarkStep if rng.random() < 0.5 else RemoveMarkStep
                cs = merge_case(fam, doc, cls(a, c, m1), cls(a2, c2, m2), "mark-pair-same-type")
                if cs:
                    yield cs
            for _ in range(6 if quick else 25):
                src = rng.choice(docs)
                sps = S.boundary_positions(src)
                inside = [p for p in sps if src.resolve(p).parent.is_textblock]
                if not inside:
                    continue
                x = rng.choice(inside)
                rx = src.resolve(x)
                y = rx.after(rng.randint(1, rx.depth))      # a block boundary behind x: open on the left only
                try:
                    sl1 = src.slice(x, y)
                except ValueError:
                    continue
                if not sl1.open_start or sl1.open_end:
                    continue
                dps = [p for p in S.boundary_positions(doc) if doc.resolve(p).depth >= sl1.open_start
                       and doc.resolve(p).parent.is_textblock]
                if not dps:
                    continue
                a = rng.choice(dps)
                ra = doc.resolve(a)
                c = ra.after(ra.depth - sl1.open_start + 1)
                s1 = ReplaceStep(a, c, sl1)
                ap = S.Applied(S.info_for(fam), doc, s1)
                if ap.res_doc is None:
                    continue
                d1 = ap.res_doc
                for f2 in (a + sl1.size, a + sl1.content.size):
                    if 0 <= f2 <= d1.content.size:
                        t2 = rng.choice([p for p in S.boundary_positions(d1) if p >= f2] or [f2])
                        sl2 = Slice.empty if rng.random() < 0.5 else Slice(Fragment.from_(sc.text("x")), 0, 0)
                        cs = merge_case(fam, doc, s1, ReplaceStep(f2, t2, sl2), "replace-pair-open-left")
                        if cs:
                            yield cs


    # pairs of DIFFERENT step types (appended stream): Step.merge must answer None, never raise
    for fam in ("list", "blockmarks"):
        g, docs = S.family_docs(rng, fam, 4 if quick else 30)
        for doc in docs:
            for _ in range(10 if quick else 30):
                s1 = S.adversarial_step(rng, g, doc, docs)
                s2 = S.adversarial_step(rng, g, doc, docs)
                if type(s1) is type(s2):
                    continue
                cs = merge_case(fam, doc, s1, s2, "mixed-types")
                if cs is not None:
                    yield cs


def rebuild(desc):
    sc = gen.family(desc["family"])
    doc = Node.from_json(sc, desc["doc"])
    return merge_case(desc["family"], doc, S.step_from_desc(sc, desc["a"]["step"]), S.step_from_desc(sc, desc["b"]["step"]),
                      desc.get("kind", "replay"))


def classify(case):
    return None
