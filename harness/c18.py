"""C18 — edits made inside an isolating node never reach outside it."""
from __future__ import annotations

import random

import gen
import ops
import steps as S
from common import Case, b, lst, nat
from prosemirror.model import Fragment, Node, Slice
from prosemirror.transform import Transform, structure
from prosemirror.transform.transform import TransformError

ID = "C18"
CORR_MODULE = "Corr.C18"
LEVEL = "proof"
SHARD = 80

FAMS = ["iso", "table"]


def iso_nodes(doc):
    out = []
    doc.descendants(lambda n, pos, *_: out.append((pos, n)) if n.type.spec.get("isolating") else None)
    return out


def iso_case(rng, fam, g, doc, docs, pos, node):
    info = S.info_for(fam)
    sc = gen.family(fam)
    start, end = pos + 1, pos + 1 + node.content.size
    ps = [p for p in S.boundary_positions(doc) if start <= p <= end]
    a, c = sorted((rng.choice(ps), rng.choice(ps)))
    r0 = rng.random()
    if r0 < 0.2:
        a, c = start, end        # the entire content
    elif r0 < 0.45:
        a = start                # from the very start of the isolating node's content
        inner = [p for p in ps if p > start]
        c = rng.choice(inner) if inner else start
    elif r0 < 0.6:
        c = end
    tr = Transform(doc)
    op = rng.choice(["replace", "delete", "replace_range", "delete_range", "replace_with", "insert",
                     "replace_range_with", "lift", "lift", "lift", "split"])
    sl = g.slice_from(rng.choice(docs))
    other = rng.choice(docs)
    pool = [n for _, n in S.all_positions_with_nodes(other) if not n.is_text] or [sc.nodes["paragraph"].create()]

    def f(t):
        if op == "replace":
            t.replace(a, c, sl)
        elif op == "delete":
            t.delete(a, c)
        elif op == "replace_range":
            t.replace_range(a, c, sl)
        elif op == "delete_range":
            t.delete_range(a, c)
        elif op == "replace_with":
            t.replace_with(a, c, sc.text("w"))
        elif op == "insert":
            t.insert(a, rng.choice(pool))
        elif op == "replace_range_with":
            t.replace_range_with(a, c, rng.choice(pool))
        elif op == "lift":
            ra = doc.resolve(a)
            iso_depth = doc.resolve(start).depth
            if rng.random() < 0.5 and ra.depth > iso_depth:
                # a block range at a chosen ancestor level (list items of a list inside the isolating node,
                # rows of a nested table ...), not only the innermost one around the textblocks
                want = ra.node(rng.randint(iso_depth, ra.depth - 1))
                rg = ra.block_range(doc.resolve(c), lambda n: n is want)
            else:
                rg = ra.block_range(doc.resolve(c))
            # the block range must lie inside the isolating node (a range that IS the node moves it as a whole,
            # which is not an edit inside it)
            if rg is None or rg.depth < doc.resolve(start).depth:
                raise TransformError("range is not inside the isolating node")
            tgt = structure.lift_target(rg)
            if tgt is None:
                raise TransformError("no lift")
            t.lift(rg, tgt)
        elif op == "split":
            d = rng.randint(1, 3)
            if not structure.can_split(doc, a, d):
                raise TransformError("no split")
            t.split(a, d)
    outcome, text = ops.run(tr, f)
    hist_t, hist_d = ops.hist_terms(info, doc, tr)
    coq = (f"CIso @S@ {info.node(doc)} {nat(pos)} {nat(pos + node.node_size - 1)} {b(outcome == 'crash')} "
           f"{hist_t} {info.node(tr.doc)}")
    desc = {"case": "iso", "family": fam, "op": op, "doc": doc.to_json(), "iso_pos": pos, "iso_type": node.type.name,
            "from": a, "to": c, "slice": gen.slice_to_json(sl), "outcome": outcome, "error": text, "steps": hist_d,
            "final": tr.doc.to_json()}
    return Case(coq=coq, desc=desc, schema=info.schema_term(), kind=f"{op}/{outcome}", nontrivial=len(tr.steps) > 0)


def nested(fam, doc):
    """The document's blocks put inside an isolating node that itself sits deep inside containers which could
    hold what the isolating node cannot (list items, rows): list > item > box > blocks, table in a cell of a table."""
    sc = gen.family(fam)
    n = sc.nodes
    try:
        if fam == "iso":
            inner = n["box"].create(None, doc.content)
            d = n["doc"].create(doc.attrs, Fragment.from_(
                n["bullet_list"].create(None, Fragment.from_(
                    n["list_item"].create(None, Fragment.from_([n["paragraph"].create(), inner]))))))
        else:
            cell = n["cell"].create(None, doc.content)
            tbl = n["table"].create(None, Fragment.from_(n["row"].create(None, Fragment.from_(cell))))
            outer_cell = n["cell"].create(None, Fragment.from_([n["paragraph"].create(), tbl]))
            outer_row = n["row"].create(None, Fragment.from_(outer_cell))
            d = n["doc"].create(doc.attrs, Fragment.from_(n["table"].create(None, Fragment.from_(outer_row))))
        d.check()
        return d
    except ValueError:
        return None


def helper_queries(rng, fam, doc, pos, node, cap):
    """lift_target / can_split / delete_range asked at positions INSIDE an isolating node: the implementation's
    answers (for delete_range: the step it records) are compared with Model.StructOps / Model.RangeOps, the
    functions the C18 helper theorems are about"""
    import c11
    import c12
    info = S.info_for(fam)
    start, end = pos + 1, pos + 1 + node.content.size
    ps = [p for p in S.boundary_positions(doc) if start <= p <= end]
    out = []

    def case(qterm, ans, kind, qdesc):
        term, short = ans
        return Case(coq=f"CStruct @S@ {info.node(doc)} {qterm} {term}",
                    desc={"case": "struct", "family": fam, "doc": doc.to_json(), "query": qdesc, "answer": short},
                    schema=info.schema_term(), kind=f"struct:{kind}/{short.split(':')[0] if short.startswith('error') else 'ok'}",
                    nontrivial=True)
    for _ in range(cap):
        a, c = sorted((rng.choice(ps), rng.choice(ps)))
        depth = rng.randint(1, 3)
        out.append(case(f"(QCanSplit {nat(a)} {nat(depth)})",
                        c12._answer(info, lambda: structure.can_split(doc, a, depth), "bool"), "can_split",
                        {"q": "can_split", "pos": a, "depth": depth}))
        ra, rc = doc.resolve(a), doc.resolve(c)
        cands = [ra.block_range(rc)]
        if ra.depth >= 2:
            want = ra.node(rng.randint(1, ra.depth - 1))
            cands.append(ra.block_range(rc, lambda nd, want=want: nd is want))
        for rg in cands:
            if rg is None:
                continue
            f_, t_, dp = rg.from_.pos, rg.to.pos, rg.depth
            out.append(case(f"(QLiftTarget {nat(f_)} {nat(t_)} {nat(dp)})",
                            c12._answer(info, lambda: structure.lift_target(rg), "optnat"), "lift_target",
                            {"q": "lift_target", "from": f_, "to": t_, "depth": dp}))
        out.append(c11.delete_range_case(fam, doc, a, c))
    return out


def generate(rng: random.Random, tier: str):
    quick = tier == "quick"
    for fam in FAMS:
        g, docs = S.family_docs(rng, fam, 40 if quick else 500)
        deep = [nd for nd in (nested(fam, d) for d in docs[:15 if quick else 150] if d.content.size <= 40) if nd is not None]
        docs = docs + deep
        with_iso = [(d, iso_nodes(d)) for d in docs]
        with_iso = [(d, l) for d, l in with_iso if l]
        for doc, l in with_iso:
            for _ in range(20 if quick else 60):
                pos, node = rng.choice(l)
                yield iso_case(rng, fam, g, doc, docs, pos, node)
            pos, node = rng.choice(l)
            yield from helper_queries(rng, fam, doc, pos, node, 2 if quick else 4)


    # can_split with types_after directly inside isolating nodes (appended stream): the isolating test is on the node that
    # is split, not on the type the split-off part is to get (Model.StructOps.can_split_ta, C18_can_split_with_types_...)
    for fam in FAMS:
        g, docs = S.family_docs(rng, fam, 30 if quick else 200)
        sc = gen.family(fam)
        info = S.info_for(fam)
        import c12
        from pm import attrs_term
        blocky = [t for t in sc.nodes.values() if not t.is_text and not t.is_inline and not t.is_leaf and not t.spec.get("isolating")]
        for doc in docs:
            for pos, node in iso_nodes(doc)[:3]:
                inner = [p_ for p_ in S.boundary_positions(doc) if pos + 1 <= p_ <= pos + 1 + node.content.size
                         and doc.resolve(p_).parent is node]
                for p_ in inner[: (5 if quick else 8)]:
                    for _ in range(2):
                        depth = rng.randint(1, 2)
                        ta = [structure.NodeTypeWithAttrs(t_, c12.g_attrs(rng, t_)) for t_ in [rng.choice(blocky) for _ in range(rng.randint(1, depth))]]
                        taterm = lst(f"({info.ty(w.type)}, {attrs_term(w.attrs)})" for w in ta)
                        ans = c12._answer(info, lambda: structure.can_split(doc, p_, depth, ta), "bool")
                        yield Case(coq=f"CStruct @S@ {info.node(doc)} (QCanSplitTA {nat(p_)} {nat(depth)} {taterm}) {ans[0]}",
                                   desc={"case": "struct", "family": fam, "doc": doc.to_json(),
                                         "query": {"q": "can_split_ta", "pos": p_, "depth": depth,
                                                   "types_after": [[w.type.name, w.attrs] for w in ta]}, "answer": ans[1]},
                                   schema=info.schema_term(), kind=f"struct:can_split_ta-in-iso/{ans[1].split(chr(58))[0]}", nontrivial=True)


def rebuild(desc):
    raise NotImplementedError


def classify(case):
    """Known upstream semantics: the fitter (replace / replace_with / insert / replace_range*) places content
    that cannot go inside the isolating node after it, closing the node: the emitted step's range leaves
    the node's content.  Deletions are never excused."""
    d = case.desc
    if d.get("op") not in ("replace", "replace_with", "insert", "replace_range", "replace_range_with"):
        return None
    if d.get("outcome") != "ok" or not d.get("steps"):
        return None
    sc = gen.family(d["family"])
    doc = Node.from_json(sc, d["doc"])
    node = doc.node_at(d["iso_pos"])
    start, end = d["iso_pos"] + 1, d["iso_pos"] + 1 + node.content.size
    st = d["steps"][0]["step"]
    # known upstream semantics: replace_range_with at a cursor position (from == to) at the start/end of its
    # parent moves the insertion to insert_point(...), which climbs out of ancestors without looking at
    # `isolating`; the node is inserted before/after the isolating node, which itself is untouched
    if d.get("op") == "replace_range_with" and d["from"] == d["to"] and len(d["steps"]) == 1 \
            and st.get("type") == "ReplaceStep" and st["from_"] == st["to"] and st["slice"]["content"]:
        from prosemirror.transform import structure as _structure
        try:
            ty = sc.nodes[st["slice"]["content"][0]["type"]]
            point = _structure.insert_point(doc, d["from"], ty)
        except Exception:  # noqa: BLE001
            point = None
        if point is not None and point == st["from_"] and (point < start or point > end):
            fin = Node.from_json(sc, d["final"])
            shift = fin.content.size - doc.content.size if point < start else 0
            try:
                kept = fin.node_at(d["iso_pos"] + shift)
            except ValueError:
                kept = None
            if kept is not None and kept.eq(node):
                return "C18-insert-point-leaves-isolating-node"
    if st.get("from_", start) < start or st.get("to", end) > end:
        # and the isolating node itself must survive with its type and attributes at the same place
        fin = Node.from_json(sc, d["final"])
        try:
            kept = fin.node_at(d["iso_pos"])
        except ValueError:
            return None
        if kept is not None and kept.type.name == node.type.name and kept.attrs == node.attrs:
            return "C18-fitter-closes-isolating-node"
    return None
