"""C19 — HTML import is total and schema-valid; export then import is the identity.

lxml and the parser's state machine are outside the Coq model.  What is tied: (1) every parse result is
judged by the verified validity checker of C07 evaluated in Coq; (2) round trips are compared in Coq;
(3) the context-expression matcher is modelled (coq/Model/DomCtx.v) and compared with the code."""
from __future__ import annotations

import random
import signal

import lxml.html

import gen
from common import Case, b, coq_string, lst, nat
from pm import SchemaInfo, attrs_term, cps, err_class
from prosemirror.model import Fragment, Mark, Node
from prosemirror.model.from_dom import DOMParser, ParseContext, ParseOptions, from_html
from prosemirror.model.to_dom import DocumentFragment, DOMSerializer, Element
from prosemirror.schema.basic import schema as basic_schema
from prosemirror.test_builder import test_schema

ID = "C19"
CORR_MODULE = "Corr.C19"
LEVEL = "exploration"
SHARD = 150

SCHEMAS = {"basic": basic_schema, "list": test_schema}
_INFO = {}


def info_for(name):
    if name not in _INFO:
        _INFO[name] = SchemaInfo(SCHEMAS[name])
    return _INFO[name]


class Hang(Exception):
    pass


_HANGS = [0]


def guarded(f, secs=10):
    # generous limits (a loaded machine must not turn a slow call into an alarm); after a few real hangs the verdict is
    # clear and the remaining calls get a fraction of the time so the run still ends soon
    if _HANGS[0] > 5:
        secs = 0.3

    def on_alarm(_s, _f):
        _HANGS[0] += 1
        raise Hang()
    old = signal.signal(signal.SIGALRM, on_alarm)
    signal.setitimer(signal.ITIMER_REAL, secs)
    try:
        return ("ok", f())
    except Hang:
        return ("err", "Hang")
    except RecursionError:
        return ("err", "RecursionError")
    except Exception as e:  # noqa: BLE001
        return ("err", f"{type(e).__name__}: {e}"[:140])
    finally:
        signal.setitimer(signal.ITIMER_REAL, 0)
        signal.signal(signal.SIGALRM, old)


# ---------------------------------------------------------------- HTML generation
BLOCK = ["p", "h1", "h2", "h3", "blockquote", "ul", "ol", "li", "pre", "div", "hr", "table", "tr", "td", "section"]
INLINE = ["em", "i", "strong", "b", "code", "a", "span", "br", "img", "u"]
IGNORABLE = ["script", "style", "head", "title"]
WORDS = ["a", "bc", "x y", " lead", "trail ", "two  spaces", "\n", "  ", "&amp;", "&lt;b&gt;", "é", "\U0001F600", "q\"q"]


def gen_html(rng, depth):
    r = rng.random()
    if depth == 0 or r < 0.3:
        return rng.choice(WORDS)
    if r < 0.65:
        tag = rng.choice(BLOCK)
    elif r < 0.95:
        tag = rng.choice(INLINE)
    else:
        tag = rng.choice(IGNORABLE)
    attrs = ""
    if tag == "a" and rng.random() < 0.7:
        attrs = ' href="http://x/%s"' % rng.choice(["a", "b&c"])
    if tag == "img" and rng.random() < 0.7:
        attrs = ' src="i.png"' + (' title="t"' if rng.random() < 0.3 else "")
    if tag == "ol" and rng.random() < 0.3:
        attrs = ' start="3"'
    if tag == "span" and rng.random() < 0.7:
        attrs = ' style="%s"' % rng.choice(["font-style:italic", "font-weight: bold; color: red", "font-weight:normal"])
    if tag in ("hr", "br", "img"):
        return f"<{tag}{attrs}>"
    kids = "".join(gen_html(rng, depth - 1) for _ in range(rng.randint(0, 3)))
    return f"<{tag}{attrs}>{kids}</{tag}>"


def parse_case(name, html):
    info = info_for(name)
    sc = SCHEMAS[name]
    r = guarded(lambda: Node.from_json(sc, from_html(sc, html)))
    term = f"(Ok {info.node(r[1])})" if r[0] == "ok" else "(Err ErrInternal)"
    return Case(coq=f"CParse @S@ {term}", desc={"case": "parse", "schema": name, "html": html,
                                                "obs": str(r[1])[:300] if r[0] == "ok" else r[1]},
                schema=info.schema_term(), kind=f"parse/{name}/" + ("ok" if r[0] == "ok" else r[1].split(":")[0]),
                key=("parse", name, html), nontrivial=len(html) > 12)


# ---------------------------------------------------------------- round trips
class RTGen(gen.DocGen):
    """valid documents whose text is whitespace-normal and whose attributes the bundled rules carry"""

    def attrs_for(self, t):
        out = {}
        for name, a in t.attrs.items():
            if name == "level":
                out[name] = self.rng.randint(1, 3)
            elif name == "src":
                out[name] = self.rng.choice(["a.png", "b", "x&amp;y.png", "q?a=1&copy=2", "&#38;lt;"])
            elif name == "title" and t.name == "image" and self.rng.random() < 0.3:
                out[name] = self.rng.choice(["tt", "a &amp; b", "&gt;"])
        return out or None

    def marks_for(self, parent_type):
        rng = self.rng
        if rng.random() < 0.5:
            return Mark.none
        ms = Mark.none
        for _ in range(rng.randint(1, 2)):
            nm = rng.choice(list(self.schema.marks))
            mt = self.schema.marks[nm]
            if not parent_type.allows_mark_type(mt):
                continue
            at = {"href": rng.choice(["h1", "h2&x", "u?a&amp;b", "&lt;&#60;", "&quot;q"])} if nm == "link" else None
            ms = mt.create(at).add_to_set(ms)
        return ms

    def text(self, parent_type):
        rng = self.rng
        if parent_type.spec.get("code"):
            s = rng.choice(["code", "a  b", "x\ny", " lead", "t<&>"])
        else:
            s = rng.choice(["word", "two words", "a", "x<y", "q&\"q", "é\U0001F600", "end."])
        return self.schema.text(s, self.marks_for(parent_type))


def spaced_doc(rng, sc, g):
    """paragraphs made of words and single spaces carrying different mark sets: whitespace-normal text in which
    a space sits between differently marked words (or is itself marked differently)"""
    p = sc.nodes["paragraph"]
    blocks = []
    for _ in range(rng.randint(1, 3)):
        pieces = []
        for i in range(rng.randint(2, 5)):
            if i:
                pieces.append(sc.text(" ", g.marks_for(p)))
            pieces.append(sc.text(rng.choice(["w", "word", "é", "x<y"]), g.marks_for(p)))
        blocks.append(p.create(None, Fragment.from_(pieces)))
    if "code_block" in sc.nodes and rng.random() < 0.5:
        blocks.append(sc.nodes["code_block"].create(None, sc.text(rng.choice(["a  b", " x", "l1\nl2", "t "]))))
    return sc.top_node_type.create(None, Fragment.from_(blocks))


def strip_edges(doc_json):
    """make the document whitespace-normal for the round trip: text at the very start/end of a textblock must
    not begin/end with a space (the parser trims those, like a browser)"""
    return doc_json


def roundtrip_case(name, doc: Node):
    info = info_for(name)
    sc = SCHEMAS[name]
    ser = DOMSerializer.from_schema(sc)
    r = guarded(lambda: str(ser.serialize_fragment(doc.content)))
    serialised_ok = r[0] == "ok"
    escaped_ok = True
    back_t = "(Err ErrInternal)"
    html = None
    back_desc = None
    if serialised_ok:
        html = r[1]
        # escaping: parsing the produced string with lxml must give back exactly the text and attribute values
        try:
            frag = lxml.html.fragment_fromstring(html, create_parent="div")
            want_text = doc.text_between(0, doc.content.size, "")
            got_text = "".join(frag.itertext())
            escaped_ok = want_text == got_text
        except Exception as e:  # noqa: BLE001
            escaped_ok = False
        rb = guarded(lambda: Node.from_json(sc, from_html(sc, html)))
        if rb[0] == "ok":
            back_t = f"(Ok {info.node(rb[1])})"
            back_desc = str(rb[1])[:300]
        else:
            back_desc = rb[1]
    coq = f"CRoundTrip @S@ {info.node(doc)} {b(serialised_ok)} {b(escaped_ok)} {back_t}"
    return Case(coq=coq, desc={"case": "roundtrip", "schema": name, "doc": doc.to_json(), "html": html,
                               "serialise_error": None if serialised_ok else r[1], "escaped_ok": escaped_ok, "back": back_desc},
                schema=info.schema_term(), kind=f"roundtrip/{name}", key=("rt", name, str(doc)))


def serialize_case(name, doc: Node, unrendered):
    """serialize_fragment through renderers that only tag what they render (node / mark registry index): the algorithm
    that decides which wrapper elements stay open is the library's, the per-node rendering is trivial"""
    info = info_for(name)
    sc = SCHEMAS[name]
    reg = []

    def node_r(node):
        reg.append(node)
        k = str(len(reg) - 1)
        return ["l", {"i": k}] if node.is_leaf or node.is_text else ["n", {"i": k}, 0]

    def mark_r(mark, _inline):
        reg.append(mark)
        return ["m", {"i": str(len(reg) - 1)}, 0]
    nodes = {n: node_r for n in sc.nodes}
    marks = {m: mark_r for m in sc.marks if m not in unrendered}
    nonspanning = [m for m, t in sc.marks.items() if t.spec.get("spanning") is False]

    def conv(x):
        if isinstance(x, str):
            raise ValueError("string child")
        o = reg[int(x.attrs["i"])]
        kids = lst(conv(c) for c in x.children)
        if x.name == "m":
            return f"(DMark {info.mark(o)} {kids})"
        if x.name == "n":
            return f"(DElem {info.ty(o.type)} {attrs_term(o.attrs)} {kids})"
        if o.is_text:
            return f"(DText {cps(o.text)})"
        return f"(DLeafN {info.ty(o.type)} {attrs_term(o.attrs)})"
    r = guarded(lambda: DOMSerializer(nodes, marks).serialize_fragment(doc.content))
    if r[0] == "ok":
        try:
            term = f"(Ok {lst(conv(c) for c in r[1].children)})"
        except Exception as e:  # noqa: BLE001
            term = "(Err ErrInternal)"
    else:
        term = "(Err ErrInternal)"
    coq = (f"CSerialize @S@ {lst(nat(info.midx[m]) for m in unrendered)} {lst(nat(info.midx[m]) for m in nonspanning)} "
           f"{info.frag(doc.content)} {term}")
    return Case(coq=coq, desc={"case": "serialize", "schema": name, "doc": doc.to_json(), "unrendered": unrendered,
                               "result": r[1] if r[0] != "ok" else "tree"},
                schema=info.schema_term(), kind=f"serialize/{name}", key=("ser", name, str(doc), tuple(unrendered)))


# ---------------------------------------------------------------- context expressions
def context_case(rng, name, closed_sibling=False):
    info = info_for(name)
    sc = SCHEMAS[name]
    parser = DOMParser.from_schema(sc)
    ctx = ParseContext(parser, ParseOptions(), False)
    # open a random valid nesting
    g = gen.DocGen(sc, rng)
    stack = [sc.top_node_type]
    cur = sc.top_node_type
    for _ in range(rng.randint(0, 4)):
        opts = [e.type for e in cur.content_match.next if not e.type.is_leaf and not e.type.is_text]
        if not opts:
            break
        t = rng.choice(opts)
        ok = guarded(lambda: ctx.enter(t, g.attrs_for(t) if t.has_required_attrs() else None))
        if ok[0] != "ok" or not ok[1]:
            break
        stack.append(t)
        cur = t
    if closed_sibling and ctx.open >= 1:
        # what add_element does after a child element: sync back to an ancestor; the finished child(ren) stay on
        # ctx.nodes above ctx.open until the next enter flushes them - they are NOT open ancestors
        guarded(lambda: ctx.sync(ctx.nodes[ctx.open - rng.randint(1, min(2, ctx.open))]))
    stack = [n.type for n in ctx.nodes[: ctx.open + 1]]
    names = list(sc.nodes) + ["block", "inline", "nosuch"]

    def alt():
        parts = []
        for _ in range(rng.randint(1, 3)):
            r = rng.random()
            if r < 0.2 and parts and parts[-1] != "":
                parts.append("")          # "//"
            else:
                parts.append(rng.choice(names if rng.random() < 0.4 else [t.name for t in stack] + ["block"]))
        return parts + [""]               # contexts end with "/"
    alts = [alt() for _ in range(rng.randint(1, 2))]
    expr = "|".join("/".join(a) for a in alts)
    r = guarded(lambda: bool(ctx.matches_context(expr)), 10)
    term = f"(Ok {b(r[1])})" if r[0] == "ok" else "(Err ErrInternal)"
    coq = (f"CContext @S@ {lst(info.ty(t) for t in stack)} {lst(lst(map(coq_string, a)) for a in alts)} {term}")
    return Case(coq=coq, desc={"case": "context", "schema": name, "stack": [t.name for t in stack], "context": expr,
                               "obs": r[1] if r[0] == "ok" else r[1]},
                schema=info.schema_term(), kind="context/" + ("ok" if r[0] == "ok" else str(r[1]).split(":")[0]),
                key=("ctx", name, tuple(t.name for t in stack), expr))


FIXED_HTML = ["<ul></ul>", "<ol></ol>", "<a>x</a>", "<img>", "<p>a <em>b</em> <strong>c</strong></p>",
              "<pre>a  b\nc</pre>", "<ul><li>a</li><ul><li>b</li></ul></ul>", "<li>loose</li>", "",
              "<p></p>", "<blockquote></blockquote>", "<h1><p>x</p></h1>", "<p><p>x</p></p>", "<table><tr><td>x</td></tr></table>",
              "<em><p>x</p></em>", "<code><strong>x</strong></code>", "<pre><em>x</em></pre>", "<foo>x<bar>y</bar></foo>"]


def generate(rng: random.Random, tier: str):
    quick = tier == "quick"
    for name in SCHEMAS:
        for h in FIXED_HTML:
            yield parse_case(name, h)
        for _ in range(250 if quick else 6000):
            h = "".join(gen_html(rng, rng.randint(1, 4)) for _ in range(rng.randint(1, 3)))
            yield parse_case(name, h)
        g = RTGen(SCHEMAS[name], rng)
        for _ in range(120 if quick else 2500):
            yield roundtrip_case(name, g.doc(rng.randint(2, 4)))
        for _ in range(60 if quick else 1200):
            c = roundtrip_case(name, spaced_doc(rng, SCHEMAS[name], g))
            c.kind = f"roundtrip-spaces/{name}"
            yield c
        for _ in range(120 if quick else 2500):
            yield context_case(rng, name)
    # the serializer's mark nesting (appended stream): serialize_fragment with tagging renderers, the tree of wrappers it
    # built compared with Model.ToDom.ser_fragment (theorem C19_serializer_wraps_each_node_in_its_marks)
    for name in SCHEMAS:
        g = RTGen(SCHEMAS[name], rng)
        for _ in range(40 if quick else 800):
            doc = g.doc(rng.randint(2, 4)) if rng.random() < 0.6 else spaced_doc(rng, SCHEMAS[name], g)
            unrendered = [m for m in SCHEMAS[name].marks if rng.random() < 0.15]
            yield serialize_case(name, doc, unrendered)
    # comments and processing instructions (appended stream): nodes of the DOM that are neither elements nor text
    for name in SCHEMAS:
        fixed = ["<p>a<!-- c -->b</p>", "<!-- x --><p>q</p>", "<p>a</p><!-- t -->tail", "<ul><!-- c --><li>x</li><!-- d --></ul>",
                 "<!-- only -->", "<ol><!-- c --></ol>", "<pre>a<!-- c -->b</pre>", "<p><b>x<!-- c --></b>y</p>", "<?pi x?><p>z</p>",
                 "<ul><li>a</li><!-- between --><ul><li>b</li></ul></ul>", "<table><!-- c --><tr><td>x<!-- d --></td></tr></table>",
                 "<p>a<!-- c --> b</p>", "<h3><head>x<!----></head> lead</h3>", "<p><b>a</b><!-- c -->\n b</p>"]
        for h in fixed:
            yield parse_case(name, h)
        for _ in range(40 if quick else 800):
            h = "".join(gen_html(rng, rng.randint(1, 4)) for _ in range(rng.randint(1, 3)))
            # drop comments at a few tag boundaries
            cuts = [i for i, ch in enumerate(h) if ch == "<"] + [len(h)]
            for i in sorted(rng.sample(cuts, min(len(cuts), rng.randint(1, 3))), reverse=True):
                h = h[:i] + rng.choice(["<!-- c -->", "<!---->", "<!-- <b>x</b> -->"]) + h[i:]
            yield parse_case(name, h)
    # attribute values that are present but falsy (appended stream): an empty href / src / title / alt must survive
    # export and import like any other value
    for name in SCHEMAS:
        sc = SCHEMAS[name]
        if "paragraph" not in sc.nodes:
            continue
        p = sc.nodes["paragraph"]
        for _ in range(12 if quick else 200):
            kids = [sc.text("see ")]
            if "link" in sc.marks and p.allows_mark_type(sc.marks["link"]):
                at = {"href": rng.choice(["", "h"])}
                if "title" in sc.marks["link"].attrs:
                    at["title"] = rng.choice([None, "", "t"])
                kids.append(sc.text("this", [sc.marks["link"].create(at)]))
            if "image" in sc.nodes and sc.nodes["image"].is_inline:
                at = {k: rng.choice(["", "v"]) for k in sc.nodes["image"].attrs}
                if all(v == "v" for v in at.values()):
                    at[rng.choice(list(at))] = ""
                kids.append(sc.nodes["image"].create(at))
            kids.append(sc.text(" end"))
            try:
                doc = sc.top_node_type.create_and_fill(None, Fragment.from_(p.create(None, Fragment.from_(kids))))
                doc.check()
            except Exception:  # noqa: BLE001
                continue
            c = roundtrip_case(name, doc)
            c.kind = f"roundtrip-falsy-attrs/{name}"
            yield c
    # context expressions evaluated right after a child element was closed (appended stream): the closed child still sits
    # on the parser's node stack above `open`, and is not an ancestor (seeded change C19-8 started the walk at the stack's
    # top instead of `open`)
    for name in SCHEMAS:
        for _ in range(60 if quick else 1200):
            c = context_case(rng, name, closed_sibling=True)
            c.kind = "context-after-closed-child/" + c.kind.split("/", 1)[1]
            yield c


def rebuild(desc):
    if desc.get("case") == "parse":
        return parse_case(desc["schema"], desc["html"])
    if desc.get("case") == "roundtrip":
        return roundtrip_case(desc["schema"], Node.from_json(SCHEMAS[desc["schema"]], desc["doc"]))
    raise NotImplementedError


def classify(case):
    return None
