"""C03 — a step's position map describes exactly what the step did."""
from __future__ import annotations

import random

import gen
import steps as S
from prosemirror.transform import Transform

ID = "C03"
CORR_MODULE = "Corr.C03"
LEVEL = "proof"
SHARD = 120


def generate(rng: random.Random, tier: str):
    quick = tier == "quick"
    for fam in gen.FAMILY:
        g, docs = S.family_docs(rng, fam, 10 if quick else 120)
        for doc in docs:
            for _ in range(3 if quick else 10):
                tr, ops = S.gen_history(rng, g, doc, docs, rng.randint(1, 4))
                if tr.steps:
                    yield S.history_case(fam, tr.before, tr.steps, tr.doc, "transform-history", ops)
            for _ in range(8 if quick else 40):
                st = S.adversarial_step(rng, g, doc, docs)
                yield S.apply_case(fam, doc, st, True, "primitive")[0]
            for st in S.node_level_steps(rng, doc, gen.family(fam), 4 if quick else 8):
                yield S.apply_case(fam, doc, st, True, "node-level")[0]
            for st in S.join_deletion_steps(rng, doc, 4 if quick else 12) + S.sibling_gap_steps(rng, g, doc, 3 if quick else 8):
                yield S.apply_case(fam, doc, st, True, "joins")[0]


    # replace-around steps no high-level operation records but a peer may send: the insertion point lies strictly
    # INSIDE a text node of the slice (closed text slice around an inline gap; an open textblock slice with the
    # insertion point in its text)
    from prosemirror.model import Fragment, Slice
    from prosemirror.transform import ReplaceAroundStep
    for fam in ("basic", "list"):
        g, docs = S.family_docs(rng, fam, 5 if quick else 50)
        sc = gen.family(fam)
        for doc in docs:
            tbs = []
            doc.descendants(lambda nd, pos, *_: tbs.append((pos, nd)) if nd.is_textblock and nd.content.size >= 1 else None)
            for pos, nd in tbs[: (3 if quick else 8)]:
                start = pos + 1
                ps = [p for p in S.boundary_positions(doc) if start <= p <= start + nd.content.size]
                a, c = sorted((rng.choice(ps), rng.choice(ps)))
                text = rng.choice(["XY", "XYZ", "\U0001F600X"])
                ins = rng.randint(1, len(text) - 1) if text[0] != "\U0001F600" else 2
                yield S.apply_case(fam, doc, ReplaceAroundStep(a, c, a, c, Slice(Fragment.from_(sc.text(text)), 0, 0), ins),
                                   True, "insert-inside-text")[0]
                # the whole textblock as the gap's parent: slice <p("XY")>(1,1), insertion point inside its text
                ga, gc = start, start + nd.content.size
                sl = Slice(Fragment.from_(sc.nodes["paragraph"].create(None, [sc.text(text)])), 1, 1)
                yield S.apply_case(fam, doc, ReplaceAroundStep(ga, gc, ga, gc, sl, ins), True, "insert-inside-text")[0]


def rebuild(desc):
    return S.rebuild_history(desc) if desc.get("case") == "history" else S.rebuild_apply(desc)


def _empty_gap(sd):
    return sd["type"] == "ReplaceAroundStep" and sd["gap_from"] == sd["gap_to"]


def classify(case):
    """Known upstream semantics: with an empty gap the two ranges of a replace-around map touch, and
    StepMap._map resolves a position on the shared boundary through the first range only."""
    d = case.desc
    if d.get("case") == "apply":
        return "C03-replace-around-empty-gap" if _empty_gap(d["obs"]["step"]) and d["obs"]["result"][0] == "ok" else None
    if d.get("case") == "history":
        if any(_empty_gap(s["step"]) for s in d["steps"]):
            # only if every other step of the history is faithful on its own: re-check those individually
            return "C03-replace-around-empty-gap" if _others_ok(d) else None
    return None


def _others_ok(d):
    """re-evaluate the non-empty-gap steps of the history one by one (through Coq) — the finding may only
    excuse the empty-gap step itself"""
    import common
    from prosemirror.model import Node
    sc = gen.family(d["family"])
    cur = Node.from_json(sc, d["doc"])
    cases = []
    for s in d["steps"]:
        st = S.step_from_desc(sc, s["step"])
        c, ap = S.apply_case(d["family"], cur, st, True, "recheck")
        if not _empty_gap(s["step"]):
            cases.append(c)
        if ap.res_doc is None:
            break
        cur = ap.res_doc
    if not cases:
        return True
    r = common.run_cases(ID, CORR_MODULE, cases, tag="classify")
    return not r.prop_fail and not r.coq_errors
