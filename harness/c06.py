"""C06 — a content expression and its compiled matcher accept exactly the same sequences.

Every case is one content expression.  The expression is generated as a syntax tree, rendered to the
string the schema is given, and (independently of the library's parser) to a regular expression over
node types.  Coq then evaluates the verified certificate checker (Spec/Regex.v: equiv_check, proved
sound in check_bisim_sound / check_bisim_prefix) against the automaton the implementation compiled —
which decides the statement for ALL child sequences of that expression."""
from __future__ import annotations

import itertools
import random

from common import Case, b, lst, nat
from pm import SchemaInfo
from prosemirror.model import Schema

ID = "C06"
CORR_MODULE = "Corr.C06"
LEVEL = "proof"
SHARD = 120

# ---- expression syntax trees: ("name", n) | ("seq", [..]) | ("alt", [..]) | ("rep", e, min, max|None) with
#      the surface operator recorded: ("op", e, "+"|"*"|"?") or ("range", e, lo, hi|-1|None)

BLOCK_NODES = {
    "doc": None,  # content filled in per case
    "a": {"group": "g"},
    "b": {"group": "g h"},
    "c": {},
    "r": {"attrs": {"x": {}}},          # required attribute: not generatable
    "text": {"group": "inline"},
    "i": {"inline": True, "group": "inline"},
}
NAMES = list(BLOCK_NODES)
IDX = {n: k for k, n in enumerate(NAMES)}
GROUPS = {"g": ["a", "b"], "h": ["b"], "inline": ["text", "i"]}
GENERATABLE = [IDX[n] for n in ("doc", "a", "b", "c", "i")]   # not text, no required attrs


def render(e, top=True):
    k = e[0]
    if k == "name":
        return e[1]
    if k == "seq":
        s = " ".join(render(x, False) for x in e[1])
        return s if top else f"({s})"
    if k == "alt":
        s = " | ".join(render(x, False) for x in e[1])
        return s if top else f"({s})"
    if k == "op":
        return render(e[1], False) + e[2]
    if k == "range":
        lo, hi = e[2], e[3]
        body = render(e[1], False)
        if hi is None:
            return f"{body}{{{lo}}}"
        if hi == -1:
            return f"{body}{{{lo},}}"
        return f"{body}{{{lo}, {hi}}}"
    raise ValueError(e)


def alt_of(items):
    r = items[-1]
    for x in reversed(items[:-1]):
        r = f"(RAlt {x} {r})"
    return r


def seq_of(items):
    if not items:
        return "REps"
    r = items[-1]
    for x in reversed(items[:-1]):
        r = f"(RSeq {x} {r})"
    return r


def to_re(e):
    k = e[0]
    if k == "name":
        n = e[1]
        if n in GROUPS:
            return alt_of([f"(RSym {nat(IDX[m])})" for m in GROUPS[n]])
        return f"(RSym {nat(IDX[n])})"
    if k == "seq":
        return seq_of([to_re(x) for x in e[1]])
    if k == "alt":
        return alt_of([to_re(x) for x in e[1]])
    if k == "op":
        r = to_re(e[1])
        if e[2] == "*":
            return f"(RStar {r})"
        if e[2] == "+":
            return f"(RSeq {r} (RStar {r}))"
        return f"(RAlt REps {r})"
    if k == "range":
        r = to_re(e[1])
        lo, hi = e[2], e[3]
        parts = [r] * lo
        if hi is None:
            pass
        elif hi == -1:
            parts.append(f"(RStar {r})")
        else:
            parts += [f"(RAlt REps {r})"] * (hi - lo)
        return seq_of(parts)
    raise ValueError(e)


def is_inline_expr(e):
    k = e[0]
    if k == "name":
        return e[1] in ("text", "i", "inline")
    if k in ("seq", "alt"):
        return is_inline_expr(e[1][0])
    return is_inline_expr(e[1])


UNARY = [("op", "+"), ("op", "*"), ("op", "?"), ("range", 0, None), ("range", 1, None), ("range", 2, None),
         ("range", 0, -1), ("range", 1, -1), ("range", 2, -1), ("range", 0, 1), ("range", 1, 2), ("range", 0, 2),
         ("range", 2, 3)]


def apply_unary(u, e):
    return ("op", e, u[1]) if u[0] == "op" else ("range", e, u[1], u[2])


_ENUM: dict = {}


def enum(size, atoms):
    """all syntax trees with exactly `size` nodes over the given atoms"""
    key = (size, tuple(atoms))
    if key in _ENUM:
        return _ENUM[key]
    out = []
    if size == 1:
        out = [("name", a) for a in atoms]
    else:
        for e in enum(size - 1, atoms):
            for u in UNARY:
                out.append(apply_unary(u, e))
        for k in range(1, size - 1):
            for l in enum(k, atoms):
                for r in enum(size - 1 - k, atoms):
                    out.append(("seq", [l, r]))
                    out.append(("alt", [l, r]))
    _ENUM[key] = out
    return out


def rand_expr(rng, depth, atoms):
    if depth == 0 or rng.random() < 0.25:
        return ("name", rng.choice(atoms))
    r = rng.random()
    if r < 0.4:
        return apply_unary(rng.choice(UNARY), rand_expr(rng, depth - 1, atoms))
    k = rng.randint(2, 3)
    return ("seq" if r < 0.7 else "alt", [rand_expr(rng, depth - 1, atoms) for _ in range(k)])


def build(expr_str):
    nodes = {k: (dict(v) if v is not None else {}) for k, v in BLOCK_NODES.items()}
    nodes["doc"] = {"content": expr_str}
    return Schema({"nodes": nodes, "marks": {}})


def expr_case(e, kind):
    s = render(e)
    re_term = to_re(e)
    try:
        sc = build(s)
    except RecursionError as ex:
        return Case(coq="CReject false true", desc={"expr": s, "re": re_term, "error": "RecursionError", "kind": kind},
                    kind=kind + "/REJECTED-RecursionError")
    except Exception as ex:  # noqa: BLE001
        # rejected: legitimate only for the dead-end rule
        coq = f"CDeadEnd {nat(len(NAMES))} {lst(map(nat, GENERATABLE))} {re_term} true"
        return Case(coq=coq, desc={"expr": s, "re": re_term, "rejected": f"{type(ex).__name__}: {ex}"[:160], "kind": kind},
                    kind=kind + "/rejected")
    info = SchemaInfo(sc)
    cases = Case(coq=f"CExpr @S@ {nat(IDX['doc'])} {re_term}", desc={"expr": s, "re": re_term, "kind": kind},
                 schema=info.schema_term(), kind=kind + "/compiled", key=s)
    return cases


def deadend_ok_case(e, kind):
    """an accepted expression must also pass the dead-end rule on the expression itself"""
    s = render(e)
    return Case(coq=f"CDeadEnd {nat(len(NAMES))} {lst(map(nat, GENERATABLE))} {to_re(e)} false",
                desc={"expr": s, "re": to_re(e), "kind": kind, "accepted": True}, kind=kind + "/accepted-deadend", key=("de", s))


MALFORMED = [
    ("zzz", True), ("a zzz", True), ("(a", True), ("a)", True), ("a{2", True), ("a{", True), ("a{x}", True),
    ("a | ", True), ("| a", True), ("a text", True), ("text a", True), ("inline a", True), ("(a | text)", True),
    ("a++", False), ("a{2}{2}", False), ("(a)", False), ("((a b))", False), ("g", False), ("h g", False),
    ("a{2,}", False), ("()", True), ("a b |", True), ("{2}", True), ("+", True),
    ("r", True), ("r a", True), ("a r", True), ("r*", False), ("r* a", False), ("(a | r)", False), ("(r | a) r", True),
    ("text*", False), ("i+", False), ("inline*", False), ("(text | i)*", False),
]


def reject_case(s, expected):
    try:
        build(s)
        observed = False
    except Exception:  # noqa: BLE001
        observed = True
    return Case(coq=f"CReject {b(expected)} {b(observed)}", desc={"expr": s, "expected_rejected": expected,
                                                                   "observed_rejected": observed},
                kind="malformed" if expected else "wellformed-edge", key=("rej", s), nontrivial=True)


def generate(rng: random.Random, tier: str):
    quick = tier == "quick"
    atoms = ["a", "b", "g"]
    # exhaustive up to a syntax-tree size bound
    bound = 3 if quick else 4
    for size in range(1, bound + 1):
        for e in enum(size, atoms):
            c = expr_case(e, f"exhaustive-size{size}")
            yield c
            if c.kind.endswith("/compiled") and (size <= 2 or not quick):
                yield deadend_ok_case(e, f"exhaustive-size{size}")
    # non-generatable types in the alphabet: dead-end rule both ways
    for size in range(1, 3 if quick else 4):
        for e in enum(size, ["a", "r"]):
            c = expr_case(e, f"deadend-size{size}")
            yield c
            if c.kind.endswith("/compiled"):
                yield deadend_ok_case(e, f"deadend-size{size}")
    # dead ends behind valid-end states, loops and ranges over a non-generatable type
    for _ in range(200 if quick else 3000):
        e = rand_expr(rng, rng.randint(1, 3), rng.choice([["a", "r"], ["r", "c", "a"], ["text", "i"], ["text", "i", "text"]]))
        c = expr_case(e, "deadend-random")
        yield c
        if c.kind.endswith("/compiled"):
            yield deadend_ok_case(e, "deadend-random")
    # inline alphabet
    for size in range(1, 3 if quick else 4):
        for e in enum(size, ["text", "i"]):
            yield expr_case(e, f"inline-size{size}")
    # random larger expressions: nested ranges / stars / choices of optionals
    for _ in range(250 if quick else 10000):
        e = rand_expr(rng, rng.randint(2, 4), rng.choice([["a", "b", "c"], ["a", "b", "g", "h"], ["a", "c", "r"]]))
        yield expr_case(e, "random")
    for s, expected in MALFORMED:
        yield reject_case(s, expected)
    # big automata (appended stream): a nullable prefix followed by long sequences / large counts, so that the NFA has well
    # over ten nodes and the subset construction has to tell state sets like {1,2} and {12} apart
    for _ in range(60 if quick else 1500):
        # the counted parts use symbols the nullable prefix cannot produce: otherwise the DFA has to remember the last
        # dozen symbols and explodes (tens of thousands of states; compile time and recursion depth grow with it)
        atoms = rng.choice([["a", "b"], ["a", "b", "c"], ["c", "a", "b"]])
        pre = rng.choice([("op", ("name", atoms[0]), "*"), ("op", ("name", atoms[0]), "?")])
        rest = atoms[1:]
        parts = [pre]
        for _ in range(rng.randint(1, 3)):
            r = rng.random()
            a = ("name", rng.choice(rest))
            if r < 0.4:
                n = rng.randint(4, 12)
                parts.append(("range", a, n, None))
            elif r < 0.6:
                n = rng.randint(3, 9)
                parts.append(("range", a, n, n + rng.randint(1, 3)))
            elif r < 0.75:
                parts.append(("range", a, rng.randint(3, 8), -1))
            else:
                parts.extend(("name", rng.choice(rest)) for _ in range(rng.randint(4, 10)))
        yield expr_case(("seq", parts), "big-automaton")


def rebuild(desc):
    raise NotImplementedError


def classify(case):
    return None
