"""Shared pieces for C11 / C12 / C18: running a high-level transform operation on the implementation and
printing the observed outcome."""
from __future__ import annotations

import random

import gen
import steps as S
from common import Case, b, lst, nat
from prosemirror.model import Fragment, Node, ReplaceError, Slice
from prosemirror.transform import Transform
from prosemirror.transform.transform import TransformError


def run(tr: Transform, f):
    """returns (outcome, text): outcome in ok | rejected (TransformError/ReplaceError family) | crash"""
    try:
        f(tr)
        return "ok", ""
    except (TransformError, ReplaceError) as e:
        return "rejected", f"{type(e).__name__}: {e}"[:160]
    except Exception as e:  # noqa: BLE001
        return "crash", f"{type(e).__name__}: {e}"[:160]


def hist_terms(info, doc, tr):
    hist, cur = S.observe_history(info, doc, tr.steps)
    return lst(a.term() for a in hist), [a.desc() for a in hist]
