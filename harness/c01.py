"""C01 — applying a step never yields a schema-invalid document."""
from __future__ import annotations

import json
import random

import gen
import steps as S
from prosemirror.model import Node
from prosemirror.transform import ReplaceAroundStep, Step, Transform

ID = "C01"
CORR_MODULE = "Corr.C01"
LEVEL = "proof"
SHARD = 120


def generate(rng: random.Random, tier: str):
    quick = tier == "quick"
    for fam in gen.FAMILY:
        g, docs = S.family_docs(rng, fam, 10 if quick else 120)
        sc = gen.family(fam)
        for doc in docs:
            # adversarial primitive steps: plausible but possibly wrong for this document
            for _ in range(14 if quick else 60):
                st = S.adversarial_step(rng, g, doc, docs)
                c, ap = S.apply_case(fam, doc, st, True, "adversarial")
                yield c
                # the same step after a real JSON round trip, as a peer would send it
                if rng.random() < 0.3:
                    try:
                        st2 = Step.from_json(sc, json.loads(json.dumps(st.to_json())))
                    except Exception:  # noqa: BLE001
                        continue
                    yield S.apply_case(fam, doc, st2, True, "adversarial-json")[0]
            for st in S.node_level_steps(rng, doc, sc, 4 if quick else 8):
                yield S.apply_case(fam, doc, st, True, "node-level")[0]
            for st in S.join_deletion_steps(rng, doc, 4 if quick else 12) + S.sibling_gap_steps(rng, g, doc, 3 if quick else 8):
                yield S.apply_case(fam, doc, st, True, "joins")[0]
            # steps emitted by the transform API, each re-applied as a primitive step
            tr, ops = S.gen_history(rng, g, doc, docs, 3 if quick else 6)
            if tr.steps:
                yield S.history_case(fam, tr.before, tr.steps, tr.doc, "transform-history", ops)


def rebuild(desc):
    if desc.get("case") == "history":
        return S.rebuild_history(desc)
    return S.rebuild_apply(desc)


def _closed_wrapper(doc, st):
    """does the replace-around step [st] put its gap content into a CLOSED node of its slice that cannot hold it?"""
    try:
        gap = doc.slice(st.gap_from, st.gap_to)
        inserted = st.slice.insert_at(st.insert, gap.content)
    except Exception:  # noqa: BLE001
        return False
    if inserted is None:
        return False
    # is there an invalid node in the inserted slice that is not on its open sides?
    def closed_invalid(frag, open_l, open_r):
        n = frag.child_count
        for i in range(n):
            ch = frag.child(i)
            ol = open_l if i == 0 else 0
            orr = open_r if i == n - 1 else 0
            if ol == 0 and orr == 0:
                try:
                    ch.check()
                except ValueError:
                    return True
            elif closed_invalid(ch.content, max(ol - 1, 0), max(orr - 1, 0)):
                return True
        return False
    return closed_invalid(inserted.content, inserted.open_start, inserted.open_end)


def _valid(doc):
    try:
        doc.check()
        return True
    except ValueError:
        return False


def classify(case):
    """Known upstream limitation: a replace-around step whose insertion point lies inside a CLOSED node of
    its slice puts the gap content there without validating that node (insert_into drops `parent`).
    In a recorded history the finding is the FIRST step that turns a valid document into an invalid one
    (everything after it starts from an invalid document, outside the property's quantifier)."""
    d = case.desc
    sc = gen.family(d["family"])
    doc = Node.from_json(sc, d["doc"])
    if d.get("case") == "history":
        for sd in d["steps"]:
            st = S.step_from_desc(sc, sd["step"])
            if not _valid(doc):
                return None
            try:
                r = st.apply(doc)
            except Exception:  # noqa: BLE001
                return None
            if r.doc is None:
                continue
            if not _valid(r.doc):
                if sd["step"]["type"] == "ReplaceAroundStep" and _closed_wrapper(doc, st):
                    return "C01-replace-around-closed-wrapper"
                return None
            doc = r.doc
        return None
    if d.get("case") != "apply":
        return None
    sd = d["obs"]["step"]
    if sd["type"] != "ReplaceAroundStep" or d["obs"]["result"][0] != "ok":
        return None
    st = S.step_from_desc(sc, sd)
    if not _closed_wrapper(doc, st):
        return None
    return "C01-replace-around-closed-wrapper"
