"""C01 — applying a step never yields a schema-invalid document."""
from __future__ import annotations

import json
import random

import gen
import steps as S
from prosemirror.model import Node
from prosemirror.transform import ReplaceAroundStep, Step, Transform

ID = "C01"
CORR_MODULE = "Corr.C01"
LEVEL = "proof"
SHARD = 120


def generate(rng: random.Random, tier: str):
    quick = tier == "quick"
    for fam in gen.FAMILY:
        g, docs = S.family_docs(rng, fam, 10 if quick else 120)
        sc = gen.family(fam)
        for doc in docs:
            # adversarial primitive steps: plausible but possibly wrong for this document
            for _ in range(14 if quick else 60):
                st = S.adversarial_step(rng, g, doc, docs)
                c, ap = S.apply_case(fam, doc, st, True, "adversarial")
                yield c
                # the same step after a real JSON round trip, as a peer would send it
                if rng.random() < 0.3:
                    try:
                        st2 = Step.from_json(sc, json.loads(json.dumps(st.to_json())))
                    except Exception:  # noqa: BLE001
                        continue
                    yield S.apply_case(fam, doc, st2, True, "adversarial-json")[0]
            for st in S.node_level_steps(rng, doc, sc, 4 if quick else 8):
                yield S.apply_case(fam, doc, st, True, "node-level")[0]
            for st in S.join_deletion_steps(rng, doc, 4 if quick else 12) + S.sibling_gap_steps(rng, g, doc, 3 if quick else 8):
                yield S.apply_case(fam, doc, st, True, "joins")[0]
            # steps emitted by the transform API, each re-applied as a primitive step
            tr, ops = S.gen_history(rng, g, doc, docs, 3 if quick else 6)
            if tr.steps:
                yield S.history_case(fam, tr.before, tr.steps, tr.doc, "transform-history", ops)


    # mark steps over textblocks whose content expression counts inline children (family "counted")
    yield from counted_cases(rng, 6 if quick else 60)
    # steps as an untrusted peer may send them: slices that claim to be more open than their content is deep
    yield from overopen_cases(rng, 30 if quick else 400)
    # ... and steps whose range ends before it starts (from > to)
    yield from reversed_range_cases(rng, 40 if quick else 400)
    # ... and empty slices that claim open sides, at positions whose depths are consistent with the claim
    yield from empty_open_cases(rng, 160 if quick else 1200)
    # ... and steps decoded from JSON whose slice carries NEGATIVE open depths (appended stream): decoding or applying may
    # refuse (ValueError family), nothing may die with an internal error (used to: IndexError inside Node.replace)
    yield from negative_open_json_cases(rng, 12 if quick else 150)


def counted_cases(rng, n):
    from prosemirror.transform import AddMarkStep, RemoveMarkStep
    fam = "counted"
    sc = gen.family(fam)
    marks = [sc.mark("em"), sc.mark("strong"), sc.mark("code")]
    for _ in range(n):
        blocks = []
        for _ in range(rng.randint(1, 3)):
            if rng.random() < 0.7:
                kids = []
                for _ in range(2):
                    if rng.random() < 0.8:
                        ms = [m for m in marks if rng.random() < 0.4]
                        kids.append(sc.text(rng.choice(["a", "bc", "\U0001F600"]), ms))
                    else:
                        kids.append(sc.nodes["hard_break"].create())
                # two adjacent text nodes with the same marks would be merged by the constructor: keep them apart
                if all(k.is_text for k in kids) and Mark_same(kids[0].marks, kids[1].marks):
                    kids[1] = sc.nodes["hard_break"].create()
                blocks.append(sc.nodes["pair"].create(None, kids))
            else:
                blocks.append(sc.nodes["paragraph"].create(None, [sc.text("p")]))
        doc = sc.nodes["doc"].create(None, blocks)
        try:
            doc.check()
        except ValueError:
            continue
        size = doc.content.size
        for _ in range(4):
            a, c = sorted((rng.randint(0, size), rng.randint(0, size)))
            if rng.random() < 0.5:
                a, c = 0, size
            m = rng.choice(marks)
            st = AddMarkStep(a, c, m) if rng.random() < 0.5 else RemoveMarkStep(a, c, m)
            yield S.apply_case(fam, doc, st, True, "counted-inline")[0]


def overopen_cases(rng, n):
    """ReplaceStep / ReplaceAroundStep whose slice has open depths its content does not have (open into a leaf, into
    text, deeper than the nesting): decoded from JSON without validation, they must be refused, not crash"""
    from prosemirror.model import Fragment, Slice
    from prosemirror.transform import ReplaceStep
    for fam in ("list", "blockmarks"):
        g, docs = S.family_docs(rng, fam, 6)
        sc = gen.family(fam)
        for _ in range(n // 2):
            doc = rng.choice(docs)
            src = rng.choice(docs)
            kids = [rng.choice(src.content.content)] if src.child_count else []
            r = rng.random()
            if r < 0.2:
                kids = [sc.text("t")]
            elif r < 0.4 and "horizontal_rule" in sc.nodes:
                kids = [sc.nodes["horizontal_rule"].create()]
            elif r < 0.5:
                kids = [sc.nodes["paragraph"].create()]
            elif r < 0.6 and src.child_count > 1:
                kids = list(src.content.content[:2])
            fr = Fragment.from_(kids)
            os_, oe = rng.randint(0, 4), rng.randint(0, 4)
            if os_ + oe > fr.size:          # keep Slice.size >= 0 (a negative size is outside the modelled domain)
                os_ = min(os_, fr.size)
                oe = min(oe, fr.size - os_)
            sl = Slice(fr, os_, oe)
            size = doc.content.size
            a = rng.randint(0, size)
            c = rng.randint(a, min(size, a + rng.randint(0, 8)))
            if rng.random() < 0.7:
                # positions whose depths are consistent with the claimed open depths, so that the slice gets past the
                # depth checks of Node.replace and its real shape matters
                ps = S.boundary_positions(doc)
                deep = [p for p in ps if doc.resolve(p).depth >= os_]
                if deep:
                    a = rng.choice(deep)
                    want = doc.resolve(a).depth - os_ + oe
                    cs_ = [p for p in ps if p >= a and doc.resolve(p).depth == want]
                    if cs_:
                        c = rng.choice(cs_[:6])
            st = ReplaceStep(a, c, sl)
            try:
                st = Step.from_json(sc, json.loads(json.dumps(st.to_json())))
            except Exception:  # noqa: BLE001
                continue
            yield S.apply_case(fam, doc, st, True, "overopen-slice")[0]


def reversed_range_cases(rng, n):
    """mark, replace and replace-around steps with from > to, as a peer may send them: they must be refused"""
    from prosemirror.model import Fragment, Slice
    from prosemirror.transform import AddMarkStep, RemoveMarkStep, ReplaceStep
    for fam in ("list", "blockmarks"):
        g, docs = S.family_docs(rng, fam, 6)
        sc = gen.family(fam)
        for _ in range(n // 2):
            doc = rng.choice(docs)
            ps = S.boundary_positions(doc)
            a, c = sorted((rng.choice(ps), rng.choice(ps)))
            if a == c:
                continue
            r = rng.random()
            if r < 0.4:
                st = AddMarkStep(c, a, S.rand_mark(rng, sc))
            elif r < 0.7:
                st = RemoveMarkStep(c, a, S.rand_mark(rng, sc))
            else:
                ra, rc = doc.resolve(a), doc.resolve(c)
                # open depths that make the depth checks of Node.replace pass for the reversed pair
                d = min(ra.depth, rc.depth)
                sl = Slice(Fragment.empty, rc.depth - d, ra.depth - d) if rng.random() < 0.7 else Slice.empty
                st = ReplaceStep(c, a, sl)
            try:
                st = Step.from_json(sc, json.loads(json.dumps(st.to_json())))
            except Exception:  # noqa: BLE001
                continue
            yield S.apply_case(fam, doc, st, True, "reversed-range")[0]


def empty_open_cases(rng, n):
    from prosemirror.model import Fragment, Slice
    from prosemirror.transform import ReplaceStep
    for fam in ("list", "table"):
        g, docs = S.family_docs(rng, fam, 6)
        sc = gen.family(fam)
        for _ in range(n // 2):
            doc = rng.choice(docs)
            ps = S.boundary_positions(doc)
            a, c = sorted((rng.choice(ps), rng.choice(ps)))
            ra, rc = doc.resolve(a), doc.resolve(c)
            os_ = rng.randint(0, ra.depth)
            oe = rc.depth - (ra.depth - os_)
            if oe < 0 or (os_ == 0 and oe == 0):
                continue
            # built directly: Slice.to_json drops the open depths of an empty slice, so JSON cannot carry this shape
            st = ReplaceStep(a, c, Slice(Fragment.empty, os_, oe))
            yield S.apply_case(fam, doc, st, True, "empty-open-slice")[0]


def negative_open_json_cases(rng, n):
    from prosemirror.model import Slice
    from prosemirror.transform import ReplaceStep, Step
    for fam in ("list", "table"):
        g, docs = S.family_docs(rng, fam, 4)
        sc = gen.family(fam)
        for _ in range(n // 2):
            doc = rng.choice(docs)
            ps = S.boundary_positions(doc)
            a, c = sorted((rng.choice(ps), rng.choice(ps)))
            sl = g.slice_from(rng.choice(docs))
            base = ReplaceStep(a, c, Slice.empty)      # the recorded model case: the plain deletion of the same range
            j = ReplaceStep(a, c, Slice(sl.content, 0, 0)).to_json()
            j["slice"] = dict(j.get("slice") or {"content": []}, openStart=rng.choice([-1, -1, -2, 0]), openEnd=rng.choice([-1, -2]))
            case = S.apply_case(fam, doc, base, True, "negative-open-json")[0]
            case.desc["negative_open_json"] = j
            try:
                Step.from_json(sc, j).apply(doc)
            except ValueError:
                pass
            except Exception as e:  # noqa: BLE001
                case.desc["impl_failure"] = f"Step.from_json({j!r}).apply(doc) raised {type(e).__name__}: {e}"[:300]
            yield case


def Mark_same(a, b):
    from prosemirror.model import Mark
    return Mark.same_set(a, b)


def rebuild(desc):
    if desc.get("case") == "history":
        return S.rebuild_history(desc)
    return S.rebuild_apply(desc)


def _closed_wrapper(doc, st):
    """does the replace-around step [st] put its gap content into a CLOSED node of its slice that cannot hold it?"""
    try:
        gap = doc.slice(st.gap_from, st.gap_to)
        inserted = st.slice.insert_at(st.insert, gap.content)
    except Exception:  # noqa: BLE001
        return False
    if inserted is None:
        return False
    # is there an invalid node in the inserted slice that is not on its open sides?
    def closed_invalid(frag, open_l, open_r):
        n = frag.child_count
        for i in range(n):
            ch = frag.child(i)
            ol = open_l if i == 0 else 0
            orr = open_r if i == n - 1 else 0
            if ol == 0 and orr == 0:
                try:
                    ch.check()
                except ValueError:
                    return True
            elif closed_invalid(ch.content, max(ol - 1, 0), max(orr - 1, 0)):
                return True
        return False
    return closed_invalid(inserted.content, inserted.open_start, inserted.open_end)


def _merged_counted_text(sc, doc, st):
    """Known upstream semantics: a mark step that makes two adjacent text nodes of a node lying ENTIRELY inside
    its range equally marked merges them (Fragment.from_array); when the node's content expression counts its
    inline children the node becomes invalid, and nothing re-validates closed nodes inside the replaced slice.
    Matches only when every invalid node of the result is such a node: same type as the node at the same position
    in the document (mark steps keep all positions), fewer children, inside the range."""
    try:
        res = st.apply(doc)
    except Exception:  # noqa: BLE001
        return None
    if res.doc is None or _valid(res.doc) or not _valid(doc):
        return None
    bad = []

    def visit(n, pos, *_):
        if n.is_text:
            return True
        ok = n.type.valid_content(n.content) and all(
            n.type.allows_marks(ch.marks) for ch in n.content.content)
        if not ok:
            bad.append((n, pos))
        return True
    res.doc.descendants(visit)
    if not bad:
        return None
    for n, pos in bad:
        try:
            o = doc.node_at(pos)
        except Exception:  # noqa: BLE001
            return None
        if o is None or o.type is not n.type or not n.child_count < o.child_count:
            return None
        if not (st.from_ <= pos and pos + o.node_size <= st.to):
            return None
        # the marks of the merged node's children must be allowed (the only defect is the count)
        if not all(n.type.allows_marks(ch.marks) for ch in n.content.content):
            return None
    return "C01-mark-step-merges-counted-text"


def _valid(doc):
    try:
        doc.check()
        return True
    except ValueError:
        return False


def classify(case):
    """Known upstream limitation: a replace-around step whose insertion point lies inside a CLOSED node of
    its slice puts the gap content there without validating that node (insert_into drops `parent`).
    In a recorded history the finding is the FIRST step that turns a valid document into an invalid one
    (everything after it starts from an invalid document, outside the property's quantifier)."""
    d = case.desc
    sc = gen.family(d["family"])
    doc = Node.from_json(sc, d["doc"])
    if d.get("case") == "history":
        for sd in d["steps"]:
            st = S.step_from_desc(sc, sd["step"])
            if not _valid(doc):
                return None
            try:
                r = st.apply(doc)
            except Exception:  # noqa: BLE001
                return None
            if r.doc is None:
                continue
            if not _valid(r.doc):
                if sd["step"]["type"] == "ReplaceAroundStep" and _closed_wrapper(doc, st):
                    return "C01-replace-around-closed-wrapper"
                return None
            doc = r.doc
        return None
    if d.get("case") != "apply":
        return None
    sd = d["obs"]["step"]
    if sd["type"] in ("AddMarkStep", "RemoveMarkStep") and d["obs"]["result"][0] == "ok":
        return _merged_counted_text(sc, doc, S.step_from_desc(sc, sd))
    if sd["type"] != "ReplaceAroundStep" or d["obs"]["result"][0] != "ok":
        return None
    st = S.step_from_desc(sc, sd)
    if not _closed_wrapper(doc, st):
        return None
    return "C01-replace-around-closed-wrapper"
