"""C15 — content filling and wrapper search are sound and find an answer when one exists."""
from __future__ import annotations

import random

import c06
import gen
from c02 import info_for
from common import Case, b, lst, nat, opt
from pm import SchemaInfo, attrs_term, err_class
from prosemirror.model import Fragment, Node, Schema

ID = "C15"
CORR_MODULE = "Corr.C15"
LEVEL = "proof"
SHARD = 150


def res_opt(f, pr):
    try:
        v = f()
    except RecursionError:
        return "(Err ErrInternal)", "RecursionError"
    except Exception as e:  # noqa: BLE001
        return f"(Err {err_class(e) if isinstance(e, ValueError) else 'ErrInternal'})", f"{type(e).__name__}: {e}"[:100]
    return f"(Ok {opt(v, pr)})", ("some" if v is not None else "none")


def fill_case(info, tag, match, after: Fragment, to_end, start, kind):
    term, o = res_opt(lambda: match.fill_before(after, to_end, start), info.frag)
    coq = f"CFill @S@ {nat(info.sid(match))} {info.frag(after)} {b(to_end)} {nat(start)} {term}"
    return Case(coq=coq, desc={"op": "fill_before", "schema": tag, "state": info.sid(match),
                               "after": [c.to_json() for c in after.content], "to_end": to_end, "start": start, "obs": str(o)},
                schema=info.schema_term(), kind=f"{kind}/fill/{o if isinstance(o, str) else o}", key=("fill", tag, info.sid(match), str(after), to_end, start))


def create_case(info, tag, ty, attrs, content: Fragment, marks, kind):
    term, o = res_opt(lambda: ty.create_and_fill(attrs, content, marks), info.node)
    coq = f"CCreateFill @S@ {info.ty(ty)} {attrs_term(attrs)} {info.frag(content)} {info.marks(marks or [])} {term}"
    return Case(coq=coq, desc={"op": "create_and_fill", "schema": tag, "type": ty.name, "attrs": attrs,
                               "content": [c.to_json() for c in content.content], "obs": str(o)},
                schema=info.schema_term(), kind=f"{kind}/create_and_fill/{o}", key=("create", tag, ty.name, str(attrs), str(content)))


def wrap_case(info, tag, match, target, kind):
    r = match.find_wrapping(target)
    r2 = match.find_wrapping(target)     # second call goes through the cache: must be the same answer
    same = (r is None and r2 is None) or (r is not None and r2 is not None and [t.name for t in r] == [t.name for t in r2])
    obs = r if same else []
    coq = f"CWrap @S@ {nat(info.sid(match))} {info.ty(target)} {opt(obs, lambda l: lst(info.ty(t) for t in l))}"
    return Case(coq=coq, desc={"op": "find_wrapping", "schema": tag, "state": info.sid(match), "target": target.name,
                               "obs": None if r is None else [t.name for t in r], "cache_consistent": same},
                schema=info.schema_term(), kind=f"{kind}/wrap/{'none' if r is None else len(r)}",
                key=("wrap", tag, info.sid(match), target.name))


def generated_schema(rng):
    """a schema over the C06 alphabet whose types get random content expressions (including non-generatable
    types), accepted by Schema(...)"""
    for _ in range(40):
        nodes = {k: (dict(v) if v is not None else {}) for k, v in c06.BLOCK_NODES.items()}
        nodes["doc"] = {"content": c06.render(c06.rand_expr(rng, 2, ["a", "b", "c", "g"]))}
        for n in ("a", "b", "c"):
            if rng.random() < 0.6:
                atoms = rng.choice([["a", "b", "c"], ["c", "r"], ["text", "i"], ["b", "g"]])
                nodes[n]["content"] = c06.render(c06.rand_expr(rng, rng.randint(1, 2), atoms))
        spec = {"nodes": nodes, "marks": {"em": {}}}
        try:
            sc = Schema(spec)
        except Exception:  # noqa: BLE001
            continue
        # well-founded schemas only: every node type can be finitely filled (otherwise create_and_fill
        # recurses without bound, in the code as in upstream; no finite valid node of that type exists)
        if any(v >= 10 ** 6 for v in gen.DocGen(sc, rng)._mind.values()):
            continue
        return sc, spec
    return None, None


def cases_for_schema(rng, sc, info, tag, docs, n_fill, n_wrap, n_create, kind):
    states = list(info.states)
    frags = [Fragment.empty]
    for d in docs:
        nodes = [d]
        d.descendants(lambda n, *_: nodes.append(n))
        for n in nodes:
            if not n.is_text and n.child_count:
                k = rng.randint(0, n.child_count)
                frags.append(n.content.cut_by_index(k, min(n.child_count, k + rng.randint(0, 3))))
    types = [t for t in sc.nodes.values()]
    for _ in range(n_fill):
        m = rng.choice(states)
        fr = rng.choice(frags)
        st = rng.randint(0, fr.child_count)
        yield fill_case(info, tag, m, fr, rng.random() < 0.5, st, kind)
    for m in (states if len(states) * len(types) <= n_wrap else rng.sample(states, max(1, n_wrap // len(types)))):
        for t in types:
            yield wrap_case(info, tag, m, t, kind)
    for _ in range(n_create):
        ty = rng.choice([t for t in types if not t.is_text])
        fr = rng.choice(frags)
        attrs = None
        if ty.has_required_attrs() and rng.random() < 0.8:
            attrs = {k: "v" for k, a in ty.attrs.items() if not a.has_default}
        yield create_case(info, tag, ty, attrs, fr if rng.random() < 0.7 else Fragment.empty, None, kind)


def generate(rng: random.Random, tier: str):
    quick = tier == "quick"
    for fam in gen.FAMILY:
        sc = gen.family(fam)
        info = info_for(fam)
        g = gen.DocGen(sc, rng)
        docs = [g.doc(rng.randint(2, 4)) for _ in range(6 if quick else 40)]
        yield from cases_for_schema(rng, sc, info, fam, docs, 60 if quick else 600, 120 if quick else 2000,
                                    25 if quick else 250, "family")
    for k in range(30 if quick else 400):
        sc, spec = generated_schema(rng)
        if sc is None:
            continue
        info = SchemaInfo(sc)
        try:
            g = gen.DocGen(sc, rng)
            docs = [g.doc(3) for _ in range(3)]
        except Exception:  # noqa: BLE001
            docs = []
        yield from cases_for_schema(rng, sc, info, {"spec": spec}, docs, 12, 30, 6, "generated")


    # create_and_fill with PART of a valid node's content (a prefix, a suffix or a middle piece dropped): the library
    # must fill in what is missing before AND after the given content, in the right order
    for fam in gen.FAMILY:
        sc = gen.family(fam)
        info = info_for(fam)
        g = gen.DocGen(sc, rng)
        docs = [g.doc(rng.randint(2, 4)) for _ in range(4 if quick else 30)]
        yield from partial_content_cases(rng, info, fam, docs, 30 if quick else 300, "family-partial")
    for k in range(12 if quick else 150):
        sc, spec = generated_schema(rng)
        if sc is None:
            continue
        info = SchemaInfo(sc)
        try:
            g = gen.DocGen(sc, rng)
            docs = [g.doc(3) for _ in range(3)]
        except Exception:  # noqa: BLE001
            continue
        yield from partial_content_cases(rng, info, {"spec": spec}, docs, 8, "generated-partial")
    # wrapper chains: schemas in which a wrapper's first child is (not) followed by further required siblings, so
    # that "each wrapper may hold the next wrapper as its ONLY child" decides which chain, if any, fits
    for k in range(10 if quick else 120):
        sc, spec = wrapper_schema(rng)
        if sc is None:
            continue
        info = SchemaInfo(sc)
        for m in list(info.states):
            for ty in sc.nodes.values():
                yield wrap_case(info, {"spec": spec}, m, ty, "wrappers")


def partial_content_cases(rng, info, tag, docs, n, kind):
    nodes = []
    for d in docs:
        nodes.append(d)
        d.descendants(lambda nd, *_: nodes.append(nd))
    nodes = [nd for nd in nodes if not nd.is_text and nd.child_count >= 1]
    if not nodes:
        return
    for _ in range(n):
        nd = rng.choice(nodes)
        i = rng.randint(0, nd.child_count)
        j = rng.randint(i, nd.child_count)
        if rng.random() < 0.5:
            i = 0 if rng.random() < 0.5 else i
            j = nd.child_count if i else j
        fr = nd.content.cut_by_index(i, j)
        yield create_case(info, tag, nd.type, dict(nd.attrs) if nd.attrs else None, fr, None, kind)


def wrapper_schema(rng):
    first = ["w2 tail", "w2 tail?", "w2", "w2+", "w2 w2", "w2 tail*", "(w2 | tail)+", "w2 tail+", "tail? w2"]
    inner = ["item+", "item", "item tail", "item*", "(item | tail)+", "w3", "w3 tail", "w3+"]
    third = ["item+", "item tail", "item"]
    tops = ["blk+", "(w1 | list)+", "w1+", "list+", "w1 list", "(list | w1)+", "tail w1", "w1*"]
    for _ in range(20):
        nodes = {
            "doc": {"content": rng.choice(tops)},
            "w1": {"content": rng.choice(first), "group": "blk"},
            "w2": {"content": rng.choice(inner)},
            "w3": {"content": rng.choice(third)},
            "list": {"content": rng.choice(["row+", "row", "row tail"]), "group": "blk"},
            "row": {"content": rng.choice(["item+", "item", "item tail?"])},
            "item": {"content": "text*"},
            "tail": {"group": "blk"} if rng.random() < 0.5 else {},
            "text": {},
        }
        spec = {"nodes": nodes, "marks": {}}
        try:
            sc = Schema(spec)
        except Exception:  # noqa: BLE001
            continue
        if any(v >= 10 ** 6 for v in gen.DocGen(sc, rng)._mind.values()):
            continue
        return sc, spec
    return None, None


def rebuild(desc):
    """create_and_fill cases over a generated schema can be re-run from their description"""
    if desc.get("op") != "create_and_fill" or not isinstance(desc.get("schema"), dict):
        raise NotImplementedError
    sc = Schema(desc["schema"]["spec"])
    info = SchemaInfo(sc)
    content = Fragment.from_json(sc, desc["content"]) if desc["content"] else Fragment.empty
    return create_case(info, desc["schema"], sc.nodes[desc["type"]], desc["attrs"], content, None, "replay")


def classify(case):
    """Known upstream limitation: create_and_fill / fill_before follow the FIRST generatable choice of every
    required position; in a schema where that first choice leads back to a type already being filled the
    recursion never ends (RecursionError) although a finite filling exists through a later choice.  Only
    generated schemas have that shape; the bundled family lists a terminating type first."""
    d = case.desc
    if d.get("obs") == "RecursionError" and isinstance(d.get("schema"), dict):
        return "C15-first-choice-recursion"
    # the same first-choice policy, other symptom: the chosen generatable type cannot itself be filled (its own
    # required content is not generatable), NodeType.create_and_fill() returns None for it and Fragment.from_
    # dereferences the None (AttributeError) although a filling through a later alternative exists
    if str(d.get("obs", "")).startswith("AttributeError: 'NoneType' object has no attribute 'node_size'") \
            and isinstance(d.get("schema"), dict):
        try:
            sc = Schema(d["schema"]["spec"])
        except Exception:  # noqa: BLE001
            return None
        for nt in sc.nodes.values():
            if nt.is_text or nt.has_required_attrs():
                continue
            try:
                if nt.create_and_fill() is None:
                    return "C15-fill-through-unfillable-type"
            except Exception:  # noqa: BLE001
                continue
    return None
