"""C05 — JSON serialisation of documents, slices, marks and steps is lossless."""
from __future__ import annotations

import copy
import json
import random

import gen
import steps as S
from c02 import info_for
from common import Case, b, lst, z
from pm import err_class, js
from prosemirror.model import Fragment, Mark, Node, Slice
from prosemirror.transform import Step, Transform

ID = "C05"
CORR_MODULE = "Corr.C05"
LEVEL = "proof"
SHARD = 150


def rt(x):
    return json.loads(json.dumps(x))


def res(f, pr):
    try:
        return f"(Ok {pr(f())})"
    except Exception as e:  # noqa: BLE001
        cls = err_class(e) if isinstance(e, ValueError) else "ErrInternal"
        return f"(Err {cls})"


def aliased(n: Node) -> bool:
    """does mutating the produced JSON change the node?"""
    before = json.dumps(n.to_json(), sort_keys=True)
    j = n.to_json()

    def scribble(x):
        if isinstance(x, dict):
            for k in list(x):
                scribble(x[k])
            x["__scribble__"] = 1
        elif isinstance(x, list):
            for y in x:
                scribble(y)
            x.append("__scribble__")
    try:
        scribble(j)
    except TypeError:
        pass
    return json.dumps(n.to_json(), sort_keys=True) != before


def node_case(fam, n: Node, kind):
    info = info_for(fam)
    sc = gen.family(fam)
    j = rt(n.to_json())
    back = None
    try:
        back = Node.from_json(sc, j)
        bt = f"(Ok {info.node(back)})"
        j2 = rt(back.to_json())
    except Exception as e:  # noqa: BLE001
        bt = f"(Err {err_class(e) if isinstance(e, ValueError) else 'ErrInternal'})"
        j2 = None
    al = aliased(n)
    coq = f"CNodeRT @S@ {info.node(n)} {js(j)} {bt} {js(j2)} {b(al)}"
    return Case(coq=coq, desc={"case": "node", "family": fam, "node": j, "back": bt[:40], "aliased": al, "kind": kind},
                schema=info.schema_term(), kind=kind, nontrivial=n.content.size > 0)


def slice_case(fam, sl: Slice, kind):
    info = info_for(fam)
    sc = gen.family(fam)
    j = rt(sl.to_json())
    try:
        back = Slice.from_json(sc, j)
        bt = f"(Ok {info.slice(back)})"
        j2 = rt(back.to_json())
    except Exception as e:  # noqa: BLE001
        bt = f"(Err {err_class(e) if isinstance(e, ValueError) else 'ErrInternal'})"
        j2 = None
    coq = f"CSliceRT @S@ {info.slice(sl)} {js(j)} {bt} {js(j2)}"
    return Case(coq=coq, desc={"case": "slice", "family": fam, "slice": gen.slice_to_json(sl), "json": j, "kind": kind},
                schema=info.schema_term(), kind=kind)


def frag_case(fam, fr: Fragment, kind):
    info = info_for(fam)
    sc = gen.family(fam)
    j = rt(fr.to_json())
    bt = res(lambda: Fragment.from_json(sc, j), info.frag)
    return Case(coq=f"CFragRT @S@ {info.frag(fr)} {js(j)} {bt}",
                desc={"case": "frag", "family": fam, "json": j, "kind": kind}, schema=info.schema_term(), kind=kind)


def mark_case(fam, m: Mark, kind):
    info = info_for(fam)
    sc = gen.family(fam)
    j = rt(m.to_json())
    bt = res(lambda: Mark.from_json(sc, j), info.mark)
    return Case(coq=f"CMarkRT @S@ {info.mark(m)} {js(j)} {bt}",
                desc={"case": "mark", "family": fam, "json": j, "kind": kind}, schema=info.schema_term(), kind=kind)


def step_case(fam, doc: Node, st, kind):
    info = info_for(fam)
    sc = gen.family(fam)
    j = rt(st.to_json())
    try:
        back = Step.from_json(sc, j)
        if type(back) is not type(st):
            raise TypeError("registry decoded a different class")
        bt = f"(Ok {S.step_term(info, back)})"
        j2 = rt(back.to_json())
    except Exception as e:  # noqa: BLE001
        back = None
        bt = f"(Err {err_class(e) if isinstance(e, ValueError) else 'ErrInternal'})"
        j2 = None
    d1, t1 = S.sresult(lambda: st.apply(doc))
    r1 = S.sresult_term(info, d1, t1)
    m1 = list(st.get_map().ranges)
    if back is not None:
        d2, t2 = S.sresult(lambda: back.apply(doc))
        r2 = S.sresult_term(info, d2, t2)
        m2 = list(back.get_map().ranges)
    else:
        r2, m2 = "RFail", []
    rs = lambda r: lst(f"({z(r[i])}, {z(r[i+1])}, {z(r[i+2])})" for i in range(0, len(r), 3))
    coq = (f"CStepRT @S@ {info.node(doc)} {S.step_term(info, st)} {js(j)} {bt} {js(j2)} {r1} {r2} {rs(m1)} {rs(m2)}")
    return Case(coq=coq, desc={"case": "step", "family": fam, "doc": doc.to_json(), "step": S.step_desc(st), "json": j,
                               "kind": kind, "r1": list(t1)},
                schema=info.schema_term(), kind=f"{kind}/{type(st).__name__}", nontrivial=t1[0] == "ok")


def mutate_json(rng, j):
    j = copy.deepcopy(j)
    nodes = []

    def walk(x):
        if isinstance(x, dict):
            nodes.append(x)
            for v in x.values():
                walk(v)
        elif isinstance(x, list):
            for v in x:
                walk(v)
    walk(j)
    x = rng.choice(nodes)
    r = rng.random()
    if r < 0.3 and "attrs" in x:
        del x["attrs"]
    elif r < 0.5 and "type" in x:
        x["type"] = "nosuchtype"
    elif r < 0.65 and "marks" in x:
        x["marks"] = []
    elif r < 0.8 and "content" in x:
        x["content"] = None
    elif "attrs" in x and isinstance(x["attrs"], dict) and x["attrs"]:
        k = rng.choice(list(x["attrs"]))
        x["attrs"][k] = None
    return j


def mutate_step_json(rng, j):
    """one malformed variant of a step's JSON: a missing / mistyped field"""
    j = copy.deepcopy(j)
    ints = [k for k in ("from", "to", "gapFrom", "gapTo", "insert", "pos") if k in j]
    r = rng.random()
    if r < 0.15:
        del j["stepType"]
    elif r < 0.25:
        j["stepType"] = rng.choice(["nosuchstep", 5, None, ""])
    elif r < 0.6 and ints:
        k = rng.choice(ints)
        v = rng.choice(["3", None, "del", [1], {"a": 1}])
        if v == "del":
            del j[k]
        else:
            j[k] = v
    elif r < 0.75 and "mark" in j:
        if rng.random() < 0.5:
            del j["mark"]
        else:
            j["mark"] = {"type": "nosuchmark"}
    elif r < 0.9 and "attr" in j:
        v = rng.choice([5, None, "del"])
        if v == "del":
            del j["attr"]
        else:
            j["attr"] = v
    elif "slice" in j:
        j["slice"] = rng.choice([{"content": None}, {"content": [{"type": "nosuchtype"}]}, {"openStart": 1}])
    else:
        j["stepType"] = "nosuchstep"
    return j


def decode_step_case(fam, j):
    info = info_for(fam)
    sc = gen.family(fam)
    bt = res(lambda: Step.from_json(sc, rt(j)), lambda st: S.step_term(info, st))
    return Case(coq=f"CDecodeStep @S@ {js(j)} {bt}", desc={"case": "decode-step", "family": fam, "json": j, "obs": bt[:60]},
                schema=info.schema_term(), kind="malformed-step-json/" + bt[:14], nontrivial=False)


def generate(rng: random.Random, tier: str):
    quick = tier == "quick"
    for fam in gen.FAMILY:
        g, docs = S.family_docs(rng, fam, 10 if quick else 120)
        sc = gen.family(fam)
        info = info_for(fam)
        for doc in docs:
            yield node_case(fam, doc, "document")
            subs = []
            doc.descendants(lambda n, *_: subs.append(n))
            for n in rng.sample(subs, min(len(subs), 3 if quick else 8)):
                yield node_case(fam, n, "subtree")
            for _ in range(4 if quick else 12):
                sl = g.slice_from(rng.choice(docs))
                yield slice_case(fam, sl, "slice")
            # zero-size but non-empty slices
            pool = [n for n in subs if not n.is_leaf and not n.is_text]
            if pool:
                w = rng.choice(pool).copy(Fragment.empty)
                yield slice_case(fam, Slice(Fragment.from_(w), 1, 1), "slice-zero-size-nonempty")
            yield frag_case(fam, doc.content, "fragment")
            for n in subs[:2]:
                for m in n.marks:
                    yield mark_case(fam, m, "mark")
            yield mark_case(fam, S.rand_mark(rng, sc), "mark")
            # steps: emitted by the transform API and adversarial, every one of the eight types
            tr, ops = S.gen_history(rng, g, doc, docs, 3 if quick else 6)
            cur = tr.before
            for st, d in zip(tr.steps, tr.docs):
                yield step_case(fam, d, st, "emitted")
            for _ in range(6 if quick else 25):
                st = S.adversarial_step(rng, g, doc, docs)
                yield step_case(fam, doc, st, "primitive")
            # malformed stream: decoder error classes must agree between model and code
            for _ in range(2 if quick else 6):
                j = mutate_json(rng, doc.to_json())
                bt = res(lambda: Node.from_json(sc, rt(j)), info.node)
                yield Case(coq=f"CDecode @S@ {js(j)} {bt}", desc={"case": "decode", "family": fam, "json": j, "obs": bt[:60]},
                           schema=info.schema_term(), kind="malformed-json/" + bt[:14], nontrivial=False)
    # marks whose attribute values are nested JSON (appended stream): the JSON of a node must not alias them either
    for fam in gen.FAMILY:
        g, docs = S.family_docs(rng, fam, 3 if quick else 20)
        sc = gen.family(fam)
        attrd = [t for t in sc.marks.values() if t.attrs]
        if not attrd:
            continue
        for doc in docs:
            t = rng.choice(attrd)
            an = rng.choice(list(t.attrs))
            at = {k: "foo" for k, a in t.attrs.items() if not a.has_default}
            at[an] = rng.choice([[1, "a", None], {"k": [1, 2], "z": {"y": False}}, [[1], {"q": "r"}]])
            mk = t.create(at)
            tb = [nt for nt in sc.nodes.values() if nt.is_textblock and nt.allows_mark_type(t) and not nt.has_required_attrs()]
            if not tb:
                continue
            para = rng.choice(tb).create(None, [sc.text("ab", [mk]), sc.text("cd")])
            yield node_case(fam, para, "nested-mark-attrs")
            yield mark_case(fam, mk, "mark-nested-attrs")
    # malformed step JSON (appended stream): a missing or mistyped field of every step type; the decoder's answer - the
    # step, or the class of the exception - must be the model's
    for fam in gen.FAMILY:
        g, docs = S.family_docs(rng, fam, 4 if quick else 30)
        for doc in docs:
            for _ in range(10 if quick else 30):
                st = S.adversarial_step(rng, g, doc, docs)
                yield decode_step_case(fam, mutate_step_json(rng, rt(st.to_json())))
    # negative open depths in the JSON of a slice (appended stream): Slice.from_json must refuse them - a replace step
    # decoded from {"openStart": -1, "openEnd": -1} used to apply with IndexError (fixed in /repo; a slice that decodes with
    # a negative depth is printed as an internal error and disagrees with the model's ErrValue)
    for fam in gen.FAMILY:
        g, docs = S.family_docs(rng, fam, 3 if quick else 20)
        for doc in docs:
            done = 0
            for _ in range(40):
                st = S.adversarial_step(rng, g, doc, docs)
                j = rt(st.to_json())
                if not isinstance(j.get("slice"), dict):
                    continue
                for a, c in ((-1, -1), (-1, None), (None, -2), (-3, 1)):
                    j2 = json.loads(json.dumps(j))
                    for k, v in (("openStart", a), ("openEnd", c)):
                        if v is not None:
                            j2["slice"][k] = v
                    yield decode_step_case(fam, j2)
                done += 1
                if done >= (2 if quick else 6):
                    break


def rebuild(desc):
    sc = gen.family(desc["family"])
    k = desc["case"]
    if k == "node":
        return node_case(desc["family"], Node.from_json(sc, desc["node"]), desc["kind"])
    if k == "slice":
        return slice_case(desc["family"], gen.slice_from_json(sc, desc["slice"]), desc["kind"])
    if k == "decode-step":
        return decode_step_case(desc["family"], desc["json"])
    if k == "step":
        return step_case(desc["family"], Node.from_json(sc, desc["doc"]), S.step_from_desc(sc, desc["step"]), desc["kind"])
    raise NotImplementedError


def classify(case):
    d = case.desc
    # ReplaceStep / ReplaceAroundStep.to_json drop a slice whose size is 0 even when it is not empty
    # (e.g. <paragraph()>(1,1)): the decoded step carries Slice.empty instead
    if d.get("case") == "step" and d["step"]["type"] in ("ReplaceStep", "ReplaceAroundStep"):
        sl = d["step"]["slice"]
        if sl["content"] and "slice" not in d["json"]:
            return "C05-zero-size-slice-dropped"
    return None
