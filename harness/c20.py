"""C20 — diffing terminates and reports the true first/last difference (model/diff.py)."""
from __future__ import annotations

import random
import signal

import gen
from c02 import info_for
from common import Case, b as b_, nat, opt
from prosemirror.model import Fragment, Node, Slice

ID = "C20"
CORR_MODULE = "Corr.C20"
LEVEL = "proof"
SHARD = 200


class Hang(Exception):
    pass


def _alarm(_s, _f):
    raise Hang()


_HANGS = [0]


def with_alarm(f, secs=10):
    # generous limit (a loaded machine must not turn a slow call into an alarm); after a few hangs the verdict is clear:
    # give the remaining calls a fraction of the time so the run still ends soon
    if _HANGS[0] > 5:
        secs = 0.2
    old = signal.signal(signal.SIGALRM, _alarm)
    signal.setitimer(signal.ITIMER_REAL, secs)
    try:
        return ("ok", f())
    except Hang:
        _HANGS[0] += 1
        return ("err", "Hang")
    except Exception as e:  # noqa: BLE001
        return ("err", f"{type(e).__name__}: {e}"[:120])
    finally:
        signal.setitimer(signal.ITIMER_REAL, 0)
        signal.signal(signal.SIGALRM, old)


def diff_case(fam, a: Fragment, b: Fragment, kind):
    info = info_for(fam)
    rs = with_alarm(lambda: a.find_diff_start(b))
    re_ = with_alarm(lambda: a.find_diff_end(b))
    ts = f"(Ok {opt(rs[1], nat)})" if rs[0] == "ok" else "(Err ErrInternal)"
    pr = lambda d: f"({nat(d['a'])}, {nat(d['b'])})"
    te = f"(Ok {opt(re_[1], pr)})" if re_[0] == "ok" else "(Err ErrInternal)"
    coq = f"CDiff @S@ {info.frag(a)} {info.frag(b)} {ts} {te}"
    desc = {"family": fam, "a": [c.to_json() for c in a.content], "b": [c.to_json() for c in b.content],
            "start": list(rs), "end": list(re_), "kind": kind}
    return Case(coq=coq, desc=desc, schema=info.schema_term(), kind=kind,
                nontrivial=a.size > 0 and b.size > 0)


def eq_case(fam, a: Fragment, b: Fragment, kind):
    """Fragment.eq (hence Node.eq, TextNode.eq) as observed, against the model's equality"""
    info = info_for(fam)
    r = with_alarm(lambda: bool(a.eq(b)))
    obs = r[1] if r[0] == "ok" else None
    coq = f"CEq @S@ {info.frag(a)} {info.frag(b)} {b_(bool(obs))}" if obs is not None else f"CEq @S@ {info.frag(a)} {info.frag(a)} false"
    return Case(coq=coq, desc={"family": fam, "a": [c.to_json() for c in a.content], "b": [c.to_json() for c in b.content],
                               "eq": list(r), "kind": kind}, schema=info.schema_term(), kind="eq/" + kind, nontrivial=True)


def edited(rng, g, doc, docs):
    """an (after) document sharing most nodes with doc by identity"""
    n = doc.content.size
    for _ in range(20):
        a = rng.randint(0, n)
        c = rng.randint(a, n)
        sl = Slice.empty if rng.random() < 0.4 else g.slice_from(rng.choice(docs))
        try:
            return doc.replace(a, c, sl)
        except ValueError:
            continue
    return doc


def retext(rng, node: Node, schema):
    """independently rebuilt copy with one text node altered (keeps markup)"""
    j = node.to_json()

    texts = []

    def walk(x):
        if x.get("type") == "text":
            texts.append(x)
        for c in x.get("content", []) or []:
            walk(c)
    walk(j)
    if texts:
        t = rng.choice(texts)
        s = t["text"]
        k = rng.randrange(len(s))
        r = rng.random()
        alphabet = gen.TEXT_ALPHABET + ["\U0001F601", "\U0001F600"]
        if r < 0.4:
            t["text"] = s[:k] + rng.choice(alphabet) + s[k + 1:]
        elif r < 0.7:
            t["text"] = s[:k] + rng.choice(alphabet) + s[k:]
        else:
            t["text"] = (s[:k] + s[k + 1:]) or "q"
    return Node.from_json(schema, j)


def remarked_retext(rng, node: Node, schema):
    """independently rebuilt copy in which one text node has BOTH other marks and another ending (it keeps a
    prefix or suffix of its text): the difference is the node itself, not somewhere inside it"""
    j = node.to_json()
    texts = []

    def walk(x):
        if x.get("type") == "text":
            texts.append(x)
        for c in x.get("content", []) or []:
            walk(c)
    walk(j)
    if texts:
        t = rng.choice(texts)
        s = t["text"]
        if rng.random() < 0.5:
            t["text"] = s + rng.choice(["z", "\U0001F601"])          # common prefix
        else:
            t["text"] = rng.choice(["z", "\U0001F601"]) + s          # common suffix
        if t.get("marks"):
            t.pop("marks")
        else:
            t["marks"] = [{"type": "em"}] if "em" in schema.marks else []
    try:
        return Node.from_json(schema, j)
    except Exception:  # noqa: BLE001
        return node


def generate(rng: random.Random, tier: str):
    quick = tier == "quick"
    ndocs = 25 if quick else 400
    for fam in gen.FAMILY:
        sc = gen.family(fam)
        g = gen.DocGen(sc, rng)
        docs = [g.doc(rng.randint(2, 5)) for _ in range(ndocs)]
        docs = [d for d in docs if d.content.size <= 80] or docs[:1]
        for doc in docs:
            after = edited(rng, g, doc, docs)
            yield diff_case(fam, doc.content, after.content, "edit-pair(shared nodes)")
            yield eq_case(fam, doc.content, after.content, "edit-pair(shared nodes)")
            yield diff_case(fam, after.content, doc.content, "edit-pair(shared nodes)")
            yield eq_case(fam, after.content, doc.content, "edit-pair(shared nodes)")
            copy_ = Node.from_json(sc, doc.to_json())
            yield diff_case(fam, doc.content, copy_.content, "independent-equal-copy")
            yield eq_case(fam, doc.content, copy_.content, "independent-equal-copy")
            yield diff_case(fam, doc.content, doc.content, "identical-object")
            yield eq_case(fam, doc.content, doc.content, "identical-object")
            alt = retext(rng, doc, sc)
            yield diff_case(fam, doc.content, alt.content, "text-altered-copy(astral)")
            yield eq_case(fam, doc.content, alt.content, "text-altered-copy(astral)")
            alt2 = remarked_retext(rng, doc, sc)
            yield diff_case(fam, doc.content, alt2.content, "text-remarked-and-altered")
            yield eq_case(fam, doc.content, alt2.content, "text-remarked-and-altered")
            yield diff_case(fam, alt2.content, doc.content, "text-remarked-and-altered")
            yield eq_case(fam, alt2.content, doc.content, "text-remarked-and-altered")
            other = rng.choice(docs)
            yield diff_case(fam, doc.content, other.content, "unrelated")
            yield eq_case(fam, doc.content, other.content, "unrelated")
            # prefixes / suffixes by child count
            k = rng.randint(0, doc.content.child_count)
            yield diff_case(fam, doc.content, doc.content.cut_by_index(0, k), "child-prefix")
            yield eq_case(fam, doc.content, doc.content.cut_by_index(0, k), "child-prefix")
            yield diff_case(fam, doc.content, doc.content.cut_by_index(k, doc.content.child_count), "child-suffix")
            yield eq_case(fam, doc.content, doc.content.cut_by_index(k, doc.content.child_count), "child-suffix")


def _shared_from_json(sc, items, memo):
    """rebuild nodes with maximal identity sharing (equal JSON -> same object), as after a real edit"""
    import json as _json
    out = []
    for j in items:
        k = _json.dumps(j, sort_keys=True)
        if k not in memo:
            if j.get("type") == "text" or not j.get("content"):
                memo[k] = Node.from_json(sc, j)
            else:
                kids = _shared_from_json(sc, j["content"], memo)
                marks = [sc.mark_from_json(m) for m in j.get("marks", [])]
                memo[k] = sc.node_type(j["type"]).create(j.get("attrs"), Fragment(kids), marks)
        out.append(memo[k])
    return out


def rebuild(desc):
    sc = gen.family(desc["family"])
    memo = {}
    a = Fragment(_shared_from_json(sc, desc["a"], memo))
    b = Fragment(_shared_from_json(sc, desc["b"], memo))
    return diff_case(desc["family"], a, b, desc["kind"].replace("corpus:", ""))


def classify(case):
    return None
