"""C13 — adding and removing marks over a range has exactly the documented effect."""
from __future__ import annotations

import random
import re

import gen
import steps as S
from common import Case, b, lst, nat, opt
from prosemirror.model import Fragment, Node
from prosemirror.transform import AddMarkStep, AttrStep, RemoveMarkStep, Transform
from prosemirror.transform.doc_attr_step import DocAttrStep
from prosemirror.transform.transform import TransformError

ID = "C13"
CORR_MODULE = "Corr.C13"
LEVEL = "proof"
SHARD = 120


def markop_case(fam, doc, a, c, add, mark, mtype):
    info = S.info_for(fam)
    tr = Transform(doc)
    err = None
    try:
        if add:
            tr.add_mark(a, c, mark)
        else:
            tr.remove_mark(a, c, mark if mark is not None else mtype)
    except Exception as e:  # noqa: BLE001
        err = f"{type(e).__name__}: {e}"[:120]
    hist, cur = S.observe_history(info, doc, tr.steps)
    coq = (f"CMarkOp @S@ {info.node(doc)} {nat(a)} {nat(c)} {b(add)} {opt(mark, info.mark)} "
           f"{opt(mtype, info.mty)} {lst(x.term() for x in hist)} {info.node(tr.doc)}")
    desc = {"case": "markop", "family": fam, "doc": doc.to_json(), "from": a, "to": c, "add": add,
            "mark": mark.to_json() if mark else None, "mark_type": mtype.name if mtype else None,
            "steps": [x.desc() for x in hist], "final": tr.doc.to_json(), "error": err}
    kind = ("add_mark" if add else "remove_mark") + ("/ERROR" if err else "")
    return Case(coq=coq, desc=desc, schema=info.schema_term(), kind=kind, nontrivial=len(hist) > 0)


def sandwiches(rng, sc):
    """documents P(B..) T(B..) P(B..) where mark A excludes mark B, P allows A and B, T allows B but not A:
    adding A across all three must strip B in the outer blocks only"""
    tbs = [t for t in sc.nodes.values() if t.is_textblock and not t.has_required_attrs()]
    out = []
    for A in sc.marks.values():
        for B in A.excluded:
            if B == A:
                continue
            Ps = [t for t in tbs if t.allows_mark_type(A) and t.allows_mark_type(B)]
            Ts = [t for t in tbs if t.allows_mark_type(B) and not t.allows_mark_type(A)]
            for P in Ps[:2]:
                for T in Ts[:2]:
                    try:
                        b = B.create({k: "foo" for k, at in B.attrs.items() if not at.has_default} or None)
                        a = A.create({k: "foo" for k, at in A.attrs.items() if not at.has_default} or None)
                        blocks = [P.create(None, sc.text("one", [b])), T.create(None, sc.text("two", [b])),
                                  P.create(None, Fragment.from_([sc.text("th", [b]), sc.text("ree")]))]
                        if rng.random() < 0.5:
                            blocks.append(T.create(None, sc.text("four", [b])))
                        d = sc.top_node_type.create_and_fill(None, Fragment.from_(blocks))
                        if d is None:
                            continue
                        d.check()
                        out.append((d, a, b))
                    except ValueError:
                        continue
    return out


def generate(rng: random.Random, tier: str):
    quick = tier == "quick"
    for fam in gen.FAMILY:
        g, docs = S.family_docs(rng, fam, 10 if quick else 120)
        sc = gen.family(fam)
        for d, a_mark, b_mark in sandwiches(rng, sc):
            n = d.content.size
            for (x, y) in [(0, n), (1, n - 1), (2, n - 2)] + [S.rand_range(rng, d) for _ in range(2 if quick else 6)]:
                if 0 <= x <= y <= n:
                    yield markop_case(fam, d, x, y, True, a_mark, None)
            yield markop_case(fam, d, 0, n, False, b_mark, None)
            yield markop_case(fam, d, 0, n, False, None, b_mark.type)
        for doc in docs:
            for _ in range(8 if quick else 30):
                a, c = S.rand_range(rng, doc)
                m = S.rand_mark(rng, sc)
                r = rng.random()
                if r < 0.5:
                    yield markop_case(fam, doc, a, c, True, m, None)
                elif r < 0.7:
                    yield markop_case(fam, doc, a, c, False, m, None)
                elif r < 0.9:
                    yield markop_case(fam, doc, a, c, False, None, m.type)
                else:
                    yield markop_case(fam, doc, a, c, False, None, None)
            for _ in range(12 if quick else 40):
                md = S.marky_doc(rng, g)
                a, c = S.rand_range(rng, md)
                if rng.random() < 0.5:
                    a, c = 0, md.content.size
                m = S.excluding_mark(rng, sc, md) if rng.random() < 0.5 else S.rand_mark(rng, sc)
                r = rng.random()
                if r < 0.5:
                    yield markop_case(fam, md, a, c, True, m, None)
                elif r < 0.7:
                    yield markop_case(fam, md, a, c, False, m, None)
                elif r < 0.9:
                    yield markop_case(fam, md, a, c, False, None, m.type)
                else:
                    yield markop_case(fam, md, a, c, False, None, None)
            for _ in range(6 if quick else 25):
                a, c = S.rand_range(rng, doc)
                m = S.rand_mark(rng, sc)
                st = (AddMarkStep if rng.random() < 0.5 else RemoveMarkStep)(a, c, m)
                yield S.apply_case(fam, doc, st, True, "mark-step")[0]
            for _ in range(6 if quick else 25):
                st = S.adversarial_step(rng, g, doc, docs)
                if type(st).__name__ in ("AddNodeMarkStep", "RemoveNodeMarkStep", "AttrStep", "DocAttrStep"):
                    yield S.apply_case(fam, doc, st, True, "node-step")[0]
            # block type / markup changes: children kept (history observed step by step)
            for op in ("set_block_type", "set_node_markup", "set_node_attribute", "add_node_mark", "remove_node_mark"):
                tr = Transform(doc)
                try:
                    name, args = S.do_op(rng, g, tr, docs, op)
                except (TransformError, ValueError):
                    continue
                except Exception as e:  # noqa: BLE001
                    args = {"crash": f"{type(e).__name__}: {e}"[:100]}
                    c = S.history_case(fam, tr.before, tr.steps, tr.doc, f"op/{op}/CRASH", [[op, args, "crash"]])
                    c.desc["impl_failure"] = f"{op} raised {args['crash']}"
                    yield c
                    continue
                if tr.steps:
                    yield S.history_case(fam, tr.before, tr.steps, tr.doc, f"op/{op}", [[op, args, "ok"]])


    # set_node_markup on nodes that carry marks of their own (appended stream): without a marks argument the node keeps
    # them, with one it gets exactly the given ones
    for fam in gen.FAMILY:
        g, docs = S.family_docs(rng, fam, 6 if quick else 60)
        sc = gen.family(fam)
        for doc in docs:
            cands = [(p, n) for p, n in S.all_positions_with_nodes(doc) if not n.is_text]
            marked = [(p, n) for p, n in cands if n.marks]
            for _ in range(4 if quick else 10):
                if not cands:
                    break
                pos, node = rng.choice(marked) if marked and rng.random() < 0.7 else rng.choice(cands)
                r = rng.random()
                given = None if r < 0.5 else ([] if r < 0.6 else [S.rand_mark(rng, sc) for _ in range(rng.randint(1, 2))])
                yield markup_case(fam, doc, pos, given)


    # attribute steps writing FALSY values (0, "", False): a value that is given is kept, whatever its truth value - only a
    # missing one / None takes the default (appended stream; seeded change C13-8: `if not given` in compute_attrs)
    for fam in gen.FAMILY:
        g, docs = S.family_docs(rng, fam, 4 if quick else 40)
        for doc in docs:
            cands = [(p, n) for p, n in S.all_positions_with_nodes(doc) if not n.is_text and n.type.attrs]
            for _ in range(3 if quick else 8):
                if not cands:
                    break
                p, n = rng.choice(cands)
                an = rng.choice(sorted(n.type.attrs))
                yield S.apply_case(fam, doc, AttrStep(p, an, rng.choice([0, "", False, 0, ""])), True, "node-step/falsy-value")[0]
            if doc.type.attrs:
                yield S.apply_case(fam, doc, DocAttrStep(sorted(doc.type.attrs)[0], rng.choice([0, "", False])), True,
                                   "node-step/falsy-value")[0]

    # set_block_type away from a code block whose text holds line breaks next to characters outside the BMP: every line
    # break becomes a space AT ITS OWN POSITION (positions count UTF-16 units), the rest of the text is kept (appended stream)
    texts = ["\U0001F600\nx", "a\n\U0001F600\nb", "\U00010348\U0001F600\r\nz\r", "\n\U0001F600", "ab\ncd", "\U0001F600x\n\n\U0001F600\n"]
    for fam in gen.FAMILY:
        sc = gen.family(fam)
        if "code_block" not in sc.nodes or "paragraph" not in sc.nodes:
            continue
        more = ["".join(rng.choice(["a", "\n", "\U0001F600", "\r\n", " ", "\U00010348"]) for _ in range(rng.randint(2, 7)))
                for _ in range(4 if quick else 60)]
        for t in texts + [m for m in more if m]:
            c = code_newline_case(fam, t)
            if c is not None:
                yield c


def code_newline_case(fam, t):
    sc = gen.family(fam)
    blocks = [sc.node("code_block", None, [sc.text(t)])]
    doc = None
    for pre in ([], [sc.nodes["heading"].create_and_fill()] if "heading" in sc.nodes else []):
        try:
            cand = sc.node("doc", None, list(pre) + blocks)
            cand.check()
            doc = cand
            break
        except Exception:  # noqa: BLE001
            continue
    if doc is None:
        return None
    pos = doc.content.size - blocks[0].node_size + 1
    tr = Transform(doc)
    crash = None
    try:
        tr.set_block_type(pos, pos, sc.nodes["paragraph"], None)
    except (TransformError, ValueError):
        pass
    except Exception as e:  # noqa: BLE001
        crash = f"set_block_type raised {type(e).__name__}: {e}"[:160]
    c = S.history_case(fam, tr.before, tr.steps, tr.doc, "op/set_block_type/code-newlines" + ("/CRASH" if crash else ""),
                       [["set_block_type", {"pos": pos, "type": "paragraph", "text": t}, "crash" if crash else "ok"]])
    c.desc["code_newline_text"] = t
    if crash:
        c.desc["impl_failure"] = crash
    elif tr.steps:
        want = re.sub(r"\r?\n|\r", " ", t)
        got = tr.doc.text_between(0, tr.doc.content.size, "|")
        if want not in got.split("|"):
            c.desc["impl_failure"] = f"set_block_type gave text {got!r}, expected a block reading {want!r}"
    return c


def markup_case(fam, doc, pos, given):
    info = S.info_for(fam)
    tr = Transform(doc)
    err = None
    try:
        tr.set_node_markup(pos, None, doc.node_at(pos).attrs, given)
    except Exception as e:  # noqa: BLE001
        err = f"{type(e).__name__}: {e}"[:120]
    hist, cur = S.observe_history(info, doc, tr.steps)
    coq = (f"CMarkup @S@ {info.node(doc)} {nat(pos)} {opt(given, info.marks)} {lst(x.term() for x in hist)} {info.node(tr.doc)}")
    desc = {"case": "markup", "family": fam, "doc": doc.to_json(), "pos": pos,
            "marks": None if given is None else [m.to_json() for m in given],
            "steps": [x.desc() for x in hist], "final": tr.doc.to_json(), "error": err}
    return Case(coq=coq, desc=desc, schema=info.schema_term(), kind="set_node_markup" + ("/ERROR" if err else ""),
                nontrivial=len(hist) > 0)


def rebuild(desc):
    if desc.get("code_newline_text") is not None:
        return code_newline_case(desc["family"], desc["code_newline_text"])
    if desc.get("case") == "markup":
        sc = gen.family(desc["family"])
        doc = Node.from_json(sc, desc["doc"])
        given = None if desc["marks"] is None else [sc.mark_from_json(m) for m in desc["marks"]]
        return markup_case(desc["family"], doc, desc["pos"], given)
    if desc.get("case") == "markop":
        sc = gen.family(desc["family"])
        doc = Node.from_json(sc, desc["doc"])
        mark = sc.mark_from_json(desc["mark"]) if desc["mark"] else None
        mt = sc.marks[desc["mark_type"]] if desc["mark_type"] else None
        return markop_case(desc["family"], doc, desc["from"], desc["to"], desc["add"], mark, mt)
    return S.rebuild_history(desc) if desc.get("case") == "history" else S.rebuild_apply(desc)


def classify(case):
    return None
