"""C10 — documents and their parts are immutable values.

The model is value-level: a Gallina function cannot mutate its argument, so the theorem side covers what
is logic (the two accumulators only grow by appending; histories replay).  In-place mutation and aliasing
are CPython heap behaviour; they are checked by a frame monitor driven by the same histories: every object
the library has handed out is snapshotted when first seen and re-serialised after every operation."""
from __future__ import annotations

import json
import random

import gen
import steps as S
from common import Case, b, lst
from prosemirror.model import Fragment, Mark, Node, Slice
from prosemirror.transform import Mapping, StepMap, Transform
from prosemirror.transform.transform import TransformError

ID = "C10"
CORR_MODULE = "Corr.C10"
LEVEL = "exploration"
SHARD = 60
SEARCH_CAP = 300


def snap(o):
    if isinstance(o, Node):
        return ("node", json.dumps(o.to_json(), sort_keys=True), id(o.content), id(o.marks), len(o.marks))
    if isinstance(o, Fragment):
        return ("frag", json.dumps(o.to_json(), sort_keys=True), o.size, len(o.content))
    if isinstance(o, Slice):
        return ("slice", json.dumps(gen.slice_to_json(o), sort_keys=True))
    if isinstance(o, Mark):
        return ("mark", json.dumps(o.to_json(), sort_keys=True))
    if isinstance(o, StepMap):
        return ("map", tuple(o.ranges), o.inverted)
    if isinstance(o, list):
        return ("marks", tuple(json.dumps(m.to_json(), sort_keys=True) for m in o))
    if hasattr(o, "apply") and hasattr(o, "get_map"):
        return ("step", json.dumps(S.step_desc(o), sort_keys=True, default=str))
    return ("?", repr(o))


class Registry:
    def __init__(self):
        self.objs = {}

    def see(self, o, depth=0):
        if o is None or id(o) in self.objs:
            return
        self.objs[id(o)] = (o, snap(o))
        if isinstance(o, Node):
            self.see(o.content, depth + 1)
            self.see(o.marks)
            for m in o.marks:
                self.see(m)
        elif isinstance(o, Fragment) and depth < 6:
            for c in o.content:
                self.see(c, depth + 1)
        elif isinstance(o, Slice):
            self.see(o.content)
        elif hasattr(o, "slice") and isinstance(getattr(o, "slice", None), Slice):
            self.see(o.slice)
            if hasattr(o, "mark"):
                self.see(o.mark)

    def changed(self):
        out = []
        for k, (o, s0) in self.objs.items():
            try:
                s1 = snap(o)
            except Exception as e:  # noqa: BLE001
                s1 = ("error", str(e))
            if s1 != s0:
                out.append({"kind": s0[0], "before": str(s0)[:300], "after": str(s1)[:300]})
        return out


def queries(rng, doc: Node, reg: Registry, docs):
    """read-only model operations: must not change anything either"""
    n = doc.content.size
    ps = S.boundary_positions(doc)
    a, c = sorted((rng.choice(ps), rng.choice(ps)))
    r = doc.resolve(a)
    reg.see(r.marks())
    reg.see(r.node_after)
    reg.see(r.node_before)
    sl = doc.slice(a, c)
    reg.see(sl)
    reg.see(doc.cut(a, c))
    doc.text_between(a, c, "\n")
    doc.nodes_between(a, c, lambda *_: None)
    doc.node_at(a)
    try:
        doc.check()
    except ValueError:
        pass
    other = rng.choice(docs)
    try:
        reg.see(doc.replace(a, c, other.slice(0, min(2, other.content.size))))
    except ValueError:
        pass
    # more read-only queries and value constructors over live objects
    rc = doc.resolve(c)
    reg.see(r.marks_across(rc))
    reg.see(rc.marks_across(rc))
    r.block_range(rc)
    doc.range_has_mark(a, c, S.rand_mark(rng, doc.type.schema))
    blocks = []
    doc.descendants(lambda n, *_: blocks.append(n) if n.inline_content and n.child_count >= 2 else None)
    for blk in blocks[:3]:
        kids = list(blk.content.content)
        reg.see(Fragment.from_(kids))
        # the same texts with their marks stripped: adjacent nodes now join (twice or more in one call)
        plain = [k.mark([]) if k.is_text else k for k in kids]
        reg.see(Fragment.from_(plain + plain))
        reg.see(Fragment.from_array(kids[::-1] + kids))
        # two separate runs of joinable text in ONE call: the second run starts with a node of the live document
        texts = [k for k in kids if k.is_text]
        for x in texts[:2]:
            for y in texts[-2:]:
                if not x.same_markup(y):
                    reg.see(Fragment.from_array([x, x, y, y]))
                    reg.see(Fragment.from_array([x, x, y, y, x, x]))
    # primitive mark steps built directly (not planned by Transform.add_mark), wide ranges
    from prosemirror.transform import AddMarkStep, RemoveMarkStep
    m = S.rand_mark(rng, doc.type.schema)
    for st in (AddMarkStep(a, c, m), RemoveMarkStep(a, c, m), AddMarkStep(0, n, m), RemoveMarkStep(0, n, m)):
        try:
            res = st.apply(doc)
            if res.doc is not None:
                reg.see(res.doc)
        except ValueError:
            pass
    doc.content.find_diff_start(other.content)
    doc.content.find_diff_end(other.content)
    # mark-set queries of the schema over live mark lists (results and arguments are watched; a result that
    # aliases a shared list such as Mark.none and is then extended shows up as a change of that list)
    sc = doc.type.schema
    pool = [S.rand_mark(rng, sc) for _ in range(4)]
    sets = [Mark.none]
    for k in range(1, 4):
        ms = Mark.none
        for mk in rng.sample(pool, k):
            ms = mk.add_to_set(ms)
        sets.append(ms)
    live = []
    doc.descendants(lambda nd, *_: live.append(nd.marks) if nd.marks else None)
    sets += live[:3]
    for ms in sets:
        reg.see(ms)
    for nt in sc.nodes.values():
        for ms in sets:
            reg.see(nt.allowed_marks(ms))
            nt.allows_marks(ms)
    for ms in sets:
        for mk in pool:
            reg.see(mk.add_to_set(ms))
            reg.see(mk.remove_from_set(ms))
            mk.is_in_set(ms)
            reg.see(mk.type.remove_from_set(ms))
        reg.see(Mark.set_from(list(ms)))
        Mark.same_set(ms, sets[0])
    j = doc.to_json()
    j["__x__"] = 1           # scribbling on produced JSON must not reach the node
    if j.get("content"):
        j["content"].append(None)
    if j.get("attrs"):
        j["attrs"]["__x__"] = 1
    reg.see(Node.from_json(doc.type.schema, json.loads(json.dumps(doc.to_json()))))


def frame_case(rng, fam, g, doc, docs, nops):
    info = S.info_for(fam)
    reg = Registry()
    for shared in (Fragment.empty, Mark.none, Slice.empty, StepMap.empty):
        reg.see(shared)
    reg.see(doc)
    for d in docs[:3]:
        reg.see(d)
    tr = Transform(doc)
    problems = []
    acc_ok = True
    ops = []
    mapping_shadow = Mapping()
    for i in range(nops):
        before_steps = list(tr.steps)
        before_docs = list(tr.docs)
        before_maps = list(tr.mapping.maps)
        try:
            if rng.random() < 0.4:
                queries(rng, tr.doc, reg, docs)
                ops.append(["queries"])
            else:
                name, args = S.do_op(rng, g, tr, docs)
                ops.append([name, args])
        except (TransformError, ValueError) as e:
            ops.append(["rejected", type(e).__name__])
        except Exception as e:  # noqa: BLE001
            ops.append(["crash", f"{type(e).__name__}: {e}"[:100]])
        # accumulators: only appended to, element identity preserved
        if tr.steps[:len(before_steps)] != before_steps or tr.docs[:len(before_docs)] != before_docs \
                or tr.mapping.maps[:len(before_maps)] != before_maps:
            acc_ok = False
        for st in tr.steps[len(before_steps):]:
            reg.see(st)
            reg.see(st.get_map())
            try:
                reg.see(st.invert(tr.docs[tr.steps.index(st)]))
            except Exception:  # noqa: BLE001
                pass
        reg.see(tr.doc)
        # mapping operations on copies must leave the transform's mapping alone
        mp = tr.mapping.slice(0, len(tr.mapping.maps))
        inv = tr.mapping.invert()
        cp = tr.mapping.copy()
        cp.append_mapping(inv)
        cp.map(rng.randint(0, 5))
        ch = reg.changed()
        if ch:
            problems.append({"after_op": i, "op": ops[-1], "changed": ch[:3]})
            break
    hist, cur = S.observe_history(info, doc, tr.steps)
    coq = (f"CFrame @S@ {info.node(doc)} {lst(a.term() for a in hist)} {info.node(tr.doc)} "
           f"{b(not problems)} {b(acc_ok)}")
    desc = {"case": "frame", "family": fam, "doc": doc.to_json(), "ops": ops, "problems": problems,
            "accumulators_append_only": acc_ok, "objects_tracked": len(reg.objs)}
    return Case(coq=coq, desc=desc, schema=info.schema_term(), kind="frame-history", nontrivial=len(tr.steps) > 0)


def generate(rng: random.Random, tier: str):
    quick = tier == "quick"
    for fam in gen.FAMILY:
        g, docs = S.family_docs(rng, fam, 8 if quick else 80, maxsize=50)
        for doc in docs:
            for _ in range(3 if quick else 8):
                yield frame_case(rng, fam, g, doc, docs, rng.randint(2, 6 if quick else 10))


    # arguments the CALLER owns (appended stream): mark lists in arbitrary order and attribute dicts handed to the
    # constructors must come back as they went in
    for fam in gen.FAMILY:
        g, docs = S.family_docs(rng, fam, 3 if quick else 30, maxsize=40)
        for doc in docs:
            yield caller_args_case(rng, fam, g, doc)


def caller_args_case(rng, fam, g, doc):
    info = S.info_for(fam)
    sc = gen.family(fam)
    reg = Registry()
    for shared in (Fragment.empty, Mark.none, Slice.empty, StepMap.empty):
        reg.see(shared)
    reg.see(doc)
    problems = []
    ops = []

    def unsorted_marks():
        ms = [S.rand_mark(rng, sc) for _ in range(rng.randint(2, 3))]
        ms.sort(key=lambda m: -m.type.rank)
        return ms
    tb = [t for t in sc.nodes.values() if t.is_textblock and not t.has_required_attrs()]
    for _ in range(6):
        ms = unsorted_marks()
        reg.see(ms)
        before = snap(ms)
        kind = rng.choice(["text", "create", "mark", "set_from", "set_node_markup", "add_to_set"])
        try:
            if kind == "text":
                n = sc.text("t", ms)
                reg.see(n)
            elif kind == "create" and tb:
                n = rng.choice(tb).create(None, sc.text("x"), ms)
                reg.see(n)
            elif kind == "mark":
                n = sc.text("u").mark(ms)
                reg.see(n)
            elif kind == "set_from":
                reg.see(Mark.set_from(ms))
            elif kind == "add_to_set":
                reg.see(S.rand_mark(rng, sc).add_to_set(ms))
            elif kind == "set_node_markup":
                tr = Transform(doc)
                pos = [p for p, n in S.all_positions_with_nodes(doc) if not n.is_text]
                if pos:
                    p0 = rng.choice(pos)
                    tr.set_node_markup(p0, None, None, ms)
                    reg.see(tr.doc)
        except (TransformError, ValueError):
            pass
        except Exception as e:  # noqa: BLE001
            ops.append(["crash", kind, f"{type(e).__name__}: {e}"[:100]])
        ops.append([kind, [m.to_json() for m in ms]])
        if snap(ms) != before:
            problems.append({"after_op": len(ops) - 1, "op": ops[-1], "changed": [{"kind": "caller-list", "before": str(before)[:200], "after": str(snap(ms))[:200]}]})
            break
        ch = reg.changed()
        if ch:
            problems.append({"after_op": len(ops) - 1, "op": ops[-1], "changed": ch[:3]})
            break
    coq = f"CFrame @S@ {info.node(doc)} [] {info.node(doc)} {b(not problems)} true"
    desc = {"case": "frame", "family": fam, "doc": doc.to_json(), "ops": ops, "problems": problems,
            "accumulators_append_only": True, "objects_tracked": len(reg.objs)}
    return Case(coq=coq, desc=desc, schema=info.schema_term(), kind="caller-arguments", nontrivial=True)


def coverage(cases):
    return {"objects_tracked_total": sum(c.desc.get("objects_tracked", 0) for c in cases)}


def rebuild(desc):
    raise NotImplementedError


def classify(case):
    return None
