"""Shared machinery of the correspondence checks.

A property module provides
  ID, CORR_MODULE (Coq module under PM.Corr defining `case`, `agree`, `holds`),
  THEOREM_FILE (coq/Properties/<ID>.v), generate(rng, tier) -> iterable of Case,
  classify(case) -> finding id or None   (for known_findings.json matching)
The comparison model-vs-implementation and the evaluation of the property
predicates on the implementation's observations both happen inside Coq
(vm_compute); this module only writes case files, runs coqc, and parses two
lists of indices.
"""
from __future__ import annotations

import hashlib
import json
import os
import re
import shutil
import subprocess
import sys
import time
from concurrent.futures import ThreadPoolExecutor
from dataclasses import dataclass, field
from typing import Any, Callable, Iterable

VERIF = os.path.dirname(os.path.dirname(os.path.abspath(__file__)))
COQ = os.path.join(VERIF, "coq")
# VERIF_OUT redirects scratch / replay / evidence output (used by the mutation sweep, which runs several checks at once)
_OUT = os.environ.get("VERIF_OUT", VERIF)
WORK = os.path.join(_OUT, "work")
REPLAY = os.path.join(_OUT, "replay")
EVID = os.path.join(_OUT, "evidence")
JOBS = int(os.environ.get("VERIF_JOBS", "16"))


# ----------------------------------------------------------------- Coq term printing
def z(n: int) -> str:
    n = int(n)
    return str(n) if n >= 0 else f"({n})"


def nat(n: int) -> str:
    assert n >= 0
    return f"{int(n)}%nat"


def N(n: int) -> str:
    assert n >= 0
    return f"{int(n)}%N"


def b(x: bool) -> str:
    return "true" if x else "false"


def lst(items: Iterable[str]) -> str:
    return "[" + "; ".join(items) + "]"


def opt(x: Any, f: Callable[[Any], str]) -> str:
    return "None" if x is None else f"(Some {f(x)})"


def coq_string(s: str) -> str:
    assert all(32 <= ord(c) < 127 for c in s), s
    return '"' + s.replace('"', '""') + '"%string'


# ----------------------------------------------------------------- cases
@dataclass
class Case:
    coq: str                      # Gallina term of type `case`
    desc: Any                     # JSON-able description (inputs + implementation observations)
    key: Any = None               # for counting distinct cases (default: hash of coq term)
    nontrivial: bool = True
    kind: str = ""                # stream / operation kind, for the distribution report
    defs: str = ""                # optional extra definitions this case needs (emitted before it)
    schema: str = ""              # optional schema term; the case term refers to it as @S@ (shared per file)

    def hkey(self) -> str:
        k = self.key if self.key is not None else self.coq
        return hashlib.sha1(repr(k).encode()).hexdigest()


@dataclass
class RunResult:
    n_cases: int = 0
    disagree: list[int] = field(default_factory=list)     # model != implementation
    prop_fail: list[int] = field(default_factory=list)    # property predicate false on implementation output
    coq_errors: list[str] = field(default_factory=list)
    wall: float = 0.0


def _write_case_file(path: str, module: str, prelude: str, cases: list[Case]) -> None:
    with open(path, "w") as f:
        f.write("From Coq Require Import ZArith NArith List Bool String.\n")
        f.write(f"From PM Require Import Model.Data Model.Mark Model.Tree Corr.Common {module}.\n")
        f.write("Import ListNotations.\nOpen Scope Z_scope.\n")
        f.write(prelude + "\n")
        schemas: dict[str, str] = {}
        for i, c in enumerate(cases):
            if c.schema:
                if c.schema not in schemas:
                    schemas[c.schema] = f"sch_{len(schemas)}"
                    f.write(f"Definition {schemas[c.schema]} : schema := {c.schema}.\n")
            if c.defs:
                f.write(c.defs.replace("@I@", str(i)) + "\n")
            term = c.coq.replace('@I@', str(i))
            if c.schema:
                term = term.replace('@S@', schemas[c.schema])
            f.write(f"Definition c_{i} : case := {term}.\n")
        f.write("Definition cases : list case := " + lst(f"c_{i}" for i in range(len(cases))) + ".\n")
        f.write("Eval vm_compute in (failing agree cases).\n")
        f.write("Eval vm_compute in (failing holds cases).\n")


_LIST_RE = re.compile(r"=\s*(\[[^\]]*\])\s*:\s*list nat", re.S)


def _run_coqc(path: str, timeout: int) -> tuple[list[int], list[int], str | None]:
    try:
        p = subprocess.run(
            ["coqc", "-Q", COQ, "PM", path],
            capture_output=True, text=True, timeout=timeout, cwd=os.path.dirname(path),
        )
    except subprocess.TimeoutExpired:
        return [], [], f"coqc timeout on {path}"
    out = p.stdout
    if p.returncode != 0:
        return [], [], f"coqc failed on {path}: {p.stderr[-2000:]}"
    found = _LIST_RE.findall(out)
    if len(found) != 2:
        return [], [], f"unexpected coqc output on {path}: {out[-500:]}"
    parse = lambda s: [int(x) for x in re.findall(r"\d+", s)]
    return parse(found[0]), parse(found[1]), None


def run_cases(prop: str, module: str, cases: list[Case], prelude: str = "", shard: int = 300,
              timeout: int = 900, tag: str = "run") -> RunResult:
    """Evaluate `agree` and `holds` on every case inside Coq."""
    t0 = time.time()
    wd = os.path.join(WORK, f"{prop}-{tag}-{os.getpid()}")
    shutil.rmtree(wd, ignore_errors=True)
    os.makedirs(wd)
    res = RunResult(n_cases=len(cases))
    files = []
    for k in range(0, len(cases), shard):
        path = os.path.join(wd, f"cases_{k // shard:04d}.v")
        _write_case_file(path, module, prelude, cases[k:k + shard])
        files.append((k, path))
    with ThreadPoolExecutor(max_workers=JOBS) as ex:
        outs = list(ex.map(lambda kp: _run_coqc(kp[1], timeout), files))
    for (k, path), (dis, pf, err) in zip(files, outs):
        if err:
            res.coq_errors.append(err)
        res.disagree += [k + i for i in dis]
        res.prop_fail += [k + i for i in pf]
    if not res.coq_errors and not os.environ.get("VERIF_KEEP"):
        shutil.rmtree(wd, ignore_errors=True)
    res.wall = time.time() - t0
    return res


# ----------------------------------------------------------------- proofs
FORBIDDEN = re.compile(
    r"\b(Admitted|admit|Axiom|Axioms|Parameter|Parameters|Conjecture|Admit Obligations|"
    r"Unset Guard Checking|Unset Positivity Checking|Unset Universe Checking|bypass_check|"
    r"Hypothesis|Hypotheses|Variable|Variables)\b")


def scan_forbidden() -> list[str]:
    """Forbidden vernacular anywhere in the development.  Variable/Hypothesis are
    allowed only inside a Section (checked by a simple nesting count)."""
    bad = []
    for root, _, names in os.walk(COQ):
        for n in names:
            if not n.endswith(".v"):
                continue
            p = os.path.join(root, n)
            depth = 0
            txt = open(p).read()
            txt = re.sub(r"\(\*.*?\*\)", "", txt, flags=re.S)
            for ln, line in enumerate(txt.splitlines(), 1):
                if re.match(r"\s*Section\b", line):
                    depth += 1
                if re.match(r"\s*End\b", line) and depth:
                    depth -= 1
                for m in FORBIDDEN.finditer(line):
                    w = m.group(1)
                    if w in ("Variable", "Variables", "Hypothesis", "Hypotheses") and depth > 0:
                        continue
                    bad.append(f"{p}:{ln}: {w}")
    return bad


def build_coq(clean: bool = False, timeout: int = 3000) -> tuple[bool, str]:
    """Full .vo build of the development (incremental unless clean)."""
    if os.environ.get("VERIF_NO_BUILD") == "1":     # mutation sweep: the development was built once, sources untouched
        return True, "build skipped (VERIF_NO_BUILD)"
    try:
        if clean and os.path.exists(os.path.join(COQ, "Makefile")):
            subprocess.run(["make", "clean"], cwd=COQ, capture_output=True, timeout=300)
        p = subprocess.run(["coq_makefile", "-f", "_CoqProject", "-o", "Makefile"], cwd=COQ,
                           capture_output=True, text=True, timeout=120)
        if p.returncode != 0:
            return False, p.stderr
        p = subprocess.run(["make", f"-j{JOBS}"], cwd=COQ, capture_output=True, text=True, timeout=timeout)
        return p.returncode == 0, (p.stdout + p.stderr)[-4000:]
    except subprocess.TimeoutExpired:
        return False, "make timeout"


def theorem_info(prop: str) -> dict:
    """Re-check Properties/<prop>.v on its own and collect Print Assumptions output."""
    path = os.path.join(COQ, "Properties", f"{prop}.v")
    info = {"file": path, "theorems": [], "assumptions": [], "ok": False, "closed": False}
    if not os.path.exists(path):
        info["error"] = "no theorem file"
        return info
    txt = open(path).read()
    info["theorems"] = re.findall(r"^\s*(?:Theorem|Corollary)\s+(\w+)", txt, flags=re.M)
    try:
        cmd = ["coqc", "-Q", COQ, "PM", path]
        if os.environ.get("VERIF_NO_BUILD") == "1":     # several checks at once: do not write into the source tree
            od = os.path.join(WORK, f"thm-{os.getpid()}")
            os.makedirs(od, exist_ok=True)
            cmd = ["coqc", "-Q", COQ, "PM", "-o", os.path.join(od, f"{prop}.vo"), path]
        p = subprocess.run(cmd, capture_output=True, text=True,
                           timeout=900, cwd=os.path.join(COQ, "Properties"))
    except subprocess.TimeoutExpired:
        info["error"] = "coqc timeout"
        return info
    info["ok"] = p.returncode == 0
    if not info["ok"]:
        info["error"] = p.stderr[-2000:]
        return info
    out = p.stdout
    n_closed = out.count("Closed under the global context")
    axioms = sorted(set(re.findall(r"^(\w[\w.']*)\s*:", out, flags=re.M)))
    info["closed_count"] = n_closed
    info["axioms"] = axioms
    info["closed"] = (n_closed == len(info["theorems"]) and not axioms)
    info["print_assumptions"] = out[-3000:]
    return info


# ----------------------------------------------------------------- known findings
def load_findings(prop: str) -> dict[str, dict]:
    p = os.path.join(VERIF, "known_findings.json")
    if not os.path.exists(p):
        return {}
    data = json.load(open(p))
    return {e["id"]: e for e in data.get("findings", []) if e["property"] == prop and e.get("kind") == "known"}


# ----------------------------------------------------------------- verdict + evidence
def write_replay(prop: str, payload: dict) -> str:
    os.makedirs(REPLAY, exist_ok=True)
    h = hashlib.sha1(json.dumps(payload, sort_keys=True, default=str).encode()).hexdigest()[:12]
    path = os.path.join(REPLAY, f"{prop}-{h}.json")
    with open(path, "w") as f:
        json.dump(payload, f, indent=1, default=str)
    return path


def write_evidence(prop: str, tier: str, seed: int, level: str, coverage: dict, assumptions: list[str],
                   wall: float, violations: int) -> None:
    os.makedirs(EVID, exist_ok=True)
    ev = {
        "property_id": prop, "tier": tier, "seed": seed, "level": level,
        "coverage": coverage, "assumptions": assumptions, "wall_s": round(wall, 2),
        "violations": violations,
    }
    with open(os.path.join(EVID, f"{prop}.json"), "w") as f:
        json.dump(ev, f, indent=1, default=str)


def small(x: Any, limit: int = 1500) -> Any:
    s = json.dumps(x, default=str)
    return x if len(s) <= limit else s[:limit] + "..."
