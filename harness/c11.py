"""C11 — replace-family edits always succeed, stay valid and keep surrounding content."""
from __future__ import annotations

import random

import gen
import ops
import steps as S
from common import Case, b, nat
from prosemirror.model import Fragment, Node, Slice
from prosemirror.transform import Transform

ID = "C11"
CORR_MODULE = "Corr.C11"
LEVEL = "proof"
SHARD = 80

REPLACE_OPS = ["replace", "replace_with", "insert", "delete", "replace_range", "replace_range_with", "delete_range"]


def op_case(fam, doc: Node, op, a, c, sl: Slice | None, node: Node | None):
    info = S.info_for(fam)
    tr = Transform(doc)
    inserted = Slice.empty
    if op == "replace":
        inserted = sl
        f = lambda t: t.replace(a, c, sl)
    elif op == "replace_range":
        inserted = sl
        f = lambda t: t.replace_range(a, c, sl)
    elif op == "replace_with":
        inserted = Slice(Fragment.from_(node), 0, 0)
        f = lambda t: t.replace_with(a, c, node)
    elif op == "replace_range_with":
        inserted = Slice(Fragment.from_(node), 0, 0)
        f = lambda t: t.replace_range_with(a, c, node)
    elif op == "insert":
        inserted = Slice(Fragment.from_(node), 0, 0)
        c = a
        f = lambda t: t.insert(a, node)
    elif op == "delete":
        f = lambda t: t.delete(a, c)
    else:
        f = lambda t: t.delete_range(a, c)
    outcome, text = ops.run(tr, f)
    is_delete = op in ("delete", "delete_range")
    hist_t, hist_d = ops.hist_terms(info, doc, tr)
    coq = (f"CReplaceOp @S@ {info.node(doc)} {nat(a)} {nat(c)} {info.slice(inserted)} {b(is_delete)} "
           f"{b(outcome != 'ok')} {hist_t} {info.node(tr.doc)}")
    desc = {"case": "replace_op", "family": fam, "op": op, "doc": doc.to_json(), "from": a, "to": c,
            "slice": gen.slice_to_json(sl) if sl is not None else None, "node": node.to_json() if node is not None else None,
            "outcome": outcome, "error": text, "steps": hist_d, "final": tr.doc.to_json()}
    return Case(coq=coq, desc=desc, schema=info.schema_term(), kind=f"{op}/{outcome}", nontrivial=len(tr.steps) > 0)


def planner_case(fam, doc: Node, a, c, sl: Slice):
    """transform/replace.py: replace_step(doc, from, to, slice) — the step the fitter plans (or None), compared
    with Model.Fitter in Coq"""
    import pm
    from common import opt
    from prosemirror.transform.replace import replace_step
    info = S.info_for(fam)
    try:
        st = replace_step(doc, a, c, sl)
        ans = f"(AOptStep {opt(st, lambda x: S.step_term(info, x))})"
        short = "none" if st is None else type(st).__name__
    except Exception as e:  # noqa: BLE001
        ans = f"(AErr {pm.err_class(e)})"
        short = f"error:{type(e).__name__}"
    coq = f"CStruct @S@ {info.node(doc)} (QReplaceStep {nat(a)} {nat(c)} {info.slice(sl)}) {ans}"
    desc = {"case": "planner", "family": fam, "doc": doc.to_json(), "from": a, "to": c, "slice": gen.slice_to_json(sl),
            "answer": short}
    return Case(coq=coq, desc=desc, schema=info.schema_term(), kind=f"planner/{short.split(':')[0]}", nontrivial=True)


def delete_range_case(fam, doc: Node, a, c, sl=None):
    """Transform.delete_range(from, to) / replace_range(from, to, slice): the step it records, compared with
    Model.RangeOps (covered_depths, the choice of the range and of the open depth) + Model.Fitter"""
    import pm
    from common import opt
    info = S.info_for(fam)
    if sl is not None:
        return _replace_range_case(fam, doc, a, c, sl)
    try:
        tr = Transform(doc)
        tr.delete_range(a, c)
        st = tr.steps[-1] if tr.steps else None
        ans = f"(AOptStep {opt(st, lambda x: S.step_term(info, x))})"
        short = "none" if st is None else type(st).__name__
    except Exception as e:  # noqa: BLE001
        ans = f"(AErr {pm.err_class(e)})"
        short = f"error:{type(e).__name__}"
    coq = f"CStruct @S@ {info.node(doc)} (QDeleteRange {nat(a)} {nat(c)}) {ans}"
    desc = {"case": "delete_range_plan", "family": fam, "doc": doc.to_json(), "from": a, "to": c, "answer": short}
    return Case(coq=coq, desc=desc, schema=info.schema_term(), kind=f"delete_range_plan/{short.split(':')[0]}", nontrivial=True)


def _replace_range_case(fam, doc: Node, a, c, sl: Slice):
    import pm
    from common import opt
    info = S.info_for(fam)
    try:
        tr = Transform(doc)
        tr.replace_range(a, c, sl)
        st = tr.steps[-1] if tr.steps else None
        ans = f"(AOptStep {opt(st, lambda x: S.step_term(info, x))})"
        short = "none" if st is None else type(st).__name__
    except Exception as e:  # noqa: BLE001
        ans = f"(AErr {pm.err_class(e)})"
        short = f"error:{type(e).__name__}"
    coq = f"CStruct @S@ {info.node(doc)} (QReplaceRange {nat(a)} {nat(c)} {info.slice(sl)}) {ans}"
    desc = {"case": "replace_range_plan", "family": fam, "doc": doc.to_json(), "from": a, "to": c,
            "slice": gen.slice_to_json(sl), "answer": short}
    return Case(coq=coq, desc=desc, schema=info.schema_term(), kind=f"replace_range_plan/{short.split(':')[0]}", nontrivial=True)


def generate(rng: random.Random, tier: str):
    quick = tier == "quick"
    for fam in gen.FAMILY + gen.EXTRA_FAMILY:
        g, docs = S.family_docs(rng, fam, 10 if quick else 150)
        sc = gen.family(fam)
        for doc in docs:
            for _ in range(20 if quick else 80):
                op = rng.choice(REPLACE_OPS)
                a, c = S.rand_range(rng, doc)
                sl = g.slice_from(rng.choice(docs)) if rng.random() < 0.85 else Slice.empty
                other = rng.choice(docs)
                pool = [n for _, n in S.all_positions_with_nodes(other)]
                node = rng.choice(pool) if pool and rng.random() < 0.8 else sc.text("t\U0001F600", g.marks_for(sc.nodes["paragraph"]))
                if op == "replace_range_with" and node.is_text:
                    node = rng.choice([n for n in pool if not n.is_text] or [sc.nodes["paragraph"].create()])
                yield op_case(fam, doc, op, a, c, sl, node)
                if op in ("replace", "replace_with", "insert", "delete"):
                    psl = sl if op == "replace" else (Slice.empty if op == "delete" else Slice(Fragment.from_(node), 0, 0))
                    yield planner_case(fam, doc, a, a if op == "insert" else c, psl)
                if op == "delete_range":
                    yield delete_range_case(fam, doc, a, c)
                if op == "replace_range":
                    yield delete_range_case(fam, doc, a, c, sl)


    # a dense stream for the planner alone (cheap: no history is recorded): replace_step / delete_range /
    # replace_range asked for many ranges and slices - slices cut across several levels (open on both sides to
    # different depths), slices ending inside nodes with required content, ranges whose ends lie in different top-level
    # nodes (one inside an isolating node, one outside)
    for fam in gen.FAMILY + gen.EXTRA_FAMILY:
        g, docs = S.family_docs(rng, fam, 8 if quick else 80)
        for doc in docs:
            ps = S.boundary_positions(doc)
            deep = _deep_positions(doc, ps)
            for _ in range((40 if fam in ("strict", "iso", "isoli", "table") else 20) if quick else 80):
                a, c = sorted((rng.choice(deep if rng.random() < 0.5 else ps), rng.choice(deep if rng.random() < 0.5 else ps)))
                src = rng.choice(docs)
                sps = S.boundary_positions(src)
                sdeep = _deep_positions(src, sps)
                x, y = sorted((rng.choice(sdeep if rng.random() < 0.6 else sps), rng.choice(sdeep if rng.random() < 0.6 else sps)))
                try:
                    sl = src.slice(x, y, rng.random() < 0.2)
                except ValueError:
                    sl = Slice.empty
                r = rng.random()
                if r < 0.5:
                    yield planner_case(fam, doc, a, c, sl)
                elif r < 0.7:
                    yield delete_range_case(fam, doc, a, c)
                else:
                    yield delete_range_case(fam, doc, a, c, sl)


    # replace_range_with of a BLOCK node into an empty range at the very start / end of a textblock (appended stream):
    # insert_point may move the insertion out of the textblock only past positions with nothing in between, so the
    # content in front of the range stays in front of the inserted node (seeded change C11-8: the `index > 0` stop of the
    # climb was dropped and the node landed in front of earlier siblings)
    for fam in gen.FAMILY + gen.EXTRA_FAMILY:
        g, docs = S.family_docs(rng, fam, 8 if quick else 60)
        sc = gen.family(fam)
        made = [sc.nodes[name].create_and_fill() for name in ("code_block", "heading", "horizontal_rule", "blockquote", "bullet_list")
                if name in sc.nodes]
        made = [n for n in made if n is not None]
        for doc in docs:
            edges = []
            for p in S.boundary_positions(doc):
                rp = doc.resolve(p)
                if not rp.parent.is_textblock or rp.depth < 2:
                    continue
                if rp.parent_offset == 0 and any(rp.index(d) > 0 for d in range(rp.depth)):
                    edges.append(p)       # an earlier sibling somewhere up the chain: the climb must stop there
                elif rp.parent_offset == rp.parent.content.size and any(rp.index_after(d) < rp.node(d).child_count for d in range(rp.depth)):
                    edges.append(p)       # a later sibling somewhere up the chain
            pool = [n for d2 in docs[:4] for _, n in S.all_positions_with_nodes(d2) if n.is_block]
            rng.shuffle(edges)
            for p in edges[: (4 if quick else 12)]:
                for n in made:
                    yield op_case(fam, doc, "replace_range_with", p, p, None, n)
                if pool:
                    yield op_case(fam, doc, "replace_range_with", p, p, None, rng.choice(pool))


def _deep_positions(doc, ps):
    """the deepest third of the positions (inside nested lists, cells, figures): slices cut between them are open to
    several levels and ranges between them close and re-open several nodes"""
    ds = sorted(ps, key=lambda p: -doc.resolve(p).depth)
    return ds[: max(1, len(ds) // 3)]


def rebuild(desc):
    sc = gen.family(desc["family"])
    if desc.get("case") == "replace_range_plan":
        return delete_range_case(desc["family"], Node.from_json(sc, desc["doc"]), desc["from"], desc["to"],
                                 gen.slice_from_json(sc, desc["slice"]))
    if desc.get("case") == "delete_range_plan":
        return delete_range_case(desc["family"], Node.from_json(sc, desc["doc"]), desc["from"], desc["to"])
    if desc.get("case") == "planner":
        doc = Node.from_json(sc, desc["doc"])
        return planner_case(desc["family"], doc, desc["from"], desc["to"], gen.slice_from_json(sc, desc["slice"]))
    doc = Node.from_json(sc, desc["doc"])
    sl = gen.slice_from_json(sc, desc["slice"]) if desc.get("slice") else None
    node = Node.from_json(sc, desc["node"]) if desc.get("node") else None
    return op_case(desc["family"], doc, desc["op"], desc["from"], desc["to"], sl, node)


def classify(case):
    d = case.desc
    # known upstream semantics: the fitter gives up (no step) and the operation silently does nothing
    if d.get("outcome") == "ok" and not d.get("steps") and d["op"] not in ("delete", "delete_range"):
        return "C11-silent-noop"
    return None
